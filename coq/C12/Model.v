(* C12 — hardware compilation conforms to the device and preserves the experiment.
   Models (definitions only) of the bookkeeping code the property anchors:

   1. compilers/compiler.py  Range.__contains__, Ranges.__contains__;
      device.py              Device.validate_parameters (incl. _flatten)
   2. program.py             Program.assert_modes (integer and dictionary form);
      tdm/program.py         TDMProgram.assert_modes
   3. compilers/xunitary.py  list_duplicates, the S2gate checks, insertion of zero squeezers and the
                             merge of repeated squeezers (pop / insert index arithmetic, dagger sign) of
                             Xunitary.compile; the pre-fix version is kept as *_old
   4. compilers/tdm.py       Borealis.update_params phase pipeline (over Q, pi an arbitrary positive rational:
                             np.pi *is* a rational, and so is every binary64 the code computes with)
   5. compilers/tdm.py       Borealis.compile loop-offset insertion

   Numeric carriers are Section variables: the same definition is executed at PrimFloat by the
   correspondence check (bit-exact w.r.t. Python's binary64 for the comparisons involved) and the theorems
   hold for every carrier. *)
From Coq Require Import List Arith Bool ZArith QArith Qround.
Import ListNotations.
Close Scope Q_scope.
Open Scope nat_scope.

(* ------------------------------------------------------------------------------------------ *)
(** * 1. Range / Ranges / Device.validate_parameters *)
Section Ranges.
  Variable K : Type.
  Variables add sub : K -> K -> K.
  Variable leb : K -> K -> bool.

  Record range := mkRange { lo : K; hi : K; atol : K }.

  (* Range.__contains__:  self.x - self.atol <= item <= self.y + self.atol *)
  Definition in_range (r : range) (v : K) : bool :=
    leb (sub (lo r) (atol r)) v && leb v (add (hi r) (atol r)).

  (* Ranges.__contains__ *)
  Definition in_ranges (rs : list range) (v : K) : bool := existsb (fun r => in_range r v) rs.

  (* a parameter value: a scalar or an Iterable of values (nested arbitrarily) *)
  Inductive ptree := Leaf (v : K) | Node (ch : list ptree).

  (* Device.validate_parameters._flatten *)
  Fixpoint flatten (t : ptree) : list K :=
    match t with Leaf v => [v] | Node ch => flat_map flatten ch end.

  Inductive vres := VOk | VUnknown (p : nat) | VInvalid (p : nat) (v : K).

  Fixpoint lookup {B} (p : nat) (gp : list (nat * B)) : option B :=
    match gp with
    | [] => None
    | (q, b) :: gp' => if Nat.eqb p q then Some b else lookup p gp'
    end.

  Fixpoint first_bad (rs : list range) (vs : list K) : option K :=
    match vs with
    | [] => None
    | v :: vs' => if in_ranges rs v then first_bad rs vs' else Some v
    end.

  (* the loop `for p, v in parameters.items()` *)
  Fixpoint validate (gp : list (nat * list range)) (ps : list (nat * ptree)) : vres :=
    match ps with
    | [] => VOk
    | (p, t) :: ps' =>
        match lookup p gp with
        | None => VUnknown p
        | Some rs =>
            match first_bad rs (flatten t) with
            | Some v => VInvalid p v
            | None => validate gp ps'
            end
        end
    end.

  (* `if self.gate_parameters is None: return` *)
  Definition validate_parameters (gp : option (list (nat * list range))) (ps : list (nat * ptree)) : vres :=
    match gp with None => VOk | Some g => validate g ps end.
End Ranges.
Arguments Leaf {K}. Arguments Node {K}.
Arguments VOk {K}. Arguments VUnknown {K}. Arguments VInvalid {K}.
Arguments mkRange {K}. Arguments lo {K}. Arguments hi {K}. Arguments atol {K}.

(* ------------------------------------------------------------------------------------------ *)
(** * 2. assert_modes *)
Inductive mkind := KFock | KHomodyne | KHeterodyne | KOther.
Record mcmd := mkM { mk : mkind; nreg : nat }.
(* which limit was exceeded: 0 modes, 1 pnr, 2 homodyne, 3 heterodyne, 4 temporal, 5 concurrent, 6 spatial *)
Inductive amres := AMOk | AMCircuitError (which : nat) | AMKeyError.

Definition assert_modes_int (modes_total dev_modes : nat) : amres :=
  if dev_modes <? modes_total then AMCircuitError 0 else AMOk.

Record mdict := mkD { pnr_max : option nat; hom_max : option nat; het_max : option nat }.

(* the counting loop with its three accumulators *)
Fixpoint count_loop (c : list mcmd) (acc : nat * nat * nat) : nat * nat * nat :=
  match c with
  | [] => acc
  | x :: c' =>
      let '(p, h, t) := acc in
      count_loop c' match mk x with
                    | KFock => (p + nreg x, h, t)
                    | KHomodyne => (p, h + nreg x, t)
                    | KHeterodyne => (p, h, t + nreg x)
                    | KOther => (p, h, t)
                    end
  end.

Definition assert_modes_dict (d : mdict) (c : list mcmd) : amres :=
  match pnr_max d, hom_max d, het_max d with
  | Some a, Some b, Some e =>
      let '(p, h, t) := count_loop c (0, 0, 0) in
      if a <? p then AMCircuitError 1
      else if b <? h then AMCircuitError 2
      else if e <? t then AMCircuitError 3
      else AMOk
  | _, _, _ => AMKeyError
  end.

Definition tdm_assert_modes (timebins concurr spatial tmax dconc dspat : nat) : amres :=
  if tmax <? timebins then AMCircuitError 4
  else if negb (concurr =? dconc) then AMCircuitError 5
  else if negb (spatial =? dspat) then AMCircuitError 6
  else AMOk.

(* ------------------------------------------------------------------------------------------ *)
(** * 3. Xunitary: S2gate checks, zero squeezers, merge of repeated squeezers *)
Definition key := (nat * nat)%type.
Definition key_eqb (a b : key) : bool := Nat.eqb (fst a) (fst b) && Nat.eqb (snd a) (snd b).

(* positions (ascending) at which k occurs, counted from offset o *)
Fixpoint positions_from (o : nat) (k : key) (l : list key) : list nat :=
  match l with
  | [] => []
  | x :: l' => if key_eqb x k then o :: positions_from (S o) k l' else positions_from (S o) k l'
  end.
Definition positions := positions_from 0.

Definition mem_key (k : key) (l : list key) : bool := existsb (key_eqb k) l.

(* keys in order of first occurrence (dict insertion order of `tally`) *)
Fixpoint first_occ (seen l : list key) : list key :=
  match l with
  | [] => []
  | x :: l' => if mem_key x seen then first_occ seen l' else x :: first_occ (x :: seen) l'
  end.

(* list_duplicates(seq): (key, locs) for keys with more than one location, in dict order *)
Definition list_duplicates (keys : list key) : list (key * list nat) :=
  filter (fun kl => 1 <? length (snd kl)) (map (fun k => (k, positions k keys)) (first_occ [] keys)).

Section S2.
  Variable K : Type.
  Variable kzero : K.
  Variable kadd : K -> K -> K.
  Variable kneg : K -> K.             (* unary minus *)
  Variable kneq : K -> K -> bool.     (* Python `!=` on the phase values *)

  (* an S2gate command: modes, r, phi and the dagger flag of the operation *)
  Record s2 := mkS2 { mi : nat; mj : nat; sr : K; sphi : K; sdag : bool }.
  Definition s2key (c : s2) : key := (mi c, mj c).

  Inductive res (A : Type) := Ok (a : A) | CircuitErr (code : nat) | IndexErr.
  Arguments Ok {A}. Arguments CircuitErr {A}. Arguments IndexErr {A}.

  (* list.pop(i) for 0 <= i *)
  Fixpoint pop_at {A} (i : nat) (l : list A) : option (A * list A) :=
    match l, i with
    | [], _ => None
    | x :: l', 0 => Some (x, l')
    | x :: l', S i' => match pop_at i' l' with Some (y, r) => Some (y, x :: r) | None => None end
    end.

  (* list.insert(i, x) for 0 <= i : clamps at the end *)
  Fixpoint insert_at {A} (i : nat) (x : A) (l : list A) : list A :=
    match i, l with
    | 0, _ => x :: l
    | S i', [] => [x]
    | S i', y :: l' => y :: insert_at i' x l'
    end.

  (* `-removed_cmd.op.p[0] if removed_cmd.op.dagger else removed_cmd.op.p[0]` *)
  Definition signed_r (c : s2) : K := if sdag c then kneg (sr c) else sr c.

  (* the inner loop  `for k, i in enumerate(sorted(indices, reverse=True))`;
     first = (k == 0); state (B, r, phi); `rof` is what is added to r for a removed command *)
  Fixpoint pop_loop_gen (rof : s2 -> K) (idx : list nat) (first : bool) (B : list s2) (r phi : K) : res (list s2 * K * K) :=
    match idx with
    | [] => Ok (B, r, phi)
    | i :: idx' =>
        match pop_at i B with
        | None => IndexErr
        | Some (c, B') =>
            if negb first && kneq (sphi c) phi then CircuitErr 3
            else pop_loop_gen rof idx' false B' (kadd r (rof c)) (sphi c)
        end
    end.
  Definition pop_loop := pop_loop_gen signed_r.

  (* the outer loop  `for mode, _ in list(list_duplicates(regrefs))`: the keys with repeated squeezers are
     fixed beforehand, the locations of each key are computed on the CURRENT list *)
  Fixpoint merge_loop (dups : list key) (B : list s2) : res (list s2) :=
    match dups with
    | [] => Ok B
    | k :: dups' =>
        let idx := positions k (map s2key B) in
        match pop_loop (rev idx) true B kzero kzero with
        | Ok (B', r, phi) => merge_loop dups' (insert_at (hd 0 idx) (mkS2 (fst k) (snd k) r phi false) B')
        | CircuitErr c => CircuitErr c
        | IndexErr => IndexErr
        end
    end.

  (* regrefs.issubset(allowed_modes) with allowed_modes = {(m, m + N)} *)
  Definition allowed (N : nat) (c : s2) : bool := (mi c <? N) && (mj c =? mi c + N).

  (* `for i, j in missing: B.insert(0, S2gate(0, 0) | (i, j))`; `miss` is the iteration order of the set *)
  Definition add_missing (N : nat) (miss : list nat) (B : list s2) : list s2 :=
    fold_left (fun B i => mkS2 i (i + N) kzero kzero false :: B) miss B.

  (* the S2gate part of Xunitary.compile, from the B returned by group_operations to the B returned *)
  Definition s2_stage (N : nat) (miss : list nat) (B : list s2) : res (list s2) :=
    if negb (forallb (allowed N) B) then CircuitErr 2
    else
      let B1 := add_missing N miss B in
      let regrefs := map s2key B1 in
      if N <? length regrefs then merge_loop (map fst (list_duplicates regrefs)) B1 else Ok B1.

  (* ---- the stage as it stood before the "fix:" commits 40078be / ece8029 (locations computed once, before any
     pop or insert; dagger flag ignored): kept so that the refutations stay machine-checked ---- *)
  Fixpoint merge_loop_old (dups : list (key * list nat)) (B : list s2) : res (list s2) :=
    match dups with
    | [] => Ok B
    | (k, idx) :: dups' =>
        match pop_loop_gen sr (rev idx) true B kzero kzero with
        | Ok (B', r, phi) => merge_loop_old dups' (insert_at (hd 0 idx) (mkS2 (fst k) (snd k) r phi false) B')
        | CircuitErr c => CircuitErr c
        | IndexErr => IndexErr
        end
    end.
  Definition s2_stage_old (N : nat) (miss : list nat) (B : list s2) : res (list s2) :=
    if negb (forallb (allowed N) B) then CircuitErr 2
    else
      let B1 := add_missing N miss B in
      let regrefs := map s2key B1 in
      if N <? length regrefs then merge_loop_old (list_duplicates regrefs) B1 else Ok B1.
End S2.
Arguments Ok {A}. Arguments CircuitErr {A}. Arguments IndexErr {A}.
Arguments mkS2 {K}. Arguments mi {K}. Arguments mj {K}. Arguments sr {K}. Arguments sphi {K}. Arguments sdag {K}.

(* ------------------------------------------------------------------------------------------ *)
(** * 4. Borealis.update_params phase pipeline (exact rational arithmetic) *)
Open Scope Q_scope.
Definition qmod (x p : Q) : Q := x - inject_Z (Qfloor (x / p)) * p.   (* np.mod(x, p), p > 0 *)

Definition Qltb (a b : Q) : bool := negb (Qle_bool b a).

(* phi = mod(phi, 2pi); phi = where(phi > pi, phi - 2pi, phi);
   low = phi < lo; high = phi > hi; phi = where(low, phi + pi, phi); phi = where(high, phi - pi, phi) *)
Definition fix_phase (pi lo hi x : Q) : Q :=
  let m := qmod x (2 * pi) in
  let w := if Qltb pi m then m - 2 * pi else m in
  let low := Qltb w lo in
  let high := Qltb hi w in
  let w1 := if low then w + pi else w in
  if high then w1 - pi else w1.

Definition corr_of (offset : Q) (delay : nat) (j : nat) : Q := offset * inject_Z (Z.of_nat (Nat.div j delay)).

Fixpoint mapi_from {A B} (j : nat) (f : nat -> A -> B) (l : list A) : list B :=
  match l with [] => [] | a :: l' => f j a :: mapi_from (S j) f l' end.

Record loopin := mkLoop { l_offset : Q; l_delay : nat; l_user : bool; l_phis : list Q }.

(* np.any(corr_previous_loop) over the prog_length entries *)
Definition any_nonzero (cp : nat -> Q) (T : nat) : bool := existsb (fun j => negb (Qeq_bool (cp j) 0)) (seq 0 T).

(* Two variants of the `for loop, offset in enumerate(phi_loop)` loop, selected by `fx`:
   fx = false  the code as it stands:  `if user_offsets[loop]: continue`
   fx = true   the proposed repair (.work/C12/fix-borealis-partial-user-offsets.diff): a user-set loop is skipped only
               when there is no correction of the previous loop to undo; otherwise it is processed with corr_loop = 0.
   corr_prev is corr_previous_loop. *)
Definition eff_corr (fx : bool) (L : loopin) : nat -> Q :=
  if fx && l_user L then (fun _ => 0) else corr_of (l_offset L) (l_delay L).
Definition skips (fx : bool) (L : loopin) (cp : nat -> Q) : bool :=
  l_user L && (negb fx || negb (any_nonzero cp (length (l_phis L)))).

Fixpoint update_loops (fx : bool) (pi : Q) (loops : list loopin) (corr_prev : nat -> Q) : list (list Q) :=
  match loops with
  | [] => []
  | L :: rest =>
      if skips fx L corr_prev then l_phis L :: update_loops fx pi rest corr_prev
      else
        let corr := eff_corr fx L in
        mapi_from 0 (fun j phi => fix_phase pi (- (1 # 2) * pi) ((1 # 2) * pi) (phi + corr j - corr_prev j)) (l_phis L)
        :: update_loops fx pi rest corr
  end.

Definition update_params (fx : bool) (pi : Q) (loops : list loopin) : list (list Q) :=
  update_loops fx pi loops (fun _ => 0).

(* ------------------------------------------------------------------------------------------ *)
(** * 5. Borealis.compile: insertion of missing loop-offset gates *)
Close Scope Q_scope.
(* a command as the loop sees it: type(op), set of wires (sorted list), and whether _is_loop_offset holds;
   `tag` identifies the command object (layout commands and user commands carry different tags) *)
Record bcmd := mkB { b_type : nat; b_wires : list nat; b_off : bool; b_tag : nat; b_free : bool }.
(* b_free: the command carries an unbound template parameter (FreeParameter) other than a loop offset *)

Fixpoint list_nat_eqb (a b : list nat) : bool :=
  match a, b with
  | [], [] => true
  | x :: a', y :: b' => Nat.eqb x y && list_nat_eqb a' b'
  | _, _ => false
  end.

Definition ops_equal (c s : bcmd) : bool := Nat.eqb (b_type c) (b_type s) && list_nat_eqb (b_wires c) (b_wires s).

(* for i, cmds in enumerate(zip(circuit, seq)) with seq.insert(i, cmds[0]) during the iteration,
   followed by seq.extend(circuit[len(seq):]).  Returns the new seq and _user_offsets, or None for CircuitError.
   fx = false: the code as it stands (no _user_offsets entry for loop offsets that are appended with the tail);
   fx = true : the proposed repair (.work/C12/fix-borealis-truncated-program.diff): one `False` per appended offset,
               CircuitError if an appended gate other than a loop offset has an unbound template parameter *)
Fixpoint insert_offsets (fx : bool) (circ seq : list bcmd) : option (list bcmd * list bool) :=
  match circ with
  | [] => Some (seq, [])
  | c :: circ' =>
      match seq with
      | [] =>
          if fx then
            if forallb (fun x => b_off x || negb (b_free x)) circ
            then Some (circ, map (fun _ => false) (filter b_off circ))
            else None                                   (* CircuitError: a parametrised gate cannot be completed *)
          else Some (circ, [])
      | s :: seq' =>
          if b_off c then
            if ops_equal c s then
              match insert_offsets fx circ' seq' with
              | Some (out, uo) => Some (s :: out, true :: uo) | None => None end
            else
              match insert_offsets fx circ' seq with
              | Some (out, uo) => Some (c :: out, false :: uo) | None => None end
          else if ops_equal c s then
            match insert_offsets fx circ' seq' with
            | Some (out, uo) => Some (s :: out, uo) | None => None end
          else None
      end
  end.

(* ------------------------------------------------------------------------------------------ *)
(** * 6. Xunitary.compile: assembly of the returned circuit  `B + U1 + U2 + meas_seq` *)
(* U1 = Interferometer(U11, mesh="rectangular_symmetric")._decompose(registers[:N]); U2 = deepcopy(U1) with every
   register moved by N (`shift`) *)
Definition xunitary_assemble {G : Type} (sq U1 : list G) (shift : G -> G) (meas : G) : list G :=
  sq ++ U1 ++ map shift U1 ++ [meas].

(* net action of a command list in a monoid of N x N unitaries: later commands multiply from the left *)
Definition net {G M : Type} (mul : M -> M -> M) (one : M) (sem : G -> M) (l : list G) : M :=
  fold_left (fun acc g => mul (sem g) acc) l one.
