(* C12 — tdm/utils.py: the delay / padding arithmetic of vacuum_padding (definitions only), and a may-reach model of
   one delay loop that says what the computed delay means physically. *)
From Coq Require Import List Arith Bool.
Import ListNotations.

(* z : for each entry of a loop's BSgate argument list, whether it `== 0` (loop in the cross state in that bin) *)
(* start_zeros(alpha): index of the first non-zero entry, len(alpha) if there is none *)
Fixpoint start_zeros (z : list bool) : nat :=
  match z with true :: z' => S (start_zeros z') | _ => 0 end.

(* if not initial_zeros == len(alpha): min(start_zeros(alpha), max_delay)  else: max_delay *)
Definition delay_imposed (z : list bool) (max_delay : nat) : nat :=
  let iz := start_zeros z in
  if Nat.eqb iz (length z) then max_delay else Nat.min iz max_delay.

(* `for loop, max_delay in zip(sorted(loops), delays)`: prologue_bins and the final arrival_time *)
Fixpoint prologues (arrival : nat) (loops : list (list bool * nat)) : list nat * nat :=
  match loops with
  | [] => ([], arrival)
  | (z, d) :: rest =>
      let (p, a) := prologues (arrival + delay_imposed z d) rest in (arrival :: p, a)
  end.

(* (prologue_bins, epilogue_bins, crop) *)
Definition padding_plan (loops : list (list bool * nat)) : list nat * list nat * nat :=
  let (p, a) := prologues 0 loops in (p, map (fun x => a - x) p, a).

(* [0] * prologue + args + [0] * epilogue *)
Definition pad {A} (zero : A) (pro epi : nat) (l : list A) : list A := repeat zero pro ++ l ++ repeat zero epi.

(* ---- one delay loop, "may carry light" semantics ---------------------------------------------------------
   Delay D >= 1.  A pulse carrying light arrives in every bin t < L, vacuum afterwards.  In bin t the beamsplitter is in
   the cross state iff zero_at t (entries beyond the list are the zero padding): the arriving pulse goes into the loop
   and the stored pulse (the one that entered D bins earlier) leaves towards the next loop / the detector.  Otherwise
   both can go either way. *)
Definition zero_at (z : list bool) (t : nat) : bool := nth t z true.

Fixpoint enters (D L : nat) (z : list bool) (fuel t : nat) : bool :=      (* light may enter the loop in bin t *)
  match fuel with
  | 0 => false
  | S f => (t <? L) || ((D <=? t) && enters D L z f (t - D) && negb (zero_at z t))
  end.
Definition stored (D L : nat) (z : list bool) (t : nat) : bool := (D <=? t) && enters D L z (S t) (t - D).
Definition exits (D L : nat) (z : list bool) (t : nat) : bool :=          (* light may leave the loop stage in bin t *)
  stored D L z t || ((t <? L) && negb (zero_at z t)).
