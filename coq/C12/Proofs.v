(* Lemmas about C12/Model.v: ranges / validate_parameters, assert_modes, Borealis phases, loop-offset insertion.
   (The S2gate merge is in C12/Merge.v.) *)
From Coq Require Import List Arith Bool ZArith QArith Qround Lia Lqa.
Import ListNotations.
From SFV Require Import C12.Model.
Close Scope Q_scope.
Open Scope nat_scope.

(* ------------------------------------------------------------------------------------------ *)
Section RangesP.
  Variable K : Type.
  Variables add sub : K -> K -> K.
  Variable leb : K -> K -> bool.
  Notation in_range := (in_range K add sub leb).
  Notation in_ranges := (in_ranges K add sub leb).
  Notation first_bad := (first_bad K add sub leb).
  Notation validate := (validate K add sub leb).
  Notation validate_parameters := (validate_parameters K add sub leb).

  Lemma in_ranges_spec rs v :
    in_ranges rs v = true <->
    exists r, In r rs /\ leb (sub (lo r) (atol r)) v = true /\ leb v (add (hi r) (atol r)) = true.
  Proof.
    unfold Model.in_ranges. rewrite existsb_exists.
    split; intros [r [Hin H]]; exists r; split; auto; unfold Model.in_range in *.
    - apply andb_prop in H; tauto.
    - apply andb_true_intro; tauto.
  Qed.

  Lemma first_bad_none rs vs : first_bad rs vs = None <-> forall v, In v vs -> in_ranges rs v = true.
  Proof.
    induction vs as [|a vs IH]; simpl.
    - split; [intros _ v [] | reflexivity].
    - destruct (in_ranges rs a) eqn:E.
      + rewrite IH. split; [intros H v [<-|Hv]; auto | intros H v Hv; apply H; auto].
      + split; [discriminate | intros H; specialize (H a (or_introl eq_refl)); congruence].
  Qed.

  Lemma first_bad_some rs vs v : first_bad rs vs = Some v -> In v vs /\ in_ranges rs v = false.
  Proof.
    induction vs as [|a vs IH]; simpl; [discriminate|].
    destruct (in_ranges rs a) eqn:E.
    - intros H; destruct (IH H); auto.
    - intros H; inversion H; subst; auto.
  Qed.

  Theorem validate_ok gp ps :
    validate gp ps = VOk <->
    forall p t, In (p, t) ps ->
      exists rs, lookup p gp = Some rs /\ forall v, In v (flatten K t) -> in_ranges rs v = true.
  Proof.
    induction ps as [|[q u] ps IH]; simpl.
    - split; [intros _ p t [] | reflexivity].
    - destruct (lookup q gp) as [rs|] eqn:El.
      + destruct (first_bad rs (flatten K u)) as [b|] eqn:Eb.
        * split; [discriminate|]. intros H. destruct (H q u (or_introl eq_refl)) as [rs' [Hl Hv]].
          rewrite El in Hl; inversion Hl; subst rs'.
          apply first_bad_some in Eb as [Hin Hf]. rewrite (Hv b Hin) in Hf; discriminate.
        * rewrite IH. split.
          -- intros H p t [Heq|Hin]; [inversion Heq; subst; exists rs; split; auto; apply first_bad_none; auto | apply H; auto].
          -- intros H p t Hin; apply H; auto.
      + split; [discriminate|]. intros H. destruct (H q u (or_introl eq_refl)) as [rs' [Hl _]]. congruence.
  Qed.

  Theorem validate_unknown gp ps p :
    validate gp ps = VUnknown p -> lookup p gp = None /\ In p (map fst ps).
  Proof.
    induction ps as [|[q u] ps IH]; simpl; [discriminate|].
    destruct (lookup q gp) as [rs|] eqn:El.
    - destruct (first_bad rs (flatten K u)); [discriminate|]. intros H; destruct (IH H); auto.
    - intros H; inversion H; subst; auto.
  Qed.

  Theorem validate_invalid gp ps p v :
    validate gp ps = VInvalid p v ->
    exists t rs, In (p, t) ps /\ lookup p gp = Some rs /\ In v (flatten K t) /\ in_ranges rs v = false.
  Proof.
    induction ps as [|[q u] ps IH]; simpl; [discriminate|].
    destruct (lookup q gp) as [rs|] eqn:El; [|discriminate].
    destruct (first_bad rs (flatten K u)) as [b|] eqn:Eb.
    - intros H; inversion H; subst. apply first_bad_some in Eb as [Hin Hf]. exists u, rs; auto.
    - intros H; destruct (IH H) as [t [rs' [H1 H2]]]. exists t, rs'; split; auto.
  Qed.

  Theorem validate_sound_full gp ps :
    validate gp ps = VOk <->
    forall p t, In (p, t) ps ->
      exists rs, lookup p gp = Some rs /\
        forall v, In v (flatten K t) ->
          exists r, In r rs /\ leb (sub (lo r) (atol r)) v = true /\ leb v (add (hi r) (atol r)) = true.
  Proof.
    rewrite validate_ok. split; intros H p t Hin; destruct (H p t Hin) as [rs [Hl Hv]];
      exists rs; split; auto; intros v Hvin; apply (in_ranges_spec rs v); auto.
  Qed.

  Theorem validate_parameters_none ps : validate_parameters None ps = VOk.
  Proof. reflexivity. Qed.
End RangesP.

(* ------------------------------------------------------------------------------------------ *)
(** assert_modes *)
Definition kind_eqb (a b : mkind) : bool :=
  match a, b with KFock, KFock | KHomodyne, KHomodyne | KHeterodyne, KHeterodyne | KOther, KOther => true | _, _ => false end.

(* the specification: number of measured modes per measurement kind *)
Definition measured (k : mkind) (c : list mcmd) : nat :=
  list_sum (map nreg (filter (fun x => kind_eqb (mk x) k) c)).

Lemma count_loop_spec c : forall p h t,
  count_loop c (p, h, t) = (p + measured KFock c, h + measured KHomodyne c, t + measured KHeterodyne c).
Proof.
  induction c as [|x c IH]; intros p h t; simpl.
  - unfold measured; simpl. repeat rewrite Nat.add_0_r. reflexivity.
  - unfold measured in *; simpl. destruct (mk x); simpl; rewrite IH; (apply pair_equal_spec; split; [apply pair_equal_spec; split|]); lia.
Qed.

Theorem assert_modes_dict_ok a b e c :
  assert_modes_dict (mkD (Some a) (Some b) (Some e)) c = AMOk <->
  measured KFock c <= a /\ measured KHomodyne c <= b /\ measured KHeterodyne c <= e.
Proof.
  unfold assert_modes_dict; simpl. rewrite count_loop_spec; simpl.
  destruct (a <? measured KFock c) eqn:E1; [apply Nat.ltb_lt in E1; split; [discriminate | lia]|].
  destruct (b <? measured KHomodyne c) eqn:E2; [apply Nat.ltb_lt in E2; split; [discriminate | lia]|].
  destruct (e <? measured KHeterodyne c) eqn:E3; [apply Nat.ltb_lt in E3; split; [discriminate | lia]|].
  apply Nat.ltb_ge in E1, E2, E3. split; auto.
Qed.

Theorem assert_modes_dict_error a b e c w :
  assert_modes_dict (mkD (Some a) (Some b) (Some e)) c = AMCircuitError w ->
  (w = 1 /\ a < measured KFock c) \/ (w = 2 /\ b < measured KHomodyne c) \/ (w = 3 /\ e < measured KHeterodyne c).
Proof.
  unfold assert_modes_dict; simpl. rewrite count_loop_spec; simpl.
  destruct (a <? measured KFock c) eqn:E1; [apply Nat.ltb_lt in E1; intros H; inversion H; auto|].
  destruct (b <? measured KHomodyne c) eqn:E2; [apply Nat.ltb_lt in E2; intros H; inversion H; auto|].
  destruct (e <? measured KHeterodyne c) eqn:E3; [apply Nat.ltb_lt in E3; intros H; inversion H; auto 6|].
  discriminate.
Qed.

Theorem assert_modes_dict_keyerror d c :
  assert_modes_dict d c = AMKeyError <-> pnr_max d = None \/ hom_max d = None \/ het_max d = None.
Proof.
  unfold assert_modes_dict. destruct (pnr_max d), (hom_max d), (het_max d); try (split; [auto | reflexivity]).
  destruct (count_loop c (0, 0, 0)) as [[p h] t].
  split; [|intros [H|[H|H]]; discriminate].
  destruct (n <? p), (n0 <? h), (n1 <? t); discriminate.
Qed.

Theorem assert_modes_int_ok total dev : assert_modes_int total dev = AMOk <-> total <= dev.
Proof.
  unfold assert_modes_int. destruct (dev <? total) eqn:E.
  - apply Nat.ltb_lt in E; split; [discriminate | lia].
  - apply Nat.ltb_ge in E; tauto.
Qed.

Theorem tdm_assert_modes_ok tb cc sp tmax dc ds :
  tdm_assert_modes tb cc sp tmax dc ds = AMOk <-> tb <= tmax /\ cc = dc /\ sp = ds.
Proof.
  unfold tdm_assert_modes.
  destruct (tmax <? tb) eqn:E1; [apply Nat.ltb_lt in E1; split; [discriminate | lia]|].
  destruct (cc =? dc) eqn:E2; simpl; [|apply Nat.eqb_neq in E2; split; [discriminate | tauto]].
  destruct (sp =? ds) eqn:E3; simpl; [|apply Nat.eqb_neq in E3; split; [discriminate | tauto]].
  apply Nat.ltb_ge in E1. apply Nat.eqb_eq in E2, E3. tauto.
Qed.

(* ------------------------------------------------------------------------------------------ *)
(** Borealis phases *)
Open Scope Q_scope.

Lemma qmod_bounds x p : 0 < p -> 0 <= qmod x p /\ qmod x p < p.
Proof.
  intros Hp. unfold qmod.
  pose proof (Qfloor_le (x / p)) as H1. pose proof (Qlt_floor (x / p)) as H2.
  rewrite inject_Z_plus in H2.
  remember (inject_Z (Qfloor (x / p))) as n eqn:En. clear En.
  assert (Hp0 : ~ p == 0) by (intros E; rewrite E in Hp; apply (Qlt_irrefl 0 Hp)).
  assert (Hx : x == (x / p) * p) by (field; exact Hp0).
  assert (H3 : n * p <= (x / p) * p) by (apply Qmult_le_compat_r; [exact H1 | apply Qlt_le_weak; exact Hp]).
  assert (H4 : (x / p) * p < (n + inject_Z 1) * p) by (apply Qmult_lt_compat_r; auto).
  replace (inject_Z 1) with 1 in H4 by reflexivity.
  remember (x / p) as q eqn:Eq. clear Eq H1 H2.
  split; lra.
Qed.

Definition cong_pi (pi x y : Q) : Prop := exists k : Z, y == x + inject_Z k * pi.

Lemma cong_refl pi x : cong_pi pi x x.
Proof. exists 0%Z. simpl. ring. Qed.
Lemma cong_shift pi x y (s : Z) : cong_pi pi x y -> cong_pi pi x (y + inject_Z s * pi).
Proof. intros [k H]. exists (k + s)%Z. rewrite inject_Z_plus, H. ring. Qed.

Lemma Qltb_true a b : Qltb a b = true <-> a < b.
Proof.
  unfold Qltb. rewrite negb_true_iff. split.
  - intros H. apply Qnot_le_lt. intros Hle. apply Qle_bool_iff in Hle. congruence.
  - intros H. destruct (Qle_bool b a) eqn:E; auto. apply Qle_bool_iff in E. lra.
Qed.
Lemma Qltb_false a b : Qltb a b = false <-> b <= a.
Proof.
  unfold Qltb. rewrite negb_false_iff. apply Qle_bool_iff.
Qed.

Theorem fix_phase_spec pi x : 0 < pi ->
  let y := fix_phase pi (- (1 # 2) * pi) ((1 # 2) * pi) x in
  - (1 # 2) * pi <= y /\ y <= (1 # 2) * pi /\ cong_pi pi x y.
Proof.
  intros Hpi. unfold fix_phase. cbv zeta.
  assert (H2pi : 0 < 2 * pi) by lra.
  destruct (qmod_bounds x (2 * pi) H2pi) as [Hm0 Hm1].
  assert (Hc : cong_pi pi x (qmod x (2 * pi))).
  { unfold qmod. exists (- 2 * Qfloor (x / (2 * pi)))%Z. rewrite inject_Z_mult.
    change (inject_Z (-2)) with (-2 # 1). ring. }
  remember (qmod x (2 * pi)) as m eqn:Em. clear Em.
  assert (Hm2 : cong_pi pi x (m - 2 * pi)).
  { destruct Hc as [k Hk]. exists (k + -2)%Z. rewrite inject_Z_plus, Hk.
    change (inject_Z (-2)) with (-2 # 1). ring. }
  assert (Hplus : forall w, cong_pi pi x w -> cong_pi pi x (w + pi)).
  { intros w [k Hk]. exists (k + 1)%Z. rewrite inject_Z_plus, Hk. change (inject_Z 1) with 1. ring. }
  assert (Hminus : forall w, cong_pi pi x w -> cong_pi pi x (w - pi)).
  { intros w [k Hk]. exists (k + -1)%Z. rewrite inject_Z_plus, Hk.
    change (inject_Z (-1)) with (-1 # 1). ring. }
  destruct (Qltb pi m) eqn:E1.
  - apply Qltb_true in E1.
    destruct (Qltb (m - 2 * pi) (- (1 # 2) * pi)) eqn:E2; destruct (Qltb ((1 # 2) * pi) (m - 2 * pi)) eqn:E3;
      try apply Qltb_true in E2; try apply Qltb_false in E2; try apply Qltb_true in E3; try apply Qltb_false in E3;
      (split; [lra | split; [lra | auto]]).
  - apply Qltb_false in E1.
    destruct (Qltb m (- (1 # 2) * pi)) eqn:E2; destruct (Qltb ((1 # 2) * pi) m) eqn:E3;
      try apply Qltb_true in E2; try apply Qltb_false in E2; try apply Qltb_true in E3; try apply Qltb_false in E3;
      (split; [lra | split; [lra | auto]]).
Qed.

(* the correction that is in force when loop number l is processed: that of the nearest earlier loop that was
   not skipped (0 if there is none) *)
Fixpoint prev_of (fx : bool) (loops : list loopin) (cp : nat -> Q) (l : nat) : nat -> Q :=
  match l, loops with
  | S l', L :: rest => prev_of fx rest (if skips fx L cp then cp else eff_corr fx L) l'
  | _, _ => cp
  end.

Lemma mapi_from_nth {A B} (f : nat -> A -> B) l : forall j0 j y,
  nth_error (mapi_from j0 f l) j = Some y -> exists a, nth_error l j = Some a /\ y = f (j0 + j)%nat a.
Proof.
  induction l as [|a l IH]; intros j0 j y; simpl.
  - destruct j; discriminate.
  - destruct j; simpl.
    + intros H; inversion H; subst. exists a. rewrite Nat.add_0_r. auto.
    + intros H. destruct (IH _ _ _ H) as [a' [H1 H2]]. exists a'; split; auto. rewrite H2. f_equal. lia.
Qed.

Lemma mapi_from_length {A B} (f : nat -> A -> B) l : forall j0, length (mapi_from j0 f l) = length l.
Proof. induction l; intros; simpl; auto. Qed.

Theorem update_loops_spec fx pi : 0 < pi -> forall loops cp l L out,
  nth_error loops l = Some L -> nth_error (update_loops fx pi loops cp) l = Some out ->
  length out = length (l_phis L) /\
  if skips fx L (prev_of fx loops cp l) then out = l_phis L
  else forall j y, nth_error out j = Some y ->
         - (1 # 2) * pi <= y /\ y <= (1 # 2) * pi /\
         exists phi, nth_error (l_phis L) j = Some phi /\
           cong_pi pi (phi + eff_corr fx L j - prev_of fx loops cp l j) y.
Proof.
  intros Hpi loops. induction loops as [|L0 rest IH]; intros cp l L out HL Hout.
  - destruct l; discriminate.
  - destruct l as [|l]; simpl in HL, Hout.
    + inversion HL; subst L0. simpl prev_of. destruct (skips fx L cp) eqn:Eu; simpl in Hout; inversion Hout; subst out.
      * auto.
      * split; [apply mapi_from_length|]. intros j y Hy.
        apply mapi_from_nth in Hy as [phi [Hphi Hy]]. simpl in Hy. subst y.
        pose proof (fix_phase_spec pi (phi + eff_corr fx L j - cp j) Hpi) as H.
        simpl in H. destruct H as [H1 [H2 H3]]. repeat split; auto. exists phi; split; auto.
    + simpl prev_of. destruct (skips fx L0 cp) eqn:Eu; simpl in Hout.
      * exact (IH cp l L out HL Hout).
      * exact (IH _ l L out HL Hout).
Qed.

(* the two variants differ only on user-set loops: with fx = false a user-set loop is always returned unchanged *)
Lemma skips_old L cp : skips false L cp = l_user L.
Proof. unfold skips. simpl. apply andb_true_r. Qed.
Lemma eff_corr_old L : eff_corr false L = corr_of (l_offset L) (l_delay L).
Proof. reflexivity. Qed.

(* the range correction is not always a multiple of 2 pi: a phase of 2 (with pi = 3, no offsets) is moved by -pi *)
Theorem fix_phase_pi_shift_exists :
  exists pi x, 0 < pi /\ ~ exists k : Z, fix_phase pi (- (1 # 2) * pi) ((1 # 2) * pi) x == x + inject_Z (2 * k) * pi.
Proof.
  exists 3, 2. split; [lra|]. intros [k H].
  assert (E : fix_phase 3 (- (1 # 2) * 3) ((1 # 2) * 3) 2 == -1) by (vm_compute; reflexivity).
  rewrite E in H. assert (H1 : inject_Z (2 * k) == -1) by lra.
  unfold Qeq, inject_Z in H1. cbn [Qnum Qden] in H1. lia.
Qed.
Close Scope Q_scope.

(* ------------------------------------------------------------------------------------------ *)
(** Borealis.compile loop-offset insertion *)
Ltac dfx := match goal with |- (if ?b then _ else _) = _ -> _ => destruct b; [|discriminate] end.

Inductive subseq {A} : list A -> list A -> Prop :=
| sub_nil l : subseq [] l
| sub_take x l1 l2 : subseq l1 l2 -> subseq (x :: l1) (x :: l2)
| sub_skip x l1 l2 : subseq l1 l2 -> subseq l1 (x :: l2).

Lemma subseq_refl {A} (l : list A) : subseq l l.
Proof. induction l; constructor; auto. Qed.

(* the source commands survive, in order *)
Theorem insert_offsets_subseq fx circ : forall seq out uo,
  insert_offsets fx circ seq = Some (out, uo) -> subseq seq out.
Proof.
  induction circ as [|c circ IH]; intros seq out uo; simpl.
  - intros H; inversion H; subst. apply subseq_refl.
  - destruct seq as [|s seq].
    { destruct fx; [dfx|]; intros H; inversion H; constructor. }
    destruct (b_off c).
    + destruct (ops_equal c s).
      * destruct (insert_offsets fx circ seq) as [[o u]|] eqn:E; [|discriminate].
        intros H; inversion H; subst. constructor. eapply IH; eauto.
      * destruct (insert_offsets fx circ (s :: seq)) as [[o u]|] eqn:E; [|discriminate].
        intros H; inversion H; subst. apply sub_skip. eapply IH; eauto.
    + destruct (ops_equal c s); [|discriminate].
      destruct (insert_offsets fx circ seq) as [[o u]|] eqn:E; [|discriminate].
      intros H; inversion H; subst. constructor. eapply IH; eauto.
Qed.

Lemma ops_equal_refl c : ops_equal c c = true.
Proof.
  unfold ops_equal. rewrite Nat.eqb_refl. simpl.
  induction (b_wires c); simpl; auto. rewrite Nat.eqb_refl; auto.
Qed.

(* the result matches the layout position by position (type and wires), as far as the layout goes *)
Theorem insert_offsets_matches fx circ : forall seq out uo,
  insert_offsets fx circ seq = Some (out, uo) ->
  length circ <= length out /\
  forall i c, nth_error circ i = Some c -> exists o, nth_error out i = Some o /\ ops_equal c o = true.
Proof.
  induction circ as [|c circ IH]; intros seq out uo; simpl.
  - intros H; inversion H; subst. split; [lia|]. intros i c Hc; destruct i; discriminate.
  - destruct seq as [|s seq].
    { assert (Hb : Some (c :: circ, uo) = Some (out, uo) -> length (c :: circ) <= length out /\
              forall i c0, nth_error (c :: circ) i = Some c0 -> exists o, nth_error out i = Some o /\ ops_equal c0 o = true).
      { intros H; inversion H; subst. split; [simpl; lia|]. intros i c0 Hc. exists c0; split; auto. apply ops_equal_refl. }
      destruct fx; [dfx|]; intros H; inversion H; subst; apply Hb; reflexivity. }
    assert (Hstep : forall o u hd, insert_offsets fx circ o = Some u -> ops_equal c hd = true ->
              length (c :: circ) <= length (hd :: fst u) /\
              forall i c0, nth_error (c :: circ) i = Some c0 ->
                exists o0, nth_error (hd :: fst u) i = Some o0 /\ ops_equal c0 o0 = true).
    { intros o [o' u'] hd E Heq. destruct (IH _ _ _ E) as [Hl Hn]. simpl. split; [lia|].
      intros [|i] c0 Hc; simpl in *; [inversion Hc; subst; eauto | auto]. }
    destruct (b_off c).
    + destruct (ops_equal c s) eqn:Eq.
      * destruct (insert_offsets fx circ seq) as [[o u]|] eqn:E; [|discriminate].
        intros H; inversion H; subst. apply (Hstep _ _ s E Eq).
      * destruct (insert_offsets fx circ (s :: seq)) as [[o u]|] eqn:E; [|discriminate].
        intros H; inversion H; subst. apply (Hstep _ _ c E (ops_equal_refl c)).
    + destruct (ops_equal c s) eqn:Eq; [|discriminate].
      destruct (insert_offsets fx circ seq) as [[o u]|] eqn:E; [|discriminate].
      intros H; inversion H; subst. apply (Hstep _ _ s E Eq).
Qed.

(* nothing is inserted or rejected when the program already is the layout *)
Theorem insert_offsets_id fx circ : exists uo, insert_offsets fx circ circ = Some (circ, uo).
Proof.
  induction circ as [|c circ [uo IH]]; simpl; [eauto|].
  rewrite ops_equal_refl, IH. destruct (b_off c); eauto.
Qed.

Theorem insert_offsets_full fx circ seq out uo : insert_offsets fx circ seq = Some (out, uo) ->
  subseq seq out /\ length circ <= length out /\
  forall i c, nth_error circ i = Some c -> exists o, nth_error out i = Some o /\ ops_equal c o = true.
Proof.
  intros H. split; [exact (insert_offsets_subseq fx circ seq out uo H) | exact (insert_offsets_matches fx circ seq out uo H)].
Qed.

(* with the repair, _user_offsets has exactly one entry per loop-offset gate of the layout, whatever the program *)
Theorem insert_offsets_uo_complete circ : forall seq out uo,
  insert_offsets true circ seq = Some (out, uo) -> length uo = length (filter b_off circ).
Proof.
  induction circ as [|c circ IH]; intros seq out uo; simpl.
  - intros H; inversion H; reflexivity.
  - destruct seq as [|s seq].
    { dfx. intros H; inversion H; subst. rewrite map_length. reflexivity. }
    destruct (b_off c) eqn:Eo.
    + destruct (ops_equal c s).
      * destruct (insert_offsets true circ seq) as [[o u]|] eqn:E; [|discriminate].
        intros H; inversion H; subst. simpl. f_equal. eapply IH; eauto.
      * destruct (insert_offsets true circ (s :: seq)) as [[o u]|] eqn:E; [|discriminate].
        intros H; inversion H; subst. simpl. f_equal. eapply IH; eauto.
    + destruct (ops_equal c s); [|discriminate].
      destruct (insert_offsets true circ seq) as [[o u]|] eqn:E; [|discriminate].
      intros H; inversion H; subst. eapply IH; eauto.
Qed.

(* without it, a program that stops early loses entries: layout S R(off) M, program S *)
Theorem insert_offsets_uo_incomplete_old :
  exists circ seq out uo, insert_offsets false circ seq = Some (out, uo) /\ length uo < length (filter b_off circ).
Proof.
  exists [mkB 0 [1] false 0 false; mkB 1 [1] true 1 true; mkB 3 [0] false 2 false], [mkB 0 [1] false 10 false]. eexists. eexists.
  split; [reflexivity | simpl; lia].
Qed.

(* ------------------------------------------------------------------------------------------ *)
(** Xunitary assembly *)
Lemma net_map_shift {G M} (mul : M -> M -> M) (sem_lo sem_hi : G -> M) (shift : G -> G) :
  (forall g, sem_hi (shift g) = sem_lo g) ->
  forall l acc, fold_left (fun a g => mul (sem_hi g) a) (map shift l) acc = fold_left (fun a g => mul (sem_lo g) a) l acc.
Proof. intros H l. induction l as [|g l IH]; intros acc; simpl; auto. rewrite H. apply IH. Qed.

Theorem xunitary_shape_chain :
  forall (G M : Type) (mul : M -> M -> M) (one : M) (sem_lo sem_hi : G -> M)
         (shift : G -> G) (mesh : M -> list G) (sq : list G) (meas : G) (U : M),
    (forall V, net mul one sem_lo (mesh V) = V) ->
    (forall g, sem_hi (shift g) = sem_lo g) ->
    xunitary_assemble sq (mesh U) shift meas = sq ++ mesh U ++ map shift (mesh U) ++ [meas] /\
    net mul one sem_lo (mesh U) = U /\ net mul one sem_hi (map shift (mesh U)) = U.
Proof.
  intros G M mul one sem_lo sem_hi shift mesh sq meas U Hmesh Hshift.
  split; [reflexivity|]. split; [apply Hmesh|]. unfold net. rewrite (net_map_shift mul sem_lo sem_hi shift Hshift). apply Hmesh.
Qed.
