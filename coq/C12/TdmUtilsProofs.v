From Coq Require Import List Arith Bool Lia.
Import ListNotations.
From SFV Require Import C12.TdmUtils.

Lemma start_zeros_le z : start_zeros z <= length z.
Proof. induction z as [|[|] z IH]; simpl; lia. Qed.

Lemma start_zeros_zero z : forall t, t < start_zeros z -> nth t z true = true.
Proof.
  induction z as [|[|] z IH]; simpl; intros t H; try lia.
  destruct t; auto. apply IH. lia.
Qed.

Lemma start_zeros_nonzero z : start_zeros z < length z -> nth (start_zeros z) z true = false.
Proof. induction z as [|[|] z IH]; simpl; intros H; try lia; auto. apply IH. lia. Qed.

Lemma start_zeros_all z : start_zeros z = length z <-> forallb (fun b => b) z = true.
Proof.
  induction z as [|[|] z IH]; simpl; try tauto.
  - rewrite <- IH. split; lia.
  - split; [lia | discriminate].
Qed.

Theorem delay_imposed_cases z D :
  delay_imposed z D <= D /\
  (forallb (fun b => b) z = true -> delay_imposed z D = D) /\
  (D <= start_zeros z -> delay_imposed z D = D) /\
  (start_zeros z < length z -> start_zeros z <= D -> delay_imposed z D = start_zeros z).
Proof.
  unfold delay_imposed. destruct (Nat.eqb (start_zeros z) (length z)) eqn:E.
  - apply Nat.eqb_eq in E. repeat split; auto; lia.
  - apply Nat.eqb_neq in E. repeat split; try lia.
    intros H. apply start_zeros_all in H. contradiction.
Qed.

Definition delays_of (loops : list (list bool * nat)) : list nat := map (fun zd => delay_imposed (fst zd) (snd zd)) loops.

Lemma prologues_spec loops : forall a0,
  let (p, a) := prologues a0 loops in
  length p = length loops /\ a = a0 + list_sum (delays_of loops) /\
  forall i x, nth_error p i = Some x -> x = a0 + list_sum (firstn i (delays_of loops)) /\ x <= a.
Proof.
  induction loops as [|[z d] rest IH]; intros a0; simpl.
  - split; auto. split; [lia|]. intros i x H; destruct i; discriminate.
  - specialize (IH (a0 + delay_imposed z d)). destruct (prologues (a0 + delay_imposed z d) rest) as [p a].
    destruct IH as [H1 [H2 H3]]. simpl. split; [lia|]. split; [lia|].
    intros [|i] x H; simpl in H.
    + inversion H; subst. simpl. lia.
    + destruct (H3 i x H) as [H4 H5]. simpl. lia.
Qed.

(* vacuum_padding: the i-th prologue is the sum of the delays imposed by the earlier loops, prologue + epilogue = crop
   = the sum of all imposed delays; hence every padded list has the length of the unpadded one plus crop *)
Theorem padding_plan_spec loops :
  let '(pro, epi, crop) := padding_plan loops in
  length pro = length loops /\ length epi = length loops /\ crop = list_sum (delays_of loops) /\
  forall i p, nth_error pro i = Some p ->
    p = list_sum (firstn i (delays_of loops)) /\
    nth_error epi i = Some (crop - p) /\ p + (crop - p) = crop /\
    forall (A : Type) (zero : A) (l : list A), length (pad zero p (crop - p) l) = length l + crop.
Proof.
  unfold padding_plan. pose proof (prologues_spec loops 0) as H. destruct (prologues 0 loops) as [p a].
  destruct H as [H1 [H2 H3]]. rewrite map_length. repeat split; auto.
  - destruct (H3 i p0 H). lia.
  - rewrite nth_error_map, H. reflexivity.
  - destruct (H3 i p0 H). lia.
  - intros A zero l. unfold pad. rewrite !app_length, !repeat_length. destruct (H3 i p0 H). lia.
Qed.

(* what the imposed delay means: it is the first bin in which light can leave the loop stage *)
Theorem first_exit z D : 1 <= D -> 1 <= length z ->
  (forall t, t < delay_imposed z D -> exits D (length z) z t = false) /\
  exits D (length z) z (delay_imposed z D) = true.
Proof.
  intros HD HL. set (L := length z). pose proof (delay_imposed_cases z D) as [Hle [Hall [Hge Hlt]]].
  pose proof (start_zeros_le z) as Hsz.
  assert (HstoredD : stored D L z D = true).
  { unfold stored. rewrite Nat.leb_refl, Nat.sub_diag. simpl.
    replace (0 <? L) with true by (symmetry; apply Nat.ltb_lt; unfold L; lia). reflexivity. }
  split.
  - intros t Ht. unfold exits, stored.
    replace (D <=? t) with false by (symmetry; apply Nat.leb_gt; lia). simpl.
    destruct (t <? L) eqn:EtL; auto. simpl. apply Nat.ltb_lt in EtL. apply negb_false_iff.
    unfold zero_at. apply start_zeros_zero.
    destruct (Nat.eq_dec (start_zeros z) (length z)) as [E|E]; [unfold L in *; lia|].
    assert (start_zeros z < length z) by lia.
    destruct (le_lt_dec D (start_zeros z)); [lia|]. rewrite Hlt in Ht; lia.
  - destruct (Nat.eq_dec (start_zeros z) (length z)) as [E|E].
    + rewrite Hall by (apply start_zeros_all; auto). unfold exits. rewrite HstoredD. reflexivity.
    + assert (Hs : start_zeros z < length z) by lia.
      destruct (le_lt_dec D (start_zeros z)).
      * rewrite Hge by auto. unfold exits. rewrite HstoredD. reflexivity.
      * rewrite Hlt by lia. unfold exits.
        replace (start_zeros z <? L) with true by (symmetry; apply Nat.ltb_lt; auto).
        unfold zero_at. rewrite start_zeros_nonzero by auto. simpl. apply orb_true_r.
Qed.
