(* Xunitary's merge of repeated S2gates (C12/Model.v, section 3): the correctness theorem for every multiplicity on
   every pair, and the refutations of the pre-fix version (the definitions named ..._old). *)
From Coq Require Import List Arith Bool ZArith Lia.
Import ListNotations.
From SFV Require Import C12.Model.

Definition count_key (k : key) (l : list key) : nat := length (filter (key_eqb k) l).

Definition zneq (a b : Z) : bool := negb (Z.eqb a b).

Lemma miss_spec_by_compute (N : nat) (miss : list nat) (keys : list key) :
  forallb (fun i => Bool.eqb (existsb (Nat.eqb i) miss) (negb (mem_key (i, i + N) keys))) (seq 0 N) = true ->
  (forallb (fun i => i <? N) miss = true) ->
  forall i, In i miss <-> i < N /\ ~ In (i, i + N) keys.
Proof.
  intros H0 H2 i.
  assert (H1 : forall i, i < N -> existsb (Nat.eqb i) miss = negb (mem_key (i, i + N) keys)).
  { intros j Hj. rewrite forallb_forall in H0. apply eqb_prop. apply H0. apply in_seq. lia. } rewrite forallb_forall in H2. split.
  - intros Hin. assert (Hi : i < N) by (apply Nat.ltb_lt; auto). split; auto.
    specialize (H1 i Hi). intros Hk.
    assert (E : existsb (Nat.eqb i) miss = true) by (apply existsb_exists; exists i; split; auto; apply Nat.eqb_refl).
    rewrite E in H1. symmetry in H1. apply negb_true_iff in H1.
    assert (E2 : mem_key (i, i + N) keys = true).
    { apply existsb_exists. exists (i, i + N). split; auto. unfold key_eqb; simpl. rewrite !Nat.eqb_refl. reflexivity. }
    congruence.
  - intros [Hi Hk]. specialize (H1 i Hi).
    destruct (existsb (Nat.eqb i) miss) eqn:E.
    + apply existsb_exists in E as [j [Hj Ej]]. apply Nat.eqb_eq in Ej. subst; auto.
    + symmetry in H1. apply negb_false_iff in H1. apply existsb_exists in H1 as [[a b] [Hin Eab]].
      unfold key_eqb in Eab; simpl in Eab. apply andb_prop in Eab as [Ea Eb].
      apply Nat.eqb_eq in Ea, Eb. subst. contradiction.
Qed.

Definition S2z (i j : nat) (r phi : Z) : s2 Z := mkS2 i j r phi false.

(* PRE-FIX version. two pairs, each with two squeezers:  S2(1)|(0,2) S2(2)|(1,3) S2(3)|(0,2) S2(4)|(1,3)  ->  IndexError *)
Theorem s2_old_refuted_indexerror :
  exists (N : nat) (miss : list nat) (B : list (s2 Z)),
    forallb (allowed Z N) B = true /\ NoDup miss /\
    (forall i, In i miss <-> i < N /\ ~ In (i, i + N) (map (s2key Z) B)) /\
    s2_stage_old Z 0%Z Z.add zneq N miss B = IndexErr.
Proof.
  exists 2, [], [S2z 0 2 1 0; S2z 1 3 2 0; S2z 0 2 3 0; S2z 1 3 4 0]%Z.
  split; [reflexivity|]. split; [constructor|]. split; [|reflexivity].
  apply miss_spec_by_compute; reflexivity.
Qed.

(* PRE-FIX version. three pairs, two of them doubled: the stale indices remove the squeezer of pair (2,5) *)
Theorem s2_old_refuted_silent :
  exists (N : nat) (miss : list nat) (B out : list (s2 Z)),
    forallb (allowed Z N) B = true /\ NoDup miss /\
    (forall i, In i miss <-> i < N /\ ~ In (i, i + N) (map (s2key Z) B)) /\
    s2_stage_old Z 0%Z Z.add zneq N miss B = Ok out /\
    filter (fun x => key_eqb (s2key Z x) (2, 5)) B <> [] /\
    filter (fun x => key_eqb (s2key Z x) (2, 5)) out = [].
Proof.
  exists 3, [], [S2z 0 3 1 0; S2z 0 3 3 0; S2z 1 4 2 0; S2z 1 4 4 0; S2z 2 5 7 0]%Z.
  eexists. split; [reflexivity|]. split; [constructor|]. split; [apply miss_spec_by_compute; reflexivity|].
  split; [vm_compute; reflexivity|]. split; [discriminate | reflexivity].
Qed.

(* PRE-FIX version. S2gate(5).H and S2gate(3) on one pair are merged into r = 8; the current version gives -2 *)
Theorem s2_old_refuted_dagger :
  s2_stage_old Z 0%Z Z.add zneq 1 [] [mkS2 0 1 5 0 true; mkS2 0 1 3 0 false]%Z = Ok [S2z 0 1 8 0] /\
  s2_stage Z 0%Z Z.add Z.opp zneq 1 [] [mkS2 0 1 5 0 true; mkS2 0 1 3 0 false]%Z = Ok [S2z 0 1 (-2) 0].
Proof. split; reflexivity. Qed.

(* the very same inputs on the current version *)
Example s2_new_on_old_witnesses :
  s2_stage Z 0%Z Z.add Z.opp zneq 2 [] [S2z 0 2 1 0; S2z 1 3 2 0; S2z 0 2 3 0; S2z 1 3 4 0]%Z
    = Ok [S2z 0 2 4 0; S2z 1 3 6 0]%Z /\
  s2_stage Z 0%Z Z.add Z.opp zneq 3 [] [S2z 0 3 1 0; S2z 0 3 3 0; S2z 1 4 2 0; S2z 1 4 4 0; S2z 2 5 7 0]%Z
    = Ok [S2z 0 3 4 0; S2z 1 4 6 0; S2z 2 5 7 0]%Z.
Proof. split; reflexivity. Qed.

(* ------------------------------------------------------------------------------------------ *)
Lemma key_eqb_eq a b : key_eqb a b = true <-> a = b.
Proof.
  destruct a as [a1 a2], b as [b1 b2]; unfold key_eqb; simpl. rewrite andb_true_iff, !Nat.eqb_eq.
  split; [intros [-> ->]; reflexivity | intros H; inversion H; auto].
Qed.

Lemma positions_from_app o k a b :
  positions_from o k (a ++ b) = positions_from o k a ++ positions_from (o + length a) k b.
Proof.
  revert o; induction a as [|x a IH]; intros o; simpl.
  - rewrite Nat.add_0_r; reflexivity.
  - rewrite IH. replace (S o + length a) with (o + S (length a)) by lia. destruct (key_eqb x k); reflexivity.
Qed.

Lemma positions_length o k l : length (positions_from o k l) = count_key k l.
Proof.
  revert o; unfold count_key; induction l as [|x l IH]; intros o; simpl; auto.
  assert (E : key_eqb x k = key_eqb k x).
  { destruct (key_eqb x k) eqn:E1, (key_eqb k x) eqn:E2; auto.
    - apply key_eqb_eq in E1; subst. rewrite (proj2 (key_eqb_eq k k) eq_refl) in E2; discriminate.
    - apply key_eqb_eq in E2; subst. rewrite (proj2 (key_eqb_eq x x) eq_refl) in E1; discriminate. }
  rewrite <- E. destruct (key_eqb x k); simpl; rewrite IH; reflexivity.
Qed.

Lemma last_cons {A} (l : list A) : forall a d, last (a :: l) d = last l a.
Proof. induction l as [|b l IH]; intros a d; [reflexivity|]. change (last (a :: b :: l) d) with (last (b :: l) d). rewrite !IH. reflexivity. Qed.

From Coq Require Import Permutation.
Section MergeOne.
  Variable K : Type.
  Variable kzero : K.
  Variable kadd : K -> K -> K.
  Variable kneg : K -> K.
  Variable kneq : K -> K -> bool.
  Notation s2 := (s2 K).
  Notation s2key := (s2key K).
  Notation signed_r := (signed_r K kneg).
  Notation pop_loop_gen := (pop_loop_gen K kadd kneq).
  Notation merge_loop := (merge_loop K kzero kadd kneg kneq).

  Definition is_k (k : key) (c : s2) : bool := key_eqb (s2key c) k.

  (* the phases as the loop visits them (last occurrence first): every `phi_new != phi` test is false *)
  Fixpoint phases_agree_from (phi : K) (rs : list s2) : bool :=
    match rs with
    | [] => true
    | b :: t => negb (kneq (sphi b) phi) && phases_agree_from (sphi b) t
    end.
  Definition phases_agree (rs : list s2) : bool :=
    match rs with [] => true | a :: t => phases_agree_from (sphi a) t end.

  (* pure list part of the inner loop *)
  Fixpoint pops (idx : list nat) (B : list s2) : option (list s2 * list s2) :=
    match idx with
    | [] => Some ([], B)
    | i :: idx' =>
        match pop_at i B with
        | None => None
        | Some (c, B') =>
            match pops idx' B' with None => None | Some (rs, B'') => Some (c :: rs, B'') end
        end
    end.

  Lemma pop_at_app (l : list s2) x r : pop_at (length l) (l ++ x :: r) = Some (x, l ++ r).
  Proof. induction l as [|y l IH]; simpl; auto. rewrite IH. reflexivity. Qed.

  Lemma pops_positions k : forall l1 l2,
    pops (rev (positions_from 0 k (map s2key l1))) (l1 ++ l2)
    = Some (rev (filter (is_k k) l1), filter (fun c => negb (is_k k c)) l1 ++ l2).
  Proof.
    induction l1 as [|x l IH] using rev_ind; intros l2; simpl; auto.
    rewrite map_app, positions_from_app, !filter_app. simpl. rewrite map_length.
    unfold is_k at 2 4. destruct (key_eqb (s2key x) k) eqn:E; simpl.
    - rewrite rev_app_distr. simpl. rewrite <- app_assoc. simpl. rewrite pop_at_app.
      rewrite IH. rewrite rev_app_distr. simpl. rewrite app_nil_r. reflexivity.
    - rewrite app_nil_r. rewrite <- app_assoc. simpl. rewrite IH. rewrite app_nil_r, <- app_assoc. reflexivity.
  Qed.


  (* accumulation of r and phi over the popped commands, None = CircuitError *)
  Fixpoint acc (rof : s2 -> K) (rs : list s2) (first : bool) (r phi : K) : option (K * K) :=
    match rs with
    | [] => Some (r, phi)
    | c :: rs' => if negb first && kneq (sphi c) phi then None else acc rof rs' false (kadd r (rof c)) (sphi c)
    end.

  Lemma pop_loop_pops rof : forall idx first B r phi rs B',
    pops idx B = Some (rs, B') ->
    pop_loop_gen rof idx first B r phi =
      match acc rof rs first r phi with Some (r', phi') => Ok (B', r', phi') | None => CircuitErr 3 end.
  Proof.
    induction idx as [|i idx IH]; intros first B r phi rs B' H; simpl in *.
    - inversion H; subst; reflexivity.
    - destruct (pop_at i B) as [[c B1]|]; [|discriminate].
      destruct (pops idx B1) as [[rs1 B2]|] eqn:E; [|discriminate]. inversion H; subst. simpl.
      destruct (negb first && kneq (sphi c) phi); auto.
  Qed.

  Lemma acc_from rof : forall rs r phi,
    acc rof rs false r phi =
      if phases_agree_from phi rs then Some (fold_left kadd (map rof rs) r, last (map sphi rs) phi) else None.
  Proof.
    induction rs as [|c rs IH]; intros r phi; simpl; auto.
    destruct (kneq (sphi c) phi); simpl; auto. rewrite IH.
    destruct (phases_agree_from (sphi c) rs); auto. f_equal. f_equal.
    symmetry. apply last_cons.
  Qed.

  Lemma acc_first rof rs :
    acc rof rs true kzero kzero =
      if phases_agree rs then Some (fold_left kadd (map rof rs) kzero, last (map sphi rs) kzero) else None.
  Proof.
    destruct rs as [|c rs]; simpl; auto. rewrite acc_from.
    destruct (phases_agree_from (sphi c) rs); auto. f_equal. f_equal. symmetry. apply last_cons.
  Qed.

  (* the command that replaces the squeezers of pair k: r = the signed r's added from the last occurrence to the
     first starting from 0, phase of the first occurrence, no dagger *)
  Definition merged (k : key) (B : list s2) : s2 :=
    let bs := filter (is_k k) B in
    mkS2 (fst k) (snd k) (fold_left kadd (map signed_r (rev bs)) kzero) (last (map sphi (rev bs)) kzero) false.

  (* one iteration of the outer loop: never an IndexError; CircuitError exactly when two successive phases differ;
     otherwise all commands of k are removed, every other command is kept in order, and one merged command is
     inserted where the first one was *)
  Theorem merge_step (k : key) (D : list key) (B : list s2) :
    merge_loop (k :: D) B =
      if phases_agree (rev (filter (is_k k) B))
      then merge_loop D (insert_at (hd 0 (positions k (map s2key B))) (merged k B) (filter (fun c => negb (is_k k c)) B))
      else CircuitErr 3.
  Proof.
    simpl. unfold Model.pop_loop.
    pose proof (pops_positions k B []) as Hp. rewrite !app_nil_r in Hp.
    fold (positions k (map s2key B)) in Hp.
    rewrite (pop_loop_pops _ _ _ _ _ _ _ _ Hp). rewrite acc_first.
    destruct (phases_agree (rev (filter (is_k k) B))); reflexivity.
  Qed.

  Lemma insert_at_perm {A} (x : A) : forall i l, Permutation (insert_at i x l) (x :: l).
  Proof.
    induction i as [|i IH]; intros l; simpl; auto.
    destruct l as [|y l]; auto. rewrite IH. apply perm_swap.
  Qed.

  Lemma filter_insert_at_false {A} (f : A -> bool) (x : A) : f x = false ->
    forall i l, filter f (insert_at i x l) = filter f l.
  Proof.
    intros Hx. induction i as [|i IH]; intros l; simpl; [rewrite Hx; reflexivity|].
    destruct l as [|y l]; simpl; [rewrite Hx; reflexivity|]. rewrite IH. reflexivity.
  Qed.

  Lemma filter_insert_at_true {A} (f : A -> bool) (x : A) : f x = true ->
    forall i l, Permutation (filter f (insert_at i x l)) (x :: filter f l).
  Proof.
    intros Hx. induction i as [|i IH]; intros l; simpl; [rewrite Hx; reflexivity|].
    destruct l as [|y l]; simpl; [rewrite Hx; reflexivity|]. destruct (f y); auto.
    rewrite IH. apply perm_swap.
  Qed.
End MergeOne.



(* ------------------------------------------------------------------------------------------ *)
(** * The whole S2gate stage, under the hypothesis that at most one pair carries repeated squeezers *)
Lemma key_eqb_sym a b : key_eqb a b = key_eqb b a.
Proof. unfold key_eqb. rewrite (Nat.eqb_sym (fst a)), (Nat.eqb_sym (snd a)). reflexivity. Qed.

Lemma key_eqb_refl a : key_eqb a a = true.
Proof. apply key_eqb_eq; reflexivity. Qed.

Lemma count_app k l1 l2 : count_key k (l1 ++ l2) = count_key k l1 + count_key k l2.
Proof. unfold count_key. rewrite filter_app, app_length. reflexivity. Qed.

Lemma count_cons k a l : count_key k (a :: l) = (if key_eqb k a then 1 else 0) + count_key k l.
Proof. unfold count_key; simpl. destruct (key_eqb k a); reflexivity. Qed.

Lemma count_in k l : In k l <-> 1 <= count_key k l.
Proof.
  induction l as [|a l IH]; [simpl; unfold count_key; simpl; split; [tauto | lia]|].
  rewrite count_cons. simpl. destruct (key_eqb k a) eqn:E.
  - apply key_eqb_eq in E. subst. split; [lia | auto].
  - rewrite IH. split; [intros [H|H]; [subst; rewrite key_eqb_refl in E; discriminate | lia] | intros H; right; lia].
Qed.

Lemma count_nodup l : NoDup l -> forall k, count_key k l <= 1.
Proof.
  induction 1 as [|a l Hn Hd IH]; intros k; [unfold count_key; simpl; lia|].
  rewrite count_cons. destruct (key_eqb k a) eqn:E; [|apply IH].
  apply key_eqb_eq in E; subst. rewrite count_in in Hn. lia.
Qed.

Lemma nodup_count l : (forall k, count_key k l <= 1) -> NoDup l.
Proof.
  induction l as [|a l IH]; intros H; constructor.
  - specialize (H a). rewrite count_cons, key_eqb_refl in H. rewrite count_in. lia.
  - apply IH. intros k. specialize (H k). rewrite count_cons in H. lia.
Qed.

Lemma count_rev k l : count_key k (rev l) = count_key k l.
Proof.
  induction l as [|a l IH]; simpl; auto. rewrite count_app, IH, !count_cons.
  assert (E : count_key k [] = 0) by reflexivity. rewrite E. lia.
Qed.

Lemma mem_key_in k l : mem_key k l = true <-> In k l.
Proof.
  unfold mem_key. rewrite existsb_exists. split.
  - intros [x [Hin E]]. apply key_eqb_eq in E. subst; auto.
  - intros H. exists k; split; auto. apply key_eqb_refl.
Qed.

Lemma first_occ_spec : forall l seen,
  NoDup (first_occ seen l) /\ (forall k, In k (first_occ seen l) <-> In k l /\ ~ In k seen).
Proof.
  induction l as [|a l IH]; intros seen; simpl.
  - split; [constructor | intros k; tauto].
  - destruct (mem_key a seen) eqn:E.
    + apply mem_key_in in E. destruct (IH seen) as [H1 H2]. split; auto.
      intros k; rewrite H2. split; [tauto|]. intros [[Heq|H3] H4]; [subst; contradiction | auto].
    + assert (Hns : ~ In a seen) by (intros Hin; apply mem_key_in in Hin; congruence).
      destruct (IH (a :: seen)) as [H1 H2]. split.
      * constructor; auto. rewrite H2. intros [_ Hn]. apply Hn; left; reflexivity.
      * intros k. simpl. rewrite H2. simpl. split.
        -- intros [Heq|[H3 H4]]; [subst; auto | split; auto].
        -- intros [[Heq|H3] H4]; [auto|]. destruct (key_eqb a k) eqn:Ek.
           ++ apply key_eqb_eq in Ek. auto.
           ++ right. split; auto. intros [Heq|Hs]; [subst; rewrite key_eqb_refl in Ek; discriminate | contradiction].
Qed.

Lemma filter_map_comm {A B} (g : A -> B) (f : B -> bool) l : filter f (map g l) = map g (filter (fun a => f (g a)) l).
Proof. induction l as [|a l IH]; simpl; auto. destruct (f (g a)); simpl; rewrite IH; reflexivity. Qed.

Lemma list_duplicates_eq keys :
  list_duplicates keys = map (fun k => (k, positions k keys)) (filter (fun k => 1 <? count_key k keys) (first_occ [] keys)).
Proof.
  unfold list_duplicates. rewrite filter_map_comm. f_equal. apply filter_ext. intros k. simpl.
  unfold positions. rewrite positions_length. reflexivity.
Qed.

Lemma nodup_all_equal {A} (l : list A) : NoDup l -> (forall a b, In a l -> In b l -> a = b) -> l = [] \/ exists a, l = [a].
Proof.
  intros Hn He. destruct l as [|a [|b t]]; auto; [right; eexists; reflexivity|].
  exfalso. assert (a = b) by (apply He; simpl; auto). subst. inversion Hn; subst. simpl in *; tauto.
Qed.

From Coq Require Import FinFun.

Lemma filter_false {A} (f : A -> bool) l : (forall x, In x l -> f x = false) -> filter f l = [].
Proof. induction l as [|a l IH]; intros H; simpl; auto. rewrite (H a (or_introl eq_refl)). apply IH. intros x Hx; apply H; right; auto. Qed.

Lemma filter_filter_length {A} (f g : A -> bool) l : length (filter f (filter g l)) <= length (filter f l).
Proof. induction l as [|a l IH]; simpl; auto. destruct (g a); simpl; destruct (f a); simpl; lia. Qed.

Lemma length_le1_in {A} (l : list A) x : length l <= 1 -> In x l -> l = [x].
Proof.
  destruct l as [|a [|b t]]; simpl; intros H Hin.
  - contradiction.
  - destruct Hin as [->|[]]; reflexivity.
  - lia.
Qed.
