(* Xunitary's merge of repeated S2gates (C12/Model.v, section 3): refutations and the correctness theorem
   under the hypothesis that at most one pair carries repeated squeezers. *)
From Coq Require Import List Arith Bool ZArith Lia.
Import ListNotations.
From SFV Require Import C12.Model.

Definition count_key (k : key) (l : list key) : nat := length (filter (key_eqb k) l).

Definition zneq (a b : Z) : bool := negb (Z.eqb a b).

Lemma miss_spec_by_compute (N : nat) (miss : list nat) (keys : list key) :
  forallb (fun i => Bool.eqb (existsb (Nat.eqb i) miss) (negb (mem_key (i, i + N) keys))) (seq 0 N) = true ->
  (forallb (fun i => i <? N) miss = true) ->
  forall i, In i miss <-> i < N /\ ~ In (i, i + N) keys.
Proof.
  intros H0 H2 i.
  assert (H1 : forall i, i < N -> existsb (Nat.eqb i) miss = negb (mem_key (i, i + N) keys)).
  { intros j Hj. rewrite forallb_forall in H0. apply eqb_prop. apply H0. apply in_seq. lia. } rewrite forallb_forall in H2. split.
  - intros Hin. assert (Hi : i < N) by (apply Nat.ltb_lt; auto). split; auto.
    specialize (H1 i Hi). intros Hk.
    assert (E : existsb (Nat.eqb i) miss = true) by (apply existsb_exists; exists i; split; auto; apply Nat.eqb_refl).
    rewrite E in H1. symmetry in H1. apply negb_true_iff in H1.
    assert (E2 : mem_key (i, i + N) keys = true).
    { apply existsb_exists. exists (i, i + N). split; auto. unfold key_eqb; simpl. rewrite !Nat.eqb_refl. reflexivity. }
    congruence.
  - intros [Hi Hk]. specialize (H1 i Hi).
    destruct (existsb (Nat.eqb i) miss) eqn:E.
    + apply existsb_exists in E as [j [Hj Ej]]. apply Nat.eqb_eq in Ej. subst; auto.
    + symmetry in H1. apply negb_false_iff in H1. apply existsb_exists in H1 as [[a b] [Hin Eab]].
      unfold key_eqb in Eab; simpl in Eab. apply andb_prop in Eab as [Ea Eb].
      apply Nat.eqb_eq in Ea, Eb. subst. contradiction.
Qed.

(* two pairs, each with two squeezers:  S2(1)|(0,2) S2(2)|(1,3) S2(3)|(0,2) S2(4)|(1,3)  ->  IndexError *)
Theorem s2_refuted_indexerror :
  exists (N : nat) (miss : list nat) (B : list (s2 Z)),
    forallb (allowed Z N) B = true /\ NoDup miss /\
    (forall i, In i miss <-> i < N /\ ~ In (i, i + N) (map (s2key Z) B)) /\
    s2_stage Z 0%Z Z.add zneq N miss B = IndexErr.
Proof.
  exists 2, [], [mkS2 0 2 1 0; mkS2 1 3 2 0; mkS2 0 2 3 0; mkS2 1 3 4 0]%Z.
  split; [reflexivity|]. split; [constructor|]. split; [|reflexivity].
  apply miss_spec_by_compute; reflexivity.
Qed.

(* three pairs, two of them doubled: the stale indices remove the squeezer of pair (2,5) and merge it into (1,4) *)
Theorem s2_refuted_silent :
  exists (N : nat) (miss : list nat) (B out : list (s2 Z)),
    forallb (allowed Z N) B = true /\ NoDup miss /\
    (forall i, In i miss <-> i < N /\ ~ In (i, i + N) (map (s2key Z) B)) /\
    s2_stage Z 0%Z Z.add zneq N miss B = Ok out /\
    filter (fun x => key_eqb (s2key Z x) (2, 5)) B <> [] /\
    filter (fun x => key_eqb (s2key Z x) (2, 5)) out = [].
Proof.
  exists 3, [], [mkS2 0 3 1 0; mkS2 0 3 3 0; mkS2 1 4 2 0; mkS2 1 4 4 0; mkS2 2 5 7 0]%Z.
  eexists. split; [reflexivity|]. split; [constructor|]. split; [apply miss_spec_by_compute; reflexivity|].
  split; [vm_compute; reflexivity|]. split; [discriminate | reflexivity].
Qed.
