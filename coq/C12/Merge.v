(* Xunitary's merge of repeated S2gates (C12/Model.v, section 3): the correctness theorem for every multiplicity on
   every pair, and the refutations of the pre-fix version (the definitions named ..._old). *)
From Coq Require Import List Arith Bool ZArith Lia.
Import ListNotations.
From SFV Require Import C12.Model.

Definition count_key (k : key) (l : list key) : nat := length (filter (key_eqb k) l).

Definition zneq (a b : Z) : bool := negb (Z.eqb a b).

Lemma miss_spec_by_compute (N : nat) (miss : list nat) (keys : list key) :
  forallb (fun i => Bool.eqb (existsb (Nat.eqb i) miss) (negb (mem_key (i, i + N) keys))) (seq 0 N) = true ->
  (forallb (fun i => i <? N) miss = true) ->
  forall i, In i miss <-> i < N /\ ~ In (i, i + N) keys.
Proof.
  intros H0 H2 i.
  assert (H1 : forall i, i < N -> existsb (Nat.eqb i) miss = negb (mem_key (i, i + N) keys)).
  { intros j Hj. rewrite forallb_forall in H0. apply eqb_prop. apply H0. apply in_seq. lia. } rewrite forallb_forall in H2. split.
  - intros Hin. assert (Hi : i < N) by (apply Nat.ltb_lt; auto). split; auto.
    specialize (H1 i Hi). intros Hk.
    assert (E : existsb (Nat.eqb i) miss = true) by (apply existsb_exists; exists i; split; auto; apply Nat.eqb_refl).
    rewrite E in H1. symmetry in H1. apply negb_true_iff in H1.
    assert (E2 : mem_key (i, i + N) keys = true).
    { apply existsb_exists. exists (i, i + N). split; auto. unfold key_eqb; simpl. rewrite !Nat.eqb_refl. reflexivity. }
    congruence.
  - intros [Hi Hk]. specialize (H1 i Hi).
    destruct (existsb (Nat.eqb i) miss) eqn:E.
    + apply existsb_exists in E as [j [Hj Ej]]. apply Nat.eqb_eq in Ej. subst; auto.
    + symmetry in H1. apply negb_false_iff in H1. apply existsb_exists in H1 as [[a b] [Hin Eab]].
      unfold key_eqb in Eab; simpl in Eab. apply andb_prop in Eab as [Ea Eb].
      apply Nat.eqb_eq in Ea, Eb. subst. contradiction.
Qed.

Definition S2z (i j : nat) (r phi : Z) : s2 Z := mkS2 i j r phi false.

(* PRE-FIX version. two pairs, each with two squeezers:  S2(1)|(0,2) S2(2)|(1,3) S2(3)|(0,2) S2(4)|(1,3)  ->  IndexError *)
Theorem s2_old_refuted_indexerror :
  exists (N : nat) (miss : list nat) (B : list (s2 Z)),
    forallb (allowed Z N) B = true /\ NoDup miss /\
    (forall i, In i miss <-> i < N /\ ~ In (i, i + N) (map (s2key Z) B)) /\
    s2_stage_old Z 0%Z Z.add zneq N miss B = IndexErr.
Proof.
  exists 2, [], [S2z 0 2 1 0; S2z 1 3 2 0; S2z 0 2 3 0; S2z 1 3 4 0]%Z.
  split; [reflexivity|]. split; [constructor|]. split; [|reflexivity].
  apply miss_spec_by_compute; reflexivity.
Qed.

(* PRE-FIX version. three pairs, two of them doubled: the stale indices remove the squeezer of pair (2,5) *)
Theorem s2_old_refuted_silent :
  exists (N : nat) (miss : list nat) (B out : list (s2 Z)),
    forallb (allowed Z N) B = true /\ NoDup miss /\
    (forall i, In i miss <-> i < N /\ ~ In (i, i + N) (map (s2key Z) B)) /\
    s2_stage_old Z 0%Z Z.add zneq N miss B = Ok out /\
    filter (fun x => key_eqb (s2key Z x) (2, 5)) B <> [] /\
    filter (fun x => key_eqb (s2key Z x) (2, 5)) out = [].
Proof.
  exists 3, [], [S2z 0 3 1 0; S2z 0 3 3 0; S2z 1 4 2 0; S2z 1 4 4 0; S2z 2 5 7 0]%Z.
  eexists. split; [reflexivity|]. split; [constructor|]. split; [apply miss_spec_by_compute; reflexivity|].
  split; [vm_compute; reflexivity|]. split; [discriminate | reflexivity].
Qed.

(* PRE-FIX version. S2gate(5).H and S2gate(3) on one pair are merged into r = 8; the current version gives -2 *)
Theorem s2_old_refuted_dagger :
  s2_stage_old Z 0%Z Z.add zneq 1 [] [mkS2 0 1 5 0 true; mkS2 0 1 3 0 false]%Z = Ok [S2z 0 1 8 0] /\
  s2_stage Z 0%Z Z.add Z.opp zneq 1 [] [mkS2 0 1 5 0 true; mkS2 0 1 3 0 false]%Z = Ok [S2z 0 1 (-2) 0].
Proof. split; reflexivity. Qed.

(* the very same inputs on the current version *)
Example s2_new_on_old_witnesses :
  s2_stage Z 0%Z Z.add Z.opp zneq 2 [] [S2z 0 2 1 0; S2z 1 3 2 0; S2z 0 2 3 0; S2z 1 3 4 0]%Z
    = Ok [S2z 0 2 4 0; S2z 1 3 6 0]%Z /\
  s2_stage Z 0%Z Z.add Z.opp zneq 3 [] [S2z 0 3 1 0; S2z 0 3 3 0; S2z 1 4 2 0; S2z 1 4 4 0; S2z 2 5 7 0]%Z
    = Ok [S2z 0 3 4 0; S2z 1 4 6 0; S2z 2 5 7 0]%Z.
Proof. split; reflexivity. Qed.

(* ------------------------------------------------------------------------------------------ *)
Lemma key_eqb_eq a b : key_eqb a b = true <-> a = b.
Proof.
  destruct a as [a1 a2], b as [b1 b2]; unfold key_eqb; simpl. rewrite andb_true_iff, !Nat.eqb_eq.
  split; [intros [-> ->]; reflexivity | intros H; inversion H; auto].
Qed.

Lemma positions_from_app o k a b :
  positions_from o k (a ++ b) = positions_from o k a ++ positions_from (o + length a) k b.
Proof.
  revert o; induction a as [|x a IH]; intros o; simpl.
  - rewrite Nat.add_0_r; reflexivity.
  - rewrite IH. replace (S o + length a) with (o + S (length a)) by lia. destruct (key_eqb x k); reflexivity.
Qed.

Lemma positions_length o k l : length (positions_from o k l) = count_key k l.
Proof.
  revert o; unfold count_key; induction l as [|x l IH]; intros o; simpl; auto.
  assert (E : key_eqb x k = key_eqb k x).
  { destruct (key_eqb x k) eqn:E1, (key_eqb k x) eqn:E2; auto.
    - apply key_eqb_eq in E1; subst. rewrite (proj2 (key_eqb_eq k k) eq_refl) in E2; discriminate.
    - apply key_eqb_eq in E2; subst. rewrite (proj2 (key_eqb_eq x x) eq_refl) in E1; discriminate. }
  rewrite <- E. destruct (key_eqb x k); simpl; rewrite IH; reflexivity.
Qed.

Lemma last_cons {A} (l : list A) : forall a d, last (a :: l) d = last l a.
Proof. induction l as [|b l IH]; intros a d; [reflexivity|]. change (last (a :: b :: l) d) with (last (b :: l) d). rewrite !IH. reflexivity. Qed.

From Coq Require Import Permutation.
Section MergeOne.
  Variable K : Type.
  Variable kzero : K.
  Variable kadd : K -> K -> K.
  Variable kneg : K -> K.
  Variable kneq : K -> K -> bool.
  Notation s2 := (s2 K).
  Notation s2key := (s2key K).
  Notation signed_r := (signed_r K kneg).
  Notation pop_loop_gen := (pop_loop_gen K kadd kneq).
  Notation merge_loop := (merge_loop K kzero kadd kneg kneq).

  Definition is_k (k : key) (c : s2) : bool := key_eqb (s2key c) k.

  (* the phases as the loop visits them (last occurrence first): every `phi_new != phi` test is false *)
  Fixpoint phases_agree_from (phi : K) (rs : list s2) : bool :=
    match rs with
    | [] => true
    | b :: t => negb (kneq (sphi b) phi) && phases_agree_from (sphi b) t
    end.
  Definition phases_agree (rs : list s2) : bool :=
    match rs with [] => true | a :: t => phases_agree_from (sphi a) t end.

  (* pure list part of the inner loop *)
  Fixpoint pops (idx : list nat) (B : list s2) : option (list s2 * list s2) :=
    match idx with
    | [] => Some ([], B)
    | i :: idx' =>
        match pop_at i B with
        | None => None
        | Some (c, B') =>
            match pops idx' B' with None => None | Some (rs, B'') => Some (c :: rs, B'') end
        end
    end.

  Lemma pop_at_app (l : list s2) x r : pop_at (length l) (l ++ x :: r) = Some (x, l ++ r).
  Proof. induction l as [|y l IH]; simpl; auto. rewrite IH. reflexivity. Qed.

  Lemma pops_positions k : forall l1 l2,
    pops (rev (positions_from 0 k (map s2key l1))) (l1 ++ l2)
    = Some (rev (filter (is_k k) l1), filter (fun c => negb (is_k k c)) l1 ++ l2).
  Proof.
    induction l1 as [|x l IH] using rev_ind; intros l2; simpl; auto.
    rewrite map_app, positions_from_app, !filter_app. simpl. rewrite map_length.
    unfold is_k at 2 4. destruct (key_eqb (s2key x) k) eqn:E; simpl.
    - rewrite rev_app_distr. simpl. rewrite <- app_assoc. simpl. rewrite pop_at_app.
      rewrite IH. rewrite rev_app_distr. simpl. rewrite app_nil_r. reflexivity.
    - rewrite app_nil_r. rewrite <- app_assoc. simpl. rewrite IH. rewrite app_nil_r, <- app_assoc. reflexivity.
  Qed.


  (* accumulation of r and phi over the popped commands, None = CircuitError *)
  Fixpoint acc (rof : s2 -> K) (rs : list s2) (first : bool) (r phi : K) : option (K * K) :=
    match rs with
    | [] => Some (r, phi)
    | c :: rs' => if negb first && kneq (sphi c) phi then None else acc rof rs' false (kadd r (rof c)) (sphi c)
    end.

  Lemma pop_loop_pops rof : forall idx first B r phi rs B',
    pops idx B = Some (rs, B') ->
    pop_loop_gen rof idx first B r phi =
      match acc rof rs first r phi with Some (r', phi') => Ok (B', r', phi') | None => CircuitErr 3 end.
  Proof.
    induction idx as [|i idx IH]; intros first B r phi rs B' H; simpl in *.
    - inversion H; subst; reflexivity.
    - destruct (pop_at i B) as [[c B1]|]; [|discriminate].
      destruct (pops idx B1) as [[rs1 B2]|] eqn:E; [|discriminate]. inversion H; subst. simpl.
      destruct (negb first && kneq (sphi c) phi); auto.
  Qed.

  Lemma acc_from rof : forall rs r phi,
    acc rof rs false r phi =
      if phases_agree_from phi rs then Some (fold_left kadd (map rof rs) r, last (map sphi rs) phi) else None.
  Proof.
    induction rs as [|c rs IH]; intros r phi; simpl; auto.
    destruct (kneq (sphi c) phi); simpl; auto. rewrite IH.
    destruct (phases_agree_from (sphi c) rs); auto. f_equal. f_equal.
    symmetry. apply last_cons.
  Qed.

  Lemma acc_first rof rs :
    acc rof rs true kzero kzero =
      if phases_agree rs then Some (fold_left kadd (map rof rs) kzero, last (map sphi rs) kzero) else None.
  Proof.
    destruct rs as [|c rs]; simpl; auto. rewrite acc_from.
    destruct (phases_agree_from (sphi c) rs); auto. f_equal. f_equal. symmetry. apply last_cons.
  Qed.

  (* the command that replaces the squeezers of pair k: r = the signed r's added from the last occurrence to the
     first starting from 0, phase of the first occurrence, no dagger *)
  Definition merged (k : key) (B : list s2) : s2 :=
    let bs := filter (is_k k) B in
    mkS2 (fst k) (snd k) (fold_left kadd (map signed_r (rev bs)) kzero) (last (map sphi (rev bs)) kzero) false.

  (* one iteration of the outer loop: never an IndexError; CircuitError exactly when two successive phases differ;
     otherwise all commands of k are removed, every other command is kept in order, and one merged command is
     inserted where the first one was *)
  Theorem merge_step (k : key) (D : list key) (B : list s2) :
    merge_loop (k :: D) B =
      if phases_agree (rev (filter (is_k k) B))
      then merge_loop D (insert_at (hd 0 (positions k (map s2key B))) (merged k B) (filter (fun c => negb (is_k k c)) B))
      else CircuitErr 3.
  Proof.
    simpl. unfold Model.pop_loop.
    pose proof (pops_positions k B []) as Hp. rewrite !app_nil_r in Hp.
    fold (positions k (map s2key B)) in Hp.
    rewrite (pop_loop_pops _ _ _ _ _ _ _ _ Hp). rewrite acc_first.
    destruct (phases_agree (rev (filter (is_k k) B))); reflexivity.
  Qed.

  Lemma insert_at_perm {A} (x : A) : forall i l, Permutation (insert_at i x l) (x :: l).
  Proof.
    induction i as [|i IH]; intros l; simpl; auto.
    destruct l as [|y l]; auto. rewrite IH. apply perm_swap.
  Qed.

  Lemma filter_insert_at_false {A} (f : A -> bool) (x : A) : f x = false ->
    forall i l, filter f (insert_at i x l) = filter f l.
  Proof.
    intros Hx. induction i as [|i IH]; intros l; simpl; [rewrite Hx; reflexivity|].
    destruct l as [|y l]; simpl; [rewrite Hx; reflexivity|]. rewrite IH. reflexivity.
  Qed.

  Lemma filter_insert_at_true {A} (f : A -> bool) (x : A) : f x = true ->
    forall i l, Permutation (filter f (insert_at i x l)) (x :: filter f l).
  Proof.
    intros Hx. induction i as [|i IH]; intros l; simpl; [rewrite Hx; reflexivity|].
    destruct l as [|y l]; simpl; [rewrite Hx; reflexivity|]. destruct (f y); auto.
    rewrite IH. apply perm_swap.
  Qed.
End MergeOne.



(* ------------------------------------------------------------------------------------------ *)
(** * The whole S2gate stage, under the hypothesis that at most one pair carries repeated squeezers *)
Lemma key_eqb_sym a b : key_eqb a b = key_eqb b a.
Proof. unfold key_eqb. rewrite (Nat.eqb_sym (fst a)), (Nat.eqb_sym (snd a)). reflexivity. Qed.

Lemma key_eqb_refl a : key_eqb a a = true.
Proof. apply key_eqb_eq; reflexivity. Qed.

Lemma count_app k l1 l2 : count_key k (l1 ++ l2) = count_key k l1 + count_key k l2.
Proof. unfold count_key. rewrite filter_app, app_length. reflexivity. Qed.

Lemma count_cons k a l : count_key k (a :: l) = (if key_eqb k a then 1 else 0) + count_key k l.
Proof. unfold count_key; simpl. destruct (key_eqb k a); reflexivity. Qed.

Lemma count_in k l : In k l <-> 1 <= count_key k l.
Proof.
  induction l as [|a l IH]; [simpl; unfold count_key; simpl; split; [tauto | lia]|].
  rewrite count_cons. simpl. destruct (key_eqb k a) eqn:E.
  - apply key_eqb_eq in E. subst. split; [lia | auto].
  - rewrite IH. split; [intros [H|H]; [subst; rewrite key_eqb_refl in E; discriminate | lia] | intros H; right; lia].
Qed.

Lemma count_nodup l : NoDup l -> forall k, count_key k l <= 1.
Proof.
  induction 1 as [|a l Hn Hd IH]; intros k; [unfold count_key; simpl; lia|].
  rewrite count_cons. destruct (key_eqb k a) eqn:E; [|apply IH].
  apply key_eqb_eq in E; subst. rewrite count_in in Hn. lia.
Qed.

Lemma nodup_count l : (forall k, count_key k l <= 1) -> NoDup l.
Proof.
  induction l as [|a l IH]; intros H; constructor.
  - specialize (H a). rewrite count_cons, key_eqb_refl in H. rewrite count_in. lia.
  - apply IH. intros k. specialize (H k). rewrite count_cons in H. lia.
Qed.

Lemma count_rev k l : count_key k (rev l) = count_key k l.
Proof.
  induction l as [|a l IH]; simpl; auto. rewrite count_app, IH, !count_cons.
  assert (E : count_key k [] = 0) by reflexivity. rewrite E. lia.
Qed.

Lemma mem_key_in k l : mem_key k l = true <-> In k l.
Proof.
  unfold mem_key. rewrite existsb_exists. split.
  - intros [x [Hin E]]. apply key_eqb_eq in E. subst; auto.
  - intros H. exists k; split; auto. apply key_eqb_refl.
Qed.

Lemma first_occ_spec : forall l seen,
  NoDup (first_occ seen l) /\ (forall k, In k (first_occ seen l) <-> In k l /\ ~ In k seen).
Proof.
  induction l as [|a l IH]; intros seen; simpl.
  - split; [constructor | intros k; tauto].
  - destruct (mem_key a seen) eqn:E.
    + apply mem_key_in in E. destruct (IH seen) as [H1 H2]. split; auto.
      intros k; rewrite H2. split; [tauto|]. intros [[Heq|H3] H4]; [subst; contradiction | auto].
    + assert (Hns : ~ In a seen) by (intros Hin; apply mem_key_in in Hin; congruence).
      destruct (IH (a :: seen)) as [H1 H2]. split.
      * constructor; auto. rewrite H2. intros [_ Hn]. apply Hn; left; reflexivity.
      * intros k. simpl. rewrite H2. simpl. split.
        -- intros [Heq|[H3 H4]]; [subst; auto | split; auto].
        -- intros [[Heq|H3] H4]; [auto|]. destruct (key_eqb a k) eqn:Ek.
           ++ apply key_eqb_eq in Ek. auto.
           ++ right. split; auto. intros [Heq|Hs]; [subst; rewrite key_eqb_refl in Ek; discriminate | contradiction].
Qed.

Lemma filter_map_comm {A B} (g : A -> B) (f : B -> bool) l : filter f (map g l) = map g (filter (fun a => f (g a)) l).
Proof. induction l as [|a l IH]; simpl; auto. destruct (f (g a)); simpl; rewrite IH; reflexivity. Qed.

Lemma list_duplicates_eq keys :
  list_duplicates keys = map (fun k => (k, positions k keys)) (filter (fun k => 1 <? count_key k keys) (first_occ [] keys)).
Proof.
  unfold list_duplicates. rewrite filter_map_comm. f_equal. apply filter_ext. intros k. simpl.
  unfold positions. rewrite positions_length. reflexivity.
Qed.

Lemma nodup_all_equal {A} (l : list A) : NoDup l -> (forall a b, In a l -> In b l -> a = b) -> l = [] \/ exists a, l = [a].
Proof.
  intros Hn He. destruct l as [|a [|b t]]; auto; [right; eexists; reflexivity|].
  exfalso. assert (a = b) by (apply He; simpl; auto). subst. inversion Hn; subst. simpl in *; tauto.
Qed.

From Coq Require Import FinFun.

Lemma filter_false {A} (f : A -> bool) l : (forall x, In x l -> f x = false) -> filter f l = [].
Proof. induction l as [|a l IH]; intros H; simpl; auto. rewrite (H a (or_introl eq_refl)). apply IH. intros x Hx; apply H; right; auto. Qed.

Lemma filter_filter_length {A} (f g : A -> bool) l : length (filter f (filter g l)) <= length (filter f l).
Proof. induction l as [|a l IH]; simpl; auto. destruct (g a); simpl; destruct (f a); simpl; lia. Qed.

Lemma length_le1_in {A} (l : list A) x : length l <= 1 -> In x l -> l = [x].
Proof.
  destruct l as [|a [|b t]]; simpl; intros H Hin.
  - contradiction.
  - destruct Hin as [->|[]]; reflexivity.
  - lia.
Qed.

Lemma filter_filter_andb {A} (f g : A -> bool) l : filter f (filter g l) = filter (fun x => g x && f x) l.
Proof. induction l as [|a l IH]; simpl; auto. destruct (g a); simpl; [destruct (f a); rewrite IH; reflexivity | exact IH]. Qed.

Lemma filter_all_true {A} (f : A -> bool) l : (forall x, In x l -> f x = true) -> filter f l = l.
Proof. induction l as [|a l IH]; intros H; simpl; auto. rewrite (H a (or_introl eq_refl)). f_equal. apply IH. intros x Hx; apply H; right; auto. Qed.

Section Full.
  Variable K : Type.
  Variable kzero : K.
  Variable kadd : K -> K -> K.
  Variable kneg : K -> K.
  Variable kneq : K -> K -> bool.
  Variable N : nat.
  Notation s2 := (s2 K).
  Notation s2key := (s2key K).
  Notation is_k := (is_k K).
  Notation signed_r := (signed_r K kneg).
  Notation phases_agree := (phases_agree K kneq).
  Notation merged := (merged K kzero kadd kneg).
  Notation merge_loop := (merge_loop K kzero kadd kneg kneq).

  Definition kz (i : nat) : key := (i, i + N).
  Definition zs (i : nat) : s2 := mkS2 i (i + N) kzero kzero false.

  (* what the command c returned for pair (i, i+N) must be, in terms of the source squeezers of that pair *)
  Definition spec_for (B : list s2) (i : nat) (c : s2) : Prop :=
    match filter (is_k (kz i)) B with
    | [] => c = zs i
    | [b] => c = b
    | bs => c = mkS2 i (i + N) (fold_left kadd (map signed_r (rev bs)) kzero) (last (map sphi (rev bs)) kzero) false
            /\ phases_agree (rev bs) = true
    end.

  Definition inD (D : list key) (c : s2) : bool := mem_key (s2key c) D.

  Lemma merged_key k (B : list s2) : s2key (merged k B) = k.
  Proof. destruct k; reflexivity. Qed.

  (* the merge loop over ANY duplicate-free list of keys, on ANY list: never an IndexError; CircuitError only if the
     phases of one of the keys disagree; otherwise the result is, as a multiset, one merged command per key of D plus
     the commands of all other keys *)
  Lemma merge_loop_spec : forall D (B : list s2), NoDup D ->
    match merge_loop D B with
    | IndexErr => False
    | CircuitErr c => c = 3 /\ exists k, In k D /\ phases_agree (rev (filter (is_k k) B)) = false
    | Ok out => (forall k, In k D -> phases_agree (rev (filter (is_k k) B)) = true) /\
                Permutation out (map (fun k => merged k B) D ++ filter (fun c => negb (inD D c)) B)
    end.
  Proof.
    induction D as [|a D IH]; intros B Hnd.
    - simpl. split; [intros k []|]. rewrite filter_all_true; auto.
    - rewrite merge_step. destruct (phases_agree (rev (filter (is_k a) B))) eqn:Eph.
      2:{ split; auto. exists a. split; [left; reflexivity | auto]. }
      inversion Hnd as [|x l Hna HndD]; subst.
      set (B' := insert_at (hd 0 (positions a (map s2key B))) (merged a B) (filter (fun c => negb (is_k a c)) B)).
      assert (Hfil : forall k, k <> a -> filter (is_k k) B' = filter (is_k k) B).
      { intros k Hne. unfold B'. rewrite filter_insert_at_false.
        - rewrite filter_filter_andb. apply filter_ext. intros x. unfold Merge.is_k.
          destruct (key_eqb (s2key x) k) eqn:E1; [|apply andb_false_r].
          apply key_eqb_eq in E1. destruct (key_eqb (s2key x) a) eqn:E2; auto.
          apply key_eqb_eq in E2. congruence.
        - unfold Merge.is_k. rewrite merged_key. destruct (key_eqb a k) eqn:E; auto. apply key_eqb_eq in E. congruence. }
      specialize (IH B' HndD). destruct (merge_loop D B') as [out|c|].
      + destruct IH as [IH1 IH2]. split.
        * intros k [<-|Hk]; auto. rewrite <- Hfil; [apply IH1; auto | intros ->; contradiction].
        * rewrite IH2.
          assert (E1 : map (fun k => merged k B') D = map (fun k => merged k B) D).
          { apply map_ext_in. intros k Hk. unfold Merge.merged. rewrite Hfil; [reflexivity | intros ->; contradiction]. }
          rewrite E1. simpl map.
          assert (Hm : negb (inD D (merged a B)) = true).
          { unfold inD. rewrite merged_key. destruct (mem_key a D) eqn:E; auto. apply mem_key_in in E. contradiction. }
          unfold B'. rewrite (filter_insert_at_true (fun c => negb (inD D c)) (merged a B) Hm). rewrite filter_filter_andb.
          assert (E2 : filter (fun x => negb (is_k a x) && negb (inD D x)) B = filter (fun c => negb (inD (a :: D) c)) B).
          { apply filter_ext. intros x. unfold inD, mem_key, Merge.is_k. simpl. rewrite negb_orb. reflexivity. }
          rewrite E2. simpl. symmetry. apply Permutation_middle.
      + destruct IH as [Hc [k [Hk Hph]]]. split; auto. exists k. split; [right; auto|].
        rewrite <- Hfil; auto. intros ->; contradiction.
      + contradiction.
  Qed.

  Lemma count_cmd k (B : list s2) : count_key k (map s2key B) = length (filter (is_k k) B).
  Proof.
    induction B as [|a B IH]; simpl; auto. rewrite count_cons. unfold Merge.is_k at 1. rewrite key_eqb_sym.
    destruct (key_eqb (s2key a) k); simpl; rewrite IH; reflexivity.
  Qed.

  Lemma filter_single (out : list s2) c : NoDup (map s2key out) -> In c out -> filter (is_k (s2key c)) out = [c].
  Proof.
    induction out as [|a t IH]; intros Hn Hin; [contradiction|]. simpl in Hn. inversion Hn as [|x l Hna Hnt]; subst.
    simpl. destruct Hin as [->|Hin].
    - unfold Merge.is_k at 1. rewrite key_eqb_refl. f_equal. apply filter_false. intros x Hx. unfold Merge.is_k.
      destruct (key_eqb (s2key x) (s2key c)) eqn:E; auto. apply key_eqb_eq in E. exfalso; apply Hna. rewrite <- E. apply in_map; auto.
    - assert (E0 : is_k (s2key c) a = false).
      { unfold Merge.is_k. destruct (key_eqb (s2key a) (s2key c)) eqn:E; auto. apply key_eqb_eq in E. exfalso. apply Hna. rewrite E. apply in_map; auto. }
      rewrite E0. apply IH; auto.
  Qed.

  Lemma kz_inj : Injective kz.
  Proof. intros i j H. inversion H; auto. Qed.

  Definition AK : list key := map kz (seq 0 N).
  Lemma AK_nodup : NoDup AK.
  Proof. apply Injective_map_NoDup; [apply kz_inj | apply seq_NoDup]. Qed.
  Lemma AK_length : length AK = N.
  Proof. unfold AK. rewrite map_length, seq_length. reflexivity. Qed.
  Lemma AK_in k : In k AK <-> exists i, i < N /\ k = kz i.
  Proof.
    unfold AK. rewrite in_map_iff. split; intros [i [H1 H2]].
    - exists i. apply in_seq in H2. split; [lia | auto].
    - exists i. split; auto. apply in_seq. lia.
  Qed.

  Lemma length_from_nodup (ks : list key) :
    NoDup ks -> (forall k, In k ks -> exists i, i < N /\ k = kz i) -> (forall i, i < N -> In (kz i) ks) -> length ks = N.
  Proof.
    intros Hn H1 H2. rewrite <- AK_length. apply Nat.le_antisymm.
    - apply NoDup_incl_length; auto. intros k Hk. apply AK_in. auto.
    - apply NoDup_incl_length; [apply AK_nodup|]. intros k Hk. apply AK_in in Hk as [i [Hi ->]]. auto.
  Qed.

  Lemma add_missing_eq miss (B : list s2) : add_missing K kzero N miss B = rev (map zs miss) ++ B.
  Proof.
    unfold add_missing. revert B. induction miss as [|a miss IH]; intros B; simpl; auto.
    rewrite IH. rewrite <- app_assoc. reflexivity.
  Qed.

  Section Hyps.
    Variable miss : list nat.
    Variable B : list s2.
    Hypothesis Hall : forallb (allowed K N) B = true.
    Hypothesis Hmiss_nd : NoDup miss.
    Hypothesis Hmiss : forall i, In i miss <-> i < N /\ ~ In (kz i) (map s2key B).

    Let B1 := rev (map zs miss) ++ B.
    Let keys1 := map s2key B1.

    Lemma allowed_key c : In c B -> exists i, i < N /\ s2key c = kz i.
    Proof.
      intros H. rewrite forallb_forall in Hall. specialize (Hall c H). unfold allowed in Hall.
      apply andb_prop in Hall as [H1 H2]. apply Nat.ltb_lt in H1. apply Nat.eqb_eq in H2.
      exists (mi c). split; auto. unfold Model.s2key, kz. rewrite H2. reflexivity.
    Qed.

    Lemma keys_miss : map s2key (rev (map zs miss)) = rev (map kz miss).
    Proof. rewrite map_rev, map_map. reflexivity. Qed.

    Lemma keys1_eq : keys1 = rev (map kz miss) ++ map s2key B.
    Proof. unfold keys1, B1. rewrite map_app, keys_miss. reflexivity. Qed.

    Lemma count_miss k : count_key k (rev (map kz miss)) <= 1.
    Proof. rewrite count_rev. apply count_nodup. apply Injective_map_NoDup; [apply kz_inj | auto]. Qed.

    Lemma incl1 : forall k, In k keys1 -> exists i, i < N /\ k = kz i.
    Proof.
      intros k. rewrite keys1_eq, in_app_iff, <- in_rev, !in_map_iff. intros [[i [<- Hi]]|[c [<- Hc]]].
      - exists i. split; auto. apply Hmiss in Hi. tauto.
      - apply allowed_key; auto.
    Qed.

    Lemma incl2 : forall i, i < N -> In (kz i) keys1.
    Proof.
      intros i Hi. rewrite keys1_eq, in_app_iff, <- in_rev.
      destruct (count_key (kz i) (map s2key B)) eqn:E.
      - left. apply in_map. apply Hmiss. split; auto. rewrite count_in. lia.
      - right. apply count_in. lia.
    Qed.

    Lemma dup1_dupB k : 1 < count_key k keys1 ->
      count_key k (rev (map kz miss)) = 0 /\ 1 < count_key k (map s2key B).
    Proof.
      rewrite keys1_eq, count_app. pose proof (count_miss k) as Hm.
      destruct (count_key k (rev (map kz miss))) eqn:E; [intros; split; lia|].
      assert (Hin : In k (rev (map kz miss))) by (apply count_in; lia).
      rewrite <- in_rev, in_map_iff in Hin. destruct Hin as [i [<- Hi]].
      apply Hmiss in Hi as [_ Hni]. rewrite count_in in Hni. lia.
    Qed.

    Lemma spec_from_B1 i c : filter (is_k (kz i)) B1 = [c] -> spec_for B i c.
    Proof.
      unfold B1. rewrite filter_app.
      assert (Hmp : forall x, In x (filter (is_k (kz i)) (rev (map zs miss))) -> x = zs i).
      { intros x Hx. apply filter_In in Hx as [Hx1 Hx2]. rewrite <- in_rev, in_map_iff in Hx1.
        destruct Hx1 as [j [<- _]]. unfold Merge.is_k in Hx2. apply key_eqb_eq in Hx2.
        change (s2key (zs j)) with (kz j) in Hx2. apply kz_inj in Hx2. subst; reflexivity. }
      set (mp := filter (is_k (kz i)) (rev (map zs miss))) in *.
      unfold spec_for. destruct (filter (is_k (kz i)) B) as [|b [|b2 t]].
      - rewrite app_nil_r. intros H. apply Hmp. rewrite H. left; reflexivity.
      - intros H. destruct mp as [|m [|m2 mp']]; simpl in H; inversion H; reflexivity.
      - intros H. apply (f_equal (@length _)) in H. rewrite app_length in H. simpl in H. lia.
    Qed.

    Lemma cmd_of_key (l : list s2) k : In k (map s2key l) -> exists x, In x l /\ s2key x = k.
    Proof. rewrite in_map_iff. intros [x [H1 H2]]; eauto. Qed.

    Lemma key_fields (x : s2) i : s2key x = kz i -> mi x = i /\ mj x = i + N.
    Proof. unfold Model.s2key, kz. intros H; inversion H; auto. Qed.

    (* the result is B1 itself and its keys are duplicate-free *)
    Lemma ok_case : NoDup keys1 ->
      length B1 = N /\ forall i, i < N -> exists c, filter (is_k (kz i)) B1 = [c] /\ mi c = i /\ mj c = i + N /\ spec_for B i c.
    Proof.
      intros Hnd. split.
      - rewrite <- (map_length s2key). apply length_from_nodup; auto; [apply incl1 | apply incl2].
      - intros i Hi. destruct (cmd_of_key B1 (kz i) (incl2 i Hi)) as [x [Hx Hk]].
        exists x. pose proof (filter_single B1 x Hnd Hx) as Hf. rewrite Hk in Hf.
        destruct (key_fields x i Hk). repeat split; auto. apply spec_from_B1; auto.
    Qed.

    Theorem s2_stage_correct :
      match s2_stage K kzero kadd kneg kneq N miss B with
      | IndexErr => False
      | CircuitErr c =>
          c = 3 /\ exists k, 1 < count_key k (map s2key B) /\ phases_agree (rev (filter (is_k k) B)) = false
      | Ok out =>
          length out = N /\
          forall i, i < N -> exists c, filter (is_k (kz i)) out = [c] /\ mi c = i /\ mj c = i + N /\ spec_for B i c
      end.
    Proof.
      unfold s2_stage. rewrite Hall. simpl negb. cbv iota. rewrite add_missing_eq.
      fold B1. fold keys1.
      destruct (N <? length keys1) eqn:Elen.
      2:{ apply Nat.ltb_ge in Elen. apply ok_case.
          apply (NoDup_incl_NoDup AK_nodup); [rewrite AK_length; auto|].
          intros k Hk. apply AK_in in Hk as [i [Hi ->]]. apply incl2; auto. }
      clear Elen. rewrite list_duplicates_eq, map_map. simpl. rewrite map_id.
      destruct (first_occ_spec keys1 []) as [Hfo1 Hfo2].
      set (D := filter (fun k => 1 <? count_key k keys1) (first_occ [] keys1)).
      assert (HinD : forall k, In k D <-> 1 < count_key k keys1).
      { intros k. unfold D. rewrite filter_In, Nat.ltb_lt, Hfo2. split; [tauto|]. intros H. split; auto. split; [apply count_in; lia | tauto]. }
      assert (HndD : NoDup D) by (apply NoDup_filter; auto).
      assert (Ebs : forall k, In k D -> filter (is_k k) B1 = filter (is_k k) B).
      { intros k Hk. apply HinD in Hk. destruct (dup1_dupB k Hk) as [Hm0 _].
        unfold B1. rewrite filter_app. replace (filter (is_k k) (rev (map zs miss))) with (@nil s2); auto.
        symmetry. apply length_zero_iff_nil. rewrite <- count_cmd, keys_miss. exact Hm0. }
      assert (Hle1 : forall k, ~ In k D -> count_key k keys1 <= 1).
      { intros k Hn. destruct (le_lt_dec (count_key k keys1) 1); auto. apply HinD in l. contradiction. }
      pose proof (merge_loop_spec D B1 HndD) as Hspec. unfold keys1 in *.
      destruct (merge_loop D B1) as [out|c|]; [| |exact Hspec].
      2:{ destruct Hspec as [Hc [k [Hk Hph]]]. split; auto. exists k. rewrite <- (Ebs k Hk). split; auto.
          apply HinD in Hk. apply dup1_dupB in Hk. tauto. }
      destruct Hspec as [Hph Hperm].
      set (MS := map (fun k => merged k B1) D) in *.
      set (R := filter (fun c => negb (inD D c)) B1) in *.
      assert (HR_in : forall x, In x R <-> In x B1 /\ ~ In (s2key x) D).
      { intros x. unfold R, inD. rewrite filter_In. split; intros [H1 H2]; split; auto.
        - intros Hin. apply mem_key_in in Hin. rewrite Hin in H2. discriminate.
        - destruct (mem_key (s2key x) D) eqn:E; auto. apply mem_key_in in E. contradiction. }
      assert (Hin_out : forall x, In x out <-> In x MS \/ In x R).
      { intros x. rewrite <- in_app_iff. split; intros H.
        - apply (Permutation_in _ Hperm); auto.
        - apply (Permutation_in _ (Permutation_sym Hperm)); auto. }
      assert (HkMS : map s2key MS = D).
      { unfold MS. rewrite map_map. rewrite <- (map_id D) at 2. apply map_ext. intros k. apply merged_key. }
      assert (Hnd_keys : NoDup (D ++ map s2key R)).
      { apply nodup_count. intros k. rewrite count_app, count_cmd.
        destruct (mem_key k D) eqn:E.
        - apply mem_key_in in E. pose proof (count_nodup D HndD k).
          rewrite (filter_false (is_k k) R); [simpl; lia|].
          intros x Hx. apply HR_in in Hx as [_ Hx]. unfold Merge.is_k.
          destruct (key_eqb (s2key x) k) eqn:E2; auto. apply key_eqb_eq in E2. subst. contradiction.
        - assert (Hn : ~ In k D) by (intros Hin; apply mem_key_in in Hin; congruence).
          assert (E0 : count_key k D = 0). { destruct (count_key k D) eqn:E3; auto. exfalso. apply Hn. apply count_in. lia. }
          rewrite E0. unfold R. etransitivity; [apply filter_filter_length|]. rewrite <- count_cmd. apply Hle1; auto. }
      assert (Hnd_out : NoDup (map s2key out)).
      { apply (Permutation_NoDup (l := D ++ map s2key R)); auto.
        symmetry. rewrite <- HkMS, <- map_app. apply Permutation_map; auto. }
      split.
      + rewrite <- (map_length s2key). apply length_from_nodup; auto.
        * intros k Hk. apply cmd_of_key in Hk as [x [Hx Hk]]. apply Hin_out in Hx as [Hx|Hx].
          -- apply incl1. subst k. assert (Hin : In (s2key x) D) by (rewrite <- HkMS; apply in_map; auto).
             apply HinD in Hin. apply count_in. unfold keys1. lia.
          -- apply incl1. subst k. apply in_map. apply HR_in in Hx. tauto.
        * intros i Hi. destruct (mem_key (kz i) D) eqn:E.
          -- apply mem_key_in in E. rewrite <- (merged_key (kz i) B1). apply in_map. apply Hin_out. left.
             unfold MS. apply (in_map (fun k => merged k B1)); auto.
          -- destruct (cmd_of_key B1 (kz i) (incl2 i Hi)) as [x [Hx Hk]]. rewrite <- Hk. apply in_map.
             apply Hin_out. right. apply HR_in. split; auto. rewrite Hk. intros Hin. apply mem_key_in in Hin. congruence.
      + intros i Hi. destruct (mem_key (kz i) D) eqn:E.
        * apply mem_key_in in E. exists (merged (kz i) B1).
          assert (Hin : In (merged (kz i) B1) out).
          { apply Hin_out. left. unfold MS. apply (in_map (fun k => merged k B1)); auto. }
          pose proof (filter_single out _ Hnd_out Hin) as Hf. rewrite merged_key in Hf.
          split; auto. split; [reflexivity|]. split; [reflexivity|].
          unfold spec_for. pose proof (Hph _ E) as Hp. rewrite (Ebs _ E) in Hp.
          assert (Hlen : 1 < length (filter (is_k (kz i)) B)).
          { rewrite <- count_cmd. apply HinD in E. apply dup1_dupB in E. tauto. }
          unfold Merge.merged. rewrite (Ebs _ E).
          destruct (filter (is_k (kz i)) B) as [|b1 [|b2 t]] eqn:Ef; simpl in Hlen; try lia.
          split; auto.
        * assert (Hn : ~ In (kz i) D) by (intros Hin; apply mem_key_in in Hin; congruence).
          destruct (cmd_of_key B1 (kz i) (incl2 i Hi)) as [x [Hx Hk]].
          assert (Hxr : In x R) by (apply HR_in; split; auto; rewrite Hk; auto).
          exists x. pose proof (filter_single out x Hnd_out (proj2 (Hin_out x) (or_intror Hxr))) as Hf.
          rewrite Hk in Hf. destruct (key_fields x i Hk). repeat split; auto.
          apply spec_from_B1. apply length_le1_in.
          -- rewrite <- count_cmd. apply Hle1; auto.
          -- apply filter_In. split; auto. unfold Merge.is_k. rewrite Hk. apply key_eqb_refl.
    Qed.
  End Hyps.
End Full.
