(* Xunitary's merge of repeated S2gates (C12/Model.v, section 3): refutations and the correctness theorem
   under the hypothesis that at most one pair carries repeated squeezers. *)
From Coq Require Import List Arith Bool ZArith Lia.
Import ListNotations.
From SFV Require Import C12.Model.

Definition count_key (k : key) (l : list key) : nat := length (filter (key_eqb k) l).

Definition zneq (a b : Z) : bool := negb (Z.eqb a b).

Lemma miss_spec_by_compute (N : nat) (miss : list nat) (keys : list key) :
  forallb (fun i => Bool.eqb (existsb (Nat.eqb i) miss) (negb (mem_key (i, i + N) keys))) (seq 0 N) = true ->
  (forallb (fun i => i <? N) miss = true) ->
  forall i, In i miss <-> i < N /\ ~ In (i, i + N) keys.
Proof.
  intros H0 H2 i.
  assert (H1 : forall i, i < N -> existsb (Nat.eqb i) miss = negb (mem_key (i, i + N) keys)).
  { intros j Hj. rewrite forallb_forall in H0. apply eqb_prop. apply H0. apply in_seq. lia. } rewrite forallb_forall in H2. split.
  - intros Hin. assert (Hi : i < N) by (apply Nat.ltb_lt; auto). split; auto.
    specialize (H1 i Hi). intros Hk.
    assert (E : existsb (Nat.eqb i) miss = true) by (apply existsb_exists; exists i; split; auto; apply Nat.eqb_refl).
    rewrite E in H1. symmetry in H1. apply negb_true_iff in H1.
    assert (E2 : mem_key (i, i + N) keys = true).
    { apply existsb_exists. exists (i, i + N). split; auto. unfold key_eqb; simpl. rewrite !Nat.eqb_refl. reflexivity. }
    congruence.
  - intros [Hi Hk]. specialize (H1 i Hi).
    destruct (existsb (Nat.eqb i) miss) eqn:E.
    + apply existsb_exists in E as [j [Hj Ej]]. apply Nat.eqb_eq in Ej. subst; auto.
    + symmetry in H1. apply negb_false_iff in H1. apply existsb_exists in H1 as [[a b] [Hin Eab]].
      unfold key_eqb in Eab; simpl in Eab. apply andb_prop in Eab as [Ea Eb].
      apply Nat.eqb_eq in Ea, Eb. subst. contradiction.
Qed.

(* two pairs, each with two squeezers:  S2(1)|(0,2) S2(2)|(1,3) S2(3)|(0,2) S2(4)|(1,3)  ->  IndexError *)
Theorem s2_refuted_indexerror :
  exists (N : nat) (miss : list nat) (B : list (s2 Z)),
    forallb (allowed Z N) B = true /\ NoDup miss /\
    (forall i, In i miss <-> i < N /\ ~ In (i, i + N) (map (s2key Z) B)) /\
    s2_stage Z 0%Z Z.add zneq N miss B = IndexErr.
Proof.
  exists 2, [], [mkS2 0 2 1 0; mkS2 1 3 2 0; mkS2 0 2 3 0; mkS2 1 3 4 0]%Z.
  split; [reflexivity|]. split; [constructor|]. split; [|reflexivity].
  apply miss_spec_by_compute; reflexivity.
Qed.

(* three pairs, two of them doubled: the stale indices remove the squeezer of pair (2,5) and merge it into (1,4) *)
Theorem s2_refuted_silent :
  exists (N : nat) (miss : list nat) (B out : list (s2 Z)),
    forallb (allowed Z N) B = true /\ NoDup miss /\
    (forall i, In i miss <-> i < N /\ ~ In (i, i + N) (map (s2key Z) B)) /\
    s2_stage Z 0%Z Z.add zneq N miss B = Ok out /\
    filter (fun x => key_eqb (s2key Z x) (2, 5)) B <> [] /\
    filter (fun x => key_eqb (s2key Z x) (2, 5)) out = [].
Proof.
  exists 3, [], [mkS2 0 3 1 0; mkS2 0 3 3 0; mkS2 1 4 2 0; mkS2 1 4 4 0; mkS2 2 5 7 0]%Z.
  eexists. split; [reflexivity|]. split; [constructor|]. split; [apply miss_spec_by_compute; reflexivity|].
  split; [vm_compute; reflexivity|]. split; [discriminate | reflexivity].
Qed.

(* ------------------------------------------------------------------------------------------ *)
(** * Correctness of one merge step, for every multiplicity *)
From Coq Require Import Permutation.

Lemma key_eqb_eq a b : key_eqb a b = true <-> a = b.
Proof.
  destruct a as [a1 a2], b as [b1 b2]; unfold key_eqb; simpl. rewrite andb_true_iff, !Nat.eqb_eq.
  split; [intros [-> ->]; reflexivity | intros H; inversion H; auto].
Qed.

Lemma positions_from_app o k a b :
  positions_from o k (a ++ b) = positions_from o k a ++ positions_from (o + length a) k b.
Proof.
  revert o; induction a as [|x a IH]; intros o; simpl.
  - rewrite Nat.add_0_r; reflexivity.
  - rewrite IH. replace (S o + length a) with (o + S (length a)) by lia. destruct (key_eqb x k); reflexivity.
Qed.

Lemma positions_length o k l : length (positions_from o k l) = count_key k l.
Proof.
  revert o; unfold count_key; induction l as [|x l IH]; intros o; simpl; auto.
  assert (E : key_eqb x k = key_eqb k x).
  { destruct (key_eqb x k) eqn:E1, (key_eqb k x) eqn:E2; auto.
    - apply key_eqb_eq in E1; subst. rewrite (proj2 (key_eqb_eq k k) eq_refl) in E2; discriminate.
    - apply key_eqb_eq in E2; subst. rewrite (proj2 (key_eqb_eq x x) eq_refl) in E1; discriminate. }
  rewrite <- E. destruct (key_eqb x k); simpl; rewrite IH; reflexivity.
Qed.

Lemma last_cons {A} (l : list A) : forall a d, last (a :: l) d = last l a.
Proof. induction l as [|b l IH]; intros a d; [reflexivity|]. change (last (a :: b :: l) d) with (last (b :: l) d). rewrite !IH. reflexivity. Qed.

Section MergeOne.
  Variable K : Type.
  Variable kzero : K.
  Variable kadd : K -> K -> K.
  Variable kneq : K -> K -> bool.
  Notation s2 := (s2 K).
  Notation s2key := (s2key K).
  Notation pop_loop := (pop_loop K kadd kneq).
  Notation merge_loop := (merge_loop K kzero kadd kneq).

  Definition is_k (k : key) (c : s2) : bool := key_eqb (s2key c) k.

  (* the phases as the loop visits them (last occurrence first): every `phi_new != phi` test is false *)
  Fixpoint phases_agree_from (phi : K) (rs : list s2) : bool :=
    match rs with
    | [] => true
    | b :: t => negb (kneq (sphi b) phi) && phases_agree_from (sphi b) t
    end.
  Definition phases_agree (rs : list s2) : bool :=
    match rs with [] => true | a :: t => phases_agree_from (sphi a) t end.

  (* pure list part of the inner loop *)
  Fixpoint pops (idx : list nat) (B : list s2) : option (list s2 * list s2) :=
    match idx with
    | [] => Some ([], B)
    | i :: idx' =>
        match pop_at i B with
        | None => None
        | Some (c, B') =>
            match pops idx' B' with None => None | Some (rs, B'') => Some (c :: rs, B'') end
        end
    end.

  Lemma pop_at_app (l : list s2) x r : pop_at (length l) (l ++ x :: r) = Some (x, l ++ r).
  Proof. induction l as [|y l IH]; simpl; auto. rewrite IH. reflexivity. Qed.

  Lemma pops_positions k : forall l1 l2,
    pops (rev (positions_from 0 k (map s2key l1))) (l1 ++ l2)
    = Some (rev (filter (is_k k) l1), filter (fun c => negb (is_k k c)) l1 ++ l2).
  Proof.
    induction l1 as [|x l IH] using rev_ind; intros l2; simpl; auto.
    rewrite map_app, positions_from_app, !filter_app. simpl. rewrite map_length.
    unfold is_k at 2 4. destruct (key_eqb (s2key x) k) eqn:E; simpl.
    - rewrite rev_app_distr. simpl. rewrite <- app_assoc. simpl. rewrite pop_at_app.
      rewrite IH. rewrite rev_app_distr. simpl. rewrite app_nil_r. reflexivity.
    - rewrite app_nil_r. rewrite <- app_assoc. simpl. rewrite IH. rewrite app_nil_r, <- app_assoc. reflexivity.
  Qed.

  (* accumulation of r and phi over the popped commands, None = CircuitError *)
  Fixpoint acc (rs : list s2) (first : bool) (r phi : K) : option (K * K) :=
    match rs with
    | [] => Some (r, phi)
    | c :: rs' => if negb first && kneq (sphi c) phi then None else acc rs' false (kadd r (sr c)) (sphi c)
    end.

  Lemma pop_loop_pops : forall idx first B r phi rs B',
    pops idx B = Some (rs, B') ->
    pop_loop idx first B r phi =
      match acc rs first r phi with Some (r', phi') => Ok (B', r', phi') | None => CircuitErr 3 end.
  Proof.
    induction idx as [|i idx IH]; intros first B r phi rs B' H; simpl in *.
    - inversion H; subst; reflexivity.
    - destruct (pop_at i B) as [[c B1]|]; [|discriminate].
      destruct (pops idx B1) as [[rs1 B2]|] eqn:E; [|discriminate]. inversion H; subst. simpl.
      destruct (negb first && kneq (sphi c) phi); auto.
  Qed.

  Lemma acc_from : forall rs r phi,
    acc rs false r phi =
      if phases_agree_from phi rs then Some (fold_left kadd (map sr rs) r, last (map sphi rs) phi) else None.
  Proof.
    induction rs as [|c rs IH]; intros r phi; simpl; auto.
    destruct (kneq (sphi c) phi); simpl; auto. rewrite IH.
    destruct (phases_agree_from (sphi c) rs); auto. f_equal. f_equal.
    symmetry. apply last_cons.
  Qed.

  Lemma acc_first rs :
    acc rs true kzero kzero =
      if phases_agree rs then Some (fold_left kadd (map sr rs) kzero, last (map sphi rs) kzero) else None.
  Proof.
    destruct rs as [|c rs]; simpl; auto. rewrite acc_from.
    destruct (phases_agree_from (sphi c) rs); auto. f_equal. f_equal. symmetry. apply last_cons.
  Qed.

  (* one iteration of the outer loop, for the key k whose locations were computed on the current list:
     never an IndexError; CircuitError exactly when two successive phases differ; otherwise all commands
     of k are removed, every other command is kept in order, and one merged command is inserted *)
  Theorem merge_one (k : key) (B : list s2) :
    let bs := filter (is_k k) B in
    let rest := filter (fun c => negb (is_k k c)) B in
    let P := positions k (map s2key B) in
    merge_loop [(k, P)] B =
      if phases_agree (rev bs)
      then Ok (insert_at (hd 0 P) (mkS2 (fst k) (snd k) (fold_left kadd (map sr (rev bs)) kzero) (last (map sphi (rev bs)) kzero)) rest)
      else CircuitErr 3.
  Proof.
    intros bs rest P. unfold Model.merge_loop.
    pose proof (pops_positions k B []) as Hp. rewrite !app_nil_r in Hp.
    fold (positions k (map s2key B)) in Hp. fold P in Hp.
    rewrite (pop_loop_pops _ _ _ _ _ _ _ Hp). rewrite acc_first. fold bs.
    destruct (phases_agree (rev bs)); reflexivity.
  Qed.

  Lemma insert_at_perm {A} (x : A) : forall i l, Permutation (insert_at i x l) (x :: l).
  Proof.
    induction i as [|i IH]; intros l; simpl; auto.
    destruct l as [|y l]; auto. rewrite IH. apply perm_swap.
  Qed.

  (* ... so the result is, as a multiset, the merged command plus all the commands of the other pairs *)
  Corollary merge_one_perm (k : key) (B out : list s2) :
    merge_loop [(k, positions k (map s2key B))] B = Ok out ->
    let bs := filter (is_k k) B in
    phases_agree (rev bs) = true /\
    Permutation out (mkS2 (fst k) (snd k) (fold_left kadd (map sr (rev bs)) kzero) (last (map sphi (rev bs)) kzero)
                     :: filter (fun c => negb (is_k k c)) B).
  Proof.
    intros H bs. rewrite merge_one in H. fold bs in H.
    destruct (phases_agree (rev bs)); [|discriminate]. inversion H; subst. split; auto. apply insert_at_perm.
  Qed.
End MergeOne.

(* ------------------------------------------------------------------------------------------ *)
(** * The whole S2gate stage, under the hypothesis that at most one pair carries repeated squeezers *)
Lemma key_eqb_sym a b : key_eqb a b = key_eqb b a.
Proof. unfold key_eqb. rewrite (Nat.eqb_sym (fst a)), (Nat.eqb_sym (snd a)). reflexivity. Qed.

Lemma key_eqb_refl a : key_eqb a a = true.
Proof. apply key_eqb_eq; reflexivity. Qed.

Lemma count_app k l1 l2 : count_key k (l1 ++ l2) = count_key k l1 + count_key k l2.
Proof. unfold count_key. rewrite filter_app, app_length. reflexivity. Qed.

Lemma count_cons k a l : count_key k (a :: l) = (if key_eqb k a then 1 else 0) + count_key k l.
Proof. unfold count_key; simpl. destruct (key_eqb k a); reflexivity. Qed.

Lemma count_in k l : In k l <-> 1 <= count_key k l.
Proof.
  induction l as [|a l IH]; [simpl; unfold count_key; simpl; split; [tauto | lia]|].
  rewrite count_cons. simpl. destruct (key_eqb k a) eqn:E.
  - apply key_eqb_eq in E. subst. split; [lia | auto].
  - rewrite IH. split; [intros [H|H]; [subst; rewrite key_eqb_refl in E; discriminate | lia] | intros H; right; lia].
Qed.

Lemma count_nodup l : NoDup l -> forall k, count_key k l <= 1.
Proof.
  induction 1 as [|a l Hn Hd IH]; intros k; [unfold count_key; simpl; lia|].
  rewrite count_cons. destruct (key_eqb k a) eqn:E; [|apply IH].
  apply key_eqb_eq in E; subst. rewrite count_in in Hn. lia.
Qed.

Lemma nodup_count l : (forall k, count_key k l <= 1) -> NoDup l.
Proof.
  induction l as [|a l IH]; intros H; constructor.
  - specialize (H a). rewrite count_cons, key_eqb_refl in H. rewrite count_in. lia.
  - apply IH. intros k. specialize (H k). rewrite count_cons in H. lia.
Qed.

Lemma count_rev k l : count_key k (rev l) = count_key k l.
Proof.
  induction l as [|a l IH]; simpl; auto. rewrite count_app, IH, !count_cons.
  assert (E : count_key k [] = 0) by reflexivity. rewrite E. lia.
Qed.

Lemma mem_key_in k l : mem_key k l = true <-> In k l.
Proof.
  unfold mem_key. rewrite existsb_exists. split.
  - intros [x [Hin E]]. apply key_eqb_eq in E. subst; auto.
  - intros H. exists k; split; auto. apply key_eqb_refl.
Qed.

Lemma first_occ_spec : forall l seen,
  NoDup (first_occ seen l) /\ (forall k, In k (first_occ seen l) <-> In k l /\ ~ In k seen).
Proof.
  induction l as [|a l IH]; intros seen; simpl.
  - split; [constructor | intros k; tauto].
  - destruct (mem_key a seen) eqn:E.
    + apply mem_key_in in E. destruct (IH seen) as [H1 H2]. split; auto.
      intros k; rewrite H2. split; [tauto|]. intros [[Heq|H3] H4]; [subst; contradiction | auto].
    + assert (Hns : ~ In a seen) by (intros Hin; apply mem_key_in in Hin; congruence).
      destruct (IH (a :: seen)) as [H1 H2]. split.
      * constructor; auto. rewrite H2. intros [_ Hn]. apply Hn; left; reflexivity.
      * intros k. simpl. rewrite H2. simpl. split.
        -- intros [Heq|[H3 H4]]; [subst; auto | split; auto].
        -- intros [[Heq|H3] H4]; [auto|]. destruct (key_eqb a k) eqn:Ek.
           ++ apply key_eqb_eq in Ek. auto.
           ++ right. split; auto. intros [Heq|Hs]; [subst; rewrite key_eqb_refl in Ek; discriminate | contradiction].
Qed.

Lemma filter_map_comm {A B} (g : A -> B) (f : B -> bool) l : filter f (map g l) = map g (filter (fun a => f (g a)) l).
Proof. induction l as [|a l IH]; simpl; auto. destruct (f (g a)); simpl; rewrite IH; reflexivity. Qed.

Lemma list_duplicates_eq keys :
  list_duplicates keys = map (fun k => (k, positions k keys)) (filter (fun k => 1 <? count_key k keys) (first_occ [] keys)).
Proof.
  unfold list_duplicates. rewrite filter_map_comm. f_equal. apply filter_ext. intros k. simpl.
  unfold positions. rewrite positions_length. reflexivity.
Qed.

Lemma nodup_all_equal {A} (l : list A) : NoDup l -> (forall a b, In a l -> In b l -> a = b) -> l = [] \/ exists a, l = [a].
Proof.
  intros Hn He. destruct l as [|a [|b t]]; auto; [right; eexists; reflexivity|].
  exfalso. assert (a = b) by (apply He; simpl; auto). subst. inversion Hn; subst. simpl in *; tauto.
Qed.

From Coq Require Import FinFun.

Lemma filter_false {A} (f : A -> bool) l : (forall x, In x l -> f x = false) -> filter f l = [].
Proof. induction l as [|a l IH]; intros H; simpl; auto. rewrite (H a (or_introl eq_refl)). apply IH. intros x Hx; apply H; right; auto. Qed.

Lemma filter_filter_length {A} (f g : A -> bool) l : length (filter f (filter g l)) <= length (filter f l).
Proof. induction l as [|a l IH]; simpl; auto. destruct (g a); simpl; destruct (f a); simpl; lia. Qed.

Lemma length_le1_in {A} (l : list A) x : length l <= 1 -> In x l -> l = [x].
Proof.
  destruct l as [|a [|b t]]; simpl; intros H Hin.
  - contradiction.
  - destruct Hin as [->|[]]; reflexivity.
  - lia.
Qed.

Section Full.
  Variable K : Type.
  Variable kzero : K.
  Variable kadd : K -> K -> K.
  Variable kneq : K -> K -> bool.
  Variable N : nat.
  Notation s2 := (s2 K).
  Notation s2key := (s2key K).
  Notation is_k := (is_k K).
  Notation phases_agree := (phases_agree K kneq).

  Definition kz (i : nat) : key := (i, i + N).
  Definition zs (i : nat) : s2 := mkS2 i (i + N) kzero kzero.

  (* what the command c returned for pair (i, i+N) must be, in terms of the source squeezers of that pair *)
  Definition spec_for (B : list s2) (i : nat) (c : s2) : Prop :=
    match filter (is_k (kz i)) B with
    | [] => c = zs i
    | [b] => c = b
    | bs => c = mkS2 i (i + N) (fold_left kadd (map sr (rev bs)) kzero) (last (map sphi (rev bs)) kzero)
            /\ phases_agree (rev bs) = true
    end.

  Lemma count_cmd k (B : list s2) : count_key k (map s2key B) = length (filter (is_k k) B).
  Proof.
    induction B as [|a B IH]; simpl; auto. rewrite count_cons. unfold Merge.is_k at 1. rewrite key_eqb_sym.
    destruct (key_eqb (s2key a) k); simpl; rewrite IH; reflexivity.
  Qed.

  Lemma filter_single (out : list s2) c : NoDup (map s2key out) -> In c out -> filter (is_k (s2key c)) out = [c].
  Proof.
    induction out as [|a t IH]; intros Hn Hin; [contradiction|]. simpl in Hn. inversion Hn as [|x l Hna Hnt]; subst.
    simpl. destruct Hin as [->|Hin].
    - unfold Merge.is_k at 1. rewrite key_eqb_refl. f_equal. apply filter_false. intros x Hx. unfold Merge.is_k.
      destruct (key_eqb (s2key x) (s2key c)) eqn:E; auto. apply key_eqb_eq in E. exfalso; apply Hna. rewrite <- E. apply in_map; auto.
    - assert (E0 : is_k (s2key c) a = false).
      { unfold Merge.is_k. destruct (key_eqb (s2key a) (s2key c)) eqn:E; auto. apply key_eqb_eq in E. exfalso. apply Hna. rewrite E. apply in_map; auto. }
      rewrite E0. apply IH; auto.
  Qed.

  Lemma kz_inj : Injective kz.
  Proof. intros i j H. inversion H; auto. Qed.

  Definition AK : list key := map kz (seq 0 N).
  Lemma AK_nodup : NoDup AK.
  Proof. apply Injective_map_NoDup; [apply kz_inj | apply seq_NoDup]. Qed.
  Lemma AK_length : length AK = N.
  Proof. unfold AK. rewrite map_length, seq_length. reflexivity. Qed.
  Lemma AK_in k : In k AK <-> exists i, i < N /\ k = kz i.
  Proof.
    unfold AK. rewrite in_map_iff. split; intros [i [H1 H2]].
    - exists i. apply in_seq in H2. split; [lia | auto].
    - exists i. split; auto. apply in_seq. lia.
  Qed.

  Lemma length_from_nodup (ks : list key) :
    NoDup ks -> (forall k, In k ks -> exists i, i < N /\ k = kz i) -> (forall i, i < N -> In (kz i) ks) -> length ks = N.
  Proof.
    intros Hn H1 H2. rewrite <- AK_length. apply Nat.le_antisymm.
    - apply NoDup_incl_length; auto. intros k Hk. apply AK_in. auto.
    - apply NoDup_incl_length; [apply AK_nodup|]. intros k Hk. apply AK_in in Hk as [i [Hi ->]]. auto.
  Qed.

  Lemma add_missing_eq miss (B : list s2) : add_missing K kzero N miss B = rev (map zs miss) ++ B.
  Proof.
    unfold add_missing. revert B. induction miss as [|a miss IH]; intros B; simpl; auto.
    rewrite IH. rewrite <- app_assoc. reflexivity.
  Qed.

  Section Hyps.
    Variable miss : list nat.
    Variable B : list s2.
    Hypothesis Hall : forallb (allowed K N) B = true.
    Hypothesis Hmiss_nd : NoDup miss.
    Hypothesis Hmiss : forall i, In i miss <-> i < N /\ ~ In (kz i) (map s2key B).

    Let B1 := rev (map zs miss) ++ B.
    Let keys1 := map s2key B1.

    Lemma allowed_key c : In c B -> exists i, i < N /\ s2key c = kz i.
    Proof.
      intros H. rewrite forallb_forall in Hall. specialize (Hall c H). unfold allowed in Hall.
      apply andb_prop in Hall as [H1 H2]. apply Nat.ltb_lt in H1. apply Nat.eqb_eq in H2.
      exists (mi c). split; auto. unfold Model.s2key, kz. rewrite H2. reflexivity.
    Qed.

    Lemma keys_miss : map s2key (rev (map zs miss)) = rev (map kz miss).
    Proof. rewrite map_rev, map_map. reflexivity. Qed.

    Lemma keys1_eq : keys1 = rev (map kz miss) ++ map s2key B.
    Proof. unfold keys1, B1. rewrite map_app, keys_miss. reflexivity. Qed.

    Lemma count_miss k : count_key k (rev (map kz miss)) <= 1.
    Proof. rewrite count_rev. apply count_nodup. apply Injective_map_NoDup; [apply kz_inj | auto]. Qed.

    Lemma incl1 : forall k, In k keys1 -> exists i, i < N /\ k = kz i.
    Proof.
      intros k. rewrite keys1_eq, in_app_iff, <- in_rev, !in_map_iff. intros [[i [<- Hi]]|[c [<- Hc]]].
      - exists i. split; auto. apply Hmiss in Hi. tauto.
      - apply allowed_key; auto.
    Qed.

    Lemma incl2 : forall i, i < N -> In (kz i) keys1.
    Proof.
      intros i Hi. rewrite keys1_eq, in_app_iff, <- in_rev.
      destruct (count_key (kz i) (map s2key B)) eqn:E.
      - left. apply in_map. apply Hmiss. split; auto. rewrite count_in. lia.
      - right. apply count_in. lia.
    Qed.

    Lemma dup1_dupB k : 1 < count_key k keys1 ->
      count_key k (rev (map kz miss)) = 0 /\ 1 < count_key k (map s2key B).
    Proof.
      rewrite keys1_eq, count_app. pose proof (count_miss k) as Hm.
      destruct (count_key k (rev (map kz miss))) eqn:E; [intros; split; lia|].
      assert (Hin : In k (rev (map kz miss))) by (apply count_in; lia).
      rewrite <- in_rev, in_map_iff in Hin. destruct Hin as [i [<- Hi]].
      apply Hmiss in Hi as [_ Hni]. rewrite count_in in Hni. lia.
    Qed.

    Lemma spec_from_B1 i c : filter (is_k (kz i)) B1 = [c] -> spec_for B i c.
    Proof.
      unfold B1. rewrite filter_app.
      assert (Hmp : forall x, In x (filter (is_k (kz i)) (rev (map zs miss))) -> x = zs i).
      { intros x Hx. apply filter_In in Hx as [Hx1 Hx2]. rewrite <- in_rev, in_map_iff in Hx1.
        destruct Hx1 as [j [<- _]]. unfold Merge.is_k in Hx2. apply key_eqb_eq in Hx2.
        change (s2key (zs j)) with (kz j) in Hx2. apply kz_inj in Hx2. subst; reflexivity. }
      set (mp := filter (is_k (kz i)) (rev (map zs miss))) in *.
      unfold spec_for. destruct (filter (is_k (kz i)) B) as [|b [|b2 t]].
      - rewrite app_nil_r. intros H. apply Hmp. rewrite H. left; reflexivity.
      - intros H. destruct mp as [|m [|m2 mp']]; simpl in H; inversion H; reflexivity.
      - intros H. apply (f_equal (@length _)) in H. rewrite app_length in H. simpl in H. lia.
    Qed.

    Lemma cmd_of_key (l : list s2) k : In k (map s2key l) -> exists x, In x l /\ s2key x = k.
    Proof. rewrite in_map_iff. intros [x [H1 H2]]; eauto. Qed.

    Lemma key_fields (x : s2) i : s2key x = kz i -> mi x = i /\ mj x = i + N.
    Proof. unfold Model.s2key, kz. intros H; inversion H; auto. Qed.

    (* the result is B1 itself and its keys are duplicate-free *)
    Lemma ok_case : NoDup keys1 ->
      length B1 = N /\ forall i, i < N -> exists c, filter (is_k (kz i)) B1 = [c] /\ mi c = i /\ mj c = i + N /\ spec_for B i c.
    Proof.
      intros Hnd. split.
      - rewrite <- (map_length s2key). apply length_from_nodup; auto; [apply incl1 | apply incl2].
      - intros i Hi. destruct (cmd_of_key B1 (kz i) (incl2 i Hi)) as [x [Hx Hk]].
        exists x. pose proof (filter_single B1 x Hnd Hx) as Hf. rewrite Hk in Hf.
        destruct (key_fields x i Hk). repeat split; auto. apply spec_from_B1; auto.
    Qed.

    Theorem s2_stage_correct :
      (forall k1 k2, 1 < count_key k1 (map s2key B) -> 1 < count_key k2 (map s2key B) -> k1 = k2) ->
      match s2_stage K kzero kadd kneq N miss B with
      | IndexErr => False
      | CircuitErr c =>
          c = 3 /\ exists k, 1 < count_key k (map s2key B) /\ phases_agree (rev (filter (is_k k) B)) = false
      | Ok out =>
          length out = N /\
          forall i, i < N -> exists c, filter (is_k (kz i)) out = [c] /\ mi c = i /\ mj c = i + N /\ spec_for B i c
      end.
    Proof.
      intros Hone. unfold s2_stage. rewrite Hall. simpl negb. cbv iota. rewrite add_missing_eq.
      fold B1. fold keys1.
      destruct (N <? length keys1) eqn:Elen.
      2:{ apply Nat.ltb_ge in Elen. apply ok_case.
          apply (NoDup_incl_NoDup AK_nodup); [rewrite AK_length; auto|].
          intros k Hk. apply AK_in in Hk as [i [Hi ->]]. apply incl2; auto. }
      apply Nat.ltb_lt in Elen. rewrite list_duplicates_eq.
      destruct (first_occ_spec keys1 []) as [Hfo1 Hfo2].
      set (D := filter (fun k => 1 <? count_key k keys1) (first_occ [] keys1)).
      assert (HinD : forall k, In k D <-> 1 < count_key k keys1).
      { intros k. unfold D. rewrite filter_In, Nat.ltb_lt, Hfo2. split; [tauto|]. intros H. split; auto. split; [apply count_in; lia | tauto]. }
      assert (HD : D = [] \/ exists k0, D = [k0]).
      { apply nodup_all_equal; [apply NoDup_filter; auto|]. intros a b Ha Hb. apply HinD in Ha, Hb.
        apply Hone; apply dup1_dupB; auto. }
      destruct HD as [HD | [k0 HD]]; rewrite HD; simpl map.
      - exfalso. assert (Hnd : NoDup keys1).
        { apply nodup_count. intros k. destruct (le_lt_dec (count_key k keys1) 1); auto.
          exfalso. apply HinD in l. rewrite HD in l. contradiction. }
        pose proof (length_from_nodup keys1 Hnd incl1 incl2). lia.
      - assert (Hk0c : 1 < count_key k0 keys1) by (apply HinD; rewrite HD; left; reflexivity).
        assert (Hle1 : forall k, k <> k0 -> count_key k keys1 <= 1).
        { intros k Hne. destruct (le_lt_dec (count_key k keys1) 1); auto. apply HinD in l. rewrite HD in l.
          destruct l as [->|[]]. congruence. }
        destruct (dup1_dupB k0 Hk0c) as [Hm0 HcB].
        unfold keys1. rewrite (merge_one K kzero kadd kneq k0 B1).
        assert (Ebs : filter (is_k k0) B1 = filter (is_k k0) B).
        { unfold B1. rewrite filter_app. replace (filter (is_k k0) (rev (map zs miss))) with (@nil s2); auto.
          symmetry. apply length_zero_iff_nil. rewrite <- count_cmd, keys_miss. exact Hm0. }
        rewrite Ebs. destruct (phases_agree (rev (filter (is_k k0) B))) eqn:Eph.
        2:{ split; auto. exists k0; auto. }
        set (merged := mkS2 (fst k0) (snd k0) (fold_left kadd (map sr (rev (filter (is_k k0) B))) kzero)
                         (last (map sphi (rev (filter (is_k k0) B))) kzero)).
        set (rest := filter (fun c => negb (is_k k0 c)) B1).
        set (out := insert_at (hd 0 (positions k0 (map s2key B1))) merged rest).
        assert (Hperm : Permutation out (merged :: rest)) by apply insert_at_perm.
        assert (Hk0in : In k0 keys1) by (apply count_in; lia).
        destruct (incl1 k0 Hk0in) as [i0 [Hi0 Ek0]].
        assert (Hkm : s2key merged = k0) by (unfold merged, Model.s2key; simpl; destruct k0; reflexivity).
        assert (Hrest_in : forall x, In x rest <-> In x B1 /\ s2key x <> k0).
        { intros x. unfold rest. rewrite filter_In. unfold Merge.is_k. split; intros [H1 H2]; split; auto.
          - intros E. apply key_eqb_eq in E. rewrite E in H2. discriminate.
          - destruct (key_eqb (s2key x) k0) eqn:E; auto. apply key_eqb_eq in E. contradiction. }
        assert (Hnd_rest : NoDup (map s2key rest)).
        { apply nodup_count. intros k. rewrite count_cmd. destruct (key_eqb k k0) eqn:E.
          - apply key_eqb_eq in E; subst k. rewrite filter_false; [simpl; lia|].
            intros x Hx. apply Hrest_in in Hx as [_ Hx]. unfold Merge.is_k. destruct (key_eqb (s2key x) k0) eqn:E2; auto.
            apply key_eqb_eq in E2. contradiction.
          - unfold rest. etransitivity; [apply filter_filter_length|]. rewrite <- count_cmd. apply Hle1.
            intros ->. rewrite key_eqb_refl in E. discriminate. }
        assert (Hnd_out : NoDup (map s2key out)).
        { apply (Permutation_NoDup (l := k0 :: map s2key rest)).
          - symmetry. rewrite <- Hkm. change (s2key merged :: map s2key rest) with (map s2key (merged :: rest)).
            apply Permutation_map; auto.
          - constructor; auto. intros Hin. apply cmd_of_key in Hin as [x [Hx Hk]]. apply Hrest_in in Hx. tauto. }
        assert (Hin_out : forall x, In x out <-> x = merged \/ In x rest).
        { intros x. split; intros H.
          - apply (Permutation_in _ Hperm) in H. destruct H; auto.
          - apply (Permutation_in _ (Permutation_sym Hperm)). destruct H; [left; auto | right; auto]. }
        split.
        + rewrite <- (map_length s2key). apply length_from_nodup; auto.
          * intros k Hk. apply cmd_of_key in Hk as [x [Hx Hk]]. apply Hin_out in Hx as [->|Hx].
            -- rewrite Hkm in Hk. subst k. eauto.
            -- apply incl1. subst k. apply in_map. apply Hrest_in in Hx. tauto.
          * intros i Hi. destruct (key_eqb (kz i) k0) eqn:E.
            -- apply key_eqb_eq in E. rewrite E, <- Hkm. apply in_map. apply Hin_out; auto.
            -- destruct (cmd_of_key B1 (kz i) (incl2 i Hi)) as [x [Hx Hk]]. rewrite <- Hk. apply in_map.
               apply Hin_out. right. apply Hrest_in. split; auto. rewrite Hk. intros E2. rewrite E2, key_eqb_refl in E. discriminate.
        + intros i Hi. destruct (key_eqb (kz i) k0) eqn:E.
          * apply key_eqb_eq in E. exists merged.
            pose proof (filter_single out merged Hnd_out (proj2 (Hin_out merged) (or_introl eq_refl))) as Hf.
            rewrite Hkm, <- E in Hf. split; auto.
            assert (Hf1 : fst k0 = i) by (rewrite <- E; reflexivity).
            assert (Hf2 : snd k0 = i + N) by (rewrite <- E; reflexivity).
            split; [exact Hf1|]. split; [exact Hf2|].
            unfold spec_for. rewrite E.
            assert (Hlen : 1 < length (filter (is_k k0) B)) by (rewrite <- count_cmd; auto).
            destruct (filter (is_k k0) B) as [|b1 [|b2 t]] eqn:Ef; simpl in Hlen; try lia.
            split; auto. unfold merged. rewrite Hf1, Hf2. reflexivity.
          * destruct (cmd_of_key B1 (kz i) (incl2 i Hi)) as [x [Hx Hk]].
            assert (Hne : kz i <> k0) by (intros E2; rewrite E2, key_eqb_refl in E; discriminate).
            assert (Hxr : In x rest) by (apply Hrest_in; split; auto; rewrite Hk; auto).
            exists x. pose proof (filter_single out x Hnd_out (proj2 (Hin_out x) (or_intror Hxr))) as Hf.
            rewrite Hk in Hf. destruct (key_fields x i Hk). repeat split; auto.
            apply spec_from_B1. apply length_le1_in.
            -- rewrite <- count_cmd. apply Hle1; auto.
            -- apply filter_In. split; auto. unfold Merge.is_k. rewrite Hk. apply key_eqb_refl.
    Qed.
  End Hyps.
End Full.
