(* Hand model of GaussianModes.add_mode(1) and del_mode (gaussiancircuit.py): allocation appends a vacuum mode,
   deletion is loss(0) on the mode (the slot stays; bookkeeping of `active` is C08's).  Definitions only. *)
From Coq Require Import Arith Bool List.
Import ListNotations.
From SFV Require Import Base.Num Gen.GaussCirc.

Section Alloc.
Context {K : Type} (N : Num K).
(* newnmat / newmmat / newmean are zero arrays into which the old nlen x nlen block is copied entry by entry *)
Definition add_mode (s : st K) : st K :=
  mkSt (S (nlen s))
       (fun a b => if Nat.ltb a (nlen s) && Nat.ltb b (nlen s) then nmat s a b else C0 N)
       (fun a b => if Nat.ltb a (nlen s) && Nat.ltb b (nlen s) then mmat s a b else C0 N)
       (fun a => if Nat.ltb a (nlen s) then mean s a else C0 N).
(* del_mode(k) = loss(0.0, k) : sqrt(0) = 0 *)
Definition del_mode (k : nat) (s : st K) : st K := loss N (n0 N) k s.
End Alloc.
