(* Scalars, complex numbers over an arbitrary scalar type, and the Gaussian-simulator state record.
   Definitions only; everything is parametric in a record [Num K] of operations so that the same
   definition is (a) reasoned about over any commutative ring / field (Section hypotheses in the
   proof files) and (b) executed at primitive binary64 floats for the correspondence check. *)
From Coq Require Import Arith Bool List.
Import ListNotations.

Record Num (K : Type) := mkNum {
  n0 : K; n1 : K; nadd : K -> K -> K; nmul : K -> K -> K; nsub : K -> K -> K; nopp : K -> K }.
Arguments mkNum {K}. Arguments n0 {K}. Arguments n1 {K}. Arguments nadd {K}. Arguments nmul {K}.
Arguments nsub {K}. Arguments nopp {K}.

Record C (K : Type) := mkC { re : K; im : K }.
Arguments mkC {K}. Arguments re {K}. Arguments im {K}.

Section Cplx.
Context {K : Type} (N : Num K).
Definition Cadd (a b : C K) : C K := mkC (nadd N (re a) (re b)) (nadd N (im a) (im b)).
Definition Csub (a b : C K) : C K := mkC (nsub N (re a) (re b)) (nsub N (im a) (im b)).
Definition Cmul (a b : C K) : C K :=
  mkC (nsub N (nmul N (re a) (re b)) (nmul N (im a) (im b)))
      (nadd N (nmul N (re a) (im b)) (nmul N (im a) (re b))).
Definition Copp (a : C K) : C K := mkC (nopp N (re a)) (nopp N (im a)).
Definition Cconj (a : C K) : C K := mkC (re a) (nopp N (im a)).
Definition Cre (x : K) : C K := mkC x (n0 N).
Definition C0 : C K := mkC (n0 N) (n0 N).
Definition C1 : C K := mkC (n1 N) (n0 N).
Definition Ci : C K := mkC (n0 N) (n1 N).
Definition C2 : C K := mkC (nadd N (n1 N) (n1 N)) (n0 N).
Fixpoint Knat (n : nat) : K := match n with 0 => n0 N | 1 => n1 N | S m => nadd N (Knat m) (n1 N) end.
Definition Cnat (n : nat) : C K := Cre (Knat n).
End Cplx.

Lemma Ceq {K} (a b : C K) : re a = re b -> im a = im b -> a = b.
Proof. destruct a, b; simpl; intros; subst; reflexivity. Qed.

(* ---- the state of GaussianModes: nlen, N = <a_i^† a_j>, M = <a_i a_j>, alpha = <a_i> ---- *)
Set Primitive Projections.
Record st (K : Type) := mkSt {
  nlen : nat; nmat : nat -> nat -> C K; mmat : nat -> nat -> C K; mean : nat -> C K }.
Unset Primitive Projections.
Arguments mkSt {K}. Arguments nlen {K}. Arguments nmat {K}. Arguments mmat {K}. Arguments mean {K}.

Section Setters.
Context {K : Type}.
Fixpoint mem (x : nat) (l : list nat) : bool :=
  match l with [] => false | y :: l' => Nat.eqb x y || mem x l' end.

(* self.nmat[i][j] = v   (numpy: requires i, j < nlen; the harness only drives in-range indices) *)
Definition set_nmat (s : st K) (i j : nat) (v : C K) : st K :=
  mkSt (nlen s) (fun a b => if Nat.eqb a i && Nat.eqb b j then v else nmat s a b) (mmat s) (mean s).
Definition set_mmat (s : st K) (i j : nat) (v : C K) : st K :=
  mkSt (nlen s) (nmat s) (fun a b => if Nat.eqb a i && Nat.eqb b j then v else mmat s a b) (mean s).
Definition set_mean (s : st K) (i : nat) (v : C K) : st K :=
  mkSt (nlen s) (nmat s) (mmat s) (fun a => if Nat.eqb a i then v else mean s a).
(* self.nmat[i] = f   (whole row, columns 0..nlen-1) *)
Definition set_nmat_row (s : st K) (i : nat) (f : nat -> C K) : st K :=
  mkSt (nlen s) (fun a b => if Nat.eqb a i && Nat.ltb b (nlen s) then f b else nmat s a b) (mmat s) (mean s).
Definition set_mmat_row (s : st K) (i : nat) (f : nat -> C K) : st K :=
  mkSt (nlen s) (nmat s) (fun a b => if Nat.eqb a i && Nat.ltb b (nlen s) then f b else mmat s a b) (mean s).
(* self.nmat[:, j] = f   (whole column, rows 0..nlen-1) *)
Definition set_nmat_col (s : st K) (j : nat) (f : nat -> C K) : st K :=
  mkSt (nlen s) (fun a b => if Nat.eqb b j && Nat.ltb a (nlen s) then f a else nmat s a b) (mmat s) (mean s).
Definition set_mmat_col (s : st K) (j : nat) (f : nat -> C K) : st K :=
  mkSt (nlen s) (nmat s) (fun a b => if Nat.eqb b j && Nat.ltb a (nlen s) then f a else mmat s a b) (mean s).
(* for l in np.delete(np.arange(nlen), excl): self.nmat[r][l] = f l   (iterations independent: checked by the translator) *)
Definition par_nmat (s : st K) (excl : list nat) (r : nat) (f : nat -> C K) : st K :=
  mkSt (nlen s) (fun a b => if Nat.eqb a r && Nat.ltb b (nlen s) && negb (mem b excl) then f b else nmat s a b) (mmat s) (mean s).
Definition par_mmat (s : st K) (excl : list nat) (r : nat) (f : nat -> C K) : st K :=
  mkSt (nlen s) (nmat s) (fun a b => if Nat.eqb a r && Nat.ltb b (nlen s) && negb (mem b excl) then f b else mmat s a b) (mean s).
End Setters.

(* self.nmat += e : every entry of the nlen x nlen array *)
Definition add_all_nmat {K} (N : Num K) (s : st K) (e : C K) : st K :=
  mkSt (nlen s) (fun a b => if Nat.ltb a (nlen s) && Nat.ltb b (nlen s) then Cadd N (nmat s a b) e else nmat s a b) (mmat s) (mean s).
