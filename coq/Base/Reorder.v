(* Circuit re-ordering: list -> grid -> DAG -> any topological order (program_utils.py).
   Shared by C03, C04, C18.

   Commands are elements of an arbitrary type [A] with a dependency list [deps c] (register modes
   plus the modes whose measured value a parameter uses).  The grid is the family of per-wire
   projections [wire ls w]; the DAG has an edge a -> b whenever a, b are consecutive on some wire;
   networkx's topological sort is modelled as a RELATION: any list [out] that is a permutation of
   the DAG's nodes and respects every edge.  All theorems quantify over every such [out]. *)
From Coq Require Import List Arith Bool Permutation Sorted Lia.
Import ListNotations.

Fixpoint memb (x : nat) (l : list nat) : bool :=
  match l with [] => false | y :: l' => Nat.eqb x y || memb x l' end.

Lemma memb_In x l : memb x l = true <-> In x l.
Proof.
  induction l as [|y l IH]; simpl; [split; [discriminate|tauto]|].
  rewrite orb_true_iff, Nat.eqb_eq, IH. split; intros [H|H]; auto.
Qed.

Section Reorder.
Variable A : Type.
Variable deps : A -> list nat.

Definition on_wire (w : nat) (c : A) : bool := memb w (deps c).
Definition wire (ls : list A) (w : nat) : list A := filter (on_wire w) ls.
(* a command enters the grid (hence the DAG) iff it has at least one dependency *)
Definition has_deps (c : A) : bool := match deps c with [] => false | _ => true end.
Definition nodes (ls : list A) : list A := filter has_deps ls.

Definition edge (ls : list A) (a b : A) : Prop := exists w l1 l2, wire ls w = l1 ++ a :: b :: l2.
Definition before (l : list A) (a b : A) : Prop := exists l1 l2 l3, l = l1 ++ a :: l2 ++ b :: l3.
Definition toposort (ls out : list A) : Prop :=
  Permutation (nodes ls) out /\ forall a b, edge ls a b -> before out a b.
Definition share_wire (a b : A) : Prop := exists w, on_wire w a = true /\ on_wire w b = true.
Definition independent (a b : A) : Prop := forall w, on_wire w a = true -> on_wire w b = true -> False.

(* ---------- [before] on duplicate-free lists is a strict order ---------- *)
Lemma before_In l a b : before l a b -> In a l /\ In b l.
Proof.
  intros (l1 & l2 & l3 & ->). split; apply in_or_app; right; simpl; auto.
  right. apply in_or_app; right; simpl; auto.
Qed.

Lemma before_cons x l a b : before l a b -> before (x :: l) a b.
Proof. intros (l1 & l2 & l3 & ->). exists (x :: l1), l2, l3. reflexivity. Qed.

Lemma before_head x l b : In b l -> before (x :: l) x b.
Proof. intros H. apply in_split in H as (l2 & l3 & ->). exists [], l2, l3. reflexivity. Qed.

Lemma before_cons_inv x l a b : before (x :: l) a b -> (a = x /\ In b l) \/ before l a b.
Proof.
  intros (l1 & l2 & l3 & E). destruct l1 as [|y l1]; simpl in E; injection E as -> ->.
  - left. split; auto. apply in_or_app; right; simpl; auto.
  - right. exists l1, l2, l3. reflexivity.
Qed.

Lemma before_irrefl l a : NoDup l -> ~ before l a a.
Proof.
  intros ND (l1 & l2 & l3 & ->). apply NoDup_remove_2 in ND. apply ND.
  apply in_or_app; right. apply in_or_app; right; simpl; auto.
Qed.

Lemma before_trans l a b c : NoDup l -> before l a b -> before l b c -> before l a c.
Proof.
  induction l as [|x l IH]; intros ND Hab Hbc.
  - destruct Hab as (l1 & ? & ? & E). destruct l1; discriminate.
  - inversion ND as [|? ? Hx ND']; subst.
    apply before_cons_inv in Hab as [[-> Hb]|Hab]; apply before_cons_inv in Hbc as [[-> Hc]|Hbc].
    + apply before_head; assumption.
    + apply before_head. apply before_In in Hbc. tauto.
    + exfalso. apply Hx. apply before_In in Hab. tauto.
    + apply before_cons. apply IH; assumption.
Qed.

Lemma before_asym l a b : NoDup l -> before l a b -> before l b a -> False.
Proof. intros ND H1 H2. apply (before_irrefl l a ND). apply (before_trans l a b a); assumption. Qed.

(* ---------- filters keep relative order ---------- *)
Lemma before_filter (f : A -> bool) l a b : f a = true -> f b = true -> before l a b -> before (filter f l) a b.
Proof.
  intros Ha Hb (l1 & l2 & l3 & ->).
  exists (filter f l1), (filter f l2), (filter f l3).
  rewrite filter_app. simpl. rewrite Ha. rewrite filter_app. simpl. rewrite Hb. reflexivity.
Qed.

Lemma before_of_filter (f : A -> bool) l a b : before (filter f l) a b -> before l a b.
Proof.
  revert a b. induction l as [|x l IH]; intros a b H; simpl in H.
  - destruct H as (l1 & ? & ? & E); destruct l1; discriminate.
  - destruct (f x) eqn:Fx.
    + apply before_cons_inv in H as [[-> Hb]|H].
      * apply before_head. apply filter_In in Hb. tauto.
      * apply before_cons, IH, H.
    + apply before_cons, IH, H.
Qed.

Lemma filter_sorted (f : A -> bool) l : NoDup l -> StronglySorted (before l) (filter f l).
Proof.
  induction l as [|x l IH]; intros ND; simpl; [constructor|].
  inversion ND as [|? ? Hx ND']; subst.
  assert (W : StronglySorted (before (x :: l)) (filter f l)).
  { specialize (IH ND'). revert IH. generalize (filter f l) as m.
    induction m as [|y m IHm]; intros S; [constructor|].
    inversion S as [|? ? S' F]; subst. constructor; [apply IHm; assumption|].
    eapply Forall_impl; [|exact F]. intros z. apply before_cons. }
  destruct (f x); [|exact W].
  constructor; [exact W|]. apply Forall_forall. intros y Hy. apply before_head. apply filter_In in Hy; tauto.
Qed.

(* two duplicate-free lists with the same elements, both sorted for a strict order, are equal *)
Lemma sorted_perm_eq (R : A -> A -> Prop) :
  (forall a b, R a b -> R b a -> False) ->
  forall l l', StronglySorted R l -> StronglySorted R l' -> Permutation l l' -> l = l'.
Proof.
  intros Asym l. induction l as [|a l IH]; intros l' S S' P.
  - apply Permutation_nil in P. subst; reflexivity.
  - destruct l' as [|b l'].
    + apply Permutation_sym, Permutation_nil in P. discriminate.
    + inversion S as [|? ? Sl Fa]; subst. inversion S' as [|? ? Sl' Fb]; subst.
      assert (a = b).
      { assert (Ia : In a (b :: l')) by (eapply Permutation_in; [exact P|left; reflexivity]).
        assert (Ib : In b (a :: l)) by (eapply Permutation_in; [apply Permutation_sym; exact P|left; reflexivity]).
        destruct Ia as [->|Ia]; [reflexivity|]. destruct Ib as [->|Ib]; [reflexivity|].
        exfalso. rewrite Forall_forall in Fa, Fb. exact (Asym a b (Fa b Ib) (Fb a Ia)). }
      subst b. f_equal. apply IH; try assumption. eapply Permutation_cons_inv; exact P.
Qed.

(* a list whose consecutive pairs are related is Sorted *)
Lemma consecutive_sorted (R : A -> A -> Prop) l :
  (forall l1 a b l2, l = l1 ++ a :: b :: l2 -> R a b) -> Sorted R l.
Proof.
  induction l as [|a l IH]; intros H; [constructor|]. constructor.
  - apply IH. intros l1 x y l2 E. apply (H (a :: l1) x y l2). rewrite E; reflexivity.
  - destruct l as [|b l]; constructor. apply (H [] a b l). reflexivity.
Qed.

(* ---------- the main invariant: a topological order keeps every wire's sequence ---------- *)
Lemma nodes_on_wire ls w : filter (on_wire w) (nodes ls) = wire ls w.
Proof.
  unfold nodes, wire. induction ls as [|c ls IH]; simpl; [reflexivity|].
  destruct (has_deps c) eqn:Hd; simpl.
  - rewrite IH; reflexivity.
  - rewrite IH. unfold on_wire, has_deps in *. destruct (deps c); [reflexivity|discriminate].
Qed.

Lemma NoDup_filter (f : A -> bool) l : NoDup l -> NoDup (filter f l).
Proof.
  induction l as [|x l IH]; intros ND; simpl; [constructor|]. inversion ND; subst.
  destruct (f x); [constructor|]; auto. rewrite filter_In; tauto.
Qed.

Lemma NoDup_app_r (l1 l2 : list A) : NoDup (l1 ++ l2) -> NoDup l2.
Proof. induction l1 as [|x l1 IH]; simpl; intros H; [exact H|]. inversion H; subst. apply IH; assumption. Qed.

Lemma Permutation_filter (f : A -> bool) l l' : Permutation l l' -> Permutation (filter f l) (filter f l').
Proof.
  induction 1; simpl; try constructor.
  - destruct (f x); [constructor|]; assumption.
  - destruct (f x), (f y); try constructor; try apply Permutation_refl.
  - eapply Permutation_trans; eassumption.
Qed.

Theorem toposort_wire ls out w : NoDup ls -> toposort ls out -> wire out w = wire ls w.
Proof.
  intros ND [P E].
  assert (NDn : NoDup (nodes ls)) by (apply NoDup_filter; exact ND).
  assert (NDo : NoDup out) by (eapply Permutation_NoDup; eassumption).
  symmetry. apply (sorted_perm_eq (before out)).
  - intros a b. apply before_asym; exact NDo.
  - apply Sorted_StronglySorted.
    + intros a b c. apply before_trans; exact NDo.
    + apply consecutive_sorted. intros l1 a b l2 Hw. apply E. exists w, l1, l2. exact Hw.
  - apply filter_sorted; exact NDo.
  - rewrite <- nodes_on_wire. apply Permutation_filter. exact P.
Qed.

(* C04_same_commands *)
Theorem toposort_same_commands ls out : toposort ls out -> Permutation (nodes ls) out.
Proof. intros [P _]; exact P. Qed.

(* C04_dep_order: commands sharing a wire keep their relative order *)
Theorem toposort_dep_order ls out a b :
  NoDup ls -> toposort ls out -> share_wire a b -> before ls a b -> before out a b.
Proof.
  intros ND T (w & Ha & Hb) Hab.
  apply (before_of_filter (on_wire w)). fold (wire out w). rewrite (toposort_wire ls out w ND T).
  apply before_filter; assumption.
Qed.

(* C04_roundtrip: converting the output back to a DAG gives the same edges *)
Theorem toposort_roundtrip ls out a b : NoDup ls -> toposort ls out -> (edge out a b <-> edge ls a b).
Proof.
  intros ND T. unfold edge. split; intros (w & l1 & l2 & E); exists w, l1, l2.
  - rewrite <- (toposort_wire ls out w ND T); exact E.
  - rewrite (toposort_wire ls out w ND T); exact E.
Qed.

(* sorting twice is the same as sorting once, wire by wire *)
Lemma wire_app l1 l2 w : wire (l1 ++ l2) w = wire l1 w ++ wire l2 w.
Proof. apply filter_app. Qed.

(* ---------- swapping adjacent independent commands changes no wire (hence no DAG edge) ---------- *)
Theorem swap_independent_wire l1 l2 a b w : independent a b ->
  wire (l1 ++ a :: b :: l2) w = wire (l1 ++ b :: a :: l2) w.
Proof.
  intros I. rewrite !wire_app. f_equal. unfold wire; simpl.
  destruct (on_wire w a) eqn:Ha, (on_wire w b) eqn:Hb; try reflexivity.
  exfalso. exact (I w Ha Hb).
Qed.

Theorem swap_independent_edges l1 l2 a b x y : independent a b ->
  (edge (l1 ++ a :: b :: l2) x y <-> edge (l1 ++ b :: a :: l2) x y).
Proof.
  intros I. unfold edge. split; intros (w & m1 & m2 & E); exists w, m1, m2.
  - rewrite <- (swap_independent_wire l1 l2 a b w I); exact E.
  - rewrite (swap_independent_wire l1 l2 a b w I); exact E.
Qed.

(* ---------- any legal linearisation is reachable by swapping adjacent independent commands ---------- *)
Inductive sweq : list A -> list A -> Prop :=
| sweq_refl l : sweq l l
| sweq_swap l1 a b l2 : independent a b -> sweq (l1 ++ a :: b :: l2) (l1 ++ b :: a :: l2)
| sweq_trans l m n : sweq l m -> sweq m n -> sweq l n.

Lemma sweq_cons x l m : sweq l m -> sweq (x :: l) (x :: m).
Proof.
  induction 1 as [l|l1 a b l2 I|l m n _ IH1 _ IH2].
  - apply sweq_refl.
  - apply (sweq_swap (x :: l1) a b l2 I).
  - eapply sweq_trans; eassumption.
Qed.

Lemma independent_sym a b : independent a b -> independent b a.
Proof. intros I w Hb Ha. exact (I w Ha Hb). Qed.

Lemma sweq_sym l m : sweq l m -> sweq m l.
Proof.
  induction 1 as [l|l1 a b l2 I|l m n _ IH1 _ IH2].
  - apply sweq_refl.
  - apply sweq_swap. apply independent_sym; exact I.
  - eapply sweq_trans; eassumption.
Qed.

Lemma bubble l1 h l2 : (forall c, In c l1 -> independent c h) -> sweq (l1 ++ h :: l2) (h :: l1 ++ l2).
Proof.
  induction l1 as [|c l1 IH]; intros H; simpl; [apply sweq_refl|].
  eapply sweq_trans.
  - apply sweq_cons. apply IH. intros c' Hc'. apply H; right; exact Hc'.
  - apply (sweq_swap [] c h (l1 ++ l2)). apply H; left; reflexivity.
Qed.

Lemma wire_nil_iff l w : wire l w = [] <-> forall c, In c l -> on_wire w c = false.
Proof.
  unfold wire. induction l as [|x l IH]; simpl; [tauto|].
  destruct (on_wire w x) eqn:E; split.
  - discriminate.
  - intros H. specialize (H x (or_introl eq_refl)). congruence.
  - intros H c [<-|Hc]; [exact E|]. apply IH; assumption.
  - intros H. apply IH. intros c Hc. apply H; right; exact Hc.
Qed.

(* [out] carries the same commands and the same sequence on every wire as [ls] *)
Definition wire_equiv (ls out : list A) : Prop := Permutation ls out /\ forall w, wire out w = wire ls w.

Theorem wire_equiv_sweq : forall out ls, NoDup ls -> wire_equiv ls out -> sweq ls out.
Proof.
  induction out as [|h out' IH]; intros ls ND [P W].
  - apply Permutation_sym, Permutation_nil in P. subst. apply sweq_refl.
  - assert (Hin : In h ls) by (eapply Permutation_in; [apply Permutation_sym; exact P|left; reflexivity]).
    apply in_split in Hin as (l1 & l2 & ->).
    assert (Hnot1 : ~ In h l1).
    { apply NoDup_remove_2 in ND. intros Hc. apply ND. apply in_or_app; left; exact Hc. }
    assert (Hoff : forall w, on_wire w h = true -> wire l1 w = []).
    { intros w Hw. specialize (W w). rewrite wire_app in W. unfold wire in W at 1 3. simpl in W. rewrite Hw in W.
      fold (wire out' w) in W. fold (wire l2 w) in W.
      destruct (wire l1 w) as [|x t] eqn:E; [reflexivity|]. exfalso.
      simpl in W. injection W as Hx _. subst x.
      assert (Hh : In h (wire l1 w)) by (rewrite E; left; reflexivity).
      unfold wire in Hh. apply filter_In in Hh. tauto. }
    assert (Hind : forall c, In c l1 -> independent c h).
    { intros c Hc w Hcw Hhw. pose proof (proj1 (wire_nil_iff l1 w) (Hoff w Hhw) c Hc) as F. congruence. }
    eapply sweq_trans; [apply bubble; exact Hind|]. apply sweq_cons. apply IH.
    + apply NoDup_remove_1 in ND. exact ND.
    + split.
      * apply Permutation_sym. apply (Permutation_cons_app_inv l1 l2 (a := h)). apply Permutation_sym. exact P.
      * intros w. specialize (W w). rewrite !wire_app in *. unfold wire in W at 1 3. simpl in W.
        fold (wire out' w) in W. fold (wire l2 w) in W.
        destruct (on_wire w h) eqn:Hw.
        -- rewrite (Hoff w Hw) in *. simpl in W. injection W as W. simpl. exact W.
        -- exact W.
Qed.

Lemma nodes_all ls : (forall c, In c ls -> has_deps c = true) -> nodes ls = ls.
Proof.
  induction ls as [|c l IH]; intros H; [reflexivity|]. unfold nodes in *; simpl. rewrite (H c (or_introl eq_refl)).
  f_equal. apply IH. intros; apply H; right; assumption.
Qed.

(* every order a topological sort may return is obtained from the input by swaps of adjacent independent commands *)
Theorem toposort_sweq ls out :
  NoDup ls -> (forall c, In c ls -> has_deps c = true) -> toposort ls out -> sweq ls out.
Proof.
  intros ND Hall T. apply wire_equiv_sweq; [exact ND|]. split.
  - destruct T as [P _]. rewrite (nodes_all ls Hall) in P. exact P.
  - intros w. apply toposort_wire; assumption.
Qed.

(* hence any semantics in which independent commands commute is invariant under every such re-ordering *)
Section Semantics.
Variable M : Type.
Variables (mul : M -> M -> M) (e : M).
Hypothesis mul_assoc : forall x y z, mul x (mul y z) = mul (mul x y) z.
Variable sem : A -> M.
Hypothesis commute : forall a b, independent a b -> mul (sem b) (sem a) = mul (sem a) (sem b).
Fixpoint sem_list (l : list A) : M := match l with [] => e | a :: t => mul (sem_list t) (sem a) end.

Lemma sem_list_app_swap l1 a b l2 : independent a b -> sem_list (l1 ++ a :: b :: l2) = sem_list (l1 ++ b :: a :: l2).
Proof.
  intros I. induction l1 as [|x l1 IH]; simpl.
  - rewrite <- !mul_assoc. rewrite (commute a b I). reflexivity.
  - rewrite IH. reflexivity.
Qed.

Theorem sweq_sem l m : sweq l m -> sem_list l = sem_list m.
Proof.
  induction 1 as [l|l1 a b l2 I|l m n _ IH1 _ IH2]; [reflexivity|apply sem_list_app_swap; exact I|congruence].
Qed.

Theorem toposort_sem ls out :
  NoDup ls -> (forall c, In c ls -> has_deps c = true) -> toposort ls out -> sem_list out = sem_list ls.
Proof. intros ND Hall T. symmetry. apply sweq_sem. apply toposort_sweq; assumption. Qed.
End Semantics.

(* ---------- group_operations: A ++ B ++ C from two topological sorts ---------- *)
Variable marked : A -> bool.

Fixpoint take_unmarked (l : list A) : list A :=
  match l with [] => [] | x :: l' => if marked x then [] else x :: take_unmarked l' end.
Fixpoint drop_unmarked (l : list A) : list A :=
  match l with [] => [] | x :: l' => if marked x then l else drop_unmarked l' end.
(* split at the last marked element: (prefix up to and including it, unmarked tail) *)
Definition split_last_marked (l : list A) : list A * list A :=
  let tailr := take_unmarked (rev l) in
  (firstn (length l - length tailr) l, skipn (length l - length tailr) l).

Lemma take_drop l : take_unmarked l ++ drop_unmarked l = l.
Proof. induction l as [|x l IH]; simpl; [reflexivity|]. destruct (marked x); simpl; [reflexivity|rewrite IH; reflexivity]. Qed.

Lemma take_unmarked_none l x : In x (take_unmarked l) -> marked x = false.
Proof.
  induction l as [|y l IH]; simpl; [tauto|]. destruct (marked y) eqn:M; simpl; [tauto|].
  intros [->|H]; auto.
Qed.

Lemma take_unmarked_suffix l : exists p, rev l = take_unmarked (rev l) ++ p.
Proof. exists (drop_unmarked (rev l)). symmetry; apply take_drop. Qed.

Definition group (seq C1 C2 A_ B_ C_ : list A) : Prop :=
  toposort seq C1 /\ A_ = take_unmarked C1 /\ toposort (drop_unmarked C1) C2 /\
  (B_, C_) = split_last_marked C2.

Lemma split_last_app l : fst (split_last_marked l) ++ snd (split_last_marked l) = l.
Proof. unfold split_last_marked; simpl. apply firstn_skipn. Qed.

Lemma split_last_tail_unmarked l x : In x (snd (split_last_marked l)) -> marked x = false.
Proof.
  unfold split_last_marked; simpl. intros H.
  destruct (take_unmarked_suffix l) as [p Hp].
  set (t := take_unmarked (rev l)) in *.
  assert (El : l = rev p ++ rev t).
  { rewrite <- (rev_involutive l). rewrite Hp. rewrite rev_app_distr. reflexivity. }
  assert (Hlen : length l - length t = length (rev p)).
  { rewrite El at 1. rewrite app_length, !rev_length. lia. }
  rewrite Hlen in H. rewrite El in H. rewrite skipn_app in H. rewrite skipn_all in H. rewrite Nat.sub_diag in H. simpl in H.
  apply in_rev in H. apply (take_unmarked_none (rev l)). exact H.
Qed.

(* every wire of A ++ B ++ C carries the same sequence as in seq: the grouped circuit is a
   dependency-respecting re-ordering of the same commands *)
Theorem group_wire seq C1 C2 A_ B_ C_ w :
  NoDup seq -> (forall c, In c seq -> has_deps c = true) -> group seq C1 C2 A_ B_ C_ ->
  wire (A_ ++ B_ ++ C_) w = wire seq w.
Proof.
  intros ND Hall (T1 & -> & T2 & S).
  assert (EBC : B_ ++ C_ = C2).
  { pose proof (split_last_app C2) as Hs. rewrite <- S in Hs. exact Hs. }
  rewrite EBC.
  assert (NDn : NoDup (nodes seq)) by (apply NoDup_filter; exact ND).
  assert (ND1 : NoDup C1) by (eapply Permutation_NoDup; [apply T1|exact NDn]).
  assert (NDd : NoDup (drop_unmarked C1)).
  { rewrite <- (take_drop C1) in ND1. apply NoDup_app_r in ND1. exact ND1. }
  rewrite wire_app. rewrite (toposort_wire _ C2 w NDd T2). rewrite <- wire_app. rewrite take_drop.
  apply toposort_wire; assumption.
Qed.

Theorem group_same_commands seq C1 C2 A_ B_ C_ :
  NoDup seq -> (forall c, In c seq -> has_deps c = true) -> group seq C1 C2 A_ B_ C_ ->
  Permutation seq (A_ ++ B_ ++ C_).
Proof.
  intros ND Hall (T1 & -> & T2 & S).
  assert (EBC : B_ ++ C_ = C2).
  { pose proof (split_last_app C2) as Hs. rewrite <- S in Hs. exact Hs. }
  rewrite EBC.
  assert (Nall : forall l, (forall c, In c l -> has_deps c = true) -> nodes l = l).
  { induction l as [|c l IH]; intros H; simpl; [reflexivity|]. unfold nodes in *; simpl. rewrite (H c (or_introl eq_refl)).
    f_equal. apply IH. intros; apply H; right; assumption. }
  destruct T1 as [P1 _]. destruct T2 as [P2 _].
  rewrite (Nall seq Hall) in P1.
  assert (Hd : forall c, In c (drop_unmarked C1) -> has_deps c = true).
  { intros c Hc. apply Hall. eapply Permutation_in; [apply Permutation_sym; exact P1|].
    rewrite <- (take_drop C1). apply in_or_app; right; exact Hc. }
  rewrite (Nall _ Hd) in P2.
  eapply Permutation_trans; [exact P1|]. rewrite <- (take_drop C1) at 1. apply Permutation_app_head. exact P2.
Qed.

Theorem group_no_marked_outside seq C1 C2 A_ B_ C_ :
  group seq C1 C2 A_ B_ C_ ->
  (forall x, In x A_ -> marked x = false) /\ (forall x, In x C_ -> marked x = false).
Proof.
  intros (T1 & -> & T2 & S). split.
  - intros x. apply take_unmarked_none.
  - intros x Hx. apply (split_last_tail_unmarked C2). rewrite <- S. exact Hx.
Qed.

Lemma drop_unmarked_head l : drop_unmarked l = [] \/ exists x t, drop_unmarked l = x :: t /\ marked x = true.
Proof.
  induction l as [|y l IH]; simpl; [left; reflexivity|]. destruct (marked y) eqn:M; [|exact IH].
  right. exists y, l. split; [reflexivity|exact M].
Qed.

Lemma take_unmarked_length l : length (take_unmarked l) <= length l.
Proof. induction l as [|y l IH]; simpl; [lia|]. destruct (marked y); simpl; lia. Qed.

Lemma take_unmarked_full l : length (take_unmarked l) = length l -> forall x, In x l -> marked x = false.
Proof.
  induction l as [|y l IH]; simpl; intros H x Hx; [tauto|].
  destruct (marked y) eqn:M; simpl in H; [discriminate|].
  destruct Hx as [->|Hx]; [exact M|]. apply IH; [lia|exact Hx].
Qed.

(* "if B is empty then so is C" *)
Theorem group_B_empty seq C1 C2 A_ B_ C_ :
  (forall c, In c seq -> has_deps c = true) -> group seq C1 C2 A_ B_ C_ -> B_ = [] -> C_ = [].
Proof.
  intros Hall (T1 & -> & T2 & S) HB.
  unfold split_last_marked in S. injection S as SB SC. subst B_.
  destruct (drop_unmarked_head C1) as [E|(x & t & E & Mx)].
  - destruct T2 as [P2 _]. rewrite E in P2. simpl in P2. apply Permutation_nil in P2. subst C2. rewrite SC. reflexivity.
  - exfalso.
    destruct T2 as [P2 _].
    assert (Hx1 : In x C1) by (rewrite <- (take_drop C1); apply in_or_app; right; rewrite E; left; reflexivity).
    assert (Hxs : In x seq).
    { destruct T1 as [P1 _]. apply Permutation_sym in P1. apply (Permutation_in x P1) in Hx1.
      unfold nodes in Hx1. apply filter_In in Hx1. tauto. }
    assert (Hx2 : In x C2).
    { eapply Permutation_in; [exact P2|]. unfold nodes. apply filter_In. split; [rewrite E; left; reflexivity|apply Hall; exact Hxs]. }
    pose proof (take_unmarked_length (rev C2)) as Hle. rewrite rev_length in Hle.
    assert (Hlen : length (take_unmarked (rev C2)) = length C2).
    { destruct (Nat.eq_dec (length (take_unmarked (rev C2))) (length C2)) as [e|ne]; [exact e|]. exfalso.
      assert (length C2 - length (take_unmarked (rev C2)) > 0) by lia.
      destruct C2 as [|c0 C2']; [simpl in *; lia|].
      destruct (length (c0 :: C2') - length (take_unmarked (rev (c0 :: C2')))) eqn:D; [lia|]. simpl in HB. discriminate. }
    rewrite <- (rev_length C2) in Hlen.
    pose proof (take_unmarked_full (rev C2) Hlen x) as Hm. rewrite <- in_rev in Hm. rewrite (Hm Hx2) in Mx. discriminate.
Qed.
End Reorder.
