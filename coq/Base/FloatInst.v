(* Executable instance at primitive binary64 floats (used only by correspondence cases). *)
From Coq Require Import PrimFloat List Bool Arith.
Import ListNotations.
From SFV Require Import Base.Num.

Definition NF : Num float := mkNum 0%float 1%float PrimFloat.add PrimFloat.mul PrimFloat.sub PrimFloat.opp.

Definition fabs (x : float) : float := PrimFloat.abs x.
Definition fmax (x y : float) : float := if PrimFloat.ltb x y then y else x.
(* |x-y| <= tol * max(1,|x|,|y|) ; false on nan *)
Definition fclose (tol x y : float) : bool :=
  PrimFloat.leb (fabs (PrimFloat.sub x y)) (PrimFloat.mul tol (fmax 1%float (fmax (fabs x) (fabs y)))).
Definition cclose (tol : float) (a b : C float) : bool := fclose tol (re a) (re b) && fclose tol (im a) (im b).

Fixpoint nth_d {A} (d : A) (l : list A) (n : nat) : A :=
  match l, n with [], _ => d | x :: _, 0 => x | _ :: l', S m => nth_d d l' m end.
Definition CF0 : C float := mkC 0%float 0%float.
Definition mat_of (rows : list (list (C float))) : nat -> nat -> C float :=
  fun a b => nth_d CF0 (nth_d [] rows a) b.
Definition vec_of (v : list (C float)) : nat -> C float := fun a => nth_d CF0 v a.
Definition st_of (n : nat) (Nm Mm : list (list (C float))) (al : list (C float)) : st float :=
  mkSt n (mat_of Nm) (mat_of Mm) (vec_of al).

Fixpoint forall_lt (n : nat) (p : nat -> bool) : bool :=
  match n with 0 => true | S m => p m && forall_lt m p end.
Definition st_close (tol : float) (s t : st float) : bool :=
  Nat.eqb (nlen s) (nlen t) &&
  forall_lt (nlen s) (fun a => cclose tol (mean s a) (mean t a) &&
    forall_lt (nlen s) (fun b => cclose tol (nmat s a b) (nmat t a b) && cclose tol (mmat s a b) (mmat t a b))).
