(* Tactics shared by the proofs about the generated GaussianModes model. *)
From Coq Require Import Arith Bool List Lia.
Import ListNotations.
From SFV Require Import Base.Num Gen.GaussCirc.

Ltac open_gen :=
  lazy beta iota zeta delta [loss displace squeeze phase_shift beamsplitter thermal_loss init_thermal
    set_nmat set_mmat set_mean set_nmat_row set_mmat_row set_nmat_col set_mmat_col par_nmat par_mmat
    add_all_nmat mem nlen nmat mmat mean].

Ltac bool_simpl := lazy beta iota delta [andb orb negb].

(* resolve index comparisons: known facts first, then case splits *)
Ltac idx_step :=
  match goal with
  | |- context [Nat.eqb ?a ?a] => rewrite (Nat.eqb_refl a)
  | H : ?a <> ?b |- context [Nat.eqb ?a ?b] => rewrite (proj2 (Nat.eqb_neq a b) H)
  | H : ?b <> ?a |- context [Nat.eqb ?a ?b] => rewrite (proj2 (Nat.eqb_neq a b) (not_eq_sym H))
  | H : ?a < _ |- context [Nat.ltb ?a ?m] => replace (Nat.ltb a m) with true by (symmetry; apply Nat.ltb_lt; exact H)
  end; bool_simpl.

Ltac idx_split :=
  match goal with
  | |- context [Nat.eqb ?a ?b] => destruct (Nat.eqb_spec a b); [subst|]; bool_simpl
  end.

Ltac idx := repeat (repeat idx_step; try idx_split).

Ltac copen := lazy beta iota delta [re im Cadd Csub Cmul Copp Cconj Cre Cnat Knat C0 C1 Ci C2 n0 n1 nadd nmul nsub nopp].
