(* Whole-array operations of numpy used by the matrix-style methods of GaussianModes (apply_u, scovmatxp, smeanxp):
   matrices are functions nat -> nat -> C K read on indices below nlen.  Definitions only. *)
From Coq Require Import Arith Bool List.
Import ListNotations.
From SFV Require Import Base.Num.

Section MatOps.
Context {K : Type} (N : Num K).

Definition mat := nat -> nat -> C K.
Definition cvec := nat -> C K.

(* sum_{k < n} f k, accumulated from k = 0 upwards *)
Fixpoint Csum (n : nat) (f : nat -> C K) : C K :=
  match n with 0 => C0 N | S m => Cadd N (Csum m f) (f m) end.

Definition mtr (A : mat) : mat := fun i j => A j i.                       (* np.transpose(A), A.T *)
Definition mconj (A : mat) : mat := fun i j => Cconj N (A i j).           (* np.conj(A), A.conj() *)
Definition mid : mat := fun i j => if Nat.eqb i j then C1 N else C0 N.    (* np.identity(nlen) *)
Definition madd (A B : mat) : mat := fun i j => Cadd N (A i j) (B i j).
Definition msub (A B : mat) : mat := fun i j => Csub N (A i j) (B i j).
Definition mopp (A : mat) : mat := fun i j => Copp N (A i j).
Definition mscale (c : C K) (A : mat) : mat := fun i j => Cmul N c (A i j).
Definition mmul (n : nat) (A B : mat) : mat := fun i j => Csum n (fun k => Cmul N (A i k) (B k j)).   (* A @ B *)
Definition mvec (n : nat) (A : mat) (v : cvec) : cvec := fun i => Csum n (fun k => Cmul N (A i k) (v k)).  (* A @ v *)

(* self.nmat = E etc.: the whole nlen x nlen array is replaced *)
Definition assign_nmat (s : st K) (E : mat) : st K :=
  mkSt (nlen s) (fun a b => if Nat.ltb a (nlen s) && Nat.ltb b (nlen s) then E a b else nmat s a b) (mmat s) (mean s).
Definition assign_mmat (s : st K) (E : mat) : st K :=
  mkSt (nlen s) (nmat s) (fun a b => if Nat.ltb a (nlen s) && Nat.ltb b (nlen s) then E a b else mmat s a b) (mean s).
Definition assign_mean (s : st K) (v : cvec) : st K :=
  mkSt (nlen s) (nmat s) (mmat s) (fun a => if Nat.ltb a (nlen s) then v a else mean s a).

(* np.concatenate((np.concatenate((A, B), axis=1), np.concatenate((C, D), axis=1)), axis=0).real as a function of
   (row block, column block, row, column): false = first block *)
Definition blocks_real (A B C_ D : mat) : bool -> bool -> nat -> nat -> K := fun q1 q2 a b =>
  re (match q1, q2 with false, false => A a b | false, true => B a b | true, false => C_ a b | true, true => D a b end).
(* r[0:n] = V1 ; r[n:2n] = V2  for real vectors V1, V2 *)
Definition halves (V1 V2 : nat -> K) : bool -> nat -> K := fun q a => if q then V2 a else V1 a.
End MatOps.
