(* Phase-space read-out of the (N, M, alpha) representation and the specification of Gaussian operations as
   symplectic / affine maps on (means, covariance) in xp order, hbar = 2.  Definitions only.

   [rcov]/[rmean] model GaussianModes.scovmatxp / smeanxp (hand model; tied by float correspondence).
   A covariance matrix is a function of (quadrature q1, quadrature q2, mode a, mode b) with false = x, true = p. *)
From Coq Require Import Arith Bool List.
Import ListNotations.
From SFV Require Import Base.Num.

Section PS.
Context {K : Type} (N : Num K).
Local Notation "x + y" := (nadd N x y). Local Notation "x * y" := (nmul N x y).
Local Notation "x - y" := (nsub N x y). Local Notation "- x" := (nopp N x).

Definition cov := bool -> bool -> nat -> nat -> K.
Definition vec := bool -> nat -> K.

Definition kdelta (a b : nat) : K := if Nat.eqb a b then n1 N else n0 N.
Definition two : K := n1 N + n1 N.

(* scovmatxp: mm11, mm12, mm12^T, mm22 with `.real` taken entrywise *)
Definition rcov (s : st K) : cov := fun q1 q2 a b =>
  let Nm := nmat s in let Mm := mmat s in
  match q1, q2 with
  | false, false => re (Cadd N (Cadd N (Cadd N (Nm a b) (Nm b a)) (Mm a b)) (Cconj N (Mm a b))) + kdelta a b
  | false, true  => re (Cmul N (Ci N) (Csub N (Cadd N (Cadd N (Copp N (Mm b a)) (Cconj N (Mm b a))) (Nm b a)) (Nm a b)))
  | true, false  => re (Cmul N (Ci N) (Csub N (Cadd N (Cadd N (Copp N (Mm a b)) (Cconj N (Mm a b))) (Nm a b)) (Nm b a)))
  | true, true   => re (Csub N (Csub N (Cadd N (Nm a b) (Nm b a)) (Mm a b)) (Cconj N (Mm a b))) + kdelta a b
  end.
(* smeanxp: (2 Re alpha, 2 Im alpha) *)
Definition rmean (s : st K) : vec := fun q a => if q then two * im (mean s a) else two * re (mean s a).

(* ---- specification: a linear map S acting on the quadratures of the modes in tg, identity elsewhere ---- *)
(* S q a p c : coefficient of quadrature p of mode c in the new quadrature q of mode a  (a, c in tg) *)
Definition smat := bool -> nat -> bool -> nat -> K.

Fixpoint lsum (l : list nat) (f : nat -> K) : K :=
  match l with [] => n0 N | c :: l' => f c + lsum l' f end.
Definition qsum (f : bool -> K) : K := f false + f true.

Definition rowmix (S : smat) (tg : list nat) (V : cov) : cov := fun q1 q2 a b =>
  if mem a tg then qsum (fun p => lsum tg (fun c => S q1 a p c * V p q2 c b)) else V q1 q2 a b.
Definition colmix (S : smat) (tg : list nat) (V : cov) : cov := fun q1 q2 a b =>
  if mem b tg then qsum (fun p => lsum tg (fun c => V q1 p a c * S q2 b p c)) else V q1 q2 a b.
(* S V S^T for S = identity outside tg *)
Definition congr (S : smat) (tg : list nat) (V : cov) : cov := colmix S tg (rowmix S tg V).
Definition vmix (S : smat) (tg : list nat) (r : vec) : vec := fun q a =>
  if mem a tg then qsum (fun p => lsum tg (fun c => S q a p c * r p c)) else r q a.

(* documented single-mode symplectic matrices (xp order), as 2x2 blocks on mode k *)
Definition S1 (sxx sxp spx spp : K) : smat := fun q _ p _ =>
  match q, p with false, false => sxx | false, true => sxp | true, false => spx | true, true => spp end.
(* rotation by phi: [[cos, -sin], [sin, cos]] *)
Definition S_rot (c s : K) : smat := S1 c (- s) s c.
(* squeezing S(r, phi): [[ch - cos(phi) sh, -sin(phi) sh], [-sin(phi) sh, ch + cos(phi) sh]] *)
Definition S_sq (c s sh ch : K) : smat := S1 (ch - c * sh) (- (s * sh)) (- (s * sh)) (ch + c * sh).
(* beam splitter on (k, l):  a_k -> cs a_k + e sn a_l ,  a_l -> cs a_l - conj(e) sn a_k  with e = er + i ei *)
Definition S_bs (er ei sn cs : K) (k l : nat) : smat := fun q a p c =>
  if Nat.eqb a k then
    (if Nat.eqb c k then (if Bool.eqb q p then cs else n0 N)
     else match q, p with false, false => sn * er | false, true => - (sn * ei) | true, false => sn * ei | true, true => sn * er end)
  else
    (if Nat.eqb c k then match q, p with false, false => - (sn * er) | false, true => - (sn * ei) | true, false => sn * ei | true, true => - (sn * er) end
     else (if Bool.eqb q p then cs else n0 N)).
(* a channel V -> X V X^T + Y with X = x.Id, Y = y.Id on mode k *)
Definition S_scale (x : K) : smat := S1 x (n0 N) (n0 N) x.
Definition add_diag (y : K) (k : nat) (V : cov) : cov := fun q1 q2 a b =>
  if Nat.eqb a k && Nat.eqb b k && Bool.eqb q1 q2 then V q1 q2 a b + y else V q1 q2 a b.
End PS.
