From Coq Require Import List Arith Bool Permutation Lia.
Import ListNotations.
From SFV Require Import Base.Reorder C04.Model.

Notation wireC := (wire cmd cdeps).
Notation nodesC := (nodes cmd cdeps).
Notation toposortC := (toposort cmd cdeps).

(* identifiers determine commands within a list *)
Definition id_inj (l : list cmd) : Prop := forall c c', In c l -> In c' l -> cid c = cid c' -> c = c'.

Lemma list_eqb_eq l1 l2 : list_eqb l1 l2 = true -> l1 = l2.
Proof.
  revert l2; induction l1 as [|x l1 IH]; intros [|y l2] H; simpl in H; try discriminate; auto.
  apply andb_prop in H as [H1 H2]. apply Nat.eqb_eq in H1. f_equal; auto.
Qed.

Lemma remove1_perm x l l' : remove1 x l = Some l' -> Permutation l (x :: l').
Proof.
  revert l'; induction l as [|y l IH]; intros l' H; simpl in H; [discriminate|].
  destruct (Nat.eqb_spec x y) as [->|Hne].
  - injection H as <-. apply Permutation_refl.
  - destruct (remove1 x l) as [m|] eqn:E; simpl in H; [|discriminate]. injection H as <-.
    eapply Permutation_trans; [apply perm_skip; apply IH; reflexivity|]. apply perm_swap.
Qed.

Lemma perm_ids_sound l1 l2 : perm_ids l1 l2 = true -> Permutation l1 l2.
Proof.
  revert l2; induction l1 as [|x l1 IH]; intros l2 H; simpl in H.
  - destruct l2; [constructor|discriminate].
  - destruct (remove1 x l2) as [m|] eqn:E; [|discriminate].
    apply Permutation_sym. eapply Permutation_trans; [apply remove1_perm; exact E|].
    apply perm_skip. apply Permutation_sym. apply IH; exact H.
Qed.

Lemma map_cid_inj X Y : (forall c c', In c X -> In c' Y -> cid c = cid c' -> c = c') -> map cid X = map cid Y -> X = Y.
Proof.
  revert Y; induction X as [|x X IH]; intros [|y Y] Hi H; simpl in H; try discriminate; auto.
  injection H as H1 H2. f_equal.
  - apply Hi; simpl; auto.
  - apply IH; auto. intros c c' Hc Hc'. apply Hi; simpl; auto.
Qed.

Lemma perm_of_ids X Y : id_inj (X ++ Y) -> Permutation (map cid X) (map cid Y) -> Permutation X Y.
Proof.
  intros Hi P. apply Permutation_map_inv in P as (Z & E & P).
  assert (X = Z).
  { apply map_cid_inj; [|exact E]. intros c c' Hc Hc'. apply Hi; apply in_or_app; [left; exact Hc|right].
    eapply Permutation_in; [apply Permutation_sym; exact P|exact Hc']. }
  subst Z. apply Permutation_sym; exact P.
Qed.

Lemma nodup_nat_In x l : In x (nodup_nat l) <-> In x l.
Proof.
  induction l as [|y l IH]; simpl; [tauto|].
  destruct (memb y l) eqn:M.
  - rewrite IH. split; [auto|]. intros [->|H]; auto. apply memb_In; exact M.
  - simpl. rewrite IH. tauto.
Qed.

Lemma wire_nil_off ls w : ~ In w (all_wires ls) -> wireC ls w = [].
Proof.
  intros H. unfold wire. induction ls as [|c ls IH]; simpl; [reflexivity|].
  unfold all_wires in *. simpl in H. rewrite nodup_nat_In in H.
  destruct (on_wire cmd cdeps w c) eqn:O.
  - exfalso. apply H. apply in_or_app; left. unfold on_wire in O. apply memb_In; exact O.
  - apply IH. rewrite nodup_nat_In. intros Hin. apply H. apply in_or_app; right; exact Hin.
Qed.

Lemma wire_sub (ls : list cmd) w c : In c (wireC ls w) -> In c ls /\ In w (cdeps c).
Proof. unfold wire. rewrite filter_In. unfold on_wire. rewrite memb_In. tauto. Qed.

Lemma nodes_sub (ls : list cmd) c : In c (nodesC ls) -> In c ls.
Proof. unfold nodes. rewrite filter_In. tauto. Qed.

Theorem check_linearisation_sound ls out :
  id_inj (ls ++ out) -> check_linearisation ls out = true ->
  toposortC ls out /\ forall w, wireC out w = wireC ls w.
Proof.
  intros Hi H. unfold check_linearisation in H. apply andb_prop in H as [HP HW].
  apply perm_ids_sound in HP.
  assert (P : Permutation (nodesC ls) out).
  { apply perm_of_ids; [|exact HP]. intros c c' Hc Hc'. apply Hi.
    - apply in_app_or in Hc as [Hc|Hc]; apply in_or_app; [left; apply nodes_sub; exact Hc|right; exact Hc].
    - apply in_app_or in Hc' as [Hc'|Hc']; apply in_or_app; [left; apply nodes_sub; exact Hc'|right; exact Hc']. }
  assert (W : forall w, wireC out w = wireC ls w).
  { intros w. destruct (in_dec Nat.eq_dec w (all_wires ls)) as [Hin|Hout].
    - rewrite forallb_forall in HW. specialize (HW w Hin). apply list_eqb_eq in HW. unfold wire_ids, ids in HW.
      apply map_cid_inj; [|exact HW]. intros c c' Hc Hc'. apply Hi; apply in_or_app.
      + right. apply wire_sub in Hc; tauto.
      + left. apply wire_sub in Hc'; tauto.
    - rewrite (wire_nil_off ls w Hout).
      destruct (wireC out w) as [|c t] eqn:E; [reflexivity|]. exfalso.
      assert (Hc : In c (wireC out w)) by (rewrite E; left; reflexivity).
      apply wire_sub in Hc as [Hc Hw].
      assert (Hcl : In c ls) by (apply nodes_sub; eapply Permutation_in; [apply Permutation_sym; exact P|exact Hc]).
      apply Hout. unfold all_wires. rewrite nodup_nat_In. apply in_flat_map. exists c; split; assumption. }
  split; [|exact W]. split; [exact P|].
  intros a b (w & l1 & l2 & E). apply (before_of_filter cmd cdeps (on_wire cmd cdeps w)).
  fold (wire cmd cdeps out w). rewrite W, E. exists l1, [], l2. reflexivity.
Qed.

(* group_operations validator *)
Theorem check_group_sound seq A_ B_ C_ :
  id_inj (seq ++ A_ ++ B_ ++ C_) -> check_group seq A_ B_ C_ = true ->
  Permutation (nodesC seq) (A_ ++ B_ ++ C_) /\ (forall w, wireC (A_ ++ B_ ++ C_) w = wireC seq w) /\
  (forall c, In c A_ -> cmark c = false) /\ (forall c, In c C_ -> cmark c = false) /\ (B_ = [] -> C_ = []).
Proof.
  intros Hi H. unfold check_group in H.
  apply andb_prop in H as [H HBC]. apply andb_prop in H as [H HC]. apply andb_prop in H as [HL HA].
  destruct (check_linearisation_sound seq (A_ ++ B_ ++ C_) Hi HL) as [[P _] W].
  repeat split; auto.
  - intros c Hc. rewrite forallb_forall in HA. specialize (HA c Hc). destruct (cmark c); [discriminate|reflexivity].
  - intros c Hc. rewrite forallb_forall in HC. specialize (HC c Hc). destruct (cmark c); [discriminate|reflexivity].
  - intros ->. destruct C_; [reflexivity|discriminate].
Qed.

(* ---- GBS.compile's collection ---- *)
Lemma disjointb_spec l1 l2 : disjointb l1 l2 = true -> forall x, In x l1 -> ~ In x l2.
Proof.
  induction l1 as [|y l1 IH]; simpl; intros H x Hx; [tauto|].
  apply andb_prop in H as [H1 H2]. destruct Hx as [->|Hx]; [|apply IH; assumption].
  intros Hin. apply memb_In in Hin. rewrite Hin in H1. discriminate.
Qed.

Lemma insert_perm x l : Permutation (insert_sorted x l) (x :: l).
Proof.
  induction l as [|y l IH]; simpl; [apply Permutation_refl|].
  destruct (Nat.leb x y); [apply Permutation_refl|].
  eapply Permutation_trans; [apply perm_skip; exact IH|apply perm_swap].
Qed.
Lemma sort_perm l : Permutation (sort_nat l) l.
Proof. induction l as [|x l IH]; simpl; [constructor|]. eapply Permutation_trans; [apply insert_perm|apply perm_skip; exact IH]. Qed.

Fixpoint sortedb (l : list nat) : bool :=
  match l with a :: ((b :: _) as t) => Nat.leb a b && sortedb t | _ => true end.
Lemma insert_sorted_ok x l : sortedb l = true -> sortedb (insert_sorted x l) = true.
Proof.
  induction l as [|y l IH]; intros H; [reflexivity|].
  cbn [insert_sorted]. destruct (Nat.leb x y) eqn:L.
  - cbn [sortedb]. rewrite L. exact H.
  - assert (Lyx : Nat.leb y x = true) by (apply Nat.leb_le; apply Nat.leb_gt in L; lia).
    destruct l as [|z l].
    + cbn. rewrite Lyx. reflexivity.
    + cbn [sortedb] in H. apply andb_prop in H as [H1 H2].
      pose proof (IH H2) as IH'. cbn [insert_sorted] in IH' |- *.
      destruct (Nat.leb x z) eqn:L2.
      * cbn [sortedb]. rewrite Lyx, L2. exact H2.
      * cbn [sortedb] in IH' |- *. rewrite H1. exact IH'.
Qed.
Lemma sort_sorted l : sortedb (sort_nat l) = true.
Proof. induction l as [|x l IH]; simpl; [reflexivity|]. apply insert_sorted_ok; exact IH. Qed.

Lemma collect_ok B_ m0 m : collect B_ m0 = inl (Some m) ->
  (forall c, In c B_ -> cmark c = true) /\ Permutation m (flat_map cmodes (rev B_) ++ m0) /\
  (NoDup m0 -> (forall c, In c B_ -> NoDup (cmodes c)) -> NoDup m).
Proof.
  revert m0 m. induction B_ as [|c t IH]; intros m0 m H; simpl in H.
  - injection H as <-. simpl. repeat split; auto; tauto.
  - destruct (cmark c) eqn:M; simpl in H; [|discriminate].
    destruct (disjointb (cmodes c) m0) eqn:D; simpl in H; [|discriminate].
    destruct (IH _ _ H) as (I1 & I2 & I3). repeat split.
    + intros c' [<-|Hc']; auto.
    + simpl. rewrite flat_map_app. simpl. rewrite app_nil_r, <- app_assoc. exact I2.
    + intros ND0 NDc. apply I3; [|intros; apply NDc; right; assumption].
      assert (NDc0 := NDc c (or_introl eq_refl)). pose proof (disjointb_spec _ _ D) as Dj.
      clear - NDc0 ND0 Dj. induction (cmodes c) as [|x l IHl]; simpl; [exact ND0|].
      inversion NDc0; subst. constructor.
      * rewrite in_app_iff. intros [Hx|Hx]; [tauto|]. apply (Dj x); simpl; auto.
      * apply IHl; auto. intros y Hy. apply Dj; simpl; auto.
Qed.

(* on success: nothing follows the measurements, B consists of measurements only, no mode is measured twice,
   and the single output measurement acts on the sorted union of the measured modes *)
Theorem gbs_collect_sound A_ B_ C_ A' ms :
  (forall c, In c B_ -> NoDup (cmodes c)) ->
  gbs_collect A_ B_ C_ = GbsOk A' ms ->
  A' = A_ /\ C_ = [] /\ B_ <> [] /\ (forall c, In c B_ -> cmark c = true) /\
  Permutation ms (flat_map cmodes (rev B_)) /\ NoDup ms /\ sortedb ms = true.
Proof.
  intros NDc H. unfold gbs_collect in H.
  destruct C_ as [|? ?]; [|discriminate]. destruct B_ as [|b B']; [discriminate|].
  destruct (collect (b :: B') []) as [[m|]|e] eqn:E; try discriminate. injection H as <- <-.
  destruct (collect_ok _ _ _ E) as (I1 & I2 & I3). rewrite app_nil_r in I2.
  repeat split; auto; try discriminate.
  - eapply Permutation_trans; [apply sort_perm|exact I2].
  - eapply Permutation_NoDup; [apply Permutation_sym, sort_perm|]. apply I3; [constructor|exact NDc].
  - apply sort_sorted.
Qed.
