(* C04 executable model: commands with identifiers, the grid / DAG edge set as computed by
   list_to_grid / grid_to_DAG, a boolean validator for any linearisation, group_operations' split,
   and GBS.compile's measurement collection.  Definitions only. *)
From Coq Require Import List Arith Bool.
Import ListNotations.
From SFV Require Import Base.Reorder.

Record cmd := mkCmd { cid : nat; cdeps : list nat; cmodes : list nat; cmark : bool }.
(* cdeps = register modes + modes of measured parameters (duplicate-free, any order);
   cmodes = register modes in listed order; cmark = the grouping predicate's value *)

Definition ids (l : list cmd) : list nat := map cid l.
Definition wire_ids (ls : list cmd) (w : nat) : list nat := ids (wire cmd cdeps ls w).

Fixpoint nodup_nat (l : list nat) : list nat :=
  match l with [] => [] | x :: l' => if memb x l' then nodup_nat l' else x :: nodup_nat l' end.
Definition all_wires (ls : list cmd) : list nat := nodup_nat (flat_map cdeps ls).

Fixpoint consecutive (l : list nat) : list (nat * nat) :=
  match l with a :: ((b :: _) as t) => (a, b) :: consecutive t | _ => [] end.
(* DAG edges as (id, id) pairs, one list per wire *)
Definition edges_ids (ls : list cmd) : list (nat * nat) := flat_map (fun w => consecutive (wire_ids ls w)) (all_wires ls).

Fixpoint list_eqb (l1 l2 : list nat) : bool :=
  match l1, l2 with [] , [] => true | x :: t1, y :: t2 => Nat.eqb x y && list_eqb t1 t2 | _, _ => false end.

Fixpoint remove1 (x : nat) (l : list nat) : option (list nat) :=
  match l with [] => None | y :: l' => if Nat.eqb x y then Some l' else option_map (cons y) (remove1 x l') end.
Fixpoint perm_ids (l1 l2 : list nat) : bool :=
  match l1 with [] => match l2 with [] => true | _ => false end
  | x :: t => match remove1 x l2 with Some l2' => perm_ids t l2' | None => false end end.

(* validator for a linearisation [out] of [ls]: same nodes, and every wire carries the same sequence *)
Definition check_linearisation (ls out : list cmd) : bool :=
  perm_ids (ids (nodes cmd cdeps ls)) (ids out)
  && forallb (fun w => list_eqb (wire_ids out w) (wire_ids ls w)) (all_wires ls).

(* group_operations: validator for a returned triple (A, B, C) *)
Definition check_group (seq A_ B_ C_ : list cmd) : bool :=
  check_linearisation seq (A_ ++ B_ ++ C_)
  && forallb (fun c => negb (cmark c)) A_ && forallb (fun c => negb (cmark c)) C_
  && (match B_ with [] => match C_ with [] => true | _ => false end | _ => true end).

(* GBS.compile's collection of the Fock measurements in B *)
Fixpoint insert_sorted (x : nat) (l : list nat) : list nat :=
  match l with [] => [x] | y :: l' => if Nat.leb x y then x :: l else y :: insert_sorted x l' end.
Fixpoint sort_nat (l : list nat) : list nat := match l with [] => [] | x :: l' => insert_sorted x (sort_nat l') end.
Fixpoint disjointb (l1 l2 : list nat) : bool :=
  match l1 with [] => true | x :: t => negb (memb x l2) && disjointb t l2 end.

Inductive gbs_result := GbsError (why : nat) | GbsOk (A_ : list cmd) (measured : list nat).
(* why: 1 = operations after the measurements, 2 = no measurement, 3 = not consecutive, 4 = measured twice *)
Fixpoint collect (B_ : list cmd) (measured : list nat) : option (list nat) + nat :=
  match B_ with
  | [] => inl (Some measured)
  | c :: t => if negb (cmark c) then inr 3
              else if negb (disjointb (cmodes c) measured) then inr 4
              else collect t (cmodes c ++ measured)
  end.
Definition gbs_collect (A_ B_ C_ : list cmd) : gbs_result :=
  match C_ with _ :: _ => GbsError 1 | [] =>
  match B_ with [] => GbsError 2 | _ =>
  match collect B_ [] with
  | inr e => GbsError e
  | inl (Some m) => GbsOk A_ (sort_nat m)
  | inl None => GbsError 0
  end end end.
