(* C03 — optimize_circuit as a whole: every wire of the grid is run through the merging loop, then the grid is
   linearised again (grid_to_DAG / DAG_to_list).  Theorem: for ANY command list, ANY number of wires, ANY
   linearisation [out] of the optimised grid, the ordered composition of [out] equals that of the input.

   The argument the code relies on, made explicit:  two commands are merged only when they are adjacent on a wire w
   and each lives on that wire only (one dependency, `len(get_dependencies()) == 1`); every command between them in
   the program order is then off wire w, hence independent of the second one, which can be moved next to the first
   (Base.Reorder.bubble); there the pair is replaced by the merged command (merge_sound).  This is a step on the
   PROGRAM ORDER whose effect on the grid is exactly the step the loop makes on wire w and nothing on any other
   wire.  Iterating over the loop's steps and over the wires gives a program order [ls'] with the input's
   composition whose grid is the optimised grid; any linearisation of that grid is reachable from [ls'] by swaps of
   adjacent independent commands (Base.Reorder.wire_equiv_sweq). *)
From Coq Require Import List Arith Bool ZArith Lia Permutation.
Import ListNotations.
From SFV Require Import Base.Reorder C03.Model C03.Proofs.
Local Open Scope nat_scope.

Lemma filter_split1 {A} (f : A -> bool) : forall ls p a r, filter f ls = p ++ a :: r ->
  exists l1 l2, ls = l1 ++ a :: l2 /\ filter f l1 = p /\ filter f l2 = r.
Proof.
  induction ls as [|x t IH]; intros p a r H; simpl in H.
  - destruct p; discriminate.
  - destruct (f x) eqn:Fx.
    + destruct p as [|y p'].
      * simpl in H. injection H as -> Ht. exists [], t. simpl. auto.
      * simpl in H. injection H as -> Ht. destruct (IH p' a r Ht) as (l1 & l2 & -> & H1 & H2).
        exists (y :: l1), l2. simpl. rewrite Fx, H1. auto.
    + destruct (IH p a r H) as (l1 & l2 & -> & H1 & H2). exists (x :: l1), l2. simpl. rewrite Fx. auto.
Qed.

Lemma filter_split2 {A} (f : A -> bool) ls p a b r : filter f ls = p ++ a :: b :: r ->
  exists l1 l2 l3, ls = l1 ++ a :: l2 ++ b :: l3 /\ filter f l1 = p /\ filter f l2 = [] /\ filter f l3 = r.
Proof.
  intros H. destruct (filter_split1 f ls p a (b :: r) H) as (l1 & m & -> & H1 & Hm).
  destruct (filter_split1 f m [] b r Hm) as (l2 & l3 & -> & H2 & H3).
  exists l1, l2, l3. auto.
Qed.

Lemma NoDup_drop2 {A} (p : list A) x q y r : NoDup (p ++ x :: q ++ y :: r) -> NoDup (p ++ x :: q ++ r) /\ NoDup (p ++ q ++ r).
Proof.
  intros H.
  assert (H1 : NoDup (p ++ x :: q ++ r)).
  { replace (p ++ x :: q ++ y :: r) with ((p ++ x :: q) ++ y :: r) in H by (rewrite <- app_assoc; reflexivity).
    apply NoDup_remove_1 in H. rewrite <- app_assoc in H. exact H. }
  split; [exact H1|]. apply NoDup_remove_1 in H1. exact H1.
Qed.

Section Global.
Context {K : Type}.
Variables (kadd kmul : K -> K -> K) (kopp : K -> K) (is_zero is_one : K -> bool).
Variable M : Type.
Variables (mul : M -> M -> M) (e : M).
Hypothesis mul_assoc : forall x y z, mul x (mul y z) = mul (mul x y) z.
Hypothesis mul_e_r : forall x, mul x e = x.
Variable sem : op K -> M.
Notation OP := (op K).
Notation wireK := (wire OP odeps).
Notation onw := (on_wire OP odeps).
Notation indep := (independent OP odeps).
Notation sl := (sem_list OP M mul e sem).
Notation mergeK := (merge kadd kmul kopp is_zero is_one).
Notation loopK := (wire_loop kadd kmul kopp is_zero is_one).
Notation optK := (optimize_wire kadd kmul kopp is_zero is_one).
Hypothesis commute : forall a b, indep a b -> mul (sem b) (sem a) = mul (sem a) (sem b).
Hypothesis MS : merge_sound kadd kmul kopp is_zero is_one M mul e sem.

(* the invariant of a program order: commands are distinct objects (ids) and each sits on at least one wire *)
Definition Inv (ls : list OP) : Prop := NoDup (map oid ls) /\ forall c, In c ls -> odeps c <> [].

Lemma merged_keeps a b c : mergeK a b = MMerged c -> odeps c = odeps a /\ oid c = oid a.
Proof.
  unfold merge. destruct (okind a).
  - destruct (_ && _ && _); [|discriminate]. destruct (is_zero _); [discriminate|]. intros H; injection H as <-. split; reflexivity.
  - destruct (_ && _ && _); [|discriminate]. destruct (is_one _); [discriminate|]. intros H; injection H as <-. split; reflexivity.
  - destruct (kind_eqb _ _); [|discriminate]. intros H; injection H as <-. split; reflexivity.
  - destruct (_ && _); discriminate.
  - discriminate.
Qed.

Lemma single_dep a b w : mergeable a b = true -> onw w a = true -> onw w b = true -> odeps a = [w] /\ odeps b = [w].
Proof.
  unfold mergeable. rewrite !andb_true_iff, !Nat.eqb_eq. intros [[[_ _] La] Lb] Ha Hb.
  unfold on_wire in Ha, Hb. apply memb_In in Ha. apply memb_In in Hb.
  split.
  - destruct (odeps a) as [|x [|y t]]; simpl in La; try discriminate. destruct Ha as [->|[]]. reflexivity.
  - destruct (odeps b) as [|x [|y t]]; simpl in Lb; try discriminate. destruct Hb as [->|[]]. reflexivity.
Qed.

Lemma onw_single c w v : odeps c = [w] -> onw v c = Nat.eqb v w.
Proof. intros H. unfold on_wire. rewrite H. simpl. apply orb_false_r. Qed.

Lemma sweq_app_l p l m : sweq OP odeps l m -> sweq OP odeps (p ++ l) (p ++ m).
Proof. intros H. induction p as [|x p IH]; simpl; [exact H|]. apply sweq_cons. exact IH. Qed.

(* moving the second command of a mergeable pair next to the first one *)
Lemma bring_together l1 a l2 b l3 w : odeps b = [w] -> wireK l2 w = [] ->
  sl (l1 ++ a :: l2 ++ b :: l3) = sl (l1 ++ a :: b :: l2 ++ l3).
Proof.
  intros Db Hoff. apply (sweq_sem OP odeps M mul e mul_assoc sem commute).
  apply sweq_app_l. apply sweq_cons. apply bubble.
  intros c Hc v Hvc Hvb. rewrite (onw_single b w v Db) in Hvb. apply Nat.eqb_eq in Hvb. subst v.
  pose proof (proj1 (wire_nil_iff OP odeps l2 w) Hoff c Hc) as F. congruence.
Qed.

Lemma sl_merged l1 a b c t : sem c = mul (sem b) (sem a) -> sl (l1 ++ a :: b :: t) = sl (l1 ++ c :: t).
Proof. intros H. induction l1 as [|x l1 IH]; simpl; [rewrite H, mul_assoc; reflexivity|rewrite IH; reflexivity]. Qed.
Lemma sl_ident l1 a b t : mul (sem b) (sem a) = e -> sl (l1 ++ a :: b :: t) = sl (l1 ++ t).
Proof. intros H. induction l1 as [|x l1 IH]; simpl; [rewrite <- mul_assoc, H, mul_e_r; reflexivity|rewrite IH; reflexivity]. Qed.

Lemma wire_off_cons c l v : onw v c = false -> wireK (c :: l) v = wireK l v.
Proof. intros H. unfold wire. simpl. rewrite H. reflexivity. Qed.
Lemma wire_on_cons c l v : onw v c = true -> wireK (c :: l) v = c :: wireK l v.
Proof. intros H. unfold wire. simpl. rewrite H. reflexivity. Qed.

(* one step of the loop on wire w, lifted to the program order *)
Lemma lift_step w ls p a b r : Inv ls -> wireK ls w = p ++ a :: b :: r -> mergeable a b = true ->
  match mergeK a b with
  | MFail => True
  | MIdent => exists ls', sl ls' = sl ls /\ wireK ls' w = p ++ r /\ (forall v, v <> w -> wireK ls' v = wireK ls v) /\ Inv ls'
  | MMerged c => exists ls', sl ls' = sl ls /\ wireK ls' w = p ++ c :: r /\ (forall v, v <> w -> wireK ls' v = wireK ls v) /\ Inv ls'
  end.
Proof.
  intros [ND Hd] E Mg.
  assert (Ha : onw w a = true).
  { assert (I : In a (wireK ls w)) by (rewrite E; apply in_or_app; right; left; reflexivity). apply filter_In in I. tauto. }
  assert (Hb : onw w b = true).
  { assert (I : In b (wireK ls w)) by (rewrite E; apply in_or_app; right; right; left; reflexivity). apply filter_In in I. tauto. }
  destruct (single_dep a b w Mg Ha Hb) as [Da Db].
  destruct (filter_split2 (onw w) ls p a b r E) as (l1 & l2 & l3 & -> & H1 & H2 & H3).
  fold (wireK l1 w) in H1. fold (wireK l2 w) in H2. fold (wireK l3 w) in H3.
  pose proof (MS a b Mg) as Hm.
  assert (Wab : forall v, v <> w -> onw v a = false /\ onw v b = false).
  { intros v Hv. rewrite (onw_single a w v Da), (onw_single b w v Db). apply Nat.eqb_neq in Hv. rewrite Hv. auto. }
  rewrite !map_app in ND. simpl in ND. rewrite map_app in ND. simpl in ND.
  destruct (NoDup_drop2 _ _ _ _ _ ND) as [ND1 ND0].
  destruct (mergeK a b) as [| |c] eqn:Em; [exact I| |].
  - (* identity: both commands disappear *)
    exists (l1 ++ l2 ++ l3). repeat split.
    + rewrite (bring_together l1 a l2 b l3 w Db H2). symmetry. apply sl_ident. exact Hm.
    + rewrite !wire_app, H1, H2, H3. reflexivity.
    + intros v Hv. destruct (Wab v Hv) as [Fa Fb].
      rewrite !wire_app. rewrite (wire_off_cons a _ v Fa), wire_app, (wire_off_cons b _ v Fb). reflexivity.
    + rewrite !map_app. exact ND0.
    + intros c Hc. apply Hd. apply in_app_or in Hc as [Hc|Hc]; [apply in_or_app; left; exact Hc|].
      apply in_or_app; right; right. apply in_app_or in Hc as [Hc|Hc]; apply in_or_app; [left; exact Hc|right; right; exact Hc].
  - destruct (merged_keeps a b c Em) as [Dc Ic].
    assert (Dcw : odeps c = [w]) by (rewrite Dc; exact Da).
    exists (l1 ++ c :: l2 ++ l3). repeat split.
    + rewrite (bring_together l1 a l2 b l3 w Db H2). symmetry. apply sl_merged. exact Hm.
    + assert (Hc : onw w c = true) by (rewrite (onw_single c w w Dcw); apply Nat.eqb_refl).
      rewrite wire_app, (wire_on_cons c _ w Hc), wire_app, H1, H2, H3. reflexivity.
    + intros v Hv. destruct (Wab v Hv) as [Fa Fb].
      assert (Fc : onw v c = false) by (rewrite (onw_single c w v Dcw); apply Nat.eqb_neq; exact Hv).
      rewrite !wire_app. rewrite (wire_off_cons a _ v Fa), (wire_off_cons c _ v Fc), !wire_app, (wire_off_cons b _ v Fb). reflexivity.
    + rewrite !map_app. simpl. rewrite map_app, Ic. exact ND1.
    + intros x Hx. apply in_app_or in Hx as [Hx|[<-|Hx]].
      * apply Hd. apply in_or_app; left; exact Hx.
      * rewrite Dcw. discriminate.
      * apply Hd. apply in_or_app; right; right. apply in_app_or in Hx as [Hx|Hx]; apply in_or_app; [left; exact Hx|right; right; exact Hx].
Qed.

(* the whole loop on wire w *)
Lemma wire_loop_sim w : forall fuel left right out, loopK fuel left right = Some out ->
  forall ls, Inv ls -> wireK ls w = rev left ++ right ->
  exists ls', sl ls' = sl ls /\ wireK ls' w = out /\ (forall v, v <> w -> wireK ls' v = wireK ls v) /\ Inv ls'.
Proof.
  induction fuel as [|fuel IH]; intros left right out H ls I E; [discriminate|].
  cbn [Model.wire_loop] in H.
  assert (Stop : forall r, Some (rev left ++ r) = Some out -> right = r ->
     exists ls', sl ls' = sl ls /\ wireK ls' w = out /\ (forall v, v <> w -> wireK ls' v = wireK ls v) /\ Inv ls').
  { intros r Hr ->. injection Hr as <-. exists ls. auto. }
  destruct right as [|a [|b rest_]]; [apply (Stop [] H eq_refl)|apply (Stop [a] H eq_refl)|]. clear Stop.
  assert (Skip : loopK fuel (a :: left) (b :: rest_) = Some out ->
     exists ls', sl ls' = sl ls /\ wireK ls' w = out /\ (forall v, v <> w -> wireK ls' v = wireK ls v) /\ Inv ls').
  { intros H'. apply (IH _ _ _ H' ls I). simpl. rewrite <- app_assoc. exact E. }
  destruct (mergeable a b) eqn:Mg; [|apply Skip; exact H].
  pose proof (lift_step w ls (rev left) a b rest_ I E Mg) as L.
  destruct (mergeK a b) as [| |c]; [apply Skip; exact H| |].
  - destruct L as (ls1 & S1 & W1 & O1 & I1).
    assert (Go : forall l' r', loopK fuel l' r' = Some out -> rev l' ++ r' = rev left ++ rest_ ->
       exists ls', sl ls' = sl ls /\ wireK ls' w = out /\ (forall v, v <> w -> wireK ls' v = wireK ls v) /\ Inv ls').
    { intros l' r' H' Eq. destruct (IH _ _ _ H' ls1 I1) as (ls2 & S2 & W2 & O2 & I2); [rewrite W1, Eq; reflexivity|].
      exists ls2. repeat split; [congruence|exact W2| |apply I2|apply I2].
      intros v Hv. rewrite (O2 v Hv). apply O1; exact Hv. }
    destruct left as [|l lsx]; [apply (Go [] rest_ H eq_refl)|apply (Go lsx (l :: rest_) H)].
    simpl. rewrite <- app_assoc. reflexivity.
  - destruct L as (ls1 & S1 & W1 & O1 & I1).
    assert (Go : forall l' r', loopK fuel l' r' = Some out -> rev l' ++ r' = rev left ++ c :: rest_ ->
       exists ls', sl ls' = sl ls /\ wireK ls' w = out /\ (forall v, v <> w -> wireK ls' v = wireK ls v) /\ Inv ls').
    { intros l' r' H' Eq. destruct (IH _ _ _ H' ls1 I1) as (ls2 & S2 & W2 & O2 & I2); [rewrite W1, Eq; reflexivity|].
      exists ls2. repeat split; [congruence|exact W2| |apply I2|apply I2].
      intros v Hv. rewrite (O2 v Hv). apply O1; exact Hv. }
    destruct left as [|l lsx]; [apply (Go [] (c :: rest_) H eq_refl)|apply (Go lsx (l :: c :: rest_) H)].
    simpl. rewrite <- app_assoc. reflexivity.
Qed.

Lemma opt_total q : exists out, optK q = Some out.
Proof.
  unfold optimize_wire. destruct (loopK (2 * length q + 2) [] q) as [out|] eqn:E; [exists out; reflexivity|].
  exfalso. apply (wire_loop_terminates kadd kmul kopp is_zero is_one (2 * length q + 2) [] q); [simpl; lia|exact E].
Qed.

(* every wire of a list of distinct wires, one after the other (the order is irrelevant) *)
Lemma all_wires : forall ws, NoDup ws -> forall ls, Inv ls ->
  exists ls', sl ls' = sl ls /\ Inv ls' /\ (forall w, In w ws -> optK (wireK ls w) = Some (wireK ls' w))
              /\ (forall v, ~ In v ws -> wireK ls' v = wireK ls v).
Proof.
  induction ws as [|w ws IH]; intros NDw ls I.
  - exists ls. split; [reflexivity|]. split; [exact I|]. split; [intros w []|reflexivity].
  - inversion NDw as [|? ? Hnot NDw']; subst.
    destruct (IH NDw' ls I) as (ls1 & S1 & I1 & Wd & Wo).
    destruct (opt_total (wireK ls w)) as [out Eo].
    assert (E1 : wireK ls1 w = wireK ls w) by (apply Wo; exact Hnot).
    unfold optimize_wire in Eo.
    destruct (wire_loop_sim w _ [] (wireK ls w) out Eo ls1 I1) as (ls2 & S2 & W2 & O2 & I2); [simpl; exact E1|].
    exists ls2. split; [congruence|]. split; [exact I2|]. split.
    + intros v [<-|Hv].
      * unfold optimize_wire. rewrite Eo, W2. reflexivity.
      * rewrite (Wd v Hv). f_equal. symmetry. apply O2. intros ->. apply Hnot; exact Hv.
    + intros v Hv. rewrite O2; [apply Wo; intros Hc; apply Hv; right; exact Hc|].
      intros ->. apply Hv; left; reflexivity.
Qed.

Lemma in_wire_iff ls c : odeps c <> [] -> (In c ls <-> exists w, In c (wireK ls w)).
Proof.
  intros Hd. split.
  - intros Hc. destruct (odeps c) as [|w t] eqn:E; [congruence|]. exists w. apply filter_In. split; [exact Hc|].
    unfold on_wire. rewrite E. simpl. rewrite Nat.eqb_refl. reflexivity.
  - intros [w Hw]. apply filter_In in Hw. tauto.
Qed.

Theorem optimize_circuit_sound ls out :
  NoDup (map oid ls) -> (forall c, In c ls -> odeps c <> []) ->
  NoDup out -> (forall c, In c out -> odeps c <> []) ->
  (forall w, optK (wireK ls w) = Some (wireK out w)) ->
  sl out = sl ls.
Proof.
  intros ND Hd NDo Hdo G.
  set (ws := nodup Nat.eq_dec (concat (map odeps ls))).
  destruct (all_wires ws (NoDup_nodup _ _) ls (conj ND Hd)) as (ls' & S & [ND' Hd'] & Wd & Wo).
  assert (Wall : forall w, wireK out w = wireK ls' w).
  { intros w. destruct (in_dec Nat.eq_dec w ws) as [Hin|Hout].
    - pose proof (Wd w Hin) as E. rewrite (G w) in E. injection E as E. exact E.
    - assert (Enil : wireK ls w = []).
      { apply (wire_nil_iff OP odeps). intros c Hc. unfold on_wire. destruct (memb w (odeps c)) eqn:Mb; [|reflexivity].
        exfalso. apply Hout. unfold ws. apply nodup_In. apply in_concat. exists (odeps c). split; [apply in_map; exact Hc|].
        apply memb_In. exact Mb. }
      rewrite (Wo w Hout), Enil. pose proof (G w) as E. rewrite Enil in E. cbv in E. injection E as E. symmetry. exact E. }
  rewrite <- S. symmetry. apply (sweq_sem OP odeps M mul e mul_assoc sem commute).
  assert (NDl : NoDup ls') by (apply (NoDup_map_inv oid); exact ND').
  apply wire_equiv_sweq; [exact NDl|]. split; [|exact Wall].
  apply NoDup_Permutation; [exact NDl|exact NDo|]. intros x. split; intros Hx.
  - apply (in_wire_iff out x); [|destruct (proj1 (in_wire_iff ls' x (Hd' x Hx)) Hx) as [w Hw]; exists w; rewrite Wall; exact Hw].
    apply Hd'; exact Hx.
  - apply (in_wire_iff ls' x); [|destruct (proj1 (in_wire_iff out x (Hdo x Hx)) Hx) as [w Hw]; exists w; rewrite <- Wall; exact Hw].
    apply Hdo; exact Hx.
Qed.
End Global.
