(* C03 model: Operation.merge for the single-mode families the optimiser can merge, and optimize_circuit's
   per-wire merging loop (program_utils.py).  Definitions only; executed at Q for the correspondence. *)
From Coq Require Import List Arith Bool ZArith QArith.
Import ListNotations.
From SFV Require Import Base.Reorder.

Local Open Scope nat_scope.
Inductive kind := KGate | KChannel | KPrep | KFourier | KOther.
(* KFourier: Fouriergate after the fix (no free parameter: merges only with its inverse);
   KOther: measurements, MSgate, multi-parameter things the optimiser must never merge *)

Record op (K : Type) := mkOp {
  okind : kind; fam : nat; p0 : K; rest : list Z; dag : bool;
  ons : nat; oregs : list nat; odeps : list nat; oid : nat }.
Arguments mkOp {K}. Arguments okind {K}. Arguments fam {K}. Arguments p0 {K}. Arguments rest {K}. Arguments dag {K}.
Arguments ons {K}. Arguments oregs {K}. Arguments odeps {K}. Arguments oid {K}.

Inductive mres (K : Type) := MFail | MIdent | MMerged (c : op K).
Arguments MFail {K}. Arguments MIdent {K}. Arguments MMerged {K}.

Fixpoint zlist_eqb (l1 l2 : list Z) : bool :=
  match l1, l2 with [], [] => true | x :: t1, y :: t2 => Z.eqb x y && zlist_eqb t1 t2 | _, _ => false end.
Fixpoint nlist_eqb (l1 l2 : list nat) : bool :=
  match l1, l2 with [], [] => true | x :: t1, y :: t2 => Nat.eqb x y && nlist_eqb t1 t2 | _, _ => false end.
Definition kind_eqb (a b : kind) : bool :=
  match a, b with KGate, KGate | KChannel, KChannel | KPrep, KPrep | KFourier, KFourier | KOther, KOther => true | _, _ => false end.

Section Merge.
Context {K : Type}.
Variables (kadd kmul : K -> K -> K) (kopp : K -> K) (is_zero is_one : K -> bool).

Definition with_p0 (a : op K) (x : K) : op K :=
  mkOp (okind a) (fam a) x (rest a) (dag a) (ons a) (oregs a) (odeps a) (oid a).

(* a.op.merge(b.op) : "b after a" *)
Definition merge (a b : op K) : mres K :=
  match okind a with
  | KGate =>
      if kind_eqb (okind b) KGate && Nat.eqb (fam a) (fam b) && zlist_eqb (rest a) (rest b) then
        let t := if Bool.eqb (dag a) (dag b) then p0 b else kopp (p0 b) in
        let s := kadd (p0 a) t in
        if is_zero s then MIdent else MMerged (with_p0 a s)
      else MFail
  | KChannel =>
      if kind_eqb (okind b) KChannel && Nat.eqb (fam a) (fam b) && zlist_eqb (rest a) (rest b) then
        let t := kmul (p0 b) (p0 a) in
        if is_one t then MIdent else MMerged (with_p0 a t)
      else MFail
  | KPrep => if kind_eqb (okind b) KPrep then MMerged (mkOp (okind b) (fam b) (p0 b) (rest b) (dag b) (ons b) (oregs a) (odeps a) (oid a)) else MFail
  | KFourier => if kind_eqb (okind b) KFourier && negb (Bool.eqb (dag a) (dag b)) then MIdent else MFail
  | KOther => MFail
  end.

(* may the optimiser try to merge a and b (adjacent on a wire)? same size, same registers, single-mode,
   and (after the fix) neither command sits on another wire of the grid through a measured parameter *)
Definition mergeable (a b : op K) : bool :=
  Nat.eqb (ons a) (ons b) && nlist_eqb (oregs a) (oregs b) && Nat.eqb (ons a) 1
  && Nat.eqb (length (odeps a)) 1 && Nat.eqb (length (odeps b)) 1.

(* the while-loop over one wire as a zipper: left part reversed, right part; fuel bounds the steps *)
Fixpoint wire_loop (fuel : nat) (left right : list (op K)) : option (list (op K)) :=
  match fuel with
  | 0 => None
  | S fuel' =>
    match right with
    | a :: ((b :: rest_) as tl) =>
        if mergeable a b then
          match merge a b with
          | MFail => wire_loop fuel' (a :: left) tl
          | MIdent => match left with l :: ls => wire_loop fuel' ls (l :: rest_) | [] => wire_loop fuel' [] rest_ end
          | MMerged c => match left with l :: ls => wire_loop fuel' ls (l :: c :: rest_) | [] => wire_loop fuel' [] (c :: rest_) end
          end
        else wire_loop fuel' (a :: left) tl
    | _ => Some (rev left ++ right)
    end
  end.
Definition optimize_wire (q : list (op K)) : option (list (op K)) := wire_loop (2 * length q + 2) [] q.
End Merge.

(* executable instance at Q *)
Definition qzero (x : Q) : bool := Qeq_bool x 0%Q.
Definition qone (x : Q) : bool := Qeq_bool x 1%Q.
Definition mergeQ := @merge Q Qplus Qmult Qopp qzero qone.
Definition optimize_wireQ := @optimize_wire Q Qplus Qmult Qopp qzero qone.
Definition show (c : op Q) : nat * nat * (Z * Z) * list Z * bool * list nat :=
  (oid c, fam c, (Qnum (Qred (p0 c)), Zpos (Qden (Qred (p0 c)))), rest c, dag c, oregs c).
(* the whole grid: each wire's optimised list *)
Definition optimize_gridQ (ls : list (op Q)) (wires : list nat) : list (nat * option (list (nat * nat * (Z * Z) * list Z * bool * list nat))) :=
  map (fun w => (w, option_map (map show) (optimize_wireQ (wire (op Q) odeps ls w)))) wires.
