From Coq Require Import List Arith Bool ZArith Lia Ring.
Import ListNotations.
From SFV Require Import Base.Reorder C03.Model.

Section Sound.
Context {K : Type}.
Variables (kadd kmul : K -> K -> K) (kopp : K -> K) (is_zero is_one : K -> bool).
(* semantics in an arbitrary monoid (composition of physical maps; later command on the left) *)
Variable M : Type.
Variables (mul : M -> M -> M) (e : M).
Hypothesis mul_assoc : forall x y z, mul x (mul y z) = mul (mul x y) z.
Hypothesis mul_e_l : forall x, mul e x = x.
Hypothesis mul_e_r : forall x, mul x e = x.
Variable sem : op K -> M.

Notation merge := (merge kadd kmul kopp is_zero is_one).
Notation wire_loop := (wire_loop kadd kmul kopp is_zero is_one).
Notation optimize_wire := (optimize_wire kadd kmul kopp is_zero is_one).

Fixpoint sem_seq (l : list (op K)) : M := match l with [] => e | a :: t => mul (sem_seq t) (sem a) end.

Lemma sem_seq_app l1 l2 : sem_seq (l1 ++ l2) = mul (sem_seq l2) (sem_seq l1).
Proof.
  induction l1 as [|a l1 IH]; simpl; [rewrite mul_e_r; reflexivity|].
  rewrite IH, mul_assoc. reflexivity.
Qed.

(* what Operation.merge promises: the merged operation is "other * self", None is the identity *)
Definition merge_sound : Prop := forall a b, mergeable a b = true ->
  match merge a b with
  | MFail => True
  | MIdent => mul (sem b) (sem a) = e
  | MMerged c => sem c = mul (sem b) (sem a)
  end.

Lemma seq_ident X a b rest_ : mul (sem b) (sem a) = e -> sem_seq (X ++ a :: b :: rest_) = sem_seq (X ++ rest_).
Proof. intros Hm. rewrite !sem_seq_app. simpl. rewrite <- (mul_assoc (sem_seq rest_)), Hm, mul_e_r. reflexivity. Qed.
Lemma seq_merged X a b c rest_ : sem c = mul (sem b) (sem a) -> sem_seq (X ++ a :: b :: rest_) = sem_seq (X ++ c :: rest_).
Proof. intros Hm. rewrite !sem_seq_app. simpl. rewrite Hm, mul_assoc. reflexivity. Qed.

Theorem wire_loop_sound : merge_sound -> forall fuel left right out,
  wire_loop fuel left right = Some out -> sem_seq out = sem_seq (rev left ++ right).
Proof.
  intros MS fuel. induction fuel as [|fuel IH]; intros left right out H; [discriminate|].
  cbn [Model.wire_loop] in H.
  destruct right as [|a [|b rest_]]; try (injection H as <-; reflexivity).
  destruct (mergeable a b) eqn:Mg.
  - pose proof (MS a b Mg) as Hm. destruct (merge a b) as [| |c].
    + apply IH in H. rewrite H. simpl. rewrite <- app_assoc. reflexivity.
    + destruct left as [|l ls]; apply IH in H; rewrite H.
      * symmetry. apply (seq_ident [] a b rest_ Hm).
      * simpl. rewrite (seq_ident (rev ls ++ [l]) a b rest_ Hm). rewrite <- app_assoc. reflexivity.
    + destruct left as [|l ls]; apply IH in H; rewrite H.
      * symmetry. apply (seq_merged [] a b c rest_ Hm).
      * simpl. rewrite (seq_merged (rev ls ++ [l]) a b c rest_ Hm). rewrite <- app_assoc. reflexivity.
  - apply IH in H. rewrite H. simpl. rewrite <- app_assoc. reflexivity.
Qed.

Theorem wire_loop_terminates fuel left right :
  2 * length right + length left < fuel -> wire_loop fuel left right <> None.
Proof.
  revert left right. induction fuel as [|fuel IH]; intros left right Hf; [lia|].
  cbn [Model.wire_loop]. destruct right as [|a [|b rest_]]; try discriminate.
  destruct (mergeable a b).
  - destruct (merge a b) as [| |c].
    + apply IH. simpl in *. lia.
    + destruct left as [|l ls]; apply IH; simpl in *; lia.
    + destruct left as [|l ls]; apply IH; simpl in *; lia.
  - apply IH. simpl in *. lia.
Qed.

(* the optimiser's per-wire loop always finishes and preserves the composition *)
Theorem optimize_wire_sound : merge_sound -> forall q,
  exists out, optimize_wire q = Some out /\ sem_seq out = sem_seq q.
Proof.
  intros MS q. unfold Model.optimize_wire.
  destruct (wire_loop (2 * length q + 2) [] q) as [out|] eqn:E.
  - exists out. split; [reflexivity|]. apply (wire_loop_sound MS) in E. exact E.
  - exfalso. apply (wire_loop_terminates (2 * length q + 2) [] q); [simpl; lia|exact E].
Qed.

(* ---- merge soundness from the algebraic laws of the families ---- *)
Variables (k0 k1 : K) (ksub : K -> K -> K).
Hypothesis Kring : ring_theory k0 k1 kadd kmul ksub kopp (@eq K).
Add Ring Kr : Kring.
Hypothesis is_zero_spec : forall x, is_zero x = true -> x = k0.
Hypothesis is_one_spec : forall x, is_one x = true -> x = k1.

(* a gate family is a one-parameter group in its first parameter; channels are a semigroup under the
   product of first parameters; a preparation absorbs whatever came before on the same mode *)
Variable gsem : nat -> list Z -> list nat -> K -> M.
Variable csem : nat -> list Z -> list nat -> K -> M.
Hypothesis gate_sem : forall a, okind a = KGate -> sem a = gsem (fam a) (rest a) (oregs a) (if dag a then kopp (p0 a) else p0 a).
Hypothesis gate_law : forall f r m x y, gsem f r m (kadd x y) = mul (gsem f r m y) (gsem f r m x).
Hypothesis gate_zero : forall f r m, gsem f r m k0 = e.
Hypothesis chan_sem : forall a, okind a = KChannel -> sem a = csem (fam a) (rest a) (oregs a) (p0 a).
Hypothesis chan_law : forall f r m x y, csem f r m (kmul y x) = mul (csem f r m y) (csem f r m x).
Hypothesis chan_one : forall f r m, csem f r m k1 = e.
Hypothesis prep_absorbs : forall a b, okind b = KPrep -> oregs a = oregs b -> mul (sem b) (sem a) = sem b.
Hypothesis prep_sem_ext : forall b b', okind b = KPrep -> okind b' = KPrep -> fam b = fam b' -> p0 b = p0 b' -> rest b = rest b' ->
  oregs b = oregs b' -> sem b = sem b'.
Hypothesis fourier_inverse : forall a b, okind a = KFourier -> okind b = KFourier -> oregs a = oregs b -> dag a <> dag b ->
  mul (sem b) (sem a) = e.

Lemma zlist_eqb_eq l1 l2 : zlist_eqb l1 l2 = true -> l1 = l2.
Proof.
  revert l2; induction l1 as [|x l1 IH]; intros [|y l2] H; simpl in H; try discriminate; auto.
  apply andb_prop in H as [H1 H2]. apply Z.eqb_eq in H1. f_equal; auto.
Qed.
Lemma nlist_eqb_eq l1 l2 : nlist_eqb l1 l2 = true -> l1 = l2.
Proof.
  revert l2; induction l1 as [|x l1 IH]; intros [|y l2] H; simpl in H; try discriminate; auto.
  apply andb_prop in H as [H1 H2]. apply Nat.eqb_eq in H1. f_equal; auto.
Qed.
Lemma kind_eqb_eq a b : kind_eqb a b = true -> a = b.
Proof. destruct a, b; simpl; intros; try discriminate; reflexivity. Qed.

Theorem merge_sound_from_laws : merge_sound.
Proof.
  intros a b Mg. unfold mergeable in Mg.
  repeat match goal with H : _ && _ = true |- _ => apply andb_prop in H as [? ?] end.
  match goal with H : nlist_eqb _ _ = true |- _ => apply nlist_eqb_eq in H; rename H into Hregs end.
  unfold Model.merge. destruct (okind a) eqn:Ka.
  - (* gates *)
    destruct (kind_eqb (okind b) KGate && Nat.eqb (fam a) (fam b) && zlist_eqb (rest a) (rest b)) eqn:C; [|exact I].
    repeat match goal with H : _ && _ = true |- _ => apply andb_prop in H as [? ?] end.
    match goal with H : kind_eqb _ _ = true |- _ => apply kind_eqb_eq in H; rename H into Kb end.
    match goal with H : Nat.eqb (fam a) _ = true |- _ => apply Nat.eqb_eq in H; rename H into Hf end.
    match goal with H : zlist_eqb _ _ = true |- _ => apply zlist_eqb_eq in H; rename H into Hr end.
    rewrite (gate_sem a Ka), (gate_sem b Kb), <- Hf, <- Hr, <- Hregs.
    destruct (is_zero _) eqn:Z.
    + apply is_zero_spec in Z. rewrite <- gate_law.
      destruct (dag a), (dag b); simpl in *.
      * assert (E : kadd (kopp (p0 a)) (kopp (p0 b)) = k0) by (transitivity (kopp (kadd (p0 a) (p0 b))); [ring | rewrite Z; ring]).
        rewrite E. apply gate_zero.
      * assert (E : kadd (kopp (p0 a)) (p0 b) = k0) by (transitivity (kopp (kadd (p0 a) (kopp (p0 b)))); [ring | rewrite Z; ring]).
        rewrite E. apply gate_zero.
      * rewrite Z. apply gate_zero.
      * rewrite Z. apply gate_zero.
    + rewrite gate_sem by exact Ka. cbn [fam rest oregs dag p0 with_p0]. rewrite <- gate_law.
      destruct (dag a), (dag b); simpl; try reflexivity; f_equal; ring.
  - (* channels *)
    destruct (kind_eqb (okind b) KChannel && Nat.eqb (fam a) (fam b) && zlist_eqb (rest a) (rest b)) eqn:C; [|exact I].
    repeat match goal with H : _ && _ = true |- _ => apply andb_prop in H as [? ?] end.
    match goal with H : kind_eqb _ _ = true |- _ => apply kind_eqb_eq in H; rename H into Kb end.
    match goal with H : Nat.eqb (fam a) _ = true |- _ => apply Nat.eqb_eq in H; rename H into Hf end.
    match goal with H : zlist_eqb _ _ = true |- _ => apply zlist_eqb_eq in H; rename H into Hr end.
    rewrite (chan_sem a Ka), (chan_sem b Kb), <- Hf, <- Hr, <- Hregs, <- chan_law.
    destruct (is_one _) eqn:Z.
    + apply is_one_spec in Z. rewrite Z. apply chan_one.
    + rewrite chan_sem by exact Ka. reflexivity.
  - (* preparations *)
    destruct (kind_eqb (okind b) KPrep) eqn:Kb; [|exact I]. apply kind_eqb_eq in Kb.
    rewrite (prep_absorbs a b Kb Hregs). apply prep_sem_ext; simpl; auto.
  - (* Fourier *)
    destruct (kind_eqb (okind b) KFourier && negb (Bool.eqb (dag a) (dag b))) eqn:C; [|exact I].
    apply andb_prop in C as [Kb D]. apply kind_eqb_eq in Kb.
    apply fourier_inverse; auto. intros E. rewrite E in D. rewrite eqb_reflx in D. discriminate.
  - exact I.
Qed.
End Sound.
