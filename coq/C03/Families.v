(* The single-mode Gaussian families the optimiser merges really are one-parameter (semi)groups:
   2x2 symplectic-affine maps over any commutative ring, trigonometric / hyperbolic values entering
   only through their addition formulas. *)
From Coq Require Import Ring.

Section Fam.
Variable K : Type.
Variables (k0 k1 : K) (kadd kmul ksub : K -> K -> K) (kopp : K -> K).
Hypothesis Kring : ring_theory k0 k1 kadd kmul ksub kopp (@eq K).
Add Ring Kr : Kring.
Notation "x + y" := (kadd x y). Notation "x * y" := (kmul x y). Notation "x - y" := (ksub x y). Notation "- x" := (kopp x).

(* x -> S x + d on the (x, p) quadratures of one mode *)
Record aff := mkAff { m11 : K; m12 : K; m21 : K; m22 : K; d1 : K; d2 : K }.
(* [comp B A] : first A then B *)
Definition comp (B A : aff) : aff :=
  mkAff (m11 B * m11 A + m12 B * m21 A) (m11 B * m12 A + m12 B * m22 A)
        (m21 B * m11 A + m22 B * m21 A) (m21 B * m12 A + m22 B * m22 A)
        (m11 B * d1 A + m12 B * d2 A + d1 B) (m21 B * d1 A + m22 B * d2 A + d2 B).
Definition aid : aff := mkAff k1 k0 k0 k1 k0 k0.

Lemma aff_eq a b : m11 a = m11 b -> m12 a = m12 b -> m21 a = m21 b -> m22 a = m22 b -> d1 a = d1 b -> d2 a = d2 b -> a = b.
Proof. destruct a, b; simpl; intros; subst; reflexivity. Qed.
Ltac aff := apply aff_eq; simpl; try ring.

Lemma comp_assoc x y z : comp x (comp y z) = comp (comp x y) z.  Proof. aff. Qed.
Lemma comp_id_l x : comp aid x = x.  Proof. destruct x; aff. Qed.
Lemma comp_id_r x : comp x aid = x.  Proof. destruct x; aff. Qed.

Definition rot (c s : K) : aff := mkAff c (- s) s c k0 k0.
Definition sq (cp sp sh ch : K) : aff := mkAff (ch - cp * sh) (- (sp * sh)) (- (sp * sh)) (ch + cp * sh) k0 k0.
Definition disp (er ei r : K) : aff := mkAff k1 k0 k0 k1 ((k1 + k1) * (r * er)) ((k1 + k1) * (r * ei)).
Definition xshift (x : K) : aff := mkAff k1 k0 k0 k1 x k0.
Definition zshift (p : K) : aff := mkAff k1 k0 k0 k1 k0 p.
Definition pgate (s : K) : aff := mkAff k1 k0 s k1 k0 k0.

(* Rgate: R(a) then R(b) is R(a + b), with cos/sin of the sum given by the addition formulas *)
Theorem rot_law ca sa cb sb : comp (rot cb sb) (rot ca sa) = rot (ca * cb - sa * sb) (sa * cb + ca * sb).
Proof. unfold rot; aff. Qed.
Theorem rot_zero : rot k1 k0 = aid.  Proof. unfold rot, aid; aff. Qed.
Theorem rot_inverse c s : c * c + s * s = k1 -> comp (rot c (- s)) (rot c s) = aid.
Proof. intros H. unfold rot, aid; aff; rewrite <- H; ring. Qed.

(* Sgate at a fixed phase: S(r1, phi) then S(r2, phi) is S(r1 + r2, phi) *)
Theorem sq_law cp sp sh1 ch1 sh2 ch2 : cp * cp + sp * sp = k1 ->
  comp (sq cp sp sh2 ch2) (sq cp sp sh1 ch1) = sq cp sp (sh1 * ch2 + ch1 * sh2) (ch1 * ch2 + sh1 * sh2).
Proof.
  intros H. unfold sq; aff.
  - transitivity (ch2 * ch1 - cp * sh2 * ch1 - cp * sh1 * ch2 + (cp * cp + sp * sp) * (sh2 * sh1)); [ring|rewrite H; ring].
  - transitivity (ch2 * ch1 + cp * sh2 * ch1 + cp * sh1 * ch2 + (cp * cp + sp * sp) * (sh2 * sh1)); [ring|rewrite H; ring].
Qed.
Theorem sq_zero cp sp : sq cp sp k0 k1 = aid.  Proof. unfold sq, aid; aff. Qed.

(* Dgate at a fixed phase, Xgate, Zgate, Pgate *)
Theorem disp_law er ei r1 r2 : comp (disp er ei r2) (disp er ei r1) = disp er ei (r1 + r2).  Proof. unfold disp; aff. Qed.
Theorem disp_zero er ei : disp er ei k0 = aid.  Proof. unfold disp, aid; aff. Qed.
Theorem xshift_law a b : comp (xshift b) (xshift a) = xshift (a + b).  Proof. unfold xshift; aff. Qed.
Theorem zshift_law a b : comp (zshift b) (zshift a) = zshift (a + b).  Proof. unfold zshift; aff. Qed.
Theorem pgate_law a b : comp (pgate b) (pgate a) = pgate (a + b).  Proof. unfold pgate; aff. Qed.
Theorem pgate_zero : pgate k0 = aid.  Proof. unfold pgate, aid; aff. Qed.

(* The Fourier gate F = R(pi/2) = rot 0 1 is NOT idempotent-mergeable: F.F = R(pi) <> F (in any ring where 1 <> 0),
   which is why two Fouriergates must not be merged into one Fouriergate. *)
Theorem fourier_not_mergeable : k1 <> k0 -> comp (rot k0 k1) (rot k0 k1) <> rot k0 k1.
Proof.
  intros Hne E. apply (f_equal m21) in E. simpl in E.
  apply Hne. transitivity (k1 * k0 + k0 * k1); [symmetry; exact E|ring].
Qed.
Theorem fourier_inverse_pair : comp (rot k0 (- k1)) (rot k0 k1) = aid.
Proof. unfold rot, aid; aff. Qed.

(* single-mode isotropic Gaussian channels  V -> x^2 V + y,  r -> x r :  (x, y) *)
Record chan := mkChan { cx : K; cy : K }.
Definition ccomp (B A : chan) : chan := mkChan (cx B * cx A) (cx B * cx B * cy A + cy B).
Definition loss_chan (q T : K) : chan := mkChan q (k1 - T).
Definition thermal_chan (q T nb : K) : chan := mkChan q ((k1 - T) * ((k1 + k1) * nb + k1)).
(* q1 = sqrt T1, q2 = sqrt T2, so q1 q2 = sqrt (T1 T2) *)
Theorem loss_law q1 T1 q2 T2 : q2 * q2 = T2 -> ccomp (loss_chan q2 T2) (loss_chan q1 T1) = loss_chan (q2 * q1) (T2 * T1).
Proof. intros H. unfold ccomp, loss_chan; simpl. f_equal. rewrite H. ring. Qed.
Theorem thermal_law q1 T1 q2 T2 nb : q2 * q2 = T2 ->
  ccomp (thermal_chan q2 T2 nb) (thermal_chan q1 T1 nb) = thermal_chan (q2 * q1) (T2 * T1) nb.
Proof. intros H. unfold ccomp, thermal_chan; simpl. f_equal. rewrite H. ring. Qed.
End Fam.
