(* C15 — physical predictions are independent of the hbar convention.
   Only statements, closed by `exact`, each followed by its axiom audit; Examples show the hypotheses
   are satisfiable.  Conventions: an [hctx] c carries hb = sf.hbar, sh2 = np.sqrt(hbar/2),
   sq2h = np.sqrt(2*hbar); [good] are the identities sqrt satisfies; two conventions c, c' are related
   by the length scale lam = sh2 c' / sh2 c = sqrt(hbar'/hbar); [rescale lam] rewrites a program's
   dimensionful parameters in the other convention (x, p, select, means: *lam; covariances: *lam^2;
   cubic-phase gamma: /lam). *)
From Coq Require Import List Bool Arith Field QArith Qcanon.
From Coq Require Import Reals.
From SFV Require Import C15.Model C15.Proofs C15.Main C15.Instances C15.RealInst.

(* For every hbar-free backend, EVERY program (X/Z/V gates with and without .H, Gaussian preparations direct and
   decomposed, homodyne with and without post-selection, single-shot MSgate, any hbar-free operation), every
   initial backend state and every sequence of random draws: the rescaled program at hbar' drives the backend into
   the SAME internal state as the original at hbar, and every measured quadrature value (homodyne outcomes and
   MSgate ancilla values) is multiplied by lam. *)
Theorem C15_program_invariant :
  forall (K : Type) (F : Fld K),
    field_theory (f0 F) (f1 F) (fadd F) (fmul F) (fsub F) (fopp F) (fdiv F) (finv F) (@eq K) ->
    two F <> f0 F -> (forall x, fisz F x = true <-> x = f0 F) ->
  forall (c c' : hctx K) (lam : K), good F c -> good F c' -> sh2 c' = fmul F lam (sh2 c) ->
  forall (B : Type) (halfpi : K) (gauss_id : nat) (bk : backend B) (p : list op) (b : B) (ds : list K),
    run F B halfpi gauss_id c' bk (map (rescale F lam) p) b ds
    = (fst (run F B halfpi gauss_id c bk p b ds),
       map (scale_outcome F lam) (snd (run F B halfpi gauss_id c bk p b ds))).
Proof. exact (@main_program). Qed.
Print Assumptions C15_program_invariant.

(* Quadrature means of the final state object scale by lam = sqrt(hbar'/hbar), for every program. *)
Theorem C15_means_scale :
  forall (K : Type) (F : Fld K),
    field_theory (f0 F) (f1 F) (fadd F) (fmul F) (fsub F) (fopp F) (fdiv F) (finv F) (@eq K) ->
    two F <> f0 F -> (forall x, fisz F x = true <-> x = f0 F) ->
  forall (c c' : hctx K) (lam : K), good F c -> good F c' -> sh2 c' = fmul F lam (sh2 c) ->
  forall (B : Type) (halfpi : K) (gauss_id : nat) (bk : backend B) (bk_means : B -> list K)
         (p : list op) (b : B) (ds : list K),
    state_means F c' (bk_means (fst (run F B halfpi gauss_id c' bk (map (rescale F lam) p) b ds)))
    = map (fun v => fmul F lam v) (state_means F c (bk_means (fst (run F B halfpi gauss_id c bk p b ds)))).
Proof. exact (@main_means_scale). Qed.
Print Assumptions C15_means_scale.

(* Covariances scale by hbar'/hbar (= lam^2), for every program. *)
Theorem C15_cov_scale :
  forall (K : Type) (F : Fld K),
    field_theory (f0 F) (f1 F) (fadd F) (fmul F) (fsub F) (fopp F) (fdiv F) (finv F) (@eq K) ->
    two F <> f0 F -> (forall x, fisz F x = true <-> x = f0 F) ->
  forall (c c' : hctx K) (lam : K), good F c -> good F c' -> sh2 c' = fmul F lam (sh2 c) ->
  forall (B : Type) (halfpi : K) (gauss_id : nat) (bk : backend B) (bk_cov : B -> list (list K))
         (p : list op) (b : B) (ds : list K),
    state_cov F c' (bk_cov (fst (run F B halfpi gauss_id c' bk (map (rescale F lam) p) b ds)))
    = map (map (fun v => fmul F (fdiv F (hb c') (hb c)) v))
          (state_cov F c (bk_cov (fst (run F B halfpi gauss_id c bk p b ds)))).
Proof. exact (@main_cov_scale). Qed.
Print Assumptions C15_cov_scale.

Theorem C15_hbar_ratio :
  forall (K : Type) (F : Fld K),
    field_theory (f0 F) (f1 F) (fadd F) (fmul F) (fsub F) (fopp F) (fdiv F) (finv F) (@eq K) ->
    two F <> f0 F ->
  forall (c c' : hctx K) (lam : K), good F c -> good F c' -> sh2 c' = fmul F lam (sh2 c) ->
    fdiv F (hb c') (hb c) = fmul F lam lam.
Proof. exact (@main_hbar_ratio). Qed.
Print Assumptions C15_hbar_ratio.

(* State-object formulas that divide hbar back out are hbar-free: mean photon number and its variance,
   the complex displacement, cov/(hbar/2), and both factors of the fidelity with a coherent state. *)
Theorem C15_dimensionless :
  forall (K : Type) (F : Fld K),
    field_theory (f0 F) (f1 F) (fadd F) (fmul F) (fsub F) (fopp F) (fdiv F) (finv F) (@eq K) ->
    two F <> f0 F ->
  forall (c c' : hctx K) (lam : K), good F c -> good F c' -> sh2 c' = fmul F lam (sh2 c) ->
  forall x p vxx vxp vpp ar ai : K,
  let m := fmul F in
  mean_photon_mean F c' (m lam x) (m lam p) (m (m lam lam) vxx) (m (m lam lam) vpp) = mean_photon_mean F c x p vxx vpp
  /\ mean_photon_var F c' (m lam x) (m lam p) (m (m lam lam) vxx) (m (m lam lam) vxp) (m (m lam lam) vpp)
     = mean_photon_var F c x p vxx vxp vpp
  /\ st_alpha F c' (m lam x) = st_alpha F c x
  /\ st_dimless_cov F c' (m (m lam lam) vxx) = st_dimless_cov F c vxx
  /\ (fid_det F c vxx vxp vpp <> f0 F ->
      fid_prefsq F c' (m (m lam lam) vxx) (m (m lam lam) vxp) (m (m lam lam) vpp) = fid_prefsq F c vxx vxp vpp
      /\ fid_expo F c' ar ai (m lam x) (m lam p) (m (m lam lam) vxx) (m (m lam lam) vxp) (m (m lam lam) vpp)
         = fid_expo F c ar ai x p vxx vxp vpp).
Proof. exact (@main_dimensionless). Qed.
Print Assumptions C15_dimensionless.

(* Quadrature-valued observables scale: state means/cov, quad_expectation (Gaussian and Fock, any cutoff),
   Wigner-function arguments and normalisation, utils.states outputs, homodyne results. *)
Theorem C15_quadratures_scale :
  forall (K : Type) (F : Fld K),
    field_theory (f0 F) (f1 F) (fadd F) (fmul F) (fsub F) (fopp F) (fdiv F) (finv F) (@eq K) ->
    two F <> f0 F ->
  forall (c c' : hctx K) (lam : K), good F c -> good F c' -> sh2 c' = fmul F lam (sh2 c) ->
  forall (cphi sphi x p vxx vxp vpp : K) (l : list (K * K * K)) (Q w a e : K),
  let m := fmul F in
  st_mu F c' x = m lam (st_mu F c x)
  /\ st_cov F c' vxx = m (fdiv F (hb c') (hb c)) (st_cov F c vxx)
  /\ quad_mean F cphi sphi (m lam x) (m lam p) = m lam (quad_mean F cphi sphi x p)
  /\ quad_var F cphi sphi (m (m lam lam) vxx) (m (m lam lam) vxp) (m (m lam lam) vpp) = m (m lam lam) (quad_var F cphi sphi vxx vxp vpp)
  /\ fock_quad_mean F c' cphi sphi l = m lam (fock_quad_mean F c cphi sphi l)
  /\ fock_quad_var F c' cphi sphi l Q = m (m lam lam) (fock_quad_var F c cphi sphi l Q)
  /\ wigner_A F c' (m lam x) = wigner_A F c x
  /\ m (m lam lam) (wigner_out F c' w) = wigner_out F c w
  /\ util_mean F c' a = m lam (util_mean F c a)
  /\ util_cov F c' e = m (m lam lam) (util_cov F c e)
  /\ homodyne_result F c' w = m lam (homodyne_result F c w).
Proof. exact (@main_quadratures). Qed.
Print Assumptions C15_quadratures_scale.

(* Every hbar-dependent front-end parameter reaches the backend as the same hbar-free number. *)
Theorem C15_frontend_arguments_invariant :
  forall (K : Type) (F : Fld K),
    field_theory (f0 F) (f1 F) (fadd F) (fmul F) (fsub F) (fopp F) (fdiv F) (finv F) (@eq K) ->
    two F <> f0 F ->
  forall (c c' : hctx K) (lam : K), good F c -> good F c' -> sh2 c' = fmul F lam (sh2 c) ->
  forall x g sel csq : K,
  let m := fmul F in
  xgate_r F c' (m lam x) = xgate_r F c x
  /\ zgate_r F c' (m lam x) = zgate_r F c x
  /\ vgate_gamma F c' (fdiv F g lam) = vgate_gamma F c g
  /\ homodyne_internal F c' csq (m lam sel) = homodyne_internal F c csq sel
  /\ (forall V, gauss_V F c' (map (map (fun v => m (m lam lam) v)) V) = gauss_V F c V)
  /\ (forall r, gauss_r F c' (map (fun v => m lam v) r) = gauss_r F c r).
Proof. exact (@main_frontend_args). Qed.
Print Assumptions C15_frontend_arguments_invariant.

(* Re-use of operation objects: n applications of ONE Xgate / Vgate / post-selecting MeasureHomodyne object leave the
   object's stored parameter unchanged and hand the backend, at every application, the same hbar-free number as in
   the other convention (the conversion acts on a local copy). *)
Theorem C15_reapply_same_arguments :
  forall (K : Type) (F : Fld K),
    field_theory (f0 F) (f1 F) (fadd F) (fmul F) (fsub F) (fopp F) (fdiv F) (finv F) (@eq K) ->
    two F <> f0 F ->
  forall (c c' : hctx K) (lam : K), good F c -> good F c' -> sh2 c' = fmul F lam (sh2 c) ->
  forall (n : nat) (x g sel : K),
  let m := fmul F in
  op_apply_n (xgate_r F c') (m lam x) n = (m lam x, repeat (xgate_r F c x) n)
  /\ op_apply_n (vgate_gamma F c') (fdiv F g lam) n = (fdiv F g lam, repeat (vgate_gamma F c g) n)
  /\ op_apply_n (homodyne_select F c') (m lam sel) n = (m lam sel, repeat (homodyne_select F c sel) n).
Proof. exact (@main_reapply). Qed.
Print Assumptions C15_reapply_same_arguments.

(* In every single convention the documented units hold exactly: Xgate(x) shifts <x> by x, Zgate(p) shifts
   <p> by p, a post-selected homodyne reports the selected value, Gaussian(V, r) is read back as (V, r), the
   decomposed and the direct preparation displace identically, and the cubic phase gate handed to the
   hbar=2 Fock backend is exp(i g x^3 / (3 hbar)). *)
Theorem C15_units_exact :
  forall (K : Type) (F : Fld K),
    field_theory (f0 F) (f1 F) (fadd F) (fmul F) (fsub F) (fopp F) (fdiv F) (finv F) (@eq K) ->
    two F <> f0 F -> three F <> f0 F ->
  forall (c : hctx K), good F c ->
  forall x sel v mm u g csq : K, csq <> f0 F ->
  xgate_shift F c (two F) (f1 F) x = x
  /\ zgate_shift F c (two F) (f1 F) x = x
  /\ homodyne_roundtrip F c csq sel = sel
  /\ gauss_roundtrip_cov F c v = v
  /\ gauss_roundtrip_mean F c mm = mm
  /\ bk_disp_dx F (xgate_r F c u) (f1 F) = fdiv F u (sh2 c)
  /\ cubic_coeff F (vgate_gamma F c g) (two F) (f1 F) = cubic_coeff_doc F c g.
Proof. exact (@main_units_exact). Qed.
Print Assumptions C15_units_exact.

(* Bosonic (linear combination of Gaussians) state formulas: mean photon number for any number of weights,
   and the hbar**N prefactor of fidelity_coherent against the determinant it is divided by, for any N. *)
Theorem C15_bosonic_dimensionless :
  forall (K : Type) (F : Fld K),
    field_theory (f0 F) (f1 F) (fadd F) (fmul F) (fsub F) (fopp F) (fdiv F) (finv F) (@eq K) ->
    two F <> f0 F ->
  forall (c c' : hctx K) (lam : K), good F c -> good F c' -> sh2 c' = fmul F lam (sh2 c) ->
  forall (l : list (K * K * K)) (N : nat) (detsum : K),
  let m := fmul F in
  bos_mean_photon F c' (map (fun t => match t with (w, tr, dot) => (w, m (m lam lam) tr, m (m lam lam) dot) end) l)
  = bos_mean_photon F c l
  /\ (detsum <> f0 F -> bos_fid_prefsq F c' N (m (kpow F (m lam lam) (2 * N)) detsum) = bos_fid_prefsq F c N detsum).
Proof. exact (@main_bosonic). Qed.
Print Assumptions C15_bosonic_dimensionless.

(* Gaussian parity_expectation(modes) is hbar-free for EVERY subset of the modes (m = len(modes); detcov the
   determinant of the 2m x 2m reduced covariance matrix, which scales by lam^(4m)). *)
Theorem C15_parity_invariant :
  forall (K : Type) (F : Fld K),
    field_theory (f0 F) (f1 F) (fadd F) (fmul F) (fsub F) (fopp F) (fdiv F) (finv F) (@eq K) ->
    two F <> f0 F ->
  forall (c c' : hctx K) (lam : K), good F c -> good F c' -> sh2 c' = fmul F lam (sh2 c) ->
  forall (m : nat) (numsq detcov : K), detcov <> f0 F ->
    parity_sq F c' m numsq (fmul F (kpow F (fmul F lam lam) (2 * m)) detcov) = parity_sq F c m numsq detcov.
Proof. exact (@main_parity). Qed.
Print Assumptions C15_parity_invariant.

(* is_coherent / is_squeezed / squeezing leave the stored covariance of a one-mode state alone in every convention. *)
Theorem C15_is_coherent_store_unchanged :
  forall (K : Type) (c : hctx K) (cov : list (list K)), is_coherent_1mode_store c cov = cov.
Proof. exact (@main_is_coherent_store_unchanged). Qed.
Print Assumptions C15_is_coherent_store_unchanged.

(* ---- the behaviour before the fix: commits (kept as `*_old` definitions) is refuted ---- *)

(* parity with the determinant of the FULL covariance matrix on a proper subset (before 5603fbf) *)
Theorem C15_parity_subset_old_refuted :
  exists (c c' : hctx Qc) (lam : Qc) (N m : nat) (numsq detcov : Qc),
    good QcF c /\ good QcF c' /\ scaled QcF lam c c' /\ (m < N)%nat /\ detcov <> f0 QcF /\
    parity_sq_old QcF c' m numsq (fmul QcF (kpow QcF (fmul QcF lam lam) (2 * N)) detcov) <> parity_sq_old QcF c m numsq detcov.
Proof. exact parity_subset_old_not_invariant. Qed.
Print Assumptions C15_parity_subset_old_refuted.

(* MSgate(avg=False) returning ancillae_val / s (before 9dd729a): the value does not scale like a quadrature *)
Theorem C15_msgate_ancilla_old_refuted :
  exists (c c' : hctx Qc) (lam v : Qc), good QcF c /\ good QcF c' /\ scaled QcF lam c c' /\
    msgate_result_old QcF c' v <> fmul QcF lam (msgate_result_old QcF c v).
Proof. exact msgate_ancilla_old_not_scaled. Qed.
Print Assumptions C15_msgate_ancilla_old_refuted.

(* is_coherent / is_squeezed / squeezing dividing the stored covariance in place (before 0265ab6): harmless at
   hbar = 2, wrong at any other value *)
Theorem C15_is_coherent_store_old_refuted :
  (forall cov : list (list Qc), is_coherent_1mode_store_old QcF ctx2 cov = cov)
  /\ exists (c : hctx Qc) (cov : list (list Qc)), good QcF c /\ is_coherent_1mode_store_old QcF c cov <> cov.
Proof. exact (conj is_coherent_store_old_unchanged_hbar2 is_coherent_store_old_changed). Qed.
Print Assumptions C15_is_coherent_store_old_refuted.

(* Over the reals, with the real square root, the hypotheses of all theorems above hold for EVERY pair
   hbar, hbar' > 0, with lam = sqrt(hbar'/hbar).  (Uses the standard library's axioms of the reals.) *)
Theorem C15_real_context_good :
  forall h h' : R, (0 < h)%R -> (0 < h')%R ->
  field_theory (f0 RF) (f1 RF) (fadd RF) (fmul RF) (fsub RF) (fopp RF) (fdiv RF) (finv RF) (@eq R)
  /\ two RF <> f0 RF /\ three RF <> f0 RF /\ (forall x, fisz RF x = true <-> x = f0 RF)
  /\ good RF (real_ctx h) /\ good RF (real_ctx h')
  /\ sh2 (real_ctx h') = fmul RF (sqrt (h' / h)) (sh2 (real_ctx h)).
Proof. exact real_instance. Qed.
Print Assumptions C15_real_context_good.

(* hypotheses are satisfiable: exact rational conventions hbar = 2, 8, 1/2 *)
Example C15_hypotheses_satisfiable :
  field_theory (f0 QcF) (f1 QcF) (fadd QcF) (fmul QcF) (fsub QcF) (fopp QcF) (fdiv QcF) (finv QcF) (@eq Qc)
  /\ two QcF <> f0 QcF /\ three QcF <> f0 QcF /\ (forall x, fisz QcF x = true <-> x = f0 QcF)
  /\ good QcF ctx2 /\ good QcF ctx8 /\ good QcF ctx_half /\ sh2 ctx8 = fmul QcF (q 2) (sh2 ctx2).
Proof.
  exact (conj QcF_field (conj QcF_two (conj QcF_three (conj QcF_isz
        (conj good_ctx2 (conj good_ctx8 (conj good_ctx_half (proj1 scaled_2_8)))))))).
Qed.
