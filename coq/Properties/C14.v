(* C14 — Saving and loading a program preserves its meaning.
   Statements only, closed by `exact`, each followed by its axiom audit.

   The model (C14/Model.v) is the repository's half of serialisation at the level of Program <-> IR records:
   to_blackbird / from_blackbird / from_blackbird_to_tdm, to_xir / from_xir / from_xir_to_tdm, par_convert.
   `bb_roundtrip p = from_bb (to_bb p)`, `xir_roundtrip p = from_xir (to_xir p)`; equality of programs is equality of
   every command's class, parameters (numeric ids, arrays, strings, symbolic expressions over free / measured / TDM
   atoms), modes in order, dagger, select, dark_counts, plus num_subsystems, target, shots, cutoff_dim and the TDM
   data (N, arrays, shift).

   The faithful model falsifies the unrestricted statement (see the `_refuted` theorems, each replayed on the
   implementation and recorded in known_findings.d/C14.json); the round-trip theorems therefore carry the decidable
   hypotheses `bb_prog_ok` / `xir_prog_ok` (C14/Proofs.v).
   XIR (after the fixes 7f2422a, 22aac6e, 4f17b2d, 6d1a8e2): daggered gates, target, shots, cutoff_dim (plain and TDM),
   numeric / symbolic homodyne angles and select in TDM programs ARE covered by C14_xir_roundtrip; excluded remain
   Fouriergate and meta operations, symbolic or string gate parameters (non-TDM; in TDM anything but a bare loop
   variable), a TDM shift, free-parameter names starting with q, unused trailing modes.
   Blackbird: excluded are daggered gates (no syntax), Fouriergate / meta operations, symbolic gate parameters other
   than measured-only expressions or bare loop variables, options without a target, TDM programs with several
   bands or a shift, free-parameter names starting with q; C14_bb_roundtrip_iff shows these exclusions are exactly
   the programs on which the current Blackbird round trip is not the identity. *)
From Coq Require Import List ZArith Bool.
Import ListNotations.
From SFV Require Import C14.Model C14.Proofs C14.Refuted C14.Converse C14.Decl.

Theorem C14_bb_roundtrip : forall p : prog, bb_prog_ok p = true -> bb_roundtrip p = Ok p.
Proof. exact bb_roundtrip_ok. Qed.
Print Assumptions C14_bb_roundtrip.

Theorem C14_xir_roundtrip : forall p : prog, xir_prog_ok p = true -> xir_roundtrip p = Ok p.
Proof. exact xir_roundtrip_ok. Qed.
Print Assumptions C14_xir_roundtrip.

(* to_xir(add_decl=...): the declarations written next to the statements change neither the statement list nor what is
   loaded; gate declarations are duplicate-free and are exactly the applied non-measurement classes *)
Theorem C14_xir_add_decl_roundtrip :
  forall (add_decl : bool) (p : prog), xir_prog_ok p = true -> xir_roundtrip_opt add_decl p = Ok p.
Proof. exact xir_roundtrip_opt_ok. Qed.
Print Assumptions C14_xir_add_decl_roundtrip.

Theorem C14_xir_add_decl_same_statements :
  forall (add_decl : bool) (p : prog), xstmts (xprog_of (to_xir_opt add_decl p)) = xstmts (to_xir p).
Proof. exact xir_statements_same. Qed.
Print Assumptions C14_xir_add_decl_same_statements.

Theorem C14_xir_gate_declarations :
  forall p : prog,
    NoDup (map gname (xgate_decls (to_xir_opt true p)))
    /\ (forall c, In c (pcirc p) -> is_meas (cls c) = false -> In (cls c) (map gname (xgate_decls (to_xir_opt true p))))
    /\ (forall g, In g (xgate_decls (to_xir_opt true p)) -> exists c, In c (pcirc p) /\ cls c = gname g /\ is_meas (cls c) = false).
Proof. exact gate_decls_sound. Qed.
Print Assumptions C14_xir_gate_declarations.

(* the Blackbird hypotheses are also necessary: on well-formed programs (parameters are values a Program can hold;
   a Fouriergate carries its parameter) the current object-level round trip is the identity exactly on bb_prog_ok *)
Theorem C14_bb_roundtrip_iff :
  forall p : prog, wf_prog p = true -> (bb_roundtrip p = Ok p <-> bb_prog_ok p = true).
Proof. exact bb_roundtrip_iff. Qed.
Print Assumptions C14_bb_roundtrip_iff.

Example C14_wf_inhabited : wf_prog ex_bb = true /\ wf_prog ex_bb_tdm = true /\ wf_prog w_dagger = true /\ wf_prog w_fourier = true.
Proof. vm_compute. repeat split. Qed.

(* the hypotheses are inhabited by non-trivial programs (select, dark counts, measured expressions, arrays, options, TDM) *)
Example C14_bb_hyp_inhabited : bb_prog_ok ex_bb = true /\ bb_prog_ok ex_bb_tdm = true.
Proof. exact (conj ex_bb_ok ex_bb_tdm_ok). Qed.
Example C14_xir_hyp_inhabited : xir_prog_ok ex_xir = true /\ xir_prog_ok ex_xir_tdm = true.
Proof. exact (conj ex_xir_ok ex_xir_tdm_ok). Qed.

(* ---- what the current writers / readers can never preserve (for every program) *)

Theorem C14_bb_dagger_never_survives :
  forall p p', bb_roundtrip p = Ok p' -> forall c, In c (pcirc p') -> dag c = false.
Proof. exact bb_dagger_never_survives. Qed.
Print Assumptions C14_bb_dagger_never_survives.





Theorem C14_bb_options_need_target :
  forall p p', bb_roundtrip p = Ok p' -> ptarget p = None -> pshots p' = None /\ pcutoff p' = None.
Proof. exact bb_options_need_target. Qed.
Print Assumptions C14_bb_options_need_target.

Theorem C14_bb_tdm_N_collapses :
  forall p p' t', bb_roundtrip p = Ok p' -> ptdm p' = Some t' -> tN t' = [pn p'] /\ tshift t' = None.
Proof. exact bb_tdm_N_collapses. Qed.
Print Assumptions C14_bb_tdm_N_collapses.



Theorem C14_xir_tdm_shift_never_survives :
  forall p p', xir_roundtrip p = Ok p' -> forall t', ptdm p' = Some t' -> tshift t' = None.
Proof. exact xir_tdm_shift_never_survives. Qed.
Print Assumptions C14_xir_tdm_shift_never_survives.

(* ---- refutations of the unrestricted round trip: concrete witnesses (known findings) *)

Theorem C14_bb_dagger_refuted :
  exists p p', bb_roundtrip p = Ok p' /\ xir_roundtrip p = Ok p /\ p' <> p.
Proof. exact bb_dagger_refuted_stmt. Qed.
Print Assumptions C14_bb_dagger_refuted.





Theorem C14_bb_options_refuted :
  exists p, pshots p <> None /\ xir_roundtrip p = Ok p /\ exists p', bb_roundtrip p = Ok p' /\ pshots p' = None /\ pcutoff p' = None.
Proof. exact bb_options_refuted_stmt. Qed.
Print Assumptions C14_bb_options_refuted.

Theorem C14_free_param_refuted :
  exists p v, p = plain 1 [gate 0 [VSym (EAtom (AFree (NId 0)))] [0] false]
              /\ bb_roundtrip p = Ok (plain 1 [gate 0 [VStr v] [0] false]) /\ xir_roundtrip p = Err ETypeError.
Proof. exact free_param_refuted_stmt. Qed.
Print Assumptions C14_free_param_refuted.

Theorem C14_xir_measured_param_refuted : exists p, bb_roundtrip p = Ok p /\ xir_roundtrip p = Err ETypeError.
Proof. exact (ex_intro _ w_meas xir_measured_param_refuted). Qed.
Print Assumptions C14_xir_measured_param_refuted.

Theorem C14_bb_mixed_expr_refuted : exists p, to_bb p = Err EValueError.
Proof. exact (ex_intro _ w_mixed bb_mixed_expr_refuted). Qed.
Print Assumptions C14_bb_mixed_expr_refuted.

Theorem C14_fourier_refuted : exists p, bb_roundtrip p = Err ETypeError /\ xir_roundtrip p = Err ETypeError.
Proof. exact (ex_intro _ w_fourier fourier_refuted). Qed.
Print Assumptions C14_fourier_refuted.

Theorem C14_meta_op_refuted : exists p, bb_roundtrip p = Err ENameError /\ xir_roundtrip p = Err ENameError.
Proof. exact (ex_intro _ w_meta meta_refuted). Qed.
Print Assumptions C14_meta_op_refuted.

Theorem C14_bb_tdm_N_refuted :
  exists p p', bb_roundtrip p = Ok p' /\ xir_roundtrip p = Ok p
               /\ option_map tN (ptdm p) = Some [1; 2] /\ option_map tN (ptdm p') = Some [3].
Proof. exact bb_tdm_N_refuted_stmt. Qed.
Print Assumptions C14_bb_tdm_N_refuted.

Theorem C14_tdm_expr_refuted :
  exists p s1 s2, ptdm p <> None
    /\ circ_of (bb_roundtrip p) = Some [gate 0 [VStr s1] [0] false]
    /\ circ_of (xir_roundtrip p) = Some [gate 0 [VStr s2] [0] false]
    /\ pcirc p = [gate 0 [VSym (EBin 1 (ENum 2) (EAtom (AFree (NP 0))))] [0] false].
Proof. exact tdm_expr_refuted_stmt. Qed.
Print Assumptions C14_tdm_expr_refuted.


