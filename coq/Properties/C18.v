(* C18 — Programs reported equal or equivalent really compute the same thing.
   This file holds only statements, closed by `exact`, each followed by its axiom audit. *)
From Coq Require Import List ZArith Bool.
From SFV Require Import C18.Model C18.Proofs.

Theorem C18_eq_sound : forall p q : prog, prog_eq p q = true -> p = q.
Proof. exact prog_eq_sound. Qed.
Print Assumptions C18_eq_sound.

Theorem C18_eq_reflexive : forall p : prog, prog_eq p p = true.
Proof. exact prog_eq_refl. Qed.
Print Assumptions C18_eq_reflexive.

Theorem C18_eq_symmetric : forall p q : prog, prog_eq p q = prog_eq q p.
Proof. exact prog_eq_sym. Qed.
Print Assumptions C18_eq_symmetric.
