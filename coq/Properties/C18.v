(* C18 — Programs reported equal or equivalent really compute the same thing.
   This file holds only statements, closed by `exact`, each followed by its axiom audit. *)
From Coq Require Import List ZArith Bool.
From SFV Require Import C18.Model C18.Proofs.

Theorem C18_eq_sound : forall p q : prog, prog_eq p q = true -> p = q.
Proof. exact prog_eq_sound. Qed.
Print Assumptions C18_eq_sound.

(* the comparison before fix 19a0026 (post-selection values and dark counts ignored) is refuted *)
Theorem C18_eq_ignoring_select_refuted : exists p q, prog_eq_noopts p q = true /\ p <> q /\ prog_eq p q = false.
Proof. exact prog_eq_noopts_refuted. Qed.
Print Assumptions C18_eq_ignoring_select_refuted.

Theorem C18_eq_reflexive : forall p : prog, prog_eq p p = true.
Proof. exact prog_eq_refl. Qed.
Print Assumptions C18_eq_reflexive.

Theorem C18_eq_symmetric : forall p q : prog, prog_eq p q = prog_eq q p.
Proof. exact prog_eq_sym. Qed.
Print Assumptions C18_eq_symmetric.

(* program_equivalence compares the dependency DAGs (plus node labels) of the two programs.  Swapping two
   adjacent commands that share no mode and no measured-parameter link changes no wire of the grid and
   hence no edge of the DAG: the two programs have literally the same DAG, so `equivalence` cannot tell
   them apart — reordering commuting commands never turns equivalent programs into inequivalent ones. *)
From SFV Require Import Base.Reorder.
Theorem C18_equiv_commute : forall (A : Type) (deps : A -> list nat) (l1 l2 : list A) (a b x y : A),
  independent A deps a b ->
  (edge A deps (l1 ++ a :: b :: l2) x y <-> edge A deps (l1 ++ b :: a :: l2) x y).
Proof. exact swap_independent_edges. Qed.
Print Assumptions C18_equiv_commute.

Theorem C18_equiv_commute_wires : forall (A : Type) (deps : A -> list nat) (l1 l2 : list A) (a b : A) (w : nat),
  independent A deps a b -> wire A deps (l1 ++ a :: b :: l2) w = wire A deps (l1 ++ b :: a :: l2) w.
Proof. exact swap_independent_wire. Qed.
Print Assumptions C18_equiv_commute_wires.
