(* C20 — trainable-GBS and chemistry numerics are self-consistent.
   Statements only, closed by `exact`, each followed by its axiom audit.  The theorems are about
   the model coq/C20/Model.v instantiated at the reals ([RO], Coquelicot derivatives); they
   depend on the standard library's axiomatisation of R (listed in the check's trusted base).

   Full:     C20_jacobian, C20_kl_chain, C20_stochastic_chain (each with the GBS score identity at
             the point as an explicit hypothesis), C20_score_identity_product (that hypothesis holds
             for product states), C20_dynamics_passive, C20_dynamics_modes, C20_dynamics_group,
             C20_vibronic_gain_is_inverse, C20_orbit_click_ok, C20_sample_length (both about the repaired code).
   Refuted:  C20_vibronic_gain_refuted (open finding vibronic:squeeze-sign, known_findings.d/C20.json);
             C20_event_orbit_old_refuted, C20_sample_length_old_refuted (about the *_old definitions only: the
             code before the fix: commits e02f624, a38ca99).
   Partial (statement only, not proved here): C20_score_identity_statement — the score identity for
             an arbitrary symmetric A needs the hafnian expansion of the GBS partition function. *)
From Coq Require Import Reals List.
From Coquelicot Require Import Coquelicot.
From SFV Require Import C20.Model C20.Proofs.
Import ListNotations.
Open Scope R_scope.

(* embed.py: the reported Jacobian is the derivative of the reported weights, for every feature
   matrix F (any shape, ragged rows included), parameter vector th, mode k and parameter index j *)
Theorem C20_jacobian : forall (F : list (list R)) (th : list R) (k j : nat), (j < length th)%nat ->
  is_derive (fun x => nth k (weightsR F (upd th j x)) 0) (nth j th 0)
            (nth j (nth k (jacobian RO F (weightsR F th)) []) 0).
Proof. exact weight_deriv. Qed.
Print Assumptions C20_jacobian.

(* cost.py KL (PNR mode): with log P(S) = sum_k S_k ln w_k - ln Z(w) + c(S) (the WAW structure) and the score
   identity at th, the vector assembled by KL.grad is the partial derivative of KL.evaluate in every coordinate j,
   for every feature matrix, data set (non-empty, one entry per mode) and parameter vector *)
Theorem C20_kl_chain : forall (F : list (list R)) (lnZ : list R -> R) (nbar : list R -> list R) (cst : list R -> R)
    (data : list (list R)) (th : list R) (j : nat),
  score_at F lnZ nbar th j ->
  (j < length th)%nat -> data <> [] -> List.Forall (fun S => length S = length F) data ->
  length (nbar (wts F th)) = length F ->
  is_derive (fun x => klcost F lnZ cst data (upd th j x)) (nth j th 0)
            (nth j (kl_grad RO (length th) (nbar (wts F th)) (col_mean RO (length F) (INR (length data)) data) (wts F th) (jac F th)) 0).
Proof. exact kl_chain. Qed.
Print Assumptions C20_kl_chain.

(* cost.py Stochastic (PNR mode, fixed stored samples): Stochastic.grad is the partial derivative of
   Stochastic.evaluate in every coordinate, h_reparametrized using sqrt(det ratio) = Z0 / Z(w) *)
Theorem C20_stochastic_chain : forall (F : list (list R)) (lnZ : list R -> R) (nbar : list R -> list R) (lnZ0 : R)
    (samples : list (R * list nat)) (th : list R) (j : nat),
  score_at F lnZ nbar th j ->
  (j < length th)%nat -> samples <> [] -> List.Forall (fun hs => length (snd hs) = length F) samples ->
  length (nbar (wts F th)) = length F ->
  is_derive (fun x => stcost F lnZ lnZ0 samples (upd th j x)) (nth j th 0) (nth j (stgrad F lnZ nbar lnZ0 samples th) 0).
Proof. exact stochastic_chain. Qed.
Print Assumptions C20_stochastic_chain.

(* the hypothesis of the two chain theorems is satisfiable: it holds for every product state A = diag(a) *)
Theorem C20_score_identity_product : forall (F : list (list R)) (a th : list R) (j : nat),
  length a = length F -> (j < length th)%nat ->
  (forall k, (k < length F)%nat -> (nth k (weightsR F th) 0 * nth k a 0) * (nth k (weightsR F th) 0 * nth k a 0) < 1) ->
  score_at F (lnZ_prod a) (nbar_prod a) th j.
Proof. exact score_product. Qed.
Print Assumptions C20_score_identity_product.

(* not proved: the score identity for the normalisation of an arbitrary GBS state, Z(w)^-2 = det(1 - (W A W)^2) *)
Definition C20_score_identity_statement : Prop :=
  forall (F : list (list R)) (lnZ : list R -> R) (nbar : list R -> list R) (th : list R) (j : nat),
    (j < length th)%nat -> (* lnZ, nbar the normalisation and mean photon numbers of the state with matrix W A W *)
    score_at F lnZ nbar th j.

(* dynamics.py: TimeEvolution(w, t) is a product of phase rotations; for every number of modes, frequencies, time
   and every state it leaves the photon number <a_i^dag a_i> and |<a_i>|^2 of every mode unchanged *)
Theorem C20_dynamics_passive : forall (hundred c femto twopi : R) (w : list R) (t : R) (st : gstate (K := R)) (i : nat),
  photons (run_rgates RO cos sin (time_evolution RO hundred c femto twopi w t) st) i = photons st i
  /\ amp2 RO (run_rgates RO cos sin (time_evolution RO hundred c femto twopi w t) st) i = amp2 RO st i.
Proof. exact time_evolution_conserves. Qed.
Print Assumptions C20_dynamics_passive.

(* ... acts on modes 0 .. n-1, once each, in order *)
Theorem C20_dynamics_modes : forall (hundred c femto twopi : R) (w : list R) (t : R),
  map fst (time_evolution RO hundred c femto twopi w t) = seq O (length w).
Proof. exact time_evolution_modes. Qed.
Print Assumptions C20_dynamics_modes.

(* ... and its angles are additive in time (one-parameter group), vanishing at t = 0 *)
Theorem C20_dynamics_group : forall (hundred c femto twopi : R) (w : list R) (t1 t2 : R),
  te_thetas RO hundred c femto twopi w (t1 + t2)
  = map2 Rplus (te_thetas RO hundred c femto twopi w t1) (te_thetas RO hundred c femto twopi w t2)
  /\ te_thetas RO hundred c femto twopi w 0 = map (fun _ => 0) w.
Proof. exact te_thetas_group. Qed.
Print Assumptions C20_dynamics_group.

(* vibronic.py: the position gain applied for a singular value s of the Duschinsky matrix J is 1/s, not s ... *)
Theorem C20_vibronic_gain_is_inverse : forall s : R, 0 < s -> sgate_x_gain (vib_r s) = / s.
Proof. exact vib_gain_inverse. Qed.
Print Assumptions C20_vibronic_gain_is_inverse.

(* ... so "the vibronic parameters reproduce the Duschinsky transformation" fails unless s = 1 (finding vibronic:squeeze-sign) *)
Theorem C20_vibronic_gain_refuted : exists s : R, 0 < s /\ sgate_x_gain (vib_r s) <> s.
Proof. exact vib_gain_refuted. Qed.
Print Assumptions C20_vibronic_gain_refuted.

Theorem C20_vibronic_gain_only_trivial : forall s : R, 0 < s -> sgate_x_gain (vib_r s) = s -> s = 1.
Proof. exact vib_gain_only_trivial. Qed.
Print Assumptions C20_vibronic_gain_only_trivial.

(* similarity.py (after e02f624): prob_orbit_exact never raises from a pattern of the wrong length: it returns 0.0 early
   exactly for orbits with more parts than modes, otherwise the padded pattern has one entry per mode *)
Theorem C20_orbit_click_ok : forall (orbit : list nat) (modes : nat),
  orbit_accepts orbit modes = true
  /\ (orbit_early_zero orbit modes = true <-> (modes < length orbit)%nat)
  /\ (orbit_early_zero orbit modes = false -> length (orbit_click orbit modes) = modes).
Proof. exact orbit_accepts_all. Qed.
Print Assumptions C20_orbit_click_ok.

(* the code before e02f624 raised for such orbits (fixed defect similarity:event-orbit-longer-than-modes) *)
Theorem C20_event_orbit_old_refuted : exists (orbit : list nat) (modes : nat),
  fold_right Nat.add O orbit = 4%nat /\ orbit_accepts_old orbit modes = false.
Proof. exact orbit_old_refuted. Qed.
Print Assumptions C20_event_orbit_old_refuted.

(* vibronic.sample (after a38ca99): every sample has 2N entries, for every pattern of zero / non-zero two-mode squeezing *)
Theorem C20_sample_length : forall z : list bool, sample_len z = (2 * length z)%nat.
Proof. exact sample_len_2n. Qed.
Print Assumptions C20_sample_length.

(* the code before a38ca99 returned 3N entries for mixed zero / non-zero t (fixed defect vibronic:sample-length-mixed-t) *)
Theorem C20_sample_length_old_refuted : exists z : list bool, sample_len_old z <> (2 * length z)%nat.
Proof. exact sample_len_old_refuted. Qed.
Print Assumptions C20_sample_length_old_refuted.

(* the hypotheses are inhabited *)
Example C20_ex_product_hyp : forall k, (k < length [[1; 0]; [0; 1]])%nat ->
  (nth k (weightsR [[1; 0]; [0; 1]] [0; 0]) 0 * nth k [/ 2; / 3] 0) * (nth k (weightsR [[1; 0]; [0; 1]] [0; 0]) 0 * nth k [/ 2; / 3] 0) < 1.
Proof. exact ex_product_hyp. Qed.
