(* C20 — trainable-GBS and chemistry numerics are self-consistent.
   Statements only, closed by `exact`, each followed by its axiom audit.  The theorems are about
   the model coq/C20/Model.v instantiated at the reals ([RO], Coquelicot derivatives); they
   depend on the standard library's axiomatisation of R (listed in the check's trusted base). *)
From Coq Require Import Reals List.
From Coquelicot Require Import Coquelicot.
From SFV Require Import C20.Model C20.Proofs.
Import ListNotations.
Open Scope R_scope.

(* embed.py: the reported Jacobian is the derivative of the reported weights, for every feature
   matrix F (any shape, ragged rows included), parameter vector th, mode k and parameter index j *)
Theorem C20_jacobian : forall (F : list (list R)) (th : list R) (k j : nat), (j < length th)%nat ->
  is_derive (fun x => nth k (weightsR F (upd th j x)) 0) (nth j th 0)
            (nth j (nth k (jacobian RO F (weightsR F th)) []) 0).
Proof. exact weight_deriv. Qed.
Print Assumptions C20_jacobian.
