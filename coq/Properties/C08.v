From Coq Require Import List ZArith Bool.
From SFV Require Import C08.Model C08.Proofs.

Theorem C08_stub : True.
Proof. exact stub_true. Qed.
Print Assumptions C08_stub.
