(* C08 — Register and simulator agree on which modes exist, for every history.
   This file holds only statements, closed by `exact`, each followed by its axiom audit.

   Vocabulary (coq/C08/Model.v): a history is a list of New n / Del S / Disp i k / Swap i j / Meas S /
   Seg operations; [spec_run n h] is the specification state after h from n initial modes — a finite map
   index -> live with integer data | dead, in which operations naming a dead, unknown or repeated index are
   skipped; [fock_run], [gauss_run], [bos_run] run the modelled Program register in front of the modelled
   Fock / Gaussian / bosonic bookkeeping; [view s] lists (index, data) of the live indices in increasing order. *)
From Coq Require Import List ZArith Bool Arith Sorted.
Import ListNotations.
From SFV Require Import C08.Model C08.Proofs C08.ProofsPS C08.ProofsFock C08.ProofsMain C08.Refuted.

(* --- a mode keeps its index for life: the register only grows, a dead index never comes back,
       and New hands out exactly the next unused indices *)
Theorem C08_index_for_life : forall n h1 h2 i,
  let r1 := prog_run (prog_init n) h1 in
  let r2 := prog_run (prog_init n) (h1 ++ h2) in
  i < length r1 -> i < length r2 /\ (nth i r1 false = false -> nth i r2 false = false).
Proof. exact index_for_life. Qed.
Print Assumptions C08_index_for_life.

Theorem C08_new_assigns_fresh_indices : forall r n, 1 <= n -> prog_step r (New n) = (r ++ repeat true n, Ok).
Proof. exact new_assigns_fresh. Qed.
Print Assumptions C08_new_assigns_fresh_indices.

(* --- register and simulator agree on which modes exist, after every history *)
Theorem C08_agree_fock : forall n h,
  prog_register (fst (fock_run n h)) = slives (spec_run n h) /\
  fock_modes (snd (fock_run n h)) = slives (spec_run n h).
Proof. exact agree_fock. Qed.
Print Assumptions C08_agree_fock.

Theorem C08_agree_gauss : forall n h,
  prog_register (fst (gauss_run n h)) = slives (spec_run n h) /\
  ps_modes (snd (gauss_run n h)) = slives (spec_run n h).
Proof. exact agree_gauss. Qed.
Print Assumptions C08_agree_gauss.

Theorem C08_agree_bos : forall n h,
  prog_register (fst (bos_run n h)) = slives (spec_run n h) /\
  ps_modes (snd (bos_run n h)) = slives (spec_run n h).
Proof. exact agree_bos. Qed.
Print Assumptions C08_agree_bos.

(* behaviour before /repo 6125c3c (bos_step_old: one `active` entry for n new modes) *)
Theorem C08_agree_bos_old_partial : forall n h, forallb new_le1 h = true ->
  prog_register (fst (bos_run_old n h)) = slives (spec_run n h) /\
  ps_modes (snd (bos_run_old n h)) = slives (spec_run n h).
Proof. exact agree_bos_old. Qed.
Print Assumptions C08_agree_bos_old_partial.

Theorem C08_agree_bos_old_refuted : exists n h,
  ps_modes (snd (bos_run_old n h)) <> slives (spec_run n h) /\ prog_register (fst (bos_run_old n h)) = slives (spec_run n h).
Proof. exact bos_agree_old_refuted. Qed.
Print Assumptions C08_agree_bos_old_refuted.

Theorem C08_accept_bos_old_refuted : exists n h o s',
  sstep (spec_run n h) o = Some s' /\ snd (pstep ps bos_step_old (bos_run_old n h) o) = Err IndexError.
Proof. exact bos_accept_old_refuted. Qed.
Print Assumptions C08_accept_bos_old_refuted.

(* --- deleted / unknown / repeated modes are rejected with an error and nothing changes;
       everything else is accepted without error by both sides *)
Theorem C08_reject_fock : forall n h o, sstep (spec_run n h) o = None ->
  exists e, pstep fock fock_step (fock_run n h) o = (fock_run n h, Err e).
Proof. exact reject_fock. Qed.
Print Assumptions C08_reject_fock.

Theorem C08_accept_fock : forall n h o s', sstep (spec_run n h) o = Some s' ->
  pstep fock fock_step (fock_run n h) o = (fock_run n (h ++ [o]), Ok).
Proof. exact accept_fock. Qed.
Print Assumptions C08_accept_fock.

Theorem C08_reject_gauss : forall n h o, sstep (spec_run n h) o = None ->
  exists e, pstep ps gauss_step (gauss_run n h) o = (gauss_run n h, Err e).
Proof. exact reject_gauss. Qed.
Print Assumptions C08_reject_gauss.

Theorem C08_accept_gauss : forall n h o s', sstep (spec_run n h) o = Some s' ->
  pstep ps gauss_step (gauss_run n h) o = (gauss_run n (h ++ [o]), Ok).
Proof. exact accept_gauss. Qed.
Print Assumptions C08_accept_gauss.

Theorem C08_reject_bos : forall n h o, sstep (spec_run n h) o = None ->
  exists e, pstep ps bos_step (bos_run n h) o = (bos_run n h, Err e).
Proof. exact reject_bos. Qed.
Print Assumptions C08_reject_bos.

Theorem C08_accept_bos : forall n h o s', sstep (spec_run n h) o = Some s' ->
  pstep ps bos_step (bos_run n h) o = (bos_run n (h ++ [o]), Ok).
Proof. exact accept_bos. Qed.
Print Assumptions C08_accept_bos.

(* --- the Fock ModeMap restricted to the live indices is the order isomorphism onto [0, #live)
       and the tensor has exactly #live axes, after any interleaving of alloc / dealloc *)
Theorem C08_fock_axis_bijection : forall n h,
  let s := spec_run n h in let b := snd (fock_run n h) in
  (forall i, nth_error (fmap b) i =
             match nth_error s i with
             | Some (Some _) => Some (Some (rank s i)) | Some None => Some None | None => None end)
  /\ length (faxes b) = count_some s
  /\ (forall i, slive s i = true -> rank s i < count_some s)
  /\ (forall i j, i < j -> slive s i = true -> rank s i < rank s j).
Proof. exact fock_axis_bijection. Qed.
Print Assumptions C08_fock_axis_bijection.

(* --- the returned state: exactly the live modes, in index order, own label, own data *)
Theorem C08_state_content_fock : forall n h, fock_state (snd (fock_run n h)) = view (spec_run n h).
Proof. exact state_fock. Qed.
Print Assumptions C08_state_content_fock.

Theorem C08_state_content_gauss : forall n h, gauss_state (snd (gauss_run n h)) = view (spec_run n h).
Proof. exact state_gauss. Qed.
Print Assumptions C08_state_content_gauss.

Theorem C08_state_content_bos : forall n h, bos_state (snd (bos_run n h)) = view (spec_run n h).
Proof. exact state_bos. Qed.
Print Assumptions C08_state_content_bos.

(* slot selection before /repo 23cb098 (gauss_state_old: slots range(#live)): right only while no live index
   sits behind a dead one, in particular without Del *)
Theorem C08_state_content_gauss_old_partial : forall n h,
  prefix_live (spec_run n h) -> gauss_state_old (snd (gauss_run n h)) = view (spec_run n h).
Proof. exact state_gauss_old_prefix. Qed.
Print Assumptions C08_state_content_gauss_old_partial.

Theorem C08_state_content_gauss_old_no_del : forall n h,
  forallb no_del h = true -> gauss_state_old (snd (gauss_run n h)) = view (spec_run n h).
Proof. exact state_gauss_old_no_del. Qed.
Print Assumptions C08_state_content_gauss_old_no_del.

Theorem C08_state_content_gauss_old_refuted : exists n h,
  gauss_state_old (snd (gauss_run n h)) <> view (spec_run n h)
  /\ map fst (gauss_state_old (snd (gauss_run n h))) = map fst (view (spec_run n h)).
Proof. exact gauss_state_old_refuted. Qed.
Print Assumptions C08_state_content_gauss_old_refuted.

(* --- [view] means what the property says *)
Theorem C08_view_exactly_live_own_data : forall s i d, In (i, d) (view s) <-> nth_error s i = Some (Some d).
Proof. exact view_In. Qed.
Print Assumptions C08_view_exactly_live_own_data.

Theorem C08_view_index_order : forall s, StronglySorted lt (map fst (view s)).
Proof. exact view_sorted. Qed.
Print Assumptions C08_view_index_order.

(* --- hypotheses are satisfiable / statements are not vacuous *)
Example C08_ex_history : list op := [Disp 0 1%Z; New 1; Del [1; 0]; Swap 3 2; Meas [2]; Seg None; Seg (Some 2); New 1; Del [3]].
Example C08_ex_nontrivial : view (spec_run 3 C08_ex_history) = [(2, 0%Z); (4, 0%Z)] /\ forallb new_le1 C08_ex_history = true.
Proof. split; vm_compute; reflexivity. Qed.
Example C08_ex_prefix_live : prefix_live (spec_run 3 [Disp 1 2%Z; Del [2]]) /\ forallb no_del [Disp 1 2%Z; New 2; Meas [0]] = true.
Proof. split; [exists [0%Z; 2%Z], 1; vm_compute; reflexivity | reflexivity]. Qed.
Example C08_ex_rejected : sstep (spec_run 2 [Del [0]]) (Disp 0 1%Z) = None /\ sstep (spec_run 2 [Del [0]]) (Disp 1 1%Z) <> None.
Proof. split; vm_compute; [reflexivity | discriminate]. Qed.
