(* C12 — hardware compilation conforms to the device and preserves the experiment.
   Statements only, closed by `exact`, each followed by its axiom audit.  The models are in C12/Model.v. *)
From Coq Require Import List Arith Bool ZArith QArith.
Import ListNotations.
From SFV Require Import C12.Model C12.Proofs C12.Merge.
Close Scope Q_scope.
Open Scope nat_scope.

(* ---- parameter validation: Device.validate_parameters / Ranges / Range ---------------------------- *)
(* For every carrier K with its own +, - and <= (binary64 in the implementation): the validation accepts
   exactly when every named parameter is known to the device and every value of its flattened argument lies,
   up to atol, inside one of the allowed ranges. *)
Theorem C12_validate_sound :
  forall (K : Type) (add sub : K -> K -> K) (leb : K -> K -> bool)
         (gp : list (nat * list (range K))) (ps : list (nat * ptree K)),
    validate K add sub leb gp ps = VOk <->
    forall p t, In (p, t) ps ->
      exists rs, lookup p gp = Some rs /\
        forall v, In v (flatten K t) ->
          exists r, In r rs /\ leb (sub (lo r) (atol r)) v = true /\ leb v (add (hi r) (atol r)) = true.
Proof. exact validate_sound_full. Qed.
Print Assumptions C12_validate_sound.

Theorem C12_validate_unknown_parameter :
  forall (K : Type) (add sub : K -> K -> K) (leb : K -> K -> bool) gp ps p,
    validate K add sub leb gp ps = VUnknown p -> lookup p gp = None /\ In p (map fst ps).
Proof. exact validate_unknown. Qed.
Print Assumptions C12_validate_unknown_parameter.

Theorem C12_validate_invalid_value :
  forall (K : Type) (add sub : K -> K -> K) (leb : K -> K -> bool) gp ps p v,
    validate K add sub leb gp ps = VInvalid p v ->
    exists t rs, In (p, t) ps /\ lookup p gp = Some rs /\ In v (flatten K t) /\ in_ranges K add sub leb rs v = false.
Proof. exact validate_invalid. Qed.
Print Assumptions C12_validate_invalid_value.

(* ---- mode / measurement count limits -------------------------------------------------------------- *)
Theorem C12_counts :
  (forall total dev, assert_modes_int total dev = AMOk <-> total <= dev) /\
  (forall a b e c, assert_modes_dict (mkD (Some a) (Some b) (Some e)) c = AMOk <->
     measured KFock c <= a /\ measured KHomodyne c <= b /\ measured KHeterodyne c <= e) /\
  (forall d c, assert_modes_dict d c = AMKeyError <-> pnr_max d = None \/ hom_max d = None \/ het_max d = None) /\
  (forall tb cc sp tmax dc ds, tdm_assert_modes tb cc sp tmax dc ds = AMOk <-> tb <= tmax /\ cc = dc /\ sp = ds).
Proof.
  exact (conj assert_modes_int_ok (conj assert_modes_dict_ok (conj assert_modes_dict_keyerror tdm_assert_modes_ok))).
Qed.
Print Assumptions C12_counts.

(* ---- Xunitary: merge of repeated two-mode squeezers ------------------------------------------------ *)
(* B: the S2gate commands as returned by group_operations, N = half the number of modes, `miss` the order in
   which Python iterates over the set of pairs without squeezer.  Hypotheses: every command sits on an allowed
   pair (otherwise the stage raises CircuitError 2), `miss` enumerates exactly the allowed pairs that have no
   squeezer (ANY duplicate-free enumeration: the result may not depend on set order), and AT MOST ONE pair carries
   more than one squeezer (this last hypothesis excludes the recorded findings xunitary:s2-merge:*, see the two
   _refuted theorems below).  Conclusion, for every multiplicity: no IndexError; CircuitError 3 only if two
   successive squeezers of the repeated pair have different phases (`phases_agree` is the chain of `phi_new != phi`
   tests in visiting order, last occurrence first); otherwise exactly N commands, exactly one per pair (i, i+N):
   S2gate(0,0) if the source had none, the source command itself if it had one, and otherwise
   S2gate(sum of the source r's added from the last occurrence to the first starting from 0, phase of the first). *)
Theorem C12_s2_merge :
  forall (K : Type) (kzero : K) (kadd : K -> K -> K) (kneq : K -> K -> bool) (N : nat) (miss : list nat) (B : list (s2 K)),
    forallb (allowed K N) B = true ->
    NoDup miss ->
    (forall i, In i miss <-> i < N /\ ~ In (i, i + N) (map (s2key K) B)) ->
    (forall k1 k2, 1 < count_key k1 (map (s2key K) B) -> 1 < count_key k2 (map (s2key K) B) -> k1 = k2) ->
    match s2_stage K kzero kadd kneq N miss B with
    | IndexErr => False
    | CircuitErr c =>
        c = 3 /\ exists k, 1 < count_key k (map (s2key K) B) /\
                  phases_agree K kneq (rev (filter (fun x => key_eqb (s2key K x) k) B)) = false
    | Ok out =>
        length out = N /\
        forall i, i < N ->
          exists c, filter (fun x => key_eqb (s2key K x) (i, i + N)) out = [c] /\ mi c = i /\ mj c = i + N /\
            match filter (fun x => key_eqb (s2key K x) (i, i + N)) B with
            | [] => c = mkS2 i (i + N) kzero kzero
            | [b] => c = b
            | bs => c = mkS2 i (i + N) (fold_left kadd (map sr (rev bs)) kzero) (last (map sphi (rev bs)) kzero)
                    /\ phases_agree K kneq (rev bs) = true
            end
    end.
Proof. exact s2_stage_correct. Qed.
Print Assumptions C12_s2_merge.

(* one iteration of the merge loop is correct for ANY list (several repeated pairs included) as long as the
   locations were computed on the list it is applied to: the defect is only the staleness of the indices *)
Theorem C12_s2_merge_one_step :
  forall (K : Type) (kzero : K) (kadd : K -> K -> K) (kneq : K -> K -> bool) (k : key) (B : list (s2 K)),
    let bs := filter (fun x => key_eqb (s2key K x) k) B in
    merge_loop K kzero kadd kneq [(k, positions k (map (s2key K) B))] B =
      if phases_agree K kneq (rev bs)
      then Ok (insert_at (hd 0 (positions k (map (s2key K) B)))
                 (mkS2 (fst k) (snd k) (fold_left kadd (map sr (rev bs)) kzero) (last (map sphi (rev bs)) kzero))
                 (filter (fun c => negb (key_eqb (s2key K c) k)) B))
      else CircuitErr 3.
Proof. exact merge_one. Qed.
Print Assumptions C12_s2_merge_one_step.

(* the excluded case is real: with two duplicated pairs the pre-computed indices are stale *)
Theorem C12_s2_merge_refuted_indexerror :
  exists (N : nat) (miss : list nat) (B : list (s2 Z)),
    forallb (allowed Z N) B = true /\ NoDup miss /\
    (forall i, In i miss <-> i < N /\ ~ In (i, i + N) (map (s2key Z) B)) /\
    s2_stage Z 0%Z Z.add zneq N miss B = IndexErr.
Proof. exact s2_refuted_indexerror. Qed.
Print Assumptions C12_s2_merge_refuted_indexerror.

(* ... and can silently drop a squeezer: three pairs, two of them doubled: the squeezer of pair (2,5) vanishes *)
Theorem C12_s2_merge_refuted_silent :
  exists (N : nat) (miss : list nat) (B out : list (s2 Z)),
    forallb (allowed Z N) B = true /\ NoDup miss /\
    (forall i, In i miss <-> i < N /\ ~ In (i, i + N) (map (s2key Z) B)) /\
    s2_stage Z 0%Z Z.add zneq N miss B = Ok out /\
    filter (fun x => key_eqb (s2key Z x) (2, 5)) B <> [] /\
    filter (fun x => key_eqb (s2key Z x) (2, 5)) out = [].
Proof. exact s2_refuted_silent. Qed.
Print Assumptions C12_s2_merge_refuted_silent.

(* ---- Borealis: compensated phases ------------------------------------------------------------------ *)
(* For every positive rational pi (np.pi is one), every list of loops and every non-user loop l: each output
   phase lies in [-pi/2, pi/2] and is congruent modulo pi to  phi_j + corr_l(j) - corr_prev(j), where corr_prev is
   the correction of the nearest earlier loop that was compensated by the compiler (0 if none). *)
Theorem C12_borealis_range :
  forall pi : Q, (0 < pi)%Q -> forall loops cp l L out,
    nth_error loops l = Some L -> nth_error (update_loops pi loops cp) l = Some out ->
    length out = length (l_phis L) /\
    if l_user L then out = l_phis L
    else forall j y, nth_error out j = Some y ->
         (- (1 # 2) * pi <= y /\ y <= (1 # 2) * pi /\
          exists phi, nth_error (l_phis L) j = Some phi /\
            exists k : Z, y == phi + corr_of (l_offset L) (l_delay L) j - prev_of loops cp l j + inject_Z k * pi)%Q.
Proof. exact update_loops_spec. Qed.
Print Assumptions C12_borealis_range.

(* the congruence is modulo pi, not 2 pi: the range correction can move a phase by an odd multiple of pi
   (recorded finding borealis:pi-range-correction) *)
Theorem C12_borealis_pi_shift_refuted :
  exists pi x : Q, (0 < pi)%Q /\
    ~ exists k : Z, (fix_phase pi (- (1 # 2) * pi) ((1 # 2) * pi) x == x + inject_Z (2 * k) * pi)%Q.
Proof. exact fix_phase_pi_shift_exists. Qed.
Print Assumptions C12_borealis_pi_shift_refuted.

(* ---- Borealis: insertion of loop-offset gates -------------------------------------------------------- *)
(* If Borealis.compile's insertion loop succeeds, the result covers the layout and agrees with it position by
   position in gate type and wires, and the user's commands all survive in their order. *)
Theorem C12_borealis_insert :
  forall circ seq out uo, insert_offsets circ seq = Some (out, uo) ->
    subseq seq out /\ length circ <= length out /\
    forall i c, nth_error circ i = Some c -> exists o, nth_error out i = Some o /\ ops_equal c o = true.
Proof. exact insert_offsets_full. Qed.
Print Assumptions C12_borealis_insert.

(* hypotheses are satisfiable / the functions are not vacuous *)
Example C12_ex_validate :
  validate Z Z.add Z.sub Z.leb [(0, [mkRange 0%Z 10%Z 1%Z])] [(0, Node [Leaf 11%Z; Node [Leaf (-1)%Z]])] = VOk.
Proof. reflexivity. Qed.
Example C12_ex_merge :
  s2_stage Z 0%Z Z.add zneq 2 [1] [mkS2 0 2 5%Z 0%Z; mkS2 0 2 7%Z 0%Z]
  = Ok [mkS2 1 3 0%Z 0%Z; mkS2 0 2 12%Z 0%Z].
Proof. reflexivity. Qed.
Example C12_ex_insert :
  insert_offsets [mkB 0 [3] false 0; mkB 1 [3] true 1; mkB 1 [2] false 2] [mkB 0 [3] false 10; mkB 1 [2] false 11]
  = Some ([mkB 0 [3] false 10; mkB 1 [3] true 1; mkB 1 [2] false 11], [false]).
Proof. reflexivity. Qed.
