(* C12 — hardware compilation conforms to the device and preserves the experiment.
   Statements only, closed by `exact`, each followed by its axiom audit.  The models are in C12/Model.v. *)
From Coq Require Import List Arith Bool ZArith QArith.
Import ListNotations.
From SFV Require Import C12.Model C12.Proofs C12.Merge C12.TdmUtils C12.TdmUtilsProofs.
Close Scope Q_scope.
Open Scope nat_scope.

(* ---- parameter validation: Device.validate_parameters / Ranges / Range ---------------------------- *)
(* For every carrier K with its own +, - and <= (binary64 in the implementation): the validation accepts
   exactly when every named parameter is known to the device and every value of its flattened argument lies,
   up to atol, inside one of the allowed ranges. *)
Theorem C12_validate_sound :
  forall (K : Type) (add sub : K -> K -> K) (leb : K -> K -> bool)
         (gp : list (nat * list (range K))) (ps : list (nat * ptree K)),
    validate K add sub leb gp ps = VOk <->
    forall p t, In (p, t) ps ->
      exists rs, lookup p gp = Some rs /\
        forall v, In v (flatten K t) ->
          exists r, In r rs /\ leb (sub (lo r) (atol r)) v = true /\ leb v (add (hi r) (atol r)) = true.
Proof. exact validate_sound_full. Qed.
Print Assumptions C12_validate_sound.

Theorem C12_validate_unknown_parameter :
  forall (K : Type) (add sub : K -> K -> K) (leb : K -> K -> bool) gp ps p,
    validate K add sub leb gp ps = VUnknown p -> lookup p gp = None /\ In p (map fst ps).
Proof. exact validate_unknown. Qed.
Print Assumptions C12_validate_unknown_parameter.

Theorem C12_validate_invalid_value :
  forall (K : Type) (add sub : K -> K -> K) (leb : K -> K -> bool) gp ps p v,
    validate K add sub leb gp ps = VInvalid p v ->
    exists t rs, In (p, t) ps /\ lookup p gp = Some rs /\ In v (flatten K t) /\ in_ranges K add sub leb rs v = false.
Proof. exact validate_invalid. Qed.
Print Assumptions C12_validate_invalid_value.

(* ---- mode / measurement count limits -------------------------------------------------------------- *)
Theorem C12_counts :
  (forall total dev, assert_modes_int total dev = AMOk <-> total <= dev) /\
  (forall a b e c, assert_modes_dict (mkD (Some a) (Some b) (Some e)) c = AMOk <->
     measured KFock c <= a /\ measured KHomodyne c <= b /\ measured KHeterodyne c <= e) /\
  (forall d c, assert_modes_dict d c = AMKeyError <-> pnr_max d = None \/ hom_max d = None \/ het_max d = None) /\
  (forall tb cc sp tmax dc ds, tdm_assert_modes tb cc sp tmax dc ds = AMOk <-> tb <= tmax /\ cc = dc /\ sp = ds).
Proof.
  exact (conj assert_modes_int_ok (conj assert_modes_dict_ok (conj assert_modes_dict_keyerror tdm_assert_modes_ok))).
Qed.
Print Assumptions C12_counts.

(* ---- Xunitary: merge of repeated two-mode squeezers ------------------------------------------------ *)
(* B: the S2gate commands as returned by group_operations (each with its dagger flag), N = half the number of modes,
   `miss` the order in which Python iterates over the set of pairs without squeezer.  Hypotheses: every command sits on
   an allowed pair (otherwise the stage raises CircuitError 2) and `miss` enumerates exactly the allowed pairs that have
   no squeezer (ANY duplicate-free enumeration: the result may not depend on set order).  No restriction on how many
   pairs carry repeated squeezers.  Conclusion, for every multiplicity on every pair: no IndexError; CircuitError 3
   only if two successive squeezers of some repeated pair have different phases (`phases_agree` is the chain of
   `phi_new != phi` tests in visiting order, last occurrence first); otherwise exactly N commands, exactly one per
   pair (i, i+N): S2gate(0,0) if the source had none, the source command itself (dagger included) if it had one, and
   otherwise the undaggered S2gate(sum of the signed source r's -- minus r for a daggered gate -- added from the last
   occurrence to the first starting from 0, phase of the first occurrence). *)
Theorem C12_s2_merge :
  forall (K : Type) (kzero : K) (kadd : K -> K -> K) (kneg : K -> K) (kneq : K -> K -> bool)
         (N : nat) (miss : list nat) (B : list (s2 K)),
    forallb (allowed K N) B = true ->
    NoDup miss ->
    (forall i, In i miss <-> i < N /\ ~ In (i, i + N) (map (s2key K) B)) ->
    match s2_stage K kzero kadd kneg kneq N miss B with
    | IndexErr => False
    | CircuitErr c =>
        c = 3 /\ exists k, 1 < count_key k (map (s2key K) B) /\
                  phases_agree K kneq (rev (filter (fun x => key_eqb (s2key K x) k) B)) = false
    | Ok out =>
        length out = N /\
        forall i, i < N ->
          exists c, filter (fun x => key_eqb (s2key K x) (i, i + N)) out = [c] /\ mi c = i /\ mj c = i + N /\
            match filter (fun x => key_eqb (s2key K x) (i, i + N)) B with
            | [] => c = mkS2 i (i + N) kzero kzero false
            | [b] => c = b
            | bs => c = mkS2 i (i + N) (fold_left kadd (map (signed_r K kneg) (rev bs)) kzero)
                              (last (map sphi (rev bs)) kzero) false
                    /\ phases_agree K kneq (rev bs) = true
            end
    end.
Proof. exact s2_stage_correct. Qed.
Print Assumptions C12_s2_merge.

(* one iteration of the merge loop, on ANY list and with ANY remaining keys *)
Theorem C12_s2_merge_one_step :
  forall (K : Type) (kzero : K) (kadd : K -> K -> K) (kneg : K -> K) (kneq : K -> K -> bool)
         (k : key) (D : list key) (B : list (s2 K)),
    let bs := filter (fun x => key_eqb (s2key K x) k) B in
    merge_loop K kzero kadd kneg kneq (k :: D) B =
      if phases_agree K kneq (rev bs)
      then merge_loop K kzero kadd kneg kneq D
             (insert_at (hd 0 (positions k (map (s2key K) B)))
                 (mkS2 (fst k) (snd k) (fold_left kadd (map (signed_r K kneg) (rev bs)) kzero) (last (map sphi (rev bs)) kzero) false)
                 (filter (fun c => negb (key_eqb (s2key K c) k)) B))
      else CircuitErr 3.
Proof. exact merge_step. Qed.
Print Assumptions C12_s2_merge_one_step.

(* Refutations of the PRE-FIX stage (s2_stage_old: locations computed once, dagger ignored; repaired in /repo by
   40078be and ece8029).  They are statements about the explicitly named old definition only. *)
Theorem C12_s2_merge_old_refuted_indexerror :
  exists (N : nat) (miss : list nat) (B : list (s2 Z)),
    forallb (allowed Z N) B = true /\ NoDup miss /\
    (forall i, In i miss <-> i < N /\ ~ In (i, i + N) (map (s2key Z) B)) /\
    s2_stage_old Z 0%Z Z.add zneq N miss B = IndexErr.
Proof. exact s2_old_refuted_indexerror. Qed.
Print Assumptions C12_s2_merge_old_refuted_indexerror.

Theorem C12_s2_merge_old_refuted_silent :
  exists (N : nat) (miss : list nat) (B out : list (s2 Z)),
    forallb (allowed Z N) B = true /\ NoDup miss /\
    (forall i, In i miss <-> i < N /\ ~ In (i, i + N) (map (s2key Z) B)) /\
    s2_stage_old Z 0%Z Z.add zneq N miss B = Ok out /\
    filter (fun x => key_eqb (s2key Z x) (2, 5)) B <> [] /\
    filter (fun x => key_eqb (s2key Z x) (2, 5)) out = [].
Proof. exact s2_old_refuted_silent. Qed.
Print Assumptions C12_s2_merge_old_refuted_silent.

Theorem C12_s2_merge_old_refuted_dagger :
  s2_stage_old Z 0%Z Z.add zneq 1 [] [mkS2 0 1 5 0 true; mkS2 0 1 3 0 false]%Z = Ok [mkS2 0 1 8 0 false]%Z /\
  s2_stage Z 0%Z Z.add Z.opp zneq 1 [] [mkS2 0 1 5 0 true; mkS2 0 1 3 0 false]%Z = Ok [mkS2 0 1 (-2) 0 false]%Z.
Proof. exact s2_old_refuted_dagger. Qed.
Print Assumptions C12_s2_merge_old_refuted_dagger.

(* ---- Xunitary: shape of the returned circuit ---------------------------------------------------------- *)
(* The corollary chain of DESIGN section 4: Xunitary returns  squeezers ++ mesh(U) on the first half ++ the same
   mesh moved by N modes ++ measurement.  GIVEN (hypotheses, proved elsewhere or not at all: C02/C17) that the
   rectangular_symmetric mesh implements the unitary it is built from, and that moving a command by N modes moves its
   action, the net unitary on modes 0..N-1 and on modes N..2N-1 is U.  That U is the net unitary of the source
   interferometer is C11's theorem; that Interferometer._decompose really is such a `mesh` is validated by the search
   (exact state comparison) only. *)
Definition C12_xunitary_shape_statement : Prop :=
  forall (G M : Type) (mul : M -> M -> M) (one : M) (sem_lo sem_hi : G -> M)
         (shift : G -> G) (mesh : M -> list G) (sq : list G) (meas : G) (U : M),
    (forall V, net mul one sem_lo (mesh V) = V) ->
    (forall g, sem_hi (shift g) = sem_lo g) ->
    xunitary_assemble sq (mesh U) shift meas = sq ++ mesh U ++ map shift (mesh U) ++ [meas] /\
    net mul one sem_lo (mesh U) = U /\ net mul one sem_hi (map shift (mesh U)) = U.

Theorem C12_xunitary_shape_chain : C12_xunitary_shape_statement.
Proof. exact xunitary_shape_chain. Qed.
Print Assumptions C12_xunitary_shape_chain.

(* ---- Borealis: compensated phases ------------------------------------------------------------------ *)
(* For both variants of the loop (fx = false: the code as it stands; fx = true: with the repair of
   fix-borealis-partial-user-offsets.diff), every positive rational pi (np.pi is one), every list of loops and every
   loop l: a skipped loop (user-set; with fx only if no earlier correction is pending) is returned unchanged; otherwise
   each output phase lies in [-pi/2, pi/2] and is congruent modulo pi to  phi_j + corr_l(j) - corr_prev(j), where
   corr_l is the loop's own correction (0 for a user-set loop) and corr_prev the correction of the nearest earlier
   loop that was not skipped (0 if none). *)
Theorem C12_borealis_range :
  forall (fx : bool) (pi : Q), (0 < pi)%Q -> forall loops cp l L out,
    nth_error loops l = Some L -> nth_error (update_loops fx pi loops cp) l = Some out ->
    length out = length (l_phis L) /\
    if skips fx L (prev_of fx loops cp l) then out = l_phis L
    else forall j y, nth_error out j = Some y ->
         (- (1 # 2) * pi <= y /\ y <= (1 # 2) * pi /\
          exists phi, nth_error (l_phis L) j = Some phi /\
            exists k : Z, y == phi + eff_corr fx L j - prev_of fx loops cp l j + inject_Z k * pi)%Q.
Proof. exact update_loops_spec. Qed.
Print Assumptions C12_borealis_range.

(* the congruence is modulo pi, not 2 pi: the range correction can move a phase by an odd multiple of pi
   (recorded finding borealis:pi-range-correction) *)
Theorem C12_borealis_pi_shift_refuted :
  exists pi x : Q, (0 < pi)%Q /\
    ~ exists k : Z, (fix_phase pi (- (1 # 2) * pi) ((1 # 2) * pi) x == x + inject_Z (2 * k) * pi)%Q.
Proof. exact fix_phase_pi_shift_exists. Qed.
Print Assumptions C12_borealis_pi_shift_refuted.

(* ---- Borealis: insertion of loop-offset gates -------------------------------------------------------- *)
(* For both variants (fx as above, repair fix-borealis-truncated-program.diff): if Borealis.compile's insertion loop
   succeeds, the result covers the layout and agrees with it position by position in gate type and wires, and the
   user's commands all survive in their order. *)
Theorem C12_borealis_insert :
  forall fx circ seq out uo, insert_offsets fx circ seq = Some (out, uo) ->
    subseq seq out /\ length circ <= length out /\
    forall i c, nth_error circ i = Some c -> exists o, nth_error out i = Some o /\ ops_equal c o = true.
Proof. exact insert_offsets_full. Qed.
Print Assumptions C12_borealis_insert.

(* with the repair _user_offsets has one entry per loop-offset gate of the layout for EVERY program; without it a
   program that stops early gets fewer (finding borealis:truncated-program:IndexError) *)
Theorem C12_borealis_user_offsets_complete :
  forall circ seq out uo, insert_offsets true circ seq = Some (out, uo) -> length uo = length (filter b_off circ).
Proof. exact insert_offsets_uo_complete. Qed.
Print Assumptions C12_borealis_user_offsets_complete.

Theorem C12_borealis_user_offsets_old_refuted :
  exists circ seq out uo, insert_offsets false circ seq = Some (out, uo) /\ length uo < length (filter b_off circ).
Proof. exact insert_offsets_uo_incomplete_old. Qed.
Print Assumptions C12_borealis_user_offsets_old_refuted.

(* ---- tdm/utils.py: vacuum_padding ---------------------------------------------------------------------- *)
(* loops = [(zero pattern of the loop's BSgate list, the loop's delay)] in loop order.  For every number of loops,
   every pattern and every delay: the delay imposed by a loop never exceeds the loop's delay, is the full delay for an
   all-zero list (of ANY length, also shorter than the delay) and for at least `delay` leading zeros, and the number of
   leading zeros otherwise; the i-th prologue is the sum of the delays imposed by the earlier loops; prologue +
   epilogue = crop = the sum of all imposed delays; every padded list is `crop` entries longer than the unpadded one. *)
Theorem C12_vacuum_padding :
  (forall z D, delay_imposed z D <= D /\
               (forallb (fun b => b) z = true -> delay_imposed z D = D) /\
               (D <= start_zeros z -> delay_imposed z D = D) /\
               (start_zeros z < length z -> start_zeros z <= D -> delay_imposed z D = start_zeros z)) /\
  (forall loops,
    let '(pro, epi, crop) := padding_plan loops in
    length pro = length loops /\ length epi = length loops /\ crop = list_sum (delays_of loops) /\
    forall i p, nth_error pro i = Some p ->
      p = list_sum (firstn i (delays_of loops)) /\
      nth_error epi i = Some (crop - p) /\ p + (crop - p) = crop /\
      forall (A : Type) (zero : A) (l : list A), length (pad zero p (crop - p) l) = length l + crop).
Proof. exact (conj delay_imposed_cases padding_plan_spec). Qed.
Print Assumptions C12_vacuum_padding.

(* the imposed delay is the first time bin in which light can leave the loop stage (may-reach model of one delay
   loop fed with one pulse per entry of the list, cross state where the entry is zero and in the padding): this is why
   the next loop's gates -- and finally the detector's first non-vacuum bin, `crop` -- start that many bins later *)
Theorem C12_vacuum_padding_first_exit :
  forall z D, 1 <= D -> 1 <= length z ->
    (forall t, t < delay_imposed z D -> exits D (length z) z t = false) /\
    exits D (length z) z (delay_imposed z D) = true.
Proof. exact first_exit. Qed.
Print Assumptions C12_vacuum_padding_first_exit.

(* hypotheses are satisfiable / the functions are not vacuous *)
Example C12_ex_validate :
  validate Z Z.add Z.sub Z.leb [(0, [mkRange 0%Z 10%Z 1%Z])] [(0, Node [Leaf 11%Z; Node [Leaf (-1)%Z]])] = VOk.
Proof. reflexivity. Qed.
Example C12_ex_merge :
  s2_stage Z 0%Z Z.add Z.opp zneq 2 [1] [mkS2 0 2 5%Z 0%Z false; mkS2 0 2 7%Z 0%Z true]
  = Ok [mkS2 1 3 0%Z 0%Z false; mkS2 0 2 (-2)%Z 0%Z false].
Proof. reflexivity. Qed.
Example C12_ex_insert :
  insert_offsets false [mkB 0 [3] false 0 false; mkB 1 [3] true 1 true; mkB 1 [2] false 2 true] [mkB 0 [3] false 10 false; mkB 1 [2] false 11 false]
  = Some ([mkB 0 [3] false 10 false; mkB 1 [3] true 1 true; mkB 1 [2] false 11 false], [false]).
Proof. reflexivity. Qed.
Example C12_ex_padding :
  padding_plan [([true; false; true], 1); ([true; true; true], 6); ([false; true; true], 36)] = ([0; 1; 7], [7; 6; 0], 7).
Proof. reflexivity. Qed.
