(* C06 — Measurements sample the Born distribution and condition the rest correctly.
   Only statements, each closed by `exact`, each followed by its axiom audit.
   Scalars: any type K with operations satisfying Coq's `field_theory` (so: the reals, the rationals).
   Not stated here (see MANIFEST text): the Born rule as physics, the Fock-backend homodyne pdf, the
   hafnian / torontonian samplers, the bosonic rejection sampler and re-weighting (checked on the
   implementation by the search instead). *)
From Coq Require Import List Arith Bool Sorted Field_theory QArith Qcanon.
Import ListNotations.
Close Scope Qc_scope.
Close Scope Q_scope.
Open Scope nat_scope.
From SFV Require Import C06.Model C06.ProofsSort C06.ProofsCollate C06.ProofsFock C06.ProofsDyne C06.ProofsRefuted.

(* --- sample collation (engine.py) : every run history --------------------------------------- *)

Theorem C06_collation_dict : forall (V : Type) (h : list (mcmd V)) (m : nat),
  sd_get V (run_cmds V h) m = outcomes_of V h m.
Proof. exact collation_dict. Qed.
Print Assumptions C06_collation_dict.

Theorem C06_collation_samples : forall (V : Type) (h : list (mcmd V)),
  let sc := sorted_cols V (run_cmds V h) in
  StronglySorted lt (map fst sc)
  /\ (forall (m : nat) (v : V), In (m, v) sc <-> lastopt V (outcomes_of V h m) = Some v).
Proof. exact collation_samples. Qed.
Print Assumptions C06_collation_samples.

(* --- Fock photon counting (fockbackend/circuit.py measure_fock, ops.unIndex) ------------------ *)

Theorem C06_fock_unindex_of_ravel : forall (idx : list nat) (t : nat),
  Forall (fun d => d < t) idx -> unIndex (ravel idx t) (length idx) t = idx.
Proof. exact unIndex_ravel. Qed.
Print Assumptions C06_fock_unindex_of_ravel.

Theorem C06_fock_ravel_of_unindex : forall n i t : nat, i < t ^ n -> ravel (unIndex i n t) t = i.
Proof. exact ravel_unIndex. Qed.
Print Assumptions C06_fock_ravel_of_unindex.

Theorem C06_fock_outcome_order : forall (measure : list nat) (flat t : nat),
  NoDup measure -> forall j : nat, j < length measure ->
  nth j (fock_outcome measure flat t) 0
  = nth (rank measure (nth j measure 0)) (unIndex flat (length measure) t) 0.
Proof. exact fock_outcome_order. Qed.
Print Assumptions C06_fock_outcome_order.

(* --- general-dyne update (gaussiancircuit.py measure_dyne and the post_select functions) --- *)

Theorem C06_dyne_conditional_cov :
  forall (K : Type) (k0 k1 : K) (kadd kmul ksub : K -> K -> K) (kopp : K -> K) (kdiv : K -> K -> K) (kinv : K -> K),
  field_theory k0 k1 kadd kmul ksub kopp kdiv kinv eq ->
  forall (V sig : mat K) (k i j : nat), deleted k i = false -> deleted k j = false ->
  dyne_cov K k0 k1 kadd kmul ksub kopp kdiv V sig k i j
  = textbook_cov K kadd kmul ksub V (inv2 K kmul ksub kopp kdiv (madd K kadd (blockC K V k) sig)) k i j.
Proof. exact dyne_cov_kept. Qed.
Print Assumptions C06_dyne_conditional_cov.

Theorem C06_dyne_measured_mode_vacuum :
  forall (K : Type) (k0 k1 : K) (kadd kmul ksub : K -> K -> K) (kopp : K -> K) (kdiv : K -> K -> K)
         (V sig : mat K) (k i j : nat),
  deleted k i = true \/ deleted k j = true ->
  dyne_cov K k0 k1 kadd kmul ksub kopp kdiv V sig k i j = (if Nat.eqb i j then k1 else k0).
Proof. exact dyne_cov_measured. Qed.
Print Assumptions C06_dyne_measured_mode_vacuum.

Theorem C06_dyne_conditional_mean :
  forall (K : Type) (k0 k1 : K) (kadd kmul ksub : K -> K -> K) (kopp : K -> K) (kdiv : K -> K -> K) (kinv : K -> K),
  field_theory k0 k1 kadd kmul ksub kopp kdiv kinv eq ->
  forall (r : vec K) (V sig : mat K) (k : nat) (m : vec K) (i : nat), deleted k i = false ->
  dyne_mean K k0 kadd kmul ksub kopp kdiv r V sig k m i
  = textbook_mean K kadd kmul ksub r V (inv2 K kmul ksub kopp kdiv (madd K kadd (blockC K V k) sig)) k m i.
Proof. exact dyne_mean_kept. Qed.
Print Assumptions C06_dyne_conditional_mean.

Theorem C06_dyne_measured_mode_mean_zero :
  forall (K : Type) (k0 : K) (kadd kmul ksub : K -> K -> K) (kopp : K -> K) (kdiv : K -> K -> K)
         (r : vec K) (V sig : mat K) (k : nat) (m : vec K) (i : nat),
  deleted k i = true -> dyne_mean K k0 kadd kmul ksub kopp kdiv r V sig k m i = k0.
Proof. exact dyne_mean_measured. Qed.
Print Assumptions C06_dyne_measured_mode_mean_zero.

Theorem C06_dyne_inverse_is_inverse :
  forall (K : Type) (k0 k1 : K) (kadd kmul ksub : K -> K -> K) (kopp : K -> K) (kdiv : K -> K -> K) (kinv : K -> K),
  field_theory k0 k1 kadd kmul ksub kopp kdiv kinv eq ->
  forall M : mat K, det2 K kmul ksub M <> k0 ->
  kadd (kmul (M 0 0) (inv2 K kmul ksub kopp kdiv M 0 0)) (kmul (M 0 1) (inv2 K kmul ksub kopp kdiv M 1 0)) = k1 /\
  kadd (kmul (M 0 0) (inv2 K kmul ksub kopp kdiv M 0 1)) (kmul (M 0 1) (inv2 K kmul ksub kopp kdiv M 1 1)) = k0 /\
  kadd (kmul (M 1 0) (inv2 K kmul ksub kopp kdiv M 0 0)) (kmul (M 1 1) (inv2 K kmul ksub kopp kdiv M 1 0)) = k0 /\
  kadd (kmul (M 1 0) (inv2 K kmul ksub kopp kdiv M 0 1)) (kmul (M 1 1) (inv2 K kmul ksub kopp kdiv M 1 1)) = k1.
Proof. exact inv2_right. Qed.
Print Assumptions C06_dyne_inverse_is_inverse.

(* --- what is handed to numpy.random -------------------------------------------------------- *)

Theorem C06_rng_args :
  forall (K : Type) (kadd : K -> K -> K) (r : vec K) (V sig : mat K) (k a b : nat),
  dyne_rng_mean K r k a = r (2 * k + a)
  /\ dyne_rng_cov K kadd V sig k a b = kadd (V (2 * k + a) (2 * k + b)) (sig a b).
Proof. exact rng_args. Qed.
Print Assumptions C06_rng_args.

Theorem C06_rng_homodyne_quadrature_marginal :
  forall (K : Type) (k0 k1 : K) (kadd kmul : K -> K -> K) (kopp : K -> K) (kdiv : K -> K -> K)
         (r : vec K) (V : mat K) (k : nat) (c s eps : K),
  let x := 2 * k in let p := S (2 * k) in
  gb_homodyne_rng K k0 k1 kadd kmul kopp kdiv r V k c s eps
  = (kadd (kmul c (r x)) (kmul s (r p)),
     kadd (kadd (kmul c (kadd (kmul c (V x x)) (kmul s (V p x))))
                (kmul s (kadd (kmul c (V x p)) (kmul s (V p p)))))
          (kmul eps eps)).
Proof. exact homodyne_rng_is_quadrature_marginal. Qed.
Print Assumptions C06_rng_homodyne_quadrature_marginal.

(* --- the same post-selection on both phase-space simulators ---------------------------------- *)

Theorem C06_gauss_bosonic_select_homodyne :
  forall (K : Type) (k0 k1 : K) (kadd kmul ksub : K -> K -> K) (kopp : K -> K) (kdiv : K -> K -> K)
         (r : vec K) (V : mat K) (k : nat) (c s q select eps : K),
  bb_homodyne_select K k0 k1 kadd kmul ksub kopp kdiv r V k c s q select eps
  = fst (gb_homodyne_select K k0 k1 kadd kmul ksub kopp kdiv r V k c s q select eps k0).
Proof. exact homodyne_select_agree. Qed.
Print Assumptions C06_gauss_bosonic_select_homodyne.

Theorem C06_gauss_homodyne_pdraw_term :
  forall (K : Type) (k0 k1 : K) (kadd kmul ksub : K -> K -> K) (kopp : K -> K) (kdiv : K -> K -> K) (kinv : K -> K),
  field_theory k0 k1 kadd kmul ksub kopp kdiv kinv eq ->
  forall (r : vec K) (V : mat K) (k : nat) (val eps d1 : K) (i : nat), deleted k i = false ->
  let W := inv2 K kmul ksub kopp kdiv (madd K kadd (blockC K V k) (sig_hom K k0 k1 kmul kdiv eps)) in
  fst (fst (g_post_select_homodyne K k0 k1 kadd kmul ksub kopp kdiv r V k val eps d1)) i
  = kadd (fst (fst (g_post_select_homodyne K k0 k1 kadd kmul ksub kopp kdiv r V k val eps k0)) i)
         (kmul (kadd (kmul (V i (2 * k)) (W 0 1)) (kmul (V i (S (2 * k))) (W 1 1))) d1).
Proof. exact homodyne_pdraw_term. Qed.
Print Assumptions C06_gauss_homodyne_pdraw_term.

(* heterodyne: same value => same conditional state (holds since fix a15d68b of
   BosonicBackend.measure_heterodyne) *)
Theorem C06_gauss_bosonic_select_heterodyne :
  forall (K : Type) (k0 k1 : K) (kadd kmul ksub : K -> K -> K) (kopp : K -> K) (kdiv : K -> K -> K)
         (r : vec K) (V : mat K) (k : nat) (are aim : K),
  b_post_select_heterodyne K k0 k1 kadd kmul ksub kopp kdiv r V k are aim
  = g_post_select_heterodyne K k0 k1 kadd kmul ksub kopp kdiv r V k are aim.
Proof. exact heterodyne_select_agree. Qed.
Print Assumptions C06_gauss_bosonic_select_heterodyne.

(* the entry point as it stood before that fix (b_post_select_heterodyne_old: alpha handed to the
   circuit unscaled) did not satisfy the statement; witness and exact gap kept machine-checked *)
Theorem C06_gauss_bosonic_select_heterodyne_old_refuted :
  exists (r : vec Qc) (V : mat Qc) (k : nat) (are aim : Qc) (i : nat),
    fst (g_het r V k are aim) i <> fst (b_het_old r V k are aim) i.
Proof. exact heterodyne_select_old_refuted. Qed.
Print Assumptions C06_gauss_bosonic_select_heterodyne_old_refuted.

Theorem C06_gauss_bosonic_select_heterodyne_old_gap :
  forall (K : Type) (k0 k1 : K) (kadd kmul ksub : K -> K -> K) (kopp : K -> K) (kdiv : K -> K -> K) (kinv : K -> K),
  field_theory k0 k1 kadd kmul ksub kopp kdiv kinv eq ->
  forall (r : vec K) (V : mat K) (k : nat) (are aim : K) (i : nat), deleted k i = false ->
  let W := inv2 K kmul ksub kopp kdiv (madd K kadd (blockC K V k) (sig_het K k0 k1)) in
  fst (g_post_select_heterodyne K k0 k1 kadd kmul ksub kopp kdiv r V k are aim) i
  = kadd (fst (b_post_select_heterodyne_old K k0 k1 kadd kmul ksub kopp kdiv r V k are aim) i)
         (kadd (kmul (kadd (kmul (V i (2 * k)) (W 0 0)) (kmul (V i (S (2 * k))) (W 1 0))) are)
               (kmul (kadd (kmul (V i (2 * k)) (W 0 1)) (kmul (V i (S (2 * k))) (W 1 1))) aim)).
Proof. exact heterodyne_select_gap_old. Qed.
Print Assumptions C06_gauss_bosonic_select_heterodyne_old_gap.

(* --- value scaling (backend.py measure_homodyne, ops.py MeasureHomodyne._apply) --------------- *)

Theorem C06_backend_scaling_roundtrip :
  forall (K : Type) (k0 k1 : K) (kadd kmul ksub : K -> K -> K) (kopp : K -> K) (kdiv : K -> K -> K) (kinv : K -> K),
  field_theory k0 k1 kadd kmul ksub kopp kdiv kinv eq ->
  forall q select : K, q <> k0 -> two K k1 kadd <> k0 ->
  backend_ret K k1 kadd kmul kdiv q (backend_val K k1 kadd kmul kdiv q select) = select.
Proof. exact backend_scaling_roundtrip. Qed.
Print Assumptions C06_backend_scaling_roundtrip.

Theorem C06_front_scaling_roundtrip :
  forall (K : Type) (k0 k1 : K) (kadd kmul ksub : K -> K -> K) (kopp : K -> K) (kdiv : K -> K -> K) (kinv : K -> K),
  field_theory k0 k1 kadd kmul ksub kopp kdiv kinv eq ->
  forall sc select : K, sc <> k0 ->
  front_result K kmul sc (front_select K kdiv sc select) = select.
Proof. exact front_scaling_roundtrip. Qed.
Print Assumptions C06_front_scaling_roundtrip.

(* --- hypotheses are satisfiable --------------------------------------------------------------- *)
Example C06_field_hypothesis_inhabited : field_theory 0%Qc 1%Qc Qcplus Qcmult Qcminus Qcopp Qcdiv Qcinv eq.
Proof. exact Qcft. Qed.
Example C06_det_hypothesis_inhabited :
  det2 Qc Qcmult Qcminus (madd Qc Qcplus (chopC Qc Vw 0%nat) (sig_het Qc 0%Qc 1%Qc)) <> 0%Qc.
Proof. exact witness_det_nonzero. Qed.
Example C06_outcome_order_hypothesis_inhabited : NoDup [2; 0; 1] /\ 1 < length [2; 0; 1].
Proof. split; [repeat constructor; simpl; intuition discriminate | simpl; auto]. Qed.
Example C06_unindex_hypothesis_inhabited : Forall (fun d => d < 3) [2; 0; 1] /\ 5 < 3 ^ 2.
Proof. split; [repeat constructor | simpl; auto]. Qed.
