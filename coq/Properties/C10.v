(* C10 — symbolic parameters behave exactly like the values they stand for.
   Only statements, closed by `exact`, each followed by its axiom audit. *)
From Coq Require Import List Arith Bool.
Import ListNotations.
From SFV Require Import C10.Model C10.Proofs.

Section C10.
Variable K : Type.
Variables (kadd kmul kdiv : K -> K -> K) (kneg : K -> K) (kone : K).
Variable fn1 : nat -> K -> K.
Variable fn2 : nat -> K -> K -> K.
Notation ev := (@ev K kadd kmul kdiv kneg kone fn1 fn2).

Theorem C10_subst_eval : forall rho sf sm (e : expr K),
  ev rho (subst sf sm e) = ev (env_override rho sf sm) e.
Proof. exact (subst_eval kadd kmul kdiv kneg kone fn1 fn2). Qed.
End C10.
Print Assumptions C10_subst_eval.
