(* C10 — symbolic parameters behave exactly like the values they stand for.
   Only statements, closed by `exact`, each followed by its axiom audit, plus Examples showing that the
   hypotheses are satisfiable.  Scalars K and all operations on them (including the elementary-function
   table fn1/fn2) are universally quantified: every theorem holds for the reals with the real functions. *)
From Coq Require Import List Arith Bool.
Import ListNotations.
From SFV Require Import C10.Model C10.Proofs C10.Engine C10.EngineProofs C10.Decomp.

Section C10.
Variable K : Type.
Variables (kadd kmul kdiv : K -> K -> K) (kneg : K -> K) (kone : K).
Variable fn1 : nat -> K -> K.
Variable fn2 : nat -> K -> K -> K.
Notation ev := (@ev K kadd kmul kdiv kneg kone fn1 fn2).
Notation run_seg := (@run_seg K kadd kmul kdiv kneg kone fn1 fn2).
Notation run_segs := (@run_segs K kadd kmul kdiv kneg kone fn1 fn2).
Notation run_segs_old := (@run_segs_old K kadd kmul kdiv kneg kone fn1 fn2).

(* substituting numbers for (some or all) free / measured atoms commutes with evaluation *)
Theorem C10_subst_eval : forall rho sf sm (e : expr K),
  ev rho (subst sf sm e) = ev (env_override rho sf sm) e.
Proof. exact (subst_eval kadd kmul kdiv kneg kone fn1 fn2). Qed.

(* ParameterError exactly when some atom of the expression is unbound-without-default / unmeasured:
   nothing defaults silently, nothing bound raises *)
Theorem C10_no_silent_default : forall rho (e : expr K),
  ev rho e = ParamErr <-> exists a, In a (atoms e) /\ bound rho a = false.
Proof. exact (ev_parerr_iff kadd kmul kdiv kneg kone fn1 fn2). Qed.

(* par_regref_deps returns exactly the measured atoms ... *)
Theorem C10_deps_exact : forall (e : expr K) k, In k (deps e) <-> In (AMeas k) (atoms e).
Proof. exact (deps_exact kadd kmul kdiv kneg kone fn1 fn2). Qed.

(* ... and the value of a parameter depends on nothing else of the measured store (what scheduling uses) *)
Theorem C10_eval_depends_only_on_deps : forall rho rho' (e : expr K),
  (forall n, In n (frees e) -> efree rho n = efree rho' n) ->
  (forall k, In k (deps e) -> emeas rho k = emeas rho' k) ->
  ev rho e = ev rho' e.
Proof. exact (ev_frame kadd kmul kdiv kneg kone fn1 fn2). Qed.

(* for every history of measure / re-prepare / use / reset events of one program, the store holds the most
   recent outcome of every mode ... *)
Theorem C10_latest : forall free h (s : store K) k,
  fst (run_seg free s h) k = latest h k (s k).
Proof. exact (latest_store kadd kmul kdiv kneg kone fn1 fn2). Qed.

(* ... every use evaluates its parameter under the most recent outcomes at that point of the history ... *)
Theorem C10_use_sees_latest : forall free h1 e h2 (s : store K),
  snd (run_seg free s (h1 ++ EUse e :: h2)) =
  snd (run_seg free s h1) ++ ev (mkEnv free (fun k => latest h1 k (s k))) e
    :: snd (run_seg free (fst (run_seg free s h1)) h2).
Proof. exact (use_sees_latest kadd kmul kdiv kneg kone fn1 fn2). Qed.

(* ... and a use of mode k's outcome before any measurement of k (or after a reset) raises ParameterError *)
Theorem C10_use_before_measure : forall free h1 e h2 (s : store K) k,
  In k (deps e) -> latest h1 k (s k) = None ->
  nth_error (snd (run_seg free s (h1 ++ EUse e :: h2))) (length (snd (run_seg free s h1))) = Some ParamErr.
Proof. exact (use_before_measure kadd kmul kdiv kneg kone fn1 fn2). Qed.

(* several program segments on one engine (BaseEngine._run as it is now: the engine's table of latest
   outcomes per mode is written into the next segment's RegRefs, whether that Program object was built
   before ("eager") or from its predecessor after it ran ("lazy")): running the segments one after the other
   evaluates every use to exactly what the concatenated program evaluates it to, and leaves the same store;
   hence C10_latest / C10_use_sees_latest / C10_use_before_measure hold across segments and resets *)
Theorem C10_segments : forall (lazy : bool) free (segs : list (list (event K))),
  snd (run_segs lazy free (@empty K) [] segs) = snd (run_seg free (@empty K) (concat segs)) /\
  (forall k, fst (run_segs lazy free (@empty K) [] segs) k = fst (run_seg free (@empty K) (concat segs)) k).
Proof. exact (segs_concat kadd kmul kdiv kneg kone fn1 fn2). Qed.

(* REFUTED for the hand-over as it was before fix 711526c (`for k, v in enumerate(self.samples)`,
   definitions run_segs_old / fwd_written_old): a value measured on mode 1 was lost ... *)
Theorem C10_segments_old_refuted : forall free (x : K),
  run_segs_old free (@empty K) [[EMeas [1] [[x]]]; [EUse (Meas 1)]] = (upd (@empty K) 0 [x], [ParamErr])
  /\ snd (run_seg free (@empty K) (concat [[EMeas [1] [[x]]]; [EUse (Meas 1)]])) = [Ok (S x)].
Proof. exact (segs_old_loses kadd kmul kdiv kneg kone fn1 fn2). Qed.

(* ... and mode 0's parameter silently evaluated to mode 1's outcome where ParameterError is due *)
Theorem C10_segments_old_wrong_mode_refuted : forall free (x : K),
  snd (run_segs_old free (@empty K) [[EMeas [1] [[x]]]; [EUse (Meas 0)]]) = [Ok (S x)]
  /\ snd (run_seg free (@empty K) (concat [[EMeas [1] [[x]]]; [EUse (Meas 0)]])) = [ParamErr].
Proof. exact (segs_old_wrong_mode kadd kmul kdiv kneg kone fn1 fn2). Qed.

(* Program.bind_params raises for an unknown name and only then ... *)
Theorem C10_bind_unknown_raises : forall b (fs : fstore K),
  snd (bind_params fs b) = true <-> Forall (fun nv => fs (fst nv) <> None) b.
Proof. exact (@bind_ok_iff K). Qed.

(* ... a bound name evaluates to the bound value (not to its default), other parameters are untouched *)
Theorem C10_bind_value : forall b (fs : fstore K) n v,
  NoDup (map fst b) -> In (n, v) b -> snd (bind_params fs b) = true ->
  free_env (fst (bind_params fs b)) n = Some v.
Proof. exact (@bind_value K). Qed.

Theorem C10_bind_frame : forall b (fs : fstore K) m,
  ~ In m (map fst b) -> fst (bind_params fs b) m = fs m.
Proof. exact (@bind_other K). Qed.

(* decomposition commutes with evaluation, for every entry of the table (Xgate, Zgate, Pgate, MZgate,
   sMZgate, S2gate, CXgate, CZgate, Fouriergate, DisplacedSqueezed), daggered or not *)
Theorem C10_decomp_commutes : forall (cval : nat -> K) rho (ge : gate (expr K)) (gv : gate K),
  eval_gate kadd kmul kdiv kneg kone fn1 fn2 rho ge = inj_gate gv ->
  option_map (map (eval_gate kadd kmul kdiv kneg kone fn1 fn2 rho)) (decomp_sym cval ge)
  = option_map (map (@inj_gate K)) (decomp_num kadd kmul kdiv kneg kone fn1 fn2 cval gv).
Proof. exact (@decomp_commutes K kadd kmul kdiv kneg kone fn1 fn2). Qed.

End C10.
Print Assumptions C10_subst_eval.
Print Assumptions C10_no_silent_default.
Print Assumptions C10_deps_exact.
Print Assumptions C10_eval_depends_only_on_deps.
Print Assumptions C10_latest.
Print Assumptions C10_use_sees_latest.
Print Assumptions C10_use_before_measure.
Print Assumptions C10_segments.
Print Assumptions C10_segments_old_refuted.
Print Assumptions C10_segments_old_wrong_mode_refuted.
Print Assumptions C10_bind_unknown_raises.
Print Assumptions C10_bind_value.
Print Assumptions C10_bind_frame.
Print Assumptions C10_decomp_commutes.

(* The hypotheses are satisfiable (instances over K := nat with + * / -): *)
Example C10_ex_unbound :
  ev Nat.add Nat.mul Nat.div (fun x => x) 1 (fun _ x => x) (fun _ x _ => x)
     (mkEnv (fun _ => None) (fun k => if Nat.eqb k 0 then Some [7] else None)) (Add (Meas 0) (Free 3)) = ParamErr.
Proof. reflexivity. Qed.

Example C10_ex_use_before_measure :
  In 2 (deps (Mul (Meas 2) (Const (S 3)))) /\ latest [EPrep 2; EMeas [0] [[5]]] 2 (@empty nat 2) = None.
Proof. split; [simpl; auto | reflexivity]. Qed.

Example C10_ex_remeasure :
  snd (run_seg Nat.add Nat.mul Nat.div (fun x => x) 1 (fun _ x => x) (fun _ x _ => x) (fun _ => None) (@empty nat)
         [EMeas [0] [[5]]; EUse (Meas 0); EPrep 0; EMeas [0] [[9]]; EUse (Add (Meas 0) (Const (S 1)))])
  = [Ok (S 5); Ok (S 10)].
Proof. reflexivity. Qed.

Example C10_ex_segments :
  snd (run_segs Nat.add Nat.mul Nat.div (fun x => x) 1 (fun _ x => x) (fun _ x _ => x) false (fun _ => None) (@empty nat) []
         [[EMeas [1] [[5]]]; [EPrep 0]; [EUse (Meas 1); EReset; EUse (Meas 1)]])
  = [Ok (S 5); ParamErr].
Proof. reflexivity. Qed.

Example C10_ex_decomp_hypothesis :
  let rho := mkEnv (fun n => if Nat.eqb n 0 then Some (S 6) else None) (fun _ => None) in
  eval_gate Nat.add Nat.mul Nat.div (fun x => x) 1 (fun _ x => x) (fun _ x _ => x) rho (mkG 1 [Free 0] [0] true)
  = inj_gate (mkG 1 [6] [0] true)
  /\ option_map (map (@inj_gate nat)) (decomp_num Nat.add Nat.mul Nat.div (fun x => x) 1 (fun _ x => x) (fun _ x _ => x) (fun c => c + 1) (mkG 1 [6] [0] true))
     = Some [mkG 0 [Ok (S 3); Ok (S 1)] [0] true].
Proof. split; reflexivity. Qed.
