(* C07 — every simulated state is physical; gates conserve what they must.  Statements only.
   The model of GaussianModes is regenerated from gaussiancircuit.py on every run (Gen/GaussCirc.v).
   K is any commutative ring (so in particular the reals); trigonometric / hyperbolic values are inputs
   constrained only by the identities they satisfy. *)
From Coq Require Import Arith List QArith Qcanon.
Import ListNotations.
From SFV Require Import Base.Num Gen.GaussCirc C07.GaussPhysical.

Local Open Scope nat_scope.
Section Statements.
Variable K : Type.
Variables (k0 k1 : K) (kadd kmul ksub : K -> K -> K) (kopp : K -> K).
Hypothesis Kring : ring_theory k0 k1 kadd kmul ksub kopp (@eq K).
Notation NK := (NK K k0 k1 kadd kmul ksub kopp).
Notation wf := (wf K k0 k1 kadd kmul ksub kopp).
Notation photons := (photons K kadd kmul).
Notation sumn := (sumn K k0 kadd).

(* wf s  :=  N Hermitian with real diagonal  /\  M symmetric  (on the nlen x nlen block) *)
Theorem C07_gauss_hermitian_loss : forall q k s, k < nlen s -> wf s -> wf (loss NK q k s).
Proof. exact (loss_wf K k0 k1 kadd kmul ksub kopp Kring). Qed.
Theorem C07_gauss_hermitian_displace : forall r e k s, wf s -> wf (displace NK r e k s).
Proof. exact (displace_wf K k0 k1 kadd kmul ksub kopp). Qed.
Theorem C07_gauss_hermitian_phase_shift : forall e k s, k < nlen s -> wf s -> wf (phase_shift NK e k s).
Proof. exact (phase_shift_wf K k0 k1 kadd kmul ksub kopp Kring). Qed.
Theorem C07_gauss_hermitian_squeeze : forall e sh ch k s, k < nlen s -> wf s -> wf (squeeze NK e sh ch k s).
Proof. exact (squeeze_wf K k0 k1 kadd kmul ksub kopp Kring). Qed.
Theorem C07_gauss_hermitian_beamsplitter : forall e sn cs k l s,
  k < nlen s -> l < nlen s -> k <> l -> wf s -> wf (beamsplitter NK e sn cs k l s).
Proof. exact (beamsplitter_wf K k0 k1 kadd kmul ksub kopp Kring). Qed.
Theorem C07_gauss_hermitian_thermal_loss : forall T nb q k s, k < nlen s -> wf s -> wf (thermal_loss NK T nb q k s).
Proof. exact (thermal_loss_wf K k0 k1 kadd kmul ksub kopp Kring). Qed.
Theorem C07_gauss_hermitian_init_thermal : forall p k s, k < nlen s -> wf s -> wf (init_thermal NK p k s).
Proof. exact (init_thermal_wf K k0 k1 kadd kmul ksub kopp Kring). Qed.

(* photons s i := re N_ii + |alpha_i|^2 : the mean photon number of mode i *)
Theorem C07_passive_photon_number_rotation : forall e k s, k < nlen s -> wf s ->
  kadd (kmul (re e) (re e)) (kmul (im e) (im e)) = k1 ->
  sumn (nlen s) (photons (phase_shift NK e k s)) = sumn (nlen s) (photons s).
Proof. exact (phase_shift_total K k0 k1 kadd kmul ksub kopp Kring). Qed.

Theorem C07_passive_photon_number_beamsplitter : forall er ei sn cs k l s,
  k < nlen s -> l < nlen s -> k <> l -> wf s ->
  kmul cs cs = ksub k1 (kmul sn sn) -> kmul er er = ksub k1 (kmul ei ei) ->
  sumn (nlen s) (photons (beamsplitter NK (mkC er ei) sn cs k l s)) = sumn (nlen s) (photons s).
Proof. exact (beamsplitter_total K k0 k1 kadd kmul ksub kopp Kring). Qed.

Theorem C07_loss_monotone : forall q T k s, k < nlen s -> wf s -> kmul q q = T ->
  photons (loss NK q k s) k = kmul T (photons s k) /\ (forall i, i <> k -> photons (loss NK q k s) i = photons s i).
Proof.
  intros q T k s Hk Hw HT. split.
  - exact (loss_photons K k0 k1 kadd kmul ksub kopp Kring q T k s Hk Hw HT).
  - intros i Hi. exact (loss_photons_other K k0 k1 kadd kmul ksub kopp q k s i Hi).
Qed.
End Statements.

Print Assumptions C07_gauss_hermitian_loss.
Print Assumptions C07_gauss_hermitian_displace.
Print Assumptions C07_gauss_hermitian_phase_shift.
Print Assumptions C07_gauss_hermitian_squeeze.
Print Assumptions C07_gauss_hermitian_beamsplitter.
Print Assumptions C07_gauss_hermitian_thermal_loss.
Print Assumptions C07_gauss_hermitian_init_thermal.
Print Assumptions C07_passive_photon_number_rotation.
Print Assumptions C07_passive_photon_number_beamsplitter.
Print Assumptions C07_loss_monotone.

(* the hypotheses are satisfiable: rationals form such a ring, (3/5, 4/5) is a point of the unit circle
   other than (1, 0), and the vacuum state is well-formed *)
Example C07_ring_instance : ring_theory 0%Qc 1%Qc Qcplus Qcmult Qcminus Qcopp (@eq Qc).
Proof. exact Qcrt. Qed.
Example C07_circle_point : (Q2Qc (3#5) * Q2Qc (3#5) = 1 - Q2Qc (4#5) * Q2Qc (4#5))%Qc.
Proof. apply Qc_is_canon. vm_compute. reflexivity. Qed.
Example C07_vacuum_wf : forall n,
  GaussPhysical.wf Qc 0%Qc 1%Qc Qcplus Qcmult Qcminus Qcopp
    (mkSt n (fun _ _ => mkC 0%Qc 0%Qc) (fun _ _ => mkC 0%Qc 0%Qc) (fun _ => mkC 0%Qc 0%Qc)).
Proof.
  intros n. split; [split|].
  - intros i j _ _. apply Ceq; [reflexivity|]. apply Qc_is_canon. vm_compute. reflexivity.
  - intros i _. reflexivity.
  - intros i j _ _. reflexivity.
Qed.

(* The documented matrices are symplectic (S Omega S^T = Omega under the same congruence used in C01): together with
   C01_gauss_<op>_is_phase_space this gives  V' + i Omega = S (V + i Omega) S^T  for the unitary Gaussian gates, i.e. the
   uncertainty relation is transported by a congruence.  (Positivity itself needs an ordered field: search only.) *)
From SFV Require Import Base.PhaseSpace C07.Symplectic.
Local Open Scope nat_scope.
Section Symplectic.
Variable K : Type.
Variables (k0 k1 : K) (kadd kmul ksub : K -> K -> K) (kopp : K -> K).
Hypothesis Kring : ring_theory k0 k1 kadd kmul ksub kopp (@eq K).
Notation NKs := (Symplectic.NK K k0 k1 kadd kmul ksub kopp).
Notation Om := (Omega K k0 k1 kopp).

Theorem C07_gauss_symplectic_rotation : forall c s k q1 q2 a b, kmul c c = ksub k1 (kmul s s) ->
  congr NKs (S_rot NKs c s) [k] Om q1 q2 a b = Om q1 q2 a b.
Proof. exact (rot_symplectic K k0 k1 kadd kmul ksub kopp Kring). Qed.
Theorem C07_gauss_symplectic_squeeze : forall c s sh ch k q1 q2 a b,
  kmul c c = ksub k1 (kmul s s) -> kmul ch ch = kadd k1 (kmul sh sh) ->
  congr NKs (S_sq NKs c s sh ch) [k] Om q1 q2 a b = Om q1 q2 a b.
Proof. exact (sq_symplectic K k0 k1 kadd kmul ksub kopp Kring). Qed.
Theorem C07_gauss_symplectic_beamsplitter : forall er ei sn cs k l q1 q2 a b, k <> l ->
  kmul er er = ksub k1 (kmul ei ei) -> kmul cs cs = ksub k1 (kmul sn sn) ->
  congr NKs (S_bs NKs er ei sn cs k l) [k; l] Om q1 q2 a b = Om q1 q2 a b.
Proof. exact (bs_symplectic K k0 k1 kadd kmul ksub kopp Kring). Qed.
End Symplectic.
Print Assumptions C07_gauss_symplectic_rotation.
Print Assumptions C07_gauss_symplectic_squeeze.
Print Assumptions C07_gauss_symplectic_beamsplitter.

(* GaussianModes.apply_u (PassiveChannel on the Gaussian backend; model regenerated from the source each run, Gen/GaussMat.v):
   N <- conj(U) N U^T, M <- U M U^T, mean <- U mean keep "N Hermitian with real diagonal, M symmetric" for EVERY matrix U, and
   conserve the total mean photon number whenever the columns of U are orthonormal (any register size). *)
From Coq Require Import Lia.
From SFV Require Import Base.MatOps Gen.GaussMat C07.GaussPassive.
Section Passive.
Variable K : Type.
Variables (k0 k1 : K) (kadd kmul ksub : K -> K -> K) (kopp : K -> K).
Hypothesis Kring : ring_theory k0 k1 kadd kmul ksub kopp (@eq K).
Notation NK := (GaussPhysical.NK K k0 k1 kadd kmul ksub kopp).
Notation wf := (GaussPhysical.wf K k0 k1 kadd kmul ksub kopp).
Notation photons := (GaussPhysical.photons K kadd kmul).
Notation sumn := (GaussPhysical.sumn K k0 kadd).
Theorem C07_gauss_hermitian_apply_u : forall (U : mat (K:=K)) (s : st K), wf s -> wf (apply_u NK U s).
Proof. exact (apply_u_wf K k0 k1 kadd kmul ksub kopp Kring). Qed.
Theorem C07_passive_photon_number_apply_u : forall (U : mat (K:=K)) (s : st K),
  (forall k l, k < nlen s -> l < nlen s ->
     Csum NK (nlen s) (fun i => Cmul NK (Cconj NK (U i k)) (U i l)) = (if Nat.eqb k l then C1 NK else C0 NK)) ->
  sumn (nlen s) (photons (apply_u NK U s)) = sumn (nlen s) (photons s).
Proof. exact (apply_u_photons K k0 k1 kadd kmul ksub kopp Kring). Qed.
End Passive.
Print Assumptions C07_gauss_hermitian_apply_u.
Print Assumptions C07_passive_photon_number_apply_u.
(* the orthonormality hypothesis is satisfiable by a matrix other than the identity: the swap of modes 0 and 1 *)
Example C07_swap_orthonormal :
  let U : mat (K:=Qc) := fun i k => if Nat.eqb (i + k) 1 then mkC 1%Qc 0%Qc else if Nat.eqb i k && Nat.ltb 1 i then mkC 1%Qc 0%Qc else mkC 0%Qc 0%Qc in
  forall k l, k < 3 -> l < 3 ->
    Csum (GaussPhysical.NK Qc 0%Qc 1%Qc Qcplus Qcmult Qcminus Qcopp) 3
      (fun i => Cmul (GaussPhysical.NK Qc 0%Qc 1%Qc Qcplus Qcmult Qcminus Qcopp) (Cconj (GaussPhysical.NK Qc 0%Qc 1%Qc Qcplus Qcmult Qcminus Qcopp) (U i k)) (U i l))
    = (if Nat.eqb k l then C1 (GaussPhysical.NK Qc 0%Qc 1%Qc Qcplus Qcmult Qcminus Qcopp) else C0 (GaussPhysical.NK Qc 0%Qc 1%Qc Qcplus Qcmult Qcminus Qcopp)).
Proof.
  intros U k l Hk Hl.
  destruct k as [|[|[|k]]]; [| | |lia]; (destruct l as [|[|[|l]]]; [| | |lia]); apply Ceq; apply Qc_is_canon; vm_compute; reflexivity.
Qed.

(* Whole programs: any sequence of generated GaussianModes operations (the seven element-wise methods and apply_u) on any register *)
From SFV Require Import C07.GaussProgram.
Section Programs.
Variable K : Type.
Variables (k0 k1 : K) (kadd kmul ksub : K -> K -> K) (kopp : K -> K).
Hypothesis Kring : ring_theory k0 k1 kadd kmul ksub kopp (@eq K).
Notation wf := (GaussPhysical.wf K k0 k1 kadd kmul ksub kopp).
Notation photons := (GaussPhysical.photons K kadd kmul).
Notation sumn := (GaussPhysical.sumn K k0 kadd).
Notation grun := (grun K k0 k1 kadd kmul ksub kopp).
Theorem C07_gauss_program_physical : forall (prog : list (gop K)) (s : st K),
  Forall (in_range K (nlen s)) prog -> wf s -> wf (grun prog s) /\ nlen (grun prog s) = nlen s.
Proof.
  intros prog s F W. split; [exact (grun_wf K k0 k1 kadd kmul ksub kopp Kring prog s F W)|exact (grun_nlen K k0 k1 kadd kmul ksub kopp prog s)].
Qed.
Theorem C07_gauss_passive_program_photon_number : forall (prog : list (gop K)) (s : st K),
  Forall (passive K k0 k1 kadd kmul ksub kopp (nlen s)) prog -> wf s ->
  sumn (nlen s) (photons (grun prog s)) = sumn (nlen s) (photons s).
Proof. exact (grun_passive_total K k0 k1 kadd kmul ksub kopp Kring). Qed.
End Programs.
Print Assumptions C07_gauss_program_physical.
Print Assumptions C07_gauss_passive_program_photon_number.
(* non-vacuity: a rotation by the angle with (cos, sin) = (3/5, 4/5) followed by a beam splitter with the same values is a passive program on 2 modes *)
Example C07_passive_program_exists :
  Forall (passive Qc 0%Qc 1%Qc Qcplus Qcmult Qcminus Qcopp 2)
    [GRotate Qc (mkC (Q2Qc (3#5)) (Q2Qc (4#5))) 1; GBeamsplit Qc (mkC (Q2Qc (3#5)) (Q2Qc (4#5))) (Q2Qc (4#5)) (Q2Qc (3#5)) 0 1].
Proof.
  repeat constructor; simpl; try lia; try discriminate; apply Qc_is_canon; vm_compute; reflexivity.
Qed.
