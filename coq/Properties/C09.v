(* C09 — running programs is compositional and leaves user programs untouched.
   Only statements, closed by `exact`/`apply`, each followed by its axiom audit.  Every theorem is
   universally quantified over the backend (type B and its four entry points), the world (every
   parameter list, every RegRef value, every lock flag) and the programs.  `current` is the model of
   the code as it now is (Gate.apply restores p[0] in a finally clause, the engine hands the latest
   measured value of each mode to the next segment, _linked_copy does not deep-copy `source`);
   `old_code` is the behaviour before those fix commits and appears only in the refutations. *)
From Coq Require Import List ZArith Bool Arith.
Import ListNotations.
From SFV Require Import C09.Model C09.Proofs.

Section Statements.
Variable B : Type.
Variable binit : nat -> B.
Variable bgate : B -> nat -> list nat -> list arr -> option B.
Variable bmeas : B -> nat -> list nat -> list arr -> option (B * list Z).
Variable breset : B -> B.

(* one call with several programs = successive calls (any programs, any engine state, any variant,
   error outcomes included) *)
Theorem C09_compositional_calls : forall V l1 l2 we,
  run_list binit bgate bmeas V we (l1 ++ l2) =
  match run_list binit bgate bmeas V we l1 with
  | Ok we' => run_list binit bgate bmeas V we' l2
  | Err k we' => Err k we'
  end.
Proof. intros; apply run_list_app. Qed.

(* [p1; p2] = the concatenated program, for EVERY pair of programs (also when the second segment
   uses values measured by the first, on any modes): same outcome or same exception, same backend
   state, same parameter lists, and p2's RegRefs end up holding what the concatenated program's hold.
   The hypotheses only say: three user programs (not linked copies) on n modes with distinct,
   existing, clear RegRef sets, and pc's circuit is the concatenation. *)
Theorem C09_compositional_concat : forall w p1 p2 pc n,
  pn p1 = n -> pn p2 = n -> pn pc = n ->
  pcopy p1 = false -> pcopy p2 = false -> pcopy pc = false ->
  pcirc pc = pcirc p1 ++ pcirc p2 ->
  pregs p1 <> pregs p2 ->
  pregs p2 < length (wvals w) -> pregs pc < length (wvals w) ->
  nth (pregs p1) (wvals w) [] = vclear n ->
  nth (pregs p2) (wvals w) [] = vclear n ->
  nth (pregs pc) (wvals w) [] = vclear n ->
  obs B (run_list binit bgate bmeas current (w, fresh) [p1; p2]) = obs B (run_list binit bgate bmeas current (w, fresh) [pc])
  /\ forall w2 e2 wc ec,
       run_list binit bgate bmeas current (w, fresh) [p1; p2] = Ok (w2, e2) ->
       run_list binit bgate bmeas current (w, fresh) [pc] = Ok (wc, ec) ->
       nth (pregs p2) (wvals w2) [] = nth (pregs pc) (wvals wc) [].
Proof. intros; eapply concat_equiv; eauto. Qed.

(* after a reset EVERY later session of run / reset calls (failing calls included) behaves as on a
   new engine: same outcome of every call, same world at the end (parameter lists, RegRef values,
   lock flags), and engines that agree on run history, samples, measured values and -- as soon as
   anything has been run -- on the backend state.  Holds for every variant. *)
Theorem C09_reset_fresh : forall V h w e,
  let after := reset breset (w, e) in
  snd (run_hist binit bgate bmeas breset V after h) = snd (run_hist binit bgate bmeas breset V (fst after, fresh) h)
  /\ fst (fst (run_hist binit bgate bmeas breset V after h)) = fst (fst (run_hist binit bgate bmeas breset V (fst after, fresh) h))
  /\ eng_equiv B (snd (fst (run_hist binit bgate bmeas breset V after h)))
                 (snd (fst (run_hist binit bgate bmeas breset V (fst after, fresh) h))).
Proof. intros; apply reset_then_history. Qed.

Theorem C09_reset_clears : forall w (e : eng B) p,
  In p (erun e) -> pregs p < length (wvals w) ->
  all_none (nth (pregs p) (wvals (fst (reset breset (w, e)))) [])
  /\ erun (snd (reset breset (w, e))) = [] /\ esamples (snd (reset breset (w, e))) = []
  /\ elog (snd (reset breset (w, e))) = [].
Proof. intros; apply reset_clears; auto. Qed.

(* every parameter list of every op object is the same after ANY session of run / reset calls as
   before it, whatever the calls did (ParameterError, backend error, register mismatch included) *)
Theorem C09_store_unchanged : forall h we,
  wstore (fst (fst (run_hist binit bgate bmeas breset current we h))) = wstore (fst we).
Proof. intros; apply run_hist_store; left; reflexivity. Qed.

End Statements.

Print Assumptions C09_compositional_calls.
Print Assumptions C09_compositional_concat.
Print Assumptions C09_reset_fresh.
Print Assumptions C09_reset_clears.
Print Assumptions C09_store_unchanged.

(* Gate.decompose: flipping the dagger flags of pairwise distinct product objects inverts each
   exactly once and touches no other object (in particular none of the user's) *)
Theorem C09_decompose_flips_once : forall ids d, NoDup ids -> (forall i, In i ids -> i < length d) ->
  forall j, nth j (flip_all d ids) false = if existsb (Nat.eqb j) ids then negb (nth j d false) else nth j d false.
Proof. exact flip_all_nodup. Qed.
Print Assumptions C09_decompose_flips_once.

Theorem C09_decompose_twice_restores : forall ids d, NoDup ids -> (forall i, In i ids -> i < length d) ->
  forall j, nth j (flip_all (flip_all d ids) (rev ids)) false = nth j d false.
Proof. exact flip_all_involutive. Qed.
Print Assumptions C09_decompose_twice_restores.

(* what the model of the OLD code (before commits 0e1fbb4, 711526c, 8c7ef76) falsifies; each witness
   is kept as a regression input in corpus/ and holds on the current code *)
Theorem C09_old_store_changed_on_exception_refuted :
  exists w p, match tb_run old_code (w, fresh) [p] with
              | Err EParam (w', _) => wstore w' <> wstore w
              | _ => False
              end.
Proof. exact store_changed_on_exception_refuted. Qed.
Print Assumptions C09_old_store_changed_on_exception_refuted.

Theorem C09_old_compositional_refuted :
  exists w p1 p2 pc, pcirc pc = pcirc p1 ++ pcirc p2 /\
    obs tb (tb_run old_code (w, fresh) [p1; p2]) <> obs tb (tb_run old_code (w, fresh) [pc]).
Proof. exact compositional_old_refuted. Qed.
Print Assumptions C09_old_compositional_refuted.

Theorem C09_old_compositional_wrong_mode_refuted :
  exists w p1 p2 pc, pcirc pc = pcirc p1 ++ pcirc p2 /\
    fst (fst (obs tb (tb_run old_code (w, fresh) [p1; p2]))) = None /\
    fst (fst (obs tb (tb_run old_code (w, fresh) [pc]))) = Some EParam.
Proof. exact compositional_old_wrong_mode_refuted. Qed.
Print Assumptions C09_old_compositional_wrong_mode_refuted.

Theorem C09_old_linked_copy_rerun_refuted :
  exists w c, (match tb_run old_code (w, fresh) [mkProg 1 0 2 true c] with Err EAttr _ => True | _ => False end)
           /\ (match tb_run old_code (w, fresh) [mkProg 0 0 2 false c] with Ok _ => True | _ => False end).
Proof. exact linked_copy_rerun_refuted. Qed.
Print Assumptions C09_old_linked_copy_rerun_refuted.

(* the hypotheses of C09_compositional_concat are satisfiable and its conclusion is not vacuous: the
   very witness that refutes the old code (first segment measures mode 1, second feeds q[1] forward)
   satisfies them, and the two runs agree on the current code *)
Example C09_concat_instance :
  let m1 := mkCmd KMeas 5 1 false [1] in
  let u1 := mkCmd KGate 0 0 false [0] in
  let w := mkWorld [[PMeas 1]; []] [vclear 2; vclear 2; vclear 2] [false; false; false] in
  obs tb (tb_run current (w, fresh) [mkProg 0 0 2 false [m1]; mkProg 1 1 2 false [u1]])
  = obs tb (tb_run current (w, fresh) [mkProg 2 2 2 false [m1; u1]])
  /\ fst (fst (obs tb (tb_run current (w, fresh) [mkProg 2 2 2 false [m1; u1]]))) = None.
Proof. vm_compute. split; reflexivity. Qed.
