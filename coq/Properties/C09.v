(* C09 — running programs is compositional and leaves user programs untouched.
   Only statements, closed by `exact`, each followed by its axiom audit.  Every theorem is
   universally quantified over the backend (type B and its four entry points), the world (every
   parameter list, every RegRef value, every lock flag), the programs and the code variant V
   (as written / repaired) unless a hypothesis restricts it. *)
From Coq Require Import List ZArith Bool Arith.
Import ListNotations.
From SFV Require Import C09.Model C09.Proofs.

Section Statements.
Variable B : Type.
Variable binit : nat -> B.
Variable bgate : B -> nat -> list nat -> list arr -> option B.
Variable bmeas : B -> nat -> list nat -> list arr -> option (B * list Z).
Variable breset : B -> B.

(* one call with several programs = successive calls (any programs, any engine state, both
   variants, error outcomes included) *)
Theorem C09_compositional_calls : forall V l1 l2 we,
  run_list binit bgate bmeas V we (l1 ++ l2) =
  match run_list binit bgate bmeas V we l1 with
  | Ok we' => run_list binit bgate bmeas V we' l2
  | Err k we' => Err k we'
  end.
Proof. intros; apply run_list_app. Qed.

(* [p1; p2] = the concatenated program: same outcome or same exception, same backend state, same
   parameter lists, and p2's RegRefs end up holding what the concatenated program's hold.
   Holds for every program pair once the copy of measured values is by mode (fixed V); for the
   code as written only when the first segment measures no mode other than 0. *)
Theorem C09_compositional_concat : forall V w p1 p2 pc n,
  pn p1 = n -> pn p2 = n -> pn pc = n ->
  pcopy p1 = false -> pcopy p2 = false -> pcopy pc = false ->
  pcirc pc = pcirc p1 ++ pcirc p2 ->
  pregs p1 <> pregs p2 ->
  pregs p2 < length (wvals w) -> pregs pc < length (wvals w) ->
  nth (pregs p1) (wvals w) [] = vclear n ->
  nth (pregs p2) (wvals w) [] = vclear n ->
  nth (pregs pc) (wvals w) [] = vclear n ->
  (fixed V = true \/ meas_only0 (pcirc p1)) ->
  obs B (run_list binit bgate bmeas V (w, fresh) [p1; p2]) = obs B (run_list binit bgate bmeas V (w, fresh) [pc])
  /\ forall w2 e2 wc ec,
       run_list binit bgate bmeas V (w, fresh) [p1; p2] = Ok (w2, e2) ->
       run_list binit bgate bmeas V (w, fresh) [pc] = Ok (wc, ec) ->
       nth (pregs p2) (wvals w2) [] = nth (pregs pc) (wvals wc) [].
Proof. intros; eapply concat_equiv; eauto. Qed.

(* after reset: whatever is run next gives exactly the result, world and engine a new engine gives
   (the hypothesis excludes the one case where the next program is rejected before the engine looks at
   its own state: a linked copy with measured parameters under the deep-copy defect);
   run history, samples and measured values of every program that was run are cleared *)
Theorem C09_reset_fresh : forall V w0 e w p ps,
  pcopy p && negb (linkok V) && circ_symbolic (wstore w) (pcirc p) = false ->
  run_list binit bgate bmeas V (w, snd (reset breset (w0, e))) (p :: ps)
  = run_list binit bgate bmeas V (w, fresh) (p :: ps).
Proof. intros; apply reset_like_fresh; assumption. Qed.

Theorem C09_reset_clears : forall w (e : eng B) p,
  In p (erun e) -> pregs p < length (wvals w) ->
  all_none (nth (pregs p) (wvals (fst (reset breset (w, e)))) [])
  /\ erun (snd (reset breset (w, e))) = [] /\ esamples (snd (reset breset (w, e))) = []
  /\ elog (snd (reset breset (w, e))) = [].
Proof. intros; apply reset_clears; auto. Qed.

(* every parameter list of every op object is the same after a whole session of run / reset calls
   as before it: for the repaired Gate.apply always, for the code as written when no call raised *)
Theorem C09_store_unchanged : forall V h we,
  (safe V = true \/ Forall (fun o => o = None) (snd (run_hist binit bgate bmeas breset V we h))) ->
  wstore (fst (fst (run_hist binit bgate bmeas breset V we h))) = wstore (fst we).
Proof. intros; apply run_hist_store; auto. Qed.

End Statements.

Print Assumptions C09_compositional_calls.
Print Assumptions C09_compositional_concat.
Print Assumptions C09_reset_fresh.
Print Assumptions C09_reset_clears.
Print Assumptions C09_store_unchanged.

(* Gate.decompose: flipping the dagger flags of pairwise distinct product objects inverts each
   exactly once and touches no other object (in particular none of the user's) *)
Theorem C09_decompose_flips_once : forall ids d, NoDup ids -> (forall i, In i ids -> i < length d) ->
  forall j, nth j (flip_all d ids) false = if existsb (Nat.eqb j) ids then negb (nth j d false) else nth j d false.
Proof. exact flip_all_nodup. Qed.
Print Assumptions C09_decompose_flips_once.

Theorem C09_decompose_twice_restores : forall ids d, NoDup ids -> (forall i, In i ids -> i < length d) ->
  forall j, nth j (flip_all (flip_all d ids) (rev ids)) false = nth j d false.
Proof. exact flip_all_involutive. Qed.
Print Assumptions C09_decompose_twice_restores.

(* what the faithful model of the current code falsifies (each replayed on the implementation) *)
Theorem C09_store_changed_on_exception_refuted :
  exists w p, match tb_run as_written (w, fresh) [p] with
              | Err EParam (w', _) => wstore w' <> wstore w
              | _ => False
              end.
Proof. exact store_changed_on_exception_refuted. Qed.
Print Assumptions C09_store_changed_on_exception_refuted.

Theorem C09_compositional_as_written_refuted :
  exists w p1 p2 pc, pcirc pc = pcirc p1 ++ pcirc p2 /\
    obs tb (tb_run as_written (w, fresh) [p1; p2]) <> obs tb (tb_run as_written (w, fresh) [pc]).
Proof. exact compositional_as_written_refuted. Qed.
Print Assumptions C09_compositional_as_written_refuted.

Theorem C09_compositional_as_written_wrong_mode_refuted :
  exists w p1 p2 pc, pcirc pc = pcirc p1 ++ pcirc p2 /\
    fst (fst (obs tb (tb_run as_written (w, fresh) [p1; p2]))) = None /\
    fst (fst (obs tb (tb_run as_written (w, fresh) [pc]))) = Some EParam.
Proof. exact compositional_as_written_wrong_mode_refuted. Qed.
Print Assumptions C09_compositional_as_written_wrong_mode_refuted.

(* the hypotheses of C09_compositional_concat are satisfiable (and its conclusion is not vacuous):
   a first segment that measures mode 0, a second that feeds the value forward *)
Example C09_concat_instance :
  let m0 := mkCmd KMeas 5 1 false [0] in
  let u0 := mkCmd KGate 0 0 false [1] in
  let w := mkWorld [[PMeas 0]; []] [vclear 2; vclear 2; vclear 2] [false; false; false] in
  meas_only0 [m0] /\
  obs tb (tb_run as_written (w, fresh) [mkProg 0 0 2 false [m0]; mkProg 1 1 2 false [u0]])
  = obs tb (tb_run as_written (w, fresh) [mkProg 2 2 2 false [m0; u0]]).
Proof.
  split; [repeat constructor; intros _ m [<-|[]]; reflexivity|vm_compute; reflexivity].
Qed.

Theorem C09_linked_copy_rerun_refuted :
  exists w c, (match tb_run as_written (w, fresh) [mkProg 1 0 2 true c] with Err EAttr _ => True | _ => False end)
           /\ (match tb_run as_written (w, fresh) [mkProg 0 0 2 false c] with Ok _ => True | _ => False end).
Proof. exact linked_copy_rerun_refuted. Qed.
Print Assumptions C09_linked_copy_rerun_refuted.
