(* C19 — GBS application helpers are combinatorially exact and structurally sound.
   Only statements, closed by `exact`, each followed by its axiom audit.
   Models: C19/Similarity.v (similarity.py, sample.py), C19/Clique.v (clique.py), C19/Subgraph.v (subgraph.py).
   `fixed = false` is the source as it stands, `fixed = true` the documented rule (weight-mode indexing).
   Theorems named *_refuted exhibit inputs on which the faithful model breaks the property (recorded in
   known_findings.d/C19.json).  What stays outside a theorem is listed at the end (C19 is `_partial`). *)
From Coq Require Import List Arith NArith ZArith Bool Permutation.
From SFV Require Import C19.Similarity C19.SimilarityProofs C19.SimilarityBounded
                        C19.Clique C19.CliqueProofs C19.Subgraph C19.SubgraphProofs C19.Extra.
Import ListNotations.

(* ============ similarity.py: orbits ============ *)
(* every list yielded by orbits(n), n >= 1, is a partition of n: non-increasing, positive parts, sum n *)
Theorem C19_orbits_sound : forall n o, 1 <= n -> In o (orbits n) -> is_partition n o.
Proof. exact orbits_sound. Qed.
Print Assumptions C19_orbits_sound.

(* ... and 1 <= n is needed: orbits(0) yields [0] *)
Theorem C19_orbits_zero_refuted : exists o, In o (orbits 0) /\ ~ is_partition 0 o.
Proof. exact orbits_zero_refuted. Qed.
Print Assumptions C19_orbits_zero_refuted.

(* for 1 <= n <= 40 every partition of n is yielded, exactly once (the reference enumerator is proved
   complete for all n; the bound comes from the vm_compute certificate) *)
Theorem C19_orbits_complete_bounded : forall n l, 1 <= n <= 40 -> is_partition n l -> In l (orbits n) /\ NoDup (orbits n).
Proof. exact orbits_complete_bounded. Qed.
Print Assumptions C19_orbits_complete_bounded.

(* the unbounded statement: NOT proved (needs the termination/lexicographic-successor argument of Kelleher's loop) *)
Definition C19_orbits_complete_full_statement : Prop := orbits_complete_statement.

(* ============ similarity.py: conversions ============ *)
Theorem C19_sample_to_orbit_is_partition : forall s, is_partition (list_sum s) (sample_to_orbit s).
Proof. exact sample_to_orbit_partition. Qed.
Print Assumptions C19_sample_to_orbit_is_partition.

Theorem C19_sample_to_orbit_perm_invariant : forall s s', Permutation s s' -> sample_to_orbit s = sample_to_orbit s'.
Proof. exact sample_to_orbit_perm. Qed.
Print Assumptions C19_sample_to_orbit_perm_invariant.

(* orbit -> sample (any shuffle) -> orbit *)
Theorem C19_orbit_to_sample_roundtrip : forall o m perm s,
  desc o -> Forall (fun v => 1 <= v) o -> Permutation perm (seq 0 m) ->
  orbit_to_sample o m perm = Some s -> sample_to_orbit s = o /\ length s = m.
Proof. exact orbit_to_sample_roundtrip. Qed.
Print Assumptions C19_orbit_to_sample_roundtrip.

Theorem C19_sample_to_event_spec : forall s c k,
  sample_to_event s c = Some k <-> Forall (fun v => v <= c) s /\ k = list_sum s.
Proof. exact sample_to_event_spec. Qed.
Print Assumptions C19_sample_to_event_spec.

(* event -> sample: for every oracle draw and every shuffle the result lies in the requested event *)
Theorem C19_event_to_sample_sound : forall k c m d perm s,
  1 <= k -> Permutation perm (seq 0 m) -> event_to_sample k c m d perm = Some s ->
  length s = m /\ list_sum s = k /\ Forall (fun v => v <= c) s /\ sample_to_event s c = Some k.
Proof. exact event_to_sample_sound. Qed.
Print Assumptions C19_event_to_sample_sound.

(* ============ similarity.py: cardinalities (exact-integer model) ============ *)
(* multinomial coefficient with exact division: cardinality * prod(multiplicity!) = modes!, for all sizes *)
Theorem C19_orbit_cardinality_multinomial : forall o m, length o <= m ->
  (orbit_cardinality o m * prod_fact (counts (pad o m)) = factN m)%N.
Proof. exact orbit_cardinality_multinomial. Qed.
Print Assumptions C19_orbit_cardinality_multinomial.

(* = number of samples in the orbit, by exhaustive enumeration, 1..6 photons, <= 5 modes *)
Theorem C19_orbit_cardinality_counts_bounded : forall k m o,
  1 <= k <= 6 -> m <= 5 -> In o (orbits k) -> length o <= m -> orbit_cardinality o m = samples_in_orbit o m k.
Proof. exact orbit_cardinality_counts_bounded. Qed.
Print Assumptions C19_orbit_cardinality_counts_bounded.

Theorem C19_event_cardinality_counts_bounded : forall k c m,
  1 <= k <= m -> m <= 5 -> 1 <= c <= 5 -> event_cardinality k c m = samples_in_event k c m.
Proof. exact event_cardinality_counts_bounded. Qed.
Print Assumptions C19_event_cardinality_counts_bounded.

(* k <= m is needed: with fewer modes than photons orbits longer than the mode count are counted *)
Theorem C19_event_cardinality_short_modes_refuted :
  exists k c m, 1 <= k /\ 1 <= m /\ event_cardinality k c m <> samples_in_event k c m.
Proof. exact event_cardinality_short_modes_refuted. Qed.
Print Assumptions C19_event_cardinality_short_modes_refuted.

Definition C19_cardinality_full_statement : Prop :=
  forall k m o, 1 <= k -> In o (orbits k) -> length o <= m -> orbit_cardinality o m = samples_in_orbit o m k.

(* ============ sample.py ============ *)
Theorem C19_postselect_spec : forall samples lo hi s,
  In s (postselect samples lo hi) <-> In s samples /\ lo <= list_sum s <= hi.
Proof. exact postselect_spec. Qed.
Print Assumptions C19_postselect_spec.

Theorem C19_modes_from_counts_count : forall s i, count_occ_nat i (modes_from_counts s) = nth i s 0.
Proof. exact modes_from_counts_count. Qed.
Print Assumptions C19_modes_from_counts_count.

Theorem C19_to_subgraph_spec : forall gnodes s v,
  In v (to_subgraph gnodes s) <-> exists i, 1 <= nth i s 0 /\ v = nth i gnodes 0.
Proof. exact to_subgraph_spec. Qed.
Print Assumptions C19_to_subgraph_spec.

(* ============ clique.py ============ *)
(* on a simple graph the edge-count test decides cliques *)
Theorem C19_is_clique_spec : forall adj,
  (forall u v, adj u v = adj v u) -> (forall u, adj u u = false) ->
  forall l, NoDup l -> (is_clique adj l = true <-> clique_set adj l).
Proof. exact is_clique_spec. Qed.
Print Assumptions C19_is_clique_spec.

(* ... and "no self-loops" is needed *)
Theorem C19_is_clique_selfloop_refuted : exists adj l,
  (forall u v, adj u v = adj v u) /\ NoDup l /\ is_clique adj l = true /\ ~ clique_set adj l.
Proof. exact is_clique_selfloop_refuted. Qed.
Print Assumptions C19_is_clique_selfloop_refuted.

(* with self-loops left out of the count (proposed repair) the test is exact on every graph *)
Theorem C19_is_clique_noloop_spec : forall adj l,
  (forall u v, adj u v = adj v u) -> NoDup l -> (is_clique (noloop adj) l = true <-> clique_set adj l).
Proof. exact is_clique_noloop_spec. Qed.
Print Assumptions C19_is_clique_noloop_spec.

Theorem C19_c_0_spec : forall adj nodes clique i,
  In i (c_0 adj nodes clique) <-> In i nodes /\ ~ In i clique /\ (forall c, In c clique -> adj i c = true).
Proof. exact c_0_spec. Qed.
Print Assumptions C19_c_0_spec.

Theorem C19_c_1_spec : forall adj nodes clique c i, NoDup clique ->
  (In (c, i) (c_1 adj nodes clique) <->
   In i nodes /\ ~ In i clique /\ In c clique /\ adj i c = false /\
   (forall c', In c' clique -> c' <> c -> adj i c' = true)).
Proof. exact c_1_spec. Qed.
Print Assumptions C19_c_1_spec.

(* the node chosen among candidates: in range; of greatest degree / greatest weight in those modes;
   for every oracle draw *)
Theorem C19_choose_rule : forall nodes s key cands d i,
  cands <> [] -> choose_index nodes s key cands d = Some i ->
  i < length cands /\
  (s = Degree -> forall c, In c cands -> key c <= key (nth i cands 0)) /\
  (forall w, s = Weight w -> forall c, In c cands -> (weight_of nodes w c <= weight_of nodes w (nth i cands 0%nat))%Z).
Proof. exact choose_index_spec. Qed.
Print Assumptions C19_choose_rule.

(* grow: for every selection mode and all draws, the result is a maximal clique of the graph containing the input *)
Theorem C19_grow : forall adj,
  (forall u v, adj u v = adj v u) -> (forall u, adj u u = false) ->
  forall nodes s clique draws r, grow adj nodes s clique draws = Ok r ->
  clique_set adj r /\ (forall x, In x clique -> In x r) /\ (forall x, In x r -> In x nodes) /\ NoDup r /\
  c_0 adj nodes r = [].
Proof. exact grow_sound. Qed.
Print Assumptions C19_grow.

Theorem C19_swap : forall adj,
  (forall u v, adj u v = adj v u) -> (forall u, adj u u = false) ->
  forall nodes s clique draws r, swap adj nodes s clique draws = Ok r ->
  clique_set adj r /\ length r = length (dedup clique) /\ (forall x, In x r -> In x nodes) /\ NoDup r.
Proof. exact swap_sound. Qed.
Print Assumptions C19_swap.

(* shrink (source as it stands AND repaired): the result is a clique inside the input *)
Theorem C19_shrink : forall adj,
  (forall u v, adj u v = adj v u) -> (forall u, adj u u = false) ->
  forall nodes fixed s tbl draws r, NoDup tbl -> shrink adj nodes fixed s tbl draws = Ok r ->
  clique_set adj r /\ (forall x, In x r -> In x tbl) /\ NoDup r.
Proof. exact shrink_sound. Qed.
Print Assumptions C19_shrink.

(* removal rule, documented variant: minimum degree, and minimum weight among those *)
Theorem C19_shrink_rule_fixed : forall adj nodes s tbl d i,
  tbl <> [] -> shrink_index adj nodes true s tbl d = Some i ->
  i < length tbl /\
  (forall u, In u tbl -> deg_in adj (nth i tbl 0) tbl <= deg_in adj u tbl) /\
  (forall w, s = Weight w -> forall u, In u tbl -> deg_in adj u tbl = deg_in adj (nth i tbl 0) tbl ->
     (weight_of nodes w (nth i tbl 0%nat) <= weight_of nodes w u)%Z).
Proof. exact shrink_rule_fixed. Qed.
Print Assumptions C19_shrink_rule_fixed.

(* removal rule, source as it stands: holds outside weight mode ... *)
Theorem C19_shrink_rule_as_is : forall adj nodes s tbl d i,
  (forall w, s <> Weight w) -> tbl <> [] -> shrink_index adj nodes false s tbl d = Some i ->
  i < length tbl /\ (forall u, In u tbl -> deg_in adj (nth i tbl 0) tbl <= deg_in adj u tbl).
Proof. exact shrink_rule_as_is. Qed.
Print Assumptions C19_shrink_rule_as_is.

(* ... and fails in weight mode: a node that does not have minimum degree is removed *)
Theorem C19_shrink_weight_rule_refuted : exists adj nodes w tbl d i,
  (forall u v, adj u v = adj v u) /\ (forall u, adj u u = false) /\ NoDup tbl /\
  shrink_index adj nodes false (Weight w) tbl d = Some i /\
  exists u, In u tbl /\ deg_in adj u tbl < deg_in adj (nth i tbl 0) tbl.
Proof. exact shrink_rule_refuted. Qed.
Print Assumptions C19_shrink_weight_rule_refuted.

(* ============ subgraph.py ============ *)
(* resize (both variants, all modes, all draws): every recorded entry is a duplicate-free node subset of exactly its size, within range *)
Theorem C19_resize_sizes : forall adj nodes fixed s tbl lo hi draws r,
  NoDup tbl -> NoDup nodes -> resize adj nodes fixed s tbl lo hi draws = ROk r ->
  forall k sub, In (k, sub) r -> length sub = k /\ lo <= k <= hi /\ NoDup sub /\ (forall x, In x sub -> In x nodes).
Proof. exact resize_sizes. Qed.
Print Assumptions C19_resize_sizes.

(* every requested size is present *)
Theorem C19_resize_covers : forall adj nodes fixed s tbl lo hi draws r,
  resize adj nodes fixed s tbl lo hi draws = ROk r -> forall k, lo <= k <= hi -> exists sub, In (k, sub) r.
Proof. exact resize_covers. Qed.
Print Assumptions C19_resize_covers.

(* grown entries contain the starting subgraph, shrunk entries lie inside it *)
Theorem C19_resize_nested : forall adj nodes fixed s tbl lo hi draws r,
  NoDup tbl -> NoDup nodes -> resize adj nodes fixed s tbl lo hi draws = ROk r ->
  forall k sub, In (k, sub) r ->
  (length tbl <= k -> forall x, In x tbl -> In x sub) /\ (k <= length tbl -> forall x, In x sub -> In x tbl).
Proof. exact resize_nested. Qed.
Print Assumptions C19_resize_nested.

(* growth rule, documented variant: highest degree w.r.t. the subgraph, highest weight among those *)
Theorem C19_resize_grow_rule_fixed : forall adj nodes s sub compl d i,
  compl <> [] -> grow_index adj nodes true s sub compl d = Some i ->
  i < length compl /\
  (forall c, In c compl -> deg_to adj c sub <= deg_to adj (nth i compl 0) sub) /\
  (forall w, s = Weight w -> forall c, In c compl -> deg_to adj c sub = deg_to adj (nth i compl 0) sub ->
     (weight_of nodes w c <= weight_of nodes w (nth i compl 0%nat))%Z).
Proof. exact grow_index_rule. Qed.
Print Assumptions C19_resize_grow_rule_fixed.

Theorem C19_resize_grow_rule_as_is : forall adj nodes s sub compl d i,
  (forall w, s <> Weight w) -> compl <> [] -> grow_index adj nodes false s sub compl d = Some i ->
  i < length compl /\ (forall c, In c compl -> deg_to adj c sub <= deg_to adj (nth i compl 0) sub).
Proof. exact grow_rule_as_is. Qed.
Print Assumptions C19_resize_grow_rule_as_is.

Theorem C19_resize_grow_weight_rule_refuted : exists adj nodes w sub compl d i,
  (forall u v, adj u v = adj v u) /\ (forall u, adj u u = false) /\
  grow_index adj nodes false (Weight w) sub compl d = Some i /\
  exists c, In c compl /\ deg_to adj (nth i compl 0) sub < deg_to adj c sub.
Proof. exact grow_index_refuted. Qed.
Print Assumptions C19_resize_grow_weight_rule_refuted.

(* _update_subgraphs_list: bounded, only offered entries, a strictly denser candidate always gets in, sorted *)
Theorem C19_update_list_length : forall (l : list entry) t m d, 1 <= m \/ l <> [] ->
  length (fst (update_list l t m d)) <= Nat.max (length l) m /\
  (length l <= m -> length (fst (update_list l t m d)) <= m).
Proof. exact update_list_length. Qed.
Print Assumptions C19_update_list_length.

Theorem C19_update_list_members : forall l t m d e,
  In e (fst (update_list l t m d)) -> In e l \/ e = (fst t, sort_asc (dedup (snd t))).
Proof. exact update_list_members. Qed.
Print Assumptions C19_update_list_members.

Theorem C19_update_list_keeps_denser : forall l t m d,
  1 <= m -> length l = m -> (forall e, In e l -> 0 < snd (fst e)) -> 0 < snd (fst t) ->
  dens_ltb (fst (last l ((0, 1), []))) (fst t) = true ->
  (forall e, In e l -> list_eqb_nat (sort_asc (dedup (snd t))) (snd e) = false) ->
  In (fst t, sort_asc (dedup (snd t))) (fst (update_list l t m d)).
Proof. exact update_list_keeps_denser. Qed.
Print Assumptions C19_update_list_keeps_denser.

Theorem C19_sort_entries_sorted : forall l, (forall e, In e l -> 0 < snd (fst e)) -> entries_sorted (sort_entries l).
Proof. exact sort_entries_sorted. Qed.
Print Assumptions C19_sort_entries_sorted.

(* ---- satisfiability of the hypotheses used above ---- *)
Example C19_ex_partition : is_partition 5 [2; 2; 1].
Proof. repeat split; repeat constructor. Qed.
Example C19_ex_simple_graph : (forall u v, adj_of [(0, 1); (1, 2); (0, 2)] u v = adj_of [(0, 1); (1, 2); (0, 2)] v u)
  /\ grow (adj_of [(0, 1); (1, 2); (0, 2)]) [0; 1; 2] Degree [0] [0; 0; 0] = Ok [0; 1; 2].
Proof. split; [apply adj_of_sym|reflexivity]. Qed.

(* Not a theorem (C19 is _partial):
   - unbounded completeness of orbits (C19_orbits_complete_full_statement) and the unbounded identification of
     orbit_cardinality with the number of samples (C19_cardinality_full_statement; the multinomial identity is
     proved for all sizes, the count only for the bounded sweep);
   - search/_update_dict as whole-history statements, the probabilities used by event_to_sample, nx.density (modelled as 2e/(n(n-1)) and
     compared, not proved);
   - the implementation's floating-point orbit_cardinality is not modelled: the exact model is what is proved. *)
