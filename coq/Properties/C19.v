(* C19 — GBS application helpers are combinatorially exact and structurally sound.
   Only statements, closed by `exact`, each followed by its axiom audit. *)
From Coq Require Import List Arith NArith ZArith Bool Permutation.
From SFV Require Import C19.Similarity C19.SimilarityProofs.
Import ListNotations.

(* every list yielded by orbits(n), n >= 1, is a partition of n: non-increasing, positive parts, sum n *)
Theorem C19_orbits_sound : forall n o, 1 <= n -> In o (orbits n) -> is_partition n o.
Proof. exact orbits_sound. Qed.
Print Assumptions C19_orbits_sound.

(* ... and the hypothesis 1 <= n is needed: orbits(0) yields [0] *)
Theorem C19_orbits_zero_refuted : exists o, In o (orbits 0) /\ ~ is_partition 0 o.
Proof. exact orbits_zero_refuted. Qed.
Print Assumptions C19_orbits_zero_refuted.
