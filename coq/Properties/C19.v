(* C19 — GBS application helpers are combinatorially exact and structurally sound.
   Only statements, closed by `exact`, each followed by its axiom audit.
   Models: C19/Similarity.v (similarity.py, sample.py), C19/Clique.v (clique.py), C19/Subgraph.v (subgraph.py).
   The models are of the source as it stands after the /repo commits 87b9aa4 (exact cardinalities), 5c60841
   (weight-mode indexing) and eefbefe (is_clique ignores self-loops): `shrink_cur`, `shrink_index_cur`, `resize_cur`,
   `grow_index_cur` are the `fixed := true` instances.  Theorems named *_refuted are either about a defect that is
   still present (orbits(0), recorded in known_findings.d/C19.json) or about an explicitly named OLD variant
   (`*_pre<commit>`, `fixed := false`), kept so the old behaviour stays machine-refuted.
   What stays outside a theorem is listed at the end (C19 is `_partial`). *)
From Coq Require Import List Arith NArith ZArith Bool Permutation.
From SFV Require Import C19.Similarity C19.SimilarityProofs C19.OrbitsComplete C19.SimilarityBounded
                        C19.Clique C19.CliqueProofs C19.Subgraph C19.SubgraphProofs C19.Extra.
Import ListNotations.

(* ============ similarity.py: orbits ============ *)
(* every list yielded by orbits(n), n >= 1, is a partition of n: non-increasing, positive parts, sum n *)
Theorem C19_orbits_sound : forall n o, 1 <= n -> In o (orbits n) -> is_partition n o.
Proof. exact orbits_sound. Qed.
Print Assumptions C19_orbits_sound.

(* ... and 1 <= n is needed: orbits(0) yields [0] *)
Theorem C19_orbits_zero_refuted : exists o, In o (orbits 0) /\ ~ is_partition 0 o.
Proof. exact orbits_zero_refuted. Qed.
Print Assumptions C19_orbits_zero_refuted.

(* every partition of n is yielded (unbounded; simulation of Kelleher's loop against a recursive specification,
   with the bound 2^(n-1) on the number of outer passes as the termination argument) ... *)
Theorem C19_orbits_complete : forall n l, 1 <= n -> is_partition n l -> In l (orbits n).
Proof. exact orbits_complete. Qed.
Print Assumptions C19_orbits_complete.

(* ... exactly once *)
Theorem C19_orbits_nodup : forall n, 1 <= n -> NoDup (orbits n).
Proof. exact orbits_nodup. Qed.
Print Assumptions C19_orbits_nodup.

(* ============ similarity.py: conversions ============ *)
Theorem C19_sample_to_orbit_is_partition : forall s, is_partition (list_sum s) (sample_to_orbit s).
Proof. exact sample_to_orbit_partition. Qed.
Print Assumptions C19_sample_to_orbit_is_partition.

Theorem C19_sample_to_orbit_perm_invariant : forall s s', Permutation s s' -> sample_to_orbit s = sample_to_orbit s'.
Proof. exact sample_to_orbit_perm. Qed.
Print Assumptions C19_sample_to_orbit_perm_invariant.

(* orbit -> sample (any shuffle) -> orbit *)
Theorem C19_orbit_to_sample_roundtrip : forall o m perm s,
  desc o -> Forall (fun v => 1 <= v) o -> Permutation perm (seq 0 m) ->
  orbit_to_sample o m perm = Some s -> sample_to_orbit s = o /\ length s = m.
Proof. exact orbit_to_sample_roundtrip. Qed.
Print Assumptions C19_orbit_to_sample_roundtrip.

Theorem C19_sample_to_event_spec : forall s c k,
  sample_to_event s c = Some k <-> Forall (fun v => v <= c) s /\ k = list_sum s.
Proof. exact sample_to_event_spec. Qed.
Print Assumptions C19_sample_to_event_spec.

(* event -> sample: for every oracle draw and every shuffle the result lies in the requested event *)
Theorem C19_event_to_sample_sound : forall k c m d perm s,
  1 <= k -> Permutation perm (seq 0 m) -> event_to_sample k c m d perm = Some s ->
  length s = m /\ list_sum s = k /\ Forall (fun v => v <= c) s /\ sample_to_event s c = Some k.
Proof. exact event_to_sample_sound. Qed.
Print Assumptions C19_event_to_sample_sound.

(* ============ similarity.py: cardinalities (exact-integer model) ============ *)
(* multinomial coefficient with exact division: cardinality * prod(multiplicity!) = modes!, for all sizes *)
Theorem C19_orbit_cardinality_multinomial : forall o m, length o <= m ->
  (orbit_cardinality o m * prod_fact (counts (pad o m)) = factN m)%N.
Proof. exact orbit_cardinality_multinomial. Qed.
Print Assumptions C19_orbit_cardinality_multinomial.

(* = number of samples in the orbit, by exhaustive enumeration, 1..6 photons, <= 5 modes *)
Theorem C19_orbit_cardinality_counts_bounded : forall k m o,
  1 <= k <= 6 -> m <= 5 -> In o (orbits k) -> orbit_cardinality o m = samples_in_orbit o m k.
Proof. exact orbit_cardinality_counts_bounded. Qed.
Print Assumptions C19_orbit_cardinality_counts_bounded.

Theorem C19_event_cardinality_counts_bounded : forall k c m,
  1 <= k <= 5 -> m <= 5 -> 1 <= c <= 5 -> event_cardinality k c m = samples_in_event k c m.
Proof. exact event_cardinality_counts_bounded. Qed.
Print Assumptions C19_event_cardinality_counts_bounded.

(* with more parts than modes the orbit is empty *)
Theorem C19_orbit_cardinality_short : forall o m, m < length o -> orbit_cardinality o m = 0%N.
Proof. exact orbit_cardinality_short. Qed.
Print Assumptions C19_orbit_cardinality_short.

(* OLD variant (before 87b9aa4): orbits longer than the mode count were counted *)
Theorem C19_event_cardinality_pre87b9aa4_refuted :
  exists k c m, 1 <= k /\ 1 <= m /\ event_cardinality_pre87b9aa4 k c m <> samples_in_event k c m.
Proof. exact event_cardinality_pre87b9aa4_refuted. Qed.
Print Assumptions C19_event_cardinality_pre87b9aa4_refuted.

Definition C19_cardinality_full_statement : Prop :=
  forall k m o, 1 <= k -> In o (orbits k) -> orbit_cardinality o m = samples_in_orbit o m k.

(* ============ sample.py ============ *)
Theorem C19_postselect_spec : forall samples lo hi s,
  In s (postselect samples lo hi) <-> In s samples /\ lo <= list_sum s <= hi.
Proof. exact postselect_spec. Qed.
Print Assumptions C19_postselect_spec.

Theorem C19_modes_from_counts_count : forall s i, count_occ_nat i (modes_from_counts s) = nth i s 0.
Proof. exact modes_from_counts_count. Qed.
Print Assumptions C19_modes_from_counts_count.

Theorem C19_to_subgraph_spec : forall gnodes s v,
  In v (to_subgraph gnodes s) <-> exists i, 1 <= nth i s 0 /\ v = nth i gnodes 0.
Proof. exact to_subgraph_spec. Qed.
Print Assumptions C19_to_subgraph_spec.

(* ============ clique.py ============ *)
(* the edge-count test (self-loops not counted) decides cliques, on every undirected graph *)
Theorem C19_is_clique_spec : forall adj,
  (forall u v, adj u v = adj v u) -> forall l, NoDup l -> (is_clique adj l = true <-> clique_set adj l).
Proof. exact is_clique_spec. Qed.
Print Assumptions C19_is_clique_spec.

(* OLD variant (before eefbefe): counting self-loops as edges accepted a non-clique *)
Theorem C19_is_clique_pre_eefbefe_selfloop_refuted : exists adj l,
  (forall u v, adj u v = adj v u) /\ NoDup l /\ is_clique_pre_eefbefe adj l = true /\ ~ clique_set adj l.
Proof. exact is_clique_pre_eefbefe_selfloop_refuted. Qed.
Print Assumptions C19_is_clique_pre_eefbefe_selfloop_refuted.

Theorem C19_c_0_spec : forall adj nodes clique i,
  In i (c_0 adj nodes clique) <-> In i nodes /\ ~ In i clique /\ (forall c, In c clique -> adj i c = true).
Proof. exact c_0_spec. Qed.
Print Assumptions C19_c_0_spec.

Theorem C19_c_1_spec : forall adj nodes clique c i, NoDup clique ->
  (In (c, i) (c_1 adj nodes clique) <->
   In i nodes /\ ~ In i clique /\ In c clique /\ adj i c = false /\
   (forall c', In c' clique -> c' <> c -> adj i c' = true)).
Proof. exact c_1_spec. Qed.
Print Assumptions C19_c_1_spec.

(* the node chosen among candidates: in range; of greatest degree / greatest weight in those modes;
   for every oracle draw *)
Theorem C19_choose_rule : forall nodes s key cands d i,
  cands <> [] -> choose_index nodes s key cands d = Some i ->
  i < length cands /\
  (s = Degree -> forall c, In c cands -> key c <= key (nth i cands 0)) /\
  (forall w, s = Weight w -> forall c, In c cands -> (weight_of nodes w c <= weight_of nodes w (nth i cands 0%nat))%Z).
Proof. exact choose_index_spec. Qed.
Print Assumptions C19_choose_rule.

(* grow: for every selection mode and all draws, the result is a maximal clique of the graph containing the input *)
Theorem C19_grow : forall adj,
  (forall u v, adj u v = adj v u) ->
  forall nodes s clique draws r, grow adj nodes s clique draws = Ok r ->
  clique_set adj r /\ (forall x, In x clique -> In x r) /\ (forall x, In x r -> In x nodes) /\ NoDup r /\
  c_0 adj nodes r = [].
Proof. exact grow_sound. Qed.
Print Assumptions C19_grow.

Theorem C19_swap : forall adj,
  (forall u v, adj u v = adj v u) ->
  forall nodes s clique draws r, swap adj nodes s clique draws = Ok r ->
  clique_set adj r /\ length r = length (dedup clique) /\ (forall x, In x r -> In x nodes) /\ NoDup r.
Proof. exact swap_sound. Qed.
Print Assumptions C19_swap.

(* search: for every number of iterations, mode and draws the result is a clique of the graph, at least as large as the input *)
Theorem C19_clique_search : forall adj nodes, (forall u v, adj u v = adj v u) ->
  forall iters s clique draws r, csearch adj nodes iters s clique draws = Ok r ->
  clique_set adj r /\ (forall x, In x r -> In x nodes) /\ NoDup r /\ length (dedup clique) <= length r.
Proof. exact csearch_sound. Qed.
Print Assumptions C19_clique_search.

(* shrink: the result is a clique inside the input *)
Theorem C19_shrink : forall adj,
  (forall u v, adj u v = adj v u) ->
  forall nodes s tbl draws r, NoDup tbl -> shrink_cur adj nodes s tbl draws = Ok r ->
  clique_set adj r /\ (forall x, In x r -> In x tbl) /\ NoDup r.
Proof. intros adj Hs nodes. exact (shrink_sound adj Hs nodes true). Qed.
Print Assumptions C19_shrink.

(* removal rule: minimum degree in the subgraph, and minimum weight among those, for every draw *)
Theorem C19_shrink_rule : forall adj nodes s tbl d i,
  tbl <> [] -> shrink_index_cur adj nodes s tbl d = Some i ->
  i < length tbl /\
  (forall u, In u tbl -> deg_in adj (nth i tbl 0) tbl <= deg_in adj u tbl) /\
  (forall w, s = Weight w -> forall u, In u tbl -> deg_in adj u tbl = deg_in adj (nth i tbl 0) tbl ->
     (weight_of nodes w (nth i tbl 0%nat) <= weight_of nodes w u)%Z).
Proof. exact shrink_rule_fixed. Qed.
Print Assumptions C19_shrink_rule.

(* OLD variant (before 5c60841, `fixed := false`): in weight mode a node that does not have minimum degree was removed *)
Theorem C19_shrink_weight_rule_pre5c60841_refuted : exists adj nodes w tbl d i,
  (forall u v, adj u v = adj v u) /\ (forall u, adj u u = false) /\ NoDup tbl /\
  shrink_index adj nodes false (Weight w) tbl d = Some i /\
  exists u, In u tbl /\ deg_in adj u tbl < deg_in adj (nth i tbl 0) tbl.
Proof. exact shrink_rule_refuted. Qed.
Print Assumptions C19_shrink_weight_rule_pre5c60841_refuted.

(* ============ subgraph.py ============ *)
(* resize (all modes, all draws): every recorded entry is a duplicate-free node subset of exactly its size, within range *)
Theorem C19_resize_sizes : forall adj nodes s tbl lo hi draws r,
  NoDup tbl -> NoDup nodes -> resize_cur adj nodes s tbl lo hi draws = ROk r ->
  forall k sub, In (k, sub) r -> length sub = k /\ lo <= k <= hi /\ NoDup sub /\ (forall x, In x sub -> In x nodes).
Proof. intros adj nodes. exact (resize_sizes adj nodes true). Qed.
Print Assumptions C19_resize_sizes.

(* every requested size is present *)
Theorem C19_resize_covers : forall adj nodes s tbl lo hi draws r,
  resize_cur adj nodes s tbl lo hi draws = ROk r -> forall k, lo <= k <= hi -> exists sub, In (k, sub) r.
Proof. intros adj nodes. exact (resize_covers adj nodes true). Qed.
Print Assumptions C19_resize_covers.

(* grown entries contain the starting subgraph, shrunk entries lie inside it *)
Theorem C19_resize_nested : forall adj nodes s tbl lo hi draws r,
  NoDup tbl -> NoDup nodes -> resize_cur adj nodes s tbl lo hi draws = ROk r ->
  forall k sub, In (k, sub) r ->
  (length tbl <= k -> forall x, In x tbl -> In x sub) /\ (k <= length tbl -> forall x, In x sub -> In x tbl).
Proof. intros adj nodes. exact (resize_nested adj nodes true). Qed.
Print Assumptions C19_resize_nested.

(* growth rule: highest degree w.r.t. the subgraph, highest weight among those, for every draw
   (the removal rule of resize is C19_shrink_rule: the same shrink_index_cur) *)
Theorem C19_resize_grow_rule : forall adj nodes s sub compl d i,
  compl <> [] -> grow_index_cur adj nodes s sub compl d = Some i ->
  i < length compl /\
  (forall c, In c compl -> deg_to adj c sub <= deg_to adj (nth i compl 0) sub) /\
  (forall w, s = Weight w -> forall c, In c compl -> deg_to adj c sub = deg_to adj (nth i compl 0) sub ->
     (weight_of nodes w c <= weight_of nodes w (nth i compl 0%nat))%Z).
Proof. exact grow_index_rule. Qed.
Print Assumptions C19_resize_grow_rule.

(* OLD variant (before 5c60841, `fixed := false`): in weight mode a node that does not have the highest degree was added *)
Theorem C19_resize_grow_weight_rule_pre5c60841_refuted : exists adj nodes w sub compl d i,
  (forall u v, adj u v = adj v u) /\ (forall u, adj u u = false) /\
  grow_index adj nodes false (Weight w) sub compl d = Some i /\
  exists c, In c compl /\ deg_to adj (nth i compl 0) sub < deg_to adj c sub.
Proof. exact grow_index_refuted. Qed.
Print Assumptions C19_resize_grow_weight_rule_pre5c60841_refuted.

(* _update_subgraphs_list: bounded, only offered entries, a strictly denser candidate always gets in, sorted *)
Theorem C19_update_list_length : forall (l : list entry) t m d, 1 <= m \/ l <> [] ->
  length (fst (update_list l t m d)) <= Nat.max (length l) m /\
  (length l <= m -> length (fst (update_list l t m d)) <= m).
Proof. exact update_list_length. Qed.
Print Assumptions C19_update_list_length.

Theorem C19_update_list_members : forall l t m d e,
  In e (fst (update_list l t m d)) -> In e l \/ e = (fst t, sort_asc (dedup (snd t))).
Proof. exact update_list_members. Qed.
Print Assumptions C19_update_list_members.

Theorem C19_update_list_keeps_denser : forall l t m d,
  1 <= m -> length l = m -> (forall e, In e l -> 0 < snd (fst e)) -> 0 < snd (fst t) ->
  dens_ltb (fst (last l ((0, 1), []))) (fst t) = true ->
  (forall e, In e l -> list_eqb_nat (sort_asc (dedup (snd t))) (snd e) = false) ->
  In (fst t, sort_asc (dedup (snd t))) (fst (update_list l t m d)).
Proof. exact update_list_keeps_denser. Qed.
Print Assumptions C19_update_list_keeps_denser.

Theorem C19_sort_entries_sorted : forall l, (forall e, In e l -> 0 < snd (fst e)) -> entries_sorted (sort_entries l).
Proof. exact sort_entries_sorted. Qed.
Print Assumptions C19_sort_entries_sorted.

(* ---- satisfiability of the hypotheses used above ---- *)
Example C19_ex_partition : is_partition 5 [2; 2; 1].
Proof. repeat split; repeat constructor. Qed.
Example C19_ex_simple_graph : (forall u v, adj_of [(0, 1); (1, 2); (0, 2)] u v = adj_of [(0, 1); (1, 2); (0, 2)] v u)
  /\ grow (adj_of [(0, 1); (1, 2); (0, 2)]) [0; 1; 2] Degree [0] [0; 0; 0] = Ok [0; 1; 2].
Proof. split; [apply adj_of_sym|reflexivity]. Qed.

(* Not a theorem (C19 is _partial):
   - the unbounded identification of orbit_cardinality with the number of samples (C19_cardinality_full_statement; the multinomial identity is
     proved for all sizes, the count only for the bounded sweep);
   - search/_update_dict as whole-history statements, the probabilities used by event_to_sample, nx.density (modelled as 2e/(n(n-1)) and
     compared, not proved);
   - nothing is claimed about float arithmetic: the source computes cardinalities with exact integers now. *)
