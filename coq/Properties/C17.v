(* C17 — matrix decompositions return exact, correctly structured factors.
   Statements only (closed by `exact`), each followed by its axiom audit, then Examples showing that the
   hypotheses are satisfiable.  K is any commutative ring (the reals in the intended reading); cos/sin/exp(i.)
   values are inputs constrained by the identities the Python computes them from.

   What is proved (for every size n, every matrix, every parameter list):
     - the nulling order of rectangular()/rectangular_MZ() and of triangular() zeroes the whole strict lower
       triangle when every 2x2 block nulls its own target               (C17_rectangular_order_nulls, C17_triangular_order_nulls)
     - every branch of nullTi/nullT/nullMZi/nullMZ yields a block that nulls its target   (C17_null_formulas)
     - T, Ti, mach_zehnder, mach_zehnder_inv blocks are unitary         (C17_blocks_unitary)
     - applying the inverse blocks in reverse order restores the input   (C17_factors_multiply_back)
     - both together for rectangular()/triangular() runs                 (C17_rectangular_partial, C17_triangular_partial)
     - rectangular_phase_end / rectangular_symmetric move the diagonal to the end without changing the product
                                                                         (C17_phase_end, C17_symmetric_phase_end)
     - for unitary V (V V^dagger = I) the remainder is diagonal with unit-modulus entries, so np.diag(localV)
       loses nothing                                                     (C17_rectangular_full, C17_triangular_full,
                                                                          C17_rectangular_MZ_full, C17_upper_unitary_diagonal)
   Not proved: floating-point error bounds, and takagi / williamson / bloch_messiah /
   *_compact / sun_compact / graph embeddings (LAPACK numerics; checked per output by tools/props/c17.py). *)
From Coq Require Import List Arith Bool ZArith Ring Lia.
From SFV Require Import C17.Model C17.Alg C17.Sched C17.PhaseEnd C17.Main C17.Unitary.
Import ListNotations.

Section Statements.
Context {K : Type} {O : Ops K}.
Hypothesis Kring : ring_theory k0 k1 kadd kmul ksub kopp (@eq K).

Theorem C17_rectangular_order_nulls :
  forall (n : nat) (qs : list (coef K)) (M : matrix K),
    valid n (rect_schedule n) qs M ->
    forall r c, c < r -> r < n -> run n (rect_schedule n) qs M r c = C0.
Proof. exact (rect_nulls Kring). Qed.

Theorem C17_triangular_order_nulls :
  forall (n : nat) (qs : list (coef K)) (M : matrix K),
    valid n (tri_schedule n) qs M ->
    forall r c, c < r -> r < n -> run n (tri_schedule n) qs M r c = C0.
Proof. exact (tri_nulls Kring). Qed.

Theorem C17_null_formulas :
  (* nullTi: general branch, `U[m,n] == 0` branch, `U[m,n+1] == 0` branch *)
  (forall (x y : C K) (tt : K) (t : tparam K),
      ps t = kmul tt (pc t) -> x = Cmul y (Cscale tt (pe t)) -> unit_c (pe t) -> col_target (Ti_coef t) x y = C0) /\
  (forall y : C K, col_target (Ti_coef (mkT k1 k0 C1)) C0 y = C0) /\
  (forall x : C K, col_target (Ti_coef (mkT k0 k1 C1)) x C0 = C0) /\
  (* nullT *)
  (forall (x y : C K) (tt : K) (t : tparam K),
      ps t = kmul tt (pc t) -> x = Copp (Cmul y (Cscale tt (pe t))) -> row_target (T_coef t) x y = C0) /\
  (forall y : C K, row_target (T_coef (mkT k1 k0 C1)) C0 y = C0) /\
  (forall x : C K, row_target (T_coef (mkT k0 k1 C1)) x C0 = C0) /\
  (* nullMZi *)
  (forall h (x y rho : C K) (tt : K) (t : mzparam K),
      half_angle (mu t) tt -> y = Copp (Cmul x (Cscale tt rho)) -> mw t = Cconj rho -> col_target (MZi_coef h t) x y = C0) /\
  (forall h (y : C K), col_target (MZi_coef h (mkMZ (Copp C1) C1)) C0 y = C0) /\
  (forall h (x : C K), col_target (MZi_coef h (mkMZ C1 C1)) x C0 = C0) /\
  (* nullMZ *)
  (forall h (x y rho : C K) (tt : K) (t : mzparam K),
      half_angle' (mu t) tt -> y = Cmul x (Cscale tt rho) -> Cmul (mw t) rho = C1 -> row_target (MZ_coef h t) x y = C0) /\
  (forall h (y : C K), row_target (MZ_coef h (mkMZ (Copp C1) C1)) C0 y = C0) /\
  (forall h (x : C K), row_target (MZ_coef h (mkMZ C1 C1)) x C0 = C0).
Proof.
  exact (conj (nullTi_general Kring) (conj (nullTi_zero Kring) (conj (nullTi_swap Kring)
        (conj (nullT_general Kring) (conj (nullT_zero Kring) (conj (nullT_swap Kring)
        (conj (nullMZi_general Kring) (conj (nullMZi_zero Kring) (conj (nullMZi_swap Kring)
        (conj (nullMZ_general Kring) (conj (nullMZ_zero Kring) (nullMZ_swap Kring)))))))))))).
Qed.

Theorem C17_blocks_unitary :
  (forall t : tparam K, trig t -> unitary2 (T_coef t) /\ unitary2 (Ti_coef t)) /\
  (forall (h : K) (t : mzparam K), kadd h h = k1 -> unit_c (mu t) -> unit_c (mw t) ->
      unitary2 (MZ_coef h t) /\ unitary2 (MZi_coef h t)).
Proof.
  exact (conj (fun t H => conj (T_unitary Kring t H) (Ti_unitary Kring t H))
              (fun h t Hh Hu Hw => conj (MZ_unitary Kring h t Hh Hu Hw) (MZi_unitary Kring h t Hh Hu Hw))).
Qed.

Theorem C17_factors_multiply_back :
  forall (n : nat) (ss : list step) (qs : list (coef K)) (M : matrix K),
    Forall unitary2 qs -> forall r c, unrun n ss qs (run n ss qs M) r c = M r c.
Proof. exact (unrun_run Kring). Qed.

(* rectangular(): with parameters ts (one per element, trigonometric identities holding) whose blocks null their
   targets, the remainder is upper triangular and the T / Ti blocks applied in reverse restore V. *)
Theorem C17_rectangular_partial :
  forall (n : nat) (ts : list (tparam K)) (V : matrix K),
    Forall trig ts ->
    valid n (rect_schedule n) (map2 T_block (rect_schedule n) ts) V ->
    let D := run n (rect_schedule n) (map2 T_block (rect_schedule n) ts) V in
    (forall r c, c < r -> r < n -> D r c = C0) /\
    (forall r c, unrun n (rect_schedule n) (map2 T_block (rect_schedule n) ts) D r c = V r c).
Proof. exact (rectangular_partial Kring). Qed.

Theorem C17_triangular_partial :
  forall (n : nat) (ts : list (tparam K)) (V : matrix K),
    Forall trig ts ->
    valid n (tri_schedule n) (map2 T_block (tri_schedule n) ts) V ->
    let D := run n (tri_schedule n) (map2 T_block (tri_schedule n) ts) V in
    (forall r c, c < r -> r < n -> D r c = C0) /\
    (forall r c, unrun n (tri_schedule n) (map2 T_block (tri_schedule n) ts) D r c = V r c).
Proof. exact (triangular_partial Kring). Qed.

Theorem C17_rectangular_MZ_partial :
  forall (n : nat) (h : K) (ts : list (mzparam K)) (V : matrix K),
    kadd h h = k1 -> Forall (fun t => unit_c (mu t) /\ unit_c (mw t)) ts ->
    valid n (rect_schedule n) (map2 (MZ_block h) (rect_schedule n) ts) V ->
    let D := run n (rect_schedule n) (map2 (MZ_block h) (rect_schedule n) ts) V in
    (forall r c, c < r -> r < n -> D r c = C0) /\
    (forall r c, unrun n (rect_schedule n) (map2 (MZ_block h) (rect_schedule n) ts) D r c = V r c).
Proof. exact (rectangular_MZ_partial Kring). Qed.

(* rectangular_phase_end: ts = reversed(tlist) of rectangular(), d = its diagonal;
   T_1^{-1} ... T_k^{-1} diag(d) X  =  diag(d') T_1' ... T_k' X  for every X *)
Theorem C17_phase_end :
  forall (n : nat) (ts : list (nat * tparam K)) (d : nat -> C K),
    (forall i, unit_c (d i)) -> Forall (fun mt => unit_c (pe (snd mt))) ts ->
    forall (X : matrix K) r c,
      Linv n ts (rowscale d X) r c = rowscale (snd (phase_end ts d)) (Lfwd n (fst (phase_end ts d)) X) r c.
Proof. exact (phase_end_correct Kring). Qed.

Theorem C17_symmetric_phase_end :
  forall (n : nat) (h : K) (ts : list (nat * mzparam K)) (d : nat -> C K),
    (forall i, unit_c (d i)) -> Forall (fun mt => unit_c (mu (snd mt)) /\ unit_c (mw (snd mt))) ts ->
    forall (X : matrix K) r c,
      LinvMZ n h ts (rowscale d X) r c = rowscale (snd (phase_end_MZ ts d)) (LfwdMZ n h (fst (phase_end_MZ ts d)) X) r c.
Proof. exact (phase_end_MZ_correct Kring). Qed.

(* an upper-triangular matrix with orthonormal rows is diagonal with unit-modulus diagonal *)
Theorem C17_upper_unitary_diagonal :
  forall (n : nat) (U : matrix K), is_unitary n U ->
    (forall r c, c < r -> r < n -> U r c = C0) ->
    forall r c, r < n -> c < n -> (r <> c -> U r c = C0) /\ (r = c -> unit_c (U r c)).
Proof. exact (upper_unitary_diagonal Kring). Qed.

(* the full statement: for unitary V the remainder of rectangular() is diagonal with unit-modulus entries *)
Theorem C17_rectangular_full :
  forall (n : nat) (ts : list (tparam K)) (V : matrix K),
    Forall trig ts ->
    valid n (rect_schedule n) (map2 T_block (rect_schedule n) ts) V ->
    is_unitary n V ->
    let D := run n (rect_schedule n) (map2 T_block (rect_schedule n) ts) V in
    forall r c, r < n -> c < n -> (r <> c -> D r c = C0) /\ (r = c -> unit_c (D r c)).
Proof. exact (rectangular_full Kring). Qed.

Theorem C17_triangular_full :
  forall (n : nat) (ts : list (tparam K)) (V : matrix K),
    Forall trig ts ->
    valid n (tri_schedule n) (map2 T_block (tri_schedule n) ts) V ->
    is_unitary n V ->
    let D := run n (tri_schedule n) (map2 T_block (tri_schedule n) ts) V in
    forall r c, r < n -> c < n -> (r <> c -> D r c = C0) /\ (r = c -> unit_c (D r c)).
Proof. exact (triangular_full Kring). Qed.

Theorem C17_rectangular_MZ_full :
  forall (n : nat) (h : K) (ts : list (mzparam K)) (V : matrix K),
    kadd h h = k1 -> Forall (fun t => unit_c (mu t) /\ unit_c (mw t)) ts ->
    valid n (rect_schedule n) (map2 (MZ_block h) (rect_schedule n) ts) V ->
    is_unitary n V ->
    let D := run n (rect_schedule n) (map2 (MZ_block h) (rect_schedule n) ts) V in
    forall r c, r < n -> c < n -> (r <> c -> D r c = C0) /\ (r = c -> unit_c (D r c)).
Proof. exact (rectangular_MZ_full Kring). Qed.

End Statements.

Print Assumptions C17_rectangular_order_nulls.
Print Assumptions C17_triangular_order_nulls.
Print Assumptions C17_null_formulas.
Print Assumptions C17_blocks_unitary.
Print Assumptions C17_factors_multiply_back.
Print Assumptions C17_rectangular_partial.
Print Assumptions C17_triangular_partial.
Print Assumptions C17_rectangular_MZ_partial.
Print Assumptions C17_phase_end.
Print Assumptions C17_symmetric_phase_end.

Print Assumptions C17_upper_unitary_diagonal.
Print Assumptions C17_rectangular_full.
Print Assumptions C17_triangular_full.
Print Assumptions C17_rectangular_MZ_full.

(* ---- the hypotheses are satisfiable ---- *)
#[local] Instance ZOps : Ops Z := {| k0 := 0%Z; k1 := 1%Z; kadd := Z.add; kmul := Z.mul; ksub := Z.sub; kopp := Z.opp |}.
Definition Zring : ring_theory (k0 : Z) k1 kadd kmul ksub kopp (@eq Z) := Zth.

(* the swap matrix [[0,1],[1,0]]: rectangular(2) takes the `U[m,n+1] == 0` branch (theta = pi/2, phi = 0) *)
Definition swap2 : matrix Z := fun r c => if (r + c =? 1)%nat then C1 else C0.
Example C17_hypotheses_satisfiable :
  Forall trig [mkT 0%Z 1%Z C1] /\
  valid 2 (rect_schedule 2) (map2 T_block (rect_schedule 2) [mkT 0%Z 1%Z C1]) swap2 /\
  is_unitary 2 swap2.
Proof.
  split; [repeat constructor | split; [cbn; repeat split|]].
  intros r c Hr Hc. destruct r as [|[|r]]; destruct c as [|[|c]]; try lia; reflexivity.
Qed.

(* a 3-4-5 rotation over Q-free integers scaled: unit complex numbers exist beyond 1 (e = i) *)
Example C17_unit_satisfiable : unit_c (Ci : C Z) /\ trig (mkT 0%Z 1%Z (Ci : C Z)).
Proof. repeat split. Qed.

(* general branch over the rationals: the rotation [[3/5,-4/5],[4/5,3/5]] with r = 4/3, cos = 3/5, sin = 4/5, phi = 0 *)
From Coq Require Import QArith Qcanon.
#[local] Instance QcOps : Ops Qc := {| k0 := 0%Qc; k1 := 1%Qc; kadd := Qcplus; kmul := Qcmult; ksub := Qcminus; kopp := Qcopp |}.
Definition q35 : Qc := Q2Qc (3 # 5).
Definition q45 : Qc := Q2Qc (4 # 5).
Definition rot345 : matrix Qc := fun r c =>
  match r, c with
  | 0%nat, 0%nat => Cre q35 | 0%nat, 1%nat => Cre (Qcopp q45)
  | 1%nat, 0%nat => Cre q45 | 1%nat, 1%nat => Cre q35
  | _, _ => C0
  end.
Example C17_general_branch_satisfiable :
  ring_theory (k0 : Qc) k1 kadd kmul ksub kopp (@eq Qc) /\
  Forall trig [mkT q35 q45 C1] /\
  valid 2 (rect_schedule 2) (map2 T_block (rect_schedule 2) [mkT q35 q45 C1]) rot345 /\
  (* the hypotheses of the general-branch formula: s = tt c, x = y (tt e), |e| = 1 with tt = 4/3 *)
  ps (mkT q35 q45 (C1 : C Qc)) = kmul (Q2Qc (4 # 3)) (pc (mkT q35 q45 (C1 : C Qc))) /\
  rot345 1%nat 0%nat = Cmul (rot345 1%nat 1%nat) (Cscale (Q2Qc (4 # 3)) C1).
Proof.
  split; [exact Qcrt|].
  split; [repeat constructor; cbn; apply Qc_is_canon; reflexivity|].
  split; [cbn; split; [|exact I]; unfold col_target; apply Ceq; cbn; apply Qc_is_canon; reflexivity|].
  split; [cbn; apply Qc_is_canon; reflexivity|].
  apply Ceq; cbn; apply Qc_is_canon; reflexivity.
Qed.
