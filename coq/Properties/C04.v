(* C04 — every internal circuit re-ordering respects mode and measurement dependencies.  Statements only.
   A : any type of commands; deps c : the wires c depends on (register modes and measured-parameter modes).
   toposort ls out : out is a permutation of the DAG nodes of ls respecting every DAG edge — i.e. ANY order a
   topological sort may legally return.  wire l w : the sub-sequence of commands of l depending on wire w. *)
From Coq Require Import List Permutation.
Import ListNotations.
From SFV Require Import Base.Reorder C04.Model C04.Proofs.

Theorem C04_same_commands : forall A deps (ls out : list A), toposort A deps ls out -> Permutation (nodes A deps ls) out.
Proof. exact toposort_same_commands. Qed.
Print Assumptions C04_same_commands.

Theorem C04_wires_preserved : forall A deps (ls out : list A) w,
  NoDup ls -> toposort A deps ls out -> wire A deps out w = wire A deps ls w.
Proof. exact toposort_wire. Qed.
Print Assumptions C04_wires_preserved.

Theorem C04_dep_order : forall A deps (ls out : list A) a b,
  NoDup ls -> toposort A deps ls out -> share_wire A deps a b -> before A ls a b -> before A out a b.
Proof. exact toposort_dep_order. Qed.
Print Assumptions C04_dep_order.

Theorem C04_roundtrip : forall A deps (ls out : list A) a b,
  NoDup ls -> toposort A deps ls out -> (edge A deps out a b <-> edge A deps ls a b).
Proof. exact toposort_roundtrip. Qed.
Print Assumptions C04_roundtrip.

Theorem C04_swap_independent : forall A deps (l1 l2 : list A) a b x y, independent A deps a b ->
  (edge A deps (l1 ++ a :: b :: l2) x y <-> edge A deps (l1 ++ b :: a :: l2) x y).
Proof. exact swap_independent_edges. Qed.
Print Assumptions C04_swap_independent.

(* group_operations: for every pair of linearisations (C1, C2) its two sorts may return *)
Theorem C04_group_same_commands : forall A deps marked (seq C1 C2 A_ B_ C_ : list A),
  NoDup seq -> (forall c, In c seq -> has_deps A deps c = true) -> group A deps marked seq C1 C2 A_ B_ C_ ->
  Permutation seq (A_ ++ B_ ++ C_).
Proof. exact group_same_commands. Qed.
Print Assumptions C04_group_same_commands.

Theorem C04_group_dep_order : forall A deps marked (seq C1 C2 A_ B_ C_ : list A) w,
  NoDup seq -> (forall c, In c seq -> has_deps A deps c = true) -> group A deps marked seq C1 C2 A_ B_ C_ ->
  wire A deps (A_ ++ B_ ++ C_) w = wire A deps seq w.
Proof. exact group_wire. Qed.
Print Assumptions C04_group_dep_order.

Theorem C04_group_partition : forall A deps marked (seq C1 C2 A_ B_ C_ : list A),
  group A deps marked seq C1 C2 A_ B_ C_ ->
  (forall x, In x A_ -> marked x = false) /\ (forall x, In x C_ -> marked x = false).
Proof. exact group_no_marked_outside. Qed.
Print Assumptions C04_group_partition.

Theorem C04_group_B_empty : forall A deps marked (seq C1 C2 A_ B_ C_ : list A),
  (forall c, In c seq -> has_deps A deps c = true) -> group A deps marked seq C1 C2 A_ B_ C_ -> B_ = [] -> C_ = [].
Proof. exact group_B_empty. Qed.
Print Assumptions C04_group_B_empty.

(* the validators run on the implementation's actual outputs are sound *)
Theorem C04_validator_sound : forall ls out, id_inj (ls ++ out) -> check_linearisation ls out = true ->
  toposort cmd cdeps ls out /\ forall w, wire cmd cdeps out w = wire cmd cdeps ls w.
Proof. exact check_linearisation_sound. Qed.
Print Assumptions C04_validator_sound.

Theorem C04_group_validator_sound : forall seq A_ B_ C_, id_inj (seq ++ A_ ++ B_ ++ C_) -> check_group seq A_ B_ C_ = true ->
  Permutation (nodes cmd cdeps seq) (A_ ++ B_ ++ C_) /\ (forall w, wire cmd cdeps (A_ ++ B_ ++ C_) w = wire cmd cdeps seq w) /\
  (forall c, In c A_ -> cmark c = false) /\ (forall c, In c C_ -> cmark c = false) /\ (B_ = [] -> C_ = []).
Proof. exact check_group_sound. Qed.
Print Assumptions C04_group_validator_sound.

Theorem C04_gbs : forall A_ B_ C_ A' ms, (forall c, In c B_ -> NoDup (cmodes c)) ->
  gbs_collect A_ B_ C_ = GbsOk A' ms ->
  A' = A_ /\ C_ = [] /\ B_ <> [] /\ (forall c, In c B_ -> cmark c = true) /\
  Permutation ms (flat_map cmodes (rev B_)) /\ NoDup ms /\ sortedb ms = true.
Proof. exact gbs_collect_sound. Qed.
Print Assumptions C04_gbs.

(* non-vacuity: a concrete circuit and a legal linearisation different from the input *)
Example C04_example :
  let a := mkCmd 0 [0] [0] false in let b := mkCmd 1 [1] [1] true in let c := mkCmd 2 [0; 1] [0; 1] false in
  check_linearisation [a; b; c] [b; a; c] = true /\ check_linearisation [a; b; c] [c; a; b] = false.
Proof. split; vm_compute; reflexivity. Qed.

(* Any legal linearisation is reachable from the input by swapping adjacent independent commands (commands that share
   no mode and no measured-parameter link) ... *)
Theorem C04_toposort_swap_equiv : forall A deps (ls out : list A),
  NoDup ls -> (forall c, In c ls -> has_deps A deps c = true) -> toposort A deps ls out -> sweq A deps ls out.
Proof. exact toposort_sweq. Qed.
Print Assumptions C04_toposort_swap_equiv.

(* ... hence every semantics (composition in any monoid of physical maps) under which independent commands commute is
   invariant under every re-ordering the library may perform. *)
Theorem C04_toposort_semantics : forall A deps (M : Type) (mul : M -> M -> M) (e : M),
  (forall x y z, mul x (mul y z) = mul (mul x y) z) ->
  forall sem : A -> M, (forall a b, independent A deps a b -> mul (sem b) (sem a) = mul (sem a) (sem b)) ->
  forall ls out, NoDup ls -> (forall c, In c ls -> has_deps A deps c = true) -> toposort A deps ls out ->
  sem_list A M mul e sem out = sem_list A M mul e sem ls.
Proof. intros A deps M mul e Ha sem Hc ls out. exact (toposort_sem A deps M mul e Ha sem Hc ls out). Qed.
Print Assumptions C04_toposort_semantics.
