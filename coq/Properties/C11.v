(* C11 — Gaussian-merging compilers return a program with the same net action.
   Only statements, closed by `exact`, each followed by its axiom audit; then examples showing the
   hypotheses are satisfiable, and the machine-checked refutations behind the recorded findings. *)
From Coq Require Import List Arith ZArith Ring Bool.
Import ListNotations.
From SFV Require Import C11.Lin C11.LinProofs C11.Model C11.Proofs C11.Merge.

(* A row operation (what _apply_symp_one/two_mode_gate, _apply_one/two_mode_gate and the
   expand(..)@S path do) is left multiplication by the embedded block: for every block g, slot list,
   matrix S of any size and every vector x,  (rowop g S) x = rowop g (S x). *)
Theorem C11_rowop_is_left_mult :
  forall (R : Type) (r0 r1 : R) (radd rmul rsub : R -> R -> R) (ropp : R -> R),
  ring_theory r0 r1 radd rmul rsub ropp eq ->
  forall (g : list (list R)) (sl : list nat) (S : mat R) (x : vec R),
  mv R r0 radd rmul (rowop_mat R radd rmul g sl S) x = rowop_vec R r0 radd rmul g sl (mv R r0 radd rmul S x).
Proof. exact rowop_mv. Qed.
Print Assumptions C11_rowop_is_left_mult.

(* The compile loop, generically: for EVERY duplicate-free enumeration L of the coordinates and every
   list of well-formed linear / displacement commands, the accumulated (S, r) read with slot k <->
   coordinate nth k L is the ordered composition of the commands; other coordinates are untouched. *)
Theorem C11_loop_invariant :
  forall (R : Type) (r0 r1 : R) (radd rmul rsub : R -> R -> R) (ropp : R -> R),
  ring_theory r0 r1 radd rmul rsub ropp eq ->
  forall (L : list nat) (cmds : list (gcmd R)) (st : nat -> R),
  NoDup L -> Forall (wf_gcmd R L) cmds ->
  let acc := g_run R r0 r1 radd rmul L cmds in
  (forall k, k < length L ->
     g_denote R r0 radd rmul cmds st (nth k L 0)
     = radd (dot R r0 radd rmul (nth k (fst acc) []) (map st L)) (nth k (snd acc) r0))
  /\ (forall x, ~ In x L -> g_denote R r0 radd rmul cmds st x = st x)
  /\ length (fst acc) = length L /\ length (snd acc) = length L.
Proof. exact g_run_correct. Qed.
Print Assumptions C11_loop_invariant.

(* gaussian_unitary, every enumeration: (Snet, rnet) with registers in ENUMERATION order acts on the
   whole register as the ordered product of the source operations (all accepted kinds, any sizes). *)
Theorem C11_gunitary_any_enumeration :
  forall (K : Type) (k0 k1 : K) (kadd kmul ksub : K -> K -> K) (kopp : K -> K) (two half : K),
  ring_theory k0 k1 kadd kmul ksub kopp eq ->
  forall (enum : list nat) (cmds : list (gu_cmd K)) (st : nat -> K),
  NoDup enum -> Forall (gu_wf K k0 k1 kadd kmul ksub kopp half enum) cmds ->
  forall x, g_denote K k0 kadd kmul (gu_output K (gu_run K k0 k1 kadd kmul ksub kopp two half enum cmds, enum)) st x
          = g_denote K k0 kadd kmul (map (gu_sem K k0 k1 kadd kmul ksub kopp two half) cmds) st x.
Proof. exact gu_correct_enum. Qed.
Print Assumptions C11_gunitary_any_enumeration.

(* gaussian_unitary as returned (used_modes = sorted(set(..)), registers sorted): for EVERY enumeration
   `used` the set may produce, every accepted command list, WITH or WITHOUT dagger flags, the
   compiled program has the action of the source.  (Full; the two former exclusions are gone since
   the fix commits bc7648a / f18521d.) *)
Theorem C11_gunitary :
  forall (K : Type) (k0 k1 : K) (kadd kmul ksub : K -> K -> K) (kopp : K -> K) (two half : K),
  ring_theory k0 k1 kadd kmul ksub kopp eq ->
  forall (used : list nat) (cmds : list (gu_cmd K)) (st : nat -> K),
  NoDup used -> Forall (gu_wf K k0 k1 kadd kmul ksub kopp half used) cmds ->
  forall x, g_denote K k0 kadd kmul (gu_output K (gu_compile K k0 k1 kadd kmul ksub kopp two half used cmds)) st x
          = g_denote K k0 kadd kmul (map (gu_sem K k0 k1 kadd kmul ksub kopp two half) cmds) st x.
Proof. exact gu_correct. Qed.
Print Assumptions C11_gunitary.

(* the compiled program depends only on the SET of used modes, not on its enumeration *)
Theorem C11_gunitary_order_independent :
  forall (K : Type) (k0 k1 : K) (kadd kmul ksub : K -> K -> K) (kopp : K -> K) (two half : K)
         (used used' : list nat) (cmds : list (gu_cmd K)),
  sort used = sort used' ->
  gu_compile K k0 k1 kadd kmul ksub kopp two half used cmds = gu_compile K k0 k1 kadd kmul ksub kopp two half used' cmds.
Proof. exact gu_compile_order_independent. Qed.
Print Assumptions C11_gunitary_order_independent.

Theorem C11_passive_any_enumeration :
  forall (K : Type) (k0 k1 : K) (kadd kmul ksub : K -> K -> K) (kopp : K -> K) (half : K)
         (Kth : ring_theory k0 k1 kadd kmul ksub kopp eq),
  forall (enum : list nat) (cmds : list (pa_cmd K)) (st : nat -> C K),
  NoDup enum -> Forall (pa_wf K k0 k1 kadd kmul ksub kopp half enum) cmds ->
  forall x, g_denote (C K) (c0 K k0) (cadd K kadd) (cmul K kadd kmul ksub)
              (pa_output K (pa_run K k0 k1 kadd kmul ksub kopp half enum cmds, enum)) st x
          = g_denote (C K) (c0 K k0) (cadd K kadd) (cmul K kadd kmul ksub)
              (map (pa_sem K k0 k1 kadd kmul ksub kopp half) cmds) st x.
Proof. exact pa_correct_enum. Qed.
Print Assumptions C11_passive_any_enumeration.

Theorem C11_passive :
  forall (K : Type) (k0 k1 : K) (kadd kmul ksub : K -> K -> K) (kopp : K -> K) (half : K)
         (Kth : ring_theory k0 k1 kadd kmul ksub kopp eq),
  forall (used : list nat) (cmds : list (pa_cmd K)) (st : nat -> C K),
  NoDup used -> Forall (pa_wf K k0 k1 kadd kmul ksub kopp half used) cmds ->
  forall x, g_denote (C K) (c0 K k0) (cadd K kadd) (cmul K kadd kmul ksub)
              (pa_output K (pa_compile K k0 k1 kadd kmul ksub kopp half used cmds)) st x
          = g_denote (C K) (c0 K k0) (cadd K kadd) (cmul K kadd kmul ksub)
              (map (pa_sem K k0 k1 kadd kmul ksub kopp half) cmds) st x.
Proof. exact pa_correct. Qed.
Print Assumptions C11_passive.

(* gaussian_merge (partial): soundness of the validator run on every implementation output — if it
   accepts, every wire carries the same sequence of non-Gaussian operations in source and output. *)
Theorem C11_merge_validator_sound_partial :
  forall src out : list hcmd, check_merge src out = true -> forall w, proj w src = proj w out.
Proof. exact check_merge_sound. Qed.
Print Assumptions C11_merge_validator_sound_partial.

(* ---- hypotheses are satisfiable (K := Z), with an unsorted enumeration and a dagger flag ---- *)
Definition Zgu_old := gu_compile_old Z 0%Z 1%Z Z.add Z.mul Z.sub Z.opp 2%Z 1%Z.
Definition Zsem := gu_sem Z 0%Z 1%Z Z.add Z.mul Z.sub Z.opp 2%Z 1%Z.
Definition Zden := g_denote Z 0%Z Z.add Z.mul.
Definition Zwf := gu_wf Z 0%Z 1%Z Z.add Z.mul Z.sub Z.opp 1%Z.
(* Rgate(pi/2): cos = 0, sin = 1 *)
Definition rot (m : nat) (dag : bool) := mkGU Z 1 [0%Z; 1%Z] [] [] [m] dag.
Definition probe : nat -> Z := fun c => Z.of_nat (c + 1).

Ltac nodup := repeat (apply NoDup_cons; [simpl; intuition discriminate|]); apply NoDup_nil.
Ltac wf1 := unfold Zwf, gu_wf; simpl; split; [nodup|]; split;
            [intros x [H|[]]; subst; simpl; auto|]; reflexivity.

Example C11_hypotheses_satisfiable :
  NoDup [8; 1] /\ Forall (Zwf [8; 1]) [rot 1 true; rot 8 false].
Proof.
  split; [nodup|].
  apply Forall_cons; [wf1|]. apply Forall_cons; [wf1|]. apply Forall_nil.
Qed.

(* ---- refutations of the behaviour BEFORE the fix commits (definitions *_old) ---- *)
(* set order: used modes {1, 8} enumerate as [8; 1]; the rows of Snet followed that order while the
   returned registers were sorted -> the rotation landed on mode 8 instead of mode 1 *)
Theorem C11_gunitary_old_set_order_refuted :
  exists (enum : list nat) (cmds : list (gu_cmd Z)) (st : nat -> Z) (x : nat),
    NoDup enum /\ Forall (Zwf enum) cmds /\
    Zden (gu_output Z (Zgu_old enum cmds)) st x <> Zden (map Zsem cmds) st x.
Proof.
  exists [8; 1], [rot 1 false; mkGU Z 8 [] [[1%Z; 0%Z]; [0%Z; 1%Z]] [] [8] false], probe, 2.
  split; [nodup|].
  split; [apply Forall_cons; [wf1|]; apply Forall_cons; [wf1|]; apply Forall_nil|].
  vm_compute. discriminate.
Qed.
Print Assumptions C11_gunitary_old_set_order_refuted.

(* dagger: Rgate(pi/2).H was compiled to the matrix of Rgate(pi/2) *)
Theorem C11_gunitary_old_dagger_refuted :
  exists (cmds : list (gu_cmd Z)) (st : nat -> Z) (x : nat),
    Zden (gu_output Z (Zgu_old [0] cmds)) st x <> Zden (map Zsem cmds) st x.
Proof. exists [rot 0 true], probe, 0. vm_compute. discriminate. Qed.
Print Assumptions C11_gunitary_old_dagger_refuted.
