(* C13 — a time-domain program means its explicit loop, however it is unrolled.
   Only statements, each closed by `exact`, each followed by its axiom audit, plus Examples showing
   the hypotheses are satisfiable.  Model: coq/C13/Model.v (tied to strawberryfields/tdm/program.py by
   the correspondence run of tools/props/c13.py).

   Reading guide.  `unroll_program N sh space T cs shots q` is TDMProgram._unroll_program on register q;
   `loop_program N T cs shots` is the loop written out by hand with the fresh mode (band, pulse) for
   every pulse; `rho N` maps pulse (b, j) to register reference start_b + j mod N_b.
   `plain_cmd c` = no dagger, no select, no non-atomic symbolic parameter, rebuildable class: the
   excluding hypothesis forced by the defects recorded in known_findings.d/C13.json (each one has a
   `_refuted` theorem below). *)
From Coq Require Import List ZArith Bool Arith.
Import ListNotations.
From SFV Require Import C13.Model C13.Proofs C13.Machine C13.Layout.

(* 1. register shifting (default shift, any number of bands, any band sizes, time bins, shots,
      parameter arrays): the unrolled circuit is, command by command, the image of the explicit loop. *)
Theorem C13_shift_refines_loop :
  forall (N : list nat) (T : nat) (cs : list rcmd),
    Forall (fun c => plain_cmd c = true) cs ->
    Forall (fun c => Forall (fun r => r < sum_list N) (r_regs c)) cs ->
    forall shots : nat,
    unroll_program N ShDefault false T cs shots (seq 0 (sum_list N))
    = Some (map (rename (rho N)) (loop_program N T cs shots)).
Proof. exact shift_refines_loop. Qed.
Print Assumptions C13_shift_refines_loop.

(* 2. two different pulses renamed to the same register reference are used in disjoint ordered
      windows of bins, separated by bin j in which the earlier pulse (b, j) sits at the leading position
      of its band (where the property's hypothesis says it is measured, as the last command on it). *)
Theorem C13_reuse_separated :
  forall (N : list nat) (c c' : rcmd) (g g' b j j' : nat),
    Forall (fun r => r < sum_list N) (r_regs c) ->
    Forall (fun r => r < sum_list N) (r_regs c') ->
    In (b, j) (pulse_modes N c g) -> In (b, j') (pulse_modes N c' g') ->
    j < j' -> rho N (b, j) = rho N (b, j') ->
    g <= j /\ j < g'.
Proof. exact reuse_separated. Qed.
Print Assumptions C13_reuse_separated.

(* 3. integer shift s <= n of the whole n-mode register: image of the loop in which position o at
      bin g holds pulse o + s*g, under j |-> j mod n. *)
Theorem C13_shift_int :
  forall (N : list nat) (n s T : nat) (cs : list rcmd),
    s <= n ->
    Forall (fun c => plain_cmd c = true) cs ->
    Forall (fun c => Forall (fun r => r < n) (r_regs c)) cs ->
    forall shots,
    unroll_program N (ShInt (Z.of_nat s)) false T cs shots (seq 0 n)
    = Some (map (rename (fun j => j mod n)) (loop_program_int s T cs shots)).
Proof. exact shift_int_refines_loop. Qed.
Print Assumptions C13_shift_int.

(* 4. space unrolling of a single band for one shot IS the explicit loop (the looped-back filter never
      fires), on the register of n + (T-1) modes that space_unroll allocates. *)
Theorem C13_space_unroll :
  forall (N : list nat) (sh : shiftspec) (n T : nat) (cs : list rcmd),
    0 < n ->
    Forall (fun c => plain_cmd c = true) cs ->
    Forall (fun c => Forall (fun r => r < n) (r_regs c)) cs ->
    unroll_program N sh true T cs 1 (seq 0 (n + (T - 1))) = Some (loop_program_int 1 T cs 1).
Proof. exact space_unroll_is_loop. Qed.
Print Assumptions C13_space_unroll.

(* 5. after ANY history of unroll / space_unroll / roll / lock calls, roll() gives back the rolled
      circuit, the original ACTIVE register, init_num_subsystems, empty caches, and does not touch the
      lock flag.  _partial: "register exactly" (inactive leftovers) and "lock flag preserved by unroll"
      are refuted below. *)
Theorem C13_roll_restores_partial :
  forall (N : list nat) (sh : shiftspec) (T : nat) (cs : list rcmd) (h : list call),
    let st := run_calls N sh T cs (init_state N) h in
    (st_circ (do_roll st) = CRolled /\ register (do_roll st) = seq 0 (concurr N) /\
     st_init (do_roll st) = Z.of_nat (concurr N) /\
     st_unrolled (do_roll st) = None /\ st_space (do_roll st) = None /\ st_shots (do_roll st) = None)
    /\ st_locked (do_roll st) = st_locked st.
Proof. exact roll_restores_active. Qed.
Print Assumptions C13_roll_restores_partial.

(* 6. sample layout.  Full statement (not proved for unbounded sizes): *)
Definition C13_samples_layout_statement : Prop :=
  forall N T shots, N <> [] -> Forall (fun n => 1 <= n) N -> 1 <= T ->
    reshape_samples (raw_samples N T shots) (measured N) N T = Some (expected N T shots).
(* proved by exhaustive evaluation for the sizes named in the statement *)
Theorem C13_samples_layout_bounded_partial :
  forall N T shots,
    N <> [] -> length N <= 3 -> Forall (fun n => 1 <= n <= 4) N -> 1 <= T <= 5 -> 1 <= shots <= 3 ->
    reshape_samples (raw_samples N T shots) (measured N) N T = Some (expected N T shots).
Proof. exact samples_layout_bounded. Qed.
Print Assumptions C13_samples_layout_bounded_partial.

(* ---- refuted on the faithful model (each reproduced on the implementation, see known_findings.d/C13.json) *)
Theorem C13_dagger_refuted : exists cs,
  Forall (fun c => Forall (fun r => r < sum_list [2]) (r_regs c)) cs /\
  unroll_program [2] ShDefault false 3 cs 1 (seq 0 2) <> Some (map (rename (rho [2])) (loop_program [2] 3 cs 1)).
Proof. exact dagger_refuted. Qed.
Print Assumptions C13_dagger_refuted.

Theorem C13_expr_param_refuted : exists cs,
  Forall (fun c => Forall (fun r => r < sum_list [2]) (r_regs c)) cs /\
  unroll_program [2] ShDefault false 3 cs 1 (seq 0 2) = None.
Proof. exact expr_refuted. Qed.
Print Assumptions C13_expr_param_refuted.

Theorem C13_space_shots_refuted : exists cs,
  Forall (fun c => plain_cmd c = true) cs /\ Forall (fun c => Forall (fun r => r < 2) (r_regs c)) cs /\
  unroll_program [2] ShDefault true 3 cs 2 (seq 0 (2 + (3 - 1))) <> Some (loop_program_int 1 3 cs 2).
Proof. exact space_shots_refuted. Qed.
Print Assumptions C13_space_shots_refuted.

Theorem C13_roll_register_refuted : exists h,
  st_regs (run_calls [2] ShDefault 3 ex_prog (init_state [2]) h) <> st_regs (init_state [2]) /\ last h Lock = Roll.
Proof. exact roll_register_refuted. Qed.
Print Assumptions C13_roll_register_refuted.

Theorem C13_lock_refuted : exists h, In Lock h /\
  st_locked (run_calls [2] ShDefault 3 ex_prog (init_state [2]) h) = false.
Proof. exact lock_refuted. Qed.
Print Assumptions C13_lock_refuted.

Theorem C13_space_unroll_again_refuted : exists h,
  let st := run_calls [2] ShDefault 3 ex_prog (init_state [2]) h in
  (st_init st <= Z.of_nat (max_mode (st_circ st)))%Z.
Proof. exact space_unroll_again_refuted. Qed.
Print Assumptions C13_space_unroll_again_refuted.

Theorem C13_space_reshape_refuted : exists n T,
  reshape_samples (map (fun g => (g, [g])) (seq 0 T)) [0] [n] T = None.
Proof. exact space_reshape_refuted. Qed.
Print Assumptions C13_space_reshape_refuted.

(* ---- the hypotheses are satisfiable *)
Example C13_hyps_inhabited :
  Forall (fun c => plain_cmd c = true) ex_prog /\
  Forall (fun c => Forall (fun r => r < sum_list [2]) (r_regs c)) ex_prog /\
  loop_program [2] 3 ex_prog 1 <> [].
Proof. split; [repeat constructor|split; [repeat constructor|discriminate]]. Qed.
