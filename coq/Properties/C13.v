(* C13 — a time-domain program means its explicit loop, however it is unrolled. *)
From Coq Require Import List ZArith Bool Arith.
From SFV Require Import C13.Model C13.Proofs C13.Machine C13.Layout.

Theorem C13_shift_by_zero : forall A (l : list A), shift_by l 0 = l.
Proof. exact shift_by_0. Qed.
Print Assumptions C13_shift_by_zero.
