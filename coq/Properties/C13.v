(* C13 — a time-domain program means its explicit loop, however it is unrolled.
   Only statements, each closed by `exact`, each followed by its axiom audit, plus Examples showing
   the hypotheses are satisfiable.  Model: coq/C13/Model.v (tied to strawberryfields/tdm/program.py by
   the correspondence run of tools/props/c13.py); it describes the code AFTER the fix commits
   253979f, 225c39f, 5a2f473.  The behaviour before them is kept as *_old definitions in coq/C13/Old.v,
   only to keep its refutations machine-checked (last section).

   Reading guide.  `unroll_program N sh space T cs shots q` is TDMProgram._unroll_program on register q;
   `loop_program N T cs shots` is the loop written out by hand with the fresh mode (band, pulse) for
   every pulse, every operation keeping its dagger / select and having every parameter (constant, p[k]
   or an expression in p[k]) evaluated at the time bin; `rho N` maps pulse (b, j) to register reference
   start_b + j mod N_b. *)
From Coq Require Import List ZArith Bool Arith.
Import ListNotations.
From SFV Require Import C13.Model C13.Proofs C13.Machine C13.Layout C13.Order C13.Old C13.OldRefuted.

(* 1. register shifting (default shift, any number of bands, any band sizes, time bins, shots,
      parameter arrays, ANY commands incl. daggered gates, post-selected measurements, expression
      parameters): the unrolled circuit is, command by command, the image of the explicit loop. *)
Theorem C13_shift_refines_loop :
  forall (N : list nat) (T : nat) (cs : list rcmd),
    Forall (fun c => Forall (fun r => r < sum_list N) (r_regs c)) cs ->
    forall shots : nat,
    unroll_program N ShDefault false T cs shots (seq 0 (sum_list N))
    = Some (map (rename (rho N)) (loop_program N T cs shots)).
Proof. exact shift_refines_loop. Qed.
Print Assumptions C13_shift_refines_loop.

(* 2. two different pulses renamed to the same register reference are used in disjoint ordered
      windows of bins, separated by bin j in which the earlier pulse (b, j) sits at the leading position
      of its band (where the property's hypothesis says it is measured, as the last command on it). *)
Theorem C13_reuse_separated :
  forall (N : list nat) (c c' : rcmd) (g g' b j j' : nat),
    Forall (fun r => r < sum_list N) (r_regs c) ->
    Forall (fun r => r < sum_list N) (r_regs c') ->
    In (b, j) (pulse_modes N c g) -> In (b, j') (pulse_modes N c' g') ->
    j < j' -> rho N (b, j) = rho N (b, j') ->
    g <= j /\ j < g'.
Proof. exact reuse_separated. Qed.
Print Assumptions C13_reuse_separated.

(* 3. integer shift s <= n of the whole n-mode register: image of the loop in which position o at
      bin g holds pulse o + s*g, under j |-> j mod n. *)
Theorem C13_shift_int :
  forall (N : list nat) (n s T : nat) (cs : list rcmd),
    s <= n ->
    Forall (fun c => Forall (fun r => r < n) (r_regs c)) cs ->
    forall shots,
    unroll_program N (ShInt (Z.of_nat s)) false T cs shots (seq 0 n)
    = Some (map (rename (fun j => j mod n)) (loop_program_int s T cs shots)).
Proof. exact shift_int_refines_loop. Qed.
Print Assumptions C13_shift_int.

(* 4. space unrolling of a single band for one shot IS the explicit loop (the looped-back filter never
      fires), on the register of n + (T-1) modes that space_unroll allocates.  (Two or more shots:
      refuted below, known finding space_unroll:shots>1.) *)
Theorem C13_space_unroll :
  forall (N : list nat) (sh : shiftspec) (n T : nat) (cs : list rcmd),
    0 < n ->
    Forall (fun c => Forall (fun r => r < n) (r_regs c)) cs ->
    unroll_program N sh true T cs 1 (seq 0 (n + (T - 1))) = Some (loop_program_int 1 T cs 1).
Proof. exact space_unroll_is_loop. Qed.
Print Assumptions C13_space_unroll.

(* 5. after ANY history of unroll / space_unroll / roll / lock calls, roll() restores the rolled
      circuit, the WHOLE register (every RegRef with its active flag), init_num_subsystems and the
      caches exactly; the lock flag is true iff lock() was called in the history. *)
Theorem C13_roll_restores :
  forall (N : list nat) (sh : shiftspec) (T : nat) (cs : list rcmd) (h : list call),
    let st := run_calls N sh T cs (init_state N) h in
    st_circ (do_roll st) = CRolled /\
    st_regs (do_roll st) = st_regs (init_state N) /\
    st_init (do_roll st) = st_init (init_state N) /\
    st_unrolled (do_roll st) = None /\ st_space (do_roll st) = None /\ st_shots (do_roll st) = None /\
    st_locked (do_roll st) = existsb is_lock h.
Proof. exact roll_restores. Qed.
Print Assumptions C13_roll_restores.

(* 5b. no call other than lock() changes the lock flag, in any state *)
Theorem C13_lock_preserved :
  forall (N : list nat) (sh : shiftspec) (T : nat) (cs : list rcmd) (st : pstate) (c : call),
    c <> Lock -> st_locked (fst (step N sh T cs st c)) = st_locked st.
Proof. exact step_locked. Qed.
Print Assumptions C13_lock_preserved.

(* 5c. unrolling / space-unrolling after any history followed by roll() builds the same circuit as
       on a fresh program *)
Theorem C13_unroll_history_independent :
  forall (N : list nat) (sh : shiftspec) (T : nat) (cs : list rcmd) (h : list call) (s : nat),
    let st := do_roll (run_calls N sh T cs (init_state N) h) in
    st_circ (fst (do_unroll N sh T cs s st)) = st_circ (fst (do_unroll N sh T cs s (init_state N))) /\
    st_circ (fst (do_space_unroll N sh T cs s st)) = st_circ (fst (do_space_unroll N sh T cs s (init_state N))).
Proof. exact unroll_after_history_is_fresh. Qed.
Print Assumptions C13_unroll_history_independent.

(* 5d. engine-side option handling (BaseEngine.get_tdm_options) in ANY program state -- rolled,
       unrolled with any shots, space-unrolled, locked or not: space_unroll=True makes the executed
       program space-unrolled and restricts the returned state to the `timebins` measured pulses
       (from the crop value on when crop=True); otherwise the program is (space-)unrolled some way;
       modes are selected iff the executed program is space-unrolled; the lock flag is untouched. *)
Theorem C13_run_options_effective :
  forall (N : list nat) (sh : shiftspec) (T : nat) (cs : list rcmd)
         (st : pstate) (space_kw : bool) (shots : option nat) (crop : bool) (cropv : nat),
    let r := tdm_options N sh T cs space_kw shots crop cropv st in
    let st1 := fst (fst (fst r)) in
    (space_kw = true -> st_space st1 <> None /\ snd (fst (fst r)) = Some ((if crop then cropv else 0), T)) /\
    is_unrolled st1 = true /\
    (st_space st1 = None <-> snd (fst (fst r)) = None) /\
    st_locked st1 = st_locked st.
Proof. exact tdm_options_effective. Qed.
Print Assumptions C13_run_options_effective.

(* 6. sample layout.  Full statement (not proved for unbounded sizes): *)
Definition C13_samples_layout_statement : Prop :=
  forall N T shots, N <> [] -> Forall (fun n => 1 <= n) N -> 1 <= T ->
    reshape_samples (raw_samples N T shots) (measured N) N T = Some (expected N T shots).
(* proved by exhaustive evaluation for the sizes named in the statement *)
Theorem C13_samples_layout_bounded_partial :
  forall N T shots,
    N <> [] -> length N <= 3 -> Forall (fun n => 1 <= n <= 4) N -> 1 <= T <= 5 -> 1 <= shots <= 3 ->
    reshape_samples (raw_samples N T shots) (measured N) N T = Some (expected N T shots).
Proof. exact samples_layout_bounded. Qed.
Print Assumptions C13_samples_layout_bounded_partial.

(* 6b. unbounded part of the layout: for every list of non-empty bands and every number G of time
       bins (= shots * timebins), _get_mode_order returns exactly the order in which the unrolled
       default-shift circuit measures (bin by bin, band by band, band b on start_b + g mod N_b). *)
Theorem C13_mode_order :
  forall (N : list nat) (G : nat),
    N <> [] -> Forall (fun n => 0 < n) N ->
    get_mode_order (G * length N) (measured N) N
    = Some (flat_map (fun g => map (fun b => band_start N b + g mod nth b N 1) (seq 0 (length N))) (seq 0 G)).
Proof. exact mode_order_is_measurement_order. Qed.
Print Assumptions C13_mode_order.

(* 7. tdm/utils.py vacuum_padding (model `vacuum_padding`): every returned gate list is its input list
      plus exactly `crop` zeros -- lists of one common length keep one common length -- for any
      number of loops, any delays, any argument lists. *)
Theorem C13_vacuum_padding_lengths :
  forall (sg : list Z) (loops : list (list Z * list Z)) (delays : list nat),
    length delays = length loops ->
    let r := vacuum_padding sg loops delays in
    let tot := snd r in
    length (fst (fst r)) = length sg + tot /\
    length (snd (fst r)) = length loops /\
    forall i rg bs, nth_error loops i = Some (rg, bs) ->
      exists rg' bs', nth_error (snd (fst r)) i = Some (rg', bs') /\
        length rg' = length rg + tot /\ length bs' = length bs + tot.
Proof. exact vacuum_padding_lengths. Qed.
Print Assumptions C13_vacuum_padding_lengths.

(* ---- refuted for the CURRENT code (reproduced on the implementation, known_findings.d/C13.json) *)
Theorem C13_space_shots_refuted : exists cs,
  Forall (fun c => Forall (fun r => r < 2) (r_regs c)) cs /\
  unroll_program [2] ShDefault true 3 cs 2 (seq 0 (2 + (3 - 1))) <> Some (loop_program_int 1 3 cs 2).
Proof. exact space_shots_refuted. Qed.
Print Assumptions C13_space_shots_refuted.

Theorem C13_space_reshape_refuted : exists n T,
  reshape_samples (map (fun g => (g, [g])) (seq 0 T)) [0] [n] T = None.
Proof. exact space_reshape_refuted. Qed.
Print Assumptions C13_space_reshape_refuted.

(* ---- refuted for the behaviour BEFORE the fix commits (definitions *_old of coq/C13/Old.v only) *)
Theorem C13_dagger_old_refuted : exists cs,
  Forall (fun c => Forall (fun r => r < sum_list [2]) (r_regs c)) cs /\
  unroll_program_old [2] ShDefault false 3 cs 1 (seq 0 2) <> Some (map (rename (rho [2])) (loop_program [2] 3 cs 1)).
Proof. exact dagger_old_refuted. Qed.
Print Assumptions C13_dagger_old_refuted.

Theorem C13_expr_param_old_refuted : exists cs,
  Forall (fun c => Forall (fun r => r < sum_list [2]) (r_regs c)) cs /\
  unroll_program_old [2] ShDefault false 3 cs 1 (seq 0 2) = None.
Proof. exact expr_old_refuted. Qed.
Print Assumptions C13_expr_param_old_refuted.

Theorem C13_roll_register_old_refuted : exists h,
  st_regs (run_calls_old [2] ShDefault 3 ex_prog (init_state [2]) h) <> st_regs (init_state [2]) /\ last h Lock = Roll.
Proof. exact roll_register_old_refuted. Qed.
Print Assumptions C13_roll_register_old_refuted.

Theorem C13_lock_old_refuted : exists h, In Lock h /\
  st_locked (run_calls_old [2] ShDefault 3 ex_prog (init_state [2]) h) = false.
Proof. exact lock_old_refuted. Qed.
Print Assumptions C13_lock_old_refuted.

Theorem C13_space_unroll_again_old_refuted : exists h,
  let st := run_calls_old [2] ShDefault 3 ex_prog (init_state [2]) h in
  (st_init st <= Z.of_nat (max_mode (st_circ st)))%Z.
Proof. exact space_unroll_again_old_refuted. Qed.
Print Assumptions C13_space_unroll_again_old_refuted.

(* ---- the hypotheses are satisfiable *)
Example C13_hyps_inhabited :
  Forall (fun c => Forall (fun r => r < sum_list [2]) (r_regs c)) ex_prog /\
  loop_program [2] 3 ex_prog 1 <> [].
Proof. split; [repeat constructor|discriminate]. Qed.
