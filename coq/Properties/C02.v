(* C02 — Decomposed operations implement exactly the documented transformation.
   Only statements, each closed by `exact`, each followed by its axiom audit.

   Reading guide.  K is ANY commutative ring (Kring); parameters enter only through the values the
   code takes of them: an angle is (cos, sin) with cos^2+sin^2 = 1, a squeezing magnitude is
   (cosh, sinh) with cosh^2-sinh^2 = 1, so every statement holds for all real parameter values at
   once.  `wf g` bundles those identities, the truthfulness of the "parameter == 0" flags that
   Gate.apply tests, and — for Pgate/CXgate/CZgate — the relations satisfied by the derived
   parameters their _decompose computes (acosh/atan/asinh/atan2 outputs).  `doc g` is the
   documented phase-space transformation (symplectic matrix + displacement, quadrature order
   x0 x1 p0 p1), `doc_cmd` places it on the command's wires and inverts it when the command is
   daggered, `sem_seq` composes a command list in time order. *)
From Coq Require Import List Bool Arith ZArith Ring.
Import ListNotations.
From SFV Require Import C02.Alg C02.Model C02.Proofs C02.ProofsSeq C02.ProofsGate C02.ProofsDrv C02.ProofsRefute C02.Mesh C02.Embed C02.Inst.

Definition ring_of (K : Type) (O : Ops K) : Prop :=
  ring_theory (@k0 K O) (@k1 K O) (@kadd K O) (@kmul K O) (@ksub K O) (@kopp K O) eq.
Definition consts_ok (K : Type) (O : Ops K) : Prop :=
  @kadd K O (@kmul K O (@rt K O) (@rt K O)) (@kmul K O (@rt K O) (@rt K O)) = @k1 K O   (* 2 cos^2(pi/4) = 1 *)
  /\ @kmul K O (@s2h K O) (@is2h K O) = @k1 K O.                                           (* sqrt(2hbar)/sqrt(2hbar) = 1 *)

(* 1. Every _decompose (Xgate, Zgate, Pgate, MZgate, sMZgate, S2gate, CXgate, CZgate, Fouriergate)
      implements the documented transformation, for every parameter value. *)
Theorem C02_decomp_sound : forall (K : Type) (O : Ops K), ring_of K O -> consts_ok K O ->
  forall (g : gate K) (l : list (cmd K)), wf K g -> decomp K g = Some l ->
  sem_seq K (map (doc_cmd K) l) = doc K g.
Proof. intros K O R [H1 H2]. exact (decomp_sound K R H1 H2). Qed.
Print Assumptions C02_decomp_sound.

(* 2. Gate.decompose — reverse the sequence and flip every flag — implements the inverse for the
      dagger form of every decomposable gate. *)
Theorem C02_dagger : forall (K : Type) (O : Ops K), ring_of K O -> consts_ok K O ->
  forall (g : gate K) (dag : bool) (l : list (cmd K)), wf K g -> decompose_local K g dag = Some l ->
  sem_seq K (map (doc_cmd K) l) = if dag then ainv K (doc K g) else doc K g.
Proof. intros K O R [H1 H2]. exact (decompose_local_sound K R H1 H2). Qed.
Print Assumptions C02_dagger.

(* 2a. `.H` is an involution on commands (Gate.H flips the flag of a copy): an even number of daggers is no dagger,
       an odd number is one. *)
Theorem C02_double_dagger : forall (K : Type) (O : Ops K) (c : cmd K),
  flip K (flip K c) = c /\ doc_cmd K (flip K (flip K c)) = doc_cmd K c
  /\ doc_cmd K (flip K (flip K (flip K c))) = doc_cmd K (flip K c).
Proof.
  intros K O [g w d]. unfold flip. simpl. rewrite Bool.negb_involutive. repeat split; reflexivity.
Qed.
Print Assumptions C02_double_dagger.

(* 2b. ... and `ainv` really is the inverse: every documented transformation is symplectic. *)
Theorem C02_doc_symplectic : forall (K : Type) (O : Ops K), ring_of K O -> consts_ok K O ->
  forall g : gate K, wf K g ->
  acomp K (ainv K (doc K g)) (doc K g) = aid K /\ acomp K (doc K g) (ainv K (doc K g)) = aid K.
Proof.
  intros K O R [H1 H2] g W. split; [apply (ainv_l K R) | apply (ainv_r K R)]; exact (gsymp_all K R H1 H2 g W).
Qed.
Print Assumptions C02_doc_symplectic.

(* 3. On any choice and order of target wires (first/second mode of the pair, either order). *)
Theorem C02_decompose_cmd : forall (K : Type) (O : Ops K), ring_of K O -> consts_ok K O ->
  forall (c : cmd K) (l : list (cmd K)), cmd_ok K c -> decompose_cmd K c = Some l ->
  sem_seq K (map (doc_cmd K) l) = doc_cmd K c /\ Forall (cmd_ok K) l.
Proof. intros K O R [H1 H2]. exact (decompose_cmd_sound K R H1 H2). Qed.
Print Assumptions C02_decompose_cmd.

(* 4. Gate.apply: for the primitives Dgate, Sgate, Rgate, BSgate, S2gate the shortcut "p0 == 0 => skip"
      and the rule "dagger => negate p0" are correct. *)
Theorem C02_apply_conventions : forall (K : Type) (O : Ops K), ring_of K O -> consts_ok K O ->
  forall c : cmd K, wf K (cg K c) -> conv_prim (kind_of K (cg K c)) = true -> apply_sem K c = doc_cmd K c.
Proof. intros K O R [H1 H2]. exact (apply_conv K R). Qed.
Print Assumptions C02_apply_conventions.

(* 5. Compiler.decompose: the recursive driver preserves the documented action of every program
      (any table), emits only primitives of the table, and never runs out of fuel 4. *)
Theorem C02_compile_decompose : forall (K : Type) (O : Ops K), ring_of K O -> consts_ok K O ->
  forall (fuel : nat) (tb : table) (seq out : list (cmd K)),
  Forall (cmd_ok K) seq -> compile K fuel tb seq = Ok K out ->
  sem_seq K (map (doc_cmd K) out) = sem_seq K (map (doc_cmd K) seq)
  /\ Forall (cmd_ok K) out
  /\ Forall (fun c => t_dec tb (kind_of K (cg K c)) = false /\ t_prim tb (kind_of K (cg K c)) = true) out.
Proof. intros K O R [H1 H2]. exact (compile_sound K R H1 H2). Qed.
Print Assumptions C02_compile_decompose.

Theorem C02_compile_terminates : forall (K : Type) (O : Ops K) (tb : table) (seq : list (cmd K)),
  compile K 4 tb seq <> ErrFuel K.
Proof. intros K O. exact (compile_terminates K). Qed.
Print Assumptions C02_compile_terminates.

(* 6. Consequently a program gives the documented state on the Gaussian and the bosonic compile
      targets (tables of compilers/gaussian.py and bosonic.py), executed through Gate.apply. *)
Theorem C02_gaussian_target : forall (K : Type) (O : Ops K), ring_of K O -> consts_ok K O ->
  forall (fuel : nat) (seq out : list (cmd K)),
  Forall (cmd_ok K) seq -> compile K fuel tb_gaussian seq = Ok K out ->
  sem_seq K (map (apply_sem K) out) = sem_seq K (map (doc_cmd K) seq).
Proof. intros K O R [H1 H2] fuel seq out. exact (compile_apply_sound K R H1 H2 fuel tb_gaussian seq out tb_gaussian_conv). Qed.
Print Assumptions C02_gaussian_target.

Theorem C02_bosonic_target : forall (K : Type) (O : Ops K), ring_of K O -> consts_ok K O ->
  forall (fuel : nat) (seq out : list (cmd K)),
  Forall (cmd_ok K) seq -> compile K fuel tb_bosonic seq = Ok K out ->
  sem_seq K (map (apply_sem K) out) = sem_seq K (map (doc_cmd K) seq).
Proof. intros K O R [H1 H2] fuel seq out. exact (compile_apply_sound K R H1 H2 fuel tb_bosonic seq out tb_bosonic_conv). Qed.
Print Assumptions C02_bosonic_target.

(* 7. The same statement is FALSE for the Fock compile target, whose table applies MZgate natively:
      known finding (MZgate violates both first-parameter conventions). *)
Theorem C02_mz_zero_skipped_refuted : forall (K : Type) (O : Ops K), ring_of K O -> consts_ok K O -> @k1 K O <> @k0 K O ->
  exists c : cmd K, cmd_ok K c /\ p0z K (cg K c) = true /\ apply_sem K c <> doc_cmd K c.
Proof.
  intros K O R [H1 _] H10. exists (mz_zero K). split; [apply mz_zero_ok; exact R|].
  exact (mz_zero_refuted K R H10).
Qed.
Print Assumptions C02_mz_zero_skipped_refuted.

Theorem C02_mz_dagger_refuted : forall (K : Type) (O : Ops K), ring_of K O -> consts_ok K O -> @k1 K O <> @k0 K O ->
  exists c : cmd K, cmd_ok K c /\ cdag K c = true /\ apply_sem K c <> doc_cmd K c.
Proof.
  intros K O R [H1 _] H10. exists (mz_dag K). split; [apply mz_dag_ok; exact R|]. split; [reflexivity|].
  exact (mz_dagger_refuted K R H1 H10).
Qed.
Print Assumptions C02_mz_dagger_refuted.

Theorem C02_fock_target_refuted : forall (K : Type) (O : Ops K), ring_of K O -> consts_ok K O -> @k1 K O <> @k0 K O ->
  exists seq out, Forall (cmd_ok K) seq /\ compile K 4 tb_fock seq = Ok K out
    /\ sem_seq K (map (apply_sem K) out) <> sem_seq K (map (doc_cmd K) seq).
Proof. intros K O R [H1 _] H10. exact (fock_table_refuted K R H1 H10). Qed.
Print Assumptions C02_fock_target_refuted.

(* 8. sMZgate's closed form is the matrix M(sigma, delta) of decompositions.py. *)
Theorem C02_sMZ_is_M : forall (K : Type) (O : Ops K), ring_of K O -> consts_ok K O ->
  forall sg dl : ang K,
  doc K (sMZgate K (a_add K sg dl) (a_sub K sg dl)) =
  a_lin K (m_uni K (@kmul K O (co K sg) (si K dl)) (@kmul K O (co K sg) (co K dl)) (@kmul K O (co K sg) (co K dl))
                   (@kopp K O (@kmul K O (co K sg) (si K dl)))
                   (@kmul K O (si K sg) (si K dl)) (@kmul K O (si K sg) (co K dl)) (@kmul K O (si K sg) (co K dl))
                   (@kopp K O (@kmul K O (si K sg) (si K dl)))).
Proof. intros K O R [H1 _]. exact (sMZ_is_M K R H1). Qed.
Print Assumptions C02_sMZ_is_M.

(* 9. Mesh assembly at the level of an arbitrary group G (order, inverses, reversal):
      Interferometer._decompose applied to the output of decompositions.rectangular acts as V,
      whatever factors the nulling steps choose. *)
Definition group_laws (G : Type) (mul : G -> G -> G) (inv : G -> G) (e : G) : Prop :=
  (forall a b c, mul a (mul b c) = mul (mul a b) c) /\ (forall a, mul e a = a) /\ (forall a, mul a e = a)
  /\ (forall a, mul (inv a) a = e) /\ (forall a, mul a (inv a) = e).

Theorem C02_mesh_rectangular : forall (G : Type) (mul : G -> G -> G) (inv : G -> G) (e : G),
  group_laws G mul inv e ->
  forall (V : G) (steps : list (step G)),
  let s := run G mul inv V steps in
  useq G mul e (assemble G inv (tilist G s) (localV G s) (Some (tlist G s))) = V.
Proof. intros G mul inv e (A & B & C & D & E). exact (rectangular_assembly G mul inv e A B C D E). Qed.
Print Assumptions C02_mesh_rectangular.

(* ... the same for decompositions.triangular as assembled by Interferometer._decompose (diagonal first,
       then the inverse factors): acts as V, whatever factors the nulling chooses. *)
Theorem C02_mesh_triangular : forall (G : Type) (mul : G -> G -> G) (inv : G -> G) (e : G),
  group_laws G mul inv e ->
  forall (V : G) (ts : list G), useq G mul e (tri_emitted G mul inv V ts) = V.
Proof. intros G mul inv e (A & B & C & D & E). exact (triangular_assembly G mul inv e A B C D E). Qed.
Print Assumptions C02_mesh_triangular.

(* ... which was false for the assembly used before /repo commit 8725dba (T factors first, diagonal last). *)
Theorem C02_mesh_triangular_old_refuted :
  exists (V : Z) (ts : list Z), useq Z Z.add 0%Z (tri_emitted_old Z Z.add Z.opp V ts) <> V.
Proof. exact triangular_old_refuted. Qed.
Print Assumptions C02_mesh_triangular_old_refuted.

(* ... _sun_compact_cmds' final reversal, and the emission order of _triangular_compact_cmds
       (factors f with conj f = f^-1 multiplied onto conj U until it is the identity). *)
Theorem C02_mesh_sun_reversal : forall (G : Type) (mul : G -> G -> G) (inv : G -> G) (e : G),
  group_laws G mul inv e -> forall cmds : list G, useq G mul e (rev cmds) = lprod G mul e cmds.
Proof. intros G mul inv e (A & B & C & D & E). exact (sun_reversal G mul e A B C). Qed.
Print Assumptions C02_mesh_sun_reversal.

Theorem C02_mesh_compact_right : forall (G : Type) (mul : G -> G -> G) (inv : G -> G) (e : G),
  group_laws G mul inv e ->
  forall conj : G -> G, (forall a b, conj (mul a b) = mul (conj a) (conj b)) -> (forall a, conj (conj a) = a) ->
  forall (U : G) (fs : list G), Forall (fun f => conj f = inv f) fs -> mul (conj U) (lprod G mul e fs) = e ->
  useq G mul e fs = U.
Proof.
  intros G mul inv e (A & B & C & D & E) conj H1 H2. exact (compact_right_assembly G mul inv e A B C D E conj H1 H2).
Qed.
Print Assumptions C02_mesh_compact_right.

(* ... _rectangular_compact_init multiplies conj(U) on the right (even diagonals) and on the left (odd
       diagonals) by factors with conj f = f^-1 until it is the identity: in time order the interferometer is
       the right factors in the order found, then the left factors last-found first. *)
Theorem C02_mesh_compact_two_sided : forall (G : Type) (mul : G -> G -> G) (inv : G -> G) (e : G),
  group_laws G mul inv e ->
  forall conj : G -> G, (forall a b, conj (mul a b) = mul (conj a) (conj b)) -> (forall a, conj (conj a) = a) ->
  forall (U : G) (Ls Rs : list G), Forall (fun f => conj f = inv f) Ls -> Forall (fun f => conj f = inv f) Rs ->
  mul (mul (useq G mul e Ls) (conj U)) (lprod G mul e Rs) = e ->
  useq G mul e (Rs ++ rev Ls) = U.
Proof.
  intros G mul inv e (A & B & C & D & E) conj H1 H2. exact (compact_two_sided_assembly G mul inv e A B C D E conj H1 H2).
Qed.
Print Assumptions C02_mesh_compact_two_sided.

(* ... and the algebraic step of _absorb_zeta: a residual phase on both modes next to an sMZI is absorbed by
       shifting both of its internal phases, on either side.  (Which zeta is routed to which sMZI / edge
       shifter, and the layer-by-layer emission order of _rectangular_compact_cmds, are NOT proved: search only.) *)
Theorem C02_sMZ_absorbs_common_phase : forall (K : Type) (O : Ops K), ring_of K O ->
  forall a b z : ang K,
  let both := acomp K (aswap K (doc K (Rgate K z))) (doc K (Rgate K z)) in
  doc K (sMZgate K (a_add K a z) (a_add K b z)) = acomp K both (doc K (sMZgate K a b))
  /\ doc K (sMZgate K (a_add K a z) (a_add K b z)) = acomp K (doc K (sMZgate K a b)) both.
Proof. intros K O R. exact (sMZ_common_phase K R). Qed.
Print Assumptions C02_sMZ_absorbs_common_phase.

(* 10. n-mode registers: a command's action embedded at ANY two distinct wire positions (k, l) of an n-mode
       register (either order, any n) commutes with decomposition and with Compiler.decompose; a gate touches
       only the coordinates of its targets.  Register states are functions nat -> K (x_i at i, p_i at n+i),
       equality is pointwise. *)
Theorem C02_embedded_decomposition : forall (K : Type) (O : Ops K), ring_of K O -> consts_ok K O ->
  forall (n k l : nat) (c : cmd K) (L : list (cmd K)), targets_ok n k l -> cmd_ok K c ->
  decompose_cmd K c = Some L ->
  forall (r : reg K) (i : nat), nrun K n k l L r i = embed K n k l (doc_cmd K c) r i.
Proof. intros K O R [H1 H2]. exact (decompose_embedded K R H1 H2). Qed.
Print Assumptions C02_embedded_decomposition.

Theorem C02_embedded_compile : forall (K : Type) (O : Ops K), ring_of K O -> consts_ok K O ->
  forall (n k l fuel : nat) (tb : table) (seq out : list (cmd K)), targets_ok n k l -> Forall (cmd_ok K) seq ->
  compile K fuel tb seq = Ok K out ->
  forall (r : reg K) (i : nat), nrun K n k l out r i = nrun K n k l seq r i.
Proof. intros K O R [H1 H2]. exact (compile_embedded K R H1 H2). Qed.
Print Assumptions C02_embedded_compile.

Theorem C02_embedded_order_and_locality : forall (K : Type) (O : Ops K), ring_of K O ->
  forall (n k l : nat) (a : aff K) (r : reg K) (i : nat),
  (targets_ok n k l -> embed K n k l (aswap K a) r i = embed K n l k a r i)
  /\ (i <> k -> i <> l -> i <> n + k -> i <> n + l -> embed K n k l a r i = r i).
Proof.
  intros K O R n k l a r i. split; [apply (embed_swap K R) | apply (embed_spectator K)].
Qed.
Print Assumptions C02_embedded_order_and_locality.

(* ---- the hypotheses are satisfiable: Q(sqrt 2), axiom-free ---- *)
Example C02_instance : ring_of Q2 Q2ops /\ consts_ok Q2 Q2ops /\ @k1 Q2 Q2ops <> @k0 Q2 Q2ops.
Proof. exact (conj Q2ring (conj (conj Q2_rt Q2_s2h) Q2_10)). Qed.
Example C02_wf_inhabited : wf Q2 exP /\ wf Q2 exCX /\ wf Q2 exCZ /\ wf Q2 exS2 /\ wf Q2 exMZ.
Proof. exact (conj exP_wf (conj exCX_wf (conj exCZ_wf (conj exS2_wf exMZ_wf)))). Qed.
