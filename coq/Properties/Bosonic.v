(* Bosonic — property statements shared by C01 (bosonic_<op>_is_phase_space), C05 (bosonic_spectators_<op>) and
   C07 (bosonic_symmetric, bosonic_weights_untouched).  Nothing in this file depends on the model of the Gaussian
   simulator; the corollaries C01_gauss_bosonic_agree_* are in Properties/BosonicAgree.v (C01 only).
   Statements only: each theorem is proved by `exact <lemma>`; one Print Assumptions per theorem.

   The model (coq/Bosonic/Model.v) is a hand model of the Gaussian-operation part of
   strawberryfields/backends/bosonicbackend/bosoniccircuit.py and of the thewalrus.symplectic helpers it calls; it is
   tied to the code on every run by the float correspondence of tools/props/bosonic_model.py.

   Vocabulary.
     K                 any commutative ring (in particular R and C); cos / sin / cosh / sinh / sqrt values are inputs
     bst               BosonicModes state: bn modes, bnw weights, per weight w a mean vector bmeans s w : nat -> K and a
                       covariance matrix bcovs s w : nat -> nat -> K in the backend's xpxp order (x_0,p_0,x_1,p_1,...)
     xp q a = 2a + q   position of quadrature q (false = x, true = p) of mode a in that order
     enc n q a = a + q n   its position in thewalrus' xxpp order
     bcov V q1 q2 a b = V (xp q1 a) (xp q2 b),  bvec r q a = r (xp q a)      the index-convention conversion
     congr S tg V = S V S^T, vmix S tg r = S r, add_diag, S_rot, S_sq, S_bs, S_scale : Base/PhaseSpace.v — the same
                       documented matrices the Gaussian simulator is proved against in Properties/C01.v
     the covariance update in the model is the FULL matrix product X_perm @ V @ X_perm^T + Y_perm over all 2n indices
     (Bosonic/Sum.v: sumn); the theorems collapse it (Sum.row_collapse) for every n and every target position. *)
From Coq Require Import Arith List Bool ZArith.
Import ListNotations.
From SFV Require Import Base.Num Base.PhaseSpace.
From SFV Require Import Bosonic.Sum Bosonic.Model Bosonic.Index Bosonic.Proofs Bosonic.Physical.

Section Statements.
Variable K : Type.
Variables (k0 k1 : K) (kadd kmul ksub : K -> K -> K) (kopp : K -> K).
Hypothesis Kring : ring_theory k0 k1 kadd kmul ksub kopp (@eq K).
Notation NK := (mkNum k0 k1 kadd kmul ksub kopp).
Notation good_targets := Proofs.good_targets.
Notation Bexp := (Proofs.Bexp K k0).
Notation op_wf := (Physical.op_wf K).
Notation sym_ok := (Physical.sym_ok K).
Notation msym := (Physical.msym K).
Notation bst := (@bst K).
Notation bop := (@bop K).
Notation "x + y" := (kadd x y). Notation "x * y" := (kmul x y). Notation "x - y" := (ksub x y). Notation "- x" := (kopp x).

(* ================================================================== C01: every operation is the documented phase-space map *)

(* phase_shift(phi, k):  c = cos phi, sn = sin phi *)
Theorem C01_bosonic_rotation_is_phase_space : forall (s : bst) w c sn k q1 q2 a b,
  k < bn s -> a < bn s -> b < bn s ->
  bcov (bcovs (Model.phase_shift NK c sn k s) w) q1 q2 a b = congr NK (S_rot NK c sn) [k] (bcov (bcovs s w)) q1 q2 a b.
Proof. exact (Proofs.phase_shift_phase_space K k0 k1 kadd kmul ksub kopp Kring). Qed.

Theorem C01_bosonic_rotation_means : forall (s : bst) w c sn k q a,
  k < bn s -> a < bn s ->
  bvec (bmeans (Model.phase_shift NK c sn k s) w) q a = vmix NK (S_rot NK c sn) [k] (bvec (bmeans s w)) q a.
Proof. exact (Proofs.phase_shift_means K k0 k1 kadd kmul ksub kopp Kring). Qed.

(* squeeze(r, phi, k):  c = cos phi, sn = sin phi, sh = sinh r, ch = cosh r *)
Theorem C01_bosonic_squeeze_is_phase_space : forall (s : bst) w c sn sh ch k q1 q2 a b,
  k < bn s -> a < bn s -> b < bn s ->
  bcov (bcovs (Model.squeeze NK c sn sh ch k s) w) q1 q2 a b = congr NK (S_sq NK c sn sh ch) [k] (bcov (bcovs s w)) q1 q2 a b.
Proof. exact (Proofs.squeeze_phase_space K k0 k1 kadd kmul ksub kopp Kring). Qed.

Theorem C01_bosonic_squeeze_means : forall (s : bst) w c sn sh ch k q a,
  k < bn s -> a < bn s ->
  bvec (bmeans (Model.squeeze NK c sn sh ch k s) w) q a = vmix NK (S_sq NK c sn sh ch) [k] (bvec (bmeans s w)) q a.
Proof. exact (Proofs.squeeze_means K k0 k1 kadd kmul ksub kopp Kring). Qed.

(* beamsplitter(theta, phi, k, l):  ct = cos theta, st = sin theta, cp = cos phi, sp = sin phi.
   The matrix is S_bs with e = exp(-i phi) and sn = -sin theta, i.e. the one the Gaussian simulator reaches through
   GaussianBackend.beamsplitter, which calls GaussianModes.beamsplitter(-theta, -phi). *)
Theorem C01_bosonic_beamsplitter_is_phase_space : forall (s : bst) w ct st cp sp k l q1 q2 a b,
  k < bn s -> l < bn s -> k <> l -> a < bn s -> b < bn s ->
  bcov (bcovs (Model.beamsplitter NK ct st cp sp k l s) w) q1 q2 a b
  = congr NK (S_bs NK cp (- sp) (- st) ct k l) [k; l] (bcov (bcovs s w)) q1 q2 a b.
Proof. exact (Proofs.beamsplitter_phase_space K k0 k1 kadd kmul ksub kopp Kring). Qed.

Theorem C01_bosonic_beamsplitter_means : forall (s : bst) w ct st cp sp k l q a,
  k < bn s -> l < bn s -> k <> l -> a < bn s ->
  bvec (bmeans (Model.beamsplitter NK ct st cp sp k l s) w) q a
  = vmix NK (S_bs NK cp (- sp) (- st) ct k l) [k; l] (bvec (bmeans s w)) q a.
Proof. exact (Proofs.beamsplitter_means K k0 k1 kadd kmul ksub kopp Kring). Qed.

(* displace(r, phi, k): covariances untouched, means shifted by (2 r cos phi, 2 r sin phi) on mode k *)
Theorem C01_bosonic_displace_is_phase_space : forall (s : bst) w r c sn k,
  bcovs (Model.displace NK r c sn k s) w = bcovs s w.
Proof. exact (Proofs.displace_phase_space K k0 k1 kadd kmul ksub kopp). Qed.

Theorem C01_bosonic_displace_means : forall (s : bst) w r c sn k q a,
  k < bn s -> a < bn s ->
  bvec (bmeans (Model.displace NK r c sn k s) w) q a
  = bvec (bmeans s w) q a + (if Nat.eqb a k then (if q then (k1 + k1) * (r * sn) else (k1 + k1) * (r * c)) else k0).
Proof. exact (Proofs.displace_means K k0 k1 kadd kmul ksub kopp). Qed.

(* loss(T, k): sqT = sqrt T;  V -> X V X^T + Y with X = sqrt(T) Id, Y = (1 - T) Id on mode k *)
Theorem C01_bosonic_loss_is_phase_space : forall (s : bst) w T sqT k q1 q2 a b,
  k < bn s -> a < bn s -> b < bn s ->
  bcov (bcovs (Model.loss NK T sqT k s) w) q1 q2 a b
  = add_diag NK (k1 - T) k (congr NK (S_scale NK sqT) [k] (bcov (bcovs s w))) q1 q2 a b.
Proof. exact (Proofs.loss_phase_space K k0 k1 kadd kmul ksub kopp Kring). Qed.

Theorem C01_bosonic_loss_means : forall (s : bst) w T sqT k q a,
  k < bn s -> a < bn s ->
  bvec (bmeans (Model.loss NK T sqT k s) w) q a = vmix NK (S_scale NK sqT) [k] (bvec (bmeans s w)) q a.
Proof. exact (Proofs.loss_means K k0 k1 kadd kmul ksub kopp Kring). Qed.

Theorem C01_bosonic_thermal_loss_is_phase_space : forall (s : bst) w T nb sqT k q1 q2 a b,
  k < bn s -> a < bn s -> b < bn s ->
  bcov (bcovs (Model.thermal_loss NK T nb sqT k s) w) q1 q2 a b
  = add_diag NK ((k1 - T) * ((k1 + k1) * nb + k1)) k (congr NK (S_scale NK sqT) [k] (bcov (bcovs s w))) q1 q2 a b.
Proof. exact (Proofs.thermal_loss_phase_space K k0 k1 kadd kmul ksub kopp Kring). Qed.

Theorem C01_bosonic_thermal_loss_means : forall (s : bst) w T nb sqT k q a,
  k < bn s -> a < bn s ->
  bvec (bmeans (Model.thermal_loss NK T nb sqT k s) w) q a = vmix NK (S_scale NK sqT) [k] (bvec (bmeans s w)) q a.
Proof. exact (Proofs.thermal_loss_means K k0 k1 kadd kmul ksub kopp Kring). Qed.

(* init_thermal(nbar, k): mode k ends in the thermal state (2 nbar + 1) Id, uncorrelated with the rest, zero mean *)
Theorem C01_bosonic_init_thermal_is_phase_space : forall (s : bst) w nb k q1 q2 a b,
  k < bn s -> a < bn s -> b < bn s ->
  bcov (bcovs (Model.init_thermal NK nb k s) w) q1 q2 a b
  = if Nat.eqb a k || Nat.eqb b k
    then (if Nat.eqb a k && Nat.eqb b k && Bool.eqb q1 q2 then (k1 + k1) * nb + k1 else k0)
    else bcov (bcovs s w) q1 q2 a b.
Proof. exact (Proofs.init_thermal_phase_space K k0 k1 kadd kmul ksub kopp Kring). Qed.

Theorem C01_bosonic_init_thermal_means : forall (s : bst) w nb k q a,
  k < bn s -> a < bn s ->
  bvec (bmeans (Model.init_thermal NK nb k s) w) q a = if Nat.eqb a k then k0 else bvec (bmeans s w) q a.
Proof. exact (Proofs.init_thermal_means K k0 k1 kadd kmul ksub kopp Kring). Qed.

(* gaussian_cptp(modes, X, Y) = expandXY + apply_channel for ANY block size M, any duplicate-free in-range mode list in any
   order: X V X^T + Y with X, Y acting on `modes` only (Bexp M X modes = the block of thewalrus' expand) *)
Theorem C01_bosonic_channel_is_phase_space : forall (s : bst) w M modes X Y q1 q2 a b,
  good_targets (bn s) modes -> a < bn s -> b < bn s ->
  bcov (bcovs (apply_op NK (OChannel M modes X Y) s) w) q1 q2 a b
  = congr NK (Bexp M X modes) modes (bcov (bcovs s w)) q1 q2 a b
    + (if mem a modes && mem b modes then Bexp M Y modes q1 a q2 b else k0).
Proof. exact (Proofs.channel_phase_space K k0 k1 kadd kmul ksub kopp Kring). Qed.

Theorem C01_bosonic_channel_means : forall (s : bst) w M modes X Y q a,
  good_targets (bn s) modes -> a < bn s ->
  bvec (bmeans (apply_op NK (OChannel M modes X Y) s) w) q a = vmix NK (Bexp M X modes) modes (bvec (bmeans s w)) q a.
Proof. exact (Proofs.channel_means K k0 k1 kadd kmul ksub kopp Kring). Qed.

(* the index conventions: the backend's own xxpp read-out (get_covmat_xp / get_mean_xp, via to_xp) is bcov / bvec;
   from_xp and to_xp are mutually inverse *)
Theorem C01_bosonic_readout_xp : forall n (V : nat -> nat -> K) (r : nat -> K) q1 q2 a b, a < n -> b < n ->
  get_covmat_xp n V (enc n q1 a) (enc n q2 b) = bcov V q1 q2 a b /\ get_mean_xp n r (enc n q1 a) = bvec r q1 a.
Proof.
  intros n V r q1 q2 a b Ha Hb. split.
  - exact (Proofs.readout_xp_cov K n V q1 q2 a b Ha Hb).
  - exact (Proofs.readout_xp_mean K n r q1 a Ha).
Qed.

Theorem C01_bosonic_xp_permutations_inverse : forall n i, i < 2 * n ->
  to_xp n (from_xp n i) = i /\ from_xp n (to_xp n i) = i.
Proof. intros n i Hi. split; [exact (to_from_xp n i Hi)|exact (from_to_xp n i Hi)]. Qed.

Theorem C01_bosonic_reorder_roundtrip : forall n (S : nat -> nat -> K) i j, i < 2 * n -> j < 2 * n ->
  xpxp_to_xxpp n (xxpp_to_xpxp n S) i j = S i j /\ xxpp_to_xpxp n (xpxp_to_xxpp n S) i j = S i j.
Proof. exact (Proofs.reorder_roundtrip K). Qed.

(* ================================================================== C05: spectators
   Every mean / covariance entry (raw backend indices i, j < 2n) whose mode i/2, j/2 is not a target is unchanged —
   for every weight.  One theorem per operation (instances of the theorem over the operation datatype), the general
   channel, and whole programs. *)
Definition spectators_unchanged (o : bop) (s : bst) : Prop :=
  forall w i j, i < 2 * bn s -> j < 2 * bn s ->
    ~ In (Nat.div2 i) (targets o (bn s)) -> ~ In (Nat.div2 j) (targets o (bn s)) ->
    bcovs (apply_op NK o s) w i j = bcovs s w i j /\ bmeans (apply_op NK o s) w i = bmeans s w i.

Theorem C05_bosonic_spectators : forall (o : bop) (s : bst), op_wf o (bn s) -> spectators_unchanged o s.
Proof.
  intros o s Hwf w i j Hi Hj Hni Hnj. split.
  - exact (Physical.spectators_cov K k0 k1 kadd kmul ksub kopp Kring o s w i j Hwf Hi Hj Hni Hnj).
  - exact (Physical.spectators_mean K k0 k1 kadd kmul ksub kopp Kring o s w i Hwf Hi Hni).
Qed.

Theorem C05_bosonic_spectators_rotation : forall c sn k (s : bst), k < bn s -> spectators_unchanged (ORot c sn k) s.
Proof. intros c sn k s H. exact (C05_bosonic_spectators (ORot c sn k) s H). Qed.
Theorem C05_bosonic_spectators_squeeze : forall c sn sh ch k (s : bst), k < bn s -> spectators_unchanged (OSq c sn sh ch k) s.
Proof. intros c sn sh ch k s H. exact (C05_bosonic_spectators (OSq c sn sh ch k) s H). Qed.
Theorem C05_bosonic_spectators_beamsplitter : forall ct st cp sp k l (s : bst),
  k < bn s -> l < bn s -> k <> l -> spectators_unchanged (OBs ct st cp sp k l) s.
Proof. intros ct st cp sp k l s Hk Hl Hkl. exact (C05_bosonic_spectators (OBs ct st cp sp k l) s (conj Hk (conj Hl Hkl))). Qed.
Theorem C05_bosonic_spectators_displace : forall r c sn k (s : bst), k < bn s -> spectators_unchanged (ODisp r c sn k) s.
Proof. intros r c sn k s H. exact (C05_bosonic_spectators (ODisp r c sn k) s H). Qed.
Theorem C05_bosonic_spectators_loss : forall T sqT k (s : bst), k < bn s -> spectators_unchanged (OLoss T sqT k) s.
Proof. intros T sqT k s H. exact (C05_bosonic_spectators (OLoss T sqT k) s H). Qed.
Theorem C05_bosonic_spectators_thermal_loss : forall T nb sqT k (s : bst), k < bn s -> spectators_unchanged (OThLoss T nb sqT k) s.
Proof. intros T nb sqT k s H. exact (C05_bosonic_spectators (OThLoss T nb sqT k) s H). Qed.
Theorem C05_bosonic_spectators_init_thermal : forall nb k (s : bst), k < bn s -> spectators_unchanged (OInitTh nb k) s.
Proof. intros nb k s H. exact (C05_bosonic_spectators (OInitTh nb k) s H). Qed.
Theorem C05_bosonic_spectators_channel : forall M modes X Y (s : bst),
  good_targets (bn s) modes -> spectators_unchanged (OChannel M modes X Y) s.
Proof. intros M modes X Y s H. exact (C05_bosonic_spectators (OChannel M modes X Y) s H). Qed.

(* apply_op (ORot c sn k) s is, by computation, Model.phase_shift c sn k s, etc. *)
Theorem C05_bosonic_op_datatype_is_the_methods : forall (s : bst) c sn sh ch ct st cp sp r T sqT nb k l,
  apply_op NK (ORot c sn k) s = Model.phase_shift NK c sn k s /\
  apply_op NK (OSq c sn sh ch k) s = Model.squeeze NK c sn sh ch k s /\
  apply_op NK (OBs ct st cp sp k l) s = Model.beamsplitter NK ct st cp sp k l s /\
  apply_op NK (ODisp r c sn k) s = Model.displace NK r c sn k s /\
  apply_op NK (OLoss T sqT k) s = Model.loss NK T sqT k s /\
  apply_op NK (OThLoss T nb sqT k) s = Model.thermal_loss NK T nb sqT k s /\
  apply_op NK (OInitTh nb k) s = Model.init_thermal NK nb k s.
Proof. intros. repeat split. Qed.

(* programs: entries not involving any mode touched by any operation of the program are unchanged *)
Theorem C05_bosonic_spectators_program : forall (prog : list bop) (s : bst) w i j,
  Forall (fun o => op_wf o (bn s)) prog -> i < 2 * bn s -> j < 2 * bn s ->
  ~ In (Nat.div2 i) (Physical.prog_targets K prog (bn s)) -> ~ In (Nat.div2 j) (Physical.prog_targets K prog (bn s)) ->
  bcovs (run NK prog s) w i j = bcovs s w i j /\ bmeans (run NK prog s) w i = bmeans s w i.
Proof. exact (Physical.run_spectators K k0 k1 kadd kmul ksub kopp Kring). Qed.

(* ================================================================== C07: symmetry and weights *)
(* msym m V := forall i j < m, V i j = V j i.  sym_ok o: for the general channel, the user's Y is symmetric. *)
Theorem C07_bosonic_symmetric : forall (o : bop) (s : bst), sym_ok o ->
  (forall w, msym (2 * bn s) (bcovs s w)) -> forall w, msym (2 * bn s) (bcovs (apply_op NK o s) w).
Proof. exact (Physical.symmetric_op K k0 k1 kadd kmul ksub kopp Kring). Qed.

Theorem C07_bosonic_symmetric_program : forall (prog : list bop) (s : bst), Forall sym_ok prog ->
  (forall w, msym (2 * bn s) (bcovs s w)) -> forall w, msym (2 * bn (run NK prog s)) (bcovs (run NK prog s) w).
Proof. exact (Physical.run_symmetric K k0 k1 kadd kmul ksub kopp Kring). Qed.

(* the matrix-level fact behind it: X V X^T + Y is symmetric for EVERY X when V and Y are (full matrix product) *)
Theorem C07_bosonic_update_covs_symmetric : forall n (X : nat -> nat -> K) Y (V : nat -> nat -> K),
  msym (2 * n) V ->
  match Y with Some Y => msym (2 * n) (permute (from_xp n) Y) | None => True end ->
  msym (2 * n) (update_covs NK n V X Y).
Proof. exact (Physical.update_covs_symmetric K k0 k1 kadd kmul ksub kopp Kring). Qed.

Theorem C07_bosonic_weights_untouched : forall (o : bop) (s : bst),
  bweights (apply_op NK o s) = bweights s /\ bn (apply_op NK o s) = bn s /\ bnw (apply_op NK o s) = bnw s.
Proof. exact (Physical.weights_untouched K k0 k1 kadd kmul ksub kopp). Qed.

Theorem C07_bosonic_weights_untouched_program : forall (prog : list bop) (s : bst),
  bweights (run NK prog s) = bweights s /\ bn (run NK prog s) = bn s /\ bnw (run NK prog s) = bnw s.
Proof. exact (Physical.run_weights_untouched K k0 k1 kadd kmul ksub kopp). Qed.
End Statements.

(* ------------------------------------------------------------------ the hypotheses are satisfiable:
   a two-mode, one-weight vacuum over Z; descending targets [1; 0] are good targets; the identity covariance is symmetric;
   every operation on it is well-formed in the sense of op_wf *)
Definition bvac : @bst Z := mkB 2 1 (fun _ => 1%Z) (fun _ _ => 0%Z) (fun _ i j => if Nat.eqb i j then 1%Z else 0%Z).
Example hypotheses_satisfiable :
  Proofs.good_targets (bn bvac) [1; 0] /\ (forall w, Physical.msym Z (2 * bn bvac) (bcovs bvac w)) /\
  Physical.op_wf Z (OBs 1%Z 0%Z 1%Z 0%Z 1 0) (bn bvac) /\ Physical.sym_ok Z (OChannel 1 [1] (fun _ _ => 0%Z) (fun _ _ => 0%Z)).
Proof.
  split; [|split; [|split]].
  - split.
    + constructor; [simpl; intros [E|[]]; discriminate|constructor; [simpl; tauto|constructor]].
    + simpl. intros c [<-|[<-|[]]]; repeat constructor.
  - intros w i j _ _. change ((if Nat.eqb i j then 1%Z else 0%Z) = (if Nat.eqb j i then 1%Z else 0%Z)). now rewrite Nat.eqb_sym.
  - simpl. repeat split; repeat constructor. discriminate.
  - simpl. reflexivity.
Qed.

Print Assumptions C01_bosonic_rotation_is_phase_space.
Print Assumptions C01_bosonic_rotation_means.
Print Assumptions C01_bosonic_squeeze_is_phase_space.
Print Assumptions C01_bosonic_squeeze_means.
Print Assumptions C01_bosonic_beamsplitter_is_phase_space.
Print Assumptions C01_bosonic_beamsplitter_means.
Print Assumptions C01_bosonic_displace_is_phase_space.
Print Assumptions C01_bosonic_displace_means.
Print Assumptions C01_bosonic_loss_is_phase_space.
Print Assumptions C01_bosonic_loss_means.
Print Assumptions C01_bosonic_thermal_loss_is_phase_space.
Print Assumptions C01_bosonic_thermal_loss_means.
Print Assumptions C01_bosonic_init_thermal_is_phase_space.
Print Assumptions C01_bosonic_init_thermal_means.
Print Assumptions C01_bosonic_channel_is_phase_space.
Print Assumptions C01_bosonic_channel_means.
Print Assumptions C01_bosonic_readout_xp.
Print Assumptions C01_bosonic_xp_permutations_inverse.
Print Assumptions C01_bosonic_reorder_roundtrip.
Print Assumptions C05_bosonic_spectators.
Print Assumptions C05_bosonic_spectators_rotation.
Print Assumptions C05_bosonic_spectators_squeeze.
Print Assumptions C05_bosonic_spectators_beamsplitter.
Print Assumptions C05_bosonic_spectators_displace.
Print Assumptions C05_bosonic_spectators_loss.
Print Assumptions C05_bosonic_spectators_thermal_loss.
Print Assumptions C05_bosonic_spectators_init_thermal.
Print Assumptions C05_bosonic_spectators_channel.
Print Assumptions C05_bosonic_op_datatype_is_the_methods.
Print Assumptions C05_bosonic_spectators_program.
Print Assumptions C07_bosonic_symmetric.
Print Assumptions C07_bosonic_symmetric_program.
Print Assumptions C07_bosonic_update_covs_symmetric.
Print Assumptions C07_bosonic_weights_untouched.
Print Assumptions C07_bosonic_weights_untouched_program.
