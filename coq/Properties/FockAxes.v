(* FockAxes — property statements shared by C01 (fock_axes) and C05 (fock_locality / fock_prepare).
   Statements only: each theorem is proved by `exact <lemma>`; one Print Assumptions per theorem.

   Vocabulary (coq/FockAxes/Model.v):
     tensor            list nat -> V, a function of the multi-index (V arbitrary)
     transpose t axes  np.transpose:  (transpose t axes) i = t j  with  j[axes[m]] = i[m]
     put idx T j       idx with the entries at positions T[m] replaced by j[m]
     gather idx T      [idx[a] for a in T]
     good_targets n T  T duplicate-free with entries < n
     respects_shape k F   the abstract matrix action F reads its substate only at multi-indices of length k
   The matrix itself is abstract (F, G): the theorems hold for every matrix. *)
From Coq Require Import List Arith Lia.
Import ListNotations.
From SFV Require Import FockAxes.Model FockAxes.Lists FockAxes.Proofs FockAxes.TwoMode FockAxes.Channel FockAxes.Prepare.
From SFV Require FockAxes.Exec FockAxes.ExecFacts.

(* ------------------------------------------------------------------ the vocabulary means what it says *)

(* numpy semantics of the modelled transpose: j[axes[m]] = i[m] *)
Theorem C01_fock_axes_transpose_semantics :
  forall (axes i : list nat) (m : nat),
    is_perm axes -> m < length axes -> nth (nth m axes 0) (unperm axes i) 0 = nth m i 0.
Proof. exact unperm_spec. Qed.
Print Assumptions C01_fock_axes_transpose_semantics.

Theorem C01_fock_axes_put_target :
  forall (idx taxes j : list nat) (m : nat),
    good_targets (length idx) taxes -> m < length taxes ->
    nth (nth m taxes 0) (put idx taxes j) 0 = nth m j 0.
Proof. exact put_target. Qed.
Print Assumptions C01_fock_axes_put_target.

Theorem C01_fock_axes_put_spectator :
  forall (idx taxes j : list nat) (a : nat),
    ~ In a taxes -> nth a (put idx taxes j) 0 = nth a idx 0.
Proof. exact put_spectator. Qed.
Print Assumptions C01_fock_axes_put_spectator.

Theorem C01_fock_axes_put_length :
  forall idx taxes j : list nat, length (put idx taxes j) = length idx.
Proof. exact length_put. Qed.
Print Assumptions C01_fock_axes_put_length.

(* ------------------------------------------------------------------ apply_gate_BLAS *)

(* the loop `untranspose_list[transpose_list[i]] = i` builds the inverse permutation *)
Theorem C01_fock_axes_untranspose_inverse :
  forall (tl : list nat) (m : nat),
    is_perm tl -> m < length tl ->
    nth (nth m tl 0) (untranspose_list tl) 0 = m /\ nth (nth m (untranspose_list tl) 0) tl 0 = m.
Proof. exact untranspose_list_inverse_pointwise. Qed.
Print Assumptions C01_fock_axes_untranspose_inverse.

Theorem C01_fock_axes_untranspose_restores :
  forall (V : Type) (t : @tensor V) (tl idx : list nat),
    is_perm tl -> length idx = length tl ->
    transpose (transpose t tl) (untranspose_list tl) idx = t idx.
Proof. exact @transpose_untranspose_id. Qed.
Print Assumptions C01_fock_axes_untranspose_restores.

(* the transpose_list of the pure branch is a permutation of range(n) (so the two facts above apply to it) *)
Theorem C01_fock_axes_transpose_list_is_perm :
  forall (n : nat) (modes : list nat), good_targets n modes -> is_perm (pure_transpose_list n modes).
Proof. exact spectators_targets_is_perm. Qed.
Print Assumptions C01_fock_axes_transpose_list_is_perm.

(* pure state: for every n, every duplicate-free `modes` inside range(n), every psi, every output index:
   the gate acts on exactly those modes, in the listed order, and reads only entries of psi that agree with
   idx off the targets.  (C01_fock_axes and C05_fock_locality for apply_gate_BLAS, pure.) *)
Theorem C01_fock_axes_pure :
  forall (V : Type) (F : @tensor V -> @tensor V) (n : nat) (modes : list nat) (psi : @tensor V) (idx : list nat),
    respects_shape (length modes) F ->
    good_targets n modes -> modes <> [] -> length idx = n ->
    apply_gate_pure F n modes psi idx = F (fun j => psi (put idx modes j)) (gather idx modes).
Proof. exact @fock_axes_pure. Qed.
Print Assumptions C01_fock_axes_pure.

(* mixed state, 2n axes (row, column per mode): the target axes are the rows then the columns of `modes` *)
Theorem C01_fock_axes_mixed :
  forall (V : Type) (G : @tensor V -> @tensor V) (n : nat) (modes : list nat) (rho : @tensor V) (idx : list nat),
    respects_shape (2 * length modes) G ->
    good_targets n modes -> modes <> [] -> length idx = n * 2 ->
    apply_gate_mixed G n modes rho idx
    = G (fun j => rho (put idx (row_axes modes ++ col_axes modes) j))
        (gather idx (row_axes modes ++ col_axes modes)).
Proof. exact @fock_axes_mixed. Qed.
Print Assumptions C01_fock_axes_mixed.

(* the pure and the mixed representation are the same physics for every layout:
   apply_gate_mixed (mix psi) = mix (apply_gate_pure psi) whenever G is "F on the rows, conj F on the columns" *)
Theorem C01_fock_axes_mix_commutes :
  forall (V : Type) (vmul : V -> V -> V) (vconj : V -> V)
         (F G : @tensor V -> @tensor V) (n : nat) (modes : list nat) (psi : @tensor V) (idx : list nat),
    respects_shape (length modes) F -> respects_shape (2 * length modes) G ->
    is_conjugation_of vmul vconj (length modes) F G ->
    good_targets n modes -> modes <> [] -> length idx = n * 2 ->
    apply_gate_mixed G n modes (mix vmul vconj n psi) idx
    = mix vmul vconj n (apply_gate_pure F n modes psi) idx.
Proof. exact @mixed_of_mix_is_mix_of_pure. Qed.
Print Assumptions C01_fock_axes_mix_commutes.

(* ------------------------------------------------------------------ apply_twomode_gate *)

(* pure: EVERY ordered pair t1 <> t2 (including t2 = 0, the case repaired by commit e03aca1) *)
Theorem C01_fock_axes_twomode_pure :
  forall (V : Type) (F : @tensor V -> @tensor V) (n t1 t2 : nat) (psi : @tensor V) (idx : list nat),
    respects_shape 2 F -> t1 < n -> t2 < n -> t1 <> t2 -> length idx = n ->
    apply_twomode_pure F n t1 t2 psi idx
    = F (fun j => psi (put idx [t1; t2] j)) [nth t1 idx 0; nth t2 idx 0].
Proof. exact @twomode_pure_correct. Qed.
Print Assumptions C01_fock_axes_twomode_pure.

(* the two successive switches bring (t1, t2) to axes (0, 1), the other axes stay behind them, and undoing
   the switches restores the axis order *)
Theorem C01_fock_axes_twomode_switches :
  forall (V : Type) (n t1 t2 : nat) (psi : @tensor V),
    t1 < n -> t2 < n -> t1 <> t2 ->
    let sw1 := switch_list_1_pure n t1 in
    let sw2 := switch_list_2_pure n t1 t2 in
    (forall x, length x = n ->
       exists y, transpose (transpose psi sw1) sw2 x = psi y /\ length y = n /\
                 nth t1 y 0 = nth 0 x 0 /\ nth t2 y 0 = nth 1 x 0 /\
                 (forall a, a < n -> a <> t1 -> a <> t2 -> exists b, 2 <= b < n /\ nth a y 0 = nth b x 0)) /\
    (forall idx, length idx = n ->
       transpose (transpose (transpose (transpose psi sw1) sw2) sw2) sw1 idx = psi idx).
Proof. exact @twomode_pure_axes. Qed.
Print Assumptions C01_fock_axes_twomode_switches.

(* mixed: F on the row axes (2 m1, 2 m2), then Fc (the kernel with mat.conj()) on the column axes *)
Theorem C01_fock_axes_twomode_mixed :
  forall (V : Type) (F Fc : @tensor V -> @tensor V) (n m1 m2 : nat) (rho : @tensor V) (idx : list nat),
    respects_shape 2 F -> respects_shape 2 Fc ->
    m1 < n -> m2 < n -> m1 <> m2 -> length idx = 2 * n ->
    apply_twomode_mixed F Fc n m1 m2 rho idx
    = Fc (fun cj =>
            let idx' := put idx [2 * m1 + 1; 2 * m2 + 1] cj in
            F (fun rj => rho (put idx' [2 * m1; 2 * m2] rj)) [nth (2 * m1) idx' 0; nth (2 * m2) idx' 0])
         [nth (2 * m1 + 1) idx 0; nth (2 * m2 + 1) idx 0].
Proof. exact @twomode_mixed_correct. Qed.
Print Assumptions C01_fock_axes_twomode_mixed.

Theorem C01_fock_axes_twomode_mixed_rows :
  forall (V : Type) (F Fc : @tensor V -> @tensor V) (n m1 m2 : nat) (rho : @tensor V) (idx : list nat),
    respects_shape 2 F -> respects_shape 2 Fc ->
    m1 < n -> m2 < n -> m1 <> m2 -> length idx = 2 * n ->
    apply_twomode_mixed F Fc n m1 m2 rho idx
    = Fc (fun cj => F (fun rj => rho (put (put idx [2 * m1 + 1; 2 * m2 + 1] cj) [2 * m1; 2 * m2] rj))
                      [nth (2 * m1) idx 0; nth (2 * m2) idx 0])
         [nth (2 * m1 + 1) idx 0; nth (2 * m2 + 1) idx 0].
Proof. exact @twomode_mixed_correct_rows. Qed.
Print Assumptions C01_fock_axes_twomode_mixed_rows.

(* the code before the fix (switch_list_2[[1, t2]] = ...): what it did, when it was right, and that it was wrong *)
Theorem C01_fock_axes_twomode_pure_old_action :
  forall (V : Type) (F : @tensor V -> @tensor V) (n t1 t2 : nat) (psi : @tensor V) (idx : list nat),
    respects_shape 2 F -> t1 < n -> t2 < n -> t1 <> t2 -> length idx = n ->
    apply_twomode_pure_old F n t1 t2 psi idx
    = let a := if Nat.eqb t2 0 then (if Nat.eqb t1 1 then 0 else 1) else t1 in
      let b := if Nat.eqb t2 0 then t1 else t2 in
      F (fun j => psi (put idx [a; b] j)) [nth a idx 0; nth b idx 0].
Proof. exact @twomode_pure_old_action. Qed.
Print Assumptions C01_fock_axes_twomode_pure_old_action.

Theorem C01_fock_axes_twomode_pure_old_correct_when :
  forall (V : Type) (F : @tensor V -> @tensor V) (n t1 t2 : nat) (psi : @tensor V) (idx : list nat),
    respects_shape 2 F -> t1 < n -> t2 < n -> t1 <> t2 -> t2 <> 0 -> length idx = n ->
    apply_twomode_pure_old F n t1 t2 psi idx
    = F (fun j => psi (put idx [t1; t2] j)) [nth t1 idx 0; nth t2 idx 0].
Proof. exact @twomode_pure_old_correct_when. Qed.
Print Assumptions C01_fock_axes_twomode_pure_old_correct_when.

Theorem C01_fock_axes_twomode_pure_old_refuted :
  exists (F : @tensor nat -> @tensor nat) n t1 t2 (psi : @tensor nat) idx,
    respects_shape 2 F /\ t1 < n /\ t2 < n /\ t1 <> t2 /\ length idx = n /\
    apply_twomode_pure_old F n t1 t2 psi idx
    <> F (fun j => psi (put idx [t1; t2] j)) [nth t1 idx 0; nth t2 idx 0].
Proof. exact twomode_pure_old_refuted. Qed.
Print Assumptions C01_fock_axes_twomode_pure_old_refuted.

Theorem C01_fock_axes_twomode_switches_old_refuted :
  exists n t1 t2, t1 < n /\ t2 < n /\ t1 <> t2 /\
    exists x, length x = n /\
      nth t2 (unperm (switch_list_1_pure n t1) (unperm (switch_list_2_pure_old n t2) x)) 0 <> nth 1 x 0.
Proof. exact twomode_pure_axes_old_refuted. Qed.
Print Assumptions C01_fock_axes_twomode_switches_old_refuted.

(* ------------------------------------------------------------------ locality (C05) *)

(* the output at idx is the same for any two inputs that agree on all entries agreeing with idx off the targets *)
Theorem C05_fock_locality_pure :
  forall (V : Type) (F : @tensor V -> @tensor V) (n : nat) (modes : list nat) (psi psi' : @tensor V) (idx : list nat),
    respects_shape (length modes) F -> good_targets n modes -> modes <> [] -> length idx = n ->
    (forall x, agrees_off modes idx x -> psi x = psi' x) ->
    apply_gate_pure F n modes psi idx = apply_gate_pure F n modes psi' idx.
Proof. exact @locality_pure. Qed.
Print Assumptions C05_fock_locality_pure.

Theorem C05_fock_locality_mixed :
  forall (V : Type) (G : @tensor V -> @tensor V) (n : nat) (modes : list nat) (rho rho' : @tensor V) (idx : list nat),
    respects_shape (2 * length modes) G -> good_targets n modes -> modes <> [] -> length idx = n * 2 ->
    (forall x, agrees_off (row_axes modes ++ col_axes modes) idx x -> rho x = rho' x) ->
    apply_gate_mixed G n modes rho idx = apply_gate_mixed G n modes rho' idx.
Proof. exact @locality_mixed. Qed.
Print Assumptions C05_fock_locality_mixed.

Theorem C05_fock_locality_twomode_pure :
  forall (V : Type) (F : @tensor V -> @tensor V) (n t1 t2 : nat) (psi psi' : @tensor V) (idx : list nat),
    respects_shape 2 F -> t1 < n -> t2 < n -> t1 <> t2 -> length idx = n ->
    (forall x, agrees_off [t1; t2] idx x -> psi x = psi' x) ->
    apply_twomode_pure F n t1 t2 psi idx = apply_twomode_pure F n t1 t2 psi' idx.
Proof. exact @locality_twomode_pure. Qed.
Print Assumptions C05_fock_locality_twomode_pure.

Theorem C05_fock_locality_twomode_mixed :
  forall (V : Type) (F Fc : @tensor V -> @tensor V) (n m1 m2 : nat) (rho rho' : @tensor V) (idx : list nat),
    respects_shape 2 F -> respects_shape 2 Fc -> m1 < n -> m2 < n -> m1 <> m2 -> length idx = 2 * n ->
    (forall x, agrees_off [2 * m1; 2 * m2; 2 * m1 + 1; 2 * m2 + 1] idx x -> rho x = rho' x) ->
    apply_twomode_mixed F Fc n m1 m2 rho idx = apply_twomode_mixed F Fc n m1 m2 rho' idx.
Proof. exact @locality_twomode_mixed. Qed.
Print Assumptions C05_fock_locality_twomode_mixed.

(* _apply_channel = sum over the Kraus operators of the mixed gate application *)
Theorem C05_fock_locality_channel :
  forall (V : Type) (vadd : V -> V -> V) (vzero : V)
         (Gs : list (@tensor V -> @tensor V)) (n : nat) (modes : list nat) (rho rho' : @tensor V) (idx : list nat),
    Forall (respects_shape (2 * length modes)) Gs -> good_targets n modes -> modes <> [] -> length idx = n * 2 ->
    (forall x, agrees_off (row_axes modes ++ col_axes modes) idx x -> rho x = rho' x) ->
    apply_channel vadd vzero Gs n modes rho idx = apply_channel vadd vzero Gs n modes rho' idx.
Proof. exact @locality_channel. Qed.
Print Assumptions C05_fock_locality_channel.

Theorem C05_fock_channel_axes :
  forall (V : Type) (vadd : V -> V -> V) (vzero : V)
         (Gs : list (@tensor V -> @tensor V)) (n : nat) (modes : list nat) (rho : @tensor V) (idx : list nat),
    Forall (respects_shape (2 * length modes)) Gs -> good_targets n modes -> modes <> [] -> length idx = n * 2 ->
    apply_channel vadd vzero Gs n modes rho idx
    = fold_left (fun acc G => vadd acc (G (fun j => rho (put idx (row_axes modes ++ col_axes modes) j))
                                          (gather idx (row_axes modes ++ col_axes modes)))) Gs vzero.
Proof. exact @apply_channel_formula. Qed.
Print Assumptions C05_fock_channel_axes.

(* a channel on a pure state (mix first): each Kraus term reads psi only at the two put-indices *)
Theorem C05_fock_channel_from_pure_axes :
  forall (V : Type) (vmul vadd : V -> V -> V) (vconj : V -> V) (vzero : V)
         (Gs : list (@tensor V -> @tensor V)) (n : nat) (modes : list nat) (psi : @tensor V) (idx : list nat),
    Forall (respects_shape (2 * length modes)) Gs -> good_targets n modes -> modes <> [] -> length idx = n * 2 ->
    apply_channel_from_pure vmul vadd vconj vzero Gs n modes psi idx
    = fold_left (fun acc G => vadd acc (G (fun j => vmul (psi (put (evens n idx) modes (firstn (length modes) j)))
                                                         (vconj (psi (put (odds n idx) modes (skipn (length modes) j)))))
                                          (gather idx (row_axes modes ++ col_axes modes)))) Gs vzero.
Proof. exact @channel_from_pure_formula. Qed.
Print Assumptions C05_fock_channel_from_pure_axes.

(* ------------------------------------------------------------------ prepare_multimode / alloc (C05_fock_prepare) *)

(* np.argsort of a permutation of range(N) is its inverse permutation *)
Theorem C05_fock_prepare_argsort :
  forall l : list nat, is_perm l -> argsort l = inv_perm l.
Proof. exact argsort_perm_is_inverse. Qed.
Print Assumptions C05_fock_prepare_argsort.

(* after np.transpose(reduced (x) prepared, argsort(index_permutation)): the prepared state's m-th subsystem sits
   on mode modes[m] (any order of `modes`), the q-th mode of the reduced state on the q-th remaining mode *)
Theorem C05_fock_prepare_mixed_axes :
  forall (V : Type) (vmul : V -> V -> V) (n : nat) (modes : list nat) (reduced prepared : @tensor V) (idx : list nat),
    good_targets n modes ->
    prepare_permute false n modes (tensordot0 vmul (2 * (n - length modes)) reduced prepared) idx
    = vmul (reduced (gather idx (pair_axes (spectators n modes))))
           (prepared (gather idx (pair_axes modes))).
Proof. exact @prepare_mixed_axes. Qed.
Print Assumptions C05_fock_prepare_mixed_axes.

Theorem C05_fock_prepare_pure_all_axes :
  forall (V : Type) (n : nat) (modes : list nat) (prepared : @tensor V) (idx : list nat),
    good_targets n modes -> length modes = n ->
    prepare_permute true n modes prepared idx = prepared (gather idx modes).
Proof. exact @prepare_pure_all_axes. Qed.
Print Assumptions C05_fock_prepare_pure_all_axes.

(* alloc: np.tensordot(state, vac, axes=0) — the new modes are the trailing axes, the old ones are untouched *)
Theorem C05_fock_alloc_axes :
  forall (V : Type) (vmul : V -> V -> V) (lenu : nat) (u v : @tensor V) (idx_u idx_v : list nat),
    length idx_u = lenu ->
    tensordot0 vmul lenu u v (idx_u ++ idx_v) = vmul (u idx_u) (v idx_v).
Proof. exact @alloc_axes. Qed.
Print Assumptions C05_fock_alloc_axes.

(* ------------------------------------------------------------------ the hypotheses are satisfiable *)

(* ... by the very kernels the correspondence check executes (explicit integer contractions, coq/FockAxes/Exec.v):
   np.dot(matview, .) / the diag fast path, matview . rho . matview^dagger, _apply_two_mode_passive, _apply_S2 *)
Theorem C01_fock_axes_kernel_gate_pure_ok :
  forall mat size trunc, respects_shape size (Exec.F_gate mat size trunc).
Proof. exact ExecFacts.F_gate_respects_shape. Qed.
Print Assumptions C01_fock_axes_kernel_gate_pure_ok.

Theorem C01_fock_axes_kernel_gate_mixed_ok :
  forall mat size trunc, respects_shape (2 * size) (Exec.G_gate mat size trunc).
Proof. exact ExecFacts.G_gate_respects_shape. Qed.
Print Assumptions C01_fock_axes_kernel_gate_mixed_ok.

Theorem C01_fock_axes_kernel_passive_ok :
  forall mat trunc, respects_shape 2 (Exec.F_passive mat trunc).
Proof. exact ExecFacts.F_passive_respects_shape. Qed.
Print Assumptions C01_fock_axes_kernel_passive_ok.

Theorem C01_fock_axes_kernel_S2_ok :
  forall mat trunc, respects_shape 2 (Exec.F_S2 mat trunc).
Proof. exact ExecFacts.F_S2_respects_shape. Qed.
Print Assumptions C01_fock_axes_kernel_S2_ok.


Example ex_good_targets : good_targets 3 [2; 0].
Proof. split; [repeat constructor; simpl; intuition lia|]. simpl. intros a [<-|[<-|[]]]; lia. Qed.

Example ex_is_perm : is_perm [2; 0; 1].
Proof. split; [repeat constructor; simpl; intuition lia|]. simpl. intros a [<-|[<-|[<-|[]]]]; lia. Qed.

(* a genuinely index-mixing kernel: swaps the two target indices and adds a fixed entry *)
Example ex_respects_shape : respects_shape 2 (fun (s : @tensor nat) o => s [nth 1 o 0; nth 0 o 0] + 3 * s [0; 1]).
Proof. intros s1 s2 H o. now rewrite !H by reflexivity. Qed.

Example ex_is_conjugation_of :
  is_conjugation_of Nat.mul (fun x => x) 1 (fun (s : @tensor nat) o => s o) (fun (s : @tensor nat) o => s o).
Proof.
  intros s s' r c Hr Hc.
  destruct r as [|r0 [|? ?]]; simpl in Hr; try lia. reflexivity.
Qed.
