(* FockAxes — property statements shared by C01 (fock_axes) and C05 (fock_locality).  Statements only. *)
From Coq Require Import List Arith.
Import ListNotations.
From SFV Require Import FockAxes.Model FockAxes.Lists FockAxes.Proofs.

Theorem C01_fock_axes_pure :
  forall (V : Type) (F : @tensor V -> @tensor V) (n : nat) (modes : list nat) (psi : @tensor V) (idx : list nat),
    respects_shape (length modes) F ->
    good_targets n modes -> modes <> [] -> length idx = n ->
    apply_gate_pure F n modes psi idx = F (fun j => psi (put idx modes j)) (gather idx modes).
Proof. exact @fock_axes_pure. Qed.
Print Assumptions C01_fock_axes_pure.
