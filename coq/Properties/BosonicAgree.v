(* BosonicAgree (C01 only) — the Gaussian simulator and the bosonic simulator agree.  Statements only.
   These corollaries combine Properties/C01.v's theorems about the GaussianModes model (regenerated from
   gaussiancircuit.py on every run, Gen/GaussCirc.v) with Properties/Bosonic.v's theorems about the BosonicModes model:
   both are proved against the same documented matrices of Base/PhaseSpace.v. *)
From Coq Require Import Arith List Bool ZArith.
Import ListNotations.
From SFV Require Import Base.Num Base.PhaseSpace Gen.GaussCirc C01.GaussPhaseSpace.
From SFV Require Import Bosonic.Sum Bosonic.Model Bosonic.Index Bosonic.Proofs Bosonic.Agree Bosonic.AgreeProg.

Section Statements.
Variable K : Type.
Variables (k0 k1 : K) (kadd kmul ksub : K -> K -> K) (kopp : K -> K).
Hypothesis Kring : ring_theory k0 k1 kadd kmul ksub kopp (@eq K).
Notation GNK := (GaussPhaseSpace.NK K k0 k1 kadd kmul ksub kopp).
Notation wf := (GaussPhaseSpace.wf K k0 k1 kadd kmul ksub kopp).
Notation agree := (Agree.agree K k0 k1 kadd kmul ksub kopp).
Notation bst := (@bst K).
Notation "x + y" := (kadd x y). Notation "x * y" := (kmul x y). Notation "x - y" := (ksub x y). Notation "- x" := (kopp x).

(* agree s b w  :=  nlen s = bn b
                    /\ forall q1 q2 a c < nlen s, rcov s q1 q2 a c = bcov (bcovs b w) q1 q2 a c
                    /\ forall q, a < nlen s,       rmean s q a     = bvec (bmeans b w) q a
   rcov / rmean: Base/PhaseSpace.v, the model of GaussianModes.scovmatxp / smeanxp;
   bcov / bvec: the bosonic state's xpxp arrays read at (quadrature, mode), = get_covmat_xp / get_mean_xp (C01_bosonic_readout_xp). *)
(* ------------------------------------------------------------------ Gaussian simulator = bosonic simulator
   agree s b w : the GaussianModes state s (model regenerated from gaussiancircuit.py, Gen/GaussCirc.v) and weight
   component w of the BosonicModes state b have the same number of modes and the same xp read-out (covariance
   and means).  Each theorem: agreement before the operation implies agreement after it. *)
Theorem C01_gauss_bosonic_agree_rotation : forall er ei k s (b : bst) w,
  k < nlen s -> wf s -> er * er = k1 - ei * ei -> agree s b w ->
  agree (GaussCirc.phase_shift GNK (mkC er ei) k s) (Model.phase_shift GNK er ei k b) w.
Proof. exact (Agree.agree_rotation K k0 k1 kadd kmul ksub kopp Kring). Qed.

Theorem C01_gauss_bosonic_agree_squeeze : forall er ei sh ch k s (b : bst) w,
  k < nlen s -> wf s -> er * er = k1 - ei * ei -> ch * ch = k1 + sh * sh -> agree s b w ->
  agree (GaussCirc.squeeze GNK (mkC er ei) sh ch k s) (Model.squeeze GNK er ei sh ch k b) w.
Proof. exact (Agree.agree_squeeze K k0 k1 kadd kmul ksub kopp Kring). Qed.

(* through the backend wrappers: GaussianBackend.beamsplitter(theta, phi) calls GaussianModes.beamsplitter(-theta, -phi)
   (inputs st' = sin(-theta), ct' = cos(-theta), cp' + i sp' = exp(-i phi)); BosonicBackend.beamsplitter(theta, phi) calls
   BosonicModes.beamsplitter(theta, phi) (inputs ct, st, cp, sp).  Hypotheses 5-8 are the parity identities of sin / cos. *)
Theorem C01_gauss_bosonic_agree_beamsplitter : forall ct st cp sp ct' st' cp' sp' k l s (b : bst) w,
  k < nlen s -> l < nlen s -> k <> l -> wf s ->
  st' = - st -> ct' = ct -> cp' = cp -> sp' = - sp ->
  cp * cp = k1 - sp * sp -> ct * ct = k1 - st * st -> agree s b w ->
  agree (GaussCirc.beamsplitter GNK (mkC cp' sp') st' ct' k l s) (Model.beamsplitter GNK ct st cp sp k l b) w.
Proof. exact (Agree.agree_beamsplitter K k0 k1 kadd kmul ksub kopp Kring). Qed.

Theorem C01_gauss_bosonic_agree_displace : forall r er ei k s (b : bst) w,
  k < nlen s -> agree s b w ->
  agree (GaussCirc.displace GNK r (mkC er ei) k s) (Model.displace GNK r er ei k b) w.
Proof. exact (Agree.agree_displace K k0 k1 kadd kmul ksub kopp Kring). Qed.

Theorem C01_gauss_bosonic_agree_loss : forall T qq k s (b : bst) w,
  k < nlen s -> wf s -> qq * qq = T -> agree s b w ->
  agree (GaussCirc.loss GNK qq k s) (Model.loss GNK T qq k b) w.
Proof. exact (Agree.agree_loss K k0 k1 kadd kmul ksub kopp Kring). Qed.

Theorem C01_gauss_bosonic_agree_thermal_loss : forall T nb qq k s (b : bst) w,
  k < nlen s -> wf s -> qq * qq = T -> agree s b w ->
  agree (GaussCirc.thermal_loss GNK T nb qq k s) (Model.thermal_loss GNK T nb qq k b) w.
Proof. exact (Agree.agree_thermal_loss K k0 k1 kadd kmul ksub kopp Kring). Qed.

Theorem C01_gauss_bosonic_agree_init_thermal : forall nb k s (b : bst) w,
  k < nlen s -> wf s -> agree s b w ->
  agree (GaussCirc.init_thermal GNK nb k s) (Model.init_thermal GNK nb k b) w.
Proof. exact (Agree.agree_init_thermal K k0 k1 kadd kmul ksub kopp Kring). Qed.

(* every program over the operations both simulators support, through the two backend front ends
   (AgreeProg.gaussian_backend: GaussianBackend.<method> in terms of the regenerated GaussianModes model, beamsplitter
   negating both angles; AgreeProg.bosonic_backend: BosonicBackend.<method>); gop_ok: targets in range and distinct,
   named trigonometric / hyperbolic / sqrt values satisfy their identities.  Also: the Gaussian state stays well-formed. *)
Theorem C01_gauss_bosonic_agree_program : forall (prog : list (AgreeProg.gop K)) s (b : bst) w,
  Forall (AgreeProg.gop_ok K k1 kadd kmul ksub (nlen s)) prog -> wf s -> agree s b w ->
  agree (AgreeProg.gaussian_run K k0 k1 kadd kmul ksub kopp prog s) (AgreeProg.bosonic_run K k0 k1 kadd kmul ksub kopp prog b) w
  /\ wf (AgreeProg.gaussian_run K k0 k1 kadd kmul ksub kopp prog s).
Proof. exact (AgreeProg.agree_program K k0 k1 kadd kmul ksub kopp Kring). Qed.

End Statements.

(* the hypotheses are satisfiable (over Z): the two-mode vacua of both simulators agree, the Gaussian vacuum is well-formed,
   cos 0 / sin 0 satisfy the identities, and a one-command program is admissible *)
Definition gvac : st Z := mkSt 2 (fun _ _ => mkC 0%Z 0%Z) (fun _ _ => mkC 0%Z 0%Z) (fun _ => mkC 0%Z 0%Z).
Definition bvac : @bst Z := mkB 2 1 (fun _ => 1%Z) (fun _ _ => 0%Z) (fun _ i j => if Nat.eqb i j then 1%Z else 0%Z).
Example hypotheses_satisfiable :
  GaussPhaseSpace.wf Z 0%Z 1%Z Z.add Z.mul Z.sub Z.opp gvac /\
  Agree.agree Z 0%Z 1%Z Z.add Z.mul Z.sub Z.opp gvac bvac 0 /\
  Forall (AgreeProg.gop_ok Z 1%Z Z.add Z.mul Z.sub (nlen gvac)) [AgreeProg.GBs Z 1%Z 0%Z 1%Z 0%Z 1 0].
Proof.
  split; [|split].
  - unfold GaussPhaseSpace.wf, GaussPhaseSpace.hermitian, GaussPhaseSpace.symmetric. repeat split; intros; reflexivity.
  - split; [reflexivity|split].
    + intros q1 q2 a c Ha Hc.
      destruct a as [|[|a]]; [| |exfalso; simpl in Ha; apply (Nat.nlt_0_r a); do 2 apply Nat.succ_lt_mono; exact Ha];
      (destruct c as [|[|c]]; [| |exfalso; simpl in Hc; apply (Nat.nlt_0_r c); do 2 apply Nat.succ_lt_mono; exact Hc]);
      destruct q1, q2; reflexivity.
    + intros q a _. destruct q; reflexivity.
  - constructor; [|constructor]. simpl. repeat split; repeat constructor. discriminate.
Qed.

Print Assumptions C01_gauss_bosonic_agree_rotation.
Print Assumptions C01_gauss_bosonic_agree_squeeze.
Print Assumptions C01_gauss_bosonic_agree_beamsplitter.
Print Assumptions C01_gauss_bosonic_agree_displace.
Print Assumptions C01_gauss_bosonic_agree_loss.
Print Assumptions C01_gauss_bosonic_agree_thermal_loss.
Print Assumptions C01_gauss_bosonic_agree_init_thermal.
Print Assumptions C01_gauss_bosonic_agree_program.
