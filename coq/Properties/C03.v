(* C03 — circuit optimisation never changes what a program computes.  Statements only. *)
From Coq Require Import List Arith Bool ZArith.
Import ListNotations.
From SFV Require Import C03.Model C03.Proofs C03.Families.

(* The per-wire merging loop of optimize_circuit, for ANY command list on a wire, ANY monoid of physical
   maps, given that every merge returns "other * self" (None = identity): it terminates and preserves the
   ordered composition. *)
Theorem C03_optimize_wire_sound :
  forall (K : Type) (kadd kmul : K -> K -> K) (kopp : K -> K) (is_zero is_one : K -> bool)
         (M : Type) (mul : M -> M -> M) (e : M),
  (forall x y z, mul x (mul y z) = mul (mul x y) z) -> (forall x, mul x e = x) ->
  forall sem : op K -> M,
  merge_sound kadd kmul kopp is_zero is_one M mul e sem ->
  forall q, exists out, optimize_wire kadd kmul kopp is_zero is_one q = Some out /\
                        sem_seq M mul e sem out = sem_seq M mul e sem q.
Proof. intros K kadd kmul kopp iz io M mul e A R sem MS q. exact (optimize_wire_sound kadd kmul kopp iz io M mul e A R sem MS q). Qed.
Print Assumptions C03_optimize_wire_sound.

(* merge soundness follows from: gate families are one-parameter groups in p[0] (dagger = negated p[0]),
   channel families multiply their first parameters, a preparation absorbs what precedes it on its mode,
   Fourier and its inverse cancel. *)
Theorem C03_merge_sound :
  forall (K : Type) (kadd kmul : K -> K -> K) (kopp : K -> K) (is_zero is_one : K -> bool)
         (M : Type) (mul : M -> M -> M) (e : M) (sem : op K -> M) (k0 k1 : K) (ksub : K -> K -> K),
  ring_theory k0 k1 kadd kmul ksub kopp (@eq K) ->
  (forall x, is_zero x = true -> x = k0) -> (forall x, is_one x = true -> x = k1) ->
  forall (gsem csem : nat -> list Z -> list nat -> K -> M),
  (forall a, okind a = KGate -> sem a = gsem (fam a) (rest a) (oregs a) (if dag a then kopp (p0 a) else p0 a)) ->
  (forall f r m x y, gsem f r m (kadd x y) = mul (gsem f r m y) (gsem f r m x)) ->
  (forall f r m, gsem f r m k0 = e) ->
  (forall a, okind a = KChannel -> sem a = csem (fam a) (rest a) (oregs a) (p0 a)) ->
  (forall f r m x y, csem f r m (kmul y x) = mul (csem f r m y) (csem f r m x)) ->
  (forall f r m, csem f r m k1 = e) ->
  (forall a b, okind b = KPrep -> oregs a = oregs b -> mul (sem b) (sem a) = sem b) ->
  (forall b b', okind b = KPrep -> okind b' = KPrep -> fam b = fam b' -> p0 b = p0 b' -> rest b = rest b' -> oregs b = oregs b' -> sem b = sem b') ->
  (forall a b, okind a = KFourier -> okind b = KFourier -> oregs a = oregs b -> dag a <> dag b -> mul (sem b) (sem a) = e) ->
  merge_sound kadd kmul kopp is_zero is_one M mul e sem.
Proof.
  intros K kadd kmul kopp iz io M mul e sem k0 k1 ksub Kr Z O gsem csem H1 H2 H3 H4 H5 H6 H7 H8 H9.
  exact (merge_sound_from_laws kadd kmul kopp iz io M mul e sem k0 k1 ksub Kr Z O gsem csem H1 H2 H3 H4 H5 H6 H7 H8 H9).
Qed.
Print Assumptions C03_merge_sound.

(* the group laws hold for the Gaussian single-mode families (2x2 symplectic-affine maps over any commutative ring) *)
Section Families.
Variable K : Type.
Variables (k0 k1 : K) (kadd kmul ksub : K -> K -> K) (kopp : K -> K).
Hypothesis Kring : ring_theory k0 k1 kadd kmul ksub kopp (@eq K).
Notation "x + y" := (kadd x y). Notation "x * y" := (kmul x y). Notation "x - y" := (ksub x y). Notation "- x" := (kopp x).
Notation comp := (comp K kadd kmul). Notation rot := (rot K k0 kopp). Notation sq := (sq K k0 kadd kmul ksub kopp).
Notation disp := (disp K k0 k1 kadd kmul). Notation pgate := (pgate K k0 k1).

Theorem C03_family_rotation : forall ca sa cb sb, comp (rot cb sb) (rot ca sa) = rot (ca * cb - sa * sb) (sa * cb + ca * sb).
Proof. exact (rot_law K k0 k1 kadd kmul ksub kopp Kring). Qed.
Theorem C03_family_squeeze : forall cp sp sh1 ch1 sh2 ch2, cp * cp + sp * sp = k1 ->
  comp (sq cp sp sh2 ch2) (sq cp sp sh1 ch1) = sq cp sp (sh1 * ch2 + ch1 * sh2) (ch1 * ch2 + sh1 * sh2).
Proof. exact (sq_law K k0 k1 kadd kmul ksub kopp Kring). Qed.
Theorem C03_family_displacement : forall er ei r1 r2, comp (disp er ei r2) (disp er ei r1) = disp er ei (r1 + r2).
Proof. exact (disp_law K k0 k1 kadd kmul ksub kopp Kring). Qed.
Theorem C03_family_pgate : forall a b, comp (pgate b) (pgate a) = pgate (a + b).
Proof. exact (pgate_law K k0 k1 kadd kmul ksub kopp Kring). Qed.
Theorem C03_family_loss : forall q1 T1 q2 T2, q2 * q2 = T2 ->
  ccomp K kadd kmul (loss_chan K k1 ksub q2 T2) (loss_chan K k1 ksub q1 T1) = loss_chan K k1 ksub (q2 * q1) (T2 * T1).
Proof. exact (loss_law K k0 k1 kadd kmul ksub kopp Kring). Qed.
Theorem C03_fourier_not_mergeable : k1 <> k0 -> comp (rot k0 k1) (rot k0 k1) <> rot k0 k1.
Proof. exact (fourier_not_mergeable K k0 k1 kadd kmul ksub kopp Kring). Qed.
End Families.
Print Assumptions C03_family_rotation.
Print Assumptions C03_family_squeeze.
Print Assumptions C03_family_displacement.
Print Assumptions C03_family_pgate.
Print Assumptions C03_family_loss.
Print Assumptions C03_fourier_not_mergeable.

(* The WHOLE optimiser (all wires, then re-linearisation): for any command list whose commands are distinct objects
   sitting on at least one wire, and ANY list [out] of distinct commands whose per-wire projections are the
   per-wire results of the merging loop (what grid_to_DAG / DAG_to_list return, in whatever order the topological
   sort chooses), the ordered composition of [out] equals that of the input — in any monoid of physical maps in
   which commands without a common wire commute and every merge returns "other * self". *)
From SFV Require Import Base.Reorder C03.Global.
Theorem C03_optimize_circuit_sound :
  forall (K : Type) (kadd kmul : K -> K -> K) (kopp : K -> K) (is_zero is_one : K -> bool)
         (M : Type) (mul : M -> M -> M) (e : M),
  (forall x y z, mul x (mul y z) = mul (mul x y) z) -> (forall x, mul x e = x) ->
  forall sem : op K -> M,
  (forall a b, independent (op K) odeps a b -> mul (sem b) (sem a) = mul (sem a) (sem b)) ->
  merge_sound kadd kmul kopp is_zero is_one M mul e sem ->
  forall ls out,
  NoDup (map oid ls) -> (forall c, In c ls -> odeps c <> []) ->
  NoDup out -> (forall c, In c out -> odeps c <> []) ->
  (forall w, optimize_wire kadd kmul kopp is_zero is_one (wire (op K) odeps ls w) = Some (wire (op K) odeps out w)) ->
  sem_list (op K) M mul e sem out = sem_list (op K) M mul e sem ls.
Proof.
  intros K kadd kmul kopp iz io M mul e A R sem C MS ls out.
  exact (optimize_circuit_sound kadd kmul kopp iz io M mul e A R sem C MS ls out).
Qed.
Print Assumptions C03_optimize_circuit_sound.

(* non-vacuity: a five-command, two-wire program with a two-mode gate between mergeable rotations and one of its
   optimised linearisations meet every hypothesis on ls / out *)
Module C03_Example.
Import QArith.
Local Open Scope nat_scope.
Definition R (x : Q) (m id : nat) : op Q := mkOp KGate 1 x [] false 1 [m] [m] id.
Definition BS (id : nat) : op Q := mkOp KOther 9 (0 # 1)%Q [] false 2 [0; 1] [0; 1] id.
Definition ls : list (op Q) := [R (1 # 2) 0 0; R (1 # 5) 1 1; R (1 # 4) 0 2; BS 3; R (1 # 3) 1 4; R (-1 # 3) 1 5].
Definition out : list (op Q) := [R (1 # 5) 1 1; R ((1 # 2) + (1 # 4)) 0 0; BS 3].
Example C03_optimize_circuit_hypotheses_met :
  NoDup (map oid ls) /\ (forall c, In c ls -> odeps c <> []) /\ NoDup out /\ (forall c, In c out -> odeps c <> []) /\
  (forall w, optimize_wireQ (wire (op Q) odeps ls w) = Some (wire (op Q) odeps out w)).
Proof.
  split; [|split; [|split; [|split]]].
  - simpl. repeat constructor; simpl; intuition discriminate.
  - intros c H. simpl in H. intuition (subst; discriminate).
  - unfold out. repeat constructor; simpl; intuition discriminate.
  - intros c H. simpl in H. intuition (subst; discriminate).
  - intros [|[|w]]; reflexivity.
Qed.
End C03_Example.
Print Assumptions C03_Example.C03_optimize_circuit_hypotheses_met.
