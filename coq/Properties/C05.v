(* C05 — operations act only on their target modes.  Statements only. *)
From Coq Require Import List Arith.
Import ListNotations.
From SFV Require Import Base.Num Gen.GaussCirc C05.GaussSpectators.

(* [same_off tg s s'] : register size unchanged, and every entry N[i][j], M[i][j], alpha[i] with i, j not in tg
   is identical in s and s' — i.e. the reduced Gaussian state of all non-target modes is exactly the same. *)

Theorem C05_gauss_spectators_displace : forall K (N : Num K) r e k (s : st K), same_off [k] s (displace N r e k s).
Proof. exact @displace_spectators. Qed.
Print Assumptions C05_gauss_spectators_displace.

Theorem C05_gauss_spectators_squeeze : forall K (N : Num K) e sh ch k (s : st K), same_off [k] s (squeeze N e sh ch k s).
Proof. exact @squeeze_spectators. Qed.
Print Assumptions C05_gauss_spectators_squeeze.

Theorem C05_gauss_spectators_phase_shift : forall K (N : Num K) e k (s : st K), same_off [k] s (phase_shift N e k s).
Proof. exact @phase_shift_spectators. Qed.
Print Assumptions C05_gauss_spectators_phase_shift.

Theorem C05_gauss_spectators_beamsplitter : forall K (N : Num K) e sn cs k l (s : st K), same_off [k; l] s (beamsplitter N e sn cs k l s).
Proof. exact @beamsplitter_spectators. Qed.
Print Assumptions C05_gauss_spectators_beamsplitter.

Theorem C05_gauss_spectators_loss : forall K (N : Num K) q k (s : st K), same_off [k] s (loss N q k s).
Proof. exact @loss_spectators. Qed.
Print Assumptions C05_gauss_spectators_loss.

Theorem C05_gauss_spectators_init_thermal : forall K (N : Num K) p k (s : st K), same_off [k] s (init_thermal N p k s).
Proof. exact @init_thermal_spectators. Qed.
Print Assumptions C05_gauss_spectators_init_thermal.

Theorem C05_gauss_spectators_thermal_loss : forall K (N : Num K) T nb q k (s : st K), same_off [k] s (thermal_loss N T nb q k s).
Proof. exact @thermal_loss_spectators. Qed.
Print Assumptions C05_gauss_spectators_thermal_loss.

(* allocation and deletion (GaussianModes.add_mode / del_mode, hand model Base/GaussAlloc.v tied by float correspondence):
   a new mode is vacuum and uncorrelated with the rest, the old modes keep their state exactly; deleting a mode
   touches nothing that does not involve it *)
From SFV Require Import Base.PhaseSpace Base.GaussAlloc C05.GaussAllocProofs.
Section Alloc.
Variable K : Type.
Variables (k0 k1 : K) (kadd kmul ksub : K -> K -> K) (kopp : K -> K).
Hypothesis Kring : ring_theory k0 k1 kadd kmul ksub kopp (@eq K).
Notation NK := (GaussAllocProofs.NK K k0 k1 kadd kmul ksub kopp).

Theorem C05_gauss_alloc_old_modes_unchanged : forall s q1 q2 a b, a < nlen s -> b < nlen s ->
  rcov NK (add_mode NK s) q1 q2 a b = rcov NK s q1 q2 a b /\ rmean NK (add_mode NK s) q1 a = rmean NK s q1 a.
Proof.
  intros s q1 q2 a b Ha Hb. split.
  - exact (add_mode_old_cov K k0 k1 kadd kmul ksub kopp s q1 q2 a b Ha Hb).
  - exact (add_mode_old_mean K k0 k1 kadd kmul ksub kopp s q1 a Ha).
Qed.

Theorem C05_gauss_alloc_new_mode_vacuum_uncorrelated : forall s q1 q2,
  rcov NK (add_mode NK s) q1 q2 (nlen s) (nlen s) = (if Bool.eqb q1 q2 then k1 else k0) /\
  rmean NK (add_mode NK s) q1 (nlen s) = k0 /\
  (forall a, a < nlen s -> rcov NK (add_mode NK s) q1 q2 (nlen s) a = k0 /\ rcov NK (add_mode NK s) q1 q2 a (nlen s) = k0).
Proof.
  intros s q1 q2. split; [|split].
  - exact (add_mode_new_block K k0 k1 kadd kmul ksub kopp Kring s q1 q2).
  - exact (add_mode_new_mean K k0 k1 kadd kmul ksub kopp Kring s q1).
  - intros a Ha. exact (add_mode_new_cross K k0 k1 kadd kmul ksub kopp Kring s q1 q2 a Ha).
Qed.

Theorem C05_gauss_delete_spectators : forall k s, same_off [k] s (del_mode NK k s).
Proof. exact (del_mode_spectators K k0 k1 kadd kmul ksub kopp). Qed.
End Alloc.
Print Assumptions C05_gauss_alloc_old_modes_unchanged.
Print Assumptions C05_gauss_alloc_new_mode_vacuum_uncorrelated.
Print Assumptions C05_gauss_delete_spectators.

(* GaussianModes.apply_u (PassiveChannel on the Gaussian backend; model regenerated from the source each run, Gen/GaussMat.v):
   if U is the identity on every non-target row (what GaussianBackend.passive builds: identity(nlen) with T written into the
   target block), no entry of N, M, mean among non-target modes changes — any register size, any U, any state. *)
From SFV Require Import Base.MatOps Gen.GaussMat C07.GaussPhysical C07.GaussPassive.
Section Passive.
Variable K : Type.
Variables (k0 k1 : K) (kadd kmul ksub : K -> K -> K) (kopp : K -> K).
Hypothesis Kring : ring_theory k0 k1 kadd kmul ksub kopp (@eq K).
Notation NKp := (GaussPhysical.NK K k0 k1 kadd kmul ksub kopp).
Theorem C05_gauss_spectators_apply_u : forall (tg : nat -> bool) (U : mat (K:=K)) (s : st K),
  (forall i k, i < nlen s -> k < nlen s -> tg i = false -> U i k = (if Nat.eqb i k then C1 NKp else C0 NKp)) ->
  forall i j, i < nlen s -> j < nlen s -> tg i = false -> tg j = false ->
    nmat (apply_u NKp U s) i j = nmat s i j /\ mmat (apply_u NKp U s) i j = mmat s i j /\ mean (apply_u NKp U s) i = mean s i.
Proof. exact (apply_u_spectators K k0 k1 kadd kmul ksub kopp Kring). Qed.
End Passive.
Print Assumptions C05_gauss_spectators_apply_u.
