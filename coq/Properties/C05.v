(* C05 — operations act only on their target modes.  Statements only. *)
From Coq Require Import List Arith.
Import ListNotations.
From SFV Require Import Base.Num Gen.GaussCirc C05.GaussSpectators.

(* [same_off tg s s'] : register size unchanged, and every entry N[i][j], M[i][j], alpha[i] with i, j not in tg
   is identical in s and s' — i.e. the reduced Gaussian state of all non-target modes is exactly the same. *)

Theorem C05_gauss_spectators_displace : forall K (N : Num K) r e k (s : st K), same_off [k] s (displace N r e k s).
Proof. exact @displace_spectators. Qed.
Print Assumptions C05_gauss_spectators_displace.

Theorem C05_gauss_spectators_squeeze : forall K (N : Num K) e sh ch k (s : st K), same_off [k] s (squeeze N e sh ch k s).
Proof. exact @squeeze_spectators. Qed.
Print Assumptions C05_gauss_spectators_squeeze.

Theorem C05_gauss_spectators_phase_shift : forall K (N : Num K) e k (s : st K), same_off [k] s (phase_shift N e k s).
Proof. exact @phase_shift_spectators. Qed.
Print Assumptions C05_gauss_spectators_phase_shift.

Theorem C05_gauss_spectators_beamsplitter : forall K (N : Num K) e sn cs k l (s : st K), same_off [k; l] s (beamsplitter N e sn cs k l s).
Proof. exact @beamsplitter_spectators. Qed.
Print Assumptions C05_gauss_spectators_beamsplitter.

Theorem C05_gauss_spectators_loss : forall K (N : Num K) q k (s : st K), same_off [k] s (loss N q k s).
Proof. exact @loss_spectators. Qed.
Print Assumptions C05_gauss_spectators_loss.

Theorem C05_gauss_spectators_init_thermal : forall K (N : Num K) p k (s : st K), same_off [k] s (init_thermal N p k s).
Proof. exact @init_thermal_spectators. Qed.
Print Assumptions C05_gauss_spectators_init_thermal.

Theorem C05_gauss_spectators_thermal_loss : forall K (N : Num K) T nb q k (s : st K), same_off [k] s (thermal_loss N T nb q k s).
Proof. exact @thermal_loss_spectators. Qed.
Print Assumptions C05_gauss_spectators_thermal_loss.
