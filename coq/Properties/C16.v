(* C16 — state observables are consistent with each other and across representations.
   Only statements, each closed by `exact`, each followed by its axiom audit.
   Scalars: an arbitrary field K (ring/field operations are universally quantified and
   constrained by `field_theory`), so every identity holds for the reals at every parameter
   value.  Mode counts, mode lists, cutoffs and tensors are universally quantified.

   Full:     C16_gauss_subset_order, C16_gauss_unsorted_rejected, C16_gauss_displacement_order,
             C16_gauss_photon, C16_gauss_quad_photon, C16_fock_prob_all_probs, C16_fock_trace,
             C16_fock_marginals, C16_fock_mean_photon_marginal, C16_fock_reduced_labels_single,
             C16_bosonic_quad_total_variance,
             C16_gauss_parity_subset, C16_gauss_parity_order (model of the code after fix 5603fbf).
   Partial:  the statements kept as `Definition ..._statement` below are not proved in Coq; they
             are validated on every run by exact correspondence (einsum subscripts captured from
             numpy, integer tensors) and by the search. *)
From Coq Require Import List Arith Bool Field QArith Qcanon.
Import ListNotations.
From SFV Require Import C16.Model C16.Proofs C16.ProofsFock.
Close Scope Qc_scope.
Close Scope Q_scope.

(* BaseGaussianState.reduced_gaussian(modes): whenever it answers, entry (i,j) of every block of
   the answer is the entry of modes[i], modes[j] of the state — exactly the requested modes in
   the requested order — and it only answers for ascending in-range lists. *)
Theorem C16_gauss_subset_order :
  forall (K : Type) (k0 : K) (mu : nat -> K) (cov : nat -> nat -> K) (n : nat) (modes : list nat) rm rc,
    reduced_gaussian K mu cov n modes = Ok (rm, rc) ->
    let k := length modes in
    length rm = 2 * k /\ length rc = 2 * k /\
    forall i, i < k ->
      vnth K k0 rm i = mu (nth i modes 0) /\
      vnth K k0 rm (k + i) = mu (nth i modes 0 + n) /\
      forall j, j < k ->
        mnth K k0 rc i j = cov (nth i modes 0) (nth j modes 0) /\
        mnth K k0 rc i (k + j) = cov (nth i modes 0) (nth j modes 0 + n) /\
        mnth K k0 rc (k + i) j = cov (nth i modes 0 + n) (nth j modes 0) /\
        mnth K k0 rc (k + i) (k + j) = cov (nth i modes 0 + n) (nth j modes 0 + n).
Proof. exact reduced_gaussian_entries. Qed.
Print Assumptions C16_gauss_subset_order.

Theorem C16_gauss_unsorted_rejected :
  forall (K : Type) (mu : nat -> K) (cov : nat -> nat -> K) (n : nat) (modes : list nat),
    sorted_le modes = false -> reduced_gaussian K mu cov n modes = ValueErr.
Proof. exact reduced_gaussian_unsorted. Qed.
Print Assumptions C16_gauss_unsorted_rejected.

(* displacement(modes) returns alpha of modes[i] at position i, any order *)
Theorem C16_gauss_displacement_order :
  forall (K : Type) (k0 : K) (mu : nat -> K) (n : nat) (kmul : K -> K -> K) (is2h : K) (modes : list nat) r,
    displacement K kmul mu n is2h modes = Ok r ->
    length r = length modes /\
    forall i, i < length modes ->
      nth i r (k0, k0) = (kmul (mu (nth i modes 0)) is2h, kmul (mu (nth i modes 0 + n)) is2h).
Proof. exact displacement_entries. Qed.
Print Assumptions C16_gauss_displacement_order.

(* state object vs simulator data: with x = 2 Re(alpha) s, p = 2 Im(alpha) s, Vxx = (2N+2ReM+1) hbar/2,
   Vpp = (2N-2ReM+1) hbar/2 (what GaussianBackend.state + BaseGaussianState.__init__ produce, s = sqrt(hbar/2)),
   mean_photon(k) = N_kk + |alpha_k|^2 *)
Theorem C16_gauss_photon :
  forall (K : Type) (k0 k1 : K) (kadd kmul ksub : K -> K -> K) (kopp : K -> K) (kdiv : K -> K -> K) (kinv : K -> K),
    field_theory k0 k1 kadd kmul ksub kopp kdiv kinv eq ->
    forall (mu : nat -> K) (cov : nat -> nat -> K) (n : nat) (hbar hb2 s nr mr ar ai : K) (k : nat),
      k < n -> hbar <> k0 -> kadd k1 k1 <> k0 ->
      kmul hb2 (kadd k1 k1) = hbar -> kmul s s = hb2 ->
      mu k = bd_x K k1 kadd kmul s ar -> mu (k + n) = bd_p K k1 kadd kmul s ai ->
      cov k k = bd_vxx K k1 kadd kmul hb2 nr mr ->
      cov (k + n) (k + n) = bd_vpp K k1 kadd kmul ksub hb2 nr mr ->
      exists var, mean_photon K k0 k1 kadd kmul ksub kdiv mu cov n hbar k
                  = Ok (kadd nr (kadd (kmul ar ar) (kmul ai ai)), var).
Proof. exact gauss_photon. Qed.
Print Assumptions C16_gauss_photon.

(* cross-method: quad_expectation at two orthogonal angles and mean_photon agree, for every mode
   of every state (any number of modes, any correlations) *)
Theorem C16_gauss_quad_photon :
  forall (K : Type) (k0 k1 : K) (kadd kmul ksub : K -> K -> K) (kopp : K -> K) (kdiv : K -> K -> K) (kinv : K -> K),
    field_theory k0 k1 kadd kmul ksub kopp kdiv kinv eq ->
    forall (mu : nat -> K) (cov : nat -> nat -> K) (n : nat) (hbar c s : K) (k : nat) m1 v1 m2 v2 mp vp,
      k < n -> kadd (kmul c c) (kmul s s) = k1 -> hbar <> k0 -> kadd k1 k1 <> k0 ->
      quad_expectation K k0 kadd kmul mu cov n c s k = Ok (m1, v1) ->
      quad_expectation K k0 kadd kmul mu cov n (kopp s) c k = Ok (m2, v2) ->
      mean_photon K k0 k1 kadd kmul ksub kdiv mu cov n hbar k = Ok (mp, vp) ->
      mp = ksub (kdiv (kadd (kadd v1 v2) (kadd (kmul m1 m1) (kmul m2 m2))) (kmul (kadd k1 k1) hbar)) (kdiv k1 (kadd k1 k1)).
Proof. exact quad_photon_consistent. Qed.
Print Assumptions C16_gauss_quad_photon.

(* Fock representation (density-matrix form): fock_prob(n) = all_fock_probs()[n] = dm[n0,n0,n1,n1,..]
   for every number of modes and cutoff — the transpose/reshape/diag pipeline and the i//2 indexing
   read the same entry *)
Theorem C16_fock_prob_all_probs :
  forall (K : Type) (D N : nat) (s : tensor K) (nn : list nat) (p : K),
    fock_prob K D N s nn = Ok p ->
    length nn = N /\ Forall (fun i => i < D) nn /\
    p = all_fock_probs_mixed K D N s nn /\ p = s (interleave nn nn).
Proof.
  intros K D N s nn p H.
  destruct (fock_prob_ok_bounds K D N s nn p H) as [HL HB].
  destruct (fock_prob_is_all_fock_probs K D N s nn p H HB) as [_ HP].
  repeat split; try assumption. rewrite HP. apply all_fock_probs_diag; assumption.
Qed.
Print Assumptions C16_fock_prob_all_probs.

(* trace() = sum over all n of all_fock_probs()[n], every number of modes *)
Theorem C16_fock_trace :
  forall (K : Type) (k0 : K) (kadd : K -> K -> K) (D N : nat) (s : tensor K),
    trace_mixed K k0 kadd D N s = sumL K k0 kadd D N (all_fock_probs_mixed K D N s).
Proof. exact trace_is_sum_probs. Qed.
Print Assumptions C16_fock_trace.

(* Fock representation: the diagonal of reduced_dm([k]) — computed through the einsum subscripts the
   list.insert loop builds — is the k-th marginal of all_fock_probs(), and mean_photon(k) is the
   first moment of that marginal: for every number of modes N, mode k < N, cutoff D, tensor s. *)
Theorem C16_fock_marginals :
  forall (K : Type) (k0 : K) (kadd : K -> K -> K) (D N : nat) (s : tensor K) (k : nat) (r : tensor K),
    k < N -> reduced_dm K k0 kadd D N s [k] = Ok r ->
    forall j, j < D -> r [j; j] = marginal K k0 kadd D N (all_fock_probs_mixed K D N s) k j.
Proof. exact fock_marginal. Qed.
Print Assumptions C16_fock_marginals.

Theorem C16_fock_mean_photon_marginal :
  forall (K : Type) (k0 : K) (kadd kmul : K -> K -> K) (of_nat : nat -> K) (D N : nat) (s : tensor K) (k : nat) (mp : K),
    k < N -> mean_photon_fock K k0 kadd kmul of_nat D N s k = Ok mp ->
    mp = sumn K k0 kadd D (fun j => kmul (of_nat j) (marginal K k0 kadd D N (all_fock_probs_mixed K D N s) k j)).
Proof. exact fock_mean_photon_marginal. Qed.
Print Assumptions C16_fock_mean_photon_marginal.

(* the subscripts themselves, single requested mode: pair (0,1) at position k, every other mode its own repeated label *)
Theorem C16_fock_reduced_labels_single :
  forall N k, k < N -> red_labels N [k] = insert_at k (0, 1) (map (fun t => (t, t)) (seq 2 (N - 1))).
Proof. exact red_labels_single. Qed.
Print Assumptions C16_fock_reduced_labels_single.

(* BaseBosonicState.quad_expectation on a weighted sum of Gaussians (any number of components and modes, any
   ring of scalars — complex weights/means included): the mean is the weighted mean of the component means and,
   when the weights sum to one, the variance is sum_i w_i (v_i + (m_i - mean)^2): it sees how far apart the
   component means are. *)
Theorem C16_bosonic_quad_total_variance :
  forall (K : Type) (k0 k1 : K) (kadd kmul ksub : K -> K -> K) (kopp : K -> K),
    ring_theory k0 k1 kadd kmul ksub kopp eq ->
    forall (c s : K) (mode : nat) (comps : list (bcomp K)),
      bsum K k0 kadd (map (bweight K) comps) = k1 ->
      let mean := fst (bosonic_quad K k0 kadd kmul ksub c s mode comps) in
      mean = bsum K k0 kadd (map (fun cp => kmul (bweight K cp) (b_mphi K k0 kadd kmul c s mode cp)) comps) /\
      snd (bosonic_quad K k0 kadd kmul ksub c s mode comps)
      = bsum K k0 kadd (map (fun cp => kmul (bweight K cp) (kadd (b_vphi K k0 kadd kmul c s mode cp)
            (kmul (ksub (b_mphi K k0 kadd kmul c s mode cp) mean) (ksub (b_mphi K k0 kadd kmul c s mode cp) mean)))) comps).
Proof.
  intros K k0 k1 kadd kmul ksub kopp R c s mode comps Hw mean. split; [reflexivity|].
  exact (bosonic_quad_total_variance K k0 k1 kadd kmul ksub kopp R c s mode comps Hw).
Qed.
Print Assumptions C16_bosonic_quad_total_variance.

(* BaseGaussianState.parity_expectation(modes) (code after fix 5603fbf): for every ascending,
   duplicate-free, in-range list it is the Gaussian parity formula on the reduced state of exactly
   those modes, for every register size; and listing the modes in another order changes nothing. *)
Theorem C16_gauss_parity_subset :
  forall (K : Type) (k1 : K) (kmul : K -> K -> K) (mu : nat -> K) (cov : nat -> nat -> K) (n : nat)
         (G : list K -> list (list K) -> K) (hb2 : K) (modes : list nat),
    sorted_lt modes = true -> (forall m, In m modes -> m < n) ->
    parity_expectation K k1 kmul mu cov n G hb2 modes = Ok (parity_spec K k1 kmul mu cov n G hb2 modes).
Proof. exact parity_expectation_subset. Qed.
Print Assumptions C16_gauss_parity_subset.

Theorem C16_gauss_parity_order :
  forall (K : Type) (k1 : K) (kmul : K -> K -> K) (mu : nat -> K) (cov : nat -> nat -> K) (n : nat)
         (G : list K -> list (list K) -> K) (hb2 : K) (modes1 modes2 : list nat),
    has_dup modes1 = false -> has_dup modes2 = false ->
    sort_nat modes1 = sort_nat modes2 -> length modes1 = length modes2 ->
    parity_expectation K k1 kmul mu cov n G hb2 modes1 = parity_expectation K k1 kmul mu cov n G hb2 modes2.
Proof. exact parity_expectation_order. Qed.
Print Assumptions C16_gauss_parity_order.

(* hypotheses are satisfiable: Q is a field; 3/5, 4/5 is a point of the unit circle *)
Example C16_field_inhabited : field_theory (Q2Qc 0) (Q2Qc 1) Qcplus Qcmult Qcminus Qcopp Qcdiv Qcinv eq.
Proof. exact Qcft. Qed.
Example C16_unit_circle_inhabited : Qeq ((3 # 5) * (3 # 5) + (4 # 5) * (4 # 5))%Q 1%Q.
Proof. reflexivity. Qed.
Example C16_reduced_ok_inhabited :
  reduced_gaussian nat (fun i => i) (fun i j => 10 * i + j) 3 [0; 2] = Ok ([0; 2; 3; 5], [[0; 2; 3; 5]; [20; 22; 23; 25]; [30; 32; 33; 35]; [50; 52; 53; 55]]).
Proof. reflexivity. Qed.
Example C16_bosonic_weights_inhabited : bsum nat 0 Nat.add (map (bweight nat) [(1, [3; 4], [[1; 0]; [0; 1]])]) = 1.
Proof. reflexivity. Qed.
Example C16_parity_hyp_inhabited : sorted_lt [0; 2] = true /\ sort_nat [2; 0] = sort_nat [0; 2].
Proof. split; reflexivity. Qed.
Example C16_reduced_dm_inhabited : exists r, reduced_dm nat 0 Nat.add 2 3 (fun idx => flatten 2 idx) [1] = Ok r /\ r [1; 1] = 150.
Proof. eexists. split; reflexivity. Qed.
Example C16_fock_prob_inhabited : fock_prob nat 3 2 (fun idx => flatten 3 idx) [1; 2] = Ok 44.
Proof. reflexivity. Qed.
(* the duplicate check of reduced_gaussian / reduced_dm is ineffective: [1;1] is accepted *)
Example C16_duplicates_accepted :
  exists r, reduced_gaussian nat (fun i => i) (fun i j => 10 * i + j) 3 [1; 1] = Ok r.
Proof. eexists. reflexivity. Qed.

(* ---- stated, not proved in Coq (the property's claim for these is _partial) ------------- *)
(* the einsum subscripts built by BaseFockState.reduced_dm / FockBackend.state (list.insert loop)
   are the canonical labelling: kept mode m -> the rank(m)-th output pair, traced mode -> its own
   repeated label *)
Definition C16_fock_reduced_labels_statement : Prop :=
  forall (N : nat) (modes : list nat),
    sorted_le modes = true -> has_dup modes = false -> (forall m, In m modes -> m < N) ->
    red_labels N modes = red_labels_spec N modes.
(* diagonal_expectation(modes, v) = sum_n prod_{m in modes} v(n_m) p(n)  (parity: v = (-1)^n) *)
Definition C16_fock_parity_statement : Prop :=
  forall (K : Type) (k0 k1 : K) (kadd kmul : K -> K -> K),
    (forall a b, kadd a b = kadd b a) -> (forall a b c, kadd a (kadd b c) = kadd (kadd a b) c) ->
    (forall a b, kmul a b = kmul b a) -> (forall a b c, kmul a (kmul b c) = kmul (kmul a b) c) ->
    (forall a b c, kmul a (kadd b c) = kadd (kmul a b) (kmul a c)) -> (forall a, kmul k1 a = a) -> (forall a, kadd k0 a = a) ->
    (forall a, kmul k0 a = k0) ->
    forall (D N : nat) (s : tensor K) (modes : list nat) (v : nat -> K) r,
      (forall m, In m modes -> m < N) ->
      diagonal_expectation K k0 kadd kmul D N s modes v = Ok r ->
      r = diag_spec K k0 k1 kadd kmul D N s modes v.
