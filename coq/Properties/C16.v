(* C16 — state observables are consistent with each other and across representations. *)
From Coq Require Import List Arith Bool.
Import ListNotations.
From SFV Require Import C16.Model C16.Proofs.

Theorem C16_gauss_full_range : forall n, gidx n (seq 0 n) = seq 0 (2 * n).
Proof. exact gidx_full. Qed.
Print Assumptions C16_gauss_full_range.
