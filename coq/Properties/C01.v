(* C01 — all simulator backends compute the same physics.  Statements only (Gaussian simulator vs. an
   independent phase-space calculation; see DESIGN.md for what is covered by search only).

   rcov / rmean : the xp-ordered covariance matrix and mean vector read out of the (N, M, alpha) state (hbar = 2).
   congr S tg V = S V S^T for the symplectic S acting on the modes tg (identity elsewhere); vmix S tg r = S r.
   The GaussianModes model (Gen/GaussCirc.v) is regenerated from gaussiancircuit.py on every run. *)
From Coq Require Import Arith List Bool.
Import ListNotations.
From SFV Require Import Base.Num Base.PhaseSpace Gen.GaussCirc C01.GaussPhaseSpace.

Section Statements.
Variable K : Type.
Variables (k0 k1 : K) (kadd kmul ksub : K -> K -> K) (kopp : K -> K).
Hypothesis Kring : ring_theory k0 k1 kadd kmul ksub kopp (@eq K).
Notation NK := (NK K k0 k1 kadd kmul ksub kopp).
Notation wf := (wf K k0 k1 kadd kmul ksub kopp).
Notation "x + y" := (kadd x y). Notation "x * y" := (kmul x y). Notation "x - y" := (ksub x y).

Theorem C01_gauss_rotation_is_phase_space : forall er ei k s q1 q2 a b,
  k < nlen s -> a < nlen s -> b < nlen s -> wf s -> er * er = k1 - ei * ei ->
  rcov NK (phase_shift NK (mkC er ei) k s) q1 q2 a b = congr NK (S_rot NK er ei) [k] (rcov NK s) q1 q2 a b.
Proof. exact (phase_shift_phase_space K k0 k1 kadd kmul ksub kopp Kring). Qed.

Theorem C01_gauss_rotation_means : forall er ei k s q a,
  rmean NK (phase_shift NK (mkC er ei) k s) q a = vmix NK (S_rot NK er ei) [k] (rmean NK s) q a.
Proof. exact (phase_shift_means K k0 k1 kadd kmul ksub kopp Kring). Qed.

Theorem C01_gauss_squeeze_is_phase_space : forall er ei sh ch k s q1 q2 a b,
  k < nlen s -> a < nlen s -> b < nlen s -> wf s -> er * er = k1 - ei * ei -> ch * ch = k1 + sh * sh ->
  rcov NK (squeeze NK (mkC er ei) sh ch k s) q1 q2 a b = congr NK (S_sq NK er ei sh ch) [k] (rcov NK s) q1 q2 a b.
Proof. exact (squeeze_phase_space K k0 k1 kadd kmul ksub kopp Kring). Qed.

Theorem C01_gauss_squeeze_means : forall er ei sh ch k s q a,
  rmean NK (squeeze NK (mkC er ei) sh ch k s) q a = vmix NK (S_sq NK er ei sh ch) [k] (rmean NK s) q a.
Proof. exact (squeeze_means K k0 k1 kadd kmul ksub kopp Kring). Qed.

Theorem C01_gauss_displace_is_phase_space : forall r er ei k s q1 q2 a b,
  rcov NK (displace NK r (mkC er ei) k s) q1 q2 a b = rcov NK s q1 q2 a b.
Proof. exact (displace_phase_space K k0 k1 kadd kmul ksub kopp). Qed.

Theorem C01_gauss_displace_means : forall r er ei k s q a,
  rmean NK (displace NK r (mkC er ei) k s) q a =
  rmean NK s q a + (if Nat.eqb a k then (if q then (k1 + k1) * (r * ei) else (k1 + k1) * (r * er)) else k0).
Proof. exact (displace_means K k0 k1 kadd kmul ksub kopp Kring). Qed.

Theorem C01_gauss_beamsplitter_is_phase_space : forall er ei sn cs k l s q1 q2 a b,
  k < nlen s -> l < nlen s -> k <> l -> a < nlen s -> b < nlen s -> wf s ->
  er * er = k1 - ei * ei -> cs * cs = k1 - sn * sn ->
  rcov NK (beamsplitter NK (mkC er ei) sn cs k l s) q1 q2 a b
  = congr NK (S_bs NK er ei sn cs k l) [k; l] (rcov NK s) q1 q2 a b.
Proof. exact (beamsplitter_phase_space K k0 k1 kadd kmul ksub kopp Kring). Qed.

Theorem C01_gauss_beamsplitter_means : forall er ei sn cs k l s q a, k <> l ->
  rmean NK (beamsplitter NK (mkC er ei) sn cs k l s) q a = vmix NK (S_bs NK er ei sn cs k l) [k; l] (rmean NK s) q a.
Proof. exact (beamsplitter_means K k0 k1 kadd kmul ksub kopp Kring). Qed.

Theorem C01_gauss_loss_is_phase_space : forall qq k s q1 q2 a b,
  k < nlen s -> a < nlen s -> b < nlen s -> wf s ->
  rcov NK (loss NK qq k s) q1 q2 a b = add_diag NK (k1 - qq * qq) k (congr NK (S_scale NK qq) [k] (rcov NK s)) q1 q2 a b.
Proof. exact (loss_phase_space K k0 k1 kadd kmul ksub kopp Kring). Qed.

Theorem C01_gauss_loss_means : forall qq k s q a,
  rmean NK (loss NK qq k s) q a = vmix NK (S_scale NK qq) [k] (rmean NK s) q a.
Proof. exact (loss_means K k0 k1 kadd kmul ksub kopp Kring). Qed.

Theorem C01_gauss_thermal_loss_is_phase_space : forall T nb qq k s q1 q2 a b,
  k < nlen s -> a < nlen s -> b < nlen s -> wf s -> qq * qq = T ->
  rcov NK (thermal_loss NK T nb qq k s) q1 q2 a b
  = add_diag NK ((k1 - T) * ((k1 + k1) * nb + k1)) k (congr NK (S_scale NK qq) [k] (rcov NK s)) q1 q2 a b.
Proof. exact (thermal_loss_phase_space K k0 k1 kadd kmul ksub kopp Kring). Qed.

Theorem C01_gauss_init_thermal_is_phase_space : forall p k s q1 q2 a b,
  k < nlen s -> a < nlen s -> b < nlen s -> wf s ->
  rcov NK (init_thermal NK p k s) q1 q2 a b
  = if Nat.eqb a k || Nat.eqb b k
    then (if Nat.eqb a k && Nat.eqb b k && Bool.eqb q1 q2 then (k1 + k1) * p + k1 else k0)
    else rcov NK s q1 q2 a b.
Proof. exact (init_thermal_phase_space K k0 k1 kadd kmul ksub kopp Kring). Qed.
End Statements.

Print Assumptions C01_gauss_rotation_is_phase_space.
Print Assumptions C01_gauss_rotation_means.
Print Assumptions C01_gauss_squeeze_is_phase_space.
Print Assumptions C01_gauss_squeeze_means.
Print Assumptions C01_gauss_displace_is_phase_space.
Print Assumptions C01_gauss_displace_means.
Print Assumptions C01_gauss_beamsplitter_is_phase_space.
Print Assumptions C01_gauss_beamsplitter_means.
Print Assumptions C01_gauss_loss_is_phase_space.
Print Assumptions C01_gauss_loss_means.
Print Assumptions C01_gauss_thermal_loss_is_phase_space.
Print Assumptions C01_gauss_init_thermal_is_phase_space.

(* The read-out used in every statement above is what the code computes: GaussianModes.scovmatxp / smeanxp, regenerated
   from gaussiancircuit.py on every run (Gen/GaussMat.v), equal rcov / rmean entry by entry — for every scalar type,
   every state, every register size (no algebraic law is needed). *)
From SFV Require Import Base.MatOps Gen.GaussMat C01.GaussReadout.
Theorem C01_gauss_readout_is_generated : forall (K : Type) (N : Num K) (s : st K),
  (forall q1 q2 a b, scovmatxp N s q1 q2 a b = rcov N s q1 q2 a b) /\ (forall q a, smeanxp N s q a = rmean N s q a).
Proof. intros K N s. split; [exact (scovmatxp_is_rcov N s)|exact (smeanxp_is_rmean N s)]. Qed.
Print Assumptions C01_gauss_readout_is_generated.
