From Coq Require Import List ZArith Bool Arith Lia.
Import ListNotations.
From SFV Require Import C09.Model.

(* ------------------------------------------------------------------ list updates *)
Lemma set_nth_length {A} (l : list A) i x : length (set_nth l i x) = length l.
Proof. revert i; induction l; intros [|i]; simpl; auto. Qed.

Lemma set_nth_set_nth {A} (l : list A) i x y : set_nth (set_nth l i x) i y = set_nth l i y.
Proof. revert i; induction l; intros [|i]; simpl; auto. f_equal; auto. Qed.

Lemma set_nth_nth {A} (l : list A) i d : set_nth l i (nth i l d) = l.
Proof. revert i; induction l; intros [|i]; simpl; auto. f_equal; auto. Qed.

Lemma nth_set_nth_eq {A} (l : list A) i x d : i < length l -> nth i (set_nth l i x) d = x.
Proof. revert i; induction l; intros [|i] H; simpl in *; try lia; auto. apply IHl; lia. Qed.

Lemma nth_set_nth_neq {A} (l : list A) i j x d : i <> j -> nth j (set_nth l i x) d = nth j l d.
Proof.
  revert i j; induction l; intros [|i] [|j] H; simpl; auto; try congruence.
Qed.

(* ------------------------------------------------------------------ one segment *)
Section Proofs.
Variable B : Type.
Variable binit : nat -> B.
Variable bgate : B -> nat -> list nat -> list arr -> option B.
Variable bmeas : B -> nat -> list nat -> list arr -> option (B * list Z).
Variable breset : B -> B.

Notation apply_cmd := (apply_cmd bgate bmeas).
Notation exec := (exec bgate bmeas).
Notation run_seg := (run_seg binit bgate bmeas).
Notation run_list := (run_list binit bgate bmeas).
Notation reset := (reset breset).
Notation do_call := (do_call binit bgate bmeas breset).
Notation run_hist := (run_hist binit bgate bmeas breset).

(* a command that completes leaves every parameter list exactly as it was; the measured values
   it stores are the ones it reports *)
Lemma apply_cmd_ok V s c s' l :
  apply_cmd V s c = Ok (s', l) -> sstore s' = sstore s /\ svals s' = replay l (svals s).
Proof.
  unfold Model.apply_cmd. destruct (ckind c).
  - destruct (nth (cpl c) (sstore s) []) as [|z rest] eqn:Hpl; [discriminate|].
    destruct (is_zero z); [intros H; inversion H; subst; auto|].
    destruct (peval_all _ _); [|discriminate].
    destruct (bgate _ _ _ _); [|discriminate].
    intros H; inversion H; subst; simpl. split; auto.
    rewrite set_nth_set_nth, <- Hpl. apply set_nth_nth.
  - destruct (peval_all _ _); [|discriminate]. destruct (bgate _ _ _ _); [|discriminate].
    intros H; inversion H; subst; auto.
  - destruct (peval_all _ _); [|discriminate]. destruct (bmeas _ _ _ _) as [[b' outs]|]; [|discriminate].
    intros H; inversion H; subst; auto.
Qed.

(* with the try/finally variant the same holds on every exception path *)
Lemma apply_cmd_err_safe V s c k s' l :
  safe V = true -> apply_cmd V s c = Err k (s', l) -> s' = s /\ l = [].
Proof.
  intros Hs. unfold Model.apply_cmd. rewrite Hs. destruct (ckind c).
  - destruct (nth (cpl c) (sstore s) []) as [|z rest]; [intros H; inversion H; auto|].
    destruct (is_zero z); [discriminate|].
    destruct (peval_all _ _); [|intros H; inversion H; auto].
    destruct (bgate _ _ _ _); [discriminate|intros H; inversion H; auto].
  - destruct (peval_all _ _); [|intros H; inversion H; auto].
    destruct (bgate _ _ _ _); [discriminate|intros H; inversion H; auto].
  - destruct (peval_all _ _); [|intros H; inversion H; auto].
    destruct (bmeas _ _ _ _) as [[b' outs]|]; [discriminate|intros H; inversion H; auto].
Qed.

(* in every variant a failing command leaves the backend and the RegRef values alone, and nothing is logged *)
Lemma apply_cmd_err V s c k s' l :
  apply_cmd V s c = Err k (s', l) -> sb s' = sb s /\ svals s' = svals s /\ l = [].
Proof.
  unfold Model.apply_cmd. destruct (ckind c).
  - destruct (nth (cpl c) (sstore s) []) as [|z rest]; [intros H; inversion H; auto|].
    destruct (is_zero z); [discriminate|].
    destruct (peval_all _ _); [|intros H; inversion H; destruct (safe V); auto].
    destruct (bgate _ _ _ _); [discriminate|intros H; inversion H; destruct (safe V); auto].
  - destruct (peval_all _ _); [|intros H; inversion H; auto].
    destruct (bgate _ _ _ _); [discriminate|intros H; inversion H; auto].
  - destruct (peval_all _ _); [|intros H; inversion H; auto].
    destruct (bmeas _ _ _ _) as [[b' outs]|]; [discriminate|intros H; inversion H; auto].
Qed.

Lemma replay_app l1 l2 v : replay (l1 ++ l2) v = replay l2 (replay l1 v).
Proof. unfold replay. apply fold_left_app. Qed.

Lemma exec_ok V cs : forall s s' l,
  exec V s cs = Ok (s', l) -> sstore s' = sstore s /\ svals s' = replay l (svals s).
Proof.
  induction cs as [|c t IH]; simpl; intros s s' l H.
  - inversion H; subst; auto.
  - destruct (apply_cmd V s c) as [[s1 l1]|k x] eqn:E1; [|discriminate].
    destruct (exec V s1 t) as [[s2 l2]|k [s2 l2]] eqn:E2; [|discriminate].
    inversion H; subst. apply apply_cmd_ok in E1 as [A1 A2]. apply IH in E2 as [B1 B2].
    split; [congruence|]. rewrite replay_app, <- A2; exact B2.
Qed.

Lemma exec_any_vals V cs : forall s r,
  exec V s cs = r -> svals (fst (fst (out_of r))) = replay (snd (fst (out_of r))) (svals s).
Proof.
  induction cs as [|c t IH]; simpl; intros s r H.
  - subst; reflexivity.
  - destruct (apply_cmd V s c) as [[s1 l1]|k [s1 l1]] eqn:E1.
    + apply apply_cmd_ok in E1 as [A1 A2].
      destruct (exec V s1 t) as [[s2 l2]|k [s2 l2]] eqn:E2; subst r; simpl;
        specialize (IH _ _ E2); simpl in IH; rewrite replay_app, <- A2; exact IH.
    + subst r; simpl. apply apply_cmd_err in E1 as (_ & A & ->). exact A.
Qed.

Lemma exec_err_safe V cs : forall s k s' l,
  safe V = true -> exec V s cs = Err k (s', l) -> sstore s' = sstore s.
Proof.
  induction cs as [|c t IH]; simpl; intros s k s' l Hs H; [discriminate|].
  destruct (apply_cmd V s c) as [[s1 l1]|k1 [s1 l1]] eqn:E1.
  - destruct (exec V s1 t) as [[s2 l2]|k2 [s2 l2]] eqn:E2; [discriminate|].
    inversion H; subst. apply apply_cmd_ok in E1 as [A1 _]. apply IH in E2; auto. congruence.
  - inversion H; subst. apply apply_cmd_err_safe in E1 as [-> _]; auto.
Qed.

(* running a concatenation = running the parts one after the other on the same objects *)
Lemma exec_app V c1 : forall s c2,
  exec V s (c1 ++ c2) =
  match exec V s c1 with
  | Ok (s1, l1) => match exec V s1 c2 with
                   | Ok (s2, l2) => Ok (s2, l1 ++ l2)
                   | Err k (s2, l2) => Err k (s2, l1 ++ l2)
                   end
  | Err k x => Err k x
  end.
Proof.
  induction c1 as [|c t IH]; simpl; intros s c2.
  - destruct (exec V s c2) as [[s2 l2]|k [s2 l2]]; reflexivity.
  - destruct (apply_cmd V s c) as [[s1 l1]|k x]; [|reflexivity].
    rewrite IH. destruct (exec V s1 t) as [[s2 l2]|k [s2 l2]]; [|reflexivity].
    destruct (exec V s2 c2) as [[s3 l3]|k [s3 l3]]; rewrite app_assoc; reflexivity.
Qed.

(* ------------------------------------------------------------------ the engine *)
Lemma run_list_app V l1 : forall we l2,
  run_list V we (l1 ++ l2) =
  match run_list V we l1 with
  | Ok we' => run_list V we' l2
  | Err k we' => Err k we'
  end.
Proof.
  induction l1 as [|p t IH]; simpl; intros we l2; [reflexivity|].
  destruct (run_seg V we p); [apply IH|reflexivity].
Qed.

Lemma run_seg_store_ok V we p we' :
  run_seg V we p = Ok we' -> wstore (fst we') = wstore (fst we).
Proof.
  destruct we as [w e]. unfold Model.run_seg.
  set (start := if pcopy p && negb (linkok V) && circ_symbolic (wstore w) (pcirc p) then _ else _).
  destruct start as [[b v]|k x]; [|discriminate].
  destruct (exec V _ (pcirc p)) as [[s l]|k [s l]] eqn:E; [|discriminate].
  intros H; inversion H; subst; simpl. apply exec_ok in E as [A _]. exact A.
Qed.

Lemma run_seg_store_safe V we p r :
  safe V = true -> run_seg V we p = r -> wstore (fst (fst (out_of r))) = wstore (fst we).
Proof.
  intros Hs. destruct we as [w e]. unfold Model.run_seg.
  set (start := if pcopy p && negb (linkok V) && circ_symbolic (wstore w) (pcirc p) then _ else _).
  destruct start as [[b v]|k x]; [|intros <-; reflexivity].
  destruct (exec V _ (pcirc p)) as [[s l]|k [s l]] eqn:E; intros <-; simpl.
  - apply exec_ok in E as [A _]. exact A.
  - apply exec_err_safe in E; auto.
Qed.

Lemma run_list_store_ok V ps : forall we we',
  run_list V we ps = Ok we' -> wstore (fst we') = wstore (fst we).
Proof.
  induction ps as [|p t IH]; simpl; intros we we' H; [inversion H; auto|].
  destruct (run_seg V we p) as [we1|k we1] eqn:E; [|discriminate].
  apply IH in H. apply run_seg_store_ok in E. congruence.
Qed.

Lemma run_list_store_safe V ps : forall we r,
  safe V = true -> run_list V we ps = r -> wstore (fst (fst (out_of r))) = wstore (fst we).
Proof.
  induction ps as [|p t IH]; simpl; intros we r Hs H; [subst; auto|].
  destruct (run_seg V we p) as [we1|k we1] eqn:E.
  - apply (IH _ _ Hs) in H. apply (run_seg_store_safe _ _ _ _ Hs) in E. simpl in E. congruence.
  - apply (run_seg_store_safe _ _ _ _ Hs) in E. subst r. exact E.
Qed.

Lemma reset_store we : wstore (fst (reset we)) = wstore (fst we).
Proof. destruct we as [w e]; reflexivity. Qed.

(* a whole session: every call that returned normally left the parameter lists as they were *)
Theorem run_hist_store V h : forall we,
  (safe V = true \/ Forall (fun o => o = None) (snd (run_hist V we h))) ->
  wstore (fst (fst (run_hist V we h))) = wstore (fst we).
Proof.
  induction h as [|c t IH]; simpl; intros we H; [reflexivity|].
  destruct (do_call V we c) as [we1 o] eqn:E1.
  destruct (run_hist V we1 t) as [we2 os] eqn:E2. simpl in *.
  assert (H1 : wstore (fst we1) = wstore (fst we)).
  { destruct c as [ps|]; simpl in E1.
    - destruct H as [Hs|Hf].
      + pose proof (run_list_store_safe V ps we _ Hs eq_refl) as A.
        rewrite (surjective_pairing (out_of _)) in E1. inversion E1; subst. exact A.
      + inversion Hf; subst.
        destruct (run_list V we ps) as [x|k x] eqn:E; simpl in E1; inversion E1; subst.
        apply run_list_store_ok in E. exact E.
    - inversion E1; subst. apply reset_store. }
  rewrite <- H1. specialize (IH we1). rewrite E2 in IH. simpl in IH. apply IH.
  destruct H as [Hs|Hf]; [left; exact Hs|right; inversion Hf; assumption].
Qed.

(* ------------------------------------------------------------------ reset *)
(* after reset the engine is indistinguishable from a new one: whatever is run next gives the
   same result, world and engine *)
Theorem reset_like_fresh V w0 e w p ps :
  pcopy p && negb (linkok V) && circ_symbolic (wstore w) (pcirc p) = false ->
  run_list V (w, snd (reset (w0, e))) (p :: ps) = run_list V (w, fresh) (p :: ps).
Proof.
  intros H. simpl. unfold Model.run_seg. rewrite H. reflexivity.
Qed.

Definition all_none (v : vals) : Prop := v = vclear (length v).

Lemma vclear_length n : length (vclear n) = n.
Proof. apply repeat_length. Qed.

Lemma clear_regs_length ps : forall vs, length (clear_regs vs ps) = length vs.
Proof.
  unfold clear_regs. induction ps as [|p t IH]; simpl; intros vs; auto.
  rewrite IH. apply set_nth_length.
Qed.

Lemma clear_regs_keeps ps : forall vs r, r < length vs ->
  all_none (nth r vs []) -> all_none (nth r (clear_regs vs ps) []).
Proof.
  unfold clear_regs. induction ps as [|p t IH]; simpl; intros vs r Hr H; auto.
  apply IH; [rewrite set_nth_length; auto|].
  destruct (Nat.eq_dec (pregs p) r) as [->|Hn].
  - rewrite nth_set_nth_eq by auto. unfold all_none. rewrite vclear_length. reflexivity.
  - rewrite nth_set_nth_neq by auto. exact H.
Qed.

Lemma clear_regs_clears ps : forall vs p, In p ps -> pregs p < length vs ->
  all_none (nth (pregs p) (clear_regs vs ps) []).
Proof.
  induction ps as [|q t IH]; simpl; intros vs p Hin Hr; [contradiction|].
  destruct Hin as [->|Hin].
  - change (all_none (nth (pregs p) (clear_regs (set_nth vs (pregs p) (vclear (length (nth (pregs p) vs [])))) t) [])).
    apply clear_regs_keeps; [rewrite set_nth_length; auto|].
    rewrite nth_set_nth_eq by auto. unfold all_none. rewrite vclear_length. reflexivity.
  - change (all_none (nth (pregs p) (clear_regs (set_nth vs (pregs q) (vclear (length (nth (pregs q) vs [])))) t) [])).
    apply IH; auto. rewrite set_nth_length; auto.
Qed.

Theorem reset_clears w e p :
  In p (erun e) -> pregs p < length (wvals w) ->
  all_none (nth (pregs p) (wvals (fst (reset (w, e)))) [])
  /\ erun (snd (reset (w, e))) = [] /\ esamples (snd (reset (w, e))) = [] /\ elog (snd (reset (w, e))) = [].
Proof. intros Hin Hr. simpl. split; [apply clear_regs_clears; auto|auto]. Qed.

(* Two engines are indistinguishable when they agree on everything the segment loop reads: run
   history, samples, measured values, and -- once something has been run -- the backend.  (With an
   empty run history the backend is re-initialised by the next run, whatever it holds.) *)
Definition eng_equiv (e1 e2 : eng B) : Prop :=
  erun e1 = erun e2 /\ esamples e1 = esamples e2 /\ elog e1 = elog e2 /\ (erun e1 <> [] -> eb e1 = eb e2).

Definition res_equiv (r1 r2 : res (world * eng B)) : Prop :=
  match r1, r2 with
  | Ok (w1, e1), Ok (w2, e2) => w1 = w2 /\ eng_equiv e1 e2
  | Err k1 (w1, e1), Err k2 (w2, e2) => k1 = k2 /\ w1 = w2 /\ eng_equiv e1 e2
  | _, _ => False
  end.

Lemma eng_equiv_refl e : eng_equiv e e.
Proof. repeat split; auto. Qed.

Lemma res_equiv_refl r : res_equiv r r.
Proof. destruct r as [[w e]|k [w e]]; simpl; repeat split; auto. Qed.

Lemma reset_equiv_fresh w e : eng_equiv (snd (reset (w, e))) fresh.
Proof. simpl. repeat split; auto; try (intros H; contradiction H; reflexivity). Qed.

Lemma run_seg_equiv V w e1 e2 p :
  eng_equiv e1 e2 -> res_equiv (run_seg V (w, e1) p) (run_seg V (w, e2) p).
Proof.
  destruct e1 as [b1 r1 s1 l1], e2 as [b2 r2 s2 l2]. unfold eng_equiv; simpl.
  intros (Hr & Hs & Hl & Hb). subst r2 s2 l2.
  destruct r1 as [|prev rest].
  - unfold Model.run_seg. simpl.
    destruct (pcopy p && negb (linkok V) && circ_symbolic (wstore w) (pcirc p)); simpl.
    + repeat split; auto; try (intros H; contradiction H; reflexivity).
    + destruct (exec V _ (pcirc p)) as [[s l]|k [s l]]; simpl; repeat split; auto.
  - rewrite Hb by discriminate. apply res_equiv_refl.
Qed.

Lemma run_list_cons V we p t :
  run_list V we (p :: t) = match run_seg V we p with Ok we' => run_list V we' t | Err k we' => Err k we' end.
Proof. reflexivity. Qed.

Lemma run_list_equiv V ps : forall w e1 e2,
  eng_equiv e1 e2 -> res_equiv (run_list V (w, e1) ps) (run_list V (w, e2) ps).
Proof.
  induction ps as [|p t IH]; intros w e1 e2 H.
  - simpl. split; auto.
  - rewrite !run_list_cons. pose proof (run_seg_equiv V w e1 e2 p H) as R.
    destruct (run_seg V (w, e1) p) as [[w1 x1]|k1 [w1 x1]], (run_seg V (w, e2) p) as [[w2 x2]|k2 [w2 x2]];
      simpl in R; try contradiction.
    + destruct R as [-> R]. apply IH; exact R.
    + exact R.
Qed.

Lemma reset_equiv w e1 e2 :
  eng_equiv e1 e2 -> fst (reset (w, e1)) = fst (reset (w, e2)) /\ eng_equiv (snd (reset (w, e1))) (snd (reset (w, e2))).
Proof.
  intros (Hr & _). simpl. rewrite Hr. split; auto.
  repeat split; auto; try (intros H; contradiction H; reflexivity).
Qed.

(* a whole session started from indistinguishable engines: same outcome of every call, same world
   at the end, indistinguishable engines at the end *)
Theorem run_hist_equiv V h : forall w e1 e2,
  eng_equiv e1 e2 ->
  snd (run_hist V (w, e1) h) = snd (run_hist V (w, e2) h)
  /\ fst (fst (run_hist V (w, e1) h)) = fst (fst (run_hist V (w, e2) h))
  /\ eng_equiv (snd (fst (run_hist V (w, e1) h))) (snd (fst (run_hist V (w, e2) h))).
Proof.
  induction h as [|c t IH]; intros w e1 e2 H; simpl.
  - repeat split; auto; apply H.
  - assert (S : exists w' x1 x2 o, do_call V (w, e1) c = ((w', x1), o) /\ do_call V (w, e2) c = ((w', x2), o) /\ eng_equiv x1 x2).
    { destruct c as [ps|]; simpl.
      - pose proof (run_list_equiv V ps w e1 e2 H) as R.
        destruct (run_list V (w, e1) ps) as [[w1 x1]|k1 [w1 x1]], (run_list V (w, e2) ps) as [[w2 x2]|k2 [w2 x2]];
          simpl in R; try contradiction.
        + destruct R as [-> R]. exists w2, x1, x2, None. auto.
        + destruct R as (-> & -> & R). exists w2, x1, x2, (Some k2). auto.
      - destruct (reset_equiv w e1 e2 H) as [A R].
        exists (fst (reset (w, e1))), (snd (reset (w, e1))), (snd (reset (w, e2))), None.
        split; [reflexivity|]. split; [|exact R].
        rewrite A. reflexivity. }
    destruct S as (w' & x1 & x2 & o & -> & -> & R).
    specialize (IH w' x1 x2 R).
    destruct (run_hist V (w', x1) t) as [[wa ea] oa], (run_hist V (w', x2) t) as [[wb eb'] ob]. simpl in *.
    destruct IH as (A & B0 & C). subst. repeat split; auto; apply C.
Qed.

(* after a reset, every later session of run / reset calls behaves as on a new engine *)
Theorem reset_then_history V h w e :
  let after := reset (w, e) in
  snd (run_hist V after h) = snd (run_hist V (fst after, fresh) h)
  /\ fst (fst (run_hist V after h)) = fst (fst (run_hist V (fst after, fresh) h))
  /\ eng_equiv (snd (fst (run_hist V after h))) (snd (fst (run_hist V (fst after, fresh) h))).
Proof.
  intros after. pose proof (run_hist_equiv V h (fst after) (snd after) fresh (reset_equiv_fresh w e)) as R.
  rewrite <- surjective_pairing in R. exact R.
Qed.

(* ------------------------------------------------------------------ compositionality *)
Definition keys0 (l : mlog) : Prop := forall kz, In kz l -> fst kz = 0.

Definition copy_aw (row : arr) (v : vals) : vals :=
  match row with [] => v | a :: r => set_nth v 0 (Some (a :: r)) end.

Lemma copy_aw_keys0 l : forall m v,
  keys0 l -> (m = [] \/ exists z, m = [(0, z)]) ->
  copy_aw (map snd (fold_left (fun m kz => minsert (fst kz) (snd kz) m) l m)) v
  = replay l (copy_aw (map snd m) v).
Proof.
  induction l as [|[k z] t IH]; simpl; intros m v Hk Hm; [reflexivity|].
  assert (k = 0) by (apply (Hk (k, z)); left; reflexivity). subst k.
  assert (Hm' : minsert 0 z m = [(0, z)]) by (destruct Hm as [->|[z' ->]]; reflexivity).
  rewrite Hm'. rewrite IH; [|intros kz Hin; apply Hk; right; exact Hin|right; eexists; reflexivity].
  unfold replay at 2. simpl. fold (replay t). f_equal.
  destruct Hm as [->|[z' ->]]; simpl; [reflexivity|]. rewrite set_nth_set_nth. reflexivity.
Qed.

Lemma copy_vals_replay V (e : eng B) v :
  (fixed V = true \/ keys0 (elog e)) -> esamples e = row_of (elog e) ->
  copy_vals V e v = replay (elog e) v.
Proof.
  intros H Hrow. unfold copy_vals. destruct (fixed V) eqn:F; [reflexivity|].
  destruct H as [H|H]; [discriminate|].
  rewrite Hrow. unfold row_of, sortlog.
  change (copy_aw (map snd (fold_left (fun m kz => minsert (fst kz) (snd kz) m) (elog e) [])) v = replay (elog e) v).
  rewrite copy_aw_keys0; auto.
Qed.

(* which modes a circuit can write measured values to *)
Definition meas_only0 (cs : list cmd) : Prop :=
  Forall (fun c => ckind c = KMeas -> forall m, In m (cmodes c) -> m = 0) cs.

Lemma apply_cmd_keys V s c r :
  (ckind c = KMeas -> forall m, In m (cmodes c) -> m = 0) ->
  apply_cmd V s c = r -> keys0 (snd (fst (out_of r))).
Proof.
  intros Hc. unfold Model.apply_cmd. destruct (ckind c) eqn:K.
  - destruct (nth _ _ _) as [|z rest]; [intros <-; intros kz []|].
    destruct (is_zero z); [intros <-; intros kz []|].
    destruct (peval_all _ _); [|intros <-; intros kz []].
    destruct (bgate _ _ _ _); intros <-; intros kz [].
  - destruct (peval_all _ _); [|intros <-; intros kz []].
    destruct (bgate _ _ _ _); intros <-; intros kz [].
  - destruct (peval_all _ _); [|intros <-; intros kz []].
    destruct (bmeas _ _ _ _) as [[b' outs]|]; intros <-; [|intros kz []].
    simpl. intros [k z] Hin. apply in_combine_l in Hin. simpl. apply Hc; auto.
Qed.

Lemma keys0_app l1 l2 : keys0 l1 -> keys0 l2 -> keys0 (l1 ++ l2).
Proof. intros H1 H2 kz Hin. apply in_app_or in Hin as [?|?]; auto. Qed.

Lemma exec_keys V cs : forall s r,
  meas_only0 cs -> exec V s cs = r -> keys0 (snd (fst (out_of r))).
Proof.
  induction cs as [|c t IH]; simpl; intros s r Hm H.
  - subst; intros kz [].
  - inversion Hm as [|? ? Hc Ht]; subst.
    destruct (apply_cmd V s c) as [[s1 l1]|k [s1 l1]] eqn:E1.
    + pose proof (apply_cmd_keys V s c _ Hc E1) as K1. simpl in K1.
      destruct (exec V s1 t) as [[s2 l2]|k [s2 l2]] eqn:E2;
        pose proof (IH _ _ Ht E2) as K2; simpl in K2; simpl; apply keys0_app; auto.
    + pose proof (apply_cmd_keys V s c _ Hc E1) as K1. exact K1.
Qed.

(* What a caller can see of a run: how it ended, the backend, the parameter lists. *)
Definition obs (r : res (world * eng B)) : option err * option B * store :=
  let (we, k) := out_of r in (k, eb (snd we), wstore (fst we)).

Definition seg_result (w : world) (e : eng B) (p : prog) (r : res (st B * mlog)) : res (world * eng B) :=
  match r with
  | Ok (s, l) =>
      Ok (mkWorld (sstore s) (set_nth (wvals w) (pregs p) (svals s)) (set_nth (wlocked w) (pid p) true),
          mkEng (Some (sb s)) (p :: erun e) (row_of l) (elog e ++ l))
  | Err k (s, l) =>
      Err k (mkWorld (sstore s) (set_nth (wvals w) (pregs p) (svals s)) (set_nth (wlocked w) (pid p) true),
             mkEng (Some (sb s)) (erun e) (esamples e) (elog e))
  end.

Lemma run_seg_first V w p :
  pcopy p = false ->
  run_seg V (w, fresh) p =
  seg_result w fresh p (exec V (mkSt (binit (pn p)) (wstore w) (nth (pregs p) (wvals w) [])) (pcirc p)).
Proof.
  intros Hp. unfold Model.run_seg, seg_result. rewrite Hp. simpl.
  destruct (exec V _ (pcirc p)) as [[s l]|k [s l]]; reflexivity.
Qed.

Lemma run_seg_next V w e p prev rest b :
  pcopy p = false -> erun e = prev :: rest -> eb e = Some b -> pn p = pn prev ->
  run_seg V (w, e) p =
  seg_result w e p (exec V (mkSt b (wstore w) (copy_vals V e (nth (pregs p) (wvals w) []))) (pcirc p)).
Proof.
  intros Hp H1 H2 H3. unfold Model.run_seg, seg_result. rewrite Hp, H1, H2, H3, Nat.eqb_refl. simpl.
  destruct (exec V _ (pcirc p)) as [[s l]|k [s l]]; reflexivity.
Qed.

(* Running [p1; p2] in one call equals running the single program p1 ++ p2: same outcome (or the
   same exception), same backend state, same parameter lists; and on success the RegRefs of p2
   hold exactly the values the RegRefs of the concatenated program hold. *)
Theorem concat_equiv V w p1 p2 pc n :
  pn p1 = n -> pn p2 = n -> pn pc = n ->
  pcopy p1 = false -> pcopy p2 = false -> pcopy pc = false ->
  pcirc pc = pcirc p1 ++ pcirc p2 ->
  pregs p1 <> pregs p2 ->
  pregs p2 < length (wvals w) -> pregs pc < length (wvals w) ->
  nth (pregs p1) (wvals w) [] = vclear n ->
  nth (pregs p2) (wvals w) [] = vclear n ->
  nth (pregs pc) (wvals w) [] = vclear n ->
  (fixed V = true \/ meas_only0 (pcirc p1)) ->
  obs (run_list V (w, fresh) [p1; p2]) = obs (run_list V (w, fresh) [pc])
  /\ forall w2 e2 wc ec,
       run_list V (w, fresh) [p1; p2] = Ok (w2, e2) -> run_list V (w, fresh) [pc] = Ok (wc, ec) ->
       nth (pregs p2) (wvals w2) [] = nth (pregs pc) (wvals wc) [].
Proof.
  intros N1 N2 Nc Y1 Y2 Yc Hc Hr L2 Lc C1 C2 Cc Hfix.
  remember (run_list V (w, fresh) [p1; p2]) as r2 eqn:Q2.
  remember (run_list V (w, fresh) [pc]) as rc eqn:Qc.
  assert (R1 : run_list V (w, fresh) [pc] =
               match run_seg V (w, fresh) pc with Ok x => Ok x | Err k x => Err k x end) by reflexivity.
  assert (R2 : run_list V (w, fresh) [p1; p2] =
               match run_seg V (w, fresh) p1 with
               | Ok x => match run_seg V x p2 with Ok y => Ok y | Err k y => Err k y end
               | Err k x => Err k x end) by reflexivity.
  rewrite R2 in Q2. rewrite R1 in Qc. clear R1 R2.
  rewrite run_seg_first in Q2, Qc by assumption.
  rewrite C1, N1 in Q2. rewrite Cc, Hc, Nc, exec_app in Qc.
  destruct (exec V (mkSt (binit n) (wstore w) (vclear n)) (pcirc p1)) as [[s1 l1]|k [s1 l1]] eqn:E1.
  2:{ simpl in Q2, Qc. subst r2 rc. split; [reflexivity|intros; discriminate]. }
  pose proof (exec_any_vals V _ _ _ E1) as Rv. simpl in Rv.
  assert (K1 : fixed V = true \/ keys0 l1).
  { destruct Hfix as [F|M]; [left; exact F|right].
    pose proof (exec_keys V _ _ _ M E1) as K. exact K. }
  unfold seg_result at 1 in Q2.
  rewrite (run_seg_next V _ _ p2 p1 [] (sb s1)) in Q2; [|assumption|reflexivity|reflexivity|congruence].
  simpl wvals in Q2. simpl wstore in Q2. rewrite nth_set_nth_neq in Q2 by exact Hr. rewrite C2 in Q2.
  assert (CV : copy_vals V (mkEng (Some (sb s1)) (p1 :: erun (@fresh B)) (row_of l1) (elog (@fresh B) ++ l1)) (vclear n) = svals s1).
  { rewrite copy_vals_replay; simpl; auto. }
  rewrite CV in Q2.
  change (mkSt (sb s1) (sstore s1) (svals s1)) with s1 in Q2.
  destruct (exec V s1 (pcirc p2)) as [[s2 l2]|k [s2 l2]] eqn:E2; simpl in Q2, Qc; subst r2 rc.
  - split; [reflexivity|]. intros w2 e2 wc ec H2 Hcc. inversion H2; inversion Hcc; subst; simpl.
    rewrite !nth_set_nth_eq; auto; rewrite ?set_nth_length; auto.
  - split; [reflexivity|intros; discriminate].
Qed.

End Proofs.

(* ------------------------------------------------------------------ Gate.decompose *)
Lemma flip_all_notin ids : forall d j, ~ In j ids -> nth j (flip_all d ids) false = nth j d false.
Proof.
  unfold flip_all. induction ids as [|i t IH]; simpl; intros d j H; [reflexivity|].
  rewrite IH by tauto. apply nth_set_nth_neq. tauto.
Qed.

Lemma flip_all_length ids : forall d, length (flip_all d ids) = length d.
Proof.
  unfold flip_all. induction ids as [|i t IH]; simpl; intros d; [reflexivity|].
  rewrite IH. apply set_nth_length.
Qed.

(* distinct product objects: each is inverted exactly once, nothing else is touched *)
Theorem flip_all_nodup ids : forall d, NoDup ids -> (forall i, In i ids -> i < length d) ->
  forall j, nth j (flip_all d ids) false = if existsb (Nat.eqb j) ids then negb (nth j d false) else nth j d false.
Proof.
  induction ids as [|i t IH]; intros d Hnd Hlt j; [reflexivity|].
  inversion Hnd as [|? ? Hni Hnd']; subst.
  change (flip_all d (i :: t)) with (flip_all (set_nth d i (negb (nth i d false))) t).
  rewrite IH; auto.
  2:{ intros k Hk. rewrite set_nth_length. apply Hlt; right; exact Hk. }
  simpl existsb. destruct (Nat.eqb j i) eqn:E.
  - apply Nat.eqb_eq in E; subst j. simpl.
    assert (existsb (Nat.eqb i) t = false) as ->.
    { destruct (existsb (Nat.eqb i) t) eqn:X; auto. apply existsb_exists in X as [x [Hx Hx']].
      apply Nat.eqb_eq in Hx'; subst; contradiction. }
    apply nth_set_nth_eq. apply Hlt; left; reflexivity.
  - simpl. apply Nat.eqb_neq in E. rewrite nth_set_nth_neq by auto. reflexivity.
Qed.

(* decomposing a daggered gate twice in a row gives back the flags it started from *)
Theorem flip_all_involutive ids : forall d, NoDup ids -> (forall i, In i ids -> i < length d) ->
  forall j, nth j (flip_all (flip_all d ids) (rev ids)) false = nth j d false.
Proof.
  intros d Hnd Hlt j.
  rewrite flip_all_nodup; [|apply NoDup_rev; auto|intros i Hi; rewrite flip_all_length; apply Hlt; apply in_rev; auto].
  rewrite flip_all_nodup by auto.
  assert (existsb (Nat.eqb j) (rev ids) = existsb (Nat.eqb j) ids) as ->.
  { destruct (existsb (Nat.eqb j) ids) eqn:X.
    - apply existsb_exists in X as [x [Hx Hx']]. apply existsb_exists. exists x; split; auto. rewrite <- in_rev; auto.
    - destruct (existsb (Nat.eqb j) (rev ids)) eqn:Y; auto.
      apply existsb_exists in Y as [x [Hx Hx']]. apply in_rev in Hx.
      assert (existsb (Nat.eqb j) ids = true) by (apply existsb_exists; exists x; auto). congruence. }
  destruct (existsb (Nat.eqb j) ids); [apply negb_involutive|reflexivity].
Qed.

(* the in-place flip is only correct because the products are distinct objects: the same object
   used twice in one decomposition is flipped twice, i.e. not at all *)
Theorem flip_all_shared_object_refuted :
  exists d ids, nth 0 (flip_all d ids) false = nth 0 d false /\ In 0 ids.
Proof. exists [false], [0; 0]. split; [reflexivity|left; reflexivity]. Qed.

(* ------------------------------------------------------------------ refutations (trace backend) *)
Definition tb_run := run_list tb_init tb_gate tb_meas.

(* Gate.apply before commit 0e1fbb4 (old_code): a daggered gate whose parameter cannot be evaluated yet (mode 0 not
   measured) raises inside _apply; p[0] stays negated in the user's op object. *)
Definition g_dag := mkCmd KGate 0 0 true [1].
Definition w_exc := mkWorld [[PMeas 0]] [vclear 2] [false].
Theorem store_changed_on_exception_refuted :
  exists w p, match tb_run old_code (w, fresh) [p] with
              | Err EParam (w', _) => wstore w' <> wstore w
              | _ => False
              end.
Proof. exists w_exc, (mkProg 0 0 2 false [g_dag]). vm_compute. discriminate. Qed.

(* the engine before commit 711526c (old_code): the first segment measures mode 1, the second uses q[1].par; the
   concatenated program runs, the two-segment form raises ParameterError *)
Definition m1 := mkCmd KMeas 5 1 false [1].
Definition use1 := mkCmd KGate 0 0 false [0].
Definition w_seg := mkWorld [[PMeas 1]; []] [vclear 2; vclear 2; vclear 2] [false; false; false].
Theorem compositional_old_refuted :
  exists w p1 p2 pc, pcirc pc = pcirc p1 ++ pcirc p2 /\
    obs tb (tb_run old_code (w, fresh) [p1; p2]) <> obs tb (tb_run old_code (w, fresh) [pc]).
Proof.
  exists w_seg, (mkProg 0 0 2 false [m1]), (mkProg 1 1 2 false [use1]), (mkProg 2 2 2 false [m1; use1]).
  split; [reflexivity|]. vm_compute. discriminate.
Qed.

(* ... and a silent wrong value: the first segment measures mode 1, the second uses q[0].par,
   which was never measured; the two-segment form applies the gate with mode 1's value, the
   concatenated program raises *)
Definition use0 := mkCmd KGate 0 0 false [1].
Definition w_seg0 := mkWorld [[PMeas 0]; []] [vclear 2; vclear 2; vclear 2] [false; false; false].
Theorem compositional_old_wrong_mode_refuted :
  exists w p1 p2 pc, pcirc pc = pcirc p1 ++ pcirc p2 /\
    fst (fst (obs tb (tb_run old_code (w, fresh) [p1; p2]))) = None /\
    fst (fst (obs tb (tb_run old_code (w, fresh) [pc]))) = Some EParam.
Proof.
  exists w_seg0, (mkProg 0 0 2 false [m1]), (mkProg 1 1 2 false [use0]), (mkProg 2 2 2 false [m1; use0]).
  split; [reflexivity|]. vm_compute. split; reflexivity.
Qed.

(* Program._linked_copy before commit 8c7ef76 (old_code): running (= compiling again) a program that is itself a compiled
   copy and uses a measured parameter raises before the engine does anything, although the very
   same circuit runs when the program is not a copy *)
Definition m0c := mkCmd KMeas 6 1 false [0].
Definition useq0 := mkCmd KGate 0 0 false [1].
Definition w_link := mkWorld [[PMeas 0; PConst 0]; []] [vclear 2] [true; true].
Theorem linked_copy_rerun_refuted :
  exists w c, (match tb_run old_code (w, fresh) [mkProg 1 0 2 true c] with Err EAttr _ => True | _ => False end)
           /\ (match tb_run old_code (w, fresh) [mkProg 0 0 2 false c] with Ok _ => True | _ => False end).
Proof. exists w_link, [m0c; useq0]. vm_compute. split; exact I. Qed.
