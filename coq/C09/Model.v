(* C09 — model of the engine's segment loop (strawberryfields/engine.py: BaseEngine._run,
   BaseEngine.reset / LocalEngine.reset, LocalEngine._run_program), of Operation.apply /
   Gate.apply / Measurement.apply and Gate.decompose (strawberryfields/ops.py).
   Definitions only.

   What is modelled
   * the backend is abstract (Section variables): `binit n` = begin_circuit(n), `bgate` = any
     state-changing API call (None = the call raised), `bmeas` = a measurement call returning one
     value per measured mode (shots = 1), `breset` = backend.reset;
   * operation parameters are numbers, measured parameters `q[k].par`, or their negation (what
     `-z` produces on a sympy symbol; sympy cancels a double negation);
   * parameter lists live in a *store* indexed by an id, because `Gate.H` is a shallow copy: an op
     and its `.H` copy (and every Command that uses the same op object) share one Python list
     `op.p`; `Gate.apply` overwrites `p[0]` in that shared list while the backend is called;
   * RegRef values: one list (indexed by mode) per RegRef set; a compiled (linked) copy shares
     the RegRef set of its source;
   * three switches select the current code (all true, `current`) or an earlier variant
     (`old_code` = all false), kept so that the refutations of the old behaviour stay checked:
       safe  = Gate.apply restores p[0] also when _apply raises (try/finally; commit 0e1fbb4)
       fixed = the engine copies the latest measured value of each mode into the next segment
               (commit 711526c; before: `for k, v in enumerate(self.samples)` iterated over shots)
       linkok = Program._linked_copy does not deep-copy the `source` attribute (commit 8c7ef76;
               before, deep-copying a Program whose ops hold MeasuredParameters raised
               AttributeError: compiling -- hence running -- an already compiled program that
               uses measured parameters failed). *)
From Coq Require Import List ZArith Bool Arith Lia.
Import ListNotations.

Definition arr := list Z.     (* a numpy value: scalar = one-element list *)

Inductive pexpr := PConst (c : Z) | PMeas (k : nat) | PNeg (e : pexpr).

(* `np.all(z == 0)`: true only for a numeric zero; `symbol == 0` is False *)
Definition is_zero (e : pexpr) : bool := match e with PConst c => Z.eqb c 0 | _ => false end.
(* `-z` *)
Definition pneg (e : pexpr) : pexpr :=
  match e with PConst c => PConst (- c) | PNeg e' => e' | PMeas k => PNeg (PMeas k) end.

Definition vals := list (option arr).          (* RegRef.val by mode index *)
Definition vclear (n : nat) : vals := repeat None n.

Fixpoint set_nth {A} (l : list A) (i : nat) (x : A) : list A :=
  match l, i with
  | [], _ => []
  | _ :: t, O => x :: t
  | h :: t, S i' => h :: set_nth t i' x
  end.

Fixpoint peval (v : vals) (e : pexpr) : option arr :=
  match e with
  | PConst c => Some [c]
  | PMeas k => nth k v None
  | PNeg e' => option_map (map Z.opp) (peval v e')
  end.

Fixpoint peval_all (v : vals) (es : list pexpr) : option (list arr) :=
  match es with
  | [] => Some []
  | e :: t => match peval v e, peval_all v t with
              | Some a, Some r => Some (a :: r)
              | _, _ => None
              end
  end.

Definition store := list (list pexpr).

Inductive okind := KGate | KOp | KMeas.
Record cmd := mkCmd { ckind : okind; ccls : nat; cpl : nat; cdag : bool; cmodes : list nat }.

Inductive err := EIndex | EParam | EBackend | ERuntime | EAttr.
Inductive res (A : Type) := Ok (a : A) | Err (e : err) (a : A).
Arguments Ok {A} a.
Arguments Err {A} e a.

Definition mlog := list (nat * Z).             (* measurement log, chronological: (mode, value) *)

(* Measurement.apply: `for v, r in zip(values.T, reg): r.val = v` *)
Definition replay (l : mlog) (v : vals) : vals :=
  fold_left (fun v kz => set_nth v (fst kz) (Some [snd kz])) l v.

(* samples_dict -> samples: last value per mode, sorted by mode *)
Fixpoint minsert (k : nat) (z : Z) (m : mlog) : mlog :=
  match m with
  | [] => [(k, z)]
  | (k', z') :: t => if k <? k' then (k, z) :: m
                     else if k =? k' then (k, z) :: t
                     else (k', z') :: minsert k z t
  end.
Definition sortlog (l : mlog) : mlog := fold_left (fun m kz => minsert (fst kz) (snd kz) m) l [].
Definition row_of (l : mlog) : arr := map snd (sortlog l).

Set Primitive Projections.
Record st (B : Type) := mkSt { sb : B; sstore : store; svals : vals }.
Unset Primitive Projections.
Arguments mkSt {B}. Arguments sb {B}. Arguments sstore {B}. Arguments svals {B}.

Record variant := mkVariant { safe : bool; fixed : bool; linkok : bool }.
(* the code as it now is (after the fix commits 0e1fbb4, 711526c, 8c7ef76) and as it was before *)
Definition current := mkVariant true true true.
Definition old_code := mkVariant false false false.

Section Engine.
Variable B : Type.
Variable binit : nat -> B.
Variable bgate : B -> nat -> list nat -> list arr -> option B.
Variable bmeas : B -> nat -> list nat -> list arr -> option (B * list Z).
Variable breset : B -> B.
Variable V : variant.

Definition apply_cmd (s : st B) (c : cmd) : res (st B * mlog) :=
  let pl := nth (cpl c) (sstore s) [] in
  match ckind c with
  | KGate =>
      match pl with
      | [] => Err EIndex (s, [])                                     (* z = self.p[0] *)
      | z :: rest =>
          if is_zero z then Ok (s, [])                               (* identity: backend not called *)
          else
            let z' := if cdag c then pneg z else z in
            let st1 := set_nth (sstore s) (cpl c) (z' :: rest) in    (* self.p[0] = z *)
            let sbad := if safe V then s else mkSt (sb s) st1 (svals s) in
            match peval_all (svals s) (z' :: rest) with
            | None => Err EParam (sbad, [])                          (* par_evaluate raised inside _apply *)
            | Some args =>
                match bgate (sb s) (ccls c) (cmodes c) args with
                | None => Err EBackend (sbad, [])
                | Some b' => Ok (mkSt b' (set_nth st1 (cpl c) (z :: rest)) (svals s), [])   (* restore *)
                end
            end
      end
  | KOp =>
      match peval_all (svals s) pl with
      | None => Err EParam (s, [])
      | Some args =>
          match bgate (sb s) (ccls c) (cmodes c) args with
          | None => Err EBackend (s, [])
          | Some b' => Ok (mkSt b' (sstore s) (svals s), [])
          end
      end
  | KMeas =>
      match peval_all (svals s) pl with
      | None => Err EParam (s, [])
      | Some args =>
          match bmeas (sb s) (ccls c) (cmodes c) args with
          | None => Err EBackend (s, [])
          | Some (b', outs) =>
              let l := combine (cmodes c) outs in
              Ok (mkSt b' (sstore s) (replay l (svals s)), l)
          end
      end
  end.

(* LocalEngine._run_program: the exception of a command propagates; what was done stays done *)
Fixpoint exec (s : st B) (cs : list cmd) : res (st B * mlog) :=
  match cs with
  | [] => Ok (s, [])
  | c :: t =>
      match apply_cmd s c with
      | Err e x => Err e x
      | Ok (s1, l1) =>
          match exec s1 t with
          | Ok (s2, l2) => Ok (s2, l1 ++ l2)
          | Err e (s2, l2) => Err e (s2, l1 ++ l2)
          end
      end
  end.

(* ---------------------------------------------------------------- programs, world, engine *)
(* pcopy: the program is itself a linked copy (result of Program.compile) *)
Record prog := mkProg { pid : nat; pregs : nat; pn : nat; pcopy : bool; pcirc : list cmd }.

Definition is_symbolic (e : pexpr) : bool := match e with PConst _ => false | _ => true end.
Definition circ_symbolic (st : store) (cs : list cmd) : bool :=
  existsb (fun c => existsb is_symbolic (nth (cpl c) st [])) cs.

(* everything mutable outside the engine: parameter lists of op objects, RegRef values per
   RegRef set, `locked` flag per user program *)
Record world := mkWorld { wstore : store; wvals : list vals; wlocked : list bool }.

(* erun is run_progs, most recent first *)
Record eng := mkEng { eb : option B; erun : list prog; esamples : arr; elog : mlog }.
Definition fresh : eng := mkEng None [] [] [].

(* "Copy the latest measured values in the RegRefs of p" *)
Definition copy_vals (e : eng) (v : vals) : vals :=
  if fixed V then replay (elog e) v
  else match esamples e with
       | [] => v                                   (* np.empty((0,0)): the loop body never runs *)
       | row => set_nth v 0 (Some row)             (* k = 0 is the only shot; v = the whole row *)
       end.

Definition run_seg (we : world * eng) (p : prog) : res (world * eng) :=
  let (w, e) := we in
  let w1 := mkWorld (wstore w) (wvals w) (set_nth (wlocked w) (pid p) true) in   (* compile -> _linked_copy -> lock *)
  let v0 := nth (pregs p) (wvals w1) [] in
  let start : res (B * vals) :=
    if pcopy p && negb (linkok V) && circ_symbolic (wstore w) (pcirc p) then Err EAttr (binit 0, v0) else
    match erun e, eb e with
    | prev :: _, Some b =>
        if Nat.eqb (pn p) (pn prev) then Ok (b, copy_vals e v0) else Err ERuntime (b, v0)
    | _, _ => Ok (binit (pn p), v0)
    end in
  match start with
  | Err k _ => Err k (w1, e)
  | Ok (b, v) =>
      match exec (mkSt b (wstore w1) v) (pcirc p) with
      | Ok (s, l) =>
          Ok (mkWorld (sstore s) (set_nth (wvals w1) (pregs p) (svals s)) (wlocked w1),
              mkEng (Some (sb s)) (p :: erun e) (row_of l) (elog e ++ l))
      | Err k (s, l) =>
          Err k (mkWorld (sstore s) (set_nth (wvals w1) (pregs p) (svals s)) (wlocked w1),
                 mkEng (Some (sb s)) (erun e) (esamples e) (elog e))
      end
  end.

Fixpoint run_list (we : world * eng) (ps : list prog) : res (world * eng) :=
  match ps with
  | [] => Ok we
  | p :: t => match run_seg we p with
              | Ok we' => run_list we' t
              | Err k we' => Err k we'
              end
  end.

(* BaseEngine.reset + LocalEngine.reset *)
Definition clear_regs (vs : list vals) (ps : list prog) : list vals :=
  fold_left (fun vs p => set_nth vs (pregs p) (vclear (length (nth (pregs p) vs [])))) ps vs.
Definition reset (we : world * eng) : world * eng :=
  let (w, e) := we in
  (mkWorld (wstore w) (clear_regs (wvals w) (erun e)) (wlocked w),
   mkEng (option_map breset (eb e)) [] [] []).

Inductive call := CRun (ps : list prog) | CReset.
Definition out_of {A} (r : res A) : A * option err :=
  match r with Ok a => (a, None) | Err k a => (a, Some k) end.
(* a user session: exceptions are caught by the caller, the objects live on *)
Definition do_call (we : world * eng) (c : call) : (world * eng) * option err :=
  match c with
  | CRun ps => out_of (run_list we ps)
  | CReset => (reset we, None)
  end.
Fixpoint run_hist (we : world * eng) (h : list call) : (world * eng) * list (option err) :=
  match h with
  | [] => (we, [])
  | c :: t => let (we1, o) := do_call we c in
              let (we2, os) := run_hist we1 t in (we2, o :: os)
  end.

End Engine.

Arguments apply_cmd {B}. Arguments exec {B}. Arguments run_seg {B}. Arguments run_list {B}.
Arguments reset {B}. Arguments do_call {B}. Arguments run_hist {B}. Arguments copy_vals {B}.
Arguments mkEng {B}. Arguments eb {B}. Arguments erun {B}. Arguments esamples {B}. Arguments elog {B}.
Arguments fresh {B}.

(* ---------------------------------------------------------------- Gate.decompose
   `_decompose` returns Commands whose op objects live in an object store of dagger flags;
   for a daggered gate every product's flag is flipped *in place*, then the list is reversed. *)
Definition dstore := list bool.
Definition flip_all (d : dstore) (ids : list nat) : dstore :=
  fold_left (fun d i => set_nth d i (negb (nth i d false))) ids d.
Definition decompose_ids (dag : bool) (d : dstore) (ids : list nat) : dstore * list nat :=
  if dag then (flip_all d ids, rev ids) else (d, ids).

(* ---------------------------------------------------------------- executable instance: the
   backend that only records the calls it receives.  Measurement outcomes are
   scripted by the call counter (restarting at begin_circuit) so that the implementation-side recording backend can do the
   same. *)
Inductive event := EvBegin (n : nat) | EvGate (cls : nat) (modes : list nat) (args : list arr)
                 | EvMeas (cls : nat) (modes : list nat) (args : list arr) (outs : list Z)
                 | EvReset.
Record tb := mkTb { tcount : nat; ttrace : list event }.   (* trace most recent first *)
Definition tb_init (n : nat) : tb := mkTb 0 [EvBegin n].
(* the scripted failure: the backend rejects a call one of whose arguments is the number 13 *)
Definition tb_bad (args : list arr) : bool :=
  existsb (fun a => match a with [z] => Z.eqb z 13 | _ => false end) args.
Definition tb_gate (b : tb) (cls : nat) (modes : list nat) (args : list arr) : option tb :=
  if tb_bad args then None
  else Some (mkTb (S (tcount b)) (EvGate cls modes args :: ttrace b)).
Definition tb_outcome (count : nat) (mode : nat) : Z := Z.of_nat (10 * (count + 1) + mode).
Definition tb_meas (b : tb) (cls : nat) (modes : list nat) (args : list arr) : option (tb * list Z) :=
  if tb_bad args then None
  else let outs := map (tb_outcome (tcount b)) modes in
       Some (mkTb (S (tcount b)) (EvMeas cls modes args outs :: ttrace b), outs).
Definition tb_reset (b : tb) : tb := mkTb (tcount b) (EvReset :: ttrace b).
