(* C20 — proofs about the model instantiated at the reals (Coquelicot derivatives). *)
From Coq Require Import Reals List Arith Lia Lra.
From Coquelicot Require Import Coquelicot.
From SFV Require Import C20.Model.
Import ListNotations.
Open Scope R_scope.

Definition RO : Ops R := mkOps R 0 1 Rplus Rmult Rminus Ropp Rdiv.

(* ExpFeatures.weights over the reals *)
Definition weightsR (F : list (list R)) (th : list R) : list R := map exp (exp_args RO F th).

(* ---------- list algebra -------------------------------------------------------------- *)
Lemma upd_self {A} (l : list A) j d : upd l j (nth j l d) = l.
Proof. revert j; induction l as [|a l IH]; intros [|j]; simpl; auto. now rewrite IH. Qed.

Lemma upd_length {A} (l : list A) j x : length (upd l j x) = length l.
Proof. revert j; induction l as [|a l IH]; intros [|j]; simpl; auto. Qed.

Lemma nth_upd_same {A} (l : list A) j x d : (j < length l)%nat -> nth j (upd l j x) d = x.
Proof. revert j; induction l as [|a l IH]; intros [|j] H; simpl in *; try lia; auto. apply IH; lia. Qed.

Lemma dot_nil_r u : dot RO u [] = 0.
Proof. unfold dot, map2. destruct u; reflexivity. Qed.

Lemma dot_cons a u b v : dot RO (a :: u) (b :: v) = a * b + dot RO u v.
Proof. reflexivity. Qed.

(* the dot product is affine in each coordinate of its second argument *)
Lemma dot_upd row th j x : (j < length th)%nat ->
  dot RO row (upd th j x) = dot RO row th + nth j row 0 * (x - nth j th 0).
Proof.
  revert row j; induction th as [|a th IH]; intros row j H; simpl in H; [lia|].
  destruct row as [|r row].
  - unfold dot, map2; simpl. destruct j; simpl; ring.
  - destruct j as [|j]; simpl upd; rewrite !dot_cons; simpl nth.
    + ring.
    + rewrite IH by lia. ring.
Qed.

Lemma exp_args_nth F th k : nth k (exp_args RO F th) 0 = - dot RO (nth k F []) th.
Proof.
  unfold exp_args. revert k; induction F as [|row F IH]; intros [|k]; simpl; auto.
  - unfold dot, map2; simpl; ring.
  - unfold dot, map2; simpl; ring.
Qed.

Lemma weightsR_length F th : length (weightsR F th) = length F.
Proof. unfold weightsR, exp_args. now rewrite !map_length. Qed.

Lemma weightsR_nth F th k : (k < length F)%nat -> nth k (weightsR F th) 0 = exp (- dot RO (nth k F []) th).
Proof.
  intros H. unfold weightsR.
  rewrite (nth_indep _ 0 (exp 0)) by (unfold exp_args; now rewrite !map_length).
  rewrite map_nth, exp_args_nth. reflexivity.
Qed.

Lemma weightsR_nth_out F th k : (length F <= k)%nat -> nth k (weightsR F th) 0 = 0.
Proof. intros H. apply nth_overflow. now rewrite weightsR_length. Qed.

Lemma jacobian_nth F w k j : (k < length F)%nat -> (k < length w)%nat ->
  nth j (nth k (jacobian RO F w) []) 0 = - nth j (nth k F []) 0 * nth k w 0.
Proof.
  unfold jacobian, map2. revert w k; induction F as [|row F IH]; intros [|wk w] [|k] H1 H2; simpl in *; try lia.
  - clear. revert j; induction row as [|f row IHr]; intros [|j]; simpl; try ring; auto.
  - apply IH; lia.
Qed.

Lemma jacobian_nth_out F w k j : (length F <= k)%nat -> nth j (nth k (jacobian RO F w) []) 0 = 0.
Proof.
  intros H. rewrite (nth_overflow (jacobian RO F w)).
  - destruct j; reflexivity.
  - unfold jacobian, map2. rewrite map_length, combine_length. lia.
Qed.

(* ---------- T1: ExpFeatures.jacobian is the derivative of ExpFeatures.weights --------------- *)
Lemma weight_deriv F th k j : (j < length th)%nat ->
  is_derive (fun x => nth k (weightsR F (upd th j x)) 0) (nth j th 0)
            (nth j (nth k (jacobian RO F (weightsR F th)) []) 0).
Proof.
  intros Hj. destruct (lt_dec k (length F)) as [Hk|Hk].
  - rewrite jacobian_nth by (rewrite ?weightsR_length; lia).
    rewrite weightsR_nth by lia.
    set (row := nth k F []). set (t := nth j th 0). set (a := dot RO row th). set (b := nth j row 0).
    apply (is_derive_ext (fun x => exp (- (a + b * (x - t))))).
    + intros x. rewrite weightsR_nth by lia. fold row. rewrite dot_upd by exact Hj. reflexivity.
    + auto_derive; [exact I|]. replace (a + b * (t + - t)) with a by ring. ring.
  - rewrite jacobian_nth_out by lia.
    apply (is_derive_ext (fun _ => 0)).
    + intros x. now rewrite weightsR_nth_out by lia.
    + apply (@is_derive_const R_AbsRing R_NormedModule).
Qed.
