(* C20 — proofs about the model instantiated at the reals (Coquelicot derivatives). *)
From Coq Require Import Reals List Arith Lia Lra.
From Coquelicot Require Import Coquelicot.
From SFV Require Import C20.Model.
Import ListNotations.
Open Scope R_scope.

Definition RO : Ops R := mkOps R 0 1 Rplus Rmult Rminus Ropp Rdiv.

(* ExpFeatures.weights over the reals *)
Definition weightsR (F : list (list R)) (th : list R) : list R := map exp (exp_args RO F th).

(* ---------- list algebra -------------------------------------------------------------- *)
Lemma upd_self {A} (l : list A) j d : upd l j (nth j l d) = l.
Proof. revert j; induction l as [|a l IH]; intros [|j]; simpl; auto. now rewrite IH. Qed.

Lemma upd_length {A} (l : list A) j x : length (upd l j x) = length l.
Proof. revert j; induction l as [|a l IH]; intros [|j]; simpl; auto. Qed.

Lemma nth_upd_same {A} (l : list A) j x d : (j < length l)%nat -> nth j (upd l j x) d = x.
Proof. revert j; induction l as [|a l IH]; intros [|j] H; simpl in *; try lia; auto. apply IH; lia. Qed.

Lemma dot_nil_r u : dot RO u [] = 0.
Proof. unfold dot, map2. destruct u; reflexivity. Qed.

Lemma dot_cons a u b v : dot RO (a :: u) (b :: v) = a * b + dot RO u v.
Proof. reflexivity. Qed.

(* the dot product is affine in each coordinate of its second argument *)
Lemma dot_upd row th j x : (j < length th)%nat ->
  dot RO row (upd th j x) = dot RO row th + nth j row 0 * (x - nth j th 0).
Proof.
  revert row j; induction th as [|a th IH]; intros row j H; simpl in H; [lia|].
  destruct row as [|r row].
  - unfold dot, map2; simpl. destruct j; simpl; ring.
  - destruct j as [|j]; simpl upd; rewrite !dot_cons; simpl nth.
    + ring.
    + rewrite IH by lia. ring.
Qed.

Lemma exp_args_nth F th k : nth k (exp_args RO F th) 0 = - dot RO (nth k F []) th.
Proof.
  unfold exp_args. revert k; induction F as [|row F IH]; intros [|k]; simpl; auto.
  - unfold dot, map2; simpl; ring.
  - unfold dot, map2; simpl; ring.
Qed.

Lemma weightsR_length F th : length (weightsR F th) = length F.
Proof. unfold weightsR, exp_args. now rewrite !map_length. Qed.

Lemma weightsR_nth F th k : (k < length F)%nat -> nth k (weightsR F th) 0 = exp (- dot RO (nth k F []) th).
Proof.
  intros H. unfold weightsR.
  rewrite (nth_indep _ 0 (exp 0)) by (unfold exp_args; now rewrite !map_length).
  rewrite map_nth, exp_args_nth. reflexivity.
Qed.

Lemma weightsR_nth_out F th k : (length F <= k)%nat -> nth k (weightsR F th) 0 = 0.
Proof. intros H. apply nth_overflow. now rewrite weightsR_length. Qed.

Lemma jacobian_nth F w k j : (k < length F)%nat -> (k < length w)%nat ->
  nth j (nth k (jacobian RO F w) []) 0 = - nth j (nth k F []) 0 * nth k w 0.
Proof.
  unfold jacobian, map2. revert w k; induction F as [|row F IH]; intros [|wk w] [|k] H1 H2; simpl in *; try lia.
  - clear. revert j; induction row as [|f row IHr]; intros [|j]; simpl; try ring; auto.
  - apply IH; lia.
Qed.

Lemma jacobian_nth_out F w k j : (length F <= k)%nat -> nth j (nth k (jacobian RO F w) []) 0 = 0.
Proof.
  intros H. rewrite (nth_overflow (jacobian RO F w)).
  - destruct j; reflexivity.
  - unfold jacobian, map2. rewrite map_length, combine_length. lia.
Qed.

(* ---------- T1: ExpFeatures.jacobian is the derivative of ExpFeatures.weights --------------- *)
Lemma weight_deriv F th k j : (j < length th)%nat ->
  is_derive (fun x => nth k (weightsR F (upd th j x)) 0) (nth j th 0)
            (nth j (nth k (jacobian RO F (weightsR F th)) []) 0).
Proof.
  intros Hj. destruct (lt_dec k (length F)) as [Hk|Hk].
  - rewrite jacobian_nth by (rewrite ?weightsR_length; lia).
    rewrite weightsR_nth by lia.
    set (row := nth k F []). set (t := nth j th 0). set (a := dot RO row th). set (b := nth j row 0).
    apply (is_derive_ext (fun x => exp (- (a + b * (x - t))))).
    + intros x. rewrite weightsR_nth by lia. fold row. rewrite dot_upd by exact Hj. reflexivity.
    + auto_derive; [exact I|]. replace (a + b * (t + - t)) with a by ring. ring.
  - rewrite jacobian_nth_out by lia.
    apply (is_derive_ext (fun _ => 0)).
    + intros x. now rewrite weightsR_nth_out by lia.
    + apply (@is_derive_const R_AbsRing R_NormedModule).
Qed.

(* ---------- sums over lists ------------------------------------------------------------------ *)
Notation rsum := (ksum RO).

Lemma rsum_cons a l : rsum (a :: l) = a + rsum l.
Proof. reflexivity. Qed.

Lemma rsum_map_plus {A} (f g : A -> R) l : rsum (map (fun a => f a + g a) l) = rsum (map f l) + rsum (map g l).
Proof. induction l; simpl; [ring|]. change (fold_right (kadd RO) (k0 RO)) with rsum in *. rewrite IHl. ring. Qed.

Lemma rsum_map_scal {A} (c : R) (f : A -> R) l : rsum (map (fun a => c * f a) l) = c * rsum (map f l).
Proof. induction l; simpl; [ring|]. change (fold_right (kadd RO) (k0 RO)) with rsum in *. rewrite IHl. ring. Qed.

Lemma rsum_map_ext {A} (f g : A -> R) l : (forall a, In a l -> f a = g a) -> rsum (map f l) = rsum (map g l).
Proof. intros H. f_equal. apply map_ext_in, H. Qed.

Lemma rsum_map_const {A} (c : R) (l : list A) : rsum (map (fun _ => c) l) = INR (length l) * c.
Proof.
  induction l as [|a l IH]; [simpl; ring|].
  change (rsum (map (fun _ => c) (a :: l))) with (c + rsum (map (fun _ => c) l)).
  rewrite IH. change (length (a :: l)) with (S (length l)). rewrite S_INR. ring.
Qed.

Lemma rsum_swap {A B} (f : A -> B -> R) (la : list A) (lb : list B) :
  rsum (map (fun a => rsum (map (fun b => f a b) lb)) la) = rsum (map (fun b => rsum (map (fun a => f a b) la)) lb).
Proof.
  induction la as [|a la IH].
  - simpl. symmetry. rewrite (rsum_map_const 0). ring.
  - change (rsum (map (fun a0 => rsum (map (fun b => f a0 b) lb)) (a :: la)))
      with (rsum (map (fun b => f a b) lb) + rsum (map (fun a0 => rsum (map (fun b => f a0 b) lb)) la)).
    rewrite IH, <- rsum_map_plus. apply rsum_map_ext. intros b _. reflexivity.
Qed.

Lemma is_derive_rsum {A} (f : A -> R -> R) (d : A -> R) (l : list A) x :
  (forall a, In a l -> is_derive (f a) x (d a)) ->
  is_derive (fun y => rsum (map (fun a => f a y) l)) x (rsum (map d l)).
Proof.
  induction l as [|a l IH]; intros H.
  - simpl. apply (@is_derive_const R_AbsRing R_NormedModule).
  - change (is_derive (fun y => f a y + rsum (map (fun a0 => f a0 y) l)) x (d a + rsum (map d l))).
    apply (@is_derive_plus R_AbsRing R_NormedModule).
    + apply H; left; reflexivity.
    + apply IH. intros b Hb. apply H; right; exact Hb.
Qed.

(* map2 over two lists of the same length, as an indexed map *)
Lemma map2_seq {A B C} (f : A -> B -> C) (da : A) (db : B) (a : list A) (b : list B) :
  length b = length a ->
  map2 f a b = map (fun k => f (nth k a da) (nth k b db)) (seq O (length a)).
Proof.
  revert b; induction a as [|x a IH]; intros [|y b] H; simpl in H; try discriminate; [reflexivity|].
  unfold map2 in *. simpl. f_equal. rewrite <- seq_shift, map_map. apply IH. lia.
Qed.

Lemma list_as_seq {A} (da : A) (a : list A) : a = map (fun k => nth k a da) (seq O (length a)).
Proof.
  induction a as [|x a IH]; [reflexivity|]. simpl. f_equal. rewrite <- seq_shift, map_map. exact IH.
Qed.

Lemma nth_map_seq (g : nat -> R) n k : (k < n)%nat -> nth k (map g (seq O n)) 0 = g k.
Proof.
  intros H. rewrite (nth_indep _ 0 (g O)) by (now rewrite map_length, seq_length).
  rewrite map_nth, seq_nth by lia. reflexivity.
Qed.

Lemma vecmat_nth d v J j : (j < d)%nat ->
  nth j (vecmat RO d v J) 0 = rsum (map2 (fun vk row => vk * nth j row 0) v J).
Proof.
  intros H. unfold vecmat.
  rewrite (nth_indep _ 0 ((fun j0 => rsum (map2 (fun vk row => vk * nth j0 row 0) v J)) O)) by (now rewrite map_length, seq_length).
  rewrite (map_nth (fun j0 => rsum (map2 (fun vk row => vk * nth j0 row 0) v J))).
  now rewrite seq_nth by lia.
Qed.

Lemma jacobian_length F w : length w = length F -> length (jacobian RO F w) = length F.
Proof. intros H. unfold jacobian, map2. rewrite map_length, combine_length. lia. Qed.

(* ---------- T2: KL.grad is the derivative of KL.evaluate, given the GBS score identity -------- *)
Section Chain.
Variable F : list (list R).           (* feature matrix of the embedding *)
Variable lnZ : list R -> R.           (* log of the normalisation of the WAW state, as a function of the weights *)
Variable nbar : list R -> list R.     (* mean photon numbers of the WAW state, as a function of the weights *)
Variable cst : list R -> R.           (* parameter-independent part of log P(S): log(Haf(A_S)^2 / S!) *)

Let m := length F.
Definition wts (th : list R) := weightsR F th.
Definition jac (th : list R) := jacobian RO F (wts th).

(* log-probability of the sample S in the WAW parametrisation: P(S) = prod_k w_k^{S_k} Haf(A_S)^2 / (S! Z(w)) *)
Definition logP (w S : list R) : R := dot RO S (map ln w) - lnZ w + cst S.
(* KL.evaluate, assembled with the model's kl_eval *)
Definition klcost (data : list (list R)) (th : list R) : R :=
  kl_eval RO (map (logP (wts th)) data) (INR (length data)).

(* the score identity  d/dtheta_j log Z = sum_k <n_k>/w_k dw_k/dtheta_j  at the point th, coordinate j *)
Definition score_at (th : list R) (j : nat) : Prop :=
  is_derive (fun x => lnZ (wts (upd th j x))) (nth j th 0)
            (nth j (vecmat RO (length th) (map2 Rdiv (nbar (wts th)) (wts th)) (jac th)) 0).

Lemma wts_length th : length (wts th) = m.
Proof. apply weightsR_length. Qed.

Lemma wts_pos th k : (k < m)%nat -> 0 < nth k (wts th) 0.
Proof. intros H. unfold wts. rewrite weightsR_nth by exact H. apply exp_pos. Qed.

(* entry j of (v / w) @ jacobian, as an indexed sum with the weights cancelled *)
Lemma vdivw_jac th v j : (j < length th)%nat -> length v = m ->
  nth j (vecmat RO (length th) (map2 Rdiv v (wts th)) (jac th)) 0
  = rsum (map (fun k => - (nth k v 0 * nth j (nth k F []) 0)) (seq O m)).
Proof.
  intros Hj Hv. rewrite vecmat_nth by exact Hj.
  assert (Hl : length (map2 Rdiv v (wts th)) = m).
  { unfold map2. rewrite map_length, combine_length, wts_length. lia. }
  rewrite (map2_seq _ 0 []) by (unfold jac; rewrite jacobian_length; rewrite ?wts_length; fold m; lia).
  rewrite Hl. apply rsum_map_ext. intros k Hk. apply in_seq in Hk.
  rewrite (map2_seq _ 0 0) by (rewrite wts_length; lia). rewrite Hv.
  rewrite (nth_indep _ 0 (nth O v 0 / nth O (wts th) 0)) by (rewrite map_length, seq_length; lia).
  rewrite (map_nth (fun k0 => nth k0 v 0 / nth k0 (wts th) 0)), seq_nth by lia. cbn [Nat.add].
  unfold jac. rewrite jacobian_nth by (rewrite ?wts_length; fold m; lia).
  pose proof (wts_pos th k ltac:(lia)). field. lra.
Qed.

(* sum_k S_k ln w_k(theta) as an indexed sum of the exp arguments *)
Lemma dot_ln_wts th S : length S = m ->
  dot RO S (map ln (wts th)) = rsum (map (fun k => nth k S 0 * - dot RO (nth k F []) th) (seq O m)).
Proof.
  intros HS. unfold dot at 1. rewrite (map2_seq _ 0 0) by (rewrite map_length, wts_length; lia).
  rewrite HS. apply rsum_map_ext. intros k Hk. apply in_seq in Hk. cbn [kmul RO]. f_equal.
  rewrite (nth_indep _ 0 (ln 0)) by (rewrite map_length, wts_length; lia).
  rewrite map_nth. unfold wts. rewrite weightsR_nth by (fold m; lia). apply ln_exp.
Qed.

Lemma logP_deriv th j S (Hscore : score_at th j) : (j < length th)%nat -> length S = m -> length (nbar (wts th)) = m ->
  is_derive (fun x => logP (wts (upd th j x)) S) (nth j th 0)
    (rsum (map (fun k => - (nth k S 0 * nth j (nth k F []) 0)) (seq O m))
     - rsum (map (fun k => - (nth k (nbar (wts th)) 0 * nth j (nth k F []) 0)) (seq O m))).
Proof.
  intros Hj HS Hn. unfold logP.
  apply (is_derive_ext (fun x => rsum (map (fun k => nth k S 0 * - (dot RO (nth k F []) th + nth j (nth k F []) 0 * (x - nth j th 0))) (seq O m))
                                 - lnZ (wts (upd th j x)) + cst S)).
  { intros x. rewrite dot_ln_wts by exact HS. f_equal. f_equal. apply rsum_map_ext. intros k _.
    now rewrite dot_upd by exact Hj. }
  rewrite <- (vdivw_jac th (nbar (wts th)) j Hj Hn).
  replace (rsum (map (fun k => - (nth k S 0 * nth j (nth k F []) 0)) (seq O m)) - _)
    with (rsum (map (fun k => - (nth k S 0 * nth j (nth k F []) 0)) (seq O m))
          - nth j (vecmat RO (length th) (map2 Rdiv (nbar (wts th)) (wts th)) (jac th)) 0 + 0) by ring.
  apply (@is_derive_plus R_AbsRing R_NormedModule); [|apply (@is_derive_const R_AbsRing R_NormedModule)].
  apply (@is_derive_minus R_AbsRing R_NormedModule); [|exact Hscore].
  apply is_derive_rsum. intros k _. auto_derive; [exact I|]. ring.
Qed.

Lemma col_mean_nth T data k : (k < m)%nat ->
  nth k (col_mean RO m T data) 0 = rsum (map (fun S => nth k S 0) data) / T.
Proof.
  intros H. unfold col_mean.
  rewrite (nth_indep _ 0 ((fun k0 => rsum (map (fun S => nth k0 S 0) data) / T) O)) by (rewrite map_length, seq_length; lia).
  rewrite (map_nth (fun k0 => rsum (map (fun S => nth k0 S 0) data) / T)), seq_nth by lia. reflexivity.
Qed.

Theorem kl_chain data th j (Hscore : score_at th j) :
  (j < length th)%nat -> data <> [] -> List.Forall (fun S => length S = m) data -> length (nbar (wts th)) = m ->
  is_derive (fun x => klcost data (upd th j x)) (nth j th 0)
            (nth j (kl_grad RO (length th) (nbar (wts th)) (col_mean RO m (INR (length data)) data) (wts th) (jac th)) 0).
Proof.
  intros Hj Hne Hdata Hn.
  set (T := INR (length data)).
  assert (HT : T <> 0). { unfold T. apply not_0_INR. destruct data; [congruence|simpl; lia]. }
  set (b := fun k => nth j (nth k F []) 0).
  set (nb := nbar (wts th)) in *.
  set (Z' := rsum (map (fun k => - (nth k nb 0 * b k)) (seq O m))).
  set (dS := fun S : list R => rsum (map (fun k => - (nth k S 0 * b k)) (seq O m)) - Z').
  assert (Hd : is_derive (fun x => klcost data (upd th j x)) (nth j th 0) (- rsum (map dS data) / T)).
  { unfold klcost, kl_eval. simpl kopp; simpl kdiv. fold T.
    apply (is_derive_ext (fun x => (-1 / T) * rsum (map (logP (wts (upd th j x))) data))).
    { intros x. match goal with |- @eq _ ?a ?b => change (@eq R a b) end. field. exact HT. }
    replace (- rsum (map dS data) / T) with ((-1 / T) * rsum (map dS data)) by (field; exact HT).
    apply is_derive_scal.
    apply is_derive_rsum. intros S HS. apply logP_deriv; auto.
    rewrite List.Forall_forall in Hdata. apply Hdata, HS. }
  replace (nth j (kl_grad RO (length th) nb (col_mean RO m T data) (wts th) (jac th)) 0)
    with (- rsum (map dS data) / T); [exact Hd|].
  unfold kl_grad.
  assert (Hcm : length (col_mean RO m T data) = m) by (unfold col_mean; now rewrite map_length, seq_length).
  rewrite vdivw_jac; [|exact Hj|unfold map2; rewrite map_length, combine_length; fold nb; lia].
  (* right-hand side: sum_k -( (nb_k - mean_k) * b_k ) *)
  transitivity (rsum (map (fun k => - ((nth k nb 0 - rsum (map (fun S => nth k S 0) data) / T) * b k)) (seq O m))).
  2:{ apply rsum_map_ext. intros k Hk. apply in_seq in Hk. f_equal. f_equal.
      rewrite (map2_seq _ 0 0) by (fold nb; lia). fold nb. rewrite Hn.
      rewrite nth_map_seq by lia. cbn [ksub RO]. now rewrite col_mean_nth by lia. }
  (* left-hand side *)
  unfold dS.
  replace (rsum (map (fun S => rsum (map (fun k => - (nth k S 0 * b k)) (seq O m)) - Z') data))
    with (rsum (map (fun S => rsum (map (fun k => - (nth k S 0 * b k)) (seq O m))) data) + - (T * Z')).
  2:{ unfold T. rewrite <- (rsum_map_const Z' data).
      replace (- rsum (map (fun _ => Z') data)) with (rsum (map (fun _ : list R => -1 * Z') data)) by (rewrite rsum_map_scal; ring).
      rewrite <- rsum_map_plus. apply rsum_map_ext. intros; ring. }
  rewrite (rsum_swap (fun S k => - (nth k S 0 * b k)) data (seq O m)).
  unfold Z'.
  replace (- (rsum (map (fun k => rsum (map (fun S => - (nth k S 0 * b k)) data)) (seq O m))
              + - (T * rsum (map (fun k => - (nth k nb 0 * b k)) (seq O m)))) / T)
    with (rsum (map (fun k => (-1 / T) * rsum (map (fun S => - (nth k S 0 * b k)) data)) (seq O m))
          + rsum (map (fun k => - (nth k nb 0 * b k)) (seq O m))).
  2:{ rewrite rsum_map_scal. field. exact HT. }
  rewrite <- rsum_map_plus. apply rsum_map_ext. intros k _.
  replace (rsum (map (fun S => - (nth k S 0 * b k)) data)) with (- b k * rsum (map (fun S => nth k S 0) data)).
  2:{ rewrite <- rsum_map_scal. apply rsum_map_ext. intros; ring. }
  field. exact HT.
Qed.
(* ---------- T3: Stochastic.grad is the derivative of Stochastic.evaluate on a fixed sample set ---- *)
Variable lnZ0 : R.                    (* log of the normalisation of the initial matrix *)
(* sqrt(det(1 - O(A(theta))) / det(1 - O(A))) = Z0 / Z(w) *)
Definition detratio (w : list R) : R := exp (lnZ0 - lnZ w).
Definition hrep (th : list R) (hs : R * list nat) : R := h_reparam RO (fst hs) (detratio (wts th)) (wts th) (snd hs).
(* Stochastic.evaluate / Stochastic.grad on stored samples, each given as (h(s), s) *)
Definition stcost (samples : list (R * list nat)) (th : list R) : R :=
  scal_mean RO (INR (length samples)) (map (hrep th) samples).
Definition stgrad (samples : list (R * list nat)) (th : list R) : list R :=
  vec_mean RO (length th) (INR (length samples))
    (map (fun hs => grad_one RO (length th) (hrep th hs) (map INR (snd hs)) (nbar (wts th)) (wts th) (jac th)) samples).

Lemma kpow_exp a n : kpow RO (exp a) n = exp (INR n * a).
Proof.
  induction n as [|n IH].
  - simpl. now rewrite Rmult_0_l, exp_0.
  - change (kpow RO (exp a) (S n)) with (exp a * kpow RO (exp a) n). rewrite IH, <- exp_plus, S_INR. f_equal. ring.
Qed.

Lemma kprod_pow_exp (args : list R) (s : list nat) :
  kprod RO (map2 (kpow RO) (map exp args) s) = exp (dot RO (map INR s) args).
Proof.
  revert s; induction args as [|a args IH]; intros [|n s].
  - simpl. unfold dot, map2. simpl. now rewrite exp_0.
  - simpl. unfold dot, map2. simpl. now rewrite exp_0.
  - simpl. unfold dot, map2. simpl. now rewrite exp_0.
  - change (kprod RO (map2 (kpow RO) (map exp (a :: args)) (n :: s)))
      with (kpow RO (exp a) n * kprod RO (map2 (kpow RO) (map exp args) s)).
    change (dot RO (map INR (n :: s)) (a :: args)) with (INR n * a + dot RO (map INR s) args).
    now rewrite IH, kpow_exp, exp_plus.
Qed.

Lemma dot_args th (v : list R) : length v = m ->
  dot RO v (exp_args RO F th) = rsum (map (fun k => nth k v 0 * - dot RO (nth k F []) th) (seq O m)).
Proof.
  intros Hv. unfold dot at 1. rewrite (map2_seq _ 0 0) by (unfold exp_args; rewrite map_length; fold m; lia).
  rewrite Hv. apply rsum_map_ext. intros k Hk. apply in_seq in Hk. cbn [kmul RO]. f_equal. apply exp_args_nth.
Qed.

Lemma hrep_deriv th j hs (Hscore : score_at th j) : (j < length th)%nat -> length (snd hs) = m -> length (nbar (wts th)) = m ->
  is_derive (fun x => hrep (upd th j x) hs) (nth j th 0)
    (hrep th hs * rsum (map (fun k => - ((INR (nth k (snd hs) O) - nth k (nbar (wts th)) 0) * nth j (nth k F []) 0)) (seq O m))).
Proof.
  destruct hs as [h s]. simpl fst; simpl snd. intros Hj Hs Hn.
  set (t := nth j th 0).
  set (Z' := nth j (vecmat RO (length th) (map2 Rdiv (nbar (wts th)) (wts th)) (jac th)) 0).
  set (u2 := fun x => rsum (map (fun k => INR (nth k s O) * - (dot RO (nth k F []) th + nth j (nth k F []) 0 * (x - t))) (seq O m))).
  assert (Hform : forall th', hrep th' (h, s) = h * exp ((lnZ0 - lnZ (wts th')) + dot RO (map INR s) (exp_args RO F th'))).
  { intros th'. unfold hrep, h_reparam, detratio. simpl fst; simpl snd. cbn [kmul RO].
    unfold wts at 2, weightsR. rewrite kprod_pow_exp, exp_plus. ring. }
  assert (Hu2 : forall x, dot RO (map INR s) (exp_args RO F (upd th j x)) = u2 x).
  { intros x. rewrite dot_args by (now rewrite map_length). unfold u2. apply rsum_map_ext. intros k Hk. apply in_seq in Hk.
    rewrite dot_upd by exact Hj. fold t. f_equal.
    rewrite (nth_indep _ 0 (INR O)) by (rewrite map_length; lia). now rewrite map_nth. }
  assert (Hu2' : is_derive u2 t (rsum (map (fun k => - (INR (nth k s O) * nth j (nth k F []) 0)) (seq O m)))).
  { unfold u2. apply is_derive_rsum. intros k _.
    set (sk := INR (nth k s O)). set (a := dot RO (nth k F []) th). set (bb := nth j (nth k F []) 0).
    auto_derive; [exact I|]. ring. }
  assert (Hu1' : is_derive (fun x => lnZ0 - lnZ (wts (upd th j x))) t (- Z')).
  { replace (- Z') with (0 - Z') by ring.
    apply (@is_derive_minus R_AbsRing R_NormedModule); [apply (@is_derive_const R_AbsRing R_NormedModule)|].
    exact Hscore. }
  apply (is_derive_ext (fun x => h * exp ((lnZ0 - lnZ (wts (upd th j x))) + u2 x))).
  { intros x. now rewrite Hform, Hu2. }
  rewrite Hform.
  replace (dot RO (map INR s) (exp_args RO F th)) with (u2 t).
  2:{ rewrite <- Hu2. unfold t. now rewrite upd_self. }
  replace (lnZ (wts th)) with (lnZ (wts (upd th j t))) by (unfold t; now rewrite upd_self).
  set (u1 := fun x => lnZ0 - lnZ (wts (upd th j x))) in *.
  replace (h * exp (u1 t + u2 t) * _)
    with (h * ((- Z' + rsum (map (fun k => - (INR (nth k s O) * nth j (nth k F []) 0)) (seq O m))) * exp (u1 t + u2 t))).
  2:{ unfold Z'. rewrite (vdivw_jac th (nbar (wts th)) j Hj Hn).
      replace (- rsum (map (fun k => - (nth k (nbar (wts th)) 0 * nth j (nth k F []) 0)) (seq O m)))
        with (rsum (map (fun k => -1 * - (nth k (nbar (wts th)) 0 * nth j (nth k F []) 0)) (seq O m))) by (rewrite rsum_map_scal; ring).
      rewrite <- rsum_map_plus.
      replace (rsum (map (fun k => - ((INR (nth k s O) - nth k (nbar (wts th)) 0) * nth j (nth k F []) 0)) (seq O m)))
        with (rsum (map (fun a => -1 * - (nth a (nbar (wts th)) 0 * nth j (nth a F []) 0) + - (INR (nth a s O) * nth j (nth a F []) 0)) (seq O m))).
      - ring.
      - apply rsum_map_ext. intros; ring. }
  apply is_derive_scal.
  apply (is_derive_comp exp (fun x => u1 x + u2 x)).
  - apply is_derive_exp.
  - apply (@is_derive_plus R_AbsRing R_NormedModule); assumption.
Qed.

Lemma map_scal_div c v w : map (fun q => c * q) (map2 Rdiv v w) = map2 Rdiv (map (fun q => c * q) v) w.
Proof.
  unfold map2. revert w; induction v as [|a v IH]; intros [|b w]; simpl; try reflexivity.
  f_equal; [unfold Rdiv; ring|apply IH].
Qed.

Lemma grad_one_nth th j c (sv : list R) : (j < length th)%nat -> length sv = m -> length (nbar (wts th)) = m ->
  nth j (grad_one RO (length th) c sv (nbar (wts th)) (wts th) (jac th)) 0
  = c * rsum (map (fun k => - ((nth k sv 0 - nth k (nbar (wts th)) 0) * nth j (nth k F []) 0)) (seq O m)).
Proof.
  intros Hj Hs Hn. unfold grad_one. cbn [kmul RO kdiv RO]. rewrite map_scal_div.
  assert (Hl : length (map2 (ksub RO) sv (nbar (wts th))) = m) by (unfold map2; rewrite map_length, combine_length; lia).
  rewrite vdivw_jac by (rewrite ?map_length; auto).
  rewrite <- rsum_map_scal. apply rsum_map_ext. intros k Hk. apply in_seq in Hk.
  rewrite (nth_indep _ 0 (c * 0)) by (rewrite map_length; lia).
  rewrite (map_nth (fun q => c * q)).
  rewrite (map2_seq _ 0 0) by lia. rewrite Hs, nth_map_seq by lia. cbn [ksub RO]. ring.
Qed.

Theorem stochastic_chain samples th j (Hscore : score_at th j) :
  (j < length th)%nat -> samples <> [] -> List.Forall (fun hs => length (snd hs) = m) samples -> length (nbar (wts th)) = m ->
  is_derive (fun x => stcost samples (upd th j x)) (nth j th 0) (nth j (stgrad samples th) 0).
Proof.
  intros Hj Hne Hall Hn.
  set (N := INR (length samples)).
  assert (HN : N <> 0). { unfold N. apply not_0_INR. destruct samples; [congruence|simpl; lia]. }
  set (G := fun hs : R * list nat => hrep th hs * rsum (map (fun k => - ((INR (nth k (snd hs) O) - nth k (nbar (wts th)) 0) * nth j (nth k F []) 0)) (seq O m))).
  replace (nth j (stgrad samples th) 0) with ((1 / N) * rsum (map G samples)).
  - unfold stcost, scal_mean. cbn [kdiv RO]. fold N.
    apply (is_derive_ext (fun x => (1 / N) * rsum (map (hrep (upd th j x)) samples))).
    { intros x. match goal with |- @eq _ ?a ?b => change (@eq R a b) end. field. exact HN. }
    apply is_derive_scal. apply is_derive_rsum. intros hs Hin. apply hrep_deriv; auto.
    rewrite List.Forall_forall in Hall. apply Hall, Hin.
  - unfold stgrad, vec_mean. fold N. rewrite nth_map_seq by exact Hj. cbn [kdiv k0 RO].
    rewrite map_map.
    replace (rsum (map (fun x => nth j (grad_one RO (length th) (hrep th x) (map INR (snd x)) (nbar (wts th)) (wts th) (jac th)) 0) samples))
      with (rsum (map G samples)); [match goal with |- @eq _ ?a ?b => change (@eq R a b) end; field; exact HN|].
    apply rsum_map_ext. intros hs Hin. unfold G.
    rewrite List.Forall_forall in Hall.
    rewrite grad_one_nth by (rewrite ?map_length; auto).
    f_equal. apply rsum_map_ext. intros k Hk. apply in_seq in Hk.
    rewrite (nth_indep (map INR (snd hs)) 0 (INR O)) by (rewrite map_length, (Hall hs Hin); lia). now rewrite map_nth.
Qed.
End Chain.

(* ---------- the score identity holds for product states (the hypothesis is satisfiable) ---------- *)
(* A = diag(a): independent single-mode squeezed states, Z(w) = prod_k (1 - (w_k a_k)^2)^(-1/2),
   <n_k> = (w_k a_k)^2 / (1 - (w_k a_k)^2) *)
Definition lnZ_prod (a w : list R) : R := rsum (map2 (fun ak wk => - / 2 * ln (1 - (wk * ak) * (wk * ak))) a w).
Definition nbar_prod (a w : list R) : list R := map2 (fun ak wk => (wk * ak) * (wk * ak) / (1 - (wk * ak) * (wk * ak))) a w.

Lemma score_product F a th j : length a = length F -> (j < length th)%nat ->
  (forall k, (k < length F)%nat -> (nth k (weightsR F th) 0 * nth k a 0) * (nth k (weightsR F th) 0 * nth k a 0) < 1) ->
  score_at F (lnZ_prod a) (nbar_prod a) th j.
Proof.
  intros Ha Hj Hlt. unfold score_at.
  set (m := length F).
  assert (Hn : length (nbar_prod a (wts F th)) = m).
  { unfold nbar_prod, map2. rewrite map_length, combine_length, wts_length. fold m. lia. }
  rewrite (vdivw_jac F th (nbar_prod a (wts F th)) j Hj Hn). fold m.
  set (t := nth j th 0).
  apply (is_derive_ext (fun x => rsum (map (fun k =>
      - / 2 * ln (1 - (exp (- (dot RO (nth k F []) th + nth j (nth k F []) 0 * (x - t))) * nth k a 0)
                     * (exp (- (dot RO (nth k F []) th + nth j (nth k F []) 0 * (x - t))) * nth k a 0))) (seq O m)))).
  { intros x. unfold lnZ_prod. rewrite (map2_seq _ 0 0) by (rewrite wts_length; fold m; lia). rewrite Ha. fold m.
    apply rsum_map_ext. intros k Hk. apply in_seq in Hk. unfold wts.
    rewrite weightsR_nth by (fold m; lia). now rewrite dot_upd by exact Hj. }
  apply is_derive_rsum. intros k Hk. apply in_seq in Hk.
  assert (Hw : nth k (wts F th) 0 = exp (- dot RO (nth k F []) th)) by (unfold wts; apply weightsR_nth; fold m; lia).
  assert (Hnb : nth k (nbar_prod a (wts F th)) 0
                = (nth k (wts F th) 0 * nth k a 0) * (nth k (wts F th) 0 * nth k a 0) / (1 - (nth k (wts F th) 0 * nth k a 0) * (nth k (wts F th) 0 * nth k a 0))).
  { unfold nbar_prod. rewrite (map2_seq _ 0 0) by (rewrite wts_length; fold m; lia). rewrite Ha. fold m.
    now rewrite nth_map_seq by lia. }
  rewrite Hnb, Hw. specialize (Hlt k ltac:(fold m; lia)). fold (wts F th) in Hlt. rewrite Hw in Hlt.
  set (al := dot RO (nth k F []) th) in *. set (bb := nth j (nth k F []) 0). set (ak := nth k a 0) in *.
  auto_derive.
  - replace (al + bb * (t + - t)) with al by ring. lra.
  - replace (al + bb * (t + - t)) with al by ring. set (E := exp (- al)) in *. field. lra.
Qed.

(* ---------- T4: TimeEvolution is a product of phase rotations and conserves photon numbers ---------- *)
Lemma rgate_photons k c s (st : gstate (K := R)) i : c * c + s * s = 1 ->
  nmat (rgate RO k (c, s) st) i i = nmat st i i.
Proof.
  intros H. unfold rgate; simpl. destruct (Nat.eqb i k); [|reflexivity].
  destruct (nmat st i i) as [xr xi]. unfold cmul, cconj; simpl. f_equal.
  - replace xr with ((c * c + s * s) * xr) at 3 by (rewrite H; ring). ring.
  - replace xi with ((c * c + s * s) * xi) at 3 by (rewrite H; ring). ring.
Qed.

Lemma rgate_amp2 k c s (st : gstate (K := R)) i : c * c + s * s = 1 -> amp2 RO (rgate RO k (c, s) st) i = amp2 RO st i.
Proof.
  intros H. unfold amp2, rgate; simpl. destruct (Nat.eqb i k); [|reflexivity].
  destruct (amp st i) as [xr xi]. unfold cmul; simpl.
  replace (xr * xr + xi * xi) with ((c * c + s * s) * (xr * xr + xi * xi)) by (rewrite H; ring). ring.
Qed.

Lemma cs1 x : cos x * cos x + sin x * sin x = 1.
Proof. pose proof (sin2_cos2 x) as H. unfold Rsqr in H. lra. Qed.

Lemma run_rgates_conserve cmds : forall (st : gstate (K := R)) i,
  nmat (run_rgates RO cos sin cmds st) i i = nmat st i i /\ amp2 RO (run_rgates RO cos sin cmds st) i = amp2 RO st i.
Proof.
  induction cmds as [|[k th] cmds IH]; intros st i; [split; reflexivity|].
  unfold run_rgates in *. simpl fold_left. destruct (IH (rgate RO k (cos th, sin th) st) i) as [H1 H2].
  rewrite H1, H2. split; [apply rgate_photons, cs1|apply rgate_amp2, cs1].
Qed.

Lemma time_evolution_conserves hundred c femto twopi w t (st : gstate (K := R)) i :
  photons (run_rgates RO cos sin (time_evolution RO hundred c femto twopi w t) st) i = photons st i
  /\ amp2 RO (run_rgates RO cos sin (time_evolution RO hundred c femto twopi w t) st) i = amp2 RO st i.
Proof.
  destruct (run_rgates_conserve (time_evolution RO hundred c femto twopi w t) st i) as [H1 H2].
  unfold photons. now rewrite H1, H2.
Qed.

Lemma time_evolution_modes hundred c femto twopi w t :
  map fst (time_evolution RO hundred c femto twopi w t) = seq O (length w).
Proof.
  unfold time_evolution, te_thetas. set (f := fun wi : R => _).
  assert (H : forall (l1 : list nat) (l2 : list R), length l1 = length l2 -> map fst (combine l1 l2) = l1).
  { induction l1; intros [|y l2] Hl; simpl in *; try discriminate; auto. f_equal. apply IHl1. lia. }
  apply H. now rewrite seq_length, map_length.
Qed.

Lemma te_thetas_add hundred c femto twopi w t1 t2 :
  te_thetas RO hundred c femto twopi w (t1 + t2)
  = map2 Rplus (te_thetas RO hundred c femto twopi w t1) (te_thetas RO hundred c femto twopi w t2).
Proof.
  unfold te_thetas, map2. induction w as [|a w IH]; simpl; [reflexivity|]. f_equal; [ring|exact IH].
Qed.

Lemma te_thetas_zero hundred c femto twopi w : te_thetas RO hundred c femto twopi w 0 = map (fun _ => 0) w.
Proof. unfold te_thetas. apply map_ext. intros a. simpl. ring. Qed.

(* ---------- vibronic: the position gain applied by VibronicTransition(gbs_params(...)) ------------- *)
(* gbs_params returns r = np.log(s) for each singular value s of J; VibronicTransition applies Sgate(r), whose action
   on the position quadrature in Strawberry Fields is x -> exp(-r) x *)
Definition vib_r (s : R) : R := ln s.
Definition sgate_x_gain (r : R) : R := exp (- r).

Lemma vib_gain_inverse s : 0 < s -> sgate_x_gain (vib_r s) = / s.
Proof. intros H. unfold sgate_x_gain, vib_r. rewrite exp_Ropp, exp_ln by exact H. reflexivity. Qed.

Lemma vib_gain_refuted : exists s, 0 < s /\ sgate_x_gain (vib_r s) <> s.
Proof. exists 2. split; [lra|]. rewrite vib_gain_inverse by lra. lra. Qed.

Lemma vib_gain_only_trivial s : 0 < s -> sgate_x_gain (vib_r s) = s -> s = 1.
Proof.
  intros H. rewrite vib_gain_inverse by exact H. intros E.
  assert (s * s = 1) by (rewrite <- E at 1; field; lra). nra.
Qed.

(* ---------- discrete bookkeeping ------------------------------------------------------------- *)
(* prob_orbit_exact never hands fock_prob a pattern of the wrong length; it returns 0.0 early exactly for orbits with
   more parts than modes, and otherwise the padded pattern has one entry per mode *)
Lemma orbit_accepts_all orbit modes :
  orbit_accepts orbit modes = true
  /\ (orbit_early_zero orbit modes = true <-> (modes < length orbit)%nat)
  /\ (orbit_early_zero orbit modes = false -> length (orbit_click orbit modes) = modes).
Proof.
  unfold orbit_accepts, orbit_early_zero, orbit_click.
  destruct (Nat.ltb modes (length orbit)) eqn:E.
  - apply Nat.ltb_lt in E. repeat split; auto; discriminate.
  - apply Nat.ltb_ge in E. rewrite app_length, repeat_length.
    repeat split; try (intros; lia); try discriminate.
    apply Nat.eqb_eq. lia.
Qed.

Lemma orbit_accepts_old_iff orbit modes : orbit_accepts_old orbit modes = true <-> (length orbit <= modes)%nat.
Proof.
  unfold orbit_accepts_old, orbit_click. rewrite Nat.eqb_eq, app_length, repeat_length. lia.
Qed.

Lemma orbit_old_refuted : exists orbit modes, fold_right Nat.add O orbit = 4%nat /\ orbit_accepts_old orbit modes = false.
Proof. exists [1;1;1;1]%nat, 3%nat. split; reflexivity. Qed.

Lemma existsb_negb_forallb z : existsb negb z = negb (forallb (fun b => b) z).
Proof. induction z as [|[|] z IH]; simpl; auto. Qed.
Lemma existsb_id_forallb z : existsb (fun b => b) z = negb (forallb negb z).
Proof. induction z as [|[|] z IH]; simpl; auto. Qed.

(* every sample of vibronic.sample has one entry per mode of the 2N-mode protocol *)
Lemma sample_len_2n z : sample_len z = (2 * length z)%nat.
Proof. unfold sample_len. destruct (existsb negb z); simpl; lia. Qed.

Lemma sample_len_old_iff z : z <> [] ->
  (sample_len_old z = 2 * length z)%nat <-> (forallb (fun b => b) z = true \/ forallb negb z = true).
Proof.
  intros Hz. assert (0 < length z)%nat by (destruct z; [congruence|simpl; lia]).
  unfold sample_len_old. rewrite existsb_negb_forallb, existsb_id_forallb.
  destruct (forallb (fun b => b) z) eqn:E1, (forallb negb z) eqn:E2; simpl; split; intros; auto; try lia;
    try (exfalso; destruct z as [|[|] z']; simpl in *; congruence);
    try (match goal with H : _ \/ _ |- _ => destruct H; discriminate end).
Qed.

Lemma sample_len_old_refuted : exists z, sample_len_old z <> (2 * length z)%nat.
Proof. exists [true; false]. vm_compute. discriminate. Qed.

Lemma te_thetas_group hundred c femto twopi w t1 t2 :
  te_thetas RO hundred c femto twopi w (t1 + t2)
  = map2 Rplus (te_thetas RO hundred c femto twopi w t1) (te_thetas RO hundred c femto twopi w t2)
  /\ te_thetas RO hundred c femto twopi w 0 = map (fun _ => 0) w.
Proof. split; [apply te_thetas_add | apply te_thetas_zero]. Qed.

(* the side condition of score_product is inhabited *)
Lemma ex_product_hyp : forall k, (k < length [[1; 0]; [0; 1]])%nat ->
  (nth k (weightsR [[1; 0]; [0; 1]] [0; 0]) 0 * nth k [/ 2; / 3] 0) * (nth k (weightsR [[1; 0]; [0; 1]] [0; 0]) 0 * nth k [/ 2; / 3] 0) < 1.
Proof.
  intros k Hk. destruct k as [|[|k]]; simpl in Hk; try lia.
  - unfold weightsR, exp_args, dot, map2; simpl. replace (- (1 * 0 + (0 * 0 + 0))) with 0 by ring. rewrite exp_0. lra.
  - unfold weightsR, exp_args, dot, map2; simpl. replace (- (0 * 0 + (1 * 0 + 0))) with 0 by ring. rewrite exp_0. lra.
Qed.
