(* C20 — proofs about the model instantiated at the reals (Coquelicot derivatives). *)
From Coq Require Import Reals List Arith Lia Lra.
From Coquelicot Require Import Coquelicot.
From SFV Require Import C20.Model.
Import ListNotations.
Open Scope R_scope.

Definition RO : Ops R := mkOps R 0 1 Rplus Rmult Rminus Ropp Rdiv.

(* ExpFeatures.weights over the reals *)
Definition weightsR (F : list (list R)) (th : list R) : list R := map exp (exp_args RO F th).

(* ---------- list algebra -------------------------------------------------------------- *)
Lemma upd_self {A} (l : list A) j d : upd l j (nth j l d) = l.
Proof. revert j; induction l as [|a l IH]; intros [|j]; simpl; auto. now rewrite IH. Qed.

Lemma upd_length {A} (l : list A) j x : length (upd l j x) = length l.
Proof. revert j; induction l as [|a l IH]; intros [|j]; simpl; auto. Qed.

Lemma nth_upd_same {A} (l : list A) j x d : (j < length l)%nat -> nth j (upd l j x) d = x.
Proof. revert j; induction l as [|a l IH]; intros [|j] H; simpl in *; try lia; auto. apply IH; lia. Qed.

Lemma dot_nil_r u : dot RO u [] = 0.
Proof. unfold dot, map2. destruct u; reflexivity. Qed.

Lemma dot_cons a u b v : dot RO (a :: u) (b :: v) = a * b + dot RO u v.
Proof. reflexivity. Qed.

(* the dot product is affine in each coordinate of its second argument *)
Lemma dot_upd row th j x : (j < length th)%nat ->
  dot RO row (upd th j x) = dot RO row th + nth j row 0 * (x - nth j th 0).
Proof.
  revert row j; induction th as [|a th IH]; intros row j H; simpl in H; [lia|].
  destruct row as [|r row].
  - unfold dot, map2; simpl. destruct j; simpl; ring.
  - destruct j as [|j]; simpl upd; rewrite !dot_cons; simpl nth.
    + ring.
    + rewrite IH by lia. ring.
Qed.

Lemma exp_args_nth F th k : nth k (exp_args RO F th) 0 = - dot RO (nth k F []) th.
Proof.
  unfold exp_args. revert k; induction F as [|row F IH]; intros [|k]; simpl; auto.
  - unfold dot, map2; simpl; ring.
  - unfold dot, map2; simpl; ring.
Qed.

Lemma weightsR_length F th : length (weightsR F th) = length F.
Proof. unfold weightsR, exp_args. now rewrite !map_length. Qed.

Lemma weightsR_nth F th k : (k < length F)%nat -> nth k (weightsR F th) 0 = exp (- dot RO (nth k F []) th).
Proof.
  intros H. unfold weightsR.
  rewrite (nth_indep _ 0 (exp 0)) by (unfold exp_args; now rewrite !map_length).
  rewrite map_nth, exp_args_nth. reflexivity.
Qed.

Lemma weightsR_nth_out F th k : (length F <= k)%nat -> nth k (weightsR F th) 0 = 0.
Proof. intros H. apply nth_overflow. now rewrite weightsR_length. Qed.

Lemma jacobian_nth F w k j : (k < length F)%nat -> (k < length w)%nat ->
  nth j (nth k (jacobian RO F w) []) 0 = - nth j (nth k F []) 0 * nth k w 0.
Proof.
  unfold jacobian, map2. revert w k; induction F as [|row F IH]; intros [|wk w] [|k] H1 H2; simpl in *; try lia.
  - clear. revert j; induction row as [|f row IHr]; intros [|j]; simpl; try ring; auto.
  - apply IH; lia.
Qed.

Lemma jacobian_nth_out F w k j : (length F <= k)%nat -> nth j (nth k (jacobian RO F w) []) 0 = 0.
Proof.
  intros H. rewrite (nth_overflow (jacobian RO F w)).
  - destruct j; reflexivity.
  - unfold jacobian, map2. rewrite map_length, combine_length. lia.
Qed.

(* ---------- T1: ExpFeatures.jacobian is the derivative of ExpFeatures.weights --------------- *)
Lemma weight_deriv F th k j : (j < length th)%nat ->
  is_derive (fun x => nth k (weightsR F (upd th j x)) 0) (nth j th 0)
            (nth j (nth k (jacobian RO F (weightsR F th)) []) 0).
Proof.
  intros Hj. destruct (lt_dec k (length F)) as [Hk|Hk].
  - rewrite jacobian_nth by (rewrite ?weightsR_length; lia).
    rewrite weightsR_nth by lia.
    set (row := nth k F []). set (t := nth j th 0). set (a := dot RO row th). set (b := nth j row 0).
    apply (is_derive_ext (fun x => exp (- (a + b * (x - t))))).
    + intros x. rewrite weightsR_nth by lia. fold row. rewrite dot_upd by exact Hj. reflexivity.
    + auto_derive; [exact I|]. replace (a + b * (t + - t)) with a by ring. ring.
  - rewrite jacobian_nth_out by lia.
    apply (is_derive_ext (fun _ => 0)).
    + intros x. now rewrite weightsR_nth_out by lia.
    + apply (@is_derive_const R_AbsRing R_NormedModule).
Qed.

(* ---------- sums over lists ------------------------------------------------------------------ *)
Notation rsum := (ksum RO).

Lemma rsum_cons a l : rsum (a :: l) = a + rsum l.
Proof. reflexivity. Qed.

Lemma rsum_map_plus {A} (f g : A -> R) l : rsum (map (fun a => f a + g a) l) = rsum (map f l) + rsum (map g l).
Proof. induction l; simpl; [ring|]. change (fold_right (kadd RO) (k0 RO)) with rsum in *. rewrite IHl. ring. Qed.

Lemma rsum_map_scal {A} (c : R) (f : A -> R) l : rsum (map (fun a => c * f a) l) = c * rsum (map f l).
Proof. induction l; simpl; [ring|]. change (fold_right (kadd RO) (k0 RO)) with rsum in *. rewrite IHl. ring. Qed.

Lemma rsum_map_ext {A} (f g : A -> R) l : (forall a, In a l -> f a = g a) -> rsum (map f l) = rsum (map g l).
Proof. intros H. f_equal. apply map_ext_in, H. Qed.

Lemma rsum_map_const {A} (c : R) (l : list A) : rsum (map (fun _ => c) l) = INR (length l) * c.
Proof.
  induction l as [|a l IH]; [simpl; ring|].
  change (rsum (map (fun _ => c) (a :: l))) with (c + rsum (map (fun _ => c) l)).
  rewrite IH. change (length (a :: l)) with (S (length l)). rewrite S_INR. ring.
Qed.

Lemma rsum_swap {A B} (f : A -> B -> R) (la : list A) (lb : list B) :
  rsum (map (fun a => rsum (map (fun b => f a b) lb)) la) = rsum (map (fun b => rsum (map (fun a => f a b) la)) lb).
Proof.
  induction la as [|a la IH].
  - simpl. symmetry. rewrite (rsum_map_const 0). ring.
  - change (rsum (map (fun a0 => rsum (map (fun b => f a0 b) lb)) (a :: la)))
      with (rsum (map (fun b => f a b) lb) + rsum (map (fun a0 => rsum (map (fun b => f a0 b) lb)) la)).
    rewrite IH, <- rsum_map_plus. apply rsum_map_ext. intros b _. reflexivity.
Qed.

Lemma is_derive_rsum {A} (f : A -> R -> R) (d : A -> R) (l : list A) x :
  (forall a, In a l -> is_derive (f a) x (d a)) ->
  is_derive (fun y => rsum (map (fun a => f a y) l)) x (rsum (map d l)).
Proof.
  induction l as [|a l IH]; intros H.
  - simpl. apply (@is_derive_const R_AbsRing R_NormedModule).
  - change (is_derive (fun y => f a y + rsum (map (fun a0 => f a0 y) l)) x (d a + rsum (map d l))).
    apply (@is_derive_plus R_AbsRing R_NormedModule).
    + apply H; left; reflexivity.
    + apply IH. intros b Hb. apply H; right; exact Hb.
Qed.

(* map2 over two lists of the same length, as an indexed map *)
Lemma map2_seq {A B C} (f : A -> B -> C) (da : A) (db : B) (a : list A) (b : list B) :
  length b = length a ->
  map2 f a b = map (fun k => f (nth k a da) (nth k b db)) (seq O (length a)).
Proof.
  revert b; induction a as [|x a IH]; intros [|y b] H; simpl in H; try discriminate; [reflexivity|].
  unfold map2 in *. simpl. f_equal. rewrite <- seq_shift, map_map. apply IH. lia.
Qed.

Lemma list_as_seq {A} (da : A) (a : list A) : a = map (fun k => nth k a da) (seq O (length a)).
Proof.
  induction a as [|x a IH]; [reflexivity|]. simpl. f_equal. rewrite <- seq_shift, map_map. exact IH.
Qed.

Lemma vecmat_nth d v J j : (j < d)%nat ->
  nth j (vecmat RO d v J) 0 = rsum (map2 (fun vk row => vk * nth j row 0) v J).
Proof.
  intros H. unfold vecmat.
  rewrite (nth_indep _ 0 ((fun j0 => rsum (map2 (fun vk row => vk * nth j0 row 0) v J)) O)) by (now rewrite map_length, seq_length).
  rewrite (map_nth (fun j0 => rsum (map2 (fun vk row => vk * nth j0 row 0) v J))).
  now rewrite seq_nth by lia.
Qed.

Lemma jacobian_length F w : length w = length F -> length (jacobian RO F w) = length F.
Proof. intros H. unfold jacobian, map2. rewrite map_length, combine_length. lia. Qed.

(* ---------- T2: KL.grad is the derivative of KL.evaluate, given the GBS score identity -------- *)
Section Chain.
Variable F : list (list R).           (* feature matrix of the embedding *)
Variable lnZ : list R -> R.           (* log of the normalisation of the WAW state, as a function of the weights *)
Variable nbar : list R -> list R.     (* mean photon numbers of the WAW state, as a function of the weights *)
Variable cst : list R -> R.           (* parameter-independent part of log P(S): log(Haf(A_S)^2 / S!) *)

Let m := length F.
Definition wts (th : list R) := weightsR F th.
Definition jac (th : list R) := jacobian RO F (wts th).

(* log-probability of the sample S in the WAW parametrisation: P(S) = prod_k w_k^{S_k} Haf(A_S)^2 / (S! Z(w)) *)
Definition logP (w S : list R) : R := dot RO S (map ln w) - lnZ w + cst S.
(* KL.evaluate, assembled with the model's kl_eval *)
Definition klcost (data : list (list R)) (th : list R) : R :=
  kl_eval RO (map (logP (wts th)) data) (INR (length data)).

(* the score identity  d/dtheta_j log Z = sum_k <n_k>/w_k dw_k/dtheta_j  along coordinate lines *)
Definition score_identity : Prop := forall th j, (j < length th)%nat ->
  is_derive (fun x => lnZ (wts (upd th j x))) (nth j th 0)
            (nth j (vecmat RO (length th) (map2 Rdiv (nbar (wts th)) (wts th)) (jac th)) 0).

Lemma wts_length th : length (wts th) = m.
Proof. apply weightsR_length. Qed.

Lemma wts_pos th k : (k < m)%nat -> 0 < nth k (wts th) 0.
Proof. intros H. unfold wts. rewrite weightsR_nth by exact H. apply exp_pos. Qed.

(* entry j of (v / w) @ jacobian, as an indexed sum with the weights cancelled *)
Lemma vdivw_jac th v j : (j < length th)%nat -> length v = m ->
  nth j (vecmat RO (length th) (map2 Rdiv v (wts th)) (jac th)) 0
  = rsum (map (fun k => - (nth k v 0 * nth j (nth k F []) 0)) (seq O m)).
Proof.
  intros Hj Hv. rewrite vecmat_nth by exact Hj.
  assert (Hl : length (map2 Rdiv v (wts th)) = m).
  { unfold map2. rewrite map_length, combine_length, wts_length. lia. }
  rewrite (map2_seq _ 0 []) by (unfold jac; rewrite jacobian_length; rewrite ?wts_length; fold m; lia).
  rewrite Hl. apply rsum_map_ext. intros k Hk. apply in_seq in Hk.
  rewrite (map2_seq _ 0 0) by (rewrite wts_length; lia). rewrite Hv.
  rewrite (nth_indep _ 0 (nth O v 0 / nth O (wts th) 0)) by (rewrite map_length, seq_length; lia).
  rewrite (map_nth (fun k0 => nth k0 v 0 / nth k0 (wts th) 0)), seq_nth by lia. cbn [Nat.add].
  unfold jac. rewrite jacobian_nth by (rewrite ?wts_length; fold m; lia).
  pose proof (wts_pos th k ltac:(lia)). field. lra.
Qed.

(* sum_k S_k ln w_k(theta) as an indexed sum of the exp arguments *)
Lemma dot_ln_wts th S : length S = m ->
  dot RO S (map ln (wts th)) = rsum (map (fun k => nth k S 0 * - dot RO (nth k F []) th) (seq O m)).
Proof.
  intros HS. unfold dot. rewrite (map2_seq _ 0 0) by (rewrite map_length, wts_length; lia).
  rewrite HS. apply rsum_map_ext. intros k Hk. apply in_seq in Hk. f_equal.
  Show. rewrite (nth_indep _ 0 (ln 0)) by (rewrite map_length, wts_length; lia).
  rewrite map_nth. unfold wts. rewrite weightsR_nth by (fold m; lia). apply ln_exp.
Qed.

Lemma logP_deriv (Hscore : score_identity) th j S : (j < length th)%nat -> length S = m -> length (nbar (wts th)) = m ->
  is_derive (fun x => logP (wts (upd th j x)) S) (nth j th 0)
    (rsum (map (fun k => - (nth k S 0 * nth j (nth k F []) 0)) (seq O m))
     - rsum (map (fun k => - (nth k (nbar (wts th)) 0 * nth j (nth k F []) 0)) (seq O m))).
Proof.
  intros Hj HS Hn. unfold logP.
  apply (is_derive_ext (fun x => rsum (map (fun k => nth k S 0 * - (dot RO (nth k F []) th + nth j (nth k F []) 0 * (x - nth j th 0))) (seq O m))
                                 - lnZ (wts (upd th j x)) + cst S)).
  { intros x. rewrite dot_ln_wts by exact HS. f_equal. f_equal. apply rsum_map_ext. intros k _.
    now rewrite dot_upd by exact Hj. }
  rewrite <- (vdivw_jac th (nbar (wts th)) j Hj Hn).
  replace (rsum (map (fun k => - (nth k S 0 * nth j (nth k F []) 0)) (seq O m)) - _)
    with (rsum (map (fun k => - (nth k S 0 * nth j (nth k F []) 0)) (seq O m))
          - nth j (vecmat RO (length th) (map2 Rdiv (nbar (wts th)) (wts th)) (jac th)) 0 + 0) by ring.
  apply (@is_derive_plus R_AbsRing R_NormedModule); [|apply (@is_derive_const R_AbsRing R_NormedModule)].
  apply (@is_derive_minus R_AbsRing R_NormedModule); [|apply Hscore; exact Hj].
  apply is_derive_rsum. intros k _. auto_derive; [exact I|]. ring.
Qed.

Lemma col_mean_nth T data k : (k < m)%nat ->
  nth k (col_mean RO m T data) 0 = rsum (map (fun S => nth k S 0) data) / T.
Proof.
  intros H. unfold col_mean.
  rewrite (nth_indep _ 0 ((fun k0 => rsum (map (fun S => nth k0 S 0) data) / T) O)) by (rewrite map_length, seq_length; lia).
  rewrite (map_nth (fun k0 => rsum (map (fun S => nth k0 S 0) data) / T)), seq_nth by lia. reflexivity.
Qed.

Theorem kl_chain (Hscore : score_identity) data th j :
  (j < length th)%nat -> data <> [] -> Forall (fun S => length S = m) data -> length (nbar (wts th)) = m ->
  is_derive (fun x => klcost data (upd th j x)) (nth j th 0)
            (nth j (kl_grad RO (length th) (nbar (wts th)) (col_mean RO m (INR (length data)) data) (wts th) (jac th)) 0).
Proof.
  intros Hj Hne Hdata Hn.
  set (T := INR (length data)).
  assert (HT : T <> 0). { unfold T. apply not_0_INR. destruct data; [congruence|simpl; lia]. }
  set (b := fun k => nth j (nth k F []) 0).
  set (nb := nbar (wts th)).
  set (Z' := rsum (map (fun k => - (nth k nb 0 * b k)) (seq O m))).
  set (dS := fun S : list R => rsum (map (fun k => - (nth k S 0 * b k)) (seq O m)) - Z').
  assert (Hd : is_derive (fun x => klcost data (upd th j x)) (nth j th 0) (- rsum (map dS data) / T)).
  { unfold klcost, kl_eval. simpl kopp; simpl kdiv. fold T.
    apply (is_derive_ext (fun x => (-1 / T) * rsum (map (fun S => logP (wts (upd th j x)) S) data))).
    { intros x. field. exact HT. }
    replace (- rsum (map dS data) / T) with ((-1 / T) * rsum (map dS data)) by (field; exact HT).
    apply (@is_derive_scal R_AbsRing).
    apply is_derive_rsum. intros S HS. apply logP_deriv; auto.
    rewrite Forall_forall in Hdata. apply Hdata, HS. }
  replace (nth j (kl_grad RO (length th) nb (col_mean RO m T data) (wts th) (jac th)) 0)
    with (- rsum (map dS data) / T); [exact Hd|].
  unfold kl_grad.
  assert (Hcm : length (col_mean RO m T data) = m) by (unfold col_mean; now rewrite map_length, seq_length).
  rewrite vdivw_jac; [|exact Hj|unfold map2; rewrite map_length, combine_length; fold nb; lia].
  (* right-hand side: sum_k -( (nb_k - mean_k) * b_k ) *)
  transitivity (rsum (map (fun k => - ((nth k nb 0 - rsum (map (fun S => nth k S 0) data) / T) * b k)) (seq O m))).
  2:{ apply rsum_map_ext. intros k Hk. apply in_seq in Hk. f_equal. f_equal.
      rewrite (map2_seq _ 0 0) by (fold nb; lia). fold nb. rewrite Hn.
      rewrite (nth_indep _ 0 (nth O nb 0 - nth O (col_mean RO m T data) 0)) by (rewrite map_length, seq_length; lia).
      rewrite (map_nth (fun k0 => nth k0 nb 0 - nth k0 (col_mean RO m T data) 0)), seq_nth by lia. cbn [Nat.add].
      now rewrite col_mean_nth by lia. }
  (* left-hand side *)
  unfold dS.
  replace (rsum (map (fun S => rsum (map (fun k => - (nth k S 0 * b k)) (seq O m)) - Z') data))
    with (rsum (map (fun S => rsum (map (fun k => - (nth k S 0 * b k)) (seq O m))) data) + - (T * Z')).
  2:{ rewrite <- (rsum_map_const Z' data). fold T.
      replace (- rsum (map (fun _ => Z') data)) with (rsum (map (fun _ : list R => -1 * Z') data)) by (rewrite rsum_map_scal; ring).
      rewrite <- rsum_map_plus. apply rsum_map_ext. intros; ring. }
  rewrite (rsum_swap (fun S k => - (nth k S 0 * b k)) data (seq O m)).
  unfold Z'.
  replace (- (rsum (map (fun k => rsum (map (fun S => - (nth k S 0 * b k)) data)) (seq O m))
              + - (T * rsum (map (fun k => - (nth k nb 0 * b k)) (seq O m)))) / T)
    with (rsum (map (fun k => (-1 / T) * rsum (map (fun S => - (nth k S 0 * b k)) data)) (seq O m))
          + rsum (map (fun k => - (nth k nb 0 * b k)) (seq O m))).
  2:{ rewrite rsum_map_scal. field. exact HT. }
  rewrite <- rsum_map_plus. apply rsum_map_ext. intros k _.
  replace (rsum (map (fun S => - (nth k S 0 * b k)) data)) with (- b k * rsum (map (fun S => nth k S 0) data)).
  2:{ rewrite <- rsum_map_scal. apply rsum_map_ext. intros; ring. }
  field. exact HT.
Qed.
End Chain.
