(* C20 — model of the numeric assembly code of strawberryfields/apps/train/{embed,cost,param}.py and
   apps/qchem/{dynamics,utils}.py.  Definitions only.

   Everything is polymorphic in the scalar type through a record of operations [Ops K]; the same
   definitions are instantiated at the reals (C20/Proofs.v, theorems) and at binary64 floats
   (C20/Exec.v, executed by vm_compute against the implementation on every run).  Transcendental
   calls of the Python (np.exp, np.sqrt, np.log, **(-0.5), cos/sin) are *named inputs*: the
   model computes the argument handed to the library function and consumes its value. *)
From Coq Require Import List Arith.
Import ListNotations.

Record Ops (K : Type) := mkOps {
  k0 : K; k1 : K;
  kadd : K -> K -> K; kmul : K -> K -> K; ksub : K -> K -> K; kopp : K -> K; kdiv : K -> K -> K }.
Arguments k0 {K}. Arguments k1 {K}. Arguments kadd {K}. Arguments kmul {K}.
Arguments ksub {K}. Arguments kopp {K}. Arguments kdiv {K}.

Definition map2 {A B C} (f : A -> B -> C) (l1 : list A) (l2 : list B) : list C :=
  map (fun p => f (fst p) (snd p)) (combine l1 l2).

(* replace entry j of a vector (identity when j is out of range) *)
Fixpoint upd {A} (l : list A) (j : nat) (x : A) : list A :=
  match l, j with
  | [], _ => []
  | _ :: t, O => x :: t
  | a :: t, S j' => a :: upd t j' x
  end.

Section Model.
Context {K : Type} (o : Ops K).
Local Notation "0" := (k0 o).
Local Notation "1" := (k1 o).
Local Infix "+" := (kadd o).
Local Infix "*" := (kmul o).
Local Infix "-" := (ksub o).
Local Infix "/" := (kdiv o).
Local Notation "- x" := (kopp o x).

Definition ksum (l : list K) : K := fold_right (kadd o) 0 l.
Definition kprod (l : list K) : K := fold_right (kmul o) 1 l.
Definition dot (u v : list K) : K := ksum (map2 (kmul o) u v).
Fixpoint kpow (x : K) (n : nat) : K := match n with O => 1 | S n' => x * kpow x n' end.

(* ---- embed.py : ExpFeatures ------------------------------------------------------------ *)
(* weights(params) = np.exp(-self.features @ params): the arguments handed to np.exp *)
Definition exp_args (F : list (list K)) (th : list K) : list K := map (fun row => - (dot row th)) F.
(* jacobian(params) = -self.features * w[:, np.newaxis]   (w = the weights) *)
Definition jacobian (F : list (list K)) (w : list K) : list (list K) :=
  map2 (fun row wk => map (fun f => (- f) * wk) row) F w.

(* v @ J, J a list of rows with d columns *)
Definition vecmat (d : nat) (v : list K) (J : list (list K)) : list K :=
  map (fun j => ksum (map2 (fun vk row => vk * nth j row 0) v J)) (seq O d).

(* ---- cost.py : KL ------------------------------------------------------------------------ *)
(* self.mean_n_data = np.mean(self.data, axis=0), m = number of modes *)
Definition col_mean (m : nat) (T : K) (data : list (list K)) : list K :=
  map (fun k => ksum (map (fun S => nth k S 0) data) / T) (seq O m).
(* KL.grad: (n_diff / weights) @ jacobian, n_diff = model means - data means *)
Definition kl_grad (d : nat) (nmodel ndata w : list K) (J : list (list K)) : list K :=
  vecmat d (map2 (kdiv o) (map2 (ksub o) nmodel ndata) w) J.
(* KL.evaluate: -(sum of log P(S)) / nr_samples, logs = the values of np.log *)
Definition kl_eval (logs : list K) (T : K) : K := (- (ksum logs)) / T.

(* ---- cost.py : Stochastic ---------------------------------------------------------------- *)
(* h_reparametrized = h * dets * prod(np.power(w, sample)); sq = np.sqrt(det_num/det_den) *)
Definition h_reparam (h sq : K) (w : list K) (sample : list nat) : K :=
  (h * sq) * kprod (map2 kpow w sample).
(* _gradient_one_sample = h * (diff / w) @ jac,  diff = sample - means  (left-assoc: (h*(diff/w)) @ jac) *)
Definition grad_one (d : nat) (hrep : K) (sample nmean w : list K) (J : list (list K)) : list K :=
  vecmat d (map (fun q => hrep * q) (map2 (kdiv o) (map2 (ksub o) sample nmean) w)) J.
(* np.mean(list of vectors, axis=0) and np.mean(list of scalars) *)
Definition vec_mean (d : nat) (N : K) (vs : list (list K)) : list K :=
  map (fun j => ksum (map (fun v => nth j v 0) vs) / N) (seq O d).
Definition scal_mean (N : K) (xs : list K) : K := ksum xs / N.

(* ---- param.py : VGBS ------------------------------------------------------------------- *)
(* A(params) = W @ A_init @ W with W = np.sqrt(np.diag(w)); sw = the square roots *)
Definition waw (sw : list K) (A : list (list K)) : list (list K) :=
  map2 (fun si row => map2 (fun aij sj => (si * aij) * sj) row sw) sw A.
(* n_mean = np.sum(means by mode) *)
Definition n_mean (means : list K) : K := ksum means.
(* mean_clicks_by_mode: the (complex) determinant of the 2x2 block [[Q[k,k],Q[k,k+m]],[Q[k+m,k],Q[k+m,k+m]]],
   Q given by its real and imaginary parts *)
Definition qget (Q : list (list K)) (i j : nat) : K := nth j (nth i Q []) 0.
Definition click_dets (m : nat) (Qr Qi : list (list K)) : list (K * K) :=
  map (fun k =>
    let km := (k + m)%nat in
    let ar := qget Qr k k in let ai := qget Qi k k in
    let br := qget Qr k km in let bi := qget Qi k km in
    let cr := qget Qr km k in let ci := qget Qi km k in
    let dr := qget Qr km km in let di := qget Qi km km in
    (((ar * dr) - (ai * di)) - ((br * cr) - (bi * ci)), ((ar * di) + (ai * dr)) - ((br * ci) + (bi * cr)))) (seq O m).
(* cbar_k = 1 - det_k ** (-0.5); rs = the values of ** (-0.5) *)
Definition click_means (rs : list K) : list K := map (fun r => 1 - r) rs.

(* ---- qchem/dynamics.py : TimeEvolution -------------------------------------------------- *)
(* theta = -w * 100.0 * c * 1.0e-15 * t * (2.0 * pi); Rgate(theta[i]) | q[i] for i in range(n) *)
Definition te_thetas (hundred c femto twopi : K) (w : list K) (t : K) : list K :=
  map (fun wi => (((((- wi) * hundred) * c) * femto) * t) * twopi) w.
Definition time_evolution (hundred c femto twopi : K) (w : list K) (t : K) : list (nat * K) :=
  combine (seq O (length w)) (te_thetas hundred c femto twopi w t).

(* ---- qchem/utils.py : duschinsky ---------------------------------------------------------- *)
(* U = Lf.T @ Li ;  d = Lf.T * m**0.5 @ (ri - rf) ;  delta = d @ diag(l0inv)
   L matrices are lists of rows (3N rows, M columns); sm = m**0.5; l0inv = the diagonal *)
Definition col (j : nat) (L : list (list K)) : list K := map (fun row => nth j row 0) L.
Definition dusch_U (M : nat) (Li Lf : list (list K)) : list (list K) :=
  map (fun a => map (fun b => dot (col a Lf) (col b Li)) (seq O M)) (seq O M).
Definition dusch_d (M : nat) (Lf : list (list K)) (sm ri rf : list K) : list K :=
  map (fun a => dot (map2 (kmul o) (col a Lf) sm) (map2 (ksub o) ri rf)) (seq O M).
Definition dusch_delta (d l0inv : list K) : list K := map2 (kmul o) d l0inv.

(* ---- qchem/vibronic.py : gbs_params (the part outside the SVD) ------------------------------- *)
(* the matrix handed to np.linalg.svd: diag(wp**0.5) @ Ud @ diag(w**-0.5); swp, isw = the roots *)
Definition dusch_J (swp isw : list K) (Ud : list (list K)) : list (list K) :=
  map2 (fun a row => map2 (fun u b => (a * u) * b) row isw) swp Ud.
(* alpha = delta / np.sqrt(2) *)
Definition vib_alpha (sqrt2 : K) (delta : list K) : list K := map (fun x => x / sqrt2) delta.
(* ---- photon-number bookkeeping of a state under phase rotations (for TimeEvolution) ---------- *)
(* what photon numbers need of a state: first moments alpha_i = <a_i> and N_ij = <a_i^dag a_j>, as (re, im) pairs *)
Record gstate := mkG { amp : nat -> K * K; nmat : nat -> nat -> K * K }.
Definition cmul (a b : K * K) : K * K := ((fst a * fst b) - (snd a * snd b), (fst a * snd b) + (snd a * fst b)).
Definition cconj (a : K * K) : K * K := (fst a, - snd a).
(* Rgate(theta) | q[k] with e = (cos theta, sin theta):  a_k -> e a_k *)
Definition rgate (k : nat) (e : K * K) (s : gstate) : gstate :=
  mkG (fun i => if Nat.eqb i k then cmul e (amp s i) else amp s i)
      (fun i j => let x := nmat s i j in
                  let x := if Nat.eqb i k then cmul (cconj e) x else x in
                  if Nat.eqb j k then cmul e x else x).
Definition run_rgates (cs sn : K -> K) (cmds : list (nat * K)) (s : gstate) : gstate :=
  fold_left (fun st c => rgate (fst c) (cs (snd c), sn (snd c)) st) cmds s.
Definition photons (s : gstate) (i : nat) : K := fst (nmat s i i).
Definition amp2 (s : gstate) (i : nat) : K := (fst (amp s i) * fst (amp s i)) + (snd (amp s i) * snd (amp s i)).
End Model.

(* ---- discrete bookkeeping ------------------------------------------------------------------ *)
(* similarity.py prob_orbit_exact: click = orbit + [0] * (modes - len(orbit)); state.fock_prob raises ValueError
   unless len(click) = modes.  Python's [0] * negative = [] is the truncated subtraction of nat. *)
Definition orbit_click (orbit : list nat) (modes : nat) : list nat := orbit ++ repeat O (modes - length orbit).
(* current code: `if len(orbit) > modes: return 0.0` before the state is built *)
Definition orbit_early_zero (orbit : list nat) (modes : nat) : bool := Nat.ltb modes (length orbit).
(* true iff prob_orbit_exact returns a number (no ValueError from fock_prob) *)
Definition orbit_accepts (orbit : list nat) (modes : nat) : bool :=
  if orbit_early_zero orbit modes then true else Nat.eqb (length (orbit_click orbit modes)) modes.
(* before commit e02f624 there was no early return *)
Definition orbit_accepts_old (orbit : list nat) (modes : nat) : bool := Nat.eqb (length (orbit_click orbit modes)) modes.

(* qchem/vibronic.py sample: entries per returned sample; z_i = (t_i == 0).
   program has 2N modes if np.any(t != 0) else N; N zero columns are appended if not np.any(t != 0) *)
Definition sample_len (z : list bool) : nat :=
  let n := length z in
  let prog := if existsb negb z then 2 * n else n in
  if negb (existsb negb z) then prog + n else prog.
(* before commit a38ca99 the padding condition was np.any(t == 0) *)
Definition sample_len_old (z : list bool) : nat :=
  let n := length z in
  let prog := if existsb negb z then 2 * n else n in
  if existsb (fun b => b) z then prog + n else prog.
(* embed.py ExpFeatures.weights / jacobian: ValueError unless self.d == len(params) *)
Definition weights_guard {A} (d : nat) (th : list A) : bool := Nat.eqb d (length th).
