(* Executable instance of the C20 model at binary64 floats (used only for vm_compute
   correspondence runs; no theorem depends on this file). *)
From Coq Require Import PrimFloat List.
From SFV Require Import C20.Model.
Definition FO : Ops float := mkOps float 0%float 1%float PrimFloat.add PrimFloat.mul PrimFloat.sub PrimFloat.opp PrimFloat.div.
