(* Collation: samples_dict holds, per mode, every outcome in time order; the sample matrix has one
   column per measured mode, ascending, holding the latest outcome. *)
From Coq Require Import List Arith Bool Lia Sorted Permutation.
Import ListNotations.
From SFV Require Import C06.Model C06.ProofsSort.

Section C.
  Variable V : Type.
  Notation sdict := (sdict V).

  Lemma sd_get_append (d : sdict) m v m' :
    sd_get V (sd_append V d m v) m' = if Nat.eqb m m' then sd_get V d m' ++ [v] else sd_get V d m'.
  Proof.
    unfold sd_get. induction d as [|[k l] t IH]; simpl.
    - destruct (Nat.eqb m m'); reflexivity.
    - destruct (Nat.eqb k m) eqn:Ekm; simpl.
      + apply Nat.eqb_eq in Ekm; subst k.
        destruct (Nat.eqb m m') eqn:E; simpl; reflexivity.
      + destruct (Nat.eqb k m') eqn:Ekm'; simpl.
        * apply Nat.eqb_eq in Ekm'; subst k. rewrite Nat.eqb_sym in Ekm. rewrite Ekm. reflexivity.
        * exact IH.
  Qed.

  Lemma sd_get_fold (l : list (nat * V)) : forall (d : sdict) m,
    sd_get V (fold_left (fun d mv => sd_append V d (fst mv) (snd mv)) l d) m
    = sd_get V d m ++ map snd (filter (fun mv => Nat.eqb (fst mv) m) l).
  Proof.
    induction l as [|[k v] t IH]; intros d m; simpl.
    - rewrite app_nil_r; reflexivity.
    - rewrite IH, sd_get_append. destruct (Nat.eqb k m); simpl.
      + rewrite <- app_assoc; reflexivity.
      + reflexivity.
  Qed.

  Lemma sd_get_run_from (h : list (mcmd V)) : forall (d : sdict) m,
    sd_get V (fold_left (step V) h d) m = sd_get V d m ++ outcomes_of V h m.
  Proof.
    induction h as [|c t IH]; intros d m; simpl.
    - rewrite app_nil_r; reflexivity.
    - rewrite IH. unfold step. rewrite sd_get_fold, <- app_assoc. reflexivity.
  Qed.

  Theorem collation_dict (h : list (mcmd V)) m : sd_get V (run_cmds V h) m = outcomes_of V h m.
  Proof. unfold run_cmds. rewrite sd_get_run_from. reflexivity. Qed.

  (* invariant: keys are distinct and every entry is non-empty *)
  Definition wf (d : sdict) := NoDup (map fst d) /\ Forall (fun kv => snd kv <> []) d.

  Lemma sd_append_keys (d : sdict) m v k :
    In k (map fst (sd_append V d m v)) <-> k = m \/ In k (map fst d).
  Proof.
    induction d as [|[k' l] t IH]; simpl.
    - intuition.
    - destruct (Nat.eqb k' m) eqn:E; simpl.
      + apply Nat.eqb_eq in E; subst. intuition.
      + rewrite IH. intuition.
  Qed.

  Lemma sd_append_wf (d : sdict) m v : wf d -> wf (sd_append V d m v).
  Proof.
    intros [Hn Hf]. split.
    - induction d as [|[k l] t IH]; simpl.
      + constructor; [intros []|constructor].
      + inversion Hn as [|? ? Hnotin Hnt]; subst. inversion Hf; subst.
        destruct (Nat.eqb k m) eqn:E; simpl.
        * constructor; assumption.
        * constructor; [|apply IH; assumption].
          rewrite sd_append_keys. intros [->|Hin]; [rewrite Nat.eqb_refl in E; discriminate|contradiction].
    - induction d as [|[k l] t IH]; simpl.
      + constructor; [simpl; discriminate|constructor].
      + inversion Hn; subst. inversion Hf; subst.
        destruct (Nat.eqb k m); constructor; simpl; auto.
        intros H; apply app_eq_nil in H as [_ H]; discriminate.
  Qed.

  Lemma fold_wf (l : list (nat * V)) : forall d : sdict, wf d ->
    wf (fold_left (fun d mv => sd_append V d (fst mv) (snd mv)) l d).
  Proof. induction l as [|x t IH]; intros d H; simpl; auto. apply IH, sd_append_wf, H. Qed.

  Lemma run_wf_from (h : list (mcmd V)) : forall d : sdict, wf d -> wf (fold_left (step V) h d).
  Proof. induction h as [|c t IH]; intros d H; simpl; auto. apply IH. unfold step. apply fold_wf, H. Qed.

  Lemma run_wf h : wf (run_cmds V h).
  Proof. apply run_wf_from. split; constructor. Qed.

  Lemma sd_get_in (d : sdict) m l : NoDup (map fst d) -> In (m, l) d -> sd_get V d m = l.
  Proof.
    unfold sd_get. induction d as [|[k l'] t IH]; intros Hn Hin; simpl in *; [contradiction|].
    inversion Hn as [|? ? Hnotin Hnt]; subst.
    destruct Hin as [E|Hin].
    - inversion E; subst. rewrite Nat.eqb_refl. reflexivity.
    - destruct (Nat.eqb k m) eqn:E.
      + apply Nat.eqb_eq in E; subst. exfalso. apply Hnotin. change m with (fst (m, l)). apply in_map, Hin.
      + apply IH; assumption.
  Qed.

  Lemma in_sd_get (d : sdict) m : sd_get V d m <> [] -> In (m, sd_get V d m) d.
  Proof.
    unfold sd_get. destruct (find (fun kv => Nat.eqb (fst kv) m) d) as [[k l]|] eqn:E; simpl; [|congruence].
    intros _. apply find_some in E as [Hin Hk]. simpl in Hk. apply Nat.eqb_eq in Hk; subst. exact Hin.
  Qed.

  Lemma last_cols_in (d : sdict) m v :
    In (m, v) (last_cols V d) <-> exists l, In (m, l) d /\ lastopt V l = Some v.
  Proof.
    unfold last_cols. rewrite in_flat_map. split.
    - intros [[k l] [Hin H]]. simpl in H. destruct (lastopt V l) eqn:E; simpl in H; [|contradiction].
      destruct H as [H|[]]. inversion H; subst. exists l; auto.
    - intros [l [Hin E]]. exists (m, l). split; [exact Hin|]. simpl. rewrite E. left; reflexivity.
  Qed.

  Lemma last_cols_keys (d : sdict) : Forall (fun kv => snd kv <> []) d -> map fst (last_cols V d) = map fst d.
  Proof.
    induction 1 as [|[k l] t Hne _ IH]; simpl; [reflexivity|].
    unfold lastopt at 1. simpl in Hne. destruct (rev l) eqn:E.
    - exfalso. apply Hne. rewrite <- (rev_involutive l), E. reflexivity.
    - simpl. f_equal. exact IH.
  Qed.

  Lemma lastopt_nil_iff (l : list V) : lastopt V l = None <-> l = [].
  Proof.
    unfold lastopt. split.
    - destruct (rev l) eqn:E; [|discriminate]. intros _. rewrite <- (rev_involutive l), E. reflexivity.
    - intros ->; reflexivity.
  Qed.

  Theorem collation_samples (h : list (mcmd V)) :
    let sc := sorted_cols V (run_cmds V h) in
    StronglySorted lt (map fst sc)
    /\ forall m v, In (m, v) sc <-> lastopt V (outcomes_of V h m) = Some v.
  Proof.
    intros sc. destruct (run_wf h) as [Hn Hf]. split.
    - apply sorted_nodup_strict; [apply ksort_keys_sorted|].
      unfold sc, sorted_cols.
      eapply Permutation_NoDup; [apply Permutation_sym, Permutation_map, ksort_perm|].
      rewrite last_cols_keys by exact Hf. exact Hn.
    - intros m v. unfold sc, sorted_cols.
      assert (Hp : In (m, v) (ksort (last_cols V (run_cmds V h))) <-> In (m, v) (last_cols V (run_cmds V h))).
      { split; apply Permutation_in; [apply ksort_perm|apply Permutation_sym, ksort_perm]. }
      rewrite Hp, last_cols_in. split.
      + intros [l [Hin E]]. rewrite <- collation_dict. rewrite (sd_get_in _ _ _ Hn Hin). exact E.
      + intros E. exists (sd_get V (run_cmds V h) m). rewrite collation_dict. split; [|exact E].
        rewrite <- collation_dict. apply in_sd_get. rewrite collation_dict.
        intros H0. rewrite H0 in E. discriminate.
  Qed.
End C.
