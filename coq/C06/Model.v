(* C06 — measurements: models (definitions only).

   Part 1  sample collation: LocalEngine._run_program's samples_dict bookkeeping and
           _combine_and_sort_samples (strawberryfields/engine.py).
   Part 2  Fock photon counting: flat index <-> outcome (fockbackend/ops.py unIndex / np.ravel),
           np.argsort outcome permutation of fockbackend/circuit.py measure_fock.
   Part 3  Gaussian general-dyne measurement on one mode of an n-mode state, phrased on the
           (mean, covariance) pair in xpxp ordering and hbar = 2 units that
           gaussiancircuit.py (smean/scovmat) and bosoniccircuit.py (get_mean/get_covmat) both use:
           chop_in_blocks / reassemble (gaussianbackend/ops.py), the Schur-complement update of
           measure_dyne / post_select_homodyne / post_select_heterodyne, the bosonic
           post_select_generaldyne / post_select_homodyne / post_select_heterodyne for one peak,
           the rotation + scaling of GaussianBackend.measure_homodyne and MeasureHomodyne._apply.
           Scalars are polymorphic (a type K with field operations); random draws are explicit
           arguments and the parameters handed to numpy.random are returned by the model. *)
From Coq Require Import List Arith Bool.
Import ListNotations.

(* ------------------------------------------------------------------------------------------ *)
(* generic: sort (key, payload) pairs by key — models sorted(d.items()) and np.argsort          *)
Section KeySort.
  Context {A : Type}.
  Fixpoint kinsert (p : nat * A) (l : list (nat * A)) : list (nat * A) :=
    match l with
    | [] => [p]
    | q :: t => if fst p <=? fst q then p :: q :: t else q :: kinsert p t
    end.
  Fixpoint ksort (l : list (nat * A)) : list (nat * A) :=
    match l with
    | [] => []
    | p :: t => kinsert p (ksort t)
    end.
End KeySort.

(* ------------------------------------------------------------------------------------------ *)
(* Part 1: collation.  V = one column val[:, i] (the outcomes of all shots for one mode).       *)
Section Collation.
  Variable V : Type.

  (* insertion-ordered dict  mode -> list of columns (time order) *)
  Definition sdict := list (nat * list V).

  (* samples_dict.setdefault(m, []).append(v) *)
  Fixpoint sd_append (d : sdict) (m : nat) (v : V) : sdict :=
    match d with
    | [] => [(m, [v])]
    | (k, l) :: t => if Nat.eqb k m then (k, l ++ [v]) :: t else (k, l) :: sd_append t m v
    end.

  (* one measurement command: the modes as listed in cmd.reg and, aligned with them, the columns *)
  Definition mcmd := (list nat * list V)%type.

  Definition step (d : sdict) (c : mcmd) : sdict :=
    fold_left (fun d mv => sd_append d (fst mv) (snd mv)) (combine (fst c) (snd c)) d.

  Definition run_cmds (h : list mcmd) : sdict := fold_left step h [].

  Definition sd_get (d : sdict) (m : nat) : list V :=
    match find (fun kv => Nat.eqb (fst kv) m) d with
    | Some kv => snd kv
    | None => []
    end.

  Definition lastopt (l : list V) : option V :=
    match rev l with
    | [] => None
    | v :: _ => Some v
    end.

  (* {key: val[-1]} *)
  Definition last_cols (d : sdict) : list (nat * V) :=
    flat_map (fun kv => match lastopt (snd kv) with Some v => [(fst kv, v)] | None => [] end) d.

  (* [i for _, i in sorted(single_sample_dict.items())], keys kept for comparison *)
  Definition sorted_cols (d : sdict) : list (nat * V) := ksort (last_cols d).

  (* specification side: everything measured on mode m, in time order *)
  Definition outcomes_of (h : list mcmd) (m : nat) : list V :=
    flat_map (fun c => map snd (filter (fun mv => Nat.eqb (fst mv) m) (combine (fst c) (snd c)))) h.
End Collation.

(* np.transpose of the list of columns: row s = [col[s] for col in cols] *)
Definition transpose_cols {X} (dflt : X) (shots : nat) (cols : list (list X)) : list (list X) :=
  map (fun s => map (fun c => nth s c dflt) cols) (seq 0 shots).

(* ------------------------------------------------------------------------------------------ *)
(* Part 2: Fock outcome indexing.                                                              *)

(* ops.unIndex(i, n, trunc) = [i // trunc**(n-1-m) % trunc for m in range(n)] *)
Definition unIndex (i n t : nat) : list nat :=
  map (fun m => (i / t ^ (n - 1 - m)) mod t) (seq 0 n).

(* flat (C-order) index of a multi-index, = ops.index(lst, trunc) = what np.ravel uses *)
Fixpoint ravel (idx : list nat) (t : nat) : nat :=
  match idx with
  | [] => 0
  | d :: r => d * t ^ length r + ravel r t
  end.

(* np.argsort on distinct keys *)
Definition argsort (l : list nat) : list nat := map snd (ksort (combine l (seq 0 (length l)))).

Fixpoint set_nth {A} (l : list A) (i : nat) (x : A) : list A :=
  match l, i with
  | [], _ => []
  | _ :: t, 0 => x :: t
  | h :: t, S i' => h :: set_nth t i' x
  end.

(* outcome = [0]*n ; for i in range(n): outcome[perm[i]] = vals[i] *)
Definition scatter (perm vals : list nat) (n : nat) : list nat :=
  fold_left (fun out iv => set_nth out (fst iv) (snd iv)) (combine perm vals) (repeat 0 n).

(* measure_fock: outcome reported for `measure` (modes as listed) when np.random.choice returned
   flat index `flat` of the raveled diagonal of the reduced state (axes = measured modes ascending) *)
Definition fock_outcome (measure : list nat) (flat t : nat) : list nat :=
  scatter (argsort measure) (unIndex flat (length measure) t) (length measure).

(* number of listed modes smaller than x = position of x in ascending order *)
Definition rank (l : list nat) (x : nat) : nat := length (filter (fun y => y <? x) l).

(* The vector handed to np.random.choice(p=...): partial_trace over
   unmeasured = [i for i in range(num) if i not in measure], diagonal, np.ravel.  Only the joint
   photon-number distribution P of all `num` modes matters (the diagonal of the full state,
   raveled, length t^num).  Entry `flat` sums P over all full multi-indices whose digits at the
   kept axes (measured modes in ascending order) are unIndex flat. *)
Section FockDist.
  Variable K : Type.
  Variables (k0 : K) (kadd : K -> K -> K).
  Definition kept (num : nat) (measure : list nat) : list nat :=
    filter (fun i => existsb (Nat.eqb i) measure) (seq 0 num).
  Definition restrict (idx pos : list nat) : list nat := map (fun p => nth p idx 0) pos.
  Fixpoint nat_list_eqb (a b : list nat) : bool :=
    match a, b with
    | [], [] => true
    | x :: a', y :: b' => Nat.eqb x y && nat_list_eqb a' b'
    | _, _ => false
    end.
  Definition fock_dist (num t : nat) (measure : list nat) (P : list K) : list K :=
    let pos := kept num measure in
    map (fun flat =>
           fold_left (fun acc g =>
                        if nat_list_eqb (restrict (unIndex g num t) pos) (unIndex flat (length pos) t)
                        then kadd acc (nth g P k0) else acc)
                     (seq 0 (t ^ num)) k0)
        (seq 0 (t ^ length pos)).
End FockDist.

(* ------------------------------------------------------------------------------------------ *)
(* Part 3: general-dyne measurement of mode k.                                                 *)
Section Dyne.
  Variable K : Type.
  Variables (k0 k1 : K) (kadd kmul ksub : K -> K -> K) (kopp : K -> K) (kdiv : K -> K -> K).

  Definition mat := nat -> nat -> K.
  Definition vec := nat -> K.

  Local Notation "a + b" := (kadd a b).
  Local Notation "a * b" := (kmul a b).
  Local Notation "a - b" := (ksub a b).
  Local Notation "a / b" := (kdiv a b).

  (* expind = concatenate((2*[k], 2*[k]+1)) = [2k, 2k+1] *)
  Definition expind (k a : nat) : nat := Nat.add (Nat.mul 2 k) a.
  Definition deleted (k i : nat) : bool := Nat.eqb i (Nat.mul 2 k) || Nat.eqb i (S (Nat.mul 2 k)).
  (* np.delete(x, [2k, 2k+1]): entry i of the result is entry (skip k i) of x *)
  Definition skip (k i : nat) : nat := if Nat.ltb i (Nat.mul 2 k) then i else S (S i).
  (* position inside the chopped object of a kept global index (ind.sort(); enumerate(ind)) *)
  Definition unskip (k i : nat) : nat := if Nat.ltb i (Nat.mul 2 k) then i else Nat.sub i 2.

  (* ops.chop_in_blocks(m, expind) -> (A, B, C) *)
  Definition chopA (m : mat) (k : nat) : mat := fun i j => m (skip k i) (skip k j).
  Definition chopB (m : mat) (k : nat) : mat := fun i c => m (skip k i) (expind k c).
  Definition chopC (m : mat) (k : nat) : mat := fun a b => m (expind k a) (expind k b).
  (* ops.chop_in_blocks_vector(v, expind) -> (va, vc) *)
  Definition chop_va (v : vec) (k : nat) : vec := fun i => v (skip k i).
  Definition chop_vc (v : vec) (k : nat) : vec := fun a => v (expind k a).

  (* ops.reassemble(A, expind): zeros; kept x kept <- A; newmat[i, i] = 1 for deleted i *)
  Definition reassemble (A : mat) (k : nat) : mat :=
    fun i j => if deleted k i || deleted k j then (if Nat.eqb i j then k1 else k0)
               else A (unskip k i) (unskip k j).
  (* ops.reassemble_vector(va, expind) *)
  Definition reassemble_vec (va : vec) (k : nat) : vec :=
    fun i => if deleted k i then k0 else va (unskip k i).

  (* np.linalg.inv on a 2x2 matrix (adjugate / determinant) *)
  Definition det2 (M : mat) : K := M 0 0 * M 1 1 - M 0 1 * M 1 0.
  Definition inv2 (M : mat) : mat :=
    fun a b => match a, b with
               | 0, 0 => M 1 1 / det2 M
               | 0, _ => kopp (M 0 1) / det2 M
               | _, 0 => kopp (M 1 0) / det2 M
               | _, _ => M 0 0 / det2 M
               end.
  Definition madd (M N : mat) : mat := fun a b => M a b + N a b.

  (* np.dot(B, W): (2n-2) x 2 *)
  Definition BW (B W : mat) : mat := fun i b => B i 0 * W 0 b + B i 1 * W 1 b.
  (* A - np.dot(np.dot(B, W), B^T) *)
  Definition schur (A B W : mat) : mat :=
    fun i j => A i j - (BW B W i 0 * B j 0 + BW B W i 1 * B j 1).
  (* va + np.dot(np.dot(B, W), vm - vc) *)
  Definition cond_mean (va : vec) (B W : mat) (vm vc : vec) : vec :=
    fun i => va i + (BW B W i 0 * (vm 0 - vc 0) + BW B W i 1 * (vm 1 - vc 1)).

  (* the common update of measure_dyne / post_select_* (covariance, then mean) *)
  Definition dyne_cov (V sig : mat) (k : nat) : mat :=
    reassemble (schur (chopA V k) (chopB V k) (inv2 (madd (chopC V k) sig))) k.
  (* NB: the mean is chopped from smean() *after* fromscovmat(V1); means are untouched by
     fromscovmat, so r is the pre-measurement mean. B and C are the pre-measurement blocks. *)
  Definition dyne_mean (r : vec) (V sig : mat) (k : nat) (vm : vec) : vec :=
    reassemble_vec (cond_mean (chop_va r k) (chopB V k) (inv2 (madd (chopC V k) sig)) vm (chop_vc r k)) k.

  (* specification side: the measured 2x2 block of the pre-measurement covariance and the textbook
     conditional state on global (un-chopped) indices, W standing for (C + sigma)^-1 *)
  Definition blockC (V : mat) (k : nat) : mat := fun a b => V (Nat.add (Nat.mul 2 k) a) (Nat.add (Nat.mul 2 k) b).
  Definition textbook_cov (V W : mat) (k i j : nat) : K :=
    let x := Nat.mul 2 k in let p := S (Nat.mul 2 k) in
    V i j - (V i x * W 0 0 * V j x + V i x * W 0 1 * V j p + V i p * W 1 0 * V j x + V i p * W 1 1 * V j p).
  Definition textbook_mean (r : vec) (V W : mat) (k : nat) (m : vec) (i : nat) : K :=
    let x := Nat.mul 2 k in let p := S (Nat.mul 2 k) in
    r i + (V i x * W 0 0 * (m 0 - r x) + V i x * W 0 1 * (m 1 - r p)
           + V i p * W 1 0 * (m 0 - r x) + V i p * W 1 1 * (m 1 - r p)).

  (* parameters handed to np.random.multivariate_normal(vc, C + covmat) *)
  Definition dyne_rng_mean (r : vec) (k : nat) : vec := chop_vc r k.
  Definition dyne_rng_cov (V sig : mat) (k : nat) : mat := madd (chopC V k) sig.

  Definition vec2 (x y : K) : vec := fun a => match a with 0 => x | _ => y end.
  Definition diag2 (x y : K) : mat :=
    fun a b => match a, b with 0, 0 => x | 1, 1 => y | _, _ => k0 end.

  (* GaussianModes.homodyne / post_select_homodyne: covmat = diag(eps**2, 1/eps**2) *)
  Definition sig_hom (eps : K) : mat := diag2 (eps * eps) (k1 / (eps * eps)).
  (* covmat = identity(2) *)
  Definition sig_het : mat := diag2 k1 k1.

  (* GaussianModes.measure_dyne(covmat, [k]) with injected draw vm[0] = (d0, d1):
     returns ((new mean, new cov), (rng mean, rng cov)) *)
  Definition g_measure_dyne (r : vec) (V sig : mat) (k : nat) (d0 d1 : K) :=
    ((dyne_mean r V sig k (vec2 d0 d1), dyne_cov V sig k), (dyne_rng_mean r k, dyne_rng_cov V sig k)).

  (* GaussianModes.post_select_homodyne(k, val, eps): vm = [val, normal(vc[1], sqrt(C[1][1]))];
     d1 is that injected draw; (vc[1], C[1][1]) are the parameters whose (mean, variance) go to
     np.random.normal *)
  Definition g_post_select_homodyne (r : vec) (V : mat) (k : nat) (val eps d1 : K) :=
    ((dyne_mean r V (sig_hom eps) k (vec2 val d1), dyne_cov V (sig_hom eps) k),
     (chop_vc r k 1, chopC V k 1 1)).

  (* GaussianModes.post_select_heterodyne(k, alpha): vm = 2.0 * [Re alpha, Im alpha] *)
  Definition two : K := k1 + k1.
  Definition g_post_select_heterodyne (r : vec) (V : mat) (k : nat) (are aim : K) :=
    (dyne_mean r V sig_het k (vec2 (two * are) (two * aim)), dyne_cov V sig_het k).

  (* BosonicModes.post_select_generaldyne(covmat, [k], vals) for one peak (mean r, cov V):
     chop_in_blocks_multi / reassemble_multi have the index semantics of the Gaussian helpers
     (np.delete on axes 1,2; identity on the measured block; zeros in the measured mean) *)
  Definition b_post_select_generaldyne (r : vec) (V sig : mat) (k : nat) (vals : vec) :=
    (dyne_mean r V sig k vals, dyne_cov V sig k).
  (* the exponent and determinant from which the peak is re-weighted:
     (vals - vc)^T (C+sig)^-1 (vals - vc)  and  det(C + sig)  [times (2 pi)^2 in the code] *)
  Definition b_reweight_arg (r : vec) (V sig : mat) (k : nat) (vals : vec) : K :=
    let W := inv2 (madd (chopC V k) sig) in
    let d := fun a => vals a - chop_vc r k a in
    (d 0 * W 0 0 + d 1 * W 1 0) * d 0 + (d 0 * W 0 1 + d 1 * W 1 1) * d 1.
  Definition b_reweight_det (V sig : mat) (k : nat) : K := det2 (madd (chopC V k) sig).

  (* BosonicModes.post_select_homodyne(k, val, eps, phi=0): covmat = hbar*diag(eps^2,1/eps^2)/2
     with hbar = 2; vals = [val, 0] *)
  Definition b_post_select_homodyne (r : vec) (V : mat) (k : nat) (val eps : K) :=
    b_post_select_generaldyne r V (sig_hom eps) k (vec2 val k0).
  (* BosonicModes.post_select_heterodyne(k, v): covmat = hbar*I/2 = I; vals = [v.real, v.imag]
     (circuit level: v is in quadrature units x + i p) *)
  Definition bc_post_select_heterodyne (r : vec) (V : mat) (k : nat) (vx vp : K) :=
    b_post_select_generaldyne r V sig_het k (vec2 vx vp).
  (* BosonicBackend.measure_heterodyne(k, select=alpha), current source (after fix a15d68b):
     post_select_heterodyne(k, alpha * sqrt(2*hbar)) with the circuit's hbar = 2, i.e. 2*alpha *)
  Definition b_post_select_heterodyne (r : vec) (V : mat) (k : nat) (are aim : K) :=
    bc_post_select_heterodyne r V k (two * are) (two * aim).
  (* the backend entry point as it stood before the fix: alpha handed over unscaled.  Kept so that
     the refutation of the old behaviour stays machine-checked. *)
  Definition b_post_select_heterodyne_old (r : vec) (V : mat) (k : nat) (are aim : K) :=
    bc_post_select_heterodyne r V k are aim.

  (* GaussianModes.phase_shift(-phi, k) seen on (mean, cov): c = cos phi, s = sin phi;
     x' = c x + s p ;  p' = - s x + c p  on the quadratures (2k, 2k+1) *)
  Definition rotc (c s : K) (k i j : nat) : K :=
    if Nat.eqb i (Nat.mul 2 k) then
      (if Nat.eqb j (Nat.mul 2 k) then c else if Nat.eqb j (S (Nat.mul 2 k)) then s else k0)
    else if Nat.eqb i (S (Nat.mul 2 k)) then
      (if Nat.eqb j (Nat.mul 2 k) then kopp s else if Nat.eqb j (S (Nat.mul 2 k)) then c else k0)
    else if Nat.eqb i j then k1 else k0.
  Definition rot_vec (c s : K) (k : nat) (r : vec) : vec :=
    fun i => if Nat.eqb i (Nat.mul 2 k) then c * r (Nat.mul 2 k) + s * r (S (Nat.mul 2 k))
             else if Nat.eqb i (S (Nat.mul 2 k)) then kopp s * r (Nat.mul 2 k) + c * r (S (Nat.mul 2 k))
             else r i.
  (* row transform then column transform: R V R^T *)
  Definition rot_rows (c s : K) (k : nat) (V : mat) : mat := fun i j => rot_vec c s k (fun a => V a j) i.
  Definition rot_mat (c s : K) (k : nat) (V : mat) : mat :=
    fun i j => rot_vec c s k (fun b => rot_rows c s k V i b) j.

  (* GaussianBackend.measure_homodyne(phi, k, select) / BosonicBackend.measure_homodyne:
     rotate by -phi, val = select * 2 / sqrt(2 hbar) with q = sqrt(2*hbar) (= 2 for the circuit's
     fixed hbar = 2), post-select; result qs * q / 2 *)
  Definition backend_val (q select : K) : K := select * two / q.
  Definition backend_ret (q qs : K) : K := qs * q / two.
  Definition gb_homodyne_select (r : vec) (V : mat) (k : nat) (c s q select eps d1 : K) :=
    g_post_select_homodyne (rot_vec c s k r) (rot_mat c s k V) k (backend_val q select) eps d1.
  Definition bb_homodyne_select (r : vec) (V : mat) (k : nat) (c s q select eps : K) :=
    b_post_select_homodyne (rot_vec c s k r) (rot_mat c s k V) k (backend_val q select) eps.
  (* no select: measure_dyne on the rotated state; rng parameters of the x-quadrature *)
  Definition gb_homodyne_rng (r : vec) (V : mat) (k : nat) (c s eps : K) :=
    (dyne_rng_mean (rot_vec c s k r) k 0, dyne_rng_cov (rot_mat c s k V) (sig_hom eps) k 0 0).

  (* MeasureHomodyne._apply: s = sqrt(sf.hbar/2); select/s goes to the backend, s*result returned *)
  Definition front_select (sc select : K) : K := select / sc.
  Definition front_result (sc res : K) : K := sc * res.

  (* list <-> function conversions used only for evaluation on concrete cases *)
  Definition vec_of_list (l : list K) : vec := fun i => nth i l k0.
  Definition mat_of_list (l : list (list K)) : mat := fun i j => nth j (nth i l []) k0.
  Definition list_of_vec (d : nat) (v : vec) : list K := map v (seq 0 d).
  Definition list_of_mat (d : nat) (M : mat) : list (list K) :=
    map (fun i => map (fun j => M i j) (seq 0 d)) (seq 0 d).
End Dyne.
