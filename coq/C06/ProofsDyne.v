(* General-dyne measurement of one mode: the chop / Schur / reassemble pipeline of
   gaussiancircuit.py equals the textbook conditional state for every register size and every
   measured mode; rng parameters; Gaussian vs bosonic post-selection. *)
From Coq Require Import List Arith Bool Lia Field Ring.
Import ListNotations.
From SFV Require Import C06.Model.

(* ---------------- index handling (no field structure needed) ---------------- *)
Lemma deleted_true_iff k i : deleted k i = true <-> i = 2 * k \/ i = S (2 * k).
Proof. unfold deleted. rewrite orb_true_iff, !Nat.eqb_eq. tauto. Qed.

Lemma deleted_false_iff k i : deleted k i = false <-> i <> 2 * k /\ i <> S (2 * k).
Proof. unfold deleted. rewrite orb_false_iff, !Nat.eqb_neq. tauto. Qed.

Lemma skip_not_deleted k i : deleted k (skip k i) = false.
Proof. apply deleted_false_iff. unfold skip. destruct (Nat.ltb_spec i (2 * k)); lia. Qed.

Lemma unskip_skip k i : unskip k (skip k i) = i.
Proof.
  unfold skip, unskip. destruct (Nat.ltb_spec i (2 * k)) as [H|H].
  - apply Nat.ltb_lt in H. rewrite H. reflexivity.
  - destruct (Nat.ltb_spec (S (S i)) (2 * k)); lia.
Qed.

Lemma skip_unskip k i : deleted k i = false -> skip k (unskip k i) = i.
Proof.
  intros H. apply deleted_false_iff in H. unfold skip, unskip.
  destruct (Nat.ltb_spec i (2 * k)) as [H1|H1].
  - apply Nat.ltb_lt in H1. rewrite H1. reflexivity.
  - destruct (Nat.ltb_spec (i - 2) (2 * k)); lia.
Qed.

Lemma expind_deleted k a : a < 2 -> deleted k (expind k a) = true.
Proof. intros H. apply deleted_true_iff. unfold expind. lia. Qed.

(* every kept global index is hit exactly once: skip is a bijection onto the kept indices *)
Lemma skip_inj k i j : skip k i = skip k j -> i = j.
Proof. unfold skip. destruct (Nat.ltb_spec i (2 * k)), (Nat.ltb_spec j (2 * k)); lia. Qed.

Lemma skip_mono k i j : i < j -> skip k i < skip k j.
Proof. unfold skip. destruct (Nat.ltb_spec i (2 * k)), (Nat.ltb_spec j (2 * k)); lia. Qed.

Section D.
  Variable K : Type.
  Variables (k0 k1 : K) (kadd kmul ksub : K -> K -> K) (kopp : K -> K) (kdiv : K -> K -> K) (kinv : K -> K).
  Hypothesis Kfield : field_theory k0 k1 kadd kmul ksub kopp kdiv kinv (@eq K).
  Add Field Kf : Kfield.

  Local Notation "a + b" := (kadd a b).
  Local Notation "a * b" := (kmul a b).
  Local Notation "a - b" := (ksub a b).
  Local Notation "a / b" := (kdiv a b).
  Local Notation mat := (mat K).
  Local Notation vec := (vec K).
  Local Notation inv2 := (inv2 K kmul ksub kopp kdiv).
  Local Notation det2 := (det2 K kmul ksub).
  Local Notation madd := (madd K kadd).
  Local Notation dyne_cov := (dyne_cov K k0 k1 kadd kmul ksub kopp kdiv).
  Local Notation dyne_mean := (dyne_mean K k0 kadd kmul ksub kopp kdiv).

  (* chop then reassemble gives back the kept block and puts the vacuum on the measured mode *)
  Lemma reassemble_chopA (V : mat) k i j : deleted k i = false -> deleted k j = false ->
    reassemble K k0 k1 (chopA K V k) k i j = V i j.
  Proof.
    intros Hi Hj. unfold reassemble, chopA. rewrite Hi, Hj. simpl.
    rewrite !skip_unskip by assumption. reflexivity.
  Qed.

  Local Notation blockC := (blockC K).
  Local Notation textbook_cov := (textbook_cov K kadd kmul ksub).
  Local Notation textbook_mean := (textbook_mean K kadd kmul ksub).

  Lemma plus1 k : (2 * k + 1)%nat = S (2 * k). Proof. lia. Qed.
  Lemma plus0 k : (2 * k + 0)%nat = (2 * k)%nat. Proof. lia. Qed.

  Theorem dyne_cov_kept (V sig : mat) k i j : deleted k i = false -> deleted k j = false ->
    dyne_cov V sig k i j = textbook_cov V (inv2 (madd (blockC V k) sig)) k i j.
  Proof.
    intros Hi Hj. unfold Model.dyne_cov, reassemble. rewrite Hi, Hj. simpl orb. cbv iota.
    unfold schur, BW, chopA, chopB, chopC, Model.textbook_cov, Model.blockC, expind.
    rewrite !skip_unskip by assumption. rewrite !plus1, !plus0.
    cbv zeta. ring.
  Qed.

  Theorem dyne_cov_measured (V sig : mat) k i j : deleted k i = true \/ deleted k j = true ->
    dyne_cov V sig k i j = if Nat.eqb i j then k1 else k0.
  Proof.
    intros H. unfold Model.dyne_cov, reassemble.
    destruct H as [H|H]; rewrite H; [reflexivity|rewrite orb_true_r; reflexivity].
  Qed.

  Theorem dyne_mean_kept (r : vec) (V sig : mat) k (m : vec) i : deleted k i = false ->
    dyne_mean r V sig k m i = textbook_mean r V (inv2 (madd (blockC V k) sig)) k m i.
  Proof.
    intros Hi. unfold Model.dyne_mean, reassemble_vec. rewrite Hi.
    unfold cond_mean, BW, chop_va, chop_vc, chopB, chopC, Model.textbook_mean, Model.blockC, expind.
    rewrite !skip_unskip by assumption. rewrite !plus1, !plus0.
    cbv zeta. ring.
  Qed.

  Theorem dyne_mean_measured (r : vec) (V sig : mat) k (m : vec) i : deleted k i = true ->
    dyne_mean r V sig k m i = k0.
  Proof. intros H. unfold Model.dyne_mean, reassemble_vec. rewrite H. reflexivity. Qed.

  (* inv2 is the inverse whenever the determinant is non-zero *)
  Theorem inv2_right (M : mat) : det2 M <> k0 ->
    M 0%nat 0%nat * inv2 M 0%nat 0%nat + M 0%nat 1%nat * inv2 M 1%nat 0%nat = k1
    /\ M 0%nat 0%nat * inv2 M 0%nat 1%nat + M 0%nat 1%nat * inv2 M 1%nat 1%nat = k0
    /\ M 1%nat 0%nat * inv2 M 0%nat 0%nat + M 1%nat 1%nat * inv2 M 1%nat 0%nat = k0
    /\ M 1%nat 0%nat * inv2 M 0%nat 1%nat + M 1%nat 1%nat * inv2 M 1%nat 1%nat = k1.
  Proof.
    intros Hd. unfold Model.inv2. unfold Model.det2 in *.
    repeat split; field; exact Hd.
  Qed.

  (* parameters handed to np.random.multivariate_normal: the measured mode's marginal + sigma *)
  Theorem rng_args (r : vec) (V sig : mat) k a b :
    dyne_rng_mean K r k a = r (2 * k + a)%nat
    /\ dyne_rng_cov K kadd V sig k a b = V (2 * k + a)%nat (2 * k + b)%nat + sig a b.
  Proof. split; reflexivity. Qed.

  (* rotation entries *)
  Lemma eqb_S_n n : Nat.eqb (S n) n = false. Proof. apply Nat.eqb_neq. lia. Qed.
  Lemma eqb_n_S n : Nat.eqb n (S n) = false. Proof. apply Nat.eqb_neq. lia. Qed.

  (* homodyne at angle phi without select: the x-quadrature parameters handed to the generator are
     the mean and variance of x_phi = c x + s p of the pre-measurement state, plus eps^2 *)
  Theorem homodyne_rng_is_quadrature_marginal (r : vec) (V : mat) k (c s eps : K) :
    let x := (2 * k)%nat in let p := S (2 * k) in
    gb_homodyne_rng K k0 k1 kadd kmul kopp kdiv r V k c s eps
    = (c * r x + s * r p,
       (c * (c * V x x + s * V p x) + s * (c * V x p + s * V p p)) + eps * eps).
  Proof.
    intros x p. unfold gb_homodyne_rng, dyne_rng_mean, dyne_rng_cov, Model.madd, chop_vc, chopC, expind,
      rot_mat, rot_rows, rot_vec, sig_hom, diag2.
    rewrite !plus0. rewrite !Nat.eqb_refl. reflexivity.
  Qed.

  (* post-selected homodyne: the Gaussian and the bosonic simulators compute the same state, for
     every register size, mode, angle and value, when the Gaussian p-draw is 0 *)
  Theorem homodyne_select_agree (r : vec) (V : mat) k (c s q select eps : K) :
    bb_homodyne_select K k0 k1 kadd kmul ksub kopp kdiv r V k c s q select eps
    = fst (gb_homodyne_select K k0 k1 kadd kmul ksub kopp kdiv r V k c s q select eps k0).
  Proof. reflexivity. Qed.

  (* ... and the injected p-draw d1 enters the Gaussian result only through this term *)
  Theorem homodyne_pdraw_term (r : vec) (V : mat) k (val eps d1 : K) i : deleted k i = false ->
    let W := inv2 (madd (blockC V k) (sig_hom K k0 k1 kmul kdiv eps)) in
    fst (fst (g_post_select_homodyne K k0 k1 kadd kmul ksub kopp kdiv r V k val eps d1)) i
    = fst (fst (g_post_select_homodyne K k0 k1 kadd kmul ksub kopp kdiv r V k val eps k0)) i
      + (V i (2 * k)%nat * W 0%nat 1%nat + V i (S (2 * k)) * W 1%nat 1%nat) * d1.
  Proof.
    intros Hi W. unfold g_post_select_homodyne. simpl fst.
    rewrite !dyne_mean_kept by assumption. unfold Model.textbook_mean, vec2. fold W. cbv zeta. ring.
  Qed.

  (* post-selected heterodyne: the same value gives the same conditional state on the Gaussian and
     the bosonic simulator, for every register size, mode and value *)
  Theorem heterodyne_select_agree (r : vec) (V : mat) k (are aim : K) :
    b_post_select_heterodyne K k0 k1 kadd kmul ksub kopp kdiv r V k are aim
    = g_post_select_heterodyne K k0 k1 kadd kmul ksub kopp kdiv r V k are aim.
  Proof. reflexivity. Qed.

  (* the entry point before the fix handed alpha over unscaled: its gap to the Gaussian result on an
     unmeasured quadrature i *)
  Theorem heterodyne_select_gap_old (r : vec) (V : mat) k (are aim : K) i : deleted k i = false ->
    let W := inv2 (madd (blockC V k) (sig_het K k0 k1)) in
    fst (g_post_select_heterodyne K k0 k1 kadd kmul ksub kopp kdiv r V k are aim) i
    = fst (b_post_select_heterodyne_old K k0 k1 kadd kmul ksub kopp kdiv r V k are aim) i
      + ((V i (2 * k)%nat * W 0%nat 0%nat + V i (S (2 * k)) * W 1%nat 0%nat) * are
         + (V i (2 * k)%nat * W 0%nat 1%nat + V i (S (2 * k)) * W 1%nat 1%nat) * aim).
  Proof.
    intros Hi W. unfold g_post_select_heterodyne, b_post_select_heterodyne_old, bc_post_select_heterodyne, b_post_select_generaldyne.
    simpl fst. rewrite !dyne_mean_kept by assumption. unfold Model.textbook_mean, vec2, two. fold W. cbv zeta. ring.
  Qed.

  (* value scaling: what the backend returns for select is select; likewise at the front end *)
  Theorem backend_scaling_roundtrip (q select : K) : q <> k0 -> two K k1 kadd <> k0 ->
    backend_ret K k1 kadd kmul kdiv q (backend_val K k1 kadd kmul kdiv q select) = select.
  Proof. intros Hq H2. unfold backend_ret, backend_val, two in *. field. split; assumption. Qed.

  Theorem front_scaling_roundtrip (sc select : K) : sc <> k0 ->
    front_result K kmul sc (front_select K kdiv sc select) = select.
  Proof. intros Hs. unfold front_result, front_select. field. exact Hs. Qed.
End D.
