(* Facts about ksort (insertion sort of (key, payload) pairs by key). *)
From Coq Require Import List Arith Bool Lia Sorted Permutation.
Import ListNotations.
From SFV Require Import C06.Model.

Section S.
  Context {A : Type}.
  Implicit Types (p : nat * A) (l : list (nat * A)).

  Lemma kinsert_perm p l : Permutation (kinsert p l) (p :: l).
  Proof.
    induction l as [|q t IH]; simpl; [reflexivity|].
    destruct (fst p <=? fst q); [reflexivity|].
    rewrite IH. apply perm_swap.
  Qed.

  Lemma ksort_perm l : Permutation (ksort l) l.
  Proof.
    induction l as [|p t IH]; simpl; [constructor|].
    rewrite kinsert_perm. constructor. exact IH.
  Qed.

  Definition kle (p q : nat * A) := fst p <= fst q.

  Lemma kinsert_sorted p l : Sorted kle l -> Sorted kle (kinsert p l).
  Proof.
    induction l as [|q t IH]; intros Hs; simpl.
    - repeat constructor.
    - destruct (fst p <=? fst q) eqn:E.
      + apply Nat.leb_le in E. constructor; [exact Hs|]. constructor. exact E.
      + apply Nat.leb_gt in E. inversion Hs as [|? ? Hst Hhd]; subst.
        constructor; [apply IH; exact Hst|].
        destruct t as [|u t']; simpl.
        * constructor. unfold kle; lia.
        * destruct (fst p <=? fst u); constructor.
          -- unfold kle; lia.
          -- inversion Hhd; subst; assumption.
  Qed.

  Lemma ksort_sorted l : Sorted kle (ksort l).
  Proof. induction l as [|p t IH]; simpl; [constructor|]. apply kinsert_sorted; exact IH. Qed.

  Lemma ksort_keys_sorted l : Sorted le (map fst (ksort l)).
  Proof.
    generalize (ksort_sorted l). generalize (ksort l) as s.
    induction s as [|p t IH]; intros H; simpl; [constructor|].
    inversion H as [|? ? Hst Hhd]; subst. constructor; [apply IH; exact Hst|].
    destruct t; simpl; constructor. inversion Hhd; subst; assumption.
  Qed.

  Lemma ksort_length l : length (ksort l) = length l.
  Proof. apply Permutation_length, ksort_perm. Qed.
End S.

(* ascending without repetition is strictly ascending *)
Lemma sorted_nodup_strict (l : list nat) : Sorted le l -> NoDup l -> StronglySorted lt l.
Proof.
  intros Hs Hn. apply Sorted_StronglySorted in Hs; [|intros x y z; lia].
  induction l as [|x t IH]; [constructor|].
  inversion Hs as [|? ? Hst Hall]; subst. inversion Hn as [|? ? Hnotin Hnt]; subst.
  constructor; [apply IH; assumption|].
  rewrite Forall_forall in *. intros y Hy. specialize (Hall y Hy).
  assert (x <> y) by (intros ->; contradiction). lia.
Qed.

Lemma filter_length_perm (f : nat -> bool) (l l' : list nat) :
  Permutation l l' -> length (filter f l) = length (filter f l').
Proof.
  induction 1; simpl; auto.
  - destruct (f x); simpl; auto.
  - destruct (f x), (f y); simpl; auto.
  - congruence.
Qed.

Lemma rank_perm l l' x : Permutation l l' -> rank l x = rank l' x.
Proof. unfold rank. apply filter_length_perm. Qed.

(* in a strictly ascending list the i-th element has exactly i smaller elements *)
Lemma rank_strict_sorted (s : list nat) :
  StronglySorted lt s -> forall i, i < length s -> rank s (nth i s 0) = i.
Proof.
  induction 1 as [|x t Hst IH Hall]; intros i Hi; simpl in Hi; [lia|].
  unfold rank in *. destruct i as [|i]; simpl.
  - rewrite Nat.ltb_irrefl.
    assert (E : filter (fun y => y <? x) t = []).
    { clear -Hall. induction t as [|y t IH]; simpl; auto.
      inversion Hall; subst. destruct (y <? x) eqn:E; [apply Nat.ltb_lt in E; lia|]. auto. }
    rewrite E. reflexivity.
  - assert (Hlt : x < nth i t 0).
    { rewrite Forall_forall in Hall. apply Hall. apply nth_In. lia. }
    apply Nat.ltb_lt in Hlt. rewrite Hlt. simpl. f_equal. apply IH. lia.
Qed.
