(* Fock photon counting: unIndex inverts C-order raveling; the argsort scatter aligns the outcome
   with the modes as listed. *)
From Coq Require Import List Arith Bool Lia Sorted Permutation.
Import ListNotations.
From SFV Require Import C06.Model C06.ProofsSort.

(* ---------------- unIndex / ravel ---------------- *)

Lemma digit_mod (t i e c : nat) : t <> 0 ->
  ((i mod (t ^ e * (t * c))) / t ^ e) mod t = (i / t ^ e) mod t.
Proof.
  intros Ht. destruct (Nat.eq_dec c 0) as [->|Hc].
  - rewrite Nat.mul_0_r, Nat.mul_0_r. simpl. reflexivity.
  - assert (Hb : t ^ e <> 0) by (apply Nat.pow_nonzero; exact Ht).
    assert (Htc : t * c <> 0) by (apply Nat.neq_mul_0; split; assumption).
    rewrite Nat.mod_mul_r by assumption.
    rewrite (Nat.mul_comm (t ^ e) ((i / t ^ e) mod (t * c))).
    rewrite Nat.div_add by assumption.
    rewrite Nat.div_small by (apply Nat.mod_upper_bound; assumption).
    simpl. rewrite Nat.mod_mul_r by assumption.
    rewrite (Nat.mul_comm t). rewrite Nat.mod_add by assumption.
    apply Nat.mod_mod; assumption.
Qed.

Lemma unIndex_S i n t : t <> 0 ->
  unIndex i (S n) t = (i / t ^ n) mod t :: unIndex (i mod t ^ n) n t.
Proof.
  intros Ht. unfold unIndex. change (seq 0 (S n)) with (0 :: seq 1 n). rewrite map_cons.
  replace (S n - 1 - 0) with n by lia. f_equal.
  rewrite <- seq_shift, map_map. apply map_ext_in. intros m Hm. apply in_seq in Hm.
  replace (S n - 1 - S m) with (n - 1 - m) by lia.
  replace (t ^ n) with (t ^ (n - 1 - m) * (t * t ^ m)).
  - symmetry. apply digit_mod; exact Ht.
  - rewrite <- Nat.pow_succ_r', <- Nat.pow_add_r. f_equal. lia.
Qed.

Lemma ravel_bound idx t : Forall (fun d => d < t) idx -> ravel idx t < t ^ length idx.
Proof.
  induction 1 as [|d r Hd _ IH]; simpl; [lia|].
  assert (d * t ^ length r + t ^ length r <= t * t ^ length r); [|lia].
  replace (d * t ^ length r + t ^ length r) with ((S d) * t ^ length r) by (simpl; lia).
  apply Nat.mul_le_mono_r. lia.
Qed.

Theorem unIndex_ravel idx t : Forall (fun d => d < t) idx -> unIndex (ravel idx t) (length idx) t = idx.
Proof.
  induction 1 as [|d r Hd Hr IH]; [reflexivity|].
  assert (Ht : t <> 0) by lia.
  assert (Hb := ravel_bound r t Hr).
  assert (Hp : t ^ length r <> 0) by (apply Nat.pow_nonzero; exact Ht).
  simpl length. rewrite unIndex_S by exact Ht. simpl ravel.
  rewrite Nat.div_add_l by exact Hp. rewrite Nat.div_small by exact Hb.
  rewrite Nat.add_0_r, Nat.mod_small by exact Hd. f_equal.
  rewrite Nat.add_comm, Nat.mod_add by exact Hp. rewrite Nat.mod_small by exact Hb. exact IH.
Qed.

Lemma unIndex_length i n t : length (unIndex i n t) = n.
Proof. unfold unIndex. rewrite map_length, seq_length. reflexivity. Qed.

Theorem ravel_unIndex n : forall i t, i < t ^ n -> ravel (unIndex i n t) t = i.
Proof.
  induction n as [|n IH]; intros i t Hi.
  - simpl in *. lia.
  - destruct (Nat.eq_dec t 0) as [->|Ht]; [simpl in Hi; lia|].
    assert (Hp : t ^ n <> 0) by (apply Nat.pow_nonzero; exact Ht).
    rewrite unIndex_S by exact Ht. simpl ravel. rewrite unIndex_length.
    rewrite IH by (apply Nat.mod_upper_bound; exact Hp).
    rewrite Nat.mod_small.
    + rewrite Nat.mul_comm. symmetry. apply Nat.div_mod. exact Hp.
    + apply Nat.div_lt_upper_bound; [exact Hp|]. simpl in Hi. lia.
Qed.

Lemma unIndex_digits i n t : t <> 0 -> Forall (fun d => d < t) (unIndex i n t).
Proof.
  intros Ht. unfold unIndex. apply Forall_forall. intros d Hd. apply in_map_iff in Hd as [m [<- _]].
  apply Nat.mod_upper_bound; exact Ht.
Qed.

(* ---------------- set_nth / scatter ---------------- *)

Lemma set_nth_length {A} (l : list A) i x : length (set_nth l i x) = length l.
Proof. revert i; induction l as [|h t IH]; intros [|i]; simpl; auto. Qed.

Lemma nth_set_nth_same {A} (l : list A) i x d : i < length l -> nth i (set_nth l i x) d = x.
Proof. revert i; induction l as [|h t IH]; intros [|i] H; simpl in *; try lia; auto. apply IH; lia. Qed.

Lemma nth_set_nth_other {A} (l : list A) i j x d : i <> j -> nth j (set_nth l i x) d = nth j l d.
Proof.
  revert i j; induction l as [|h t IH]; intros [|i] [|j] H; simpl; auto; try congruence.
Qed.

Definition scat (pv : list (nat * nat)) (out : list nat) : list nat :=
  fold_left (fun out iv => set_nth out (fst iv) (snd iv)) pv out.

Lemma scat_length pv : forall out, length (scat pv out) = length out.
Proof. induction pv as [|p t IH]; intros out; simpl; auto. unfold scat in *. rewrite IH, set_nth_length; reflexivity. Qed.

Lemma scat_other pv : forall out j, ~ In j (map fst pv) -> nth j (scat pv out) 0 = nth j out 0.
Proof.
  induction pv as [|[p v] t IH]; intros out j Hj; simpl in *; auto.
  unfold scat in *. rewrite IH by tauto. apply nth_set_nth_other. tauto.
Qed.

Lemma scat_hit perm : forall vals out i,
  NoDup perm -> length vals = length perm -> i < length perm -> nth i perm 0 < length out ->
  nth (nth i perm 0) (scat (combine perm vals) out) 0 = nth i vals 0.
Proof.
  induction perm as [|p t IH]; intros vals out i Hn Hl Hi Hb; simpl in Hi; [lia|].
  destruct vals as [|v vt]; simpl in Hl; [discriminate|].
  inversion Hn as [|? ? Hnotin Hnt]; subst.
  destruct i as [|i]; simpl in *.
  - fold (scat (combine t vt) (set_nth out p v)).
    rewrite scat_other.
    + apply nth_set_nth_same; exact Hb.
    + intros H. apply Hnotin. clear -H. revert vt H. induction t as [|a t IH]; intros [|b vt] H; simpl in *; try contradiction.
      destruct H as [->|H]; [left; reflexivity|right; eapply IH; exact H].
  - fold (scat (combine t vt) (set_nth out p v)). apply IH; try lia; auto.
    rewrite set_nth_length; exact Hb.
Qed.

(* ---------------- argsort ---------------- *)

Lemma combine_seq_in (l : list nat) : forall s v j, In (v, j) (combine l (seq s (length l))) ->
  s <= j < s + length l /\ nth (j - s) l 0 = v.
Proof.
  induction l as [|x t IH]; intros s v j H; simpl in *; [contradiction|].
  destruct H as [E|H].
  - inversion E; subst. split; [lia|]. rewrite Nat.sub_diag. reflexivity.
  - apply IH in H as [Hr Hv]. split; [lia|]. replace (j - s) with (S (j - S s)) by lia. exact Hv.
Qed.

Lemma map_fst_combine_seq (l : list nat) s : map fst (combine l (seq s (length l))) = l.
Proof. revert s; induction l as [|x t IH]; intros s; simpl; auto. f_equal; apply IH. Qed.

Lemma map_snd_combine_seq (l : list nat) s : map snd (combine l (seq s (length l))) = seq s (length l).
Proof. revert s; induction l as [|x t IH]; intros s; simpl; auto. f_equal; apply IH. Qed.

Lemma argsort_perm l : Permutation (argsort l) (seq 0 (length l)).
Proof.
  unfold argsort. rewrite <- (map_snd_combine_seq l 0) at 2. apply Permutation_map, ksort_perm.
Qed.

Lemma argsort_length l : length (argsort l) = length l.
Proof. rewrite (Permutation_length (argsort_perm l)). apply seq_length. Qed.

(* the i-th entry of argsort points at the element of rank i *)
Lemma argsort_rank l : NoDup l -> forall i, i < length l ->
  nth i (argsort l) 0 < length l /\ rank l (nth (nth i (argsort l) 0) l 0) = i.
Proof.
  intros Hn i Hi.
  set (s := ksort (combine l (seq 0 (length l)))).
  assert (Hlen : length s = length l).
  { unfold s. rewrite ksort_length, combine_length, seq_length. lia. }
  assert (Hperm : Permutation s (combine l (seq 0 (length l)))) by apply ksort_perm.
  assert (Hin : In (nth i s (0, 0)) s) by (apply nth_In; lia).
  destruct (nth i s (0, 0)) as [v j] eqn:E.
  apply (Permutation_in _ Hperm) in Hin. apply combine_seq_in in Hin as [Hj Hv].
  rewrite Nat.sub_0_r in Hv.
  assert (Hj' : nth i (argsort l) 0 = j).
  { unfold argsort. fold s. change 0 with (snd (0, 0)) at 1. rewrite map_nth, E. reflexivity. }
  rewrite Hj'. split; [lia|]. rewrite Hv.
  assert (Hkeys : Permutation (map fst s) l).
  { rewrite <- (map_fst_combine_seq l 0). apply Permutation_map, Hperm. }
  rewrite <- (rank_perm _ _ v Hkeys).
  assert (Hv' : v = nth i (map fst s) 0).
  { change 0 with (fst (0, 0)) at 1. rewrite map_nth, E. reflexivity. }
  rewrite Hv'. apply rank_strict_sorted.
  - apply sorted_nodup_strict; [apply ksort_keys_sorted|].
    eapply Permutation_NoDup; [apply Permutation_sym, Hkeys|exact Hn].
  - rewrite map_length; lia.
Qed.

Theorem fock_outcome_order (measure : list nat) (flat t : nat) :
  NoDup measure -> forall j, j < length measure ->
  nth j (fock_outcome measure flat t) 0
  = nth (rank measure (nth j measure 0)) (unIndex flat (length measure) t) 0.
Proof.
  intros Hn j Hj. unfold fock_outcome, scatter.
  set (n := length measure). set (perm := argsort measure). set (vals := unIndex flat n t).
  assert (Hpl : length perm = n) by apply argsort_length.
  assert (Hpp : Permutation perm (seq 0 n)) by apply argsort_perm.
  assert (Hnd : NoDup perm) by (eapply Permutation_NoDup; [apply Permutation_sym, Hpp|apply seq_NoDup]).
  assert (Hjin : In j perm) by (apply (Permutation_in _ (Permutation_sym Hpp)), in_seq; lia).
  destruct (In_nth _ _ 0 Hjin) as [i [Hi Hij]].
  destruct (argsort_rank measure Hn i ltac:(lia)) as [_ Hr]. fold perm in Hr. rewrite Hij in Hr.
  rewrite Hr. rewrite <- Hij.
  change (fold_left (fun out iv => set_nth out (fst iv) (snd iv)) (combine perm vals) (repeat 0 n))
    with (scat (combine perm vals) (repeat 0 n)).
  apply scat_hit; auto.
  - unfold vals. rewrite unIndex_length. lia.
  - rewrite repeat_length, Hij. exact Hj.
Qed.

(* the outcome list has one entry per listed mode *)
Lemma fock_outcome_length measure flat t : length (fock_outcome measure flat t) = length measure.
Proof. unfold fock_outcome, scatter. fold (scat (combine (argsort measure) (unIndex flat (length measure) t)) (repeat 0 (length measure))). rewrite scat_length, repeat_length. reflexivity. Qed.
