(* Execution-only: the models of C06/Model.v instantiated at binary64 (PrimFloat) so that
   tools/props/c06.py can evaluate them with vm_compute on the very inputs given to the
   implementation.  No theorem depends on this file. *)
From Coq Require Import List Arith PrimFloat.
Import ListNotations.
From SFV Require Import C06.Model.

Definition F := float.
Definition fz : F := 0%float.
Definition fo : F := 1%float.

Definition fout (d : nat) (st : vec F * mat F) (extra : list F) : list F * list (list F) * list F :=
  (list_of_vec F d (fst st), list_of_mat F d (snd st), extra).

Definition vl := vec_of_list F fz.
Definition ml := mat_of_list F fz.

(* GaussianBackend.measure_homodyne(phi, k, select=...) *)
Definition x_g_hom_sel (d : nat) (r : list F) (V : list (list F)) (k : nat) (c s q sel eps d1 : F) :=
  let g := gb_homodyne_select F fz fo add mul sub opp div (vl r) (ml V) k c s q sel eps d1 in
  fout d (fst g) [fst (snd g); snd (snd g)].

(* GaussianBackend.measure_homodyne(phi, k) with injected draw: rotate, then measure_dyne *)
Definition x_g_hom_sample (d : nat) (r : list F) (V : list (list F)) (k : nat) (c s eps d0 d1 : F) :=
  let r' := rot_vec F add mul opp c s k (vl r) in
  let V' := rot_mat F add mul opp c s k (ml V) in
  let sg := sig_hom F fz fo mul div eps in
  let g := g_measure_dyne F fz fo add mul sub opp div r' V' sg k d0 d1 in
  fout d (fst g) [fst (snd g) 0; fst (snd g) 1; snd (snd g) 0 0; snd (snd g) 0 1; snd (snd g) 1 0; snd (snd g) 1 1].

Definition x_g_het_sel (d : nat) (r : list F) (V : list (list F)) (k : nat) (are aim : F) :=
  fout d (g_post_select_heterodyne F fz fo add mul sub opp div (vl r) (ml V) k are aim) [].

Definition x_g_het_sample (d : nat) (r : list F) (V : list (list F)) (k : nat) (d0 d1 : F) :=
  let g := g_measure_dyne F fz fo add mul sub opp div (vl r) (ml V) (sig_het F fz fo) k d0 d1 in
  fout d (fst g) [fst (snd g) 0; fst (snd g) 1; snd (snd g) 0 0; snd (snd g) 0 1; snd (snd g) 1 0; snd (snd g) 1 1].

(* bosonic, one peak *)
Definition x_b_hom_sel (d : nat) (r : list F) (V : list (list F)) (k : nat) (c s q sel eps : F) :=
  fout d (bb_homodyne_select F fz fo add mul sub opp div (vl r) (ml V) k c s q sel eps) [].

Definition x_b_het_sel (d : nat) (r : list F) (V : list (list F)) (k : nat) (are aim : F) :=
  fout d (b_post_select_heterodyne F fz fo add mul sub opp div (vl r) (ml V) k are aim) [].

(* BosonicModes.post_select_generaldyne(sig, [k], vals) for one peak + re-weighting ingredients *)
Definition x_b_gendyne (d : nat) (r : list F) (V : list (list F)) (sg : list (list F)) (k : nat) (v0 v1 : F) :=
  let vals := vec2 F v0 v1 in
  fout d (b_post_select_generaldyne F fz fo add mul sub opp div (vl r) (ml V) (ml sg) k vals)
       [b_reweight_arg F add mul sub opp div (vl r) (ml V) (ml sg) k vals;
        b_reweight_det F add mul sub (ml V) (ml sg) k;
        dyne_rng_mean F (vl r) k 0; dyne_rng_mean F (vl r) k 1;
        dyne_rng_cov F add (ml V) (ml sg) k 0 0; dyne_rng_cov F add (ml V) (ml sg) k 0 1;
        dyne_rng_cov F add (ml V) (ml sg) k 1 0; dyne_rng_cov F add (ml V) (ml sg) k 1 1].

(* Fock: probability vector for np.random.choice and reported outcome *)
Definition x_fock (num t : nat) (measure : list nat) (P : list F) (flat : nat) :=
  (fock_dist F fz add num t measure P, fock_outcome measure flat t).
