(* Witnesses over the rationals (Qc): the field hypotheses are satisfiable, and the model of the bosonic post-selected
   heterodyne as it stood before fix a15d68b disagrees with the Gaussian one on a concrete two-mode state. *)
From Coq Require Import List Arith QArith Qcanon.
Import ListNotations.
From SFV Require Import C06.Model.

Definition qa : Qc := Q2Qc (5 # 3).
Definition qc : Qc := Q2Qc (4 # 3).
(* two-mode squeezed vacuum with cosh 2r = 5/3, sinh 2r = 4/3 (xpxp ordering, hbar = 2) *)
Definition Vw : mat Qc :=
  mat_of_list Qc 0%Qc [[qa; 0%Qc; qc; 0%Qc]; [0%Qc; qa; 0%Qc; (- qc)%Qc];
                       [qc; 0%Qc; qa; 0%Qc]; [0%Qc; (- qc)%Qc; 0%Qc; qa]].
Definition rw : vec Qc := fun _ => 0%Qc.

Definition g_het := g_post_select_heterodyne Qc 0%Qc 1%Qc Qcplus Qcmult Qcminus Qcopp Qcdiv.
Definition b_het_old := b_post_select_heterodyne_old Qc 0%Qc 1%Qc Qcplus Qcmult Qcminus Qcopp Qcdiv.

Lemma het_gauss_value : this (fst (g_het rw Vw 0%nat 1%Qc 0%Qc) 2%nat) = (1 # 1)%Q.
Proof. vm_compute. reflexivity. Qed.
Lemma het_bos_value : this (fst (b_het_old rw Vw 0%nat 1%Qc 0%Qc) 2%nat) = (1 # 2)%Q.
Proof. vm_compute. reflexivity. Qed.

Theorem heterodyne_select_old_refuted :
  exists (r : vec Qc) (V : mat Qc) (k : nat) (are aim : Qc) (i : nat),
    fst (g_het r V k are aim) i <> fst (b_het_old r V k are aim) i.
Proof.
  exists rw, Vw, 0%nat, 1%Qc, 0%Qc, 2%nat. intros H.
  apply (f_equal this) in H. rewrite het_gauss_value, het_bos_value in H. discriminate.
Qed.

(* the field hypotheses of ProofsDyne are inhabited (rationals), and the determinant side
   condition holds on the witness state *)
Definition Qc_is_field := Qcft.
Lemma witness_det_nonzero :
  det2 Qc Qcmult Qcminus (madd Qc Qcplus (chopC Qc Vw 0%nat) (sig_het Qc 0%Qc 1%Qc)) <> 0%Qc.
Proof. intros H. apply (f_equal this) in H. vm_compute in H. discriminate. Qed.
