(* C17 — rectangular()/triangular()/rectangular_MZ(): nulling order + unitarity of the blocks combined. *)
From Coq Require Import List Arith Bool Lia Ring.
From SFV Require Import C17.Model C17.Alg C17.Sched.
Import ListNotations.

Section Main.
Context {K : Type} {O : Ops K}.
Hypothesis Kring : ring_theory k0 k1 kadd kmul ksub kopp (@eq K).

Lemma T_blocks_unitary : forall ss (ts : list (tparam K)), Forall trig ts -> Forall unitary2 (map2 T_block ss ts).
Proof.
  induction ss as [|s ss IH]; intros ts H; [constructor|].
  destruct ts as [|t ts]; [constructor|]. inversion H; subst. cbn [map2]. constructor; [|apply IH; assumption].
  unfold T_block. destruct (sd s); [apply (Ti_unitary Kring)|apply (T_unitary Kring)]; assumption.
Qed.

Lemma MZ_blocks_unitary : forall h ss (ts : list (mzparam K)), kadd h h = k1 ->
  Forall (fun t => unit_c (mu t) /\ unit_c (mw t)) ts -> Forall unitary2 (map2 (MZ_block h) ss ts).
Proof.
  intros h. induction ss as [|s ss IH]; intros ts Hh H; [constructor|].
  destruct ts as [|t ts]; [constructor|]. inversion H as [|? ? [Hu Hw] H']; subst. cbn [map2]. constructor; [|apply IH; assumption].
  unfold MZ_block. destruct (sd s); [apply (MZi_unitary Kring)|apply (MZ_unitary Kring)]; assumption.
Qed.

Theorem rectangular_partial :
  forall (n : nat) (ts : list (tparam K)) (V : matrix K),
    Forall trig ts ->
    valid n (rect_schedule n) (map2 T_block (rect_schedule n) ts) V ->
    let D := run n (rect_schedule n) (map2 T_block (rect_schedule n) ts) V in
    (forall r c, c < r -> r < n -> D r c = C0) /\
    (forall r c, unrun n (rect_schedule n) (map2 T_block (rect_schedule n) ts) D r c = V r c).
Proof.
  intros n ts V Ht Hv D. split.
  - intros r c Hc Hr. apply (rect_nulls Kring); assumption.
  - intros r c. apply (unrun_run Kring). apply T_blocks_unitary; assumption.
Qed.

Theorem triangular_partial :
  forall (n : nat) (ts : list (tparam K)) (V : matrix K),
    Forall trig ts ->
    valid n (tri_schedule n) (map2 T_block (tri_schedule n) ts) V ->
    let D := run n (tri_schedule n) (map2 T_block (tri_schedule n) ts) V in
    (forall r c, c < r -> r < n -> D r c = C0) /\
    (forall r c, unrun n (tri_schedule n) (map2 T_block (tri_schedule n) ts) D r c = V r c).
Proof.
  intros n ts V Ht Hv D. split.
  - intros r c Hc Hr. apply (tri_nulls Kring); assumption.
  - intros r c. apply (unrun_run Kring). apply T_blocks_unitary; assumption.
Qed.

Theorem rectangular_MZ_partial :
  forall (n : nat) (h : K) (ts : list (mzparam K)) (V : matrix K),
    kadd h h = k1 -> Forall (fun t => unit_c (mu t) /\ unit_c (mw t)) ts ->
    valid n (rect_schedule n) (map2 (MZ_block h) (rect_schedule n) ts) V ->
    let D := run n (rect_schedule n) (map2 (MZ_block h) (rect_schedule n) ts) V in
    (forall r c, c < r -> r < n -> D r c = C0) /\
    (forall r c, unrun n (rect_schedule n) (map2 (MZ_block h) (rect_schedule n) ts) D r c = V r c).
Proof.
  intros n h ts V Hh Ht Hv D. split.
  - intros r c Hc Hr. apply (rect_nulls Kring); assumption.
  - intros r c. apply (unrun_run Kring). apply MZ_blocks_unitary; assumption.
Qed.

End Main.
