(* C17 — rectangular_phase_end / rectangular_symmetric: pushing the T^{-1} (resp. MZ^{-1}) elements
   through the diagonal.  2x2 identity  T^{-1} D = D' T'  lifted to n x n operators and to the
   whole list, for every size and every list of elements. *)
From Coq Require Import List Arith Bool Lia Ring.
From SFV Require Import C17.Model C17.Alg.
Import ListNotations.

Section PhaseEnd.
Context {K : Type} {O : Ops K}.
Hypothesis Kring : ring_theory k0 k1 kadd kmul ksub kopp (@eq K).
Add Ring KR2 : Kring.
Add Ring CR2 : (C_ring Kring).

Notation C := (C K).
Notation matrix := (matrix K).

Hint Rewrite (@Cscale_Cre K O Kring) (@Cconj_mul K O Kring) (@Cconj_add K O Kring) (@Cconj_sub K O Kring)
     (@Cconj_opp K O Kring) (@Cconj_Cre K O Kring) (@Cconj_conj K O Kring) (@Cconj_Ci K O Kring)
     (@Cconj_C1 K O Kring) (@Cconj_C0 K O Kring) (@Cre_opp K O Kring) (@Cre_0 K O Kring) (@Cre_1 K O Kring) : cxp.

Lemma rowop_ext : forall n p q (X Y : matrix),
  (forall r c, X r c = Y r c) -> forall r c, rowop n p q X r c = rowop n p q Y r c.
Proof. intros. rewrite !rowop_spec. rewrite !H. reflexivity. Qed.

Lemma unit_opp_mul_conj : forall b e : C, unit_c b -> unit_c e -> unit_c (Copp (Cmul b (Cconj e))).
Proof.
  unfold unit_c. intros b e Hb He. autorewrite with cxp.
  transitivity (Cmul (Cmul b (Cconj b)) (Cmul e (Cconj e))); [ring|]. rewrite Hb, He. ring.
Qed.

Lemma upd_unit : forall (d : nat -> C) k v, (forall i, unit_c (d i)) -> unit_c v -> forall i, unit_c (upd d k v i).
Proof. intros. unfold upd. destruct (i =? k); auto. Qed.

(* ---- T elements ---- *)
Lemma push_T_rowop : forall n p t (d : nat -> C) (X : matrix), unit_c (d (S p)) ->
  forall r c,
    rowop n p (adj (T_coef t)) (rowscale d X) r c =
    rowscale (upd (upd d p (snd (fst (push_T t (d p) (d (S p)))))) (S p) (snd (push_T t (d p) (d (S p)))))
             (rowop n p (T_coef (fst (fst (push_T t (d p) (d (S p)))))) X) r c.
Proof.
  intros n p [cc ss e] d X Hb r c. unfold unit_c in Hb.
  unfold push_T; cbn [fst snd pc ps pe]. unfold rowscale. rewrite !rowop_spec. unfold upd.
  set (a := d p) in *. set (b := d (S p)) in *.
  destruct (r =? p) eqn:E1.
  - apply Nat.eqb_eq in E1; subst r. rewrite (neq_S p) || idtac.
    replace (p =? S p) with false by (symmetry; apply Nat.eqb_neq; lia). rewrite ?Nat.eqb_refl.
    unfold adj, T_coef; cbn [qa qb qc qd pc ps pe]. autorewrite with cxp.
    transitivity (Cadd (Cmul (Cmul (Cmul a (Cconj e)) (Cre cc)) (Cmul (Cmul b (Cconj b)) (X p c)))
                       (Cmul (Cmul b (Cconj e)) (Cmul (Cre ss) (X (S p) c)))); [rewrite Hb; ring | ring].
  - destruct (r =? S p) eqn:E2.
    + apply Nat.eqb_eq in E2; subst r.
      unfold adj, T_coef; cbn [qa qb qc qd pc ps pe]. autorewrite with cxp.
      transitivity (Cadd (Cmul (Copp (Cmul (Cre ss) a)) (Cmul (Cmul b (Cconj b)) (X p c)))
                         (Cmul (Cmul (Cre cc) b) (X (S p) c))); [rewrite Hb; ring | ring].
    + reflexivity.
Qed.

Fixpoint Linv (n : nat) (ts : list (nat * tparam K)) (Y : matrix) : matrix :=
  match ts with
  | [] => Y
  | (m, t) :: ts' => Linv n ts' (rowop n m (adj (T_coef t)) Y)
  end.
Fixpoint Lfwd (n : nat) (out : list (nat * tparam K)) (X : matrix) : matrix :=
  match out with
  | [] => X
  | (m, t) :: out' => Lfwd n out' (rowop n m (T_coef t) X)
  end.

Lemma Linv_ext : forall n ts (X Y : matrix), (forall r c, X r c = Y r c) -> forall r c, Linv n ts X r c = Linv n ts Y r c.
Proof.
  intros n ts. induction ts as [|[m t] ts IH]; intros X Y H r c; cbn [Linv]; [apply H|].
  apply IH. intros. apply rowop_ext. exact H.
Qed.

(* ts = reversed(tlist); Linv n ts (D X) = T_1^{-1} ... T_k^{-1} D X;  result: D' T_1' ... T_k' X *)
Theorem phase_end_correct : forall n ts (d : nat -> C),
  (forall i, unit_c (d i)) -> Forall (fun mt => unit_c (pe (snd mt))) ts ->
  forall (X : matrix) r c,
    Linv n ts (rowscale d X) r c = rowscale (snd (phase_end ts d)) (Lfwd n (fst (phase_end ts d)) X) r c.
Proof.
  intros n ts. induction ts as [|[m t] ts IH]; intros d Hd Ht X r c.
  - reflexivity.
  - inversion Ht as [|? ? He Ht']; subst. cbn [snd] in He.
    cbn [Linv phase_end].
    rewrite (Linv_ext n ts _ _ (push_T_rowop n m t d X (Hd (S m)))).
    unfold push_T at 1. cbn [fst snd].
    set (d1 := upd (upd d m (Copp (Cmul (d (S m)) (Cconj (pe t))))) (S m) (d (S m))).
    set (t1 := mkT (pc t) (ps t) (Copp (Cmul (d m) (Cconj (d (S m)))))).
    assert (Hd1 : forall i, unit_c (d1 i)).
    { unfold d1. apply upd_unit; [apply upd_unit; auto; apply unit_opp_mul_conj; auto | auto]. }
    specialize (IH d1 Hd1 Ht' (rowop n m (T_coef t1) X) r c).
    unfold push_T; cbn [fst snd]. fold d1 t1.
    destruct (phase_end ts d1) as [out d'] eqn:E. cbn [fst snd Lfwd] in *. exact IH.
Qed.

(* ---- Mach-Zehnder elements ---- *)
Lemma push_MZ_rowop : forall n h p t (d : nat -> C) (X : matrix), unit_c (d (S p)) -> unit_c (mu t) ->
  forall r c,
    rowop n p (adj (MZ_coef h t)) (rowscale d X) r c =
    rowscale (upd (upd d p (snd (fst (push_MZ t (d p) (d (S p)))))) (S p) (snd (push_MZ t (d p) (d (S p)))))
             (rowop n p (MZ_coef h (fst (fst (push_MZ t (d p) (d (S p)))))) X) r c.
Proof.
  intros n h p [u w] d X Hb Hu r c. unfold unit_c in Hb, Hu. cbn [mu] in Hu.
  unfold push_MZ; cbn [fst snd mu mw]. unfold rowscale. rewrite !rowop_spec. unfold upd.
  set (a := d p) in *. set (b := d (S p)) in *.
  destruct (r =? p) eqn:E1.
  - apply Nat.eqb_eq in E1; subst r.
    replace (p =? S p) with false by (symmetry; apply Nat.eqb_neq; lia). rewrite ?Nat.eqb_refl.
    unfold adj, MZ_coef; cbn [qa qb qc qd mu mw]. autorewrite with cxp.
    transitivity (Cadd (Cmul (Cmul (Cmul (Cre h) (Csub (Cmul (Cconj u) (Cmul b (Cconj b))) (Cmul (Cmul u (Cconj u)) (Cmul b (Cconj b))))) (Cmul (Cconj w) a)) (X p c))
                       (Cmul (Cmul (Cmul (Copp Ci) (Cre h)) (Cmul (Cadd (Cconj u) (Cmul u (Cconj u))) (Cmul (Cconj w) b))) (X (S p) c)));
      [rewrite Hb, Hu; ring | ring].
  - destruct (r =? S p) eqn:E2.
    + apply Nat.eqb_eq in E2; subst r.
      unfold adj, MZ_coef; cbn [qa qb qc qd mu mw]. autorewrite with cxp.
      transitivity (Cadd (Cmul (Cmul (Cmul (Copp Ci) (Cre h)) (Cmul (Cadd (Cmul u (Cconj u)) (Cconj u)) (Cmul a (Cmul b (Cconj b))))) (X p c))
                         (Cmul (Cmul (Cre h) (Cmul (Csub (Cmul u (Cconj u)) (Cconj u)) b)) (X (S p) c)));
        [rewrite Hb, Hu; ring | ring].
    + reflexivity.
Qed.

Fixpoint LinvMZ (n : nat) (h : K) (ts : list (nat * mzparam K)) (Y : matrix) : matrix :=
  match ts with
  | [] => Y
  | (m, t) :: ts' => LinvMZ n h ts' (rowop n m (adj (MZ_coef h t)) Y)
  end.
Fixpoint LfwdMZ (n : nat) (h : K) (out : list (nat * mzparam K)) (X : matrix) : matrix :=
  match out with
  | [] => X
  | (m, t) :: out' => LfwdMZ n h out' (rowop n m (MZ_coef h t) X)
  end.

Lemma LinvMZ_ext : forall n h ts (X Y : matrix), (forall r c, X r c = Y r c) -> forall r c, LinvMZ n h ts X r c = LinvMZ n h ts Y r c.
Proof.
  intros n h ts. induction ts as [|[m t] ts IH]; intros X Y H r c; cbn [LinvMZ]; [apply H|].
  apply IH. intros. apply rowop_ext. exact H.
Qed.

Lemma unit_mz_a : forall b w u : C, unit_c b -> unit_c w -> unit_c u -> unit_c (Copp (Cmul b (Cmul (Cconj w) (Cconj u)))).
Proof.
  unfold unit_c. intros b w u Hb Hw Hu. autorewrite with cxp.
  transitivity (Cmul (Cmul b (Cconj b)) (Cmul (Cmul w (Cconj w)) (Cmul u (Cconj u)))); [ring|]. rewrite Hb, Hw, Hu. ring.
Qed.

Theorem phase_end_MZ_correct : forall n h ts (d : nat -> C),
  (forall i, unit_c (d i)) -> Forall (fun mt => unit_c (mu (snd mt)) /\ unit_c (mw (snd mt))) ts ->
  forall (X : matrix) r c,
    LinvMZ n h ts (rowscale d X) r c = rowscale (snd (phase_end_MZ ts d)) (LfwdMZ n h (fst (phase_end_MZ ts d)) X) r c.
Proof.
  intros n h ts. induction ts as [|[m t] ts IH]; intros d Hd Ht X r c.
  - reflexivity.
  - inversion Ht as [|? ? [Hu Hw] Ht']; subst. cbn [snd] in Hu, Hw.
    cbn [LinvMZ phase_end_MZ].
    rewrite (LinvMZ_ext n h ts _ _ (push_MZ_rowop n h m t d X (Hd (S m)) Hu)).
    unfold push_MZ at 1. cbn [fst snd].
    set (d1 := upd (upd d m (Copp (Cmul (d (S m)) (Cmul (Cconj (mw t)) (Cconj (mu t)))))) (S m) (Copp (Cmul (d (S m)) (Cconj (mu t))))).
    set (t1 := mkMZ (mu t) (Cmul (d m) (Cconj (d (S m))))).
    assert (Hd1 : forall i, unit_c (d1 i)).
    { unfold d1. apply upd_unit; [apply upd_unit; auto; apply unit_mz_a; auto | apply unit_opp_mul_conj; auto]. }
    specialize (IH d1 Hd1 Ht' (rowop n m (MZ_coef h t1) X) r c).
    unfold push_MZ; cbn [fst snd]. fold d1 t1.
    destruct (phase_end_MZ ts d1) as [out d'] eqn:E. cbn [fst snd LfwdMZ] in *. exact IH.
Qed.

End PhaseEnd.
