(* C17 — model of the interferometer-mesh decompositions of strawberryfields/decompositions.py
   (T, Ti, nullT, nullTi, rectangular, rectangular_phase_end, triangular, mach_zehnder,
   mach_zehnder_inv, rectangular_MZ, rectangular_symmetric).  Definitions only.

   Scalars are an arbitrary type K with ring operations (class Ops); complex numbers are pairs;
   matrices are functions nat -> nat -> C (dimension-free).  The same definitions are executed
   at K := PrimFloat.float (C17/Float.v) and reasoned about over any commutative ring
   (C17/Proofs.v).  Transcendental values (cos theta, sin theta, exp(i phi)) are *inputs* of the
   model (record tparam): the theorems assume the relations the Python computes them from. *)
From Coq Require Import List Arith Bool.
Import ListNotations.
Set Primitive Projections.

Class Ops (K : Type) := {
  k0 : K; k1 : K;
  kadd : K -> K -> K; kmul : K -> K -> K; ksub : K -> K -> K; kopp : K -> K
}.

Section Model.
Context {K : Type} {O : Ops K}.

Record C := mkC { re : K; im : K }.

Definition C0 : C := mkC k0 k0.
Definition C1 : C := mkC k1 k0.
Definition Ci : C := mkC k0 k1.
Definition Cre (x : K) : C := mkC x k0.
Definition Cadd (a b : C) : C := mkC (kadd (re a) (re b)) (kadd (im a) (im b)).
Definition Csub (a b : C) : C := mkC (ksub (re a) (re b)) (ksub (im a) (im b)).
Definition Copp (a : C) : C := mkC (kopp (re a)) (kopp (im a)).
Definition Cmul (a b : C) : C :=
  mkC (ksub (kmul (re a) (re b)) (kmul (im a) (im b)))
      (kadd (kmul (re a) (im b)) (kmul (im a) (re b))).
Definition Cconj (a : C) : C := mkC (re a) (kopp (im a)).
Definition Cscale (x : K) (a : C) : C := mkC (kmul x (re a)) (kmul x (im a)).

Definition matrix := nat -> nat -> C.

(* ---- tabulation: semantically the identity (Proofs.memo_id); under vm_compute it forces the
   n x n entries once, so that chains of updates do not recompute exponentially ---- *)
Definition tab {A} (n : nat) (f : nat -> A) : list A := map f (seq 0 n).
Definition memo (n : nat) (f : matrix) : matrix :=
  let t := tab n (fun i => tab n (f i)) in
  fun i j => if (i <? n) && (j <? n) then nth j (nth i t nil) C0 else f i j.

(* ---- a 2x2 block [[qa qb] [qc qd]] embedded at rows/columns (p, p+1) of the identity ---- *)
Record coef := mkQ { qa : C; qb : C; qc : C; qd : C }.

(* M @ X : numpy `localV @ Ti(..)` *)
Definition colop (n p : nat) (q : coef) (M : matrix) : matrix :=
  memo n (fun r c =>
    if c =? p then Cadd (Cmul (M r p) (qa q)) (Cmul (M r (S p)) (qc q))
    else if c =? S p then Cadd (Cmul (M r p) (qb q)) (Cmul (M r (S p)) (qd q))
    else M r c).

(* X @ M : numpy `T(..) @ localV` *)
Definition rowop (n p : nat) (q : coef) (M : matrix) : matrix :=
  memo n (fun r c =>
    if r =? p then Cadd (Cmul (qa q) (M p c)) (Cmul (qb q) (M (S p) c))
    else if r =? S p then Cadd (Cmul (qc q) (M p c)) (Cmul (qd q) (M (S p) c))
    else M r c).

(* diag(d) @ M *)
Definition rowscale (d : nat -> C) (M : matrix) : matrix := fun r c => Cmul (d r) (M r c).

(* ---- element matrices ---- *)
(* tparam: pc = cos theta, ps = sin theta, pe = exp(i phi) *)
Record tparam := mkT { pc : K; ps : K; pe : C }.

(* decompositions.T : [[e c, -s], [e s, c]] *)
Definition T_coef (t : tparam) : coef :=
  mkQ (Cscale (pc t) (pe t)) (Cre (kopp (ps t))) (Cscale (ps t) (pe t)) (Cre (pc t)).
(* decompositions.Ti = transpose(T(theta, -phi)) : [[conj(e) c, conj(e) s], [-s, c]] *)
Definition Ti_coef (t : tparam) : coef :=
  mkQ (Cscale (pc t) (Cconj (pe t))) (Cscale (ps t) (Cconj (pe t))) (Cre (kopp (ps t))) (Cre (pc t)).

(* mach_zehnder = BS @ Rint @ BS @ Rext with u = exp(i phi_int), w = exp(i phi_ext), h = 1/2:
   h * [[(u-1) w, i (u+1)], [i (u+1) w, 1-u]] *)
Record mzparam := mkMZ { mu : C; mw : C }.
Definition MZ_coef (h : K) (t : mzparam) : coef :=
  let um := Csub (mu t) C1 in
  let up := Cmul Ci (Cadd (mu t) C1) in
  mkQ (Cscale h (Cmul um (mw t))) (Cscale h up) (Cscale h (Cmul up (mw t))) (Cscale h (Csub C1 (mu t))).
(* mach_zehnder_inv = conjugate transpose *)
Definition adj (q : coef) : coef := mkQ (Cconj (qa q)) (Cconj (qc q)) (Cconj (qb q)) (Cconj (qd q)).
Definition MZi_coef (h : K) (t : mzparam) : coef := adj (MZ_coef h t).

(* ---- the order in which elements are nulled ---- *)
Inductive side := ColOp | RowOp.
(* target (tr, tc); a ColOp mixes columns (tc, tc+1), a RowOp mixes rows (tr-1, tr) *)
Record step := mkStep { sd : side; tr : nat; tc : nat }.

(* rectangular / rectangular_MZ:
     for k, i in enumerate(range(nsize - 2, -1, -1)):
        if k % 2 == 0: for j in reversed(range(nsize - 1 - i)): nullTi(i + j + 1, j)   (columns j, j+1)
        else:          for j in range(nsize - 1 - i):           nullT (i + j + 1, j)   (rows i+j, i+j+1) *)
Definition rect_diag (n k : nat) : list step :=
  let i := n - 2 - k in
  if Nat.even k
  then map (fun j => mkStep ColOp (i + j + 1) j) (rev (seq 0 (n - 1 - i)))
  else map (fun j => mkStep RowOp (i + j + 1) j) (seq 0 (n - 1 - i)).
Definition rect_schedule (n : nat) : list step := flat_map (rect_diag n) (seq 0 (n - 1)).

(* triangular:
     for i in range(nsize - 2, -1, -1): for j in range(i + 1): nullT(nsize - j - 1, nsize - i - 2) *)
Definition tri_col (n c : nat) : list step :=
  map (fun j => mkStep RowOp (n - j - 1) c) (seq 0 (n - 1 - c)).
Definition tri_schedule (n : nat) : list step := flat_map (tri_col n) (seq 0 (n - 1)).

(* ---- running a schedule with given 2x2 blocks (one per step) ---- *)
Definition do_step (n : nat) (s : step) (q : coef) (M : matrix) : matrix :=
  match sd s with
  | ColOp => colop n (tc s) q M
  | RowOp => rowop n (tr s - 1) q M
  end.

Fixpoint run (n : nat) (ss : list step) (qs : list coef) (M : matrix) : matrix :=
  match ss, qs with
  | s :: ss', q :: qs' => run n ss' qs' (do_step n s q M)
  | _, _ => M
  end.

(* undoing: the inverse blocks in reverse order *)
Fixpoint unrun (n : nat) (ss : list step) (qs : list coef) (M : matrix) : matrix :=
  match ss, qs with
  | s :: ss', q :: qs' => do_step n s (adj q) (unrun n ss' qs' M)
  | _, _ => M
  end.

(* the block used by rectangular()/triangular() for a step with parameters t *)
Definition T_block (s : step) (t : tparam) : coef :=
  match sd s with ColOp => Ti_coef t | RowOp => T_coef t end.
Definition MZ_block (h : K) (s : step) (t : mzparam) : coef :=
  match sd s with ColOp => MZi_coef h t | RowOp => MZ_coef h t end.

(* ---- rectangular_phase_end: push one T^{-1} through the diagonal:  T^{-1} D = D' T'
   alpha = angle(D[m]), beta = angle(D[n]);  phi' = alpha - beta + pi;  alpha' = beta - phi + pi; beta' = beta
   in terms of unit complex numbers a = D[m], b = D[n]:  e' = - a conj(b),  a' = - b conj(e),  b' = b *)
Definition push_T (t : tparam) (a b : C) : tparam * C * C :=
  (mkT (pc t) (ps t) (Copp (Cmul a (Cconj b))), Copp (Cmul b (Cconj (pe t))), b).

(* rectangular_symmetric:  MZ^{-1} D = D' MZ'
   phi_e' = alpha - beta; alpha' = beta - phi_e - phi_i + pi; beta' = beta - phi_i + pi; phi_i' = phi_i *)
Definition push_MZ (t : mzparam) (a b : C) : mzparam * C * C :=
  (mkMZ (mu t) (Cmul a (Cconj b)),
   Copp (Cmul b (Cmul (Cconj (mw t)) (Cconj (mu t)))),
   Copp (Cmul b (Cconj (mu t)))).

Definition upd (d : nat -> C) (k : nat) (v : C) : nat -> C := fun i => if i =? k then v else d i.

(* for i in reversed(tlist): ... ; returns the new elements in the order they are appended *)
Fixpoint phase_end (ts : list (nat * tparam)) (d : nat -> C) : list (nat * tparam) * (nat -> C) :=
  match ts with
  | [] => ([], d)
  | (m, t) :: ts' =>
      let '(t', a', b') := push_T t (d m) (d (S m)) in
      let '(out, d') := phase_end ts' (upd (upd d m a') (S m) b') in
      ((m, t') :: out, d')
  end.

Fixpoint phase_end_MZ (ts : list (nat * mzparam)) (d : nat -> C) : list (nat * mzparam) * (nat -> C) :=
  match ts with
  | [] => ([], d)
  | (m, t) :: ts' =>
      let '(t', a', b') := push_MZ t (d m) (d (S m)) in
      let '(out, d') := phase_end_MZ ts' (upd (upd d m a') (S m) b') in
      ((m, t') :: out, d')
  end.

Fixpoint map2 {A B D : Type} (f : A -> B -> D) (l1 : list A) (l2 : list B) : list D :=
  match l1, l2 with
  | a :: l1', b :: l2' => f a b :: map2 f l1' l2'
  | _, _ => []
  end.

(* V V^dagger = I on indices < n (used only to state what is not proved) *)
Definition csum (n : nat) (f : nat -> C) : C := fold_right (fun k acc => Cadd (f k) acc) C0 (seq 0 n).
Definition is_unitary (n : nat) (V : matrix) : Prop :=
  forall r c, r < n -> c < n ->
    csum n (fun k => Cmul (V r k) (Cconj (V c k))) = if r =? c then C1 else C0.

End Model.

Arguments C K : clear implicits.
Arguments matrix K : clear implicits.
Arguments coef K : clear implicits.
Arguments tparam K : clear implicits.
Arguments mzparam K : clear implicits.
