(* C17 — the remainder of rectangular()/triangular() is diagonal with unit-modulus entries:
   (i) an upper-triangular matrix with orthonormal rows is diagonal with unit-modulus diagonal (any commutative
       ring of scalars: only |u|^2 = 1 is used to cancel, no order is needed);
   (ii) column / row operations with unitary 2x2 blocks preserve V V^dagger = I;
   (iii) every step of rect_schedule n / tri_schedule n acts inside the n x n matrix. *)
From Coq Require Import List Arith Bool Lia Ring.
From SFV Require Import C17.Model C17.Alg C17.Sched C17.Main.
Import ListNotations.

Section Unitary.
Context {K : Type} {O : Ops K}.
Hypothesis Kring : ring_theory k0 k1 kadd kmul ksub kopp (@eq K).
Add Ring KRu : Kring.
Add Ring CRu : (C_ring Kring).

Notation C := (C K).
Notation matrix := (matrix K).
Notation coef := (coef K).

(* ---- finite sums ---- *)
Lemma fold_acc : forall (f : nat -> C) l a,
  fold_right (fun k acc => Cadd (f k) acc) a l = Cadd (fold_right (fun k acc => Cadd (f k) acc) C0 l) a.
Proof. induction l as [|x l IH]; intros a; cbn [fold_right]; [ring|]. rewrite IH. ring. Qed.

Lemma csum_S : forall n (f : nat -> C), csum (S n) f = Cadd (csum n f) (f n).
Proof.
  intros. unfold csum. rewrite seq_S, fold_right_app. cbn [fold_right plus]. rewrite fold_acc. ring.
Qed.

Lemma csum_ext : forall n (f g : nat -> C), (forall k, k < n -> f k = g k) -> csum n f = csum n g.
Proof.
  induction n as [|n IH]; intros f g H; [reflexivity|]. rewrite !csum_S. rewrite (IH f g) by (intros; apply H; lia).
  rewrite (H n) by lia. reflexivity.
Qed.

Lemma csum_zero : forall n (f : nat -> C), (forall k, k < n -> f k = C0) -> csum n f = C0.
Proof.
  induction n as [|n IH]; intros f H; [reflexivity|]. rewrite csum_S, IH by (intros; apply H; lia). rewrite (H n) by lia. ring.
Qed.

Lemma csum_single : forall n j (f : nat -> C), j < n -> (forall k, k < n -> k <> j -> f k = C0) -> csum n f = f j.
Proof.
  induction n as [|n IH]; intros j f Hj H; [lia|]. rewrite csum_S.
  destruct (Nat.eq_dec j n) as [->|Hne].
  - rewrite csum_zero by (intros; apply H; lia). ring.
  - rewrite (IH j) by (try lia; intros; apply H; lia). rewrite (H n) by lia. ring.
Qed.

Lemma csum_add : forall n (f g : nat -> C), csum n (fun k => Cadd (f k) (g k)) = Cadd (csum n f) (csum n g).
Proof. induction n as [|n IH]; intros; [cbn; ring|]. rewrite !csum_S, IH. ring. Qed.

Lemma csum_scale : forall n a (f : nat -> C), csum n (fun k => Cmul a (f k)) = Cmul a (csum n f).
Proof. induction n as [|n IH]; intros; [cbn; ring|]. rewrite !csum_S, IH. ring. Qed.

(* f and g agree except at p, p+1, where the two-term sums agree *)
Lemma csum_pair : forall n p (f g : nat -> C), S p < n ->
  (forall k, k < n -> k <> p -> k <> S p -> f k = g k) ->
  Cadd (f p) (f (S p)) = Cadd (g p) (g (S p)) -> csum n f = csum n g.
Proof.
  induction n as [|n IH]; intros p f g Hp H Hs; [lia|]. rewrite (csum_S n f), (csum_S n g).
  destruct (Nat.eq_dec (S p) n) as [E|Hne].
  - subst n. rewrite (csum_S p f), (csum_S p g). rewrite (csum_ext p f g) by (intros; apply H; lia).
    transitivity (Cadd (csum p g) (Cadd (f p) (f (S p)))); [ring|]. rewrite Hs. ring.
  - rewrite (IH p f g) by (try lia; try assumption; intros; apply H; lia). rewrite (H n) by lia. reflexivity.
Qed.

(* ---- Gram matrix ---- *)
Definition gram (n : nat) (M : matrix) (r c : nat) : C := csum n (fun k => Cmul (M r k) (Cconj (M c k))).

Lemma is_unitary_gram : forall n M, is_unitary n M <-> (forall r c, r < n -> c < n -> gram n M r c = if r =? c then C1 else C0).
Proof. intros; reflexivity. Qed.

Lemma gram_lin : forall n (x y x' y' : nat -> C) (a b a' b' : C),
  csum n (fun k => Cmul (Cadd (Cmul a (x k)) (Cmul b (y k))) (Cconj (Cadd (Cmul a' (x' k)) (Cmul b' (y' k))))) =
  Cadd (Cadd (Cmul (Cmul a (Cconj a')) (csum n (fun k => Cmul (x k) (Cconj (x' k)))))
             (Cmul (Cmul a (Cconj b')) (csum n (fun k => Cmul (x k) (Cconj (y' k))))))
       (Cadd (Cmul (Cmul b (Cconj a')) (csum n (fun k => Cmul (y k) (Cconj (x' k)))))
             (Cmul (Cmul b (Cconj b')) (csum n (fun k => Cmul (y k) (Cconj (y' k)))))).
Proof.
  intros. rewrite <- !csum_scale, <- !csum_add. apply csum_ext. intros k _.
  rewrite (Cconj_add Kring), !(Cconj_mul Kring). ring.
Qed.

(* ---- (i) triangular + orthonormal rows => diagonal, unit modulus ---- *)
Lemma upper_unitary_cols : forall n (U : matrix), is_unitary n U ->
  (forall r c, c < r -> r < n -> U r c = C0) ->
  forall d j, j < n -> n <= j + d -> unit_c (U j j) /\ (forall r, r < n -> r <> j -> U r j = C0).
Proof.
  intros n U HU Htri. induction d as [|d IH]; intros j Hj Hd; [lia|].
  (* columns > j are already known *)
  assert (Hright : forall k, j < k -> k < n -> forall r, r < n -> r <> k -> U r k = C0).
  { intros k Hk1 Hk2. apply (IH k); lia. }
  assert (Hrow : forall k, k < n -> k <> j -> U j k = C0).
  { intros k Hk Hne. destruct (Nat.lt_ge_cases k j); [apply Htri; lia | apply Hright; lia]. }
  assert (Hunit : unit_c (U j j)).
  { unfold unit_c. generalize (HU j j Hj Hj). rewrite Nat.eqb_refl. intros <-.
    symmetry. apply (csum_single n j); [assumption|]. intros k Hk Hne. rewrite Hrow by assumption. ring. }
  split; [exact Hunit|]. intros r Hr Hne.
  destruct (Nat.lt_ge_cases j r); [apply Htri; lia|].
  assert (Horth := HU r j Hr Hj). replace (r =? j) with false in Horth by (symmetry; apply Nat.eqb_neq; lia).
  rewrite (csum_single n j) in Horth; [|assumption|].
  - unfold unit_c in Hunit.
    transitivity (Cmul (Cmul (U r j) (Cconj (U j j))) (U j j)).
    + transitivity (Cmul (U r j) (Cmul (U j j) (Cconj (U j j)))); [rewrite Hunit; ring | ring].
    + rewrite Horth. ring.
  - intros k Hk Hnk. rewrite (Hrow k) by assumption. rewrite (Cconj_C0 Kring). ring.
Qed.

Theorem upper_unitary_diagonal : forall n (U : matrix), is_unitary n U ->
  (forall r c, c < r -> r < n -> U r c = C0) ->
  forall r c, r < n -> c < n -> (r <> c -> U r c = C0) /\ (r = c -> unit_c (U r c)).
Proof.
  intros n U HU Htri r c Hr Hc.
  destruct (upper_unitary_cols n U HU Htri n c Hc ltac:(lia)) as [Hu Hz].
  split; [intros; apply Hz; assumption | intros ->; exact Hu].
Qed.

(* ---- (ii) unitary blocks preserve V V^dagger = I ---- *)
Definition step_ok (n : nat) (s : step) : Prop :=
  match sd s with ColOp => S (tc s) < n | RowOp => 1 <= tr s /\ tr s < n end.

Lemma rowop_unitary : forall n p q (M : matrix), S p < n -> unitary2 q -> is_unitary n M -> is_unitary n (rowop n p q M).
Proof.
  intros n p q M Hp (H1 & H2 & H3 & H4 & _) HM r c Hr Hc.
  (* every new row is a_r * M[i_r] + b_r * M[j_r] *)
  set (ca := fun r => if r =? p then qa q else if r =? S p then qc q else C1).
  set (cb := fun r => if r =? p then qb q else if r =? S p then qd q else C0).
  set (ri := fun r => if r =? p then p else if r =? S p then p else r).
  set (rj := fun r => if r =? p then S p else if r =? S p then S p else r).
  assert (Hrow : forall r k, rowop n p q M r k = Cadd (Cmul (ca r) (M (ri r) k)) (Cmul (cb r) (M (rj r) k))).
  { intros r0 k. rewrite rowop_spec. unfold ca, cb, ri, rj. destruct (r0 =? p); [reflexivity|]. destruct (r0 =? S p); [reflexivity|]. ring. }
  transitivity (csum n (fun k => Cmul (Cadd (Cmul (ca r) (M (ri r) k)) (Cmul (cb r) (M (rj r) k)))
                                     (Cconj (Cadd (Cmul (ca c) (M (ri c) k)) (Cmul (cb c) (M (rj c) k)))))).
  { apply csum_ext. intros k _. rewrite !Hrow. reflexivity. }
  rewrite gram_lin.
  assert (Hri : forall r, r < n -> ri r < n) by (intros r0 ?; unfold ri; destruct (r0 =? p); [lia|]; destruct (r0 =? S p); lia).
  assert (Hrj : forall r, r < n -> rj r < n) by (intros r0 ?; unfold rj; destruct (r0 =? p); [lia|]; destruct (r0 =? S p); lia).
  rewrite (HM (ri r) (ri c)), (HM (ri r) (rj c)), (HM (rj r) (ri c)), (HM (rj r) (rj c)) by auto.
  unfold ca, cb, ri, rj. clear Hrow Hri Hrj ca cb ri rj.
  destruct (Nat.eq_dec r c) as [Erc|Erc];
  destruct (Nat.eq_dec r p) as [Erp|Erp]; destruct (Nat.eq_dec r (S p)) as [Erq|Erq];
  destruct (Nat.eq_dec c p) as [Ecp|Ecp]; destruct (Nat.eq_dec c (S p)) as [Ecq|Ecq]; subst; try lia;
  repeat match goal with
  | |- context [?a =? ?b] =>
      first [ replace (a =? b) with true by (symmetry; apply Nat.eqb_eq; lia)
            | replace (a =? b) with false by (symmetry; apply Nat.eqb_neq; lia) ]
  end;
  rewrite ?(Cconj_C1 Kring), ?(Cconj_C0 Kring);
  first [ ring
        | etransitivity; [|exact H1]; ring
        | etransitivity; [|exact H2]; ring
        | etransitivity; [|exact H3]; ring
        | etransitivity; [|exact H4]; ring ].
Qed.

Lemma colop_unitary : forall n p q (M : matrix), S p < n -> unitary2 q -> is_unitary n M -> is_unitary n (colop n p q M).
Proof.
  intros n p q M Hp (H1 & H2 & H3 & H4 & _) HM r c Hr Hc.
  rewrite <- (HM r c Hr Hc). unfold gram.
  apply (csum_pair n p); [assumption| |].
  - intros k Hk Hkp Hkq. rewrite !colop_spec.
    replace (k =? p) with false by (symmetry; apply Nat.eqb_neq; assumption).
    replace (k =? S p) with false by (symmetry; apply Nat.eqb_neq; assumption). reflexivity.
  - rewrite !colop_spec. rewrite !Nat.eqb_refl, !neq_S.
    rewrite !(Cconj_add Kring), !(Cconj_mul Kring).
    transitivity (Cadd (Cadd (Cmul (Cmul (M r p) (Cconj (M c p))) (Cadd (Cmul (qa q) (Cconj (qa q))) (Cmul (qb q) (Cconj (qb q)))))
                             (Cmul (Cmul (M r p) (Cconj (M c (S p)))) (Cadd (Cmul (qa q) (Cconj (qc q))) (Cmul (qb q) (Cconj (qd q))))))
                       (Cadd (Cmul (Cmul (M r (S p)) (Cconj (M c p))) (Cadd (Cmul (qc q) (Cconj (qa q))) (Cmul (qd q) (Cconj (qb q)))))
                             (Cmul (Cmul (M r (S p)) (Cconj (M c (S p)))) (Cadd (Cmul (qc q) (Cconj (qc q))) (Cmul (qd q) (Cconj (qd q))))))); [ring|].
    rewrite H1, H2, H3, H4. ring.
Qed.

Lemma do_step_unitary : forall n s q (M : matrix), step_ok n s -> unitary2 q -> is_unitary n M -> is_unitary n (do_step n s q M).
Proof.
  intros n s q M Hs Hq HM. unfold do_step, step_ok in *. destruct (sd s).
  - apply colop_unitary; assumption.
  - apply rowop_unitary; try assumption. lia.
Qed.

Lemma run_unitary : forall n ss qs (M : matrix), Forall (step_ok n) ss -> Forall unitary2 qs -> is_unitary n M ->
  is_unitary n (run n ss qs M).
Proof.
  intros n ss. induction ss as [|s ss IH]; intros qs M Hs Hq HM; [exact HM|].
  destruct qs as [|q qs]; [exact HM|]. inversion Hs; inversion Hq; subst. cbn [run].
  apply IH; try assumption. apply do_step_unitary; assumption.
Qed.

(* ---- (iii) the schedules stay inside the matrix ---- *)
Lemma rect_schedule_ok : forall n, Forall (step_ok n) (rect_schedule n).
Proof.
  intros n. apply Forall_forall. intros s Hs. unfold rect_schedule in Hs. apply in_flat_map in Hs.
  destruct Hs as (k & Hk & Hs). apply in_seq in Hk. unfold rect_diag in Hs.
  destruct (Nat.even k); apply in_map_iff in Hs; destruct Hs as (j & <- & Hj).
  - apply in_rev, in_seq in Hj. unfold step_ok; cbn. lia.
  - apply in_seq in Hj. unfold step_ok; cbn. lia.
Qed.

Lemma tri_schedule_ok : forall n, Forall (step_ok n) (tri_schedule n).
Proof.
  intros n. apply Forall_forall. intros s Hs. unfold tri_schedule in Hs. apply in_flat_map in Hs.
  destruct Hs as (c & Hc & Hs). apply in_seq in Hc. unfold tri_col in Hs.
  apply in_map_iff in Hs; destruct Hs as (j & <- & Hj). apply in_seq in Hj. unfold step_ok; cbn. lia.
Qed.

(* ---- the full statement ---- *)
Theorem rectangular_full :
  forall (n : nat) (ts : list (tparam K)) (V : matrix),
    Forall trig ts ->
    valid n (rect_schedule n) (map2 T_block (rect_schedule n) ts) V ->
    is_unitary n V ->
    let D := run n (rect_schedule n) (map2 T_block (rect_schedule n) ts) V in
    forall r c, r < n -> c < n -> (r <> c -> D r c = C0) /\ (r = c -> unit_c (D r c)).
Proof.
  intros n ts V Ht Hv HV D. apply upper_unitary_diagonal.
  - apply run_unitary; [apply rect_schedule_ok | apply (T_blocks_unitary Kring); assumption | assumption].
  - intros r c Hc Hr. apply (rect_nulls Kring); assumption.
Qed.

Theorem triangular_full :
  forall (n : nat) (ts : list (tparam K)) (V : matrix),
    Forall trig ts ->
    valid n (tri_schedule n) (map2 T_block (tri_schedule n) ts) V ->
    is_unitary n V ->
    let D := run n (tri_schedule n) (map2 T_block (tri_schedule n) ts) V in
    forall r c, r < n -> c < n -> (r <> c -> D r c = C0) /\ (r = c -> unit_c (D r c)).
Proof.
  intros n ts V Ht Hv HV D. apply upper_unitary_diagonal.
  - apply run_unitary; [apply tri_schedule_ok | apply (T_blocks_unitary Kring); assumption | assumption].
  - intros r c Hc Hr. apply (tri_nulls Kring); assumption.
Qed.

Theorem rectangular_MZ_full :
  forall (n : nat) (h : K) (ts : list (mzparam K)) (V : matrix),
    kadd h h = k1 -> Forall (fun t => unit_c (mu t) /\ unit_c (mw t)) ts ->
    valid n (rect_schedule n) (map2 (MZ_block h) (rect_schedule n) ts) V ->
    is_unitary n V ->
    let D := run n (rect_schedule n) (map2 (MZ_block h) (rect_schedule n) ts) V in
    forall r c, r < n -> c < n -> (r <> c -> D r c = C0) /\ (r = c -> unit_c (D r c)).
Proof.
  intros n h ts V Hh Ht Hv HV D. apply upper_unitary_diagonal.
  - apply run_unitary; [apply rect_schedule_ok | apply (MZ_blocks_unitary Kring); assumption | assumption].
  - intros r c Hc Hr. apply (rect_nulls Kring); assumption.
Qed.

End Unitary.
