(* C17 — algebra of the mesh elements over an arbitrary commutative ring:
   complex numbers form a ring; memo is the identity; specifications of colop/rowop;
   T / Ti / Mach-Zehnder blocks are unitary given the trigonometric identities;
   every branch of nullTi / nullT / nullMZi / nullMZ nulls its target;
   undoing a run of unitary blocks restores the matrix. *)
From Coq Require Import List Arith Bool Lia Ring.
From SFV Require Import C17.Model.
Import ListNotations.

Section Alg.
Context {K : Type} {O : Ops K}.
Hypothesis Kring : ring_theory k0 k1 kadd kmul ksub kopp (@eq K).
Add Ring KR : Kring.

Notation C := (C K).
Notation matrix := (matrix K).
Notation coef := (coef K).

Lemma Ceq : forall a b : C, re a = re b -> im a = im b -> a = b.
Proof. intros [ra ia] [rb ib]; cbn; intros; subst; reflexivity. Qed.

Ltac cx := apply Ceq; cbn [re im Cadd Cmul Csub Copp Cconj Cscale Cre C0 C1 Ci]; ring.

Lemma C_ring : ring_theory (C0 : C) C1 Cadd Cmul Csub Copp (@eq C).
Proof. constructor; intros; cx. Qed.
Add Ring CR : C_ring.

(* ---- embedding of reals, conjugation ---- *)
Lemma Cscale_Cre : forall x (a : C), Cscale x a = Cmul (Cre x) a.           Proof. intros; cx. Qed.
Lemma Cre_mul : forall x y : K, Cre (kmul x y) = Cmul (Cre x) (Cre y) :> C. Proof. intros; cx. Qed.
Lemma Cre_add : forall x y : K, Cre (kadd x y) = Cadd (Cre x) (Cre y) :> C. Proof. intros; cx. Qed.
Lemma Cre_opp : forall x : K, Cre (kopp x) = Copp (Cre x) :> C.             Proof. intros; cx. Qed.
Lemma Cre_0 : Cre k0 = C0 :> C.                                             Proof. cx. Qed.
Lemma Cre_1 : Cre k1 = C1 :> C.                                             Proof. cx. Qed.
Lemma Cconj_mul : forall a b : C, Cconj (Cmul a b) = Cmul (Cconj a) (Cconj b). Proof. intros; cx. Qed.
Lemma Cconj_add : forall a b : C, Cconj (Cadd a b) = Cadd (Cconj a) (Cconj b). Proof. intros; cx. Qed.
Lemma Cconj_sub : forall a b : C, Cconj (Csub a b) = Csub (Cconj a) (Cconj b). Proof. intros; cx. Qed.
Lemma Cconj_opp : forall a : C, Cconj (Copp a) = Copp (Cconj a).            Proof. intros; cx. Qed.
Lemma Cconj_Cre : forall x : K, Cconj (Cre x) = Cre x :> C.                 Proof. intros; cx. Qed.
Lemma Cconj_conj : forall a : C, Cconj (Cconj a) = a.                       Proof. intros; cx. Qed.
Lemma Cconj_Ci : Cconj Ci = Copp Ci :> C.                                   Proof. cx. Qed.
Lemma Cconj_C1 : Cconj C1 = C1 :> C.                                        Proof. cx. Qed.
Lemma Cconj_C0 : Cconj C0 = C0 :> C.                                        Proof. cx. Qed.
Lemma Ci_Ci : Cmul Ci Ci = Copp C1 :> C.                                    Proof. cx. Qed.

Hint Rewrite Cscale_Cre Cconj_mul Cconj_add Cconj_sub Cconj_opp Cconj_Cre Cconj_conj Cconj_Ci Cconj_C1 Cconj_C0
     Cre_opp Cre_0 Cre_1 : cxn.

(* ---- memo is the identity ---- *)
Lemma nth_tab : forall A (f : nat -> A) n i d, i < n -> nth i (tab n f) d = f i.
Proof.
  intros. unfold tab. rewrite nth_indep with (d' := f 0) by (rewrite map_length, seq_length; lia).
  rewrite map_nth with (d := 0). rewrite seq_nth by lia. reflexivity.
Qed.

Lemma memo_id : forall n (f : matrix) i j, memo n f i j = f i j.
Proof.
  intros. unfold memo.
  destruct (i <? n) eqn:Hi; destruct (j <? n) eqn:Hj; cbn [andb]; try reflexivity.
  apply Nat.ltb_lt in Hi. apply Nat.ltb_lt in Hj.
  rewrite nth_tab by lia. rewrite nth_tab by lia. reflexivity.
Qed.

Lemma colop_spec : forall n p q (M : matrix) r c,
  colop n p q M r c =
    if c =? p then Cadd (Cmul (M r p) (qa q)) (Cmul (M r (S p)) (qc q))
    else if c =? S p then Cadd (Cmul (M r p) (qb q)) (Cmul (M r (S p)) (qd q))
    else M r c.
Proof. intros. unfold colop. apply memo_id. Qed.

Lemma rowop_spec : forall n p q (M : matrix) r c,
  rowop n p q M r c =
    if r =? p then Cadd (Cmul (qa q) (M p c)) (Cmul (qb q) (M (S p) c))
    else if r =? S p then Cadd (Cmul (qc q) (M p c)) (Cmul (qd q) (M (S p) c))
    else M r c.
Proof. intros. unfold rowop. apply memo_id. Qed.

Lemma do_step_ext : forall n s q (X Y : matrix),
  (forall r c, X r c = Y r c) -> forall r c, do_step n s q X r c = do_step n s q Y r c.
Proof.
  intros n s q X Y H r c. unfold do_step. destruct (sd s).
  - rewrite !colop_spec. rewrite !H. reflexivity.
  - rewrite !rowop_spec. rewrite !H. reflexivity.
Qed.

(* ---- unitary 2x2 blocks ---- *)
Definition unitary2 (q : coef) : Prop :=
  Cadd (Cmul (qa q) (Cconj (qa q))) (Cmul (qb q) (Cconj (qb q))) = C1 /\
  Cadd (Cmul (qa q) (Cconj (qc q))) (Cmul (qb q) (Cconj (qd q))) = C0 /\
  Cadd (Cmul (qc q) (Cconj (qa q))) (Cmul (qd q) (Cconj (qb q))) = C0 /\
  Cadd (Cmul (qc q) (Cconj (qc q))) (Cmul (qd q) (Cconj (qd q))) = C1 /\
  Cadd (Cmul (Cconj (qa q)) (qa q)) (Cmul (Cconj (qc q)) (qc q)) = C1 /\
  Cadd (Cmul (Cconj (qa q)) (qb q)) (Cmul (Cconj (qc q)) (qd q)) = C0 /\
  Cadd (Cmul (Cconj (qb q)) (qa q)) (Cmul (Cconj (qd q)) (qc q)) = C0 /\
  Cadd (Cmul (Cconj (qb q)) (qb q)) (Cmul (Cconj (qd q)) (qd q)) = C1.

Definition unit_c (e : C) : Prop := Cmul e (Cconj e) = C1.
Definition trig (t : tparam K) : Prop := kadd (kmul (pc t) (pc t)) (kmul (ps t) (ps t)) = k1 /\ unit_c (pe t).

Lemma trig_Cre : forall c s : K, kadd (kmul c c) (kmul s s) = k1 ->
  Cadd (Cmul (Cre c) (Cre c)) (Cmul (Cre s) (Cre s)) = C1 :> C.
Proof. intros c s H. rewrite <- !Cre_mul, <- Cre_add, H. apply Cre_1. Qed.

Lemma T_unitary : forall t, trig t -> unitary2 (T_coef t).
Proof.
  intros [c s e] [Hcs He]. cbn [pc ps pe] in *. unfold unit_c in He. apply trig_Cre in Hcs.
  unfold unitary2, T_coef; cbn [qa qb qc qd pc ps pe]. autorewrite with cxn.
  repeat split.
  - transitivity (Cadd (Cmul (Cmul (Cre c) (Cre c)) (Cmul e (Cconj e))) (Cmul (Cre s) (Cre s))); [ring|]. rewrite He. etransitivity; [|exact Hcs]. ring.
  - transitivity (Cmul (Cmul (Cre c) (Cre s)) (Csub (Cmul e (Cconj e)) C1)); [ring|]. rewrite He. ring.
  - transitivity (Cmul (Cmul (Cre c) (Cre s)) (Csub (Cmul e (Cconj e)) C1)); [ring|]. rewrite He. ring.
  - transitivity (Cadd (Cmul (Cmul (Cre s) (Cre s)) (Cmul e (Cconj e))) (Cmul (Cre c) (Cre c))); [ring|]. rewrite He. etransitivity; [|exact Hcs]. ring.
  - transitivity (Cmul (Cadd (Cmul (Cre c) (Cre c)) (Cmul (Cre s) (Cre s))) (Cmul e (Cconj e))); [ring|]. rewrite He, Hcs. ring.
  - ring.
  - ring.
  - transitivity (Cadd (Cmul (Cre c) (Cre c)) (Cmul (Cre s) (Cre s))); [ring|]. exact Hcs.
Qed.

Lemma adj_unitary : forall q, unitary2 q -> unitary2 (adj q).
Proof.
  intros q (H1 & H2 & H3 & H4 & H5 & H6 & H7 & H8).
  unfold unitary2, adj; cbn [qa qb qc qd]. rewrite !Cconj_conj.
  repeat split; assumption.
Qed.

Lemma adj_Ti : forall t, adj (Ti_coef t) = T_coef t.
Proof.
  intros [c s e]. unfold adj, Ti_coef, T_coef; cbn [qa qb qc qd pc ps pe].
  f_equal; cx.
Qed.

Lemma adj_adj : forall q, adj (adj q) = q.
Proof. intros [a b c d]. unfold adj; cbn [qa qb qc qd]. rewrite !Cconj_conj. reflexivity. Qed.

Lemma Ti_is_adj_T : forall t, Ti_coef t = adj (T_coef t).
Proof. intros. rewrite <- adj_Ti. symmetry. apply adj_adj. Qed.

Lemma Ti_unitary : forall t, trig t -> unitary2 (Ti_coef t).
Proof. intros. rewrite Ti_is_adj_T. apply adj_unitary, T_unitary; assumption. Qed.

(* Mach-Zehnder block: needs 2h = 1 and |u| = |w| = 1 *)
Lemma MZ_unitary : forall h t, kadd h h = k1 -> unit_c (mu t) -> unit_c (mw t) -> unitary2 (MZ_coef h t).
Proof.
  intros h [u w] Hh Hu Hw. cbn [mu mw] in *. unfold unit_c in *.
  assert (Hh' : Cadd (Cre h) (Cre h) = C1) by (rewrite <- Cre_add, Hh; apply Cre_1).
  assert (Hq : Cmul (Cmul (Cre h) (Cre h)) (Cadd (Cadd C1 C1) (Cadd C1 C1)) = C1).
  { transitivity (Cmul (Cadd (Cre h) (Cre h)) (Cadd (Cre h) (Cre h))); [ring|]. rewrite Hh'. ring. }
  unfold unitary2, MZ_coef; cbn [qa qb qc qd mu mw]. autorewrite with cxn.
  assert (Hii : forall z : C, Cmul Ci (Cmul (Copp Ci) z) = z) by (intros; cx).
  repeat split.
  - transitivity (Cmul (Cmul (Cre h) (Cre h)) (Cadd (Cadd (Cadd (Cadd (Cadd (Cadd (Cadd (Cmul (Cmul u (Cconj u)) (Cmul w (Cconj w))) (Cmul u (Cconj u))) (Copp (Cmul (Cmul w (Cconj w)) u))) u) (Copp (Cmul (Cmul w (Cconj w)) (Cconj u)))) (Cconj u)) (Cmul w (Cconj w))) C1)).
    { apply Ceq; cbn [re im Cadd Cmul Csub Copp Cconj Cscale Cre C0 C1 Ci]; ring. }
    rewrite ?Hu, ?Hw. etransitivity; [|exact Hq]. ring.
  - transitivity (Cmul (Cmul (Cre h) (Cre h)) (Cadd (Cadd (Cadd (Cadd (Cadd (Cadd (Cadd (Copp (Cmul Ci (Cmul (Cmul u (Cconj u)) (Cmul w (Cconj w))))) (Copp (Cmul Ci (Cmul u (Cconj u))))) (Copp (Cmul Ci (Cmul (Cmul w (Cconj w)) u)))) (Cmul Ci u)) (Cmul Ci (Cmul (Cmul w (Cconj w)) (Cconj u)))) (Copp (Cmul Ci (Cconj u)))) (Cmul Ci (Cmul w (Cconj w)))) (Cmul Ci C1))).
    { apply Ceq; cbn [re im Cadd Cmul Csub Copp Cconj Cscale Cre C0 C1 Ci]; ring. }
    rewrite ?Hu, ?Hw. ring.
  - transitivity (Cmul (Cmul (Cre h) (Cre h)) (Cadd (Cadd (Cadd (Cadd (Cadd (Cadd (Cadd (Cmul Ci (Cmul (Cmul u (Cconj u)) (Cmul w (Cconj w)))) (Cmul Ci (Cmul u (Cconj u)))) (Copp (Cmul Ci (Cmul (Cmul w (Cconj w)) u)))) (Cmul Ci u)) (Cmul Ci (Cmul (Cmul w (Cconj w)) (Cconj u)))) (Copp (Cmul Ci (Cconj u)))) (Copp (Cmul Ci (Cmul w (Cconj w))))) (Copp (Cmul Ci C1)))).
    { apply Ceq; cbn [re im Cadd Cmul Csub Copp Cconj Cscale Cre C0 C1 Ci]; ring. }
    rewrite ?Hu, ?Hw. ring.
  - transitivity (Cmul (Cmul (Cre h) (Cre h)) (Cadd (Cadd (Cadd (Cadd (Cadd (Cadd (Cadd (Cmul (Cmul u (Cconj u)) (Cmul w (Cconj w))) (Cmul u (Cconj u))) (Cmul (Cmul w (Cconj w)) u)) (Copp u)) (Cmul (Cmul w (Cconj w)) (Cconj u))) (Copp (Cconj u))) (Cmul w (Cconj w))) C1)).
    { apply Ceq; cbn [re im Cadd Cmul Csub Copp Cconj Cscale Cre C0 C1 Ci]; ring. }
    rewrite ?Hu, ?Hw. etransitivity; [|exact Hq]. ring.
  - transitivity (Cmul (Cmul (Cre h) (Cre h)) (Cadd (Cadd (Cmul (Cmul u (Cconj u)) (Cmul w (Cconj w))) (Cmul (Cmul u (Cconj u)) (Cmul w (Cconj w)))) (Cadd (Cmul w (Cconj w)) (Cmul w (Cconj w))))).
    { apply Ceq; cbn [re im Cadd Cmul Csub Copp Cconj Cscale Cre C0 C1 Ci]; ring. }
    rewrite ?Hu, ?Hw. etransitivity; [|exact Hq]. ring.
  - transitivity (Cmul (Cmul (Cre h) (Cre h)) (Cadd (Cadd (Cmul Ci (Cmul (Cmul u (Cconj u)) (Cconj w))) (Cmul Ci (Cmul (Cmul u (Cconj u)) (Cconj w)))) (Copp (Cadd (Cmul Ci (Cconj w)) (Cmul Ci (Cconj w)))))).
    { apply Ceq; cbn [re im Cadd Cmul Csub Copp Cconj Cscale Cre C0 C1 Ci]; ring. }
    rewrite ?Hu, ?Hw. ring.
  - transitivity (Cmul (Cmul (Cre h) (Cre h)) (Cadd (Copp (Cadd (Cmul Ci (Cmul (Cmul u (Cconj u)) w)) (Cmul Ci (Cmul (Cmul u (Cconj u)) w)))) (Cadd (Cmul Ci w) (Cmul Ci w)))).
    { apply Ceq; cbn [re im Cadd Cmul Csub Copp Cconj Cscale Cre C0 C1 Ci]; ring. }
    rewrite ?Hu, ?Hw. ring.
  - transitivity (Cmul (Cmul (Cre h) (Cre h)) (Cadd (Cadd (Cmul u (Cconj u)) (Cmul u (Cconj u))) (Cadd C1 C1))).
    { apply Ceq; cbn [re im Cadd Cmul Csub Copp Cconj Cscale Cre C0 C1 Ci]; ring. }
    rewrite ?Hu, ?Hw. etransitivity; [|exact Hq]. ring.
Qed.

Lemma MZi_unitary : forall h t, kadd h h = k1 -> unit_c (mu t) -> unit_c (mw t) -> unitary2 (MZi_coef h t).
Proof. intros. apply adj_unitary, MZ_unitary; assumption. Qed.

(* ---- undoing one step ---- *)
Lemma neq_S : forall p, (S p =? p) = false. Proof. intros; apply Nat.eqb_neq; lia. Qed.

Lemma undo_step : forall n s q (M : matrix), unitary2 q ->
  forall r c, do_step n s (adj q) (do_step n s q M) r c = M r c.
Proof.
  intros n s q M (H1 & H2 & H3 & H4 & H5 & H6 & H7 & H8) r c.
  unfold do_step. destruct (sd s).
  - set (p := tc s). rewrite colop_spec. rewrite !colop_spec.
    rewrite !Nat.eqb_refl, !neq_S. cbn [adj qa qb qc qd].
    destruct (c =? p) eqn:E1; [apply Nat.eqb_eq in E1; subst c|destruct (c =? S p) eqn:E2; [apply Nat.eqb_eq in E2; subst c|reflexivity]].
    + transitivity (Cadd (Cmul (M r p) (Cadd (Cmul (qa q) (Cconj (qa q))) (Cmul (qb q) (Cconj (qb q)))))
                         (Cmul (M r (S p)) (Cadd (Cmul (qc q) (Cconj (qa q))) (Cmul (qd q) (Cconj (qb q)))))); [ring|].
      rewrite H1, H3. ring.
    + transitivity (Cadd (Cmul (M r p) (Cadd (Cmul (qa q) (Cconj (qc q))) (Cmul (qb q) (Cconj (qd q)))))
                         (Cmul (M r (S p)) (Cadd (Cmul (qc q) (Cconj (qc q))) (Cmul (qd q) (Cconj (qd q)))))); [ring|].
      rewrite H2, H4. ring.
  - set (p := tr s - 1). rewrite rowop_spec. rewrite !rowop_spec.
    rewrite !Nat.eqb_refl, !neq_S. cbn [adj qa qb qc qd].
    destruct (r =? p) eqn:E1; [apply Nat.eqb_eq in E1; subst r|destruct (r =? S p) eqn:E2; [apply Nat.eqb_eq in E2; subst r|reflexivity]].
    + transitivity (Cadd (Cmul (Cadd (Cmul (Cconj (qa q)) (qa q)) (Cmul (Cconj (qc q)) (qc q))) (M p c))
                         (Cmul (Cadd (Cmul (Cconj (qa q)) (qb q)) (Cmul (Cconj (qc q)) (qd q))) (M (S p) c))); [ring|].
      rewrite H5, H6. ring.
    + transitivity (Cadd (Cmul (Cadd (Cmul (Cconj (qb q)) (qa q)) (Cmul (Cconj (qd q)) (qc q))) (M p c))
                         (Cmul (Cadd (Cmul (Cconj (qb q)) (qb q)) (Cmul (Cconj (qd q)) (qd q))) (M (S p) c))); [ring|].
      rewrite H7, H8. ring.
Qed.

Lemma unrun_run : forall n ss qs (M : matrix), Forall unitary2 qs ->
  forall r c, unrun n ss qs (run n ss qs M) r c = M r c.
Proof.
  intros n ss. induction ss as [|s ss IH]; intros qs M Hq r c; [reflexivity|].
  destruct qs as [|q qs]; [reflexivity|]. inversion Hq; subst.
  cbn [run unrun].
  rewrite (do_step_ext n s (adj q) _ (do_step n s q M)) by (intros; apply IH; assumption).
  apply undo_step; assumption.
Qed.

(* ---- the nulling formulas ---- *)
(* value of the target after the step *)
Definition col_target (q : coef) (x y : C) : C := Cadd (Cmul x (qa q)) (Cmul y (qc q)).   (* (U @ X)[m, n]   , x = U[m,n], y = U[m,n+1] *)
Definition row_target (q : coef) (x y : C) : C := Cadd (Cmul (qc q) y) (Cmul (qd q) x).   (* (X @ U)[n, m]   , x = U[n,m], y = U[n-1,m] *)

(* nullTi, general branch: r = x / y, theta = arctan |r|, phi = angle r
   i.e. x = y * (tt * e) with tt = tan theta = s / c and e = exp(i phi) of unit modulus *)
Lemma nullTi_general : forall (x y : C) (tt : K) (t : tparam K),
  ps t = kmul tt (pc t) -> x = Cmul y (Cscale tt (pe t)) -> unit_c (pe t) ->
  col_target (Ti_coef t) x y = C0.
Proof.
  intros x y tt [c s e] Hs Hx He. cbn [pc ps pe] in *. unfold unit_c in He. subst s x.
  unfold col_target, Ti_coef; cbn [qa qb qc qd pc ps pe]. autorewrite with cxn. rewrite Cre_mul.
  transitivity (Cmul (Cmul y (Cmul (Cre tt) (Cre c))) (Csub (Cmul e (Cconj e)) C1)); [ring|]. rewrite He. ring.
Qed.
(* nullTi, `U[m, n] == 0` branch: theta = 0, phi = 0 *)
Lemma nullTi_zero : forall y : C, col_target (Ti_coef (mkT k1 k0 C1)) C0 y = C0.
Proof. intros. unfold col_target, Ti_coef; cbn [qa qb qc qd pc ps pe]. cx. Qed.
(* nullTi, `U[m, n+1] == 0` branch: theta = pi/2, phi = 0  (exact cos(pi/2) = 0) *)
Lemma nullTi_swap : forall x : C, col_target (Ti_coef (mkT k0 k1 C1)) x C0 = C0.
Proof. intros. unfold col_target, Ti_coef; cbn [qa qb qc qd pc ps pe]. cx. Qed.

(* nullT, general branch: r = - x / y, theta = arctan |r|, phi = angle r : x = - y * (tt * e) *)
Lemma nullT_general : forall (x y : C) (tt : K) (t : tparam K),
  ps t = kmul tt (pc t) -> x = Copp (Cmul y (Cscale tt (pe t))) ->
  row_target (T_coef t) x y = C0.
Proof.
  intros x y tt [c s e] Hs Hx. cbn [pc ps pe] in *. subst s x.
  unfold row_target, T_coef; cbn [qa qb qc qd pc ps pe]. autorewrite with cxn. rewrite Cre_mul. ring.
Qed.
Lemma nullT_zero : forall y : C, row_target (T_coef (mkT k1 k0 C1)) C0 y = C0.
Proof. intros. unfold row_target, T_coef; cbn [qa qb qc qd pc ps pe]. cx. Qed.
Lemma nullT_swap : forall x : C, row_target (T_coef (mkT k0 k1 C1)) x C0 = C0.
Proof. intros. unfold row_target, T_coef; cbn [qa qb qc qd pc ps pe]. cx. Qed.

(* Mach-Zehnder nulling.  With u = exp(i phi_i), tt = tan(phi_i / 2):  conj(u) - 1 = - i tt (conj(u) + 1). *)
Definition half_angle (u : C) (tt : K) : Prop :=
  Csub (Cconj u) C1 = Cmul (Copp Ci) (Cscale tt (Cadd (Cconj u) C1)).

(* nullMZi general: r = - y / x, phi_i = 2 arctan |r|, phi_e = - angle r:  y = - x (tt rho), w = conj rho *)
Lemma nullMZi_general : forall h (x y rho : C) (tt : K) (t : mzparam K),
  half_angle (mu t) tt -> y = Copp (Cmul x (Cscale tt rho)) -> mw t = Cconj rho ->
  col_target (MZi_coef h t) x y = C0.
Proof.
  intros h x y rho tt [u w] Hu Hy Hw. cbn [mu mw] in *. unfold half_angle in Hu. subst y w.
  unfold col_target, MZi_coef, MZ_coef, adj; cbn [qa qb qc qd mu mw]. autorewrite with cxn in *.
  transitivity (Cmul (Cmul (Cre h) (Cmul x rho))
                     (Csub (Csub (Cconj u) C1) (Cmul (Copp Ci) (Cmul (Cre tt) (Cadd (Cconj u) C1))))); [ring|].
  rewrite Hu. ring.
Qed.
(* `U[m, n] == 0` branch: phi_i = pi (u = -1), phi_e = 0 *)
Lemma nullMZi_zero : forall h (y : C), col_target (MZi_coef h (mkMZ (Copp C1) C1)) C0 y = C0.
Proof. intros. unfold col_target, MZi_coef, MZ_coef, adj; cbn [qa qb qc qd mu mw]. cx. Qed.
(* `U[m, n+1] == 0` branch: phi_i = 0 (u = 1), phi_e = 0 *)
Lemma nullMZi_swap : forall h (x : C), col_target (MZi_coef h (mkMZ C1 C1)) x C0 = C0.
Proof. intros. unfold col_target, MZi_coef, MZ_coef, adj; cbn [qa qb qc qd mu mw]. cx. Qed.

(* nullMZ general: r = y / x (y = U[n-1,m], x = U[n,m]), phi_i = 2 arctan |r|, phi_e = - angle r.
   With u = exp(i phi_i):  u - 1 = i tt (u + 1). *)
Definition half_angle' (u : C) (tt : K) : Prop :=
  Csub u C1 = Cmul Ci (Cscale tt (Cadd u C1)).
Lemma nullMZ_general : forall h (x y rho : C) (tt : K) (t : mzparam K),
  half_angle' (mu t) tt -> y = Cmul x (Cscale tt rho) -> Cmul (mw t) rho = C1 ->
  row_target (MZ_coef h t) x y = C0.
Proof.
  intros h x y rho tt [u w] Hu Hy Hw. cbn [mu mw] in *. unfold half_angle' in Hu. subst y.
  unfold row_target, MZ_coef; cbn [qa qb qc qd mu mw]. autorewrite with cxn in *.
  transitivity (Cmul (Cmul (Cre h) x)
                     (Cadd (Cmul (Cmul (Cmul Ci (Cadd u C1)) (Cre tt)) (Cmul w rho)) (Csub C1 u))); [ring|].
  rewrite Hw.
  transitivity (Cmul (Cmul (Cre h) x) (Csub (Cmul Ci (Cmul (Cre tt) (Cadd u C1))) (Csub u C1))); [ring|].
  rewrite Hu. ring.
Qed.
Lemma nullMZ_zero : forall h (y : C), row_target (MZ_coef h (mkMZ (Copp C1) C1)) C0 y = C0.
Proof. intros. unfold row_target, MZ_coef; cbn [qa qb qc qd mu mw]. cx. Qed.
Lemma nullMZ_swap : forall h (x : C), row_target (MZ_coef h (mkMZ C1 C1)) x C0 = C0.
Proof. intros. unfold row_target, MZ_coef; cbn [qa qb qc qd mu mw]. cx. Qed.

End Alg.
