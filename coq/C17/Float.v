(* C17 — execution of the model at binary64 (PrimFloat): the generic run/do_step/phase_end of
   Model.v instantiated at floats, plus float-only code for the parameter formulas of
   nullTi / nullT / nullMZi / nullMZ (division, modulus, the exact-zero branch tests) in which
   cos(arctan t), sin(arctan t), exp(i angle r) are computed with sqrt instead of numpy's
   trigonometric functions.  Used only for the correspondence check (no theorem mentions floats). *)
From Coq Require Import List Arith Bool Floats.
From SFV Require Import C17.Model.
Import ListNotations.
Open Scope float_scope.

#[export] Instance FOps : Ops float :=
  {| k0 := 0; k1 := 1; kadd := PrimFloat.add; kmul := PrimFloat.mul; ksub := PrimFloat.sub; kopp := PrimFloat.opp |}.

Notation CF := (C float).

Definition cis0 (a : CF) : bool := (re a =? 0) && (im a =? 0).

(* numpy complex division (Smith's algorithm) *)
Definition Cdiv (a b : CF) : CF :=
  if abs (im b) <=? abs (re b) then
    let rat := im b / re b in
    let scl := 1 / (re b + im b * rat) in
    mkC ((re a + im a * rat) * scl) ((im a - re a * rat) * scl)
  else
    let rat := re b / im b in
    let scl := 1 / (im b + re b * rat) in
    mkC ((re a * rat + im a) * scl) ((im a * rat - re a) * scl).

Definition Cabs (a : CF) : float := sqrt (re a * re a + im a * im a).

(* cos(pi/2) as numpy computes it *)
Definition cos_half_pi : float := 0x1.1a62633145c07p-54.

(* (cos(arctan t), sin(arctan t), r/|r|) *)
Definition polar_param (r : CF) : tparam float :=
  let t := Cabs r in
  let c := 1 / sqrt (1 + t * t) in
  mkT c (t * c) (mkC (re r / t) (im r / t)).

(* nullTi(m, n, U): x = U[m,n], y = U[m,n+1] *)
Definition nullTi_f (x y : CF) : tparam float :=
  if cis0 x then mkT 1 0 C1
  else if cis0 y then mkT cos_half_pi 1 C1
  else polar_param (Cdiv x y).
(* nullT(n, m, U): x = U[n,m], y = U[n-1,m] *)
Definition nullT_f (x y : CF) : tparam float :=
  if cis0 x then mkT 1 0 C1
  else if cis0 y then mkT cos_half_pi 1 C1
  else polar_param (Cdiv (Copp x) y).

Definition step_xy (s : step) (M : matrix float) : CF * CF :=
  match sd s with
  | ColOp => (M (tr s) (tc s), M (tr s) (S (tc s)))
  | RowOp => (M (tr s) (tc s), M (tr s - 1)%nat (tc s))
  end.

Definition null_f (s : step) (M : matrix float) : tparam float :=
  let '(x, y) := step_xy s M in
  match sd s with ColOp => nullTi_f x y | RowOp => nullT_f x y end.

(* rectangular()/triangular(): compute the parameters from the current matrix, apply the block *)
Fixpoint mesh_f (n : nat) (ss : list step) (M : matrix float) : list (step * tparam float) * matrix float :=
  match ss with
  | [] => ([], M)
  | s :: ss' =>
      let t := null_f s M in
      let '(out, M') := mesh_f n ss' (do_step n s (T_block s t) M) in
      ((s, t) :: out, M')
  end.

(* ---- Mach-Zehnder variant ---- *)
Definition rint (y : float) : float := (y + 6755399441055744) - 6755399441055744.
Definition round14 (x : float) : float := rint (x * 1e14) / 1e14.
Definition Cround14 (a : CF) : CF := mkC (round14 (re a)) (round14 (im a)).
Definition qround (q : coef float) : coef float := mkQ (Cround14 (qa q)) (Cround14 (qb q)) (Cround14 (qc q)) (Cround14 (qd q)).

(* u = exp(i 2 arctan t) = ((1 - t^2) + 2 t i) / (1 + t^2) *)
Definition mz_u (t : float) : CF := let dn := 1 + t * t in mkC ((1 - t * t) / dn) (2 * t / dn).
(* nullMZi: r = -U[m,n+1]/U[m,n]; phi_i = 2 arctan|r|; phi_e = -angle(r) *)
Definition nullMZi_f (x y : CF) : mzparam float :=
  if cis0 x then mkMZ (Copp C1) C1
  else if cis0 y then mkMZ C1 C1
  else let r := Cdiv (Copp y) x in let t := Cabs r in mkMZ (mz_u t) (mkC (re r / t) (- (im r / t))).
(* nullMZ: r = U[n-1,m]/U[n,m] *)
Definition nullMZ_f (x y : CF) : mzparam float :=
  if cis0 x then mkMZ (Copp C1) C1
  else if cis0 y then mkMZ C1 C1
  else let r := Cdiv y x in let t := Cabs r in mkMZ (mz_u t) (mkC (re r / t) (- (im r / t))).

Definition nullmz_f (s : step) (M : matrix float) : mzparam float :=
  let '(x, y) := step_xy s M in
  match sd s with ColOp => nullMZi_f x y | RowOp => nullMZ_f x y end.

(* mach_zehnder rounds its entries to 14 decimals; mach_zehnder_inv is the conjugate transpose of that *)
Definition MZ_block_f (s : step) (t : mzparam float) : coef float :=
  match sd s with ColOp => adj (qround (MZ_coef 0.5 t)) | RowOp => qround (MZ_coef 0.5 t) end.

Fixpoint mesh_mz_f (n : nat) (ss : list step) (M : matrix float) : list (step * mzparam float) * matrix float :=
  match ss with
  | [] => ([], M)
  | s :: ss' =>
      let t := nullmz_f s M in
      let '(out, M') := mesh_mz_f n ss' (do_step n s (MZ_block_f s t) M) in
      ((s, t) :: out, M')
  end.

(* ---- I/O ---- *)
Definition of_list (l : list (list (float * float))) : matrix float :=
  fun i j => let '(a, b) := nth j (nth i l []) (0, 0) in mkC a b.
Definition cpair (a : CF) : float * float := (re a, im a).
Definition is_col (s : step) : bool := match sd s with ColOp => true | RowOp => false end.
Definition diag_of (n : nat) (M : matrix float) : list (float * float) := map (fun i => cpair (M i i)) (seq 0 n).
Definition out_t (st : step * tparam float) :=
  let '(s, t) := st in (is_col s, tr s, tc s, (pc t, ps t, cpair (pe t))).
Definition out_mz (st : step * mzparam float) :=
  let '(s, t) := st in (is_col s, tr s, tc s, (cpair (mu t), cpair (mw t))).

Definition rows_of (ts : list (step * tparam float)) : list (nat * tparam float) :=
  map (fun st => ((tr (fst st) - 1)%nat, snd st)) (filter (fun st => negb (is_col (fst st))) ts).
Definition rows_of_mz (ts : list (step * mzparam float)) : list (nat * mzparam float) :=
  map (fun st => ((tr (fst st) - 1)%nat, snd st)) (filter (fun st => negb (is_col (fst st))) ts).

(* rectangular(V) and rectangular_phase_end(V): (steps, diagonal, pushed T elements, new diagonal) *)
Definition rectangular_f (n : nat) (l : list (list (float * float))) :=
  let '(ts, M) := mesh_f n (rect_schedule n) (of_list l) in
  let '(pushed, d') := phase_end (rev (rows_of ts)) (fun i => M i i) in
  (map out_t ts, diag_of n M,
   map (fun mt => (fst mt, (pc (snd mt), ps (snd mt), cpair (pe (snd mt))))) pushed,
   map (fun i => cpair (d' i)) (seq 0 n)).

Definition triangular_f (n : nat) (l : list (list (float * float))) :=
  let '(ts, M) := mesh_f n (tri_schedule n) (of_list l) in
  (map out_t ts, diag_of n M).

Definition rectangular_MZ_f (n : nat) (l : list (list (float * float))) :=
  let '(ts, M) := mesh_mz_f n (rect_schedule n) (of_list l) in
  let '(pushed, d') := phase_end_MZ (rev (rows_of_mz ts)) (fun i => M i i) in
  (map out_mz ts, diag_of n M,
   map (fun mt => (fst mt, (cpair (mu (snd mt)), cpair (mw (snd mt))))) pushed,
   map (fun i => cpair (d' i)) (seq 0 n)).

Definition sched_out (ss : list step) := map (fun s => (is_col s, tr s, tc s)) ss.
