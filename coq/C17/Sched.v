(* C17 — the nulling order of rectangular() / rectangular_MZ() and triangular():
   every strictly-lower-triangular element is nulled and no earlier zero is destroyed,
   for every size n and every choice of 2x2 blocks that null their own targets. *)
From Coq Require Import List Arith Bool Lia Ring.
From SFV Require Import C17.Model C17.Alg.
Import ListNotations.

Section Sched.
Context {K : Type} {O : Ops K}.
Hypothesis Kring : ring_theory k0 k1 kadd kmul ksub kopp (@eq K).
Add Ring CR : (C_ring Kring).

Notation C := (C K).
Notation matrix := (matrix K).
Notation coef := (coef K).

(* the block q nulls the target of step s in M *)
Definition nulls (s : step) (q : coef) (M : matrix) : Prop :=
  match sd s with
  | ColOp => col_target q (M (tr s) (tc s)) (M (tr s) (S (tc s))) = C0
  | RowOp => row_target q (M (tr s) (tc s)) (M (tr s - 1) (tc s)) = C0
  end.

(* a run in which every block nulls its target in the matrix it is applied to *)
Fixpoint valid (n : nat) (ss : list step) (qs : list coef) (M : matrix) : Prop :=
  match ss, qs with
  | [], [] => True
  | s :: ss', q :: qs' => nulls s q M /\ valid n ss' qs' (do_step n s q M)
  | _, _ => False
  end.

Lemma valid_cons : forall n s ss qs M, valid n (s :: ss) qs M ->
  exists q qs', qs = q :: qs' /\ nulls s q M /\ valid n ss qs' (do_step n s q M).
Proof. intros n s ss [|q qs'] M H; cbn in H; [contradiction|]. exists q, qs'. tauto. Qed.

Lemma zz : forall a b : C, Cadd (Cmul C0 a) (Cmul C0 b) = C0. Proof. intros; ring. Qed.
Lemma zz' : forall a b : C, Cadd (Cmul a C0) (Cmul b C0) = C0. Proof. intros; ring. Qed.

Variable n : nat.

(* zero wherever r - c > d *)
Definition Zd (d : nat) (M : matrix) : Prop := forall r c, r < n -> c + d < r -> M r c = C0.

Section Diagonal.
Variable d : nat.
Hypothesis d_pos : 1 <= d.

(* even diagonals: column operations, j descending *)
Definition IC (m : nat) (M : matrix) : Prop :=
  forall r c, r < n -> (c + d < r \/ (r = c + d /\ m <= c)) -> M r c = C0.

Lemma even_step : forall m q (M : matrix),
  IC (S m) M -> nulls (mkStep ColOp (d + m) m) q M -> IC m (do_step n (mkStep ColOp (d + m) m) q M).
Proof.
  intros m q M H Hn r c Hr Hc. unfold do_step; cbn [sd tc tr]. rewrite colop_spec.
  unfold nulls in Hn; cbn [sd tc tr] in Hn. unfold col_target in Hn.
  destruct (c =? m) eqn:E1; [apply Nat.eqb_eq in E1; subst c|destruct (c =? S m) eqn:E2; [apply Nat.eqb_eq in E2; subst c|]].
  - destruct (Nat.eq_dec r (d + m)) as [->|Hne]; [exact Hn|].
    rewrite (H r m) by (auto; lia). rewrite (H r (S m)) by (auto; lia). apply zz.
  - rewrite (H r m) by (auto; lia). rewrite (H r (S m)) by (auto; lia). apply zz.
  - apply Nat.eqb_neq in E1. apply Nat.eqb_neq in E2. apply H; auto. lia.
Qed.

Lemma even_diag : forall m rest qs (M : matrix),
  valid n (map (fun j => mkStep ColOp (d + j) j) (rev (seq 0 m)) ++ rest) qs M -> IC m M ->
  exists qs' M', valid n rest qs' M' /\
     run n (map (fun j => mkStep ColOp (d + j) j) (rev (seq 0 m)) ++ rest) qs M = run n rest qs' M' /\ IC 0 M'.
Proof.
  induction m as [|m IH]; intros rest qs M Hv HI.
  - exists qs, M. cbn. auto.
  - rewrite seq_S, rev_app_distr in *. cbn [rev app map plus] in *.
    apply valid_cons in Hv. destruct Hv as (q & qs' & -> & Hn & Hv).
    destruct (IH rest qs' _ Hv (even_step m q M HI Hn)) as (qs'' & M' & Hv' & Hr & HI').
    exists qs'', M'. repeat split; auto.
Qed.

(* odd diagonals: row operations, j ascending *)
Definition IR (a : nat) (M : matrix) : Prop :=
  forall r c, r < n -> (c + d < r \/ (r = c + d /\ c < a)) -> M r c = C0.

Lemma odd_step : forall a q (M : matrix), d + a < n ->
  IR a M -> nulls (mkStep RowOp (d + a) a) q M -> IR (S a) (do_step n (mkStep RowOp (d + a) a) q M).
Proof.
  intros a q M Hda H Hn r c Hr Hc. unfold do_step; cbn [sd tc tr]. rewrite rowop_spec.
  unfold nulls in Hn; cbn [sd tc tr] in Hn. unfold row_target in Hn.
  assert (HS : S (d + a - 1) = d + a) by lia.
  destruct (r =? d + a - 1) eqn:E1; [apply Nat.eqb_eq in E1|destruct (r =? S (d + a - 1)) eqn:E2; [apply Nat.eqb_eq in E2|]].
  - rewrite (H (d + a - 1) c) by lia. rewrite (H (S (d + a - 1)) c) by lia. apply zz'.
  - destruct (Nat.eq_dec c a) as [->|Hne].
    + rewrite HS. exact Hn.
    + rewrite (H (d + a - 1) c) by lia. rewrite (H (S (d + a - 1)) c) by lia. apply zz'.
  - apply Nat.eqb_neq in E1. apply Nat.eqb_neq in E2. apply H; auto. lia.
Qed.

Lemma odd_diag : forall m a rest qs (M : matrix), d + a + m <= n ->
  valid n (map (fun j => mkStep RowOp (d + j) j) (seq a m) ++ rest) qs M -> IR a M ->
  exists qs' M', valid n rest qs' M' /\
     run n (map (fun j => mkStep RowOp (d + j) j) (seq a m) ++ rest) qs M = run n rest qs' M' /\ IR (a + m) M'.
Proof.
  induction m as [|m IH]; intros a rest qs M Hle Hv HI.
  - exists qs, M. cbn. rewrite Nat.add_0_r. auto.
  - cbn [seq map app] in *.
    apply valid_cons in Hv. destruct Hv as (q & qs' & -> & Hn & Hv).
    destruct (IH (S a) rest qs' _ ltac:(lia) Hv (odd_step a q M ltac:(lia) HI Hn)) as (qs'' & M' & Hv' & Hr & HI').
    exists qs'', M'. repeat split; auto. replace (a + S m) with (S a + m) by lia. exact HI'.
Qed.

Lemma Zd_IC : forall M, Zd d M -> IC (n - d) M.
Proof. intros M H r c Hr [Hc|[Hc Hm]]; [apply H; auto|lia]. Qed.
Lemma IC_Zd : forall M, IC 0 M -> Zd (d - 1) M.
Proof. intros M H r c Hr Hc. apply H; auto. lia. Qed.
Lemma Zd_IR : forall M, Zd d M -> IR 0 M.
Proof. intros M H r c Hr [Hc|[Hc Hm]]; [apply H; auto|lia]. Qed.
Lemma IR_Zd : forall M, IR (n - d) M -> Zd (d - 1) M.
Proof. intros M H r c Hr Hc. apply H; auto. lia. Qed.

End Diagonal.

Lemma rect_diag_eq : forall k, k + 2 <= n ->
  rect_diag n k =
    if Nat.even k then map (fun j => mkStep ColOp ((n - 1 - k) + j) j) (rev (seq 0 (S k)))
    else map (fun j => mkStep RowOp ((n - 1 - k) + j) j) (seq 0 (S k)).
Proof.
  intros k Hk. unfold rect_diag. replace (n - 1 - (n - 2 - k)) with (S k) by lia.
  destruct (Nat.even k); apply map_ext; intros j; f_equal; lia.
Qed.

Lemma rect_outer : forall m a qs (M : matrix), a + m = n - 1 ->
  valid n (flat_map (rect_diag n) (seq a m)) qs M -> Zd (n - 1 - a) M ->
  Zd 0 (run n (flat_map (rect_diag n) (seq a m)) qs M).
Proof.
  induction m as [|m IH]; intros a qs M Ha Hv HZ.
  - cbn. destruct qs; cbn; replace (n - 1 - a) with 0 in HZ by lia; exact HZ.
  - cbn [seq flat_map] in *. rewrite rect_diag_eq in * by lia.
    assert (Hd : 1 <= n - 1 - a) by lia.
    destruct (Nat.even a).
    + destruct (even_diag (n - 1 - a) Hd (S a) _ qs M Hv) as (qs' & M' & Hv' & Hr & HI').
      { replace (S a) with (n - (n - 1 - a)) by lia. apply Zd_IC; assumption. }
      rewrite Hr. apply IH; [lia|assumption|].
      replace (n - 1 - S a) with (n - 1 - a - 1) by lia. apply IC_Zd; assumption.
    + destruct (odd_diag (n - 1 - a) Hd (S a) 0 _ qs M ltac:(lia) Hv) as (qs' & M' & Hv' & Hr & HI').
      { apply Zd_IR; assumption. }
      rewrite Hr. apply IH; [lia|assumption|].
      replace (n - 1 - S a) with (n - 1 - a - 1) by lia. apply IR_Zd; [assumption|].
      replace (n - (n - 1 - a)) with (0 + S a) by lia. assumption.
Qed.

Theorem rect_nulls : forall qs (M : matrix), valid n (rect_schedule n) qs M ->
  forall r c, c < r -> r < n -> run n (rect_schedule n) qs M r c = C0.
Proof.
  intros qs M Hv r c Hc Hr.
  destruct (Nat.eq_dec n 0) as [->|Hn]; [lia|].
  apply (rect_outer (n - 1) 0 qs M); try assumption; try lia.
  intros r' c' Hr' Hc'. lia.
Qed.

(* ---- triangular: column by column, rows from the bottom up ---- *)
(* column c0 in progress: columns < c0 are zero below the diagonal, column c0 is zero in rows > b *)
Definition IT (c0 b : nat) (M : matrix) : Prop :=
  forall r c, r < n -> c < r -> (c < c0 \/ (c = c0 /\ b < r)) -> M r c = C0.

Lemma tri_step : forall c0 b q (M : matrix), c0 < b -> b < n ->
  IT c0 b M -> nulls (mkStep RowOp b c0) q M -> IT c0 (b - 1) (do_step n (mkStep RowOp b c0) q M).
Proof.
  intros c0 b q M Hcb Hbn H Hn r c Hr Hc Hcc. unfold do_step; cbn [sd tc tr]. rewrite rowop_spec.
  unfold nulls in Hn; cbn [sd tc tr] in Hn. unfold row_target in Hn.
  assert (HS : S (b - 1) = b) by lia.
  destruct (r =? b - 1) eqn:E1; [apply Nat.eqb_eq in E1|destruct (r =? S (b - 1)) eqn:E2; [apply Nat.eqb_eq in E2|]].
  - rewrite (H (b - 1) c) by lia. rewrite (H (S (b - 1)) c) by lia. apply zz'.
  - destruct (Nat.eq_dec c c0) as [->|Hne].
    + rewrite HS. exact Hn.
    + rewrite (H (b - 1) c) by lia. rewrite (H (S (b - 1)) c) by lia. apply zz'.
  - apply Nat.eqb_neq in E1. apply Nat.eqb_neq in E2. apply H; auto. lia.
Qed.

Lemma tri_column : forall c0 m a rest qs (M : matrix), a + m = n - 1 - c0 -> c0 + 1 < n + 0 ->
  valid n (map (fun j => mkStep RowOp (n - j - 1) c0) (seq a m) ++ rest) qs M -> IT c0 (n - 1 - a) M ->
  exists qs' M', valid n rest qs' M' /\
     run n (map (fun j => mkStep RowOp (n - j - 1) c0) (seq a m) ++ rest) qs M = run n rest qs' M' /\ IT c0 c0 M'.
Proof.
  intros c0. induction m as [|m IH]; intros a rest qs M Ha Hc0 Hv HI.
  - exists qs, M. cbn. replace (n - 1 - a) with c0 in HI by lia. auto.
  - cbn [seq map app] in *.
    apply valid_cons in Hv. destruct Hv as (q & qs' & -> & Hn & Hv).
    replace (n - a - 1) with (n - 1 - a) in * by lia.
    assert (HI1 := tri_step c0 (n - 1 - a) q M ltac:(lia) ltac:(lia) HI Hn).
    replace (n - 1 - a - 1) with (n - 1 - S a) in HI1 by lia.
    destruct (IH (S a) rest qs' _ ltac:(lia) Hc0 Hv HI1) as (qs'' & M' & Hv' & Hr & HI').
    exists qs'', M'. repeat split; auto.
Qed.

Lemma tri_outer : forall m a qs (M : matrix), a + m = n - 1 ->
  valid n (flat_map (tri_col n) (seq a m)) qs M -> IT a (n - 1) M ->
  IT (n - 1) (n - 1) (run n (flat_map (tri_col n) (seq a m)) qs M).
Proof.
  induction m as [|m IH]; intros a qs M Ha Hv HZ.
  - cbn. replace a with (n - 1) in HZ by lia. destruct qs; cbn; exact HZ.
  - cbn [seq flat_map] in *. unfold tri_col at 1 in Hv. unfold tri_col at 1.
    destruct (tri_column a (n - 1 - a) 0 _ qs M ltac:(lia) ltac:(lia) Hv) as (qs' & M' & Hv' & Hr & HI').
    { replace (n - 1 - 0) with (n - 1) by lia. exact HZ. }
    rewrite Hr. apply IH; [lia|assumption|].
    intros r c Hr' Hc' Hcc. apply HI'; auto. lia.
Qed.

Theorem tri_nulls : forall qs (M : matrix), valid n (tri_schedule n) qs M ->
  forall r c, c < r -> r < n -> run n (tri_schedule n) qs M r c = C0.
Proof.
  intros qs M Hv r c Hc Hr.
  destruct (Nat.eq_dec n 0) as [->|Hn]; [lia|].
  apply (tri_outer (n - 1) 0 qs M); try assumption; try lia.
  intros r' c' Hr' Hc' Hcc. lia.
Qed.

End Sched.
