(* C19 — corollaries combining the clique / subgraph lemmas *)
From Coq Require Import List Arith ZArith Bool Lia Permutation.
From SFV Require Import C19.Similarity C19.Clique C19.CliqueProofs C19.Subgraph C19.SubgraphProofs.
Import ListNotations.

(* without node weights the old (pre-5c60841) variant and the source coincide *)
Lemma shrink_index_uniform adj nodes tbl d :
  shrink_index adj nodes false Uniform tbl d = shrink_index adj nodes true Uniform tbl d.
Proof. reflexivity. Qed.

Lemma grow_index_uniform adj nodes sub compl d :
  grow_index adj nodes false Uniform sub compl d = grow_index adj nodes true Uniform sub compl d.
Proof. reflexivity. Qed.

(* the removal rule of the source as it stands, outside weight mode *)
Theorem shrink_rule_as_is adj nodes s tbl d i :
  (forall w, s <> Weight w) -> tbl <> [] ->
  shrink_index adj nodes false s tbl d = Some i ->
  i < length tbl /\ (forall u, In u tbl -> deg_in adj (nth i tbl 0) tbl <= deg_in adj u tbl).
Proof.
  intros Hs Ht H.
  assert (H' : shrink_index adj nodes true s tbl d = Some i).
  { destruct s; try exact H. exfalso. eapply Hs. reflexivity. }
  destruct (shrink_rule_fixed adj nodes s tbl d i Ht H') as [A [B _]]. auto.
Qed.

Theorem grow_rule_as_is adj nodes s sub compl d i :
  (forall w, s <> Weight w) -> compl <> [] ->
  grow_index adj nodes false s sub compl d = Some i ->
  i < length compl /\ (forall c, In c compl -> deg_to adj c sub <= deg_to adj (nth i compl 0) sub).
Proof.
  intros Hs Ht H.
  assert (H' : grow_index adj nodes true s sub compl d = Some i).
  { destruct s; try exact H. exfalso. eapply Hs. reflexivity. }
  destruct (grow_index_rule adj nodes s sub compl d i Ht H') as [A [B _]]. auto.
Qed.

(* ---------- clique.search ---------- *)
Theorem csearch_sound adj nodes : (forall u v, adj u v = adj v u) ->
  forall iters s clique draws r, csearch adj nodes iters s clique draws = Ok r ->
  clique_set adj r /\ (forall x, In x r -> In x nodes) /\ NoDup r /\ length (dedup clique) <= length r.
Proof.
  intros Hs. induction iters as [|i IH]; intros s clique draws r H; [discriminate|].
  simpl in H. destruct (grow adj nodes s clique draws) as [g| | | |] eqn:G; try discriminate.
  destruct (grow_sound adj Hs nodes s clique draws g G) as [_ [Gin [_ [Gnd _]]]].
  set (dr := skipn (length g - length (dedup clique)) draws) in *.
  destruct (swap adj nodes s g dr) as [sw| | | |] eqn:W; try discriminate.
  destruct (swap_sound adj Hs nodes s g dr sw W) as [Wc [Wl [Wn Wnd]]].
  assert (L1 : length (dedup clique) <= length sw).
  { rewrite Wl. apply NoDup_incl_length; [apply dedup_NoDup|].
    intros x Hx. apply (proj2 (dedup_In _ _)). apply Gin. apply (proj1 (dedup_In _ _)). exact Hx. }
  destruct (leqb g sw || (i =? 0)).
  - injection H as <-. auto.
  - apply IH in H. destruct H as [A [B [C D]]]. repeat split; auto.
    assert (L2 : length sw <= length (dedup sw)).
    { apply NoDup_incl_length; auto. intros x Hx. apply (proj2 (dedup_In _ _)). exact Hx. }
    lia.
Qed.

(* ---------- sample.py ---------- *)
Theorem postselect_spec samples lo hi s :
  In s (postselect samples lo hi) <-> In s samples /\ lo <= list_sum s <= hi.
Proof.
  unfold postselect. rewrite filter_In. split; intros [H1 H2]; split; auto.
  - apply andb_true_iff in H2. destruct H2 as [A B]. apply Nat.leb_le in A, B. lia.
  - apply andb_true_iff. split; apply Nat.leb_le; lia.
Qed.

Lemma count_occ_nat_app v a b : count_occ_nat v (a ++ b) = count_occ_nat v a + count_occ_nat v b.
Proof. induction a as [|x t IH]; simpl; auto. rewrite IH. lia. Qed.

Lemma count_occ_nat_repeat v x c : count_occ_nat v (repeat x c) = if x =? v then c else 0.
Proof. induction c as [|c IH]; simpl; [destruct (x =? v); auto|]. rewrite IH. destruct (x =? v); lia. Qed.

Lemma count_occ_nat_perm v l l' : Permutation l l' -> count_occ_nat v l = count_occ_nat v l'.
Proof. induction 1; simpl; lia. Qed.

Lemma mfc_at_count s : forall b i,
  count_occ_nat i (modes_from_counts_at b s) = if i <? b then 0 else nth (i - b) s 0.
Proof.
  induction s as [|c t IH]; intros b i; simpl.
  - destruct (i <? b); auto. destruct (i - b); auto.
  - rewrite count_occ_nat_app, count_occ_nat_repeat, IH.
    destruct (b =? i) eqn:E1.
    + apply Nat.eqb_eq in E1. subst i. rewrite Nat.ltb_irrefl.
      replace (b <? S b) with true by (symmetry; apply Nat.ltb_lt; lia).
      rewrite Nat.sub_diag. lia.
    + apply Nat.eqb_neq in E1. destruct (i <? b) eqn:E2.
      * apply Nat.ltb_lt in E2. replace (i <? S b) with true by (symmetry; apply Nat.ltb_lt; lia). lia.
      * apply Nat.ltb_ge in E2. replace (i <? S b) with false by (symmetry; apply Nat.ltb_ge; lia).
        destruct (i - b) as [|k] eqn:E3; [lia|]. replace (i - S b) with k by lia. lia.
Qed.

(* modes_from_counts lists mode i exactly s[i] times, in non-decreasing order *)
Theorem modes_from_counts_count s i : count_occ_nat i (modes_from_counts s) = nth i s 0.
Proof.
  unfold modes_from_counts. rewrite (count_occ_nat_perm _ _ _ (sort_asc_perm _)).
  rewrite mfc_at_count. simpl. rewrite Nat.sub_0_r. reflexivity.
Qed.

Lemma count_occ_nat_In v l : In v l <-> 1 <= count_occ_nat v l.
Proof.
  induction l as [|x t IH]; simpl; [split; [tauto|lia]|].
  destruct (x =? v) eqn:E.
  - apply Nat.eqb_eq in E. split; [lia|auto].
  - apply Nat.eqb_neq in E. rewrite IH. split; [intros [H|H]; [congruence|lia]|intros H; right; lia].
Qed.

(* to_subgraphs: the nodes at the clicked positions, nothing else *)
Theorem to_subgraph_spec gnodes s v :
  In v (to_subgraph gnodes s) <-> exists i, 1 <= nth i s 0 /\ v = nth i gnodes 0.
Proof.
  unfold to_subgraph. rewrite sort_asc_In, in_map_iff. split.
  - intros [i [Hv Hi]]. apply (proj1 (dedup_In _ _)) in Hi. apply (proj1 (count_occ_nat_In _ _)) in Hi.
    rewrite modes_from_counts_count in Hi. exists i. auto.
  - intros [i [Hi Hv]]. exists i. split; auto. apply (proj2 (dedup_In _ _)). apply (proj2 (count_occ_nat_In _ _)).
    rewrite modes_from_counts_count. auto.
Qed.
