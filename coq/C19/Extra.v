(* C19 — corollaries combining the clique / subgraph lemmas *)
From Coq Require Import List Arith ZArith Bool Lia Permutation.
From SFV Require Import C19.Similarity C19.Clique C19.CliqueProofs C19.Subgraph C19.SubgraphProofs.
Import ListNotations.

(* with self-loops ignored the edge-count test is exact on every graph (no irreflexivity needed) *)
Lemma noloop_sym adj : (forall u v, adj u v = adj v u) -> forall u v, noloop adj u v = noloop adj v u.
Proof.
  intros H u v. unfold noloop. rewrite (H u v). f_equal. f_equal.
  destruct (u =? v) eqn:E1, (v =? u) eqn:E2; auto.
  - apply Nat.eqb_eq in E1. subst. rewrite Nat.eqb_refl in E2. discriminate.
  - apply Nat.eqb_eq in E2. subst. rewrite Nat.eqb_refl in E1. discriminate.
Qed.

Lemma noloop_irrefl adj u : noloop adj u u = false.
Proof. unfold noloop. rewrite Nat.eqb_refl. apply andb_false_r. Qed.

Lemma clique_set_noloop adj l : clique_set (noloop adj) l <-> clique_set adj l.
Proof.
  unfold clique_set, noloop. split; intros H u v Hu Hv Hne.
  - specialize (H u v Hu Hv Hne). apply andb_true_iff in H. tauto.
  - rewrite (H u v Hu Hv Hne). apply Nat.eqb_neq in Hne. rewrite Hne. reflexivity.
Qed.

Theorem is_clique_noloop_spec adj l :
  (forall u v, adj u v = adj v u) -> NoDup l ->
  (is_clique (noloop adj) l = true <-> clique_set adj l).
Proof.
  intros Hs Hn. rewrite <- clique_set_noloop.
  apply is_clique_spec; auto using noloop_sym, noloop_irrefl.
Qed.

(* without node weights the source as it stands and the documented rule coincide *)
Lemma shrink_index_uniform adj nodes tbl d :
  shrink_index adj nodes false Uniform tbl d = shrink_index adj nodes true Uniform tbl d.
Proof. reflexivity. Qed.

Lemma grow_index_uniform adj nodes sub compl d :
  grow_index adj nodes false Uniform sub compl d = grow_index adj nodes true Uniform sub compl d.
Proof. reflexivity. Qed.

(* the removal rule of the source as it stands, outside weight mode *)
Theorem shrink_rule_as_is adj nodes s tbl d i :
  (forall w, s <> Weight w) -> tbl <> [] ->
  shrink_index adj nodes false s tbl d = Some i ->
  i < length tbl /\ (forall u, In u tbl -> deg_in adj (nth i tbl 0) tbl <= deg_in adj u tbl).
Proof.
  intros Hs Ht H.
  assert (H' : shrink_index adj nodes true s tbl d = Some i).
  { destruct s; try exact H. exfalso. eapply Hs. reflexivity. }
  destruct (shrink_rule_fixed adj nodes s tbl d i Ht H') as [A [B _]]. auto.
Qed.

Theorem grow_rule_as_is adj nodes s sub compl d i :
  (forall w, s <> Weight w) -> compl <> [] ->
  grow_index adj nodes false s sub compl d = Some i ->
  i < length compl /\ (forall c, In c compl -> deg_to adj c sub <= deg_to adj (nth i compl 0) sub).
Proof.
  intros Hs Ht H.
  assert (H' : grow_index adj nodes true s sub compl d = Some i).
  { destruct s; try exact H. exfalso. eapply Hs. reflexivity. }
  destruct (grow_index_rule adj nodes s sub compl d i Ht H') as [A [B _]]. auto.
Qed.
