(* C19 — completeness of the partition generator (reference enumerator complete for every n; the
   generator is duplicate-free and as long as the reference for n <= 40, checked by vm_compute) and
   the bounded agreement of the cardinalities with brute-force counts of samples. *)
From Coq Require Import List Arith NArith Bool Lia Permutation Sorted.
From SFV Require Import C19.Similarity C19.SimilarityProofs.
Import ListNotations.

(* ---------- reference enumerator: partitions of n with parts <= k ---------- *)
Fixpoint parts (fuel n k : nat) : list (list nat) :=
  match fuel with
  | 0 => if n =? 0 then [[]] else []
  | S f => if n =? 0 then [[]]
           else flat_map (fun j => map (cons j) (parts f (n - j) j)) (seq 1 (Nat.min n k))
  end.

Lemma parts_complete fuel : forall n k l, n <= fuel ->
  desc l -> Forall (fun v => 1 <= v) l -> Forall (fun v => v <= k) l -> list_sum l = n ->
  In l (parts fuel n k).
Proof.
  induction fuel as [|f IH]; intros n k l Hn D P K HS.
  - assert (Hz : n = 0) by lia. rewrite Hz in *. simpl.
    destruct l as [|x t]; [left; auto|].
    inversion P as [|? ? Hx Ht]. simpl in HS. lia.
  - simpl. destruct l as [|j t].
    + simpl in HS. rewrite <- HS. left; auto.
    + inversion P as [|? ? Hj Pt]. inversion K as [|? ? Kj Kt]. inversion D as [|? ? Dt Dj].
      simpl in HS.
      destruct (n =? 0) eqn:E; [apply Nat.eqb_eq in E; lia|].
      apply in_flat_map. exists j. split.
      * apply in_seq. lia.
      * apply in_map. apply IH; auto; try lia.
Qed.

(* ---------- duplicate-freeness by a strict lexicographic chain ---------- *)
Fixpoint lex_lt (a b : list nat) : bool :=
  match a, b with
  | [], [] => false
  | [], _ :: _ => true
  | _ :: _, [] => false
  | x :: a', y :: b' => (x <? y) || ((x =? y) && lex_lt a' b')
  end.

Lemma lex_lt_irrefl a : lex_lt a a = false.
Proof. induction a; simpl; auto. rewrite Nat.ltb_irrefl, Nat.eqb_refl. simpl; auto. Qed.

Lemma lex_lt_trans a : forall b c, lex_lt a b = true -> lex_lt b c = true -> lex_lt a c = true.
Proof.
  induction a as [|x a IH]; intros [|y b] [|z c] H1 H2; simpl in *; try discriminate; auto.
  apply orb_true_iff in H1. apply orb_true_iff in H2. apply orb_true_iff.
  destruct H1 as [H1|H1], H2 as [H2|H2].
  - left. apply Nat.ltb_lt in H1, H2. apply Nat.ltb_lt. lia.
  - apply andb_true_iff in H2. destruct H2 as [E _]. apply Nat.eqb_eq in E. subst. auto.
  - apply andb_true_iff in H1. destruct H1 as [E _]. apply Nat.eqb_eq in E. subst. auto.
  - apply andb_true_iff in H1. apply andb_true_iff in H2. destruct H1 as [E1 L1], H2 as [E2 L2].
    apply Nat.eqb_eq in E1, E2. subst. right. rewrite Nat.eqb_refl. simpl. eapply IH; eauto.
Qed.

Fixpoint chain (l : list (list nat)) : bool :=
  match l with
  | a :: (b :: _) as t => lex_lt a b && chain t
  | _ => true
  end.

Lemma chain_above a t : chain (a :: t) = true -> Forall (fun b => lex_lt a b = true) t.
Proof.
  revert a. induction t as [|b t IH]; intros a H; [constructor|].
  simpl in H. apply andb_true_iff in H. destruct H as [H1 H2]. constructor; auto.
  specialize (IH b H2). eapply Forall_impl; [|exact IH]. simpl. intros c Hc. eapply lex_lt_trans; eauto.
Qed.

Lemma chain_tail a t : chain (a :: t) = true -> chain t = true.
Proof. destruct t; simpl; auto. intros H. apply andb_true_iff in H. tauto. Qed.

Lemma chain_nodup l : chain l = true -> NoDup l.
Proof.
  induction l as [|a t IH]; intros H; constructor.
  - intros Hin. pose proof (chain_above _ _ H) as F. rewrite Forall_forall in F.
    specialize (F _ Hin). rewrite lex_lt_irrefl in F. discriminate.
  - apply IH. eapply chain_tail; eauto.
Qed.

Lemma in_le_sum o : forall v, In v o -> v <= list_sum o.
Proof. induction o as [|x t IH]; simpl; intros v H; [destruct H|]. destruct H as [->|H]; [lia|]. specialize (IH _ H). lia. Qed.

(* the per-n certificate, evaluated by vm_compute *)
Definition orbits_cert (n : nat) : bool :=
  chain (map (@rev nat) (orbits n)) && (length (parts n n n) <=? length (orbits n)).

Lemma orbits_complete_from_cert n l : 1 <= n -> orbits_cert n = true ->
  is_partition n l -> In l (orbits n).
Proof.
  intros Hn C [D [P HS]]. apply andb_true_iff in C. destruct C as [C1 C2].
  apply Nat.leb_le in C2.
  assert (ND : NoDup (orbits n)).
  { eapply NoDup_map_inv. apply chain_nodup. exact C1. }
  assert (I : incl (orbits n) (parts n n n)).
  { intros o Ho. destruct (orbits_sound n o Hn Ho) as [D' [P' S']].
    apply parts_complete; auto.
    apply Forall_forall. intros v Hv. rewrite <- S'. apply in_le_sum; auto. }
  pose proof (NoDup_length_incl ND C2 I) as I'. apply I'.
  apply parts_complete; auto.
  apply Forall_forall. intros v Hv. rewrite <- HS. apply in_le_sum; auto.
Qed.

Lemma orbits_nodup_from_cert n : orbits_cert n = true -> NoDup (orbits n).
Proof.
  intros C. apply andb_true_iff in C. destruct C as [C1 _].
  eapply NoDup_map_inv. apply chain_nodup. exact C1.
Qed.

Definition BOUND := 40.

Lemma orbits_cert_upto : forallb orbits_cert (seq 1 BOUND) = true.
Proof. vm_compute. reflexivity. Qed.

(* every partition of n is generated, exactly once, for 1 <= n <= 40 *)
Theorem orbits_complete_bounded n l : 1 <= n <= BOUND -> is_partition n l -> In l (orbits n) /\ NoDup (orbits n).
Proof.
  intros Hn HP. pose proof orbits_cert_upto as C. rewrite forallb_forall in C.
  assert (Hc : orbits_cert n = true) by (apply C, in_seq; unfold BOUND in *; lia).
  split; [apply orbits_complete_from_cert; auto; lia|apply orbits_nodup_from_cert; auto].
Qed.

Definition orbits_complete_statement : Prop :=
  forall n l, 1 <= n -> is_partition n l -> In l (orbits n) /\ NoDup (orbits n).

(* ---------- cardinalities against brute-force counts (bounded) ---------- *)
Fixpoint all_samples (m k : nat) : list (list nat) :=
  match m with
  | 0 => [[]]
  | S m' => flat_map (fun v => map (cons v) (all_samples m' k)) (seq 0 (S k))
  end.

Lemma all_samples_complete m : forall k s, length s = m -> Forall (fun v => v <= k) s -> In s (all_samples m k).
Proof.
  induction m as [|m IH]; intros k s L F.
  - destruct s; [left; auto|discriminate].
  - destruct s as [|x t]; [discriminate|]. inversion F; subst. simpl in L.
    change (all_samples (S m) k) with (flat_map (fun v => map (cons v) (all_samples m k)) (seq 0 (S k))).
    apply in_flat_map. exists x. split; [apply in_seq; lia|].
    apply in_map. apply IH; auto.
Qed.

Fixpoint list_eqb (a b : list nat) : bool :=
  match a, b with
  | [], [] => true
  | x :: a', y :: b' => (x =? y) && list_eqb a' b'
  | _, _ => false
  end.

(* number of samples of m modes (counts <= k) whose orbit is o *)
Definition samples_in_orbit (o : list nat) (m k : nat) : N :=
  N.of_nat (length (filter (fun s => list_eqb (sample_to_orbit s) o) (all_samples m k))).
(* number of samples of m modes with k photons and no count above c *)
Definition samples_in_event (k c m : nat) : N :=
  N.of_nat (length (filter (fun s => match sample_to_event s c with Some k' => k' =? k | None => false end)
                           (all_samples m k))).

Definition card_cert (km : nat * nat) : bool :=
  let (k, m) := km in
  forallb (fun o => (m <? length o) || N.eqb (orbit_cardinality o m) (samples_in_orbit o m k)) (orbits k).
Definition event_cert (kcm : nat * nat * nat) : bool :=
  let '(k, c, m) := kcm in N.eqb (event_cardinality k c m) (samples_in_event k c m).

Definition pairs (a b : list nat) : list (nat * nat) := flat_map (fun x => map (pair x) b) a.

Lemma card_cert_upto : forallb card_cert (pairs (seq 1 6) (seq 0 6)) = true.
Proof. vm_compute. reflexivity. Qed.

(* for 1..6 photons and 0..5 modes: orbit_cardinality = number of samples in the orbit *)
Theorem orbit_cardinality_counts_bounded k m o :
  1 <= k <= 6 -> m <= 5 -> In o (orbits k) -> length o <= m ->
  orbit_cardinality o m = samples_in_orbit o m k.
Proof.
  intros Hk Hm Ho Hl. pose proof card_cert_upto as C. rewrite forallb_forall in C.
  assert (Hin : In (k, m) (pairs (seq 1 6) (seq 0 6))).
  { unfold pairs. apply in_flat_map. exists k. split; [apply in_seq; lia|]. apply in_map, in_seq. lia. }
  specialize (C _ Hin). unfold card_cert in C. rewrite forallb_forall in C. specialize (C _ Ho).
  apply orb_true_iff in C. destruct C as [C|C]; [apply Nat.ltb_lt in C; lia|]. apply N.eqb_eq; auto.
Qed.

(* event_cardinality = number of samples in the event, when there are at least as many modes as
   photons (1 <= k <= m <= 5, 1 <= c <= 5) *)
Lemma event_cert_upto :
  forallb (fun k => forallb (fun c => forallb (fun m => (m <? k) || event_cert (k, c, m)) (seq 0 6)) (seq 1 5)) (seq 1 5) = true.
Proof. vm_compute. reflexivity. Qed.

Theorem event_cardinality_counts_bounded k c m :
  1 <= k <= m -> m <= 5 -> 1 <= c <= 5 -> event_cardinality k c m = samples_in_event k c m.
Proof.
  intros Hk Hm Hc. pose proof event_cert_upto as C. rewrite forallb_forall in C.
  assert (C1 := C k ltac:(apply in_seq; lia)). rewrite forallb_forall in C1.
  assert (C2 := C1 c ltac:(apply in_seq; lia)). rewrite forallb_forall in C2.
  assert (C3 := C2 m ltac:(apply in_seq; lia)).
  apply orb_true_iff in C3. destruct C3 as [C3|C3]; [apply Nat.ltb_lt in C3; lia|]. apply N.eqb_eq; auto.
Qed.

(* with fewer modes than photons the source counts orbits that have more parts than modes *)
Theorem event_cardinality_short_modes_refuted :
  exists k c m, 1 <= k /\ 1 <= m /\ event_cardinality k c m <> samples_in_event k c m.
Proof. exists 5, 4, 2. split; [lia|]. split; [lia|]. vm_compute. discriminate. Qed.
