(* C19 — bounded agreement of the cardinalities with brute-force counts of samples (vm_compute certificates).
   (Completeness of the partition generator is proved for every n in OrbitsComplete.v.) *)
From Coq Require Import List Arith NArith Bool Lia Permutation Sorted.
From SFV Require Import C19.Similarity C19.SimilarityProofs.
Import ListNotations.

(* ---------- cardinalities against brute-force counts (bounded) ---------- *)
Fixpoint all_samples (m k : nat) : list (list nat) :=
  match m with
  | 0 => [[]]
  | S m' => flat_map (fun v => map (cons v) (all_samples m' k)) (seq 0 (S k))
  end.

Lemma all_samples_complete m : forall k s, length s = m -> Forall (fun v => v <= k) s -> In s (all_samples m k).
Proof.
  induction m as [|m IH]; intros k s L F.
  - destruct s; [left; auto|discriminate].
  - destruct s as [|x t]; [discriminate|]. inversion F; subst. simpl in L.
    change (all_samples (S m) k) with (flat_map (fun v => map (cons v) (all_samples m k)) (seq 0 (S k))).
    apply in_flat_map. exists x. split; [apply in_seq; lia|].
    apply in_map. apply IH; auto.
Qed.

Fixpoint list_eqb (a b : list nat) : bool :=
  match a, b with
  | [], [] => true
  | x :: a', y :: b' => (x =? y) && list_eqb a' b'
  | _, _ => false
  end.

(* number of samples of m modes (counts <= k) whose orbit is o *)
Definition samples_in_orbit (o : list nat) (m k : nat) : N :=
  N.of_nat (length (filter (fun s => list_eqb (sample_to_orbit s) o) (all_samples m k))).
(* number of samples of m modes with k photons and no count above c *)
Definition samples_in_event (k c m : nat) : N :=
  N.of_nat (length (filter (fun s => match sample_to_event s c with Some k' => k' =? k | None => false end)
                           (all_samples m k))).

Definition card_cert (km : nat * nat) : bool :=
  let (k, m) := km in
  forallb (fun o => N.eqb (orbit_cardinality o m) (samples_in_orbit o m k)) (orbits k).
Definition event_cert (kcm : nat * nat * nat) : bool :=
  let '(k, c, m) := kcm in N.eqb (event_cardinality k c m) (samples_in_event k c m).

Definition pairs (a b : list nat) : list (nat * nat) := flat_map (fun x => map (pair x) b) a.

Lemma card_cert_upto : forallb card_cert (pairs (seq 1 6) (seq 0 6)) = true.
Proof. vm_compute. reflexivity. Qed.

(* for 1..6 photons and 0..5 modes: orbit_cardinality = number of samples in the orbit (0 when the orbit has
   more parts than there are modes) *)
Theorem orbit_cardinality_counts_bounded k m o :
  1 <= k <= 6 -> m <= 5 -> In o (orbits k) -> orbit_cardinality o m = samples_in_orbit o m k.
Proof.
  intros Hk Hm Ho. pose proof card_cert_upto as C. rewrite forallb_forall in C.
  assert (Hin : In (k, m) (pairs (seq 1 6) (seq 0 6))).
  { unfold pairs. apply in_flat_map. exists k. split; [apply in_seq; lia|]. apply in_map, in_seq. lia. }
  specialize (C _ Hin). unfold card_cert in C. rewrite forallb_forall in C. specialize (C _ Ho).
  apply N.eqb_eq; auto.
Qed.

(* event_cardinality = number of samples in the event (1 <= k <= 5, 1 <= c <= 5, m <= 5) *)
Lemma event_cert_upto :
  forallb (fun k => forallb (fun c => forallb (fun m => event_cert (k, c, m)) (seq 0 6)) (seq 1 5)) (seq 1 5) = true.
Proof. vm_compute. reflexivity. Qed.

Theorem event_cardinality_counts_bounded k c m :
  1 <= k <= 5 -> m <= 5 -> 1 <= c <= 5 -> event_cardinality k c m = samples_in_event k c m.
Proof.
  intros Hk Hm Hc. pose proof event_cert_upto as C. rewrite forallb_forall in C.
  assert (C1 := C k ltac:(apply in_seq; lia)). rewrite forallb_forall in C1.
  assert (C2 := C1 c ltac:(apply in_seq; lia)). rewrite forallb_forall in C2.
  assert (C3 := C2 m ltac:(apply in_seq; lia)).
  apply N.eqb_eq; auto.
Qed.

(* the OLD variant (before commit 87b9aa4) counted orbits that have more parts than modes *)
Theorem event_cardinality_pre87b9aa4_refuted :
  exists k c m, 1 <= k /\ 1 <= m /\ event_cardinality_pre87b9aa4 k c m <> samples_in_event k c m.
Proof. exists 5, 4, 2. split; [lia|]. split; [lia|]. vm_compute. discriminate. Qed.
