(* C19 — model of strawberryfields/apps/clique.py: is_clique, c_0, c_1, grow, swap, shrink.
   Definitions only.

   A graph is its node list [nodes] (graph.nodes order; node weights are given by position in it)
   and an adjacency test [adj : nat -> nat -> bool] (built from an edge list by [adj_of]; self-loops
   [adj u u = true] are allowed because networkx allows them).  Node sets are duplicate-free lists.
   Every np.random.choice(a) is the oracle: the next number d of [draws] selects a[d mod len a].
   Python `set` iteration orders are taken ascending: the harness only feeds graphs whose labels make
   CPython's order ascending and checks that on every case.  The row order of `np.array(g.degree)` of
   a copied subgraph is networkx's business: the harness observes it and passes it in ([tbl]). *)
From Coq Require Import List Arith ZArith Bool Lia.
From SFV Require Import C19.Similarity.
Import ListNotations.

Definition mem (x : nat) (l : list nat) : bool := existsb (Nat.eqb x) l.

Definition adj_of (edges : list (nat * nat)) (u v : nat) : bool :=
  existsb (fun e => ((fst e =? u) && (snd e =? v)) || ((fst e =? v) && (snd e =? u))) edges.

Section Graph.
Variable adj : nat -> nat -> bool.
Variable nodes : list nat.

(* number of edges of the induced subgraph on the duplicate-free list l, self-loops not counted
   (graph.number_of_edges() - nx.number_of_selfloops(graph), source since commit eefbefe) *)
Fixpoint edge_count (l : list nat) : nat :=
  match l with
  | [] => 0
  | u :: t => length (filter (adj u) t) + edge_count t
  end.

(* edges == n*(n-1)/2 *)
Definition is_clique (l : list nat) : bool := edge_count l * 2 =? length l * (length l - 1).

(* OLD variant (before eefbefe), kept by name for the refutation only: len(graph.edges) counts a self-loop as an edge *)
Fixpoint edge_count_pre_eefbefe (l : list nat) : nat :=
  match l with
  | [] => 0
  | u :: t => (if adj u u then 1 else 0) + length (filter (adj u) t) + edge_count_pre_eefbefe t
  end.
Definition is_clique_pre_eefbefe (l : list nat) : bool :=
  edge_count_pre_eefbefe l * 2 =? length l * (length l - 1).

(* networkx degree: neighbours other than itself, a self-loop counts twice *)
Definition deg_in (u : nat) (l : list nat) : nat :=
  length (filter (fun v => adj u v && negb (v =? u)) l) + (if adj u u then 2 else 0).
Definition degree (u : nat) : nat := deg_in u nodes.

Definition subset (a b : list nat) : bool := forallb (fun x => mem x b) a.

(* C_0: nodes outside the clique adjacent to every clique node; ascending *)
Definition c_0 (clique : list nat) : list nat :=
  sort_asc (filter (fun i => negb (mem i clique) && forallb (fun c => adj i c) clique) nodes).

(* C_1: (clique node, outside node) with the outside node adjacent to all clique nodes but that one *)
Definition c_1 (clique : list nat) : list (nat * nat) :=
  flat_map (fun i =>
              if mem i clique then []
              else match filter (fun c => negb (adj i c)) clique with
                   | [c] => [(c, i)]
                   | _ => []
                   end) (sort_asc nodes).

(* ---------- selection ---------- *)
Inductive sel := Uniform | Degree | Weight (w : list Z) | Other.
Inductive res := Ok (l : list nat) | ErrSubgraph | ErrClique | ErrWeights | ErrSelect.

Fixpoint index_of (x : nat) (l : list nat) : nat :=
  match l with [] => 0 | y :: t => if y =? x then 0 else S (index_of x t) end.
Definition weight_of (w : list Z) (n : nat) : Z := nth (index_of n nodes) w 0%Z.

Definition pick {A} (dflt : A) (cands : list A) (d : nat) : A := nth (d mod length cands) cands dflt.
Definition draw (draws : list nat) : nat * list nat :=
  match draws with [] => (0, []) | d :: t => (d, t) end.

Definition zmax (l : list Z) : Z := match l with [] => 0%Z | x :: t => fold_right Z.max x t end.
Definition zmin (l : list Z) : Z := match l with [] => 0%Z | x :: t => fold_right Z.min x t end.
Definition nmin (l : list nat) : nat := match l with [] => 0 | x :: t => fold_right Nat.min x t end.
(* np.where(v == key)[0] : the positions holding the key *)
Fixpoint positions_from {A} (i : nat) (p : A -> bool) (l : list A) : list nat :=
  match l with [] => [] | x :: t => (if p x then [i] else []) ++ positions_from (S i) p t end.
Definition positions {A} (p : A -> bool) (l : list A) : list nat := positions_from 0 p l.

(* index into [cands] chosen by the rule; None for an unknown rule *)
Definition choose_index (s : sel) (key_deg : nat -> nat) (cands : list nat) (d : nat) : option nat :=
  match s with
  | Uniform => Some (d mod length cands)
  | Degree =>
      let ds := map key_deg cands in
      Some (pick 0 (positions (Nat.eqb (list_max ds)) ds) d)
  | Weight w =>
      let ws := map (weight_of w) cands in
      Some (pick 0 (positions (Z.eqb (zmax ws)) ws) d)
  | Other => None
  end.

Definition weights_ok (s : sel) : bool :=
  match s with Weight w => length w =? length nodes | _ => true end.

(* ---------- grow ---------- *)
Fixpoint grow_loop (fuel : nat) (s : sel) (clique : list nat) (draws : list nat) : res :=
  match fuel with
  | 0 => Ok (sort_asc clique)
  | S f =>
      if negb (is_clique clique) then ErrClique     (* c_0 re-checks its argument *)
      else match c_0 clique with
           | [] => Ok (sort_asc clique)
           | c0 =>
               let (d, draws') := draw draws in
               match choose_index s degree c0 d with
               | None => ErrSelect
               | Some i => grow_loop f s (nth i c0 0 :: clique) draws'
               end
           end
  end.

Definition grow (s : sel) (clique : list nat) (draws : list nat) : res :=
  if negb (subset clique nodes) then ErrSubgraph
  else if negb (is_clique (dedup clique)) then ErrClique
  else if negb (weights_ok s) then ErrWeights
  else grow_loop (S (length nodes)) s (dedup clique) draws.

(* ---------- swap ---------- *)
Definition remove_node (x : nat) (l : list nat) : list nat := filter (fun y => negb (y =? x)) l.

Definition swap (s : sel) (clique : list nat) (draws : list nat) : res :=
  if negb (subset clique nodes) then ErrSubgraph
  else if negb (is_clique (dedup clique)) then ErrClique
  else if negb (weights_ok s) then ErrWeights
  else
    let cl := dedup clique in
    match c_1 cl with
    | [] => Ok (sort_asc cl)
    | c1 =>
        let (d, _) := draw draws in
        match choose_index s degree (map snd c1) d with
        | None => ErrSelect
        | Some i => let p := nth i c1 (0, 0) in Ok (sort_asc (snd p :: remove_node (fst p) cl))
        end
    end.

(* ---------- shrink ---------- *)
(* [fixed = true] is the source (since commit 5c60841): the position found inside the minimum-degree
   sub-array is mapped back through that sub-array to a row of the degree table.
   [fixed = false] is the OLD variant (before 5c60841): that position was used directly as a table row.
   The current-code entry points are [shrink_index_cur] / [shrink_cur] below. *)
Definition shrink_index (fixed : bool) (s : sel) (tbl : list nat) (d : nat) : option nat :=
  let degs := map (fun u => deg_in u tbl) tbl in
  let dmin := positions (Nat.eqb (nmin degs)) degs in
  match s with
  | Uniform => Some (pick 0 dmin d)
  | Weight w =>
      let ws := map (fun n => weight_of w (nth n tbl 0)) dmin in
      let j := pick 0 (positions (Z.eqb (zmin ws)) ws) d in
      Some (if fixed then nth j dmin 0 else j)
  | _ => None
  end.

Fixpoint remove_nth {A} (i : nat) (l : list A) : list A :=
  match l, i with
  | [], _ => []
  | _ :: t, 0 => t
  | x :: t, S j => x :: remove_nth j t
  end.

Fixpoint shrink_loop (fuel : nat) (fixed : bool) (s : sel) (tbl : list nat) (draws : list nat) : res :=
  match fuel with
  | 0 => Ok (sort_asc tbl)
  | S f =>
      if is_clique tbl then Ok (sort_asc tbl)
      else
        let (d, draws') := draw draws in
        match shrink_index fixed s tbl d with
        | None => ErrSelect
        | Some i => shrink_loop f fixed s (remove_nth i tbl) draws'
        end
  end.

(* [tbl] : the nodes of the subgraph in the row order of np.array(subgraph.degree) *)
Definition shrink (fixed : bool) (s : sel) (tbl : list nat) (draws : list nat) : res :=
  if negb (subset tbl nodes) then ErrSubgraph
  else if negb (weights_ok s) then ErrWeights
  else shrink_loop (S (length tbl)) fixed s tbl draws.

(* ---------- search (clique.search): grow, swap, repeat ---------- *)
Fixpoint leqb (a b : list nat) : bool :=
  match a, b with
  | [], [] => true
  | x :: a', y :: b' => (x =? y) && leqb a' b'
  | _, _ => false
  end.

(* grow draws once per added node, swap once when C_1 is not empty; iterations < 1 is a ValueError *)
Fixpoint csearch (iters : nat) (s : sel) (clique draws : list nat) : res :=
  match iters with
  | 0 => ErrSelect
  | S i =>
      match grow s clique draws with
      | Ok g =>
          let dr := skipn (length g - length (dedup clique)) draws in
          match swap s g dr with
          | Ok sw =>
              if leqb g sw || (i =? 0) then Ok sw
              else csearch i s sw (skipn (match c_1 g with [] => 0 | _ => 1 end) dr)
          | e => e
          end
      | e => e
      end
  end.

(* the source as it stands *)
Definition shrink_index_cur := shrink_index true.
Definition shrink_cur := shrink true.

End Graph.
