(* C19 — lemmas about the model in Similarity.v *)
From Coq Require Import List Arith NArith Bool Lia Permutation Sorted.
From SFV Require Import C19.Similarity.
Import ListNotations.

(* ---------- sorting ---------- *)
Lemma insert_desc_perm x l : Permutation (insert_desc x l) (x :: l).
Proof.
  induction l as [|y t IH]; simpl; auto.
  destruct (y <=? x); auto.
  rewrite IH. apply perm_swap.
Qed.

Lemma sort_desc_perm l : Permutation (sort_desc l) l.
Proof.
  induction l as [|x t IH]; simpl; auto.
  rewrite insert_desc_perm. auto.
Qed.

Definition desc (l : list nat) : Prop := StronglySorted (fun a b => b <= a) l.

Lemma insert_desc_sorted x l : desc l -> desc (insert_desc x l).
Proof.
  unfold desc. induction 1 as [|y t Hs IH Hy]; simpl.
  - constructor; constructor.
  - destruct (y <=? x) eqn:E.
    + apply Nat.leb_le in E. constructor; [constructor; auto|].
      constructor; auto. eapply Forall_impl; [|exact Hy]. simpl; intros; lia.
    + apply Nat.leb_gt in E. constructor; auto.
      eapply Permutation_Forall; [symmetry; apply insert_desc_perm|].
      constructor; auto; lia.
Qed.

Lemma sort_desc_sorted l : desc (sort_desc l).
Proof. induction l; simpl; [constructor|apply insert_desc_sorted; auto]. Qed.

Lemma insert_asc_perm x l : Permutation (insert_asc x l) (x :: l).
Proof.
  induction l as [|y t IH]; simpl; auto.
  destruct (x <=? y); auto.
  rewrite IH. apply perm_swap.
Qed.

Lemma sort_asc_perm l : Permutation (sort_asc l) l.
Proof.
  induction l as [|x t IH]; simpl; auto.
  rewrite insert_asc_perm. auto.
Qed.

Lemma list_sum_perm l l' : Permutation l l' -> list_sum l = list_sum l'.
Proof. induction 1; simpl; lia. Qed.

(* a sorted list is determined by its elements *)
Lemma desc_perm_eq l : forall l', desc l -> desc l' -> Permutation l l' -> l = l'.
Proof.
  unfold desc. induction l as [|a t IH]; intros l' Hl Hl' P.
  - apply Permutation_nil in P. auto.
  - destruct l' as [|b t']; [apply Permutation_sym, Permutation_nil in P; discriminate|].
    inversion Hl as [|? ? Hs Ha]; inversion Hl' as [|? ? Hs' Hb]; subst.
    assert (a = b).
    { assert (Ia : In a (b :: t')) by (eapply Permutation_in; [exact P|left; auto]).
      assert (Ib : In b (a :: t)) by (eapply Permutation_in; [symmetry; exact P|left; auto]).
      destruct Ia as [->|Ia]; auto. destruct Ib as [->|Ib]; auto.
      rewrite Forall_forall in Ha, Hb. specialize (Ha _ Ib). specialize (Hb _ Ia). lia. }
    subst b. f_equal. apply IH; auto. eapply Permutation_cons_inv; eauto.
Qed.

(* ---------- partitions ---------- *)
Definition is_partition (n : nat) (o : list nat) : Prop :=
  desc o /\ Forall (fun v => 1 <= v) o /\ list_sum o = n.

Lemma emit_partition st tail n :
  Forall (fun v => 1 <= v) st -> Forall (fun v => 1 <= v) tail ->
  list_sum st + list_sum tail = n -> is_partition n (emit st tail).
Proof.
  intros Hst Ht Hs. unfold is_partition, emit. split; [apply sort_desc_sorted|]. split.
  - eapply Permutation_Forall; [symmetry; apply sort_desc_perm|].
    apply Forall_app; split; auto. apply Forall_rev; auto.
  - rewrite (list_sum_perm _ _ (sort_desc_perm _)), list_sum_app.
    rewrite (list_sum_perm (rev st) st); [lia|]. symmetry. apply Permutation_rev.
Qed.

Lemma loop1_inv fuel x : 1 <= x -> forall st y st' y',
  loop1 fuel x st y = (st', y') -> Forall (fun v => 1 <= v) st ->
  Forall (fun v => 1 <= v) st' /\ list_sum st' + y' = list_sum st + y.
Proof.
  intros Hx. induction fuel as [|f IH]; intros st y st' y' H Hst; simpl in H.
  - inversion H; subst; auto.
  - destruct (x + (x + 0) <=? y) eqn:E.
    + apply Nat.leb_le in E. apply IH in H; [|constructor; auto].
      destruct H as [H1 H2]. split; auto. simpl in H2. lia.
    + inversion H; subst; auto.
Qed.

Lemma loop2_inv fuel st : Forall (fun v => 1 <= v) st -> forall x y outs x' y',
  loop2 fuel x y st = (outs, x', y') -> 1 <= x ->
  x' + y' = x + y /\ 1 <= x' /\ forall o, In o outs -> is_partition (list_sum st + x + y) o.
Proof.
  intros Hst. induction fuel as [|f IH]; intros x y outs x' y' H Hx; simpl in H.
  - inversion H; subst. split; [|split]; auto. intros o [].
  - destruct (x <=? y) eqn:E.
    + apply Nat.leb_le in E.
      destruct (loop2 f (S x) (y - 1) st) as [[o1 x1] y1] eqn:R.
      inversion H; subst. apply IH in R; [|lia]. destruct R as [R1 [R2 R3]].
      split; [|split]; try lia. intros o [<-|Ho].
      * apply emit_partition; auto. { repeat constructor; lia. } simpl; lia.
      * replace (list_sum st + x + y) with (list_sum st + S x + (y - 1)) by lia. auto.
    + inversion H; subst. split; [|split]; auto. intros o [].
Qed.

Definition kinv (n : nat) (st : list nat) (y : nat) : Prop :=
  Forall (fun v => 1 <= v) (tl st) /\ list_sum st + y + 1 = n.

Lemma outer_inv n st y outs st1 y1 :
  st <> [] -> kinv n st y -> outer st y = (outs, st1, y1) ->
  Forall (fun v => 1 <= v) st1 /\ list_sum st1 + y1 + 1 = n /\ forall o, In o outs -> is_partition n o.
Proof.
  intros Hne [Ht Hs] H. destruct st as [|x0 st0]; [congruence|]. simpl in Ht, Hs.
  unfold outer in H.
  destruct (loop1 y (S x0) st0 y) as [s1 yy1] eqn:L1.
  destruct (loop2 (S yy1) (S x0) yy1 s1) as [[o2 x2] y2] eqn:L2.
  injection H as Ho Hs1 Hy1. subst outs st1 y1.
  apply loop1_inv in L1; [|lia|auto]. destruct L1 as [F1 S1].
  apply loop2_inv in L2; [|auto|lia]. destruct L2 as [E2 [P2 O2]].
  split; auto. split; [lia|].
  intros o Ho. apply in_app_or in Ho. destruct Ho as [Ho|[<-|[]]].
  - apply O2 in Ho. replace n with (list_sum s1 + S x0 + yy1) by lia. auto.
  - apply emit_partition; auto. { repeat constructor; lia. } simpl; lia.
Qed.

Lemma run_inv n d : forall st y outs st1 y1,
  kinv n st y -> run d st y = (outs, st1, y1) ->
  kinv n st1 y1 /\ forall o, In o outs -> is_partition n o.
Proof.
  induction d as [|d IH]; intros st y outs st1 y1 K H; simpl in H.
  - destruct st as [|a t].
    + inversion H; subst. split; auto. intros o [].
    + apply outer_inv with (n := n) in H; auto; [|discriminate].
      destruct H as [F [S O]]. split; auto. split; auto.
      destruct st1; simpl; auto. inversion F; auto.
  - destruct (run d st y) as [[o1 s1] yy1] eqn:R1.
    apply IH in R1; auto. destruct R1 as [K1 O1].
    destruct s1 as [|a t].
    + inversion H; subst. auto.
    + destruct (run d (a :: t) yy1) as [[o2 s2] yy2] eqn:R2.
      apply IH in R2; auto. destruct R2 as [K2 O2].
      inversion H; subst. split; auto.
      intros o Ho. apply in_app_or in Ho. destruct Ho; auto.
Qed.

Theorem orbits_sound n o : 1 <= n -> In o (orbits n) -> is_partition n o.
Proof.
  intros Hn H. unfold orbits in H. destruct n as [|m]; [lia|].
  destruct (run (S m) [0] (S m - 1)) as [[outs s1] y1] eqn:R.
  apply run_inv with (n := S m) in R.
  - simpl in H. apply R; auto.
  - split; simpl; [constructor|lia].
Qed.

(* orbits(0) yields [0], which has a zero part: not a partition of 0 (the only one is []) *)
Theorem orbits_zero_refuted : exists o, In o (orbits 0) /\ ~ is_partition 0 o.
Proof.
  exists [0]. split; [left; reflexivity|].
  intros [_ [F _]]. inversion F; lia.
Qed.
