(* C19 — lemmas about the model in Similarity.v *)
From Coq Require Import List Arith NArith Bool Lia Permutation Sorted.
From SFV Require Import C19.Similarity.
Import ListNotations.

(* ---------- sorting ---------- *)
Lemma insert_desc_perm x l : Permutation (insert_desc x l) (x :: l).
Proof.
  induction l as [|y t IH]; simpl; auto.
  destruct (y <=? x); auto.
  rewrite IH. apply perm_swap.
Qed.

Lemma sort_desc_perm l : Permutation (sort_desc l) l.
Proof.
  induction l as [|x t IH]; simpl; auto.
  rewrite insert_desc_perm. auto.
Qed.

Definition desc (l : list nat) : Prop := StronglySorted (fun a b => b <= a) l.

Lemma insert_desc_sorted x l : desc l -> desc (insert_desc x l).
Proof.
  unfold desc. induction 1 as [|y t Hs IH Hy]; simpl.
  - constructor; constructor.
  - destruct (y <=? x) eqn:E.
    + apply Nat.leb_le in E. constructor; [constructor; auto|].
      constructor; auto. eapply Forall_impl; [|exact Hy]. simpl; intros; lia.
    + apply Nat.leb_gt in E. constructor; auto.
      eapply Permutation_Forall; [symmetry; apply insert_desc_perm|].
      constructor; auto; lia.
Qed.

Lemma sort_desc_sorted l : desc (sort_desc l).
Proof. induction l; simpl; [constructor|apply insert_desc_sorted; auto]. Qed.

Lemma insert_asc_perm x l : Permutation (insert_asc x l) (x :: l).
Proof.
  induction l as [|y t IH]; simpl; auto.
  destruct (x <=? y); auto.
  rewrite IH. apply perm_swap.
Qed.

Lemma sort_asc_perm l : Permutation (sort_asc l) l.
Proof.
  induction l as [|x t IH]; simpl; auto.
  rewrite insert_asc_perm. auto.
Qed.

Lemma list_sum_perm l l' : Permutation l l' -> list_sum l = list_sum l'.
Proof. induction 1; simpl; lia. Qed.

(* a sorted list is determined by its elements *)
Lemma desc_perm_eq l : forall l', desc l -> desc l' -> Permutation l l' -> l = l'.
Proof.
  unfold desc. induction l as [|a t IH]; intros l' Hl Hl' P.
  - apply Permutation_nil in P. auto.
  - destruct l' as [|b t']; [apply Permutation_sym, Permutation_nil in P; discriminate|].
    inversion Hl as [|? ? Hs Ha]; inversion Hl' as [|? ? Hs' Hb]; subst.
    assert (a = b).
    { assert (Ia : In a (b :: t')) by (eapply Permutation_in; [exact P|left; auto]).
      assert (Ib : In b (a :: t)) by (eapply Permutation_in; [symmetry; exact P|left; auto]).
      destruct Ia as [->|Ia]; auto. destruct Ib as [->|Ib]; auto.
      rewrite Forall_forall in Ha, Hb. specialize (Ha _ Ib). specialize (Hb _ Ia). lia. }
    subst b. f_equal. apply IH; auto. eapply Permutation_cons_inv; eauto.
Qed.

(* ---------- partitions ---------- *)
Definition is_partition (n : nat) (o : list nat) : Prop :=
  desc o /\ Forall (fun v => 1 <= v) o /\ list_sum o = n.

Lemma emit_partition st tail n :
  Forall (fun v => 1 <= v) st -> Forall (fun v => 1 <= v) tail ->
  list_sum st + list_sum tail = n -> is_partition n (emit st tail).
Proof.
  intros Hst Ht Hs. unfold is_partition, emit. split; [apply sort_desc_sorted|]. split.
  - eapply Permutation_Forall; [symmetry; apply sort_desc_perm|].
    apply Forall_app; split; auto. apply Forall_rev; auto.
  - rewrite (list_sum_perm _ _ (sort_desc_perm _)), list_sum_app.
    rewrite (list_sum_perm (rev st) st); [lia|]. symmetry. apply Permutation_rev.
Qed.

Lemma loop1_inv fuel x : 1 <= x -> forall st y st' y',
  loop1 fuel x st y = (st', y') -> Forall (fun v => 1 <= v) st ->
  Forall (fun v => 1 <= v) st' /\ list_sum st' + y' = list_sum st + y.
Proof.
  intros Hx. induction fuel as [|f IH]; intros st y st' y' H Hst; simpl in H.
  - inversion H; subst; auto.
  - destruct (x + (x + 0) <=? y) eqn:E.
    + apply Nat.leb_le in E. apply IH in H; [|constructor; auto].
      destruct H as [H1 H2]. split; auto. simpl in H2. lia.
    + inversion H; subst; auto.
Qed.

Lemma loop2_inv fuel st : Forall (fun v => 1 <= v) st -> forall x y outs x' y',
  loop2 fuel x y st = (outs, x', y') -> 1 <= x ->
  x' + y' = x + y /\ 1 <= x' /\ forall o, In o outs -> is_partition (list_sum st + x + y) o.
Proof.
  intros Hst. induction fuel as [|f IH]; intros x y outs x' y' H Hx; simpl in H.
  - inversion H; subst. split; [|split]; auto. intros o [].
  - destruct (x <=? y) eqn:E.
    + apply Nat.leb_le in E.
      destruct (loop2 f (S x) (y - 1) st) as [[o1 x1] y1] eqn:R.
      inversion H; subst. apply IH in R; [|lia]. destruct R as [R1 [R2 R3]].
      split; [|split]; try lia. intros o [<-|Ho].
      * apply emit_partition; auto. { repeat constructor; lia. } simpl; lia.
      * replace (list_sum st + x + y) with (list_sum st + S x + (y - 1)) by lia. auto.
    + inversion H; subst. split; [|split]; auto. intros o [].
Qed.

Definition kinv (n : nat) (st : list nat) (y : nat) : Prop :=
  Forall (fun v => 1 <= v) (tl st) /\ list_sum st + y + 1 = n.

Lemma outer_inv n st y outs st1 y1 :
  st <> [] -> kinv n st y -> outer st y = (outs, st1, y1) ->
  Forall (fun v => 1 <= v) st1 /\ list_sum st1 + y1 + 1 = n /\ forall o, In o outs -> is_partition n o.
Proof.
  intros Hne [Ht Hs] H. destruct st as [|x0 st0]; [congruence|]. simpl in Ht, Hs.
  unfold outer in H.
  destruct (loop1 y (S x0) st0 y) as [s1 yy1] eqn:L1.
  destruct (loop2 (S yy1) (S x0) yy1 s1) as [[o2 x2] y2] eqn:L2.
  injection H as Ho Hs1 Hy1. subst outs st1 y1.
  apply loop1_inv in L1; [|lia|auto]. destruct L1 as [F1 S1].
  apply loop2_inv in L2; [|auto|lia]. destruct L2 as [E2 [P2 O2]].
  split; auto. split; [lia|].
  intros o Ho. apply in_app_or in Ho. destruct Ho as [Ho|[<-|[]]].
  - apply O2 in Ho. replace n with (list_sum s1 + S x0 + yy1) by lia. auto.
  - apply emit_partition; auto. { repeat constructor; lia. } simpl; lia.
Qed.

Lemma run_inv n d : forall st y outs st1 y1,
  kinv n st y -> run d st y = (outs, st1, y1) ->
  kinv n st1 y1 /\ forall o, In o outs -> is_partition n o.
Proof.
  induction d as [|d IH]; intros st y outs st1 y1 K H; simpl in H.
  - destruct st as [|a t].
    + inversion H; subst. split; auto. intros o [].
    + apply outer_inv with (n := n) in H; auto; [|discriminate].
      destruct H as [F [S O]]. split; auto. split; auto.
      destruct st1; simpl; auto. inversion F; auto.
  - destruct (run d st y) as [[o1 s1] yy1] eqn:R1.
    apply IH in R1; auto. destruct R1 as [K1 O1].
    destruct s1 as [|a t].
    + inversion H; subst. auto.
    + destruct (run d (a :: t) yy1) as [[o2 s2] yy2] eqn:R2.
      apply IH in R2; auto. destruct R2 as [K2 O2].
      inversion H; subst. split; auto.
      intros o Ho. apply in_app_or in Ho. destruct Ho; auto.
Qed.

Theorem orbits_sound n o : 1 <= n -> In o (orbits n) -> is_partition n o.
Proof.
  intros Hn H. unfold orbits in H. destruct n as [|m]; [lia|].
  destruct (run (S m) [0] (S m - 1)) as [[outs s1] y1] eqn:R.
  apply run_inv with (n := S m) in R.
  - simpl in H. apply R; auto.
  - split; simpl; [constructor|lia].
Qed.

(* orbits(0) yields [0], which has a zero part: not a partition of 0 (the only one is []) *)
Theorem orbits_zero_refuted : exists o, In o (orbits 0) /\ ~ is_partition 0 o.
Proof.
  exists [0]. split; [left; reflexivity|].
  intros [_ [F _]]. inversion F; lia.
Qed.

(* ---------- conversions ---------- *)
Lemma filter_perm {A} (f : A -> bool) l l' : Permutation l l' -> Permutation (filter f l) (filter f l').
Proof.
  induction 1; simpl; auto.
  - destruct (f x); auto.
  - destruct (f x), (f y); auto. apply perm_swap.
  - etransitivity; eauto.
Qed.

(* the orbit of a sample does not depend on the order of the modes *)
Theorem sample_to_orbit_perm s s' : Permutation s s' -> sample_to_orbit s = sample_to_orbit s'.
Proof.
  intros P. unfold sample_to_orbit. apply desc_perm_eq; try apply sort_desc_sorted.
  rewrite !sort_desc_perm. apply filter_perm; auto.
Qed.

Lemma sort_desc_id o : desc o -> sort_desc o = o.
Proof. intros H. apply desc_perm_eq; auto using sort_desc_sorted, sort_desc_perm. Qed.

Lemma filter_nonzero_pos o : Forall (fun v => 1 <= v) o -> filter nonzero o = o.
Proof.
  induction 1 as [|x t Hx _ IH]; simpl; auto.
  unfold nonzero at 1. destruct x; [lia|]. simpl. f_equal; auto.
Qed.

Lemma filter_nonzero_zeros k : filter nonzero (repeat 0 k) = [].
Proof. induction k; simpl; auto. Qed.

Theorem sample_to_orbit_pad o m : desc o -> Forall (fun v => 1 <= v) o -> sample_to_orbit (pad o m) = o.
Proof.
  intros D F. unfold sample_to_orbit, pad. rewrite filter_app, filter_nonzero_zeros, app_nil_r.
  rewrite filter_nonzero_pos; auto. apply sort_desc_id; auto.
Qed.

Lemma map_nth_seq_gen (l : list nat) : forall pre,
  map (fun i => nth i (pre ++ l) 0) (seq (length pre) (length l)) = l.
Proof.
  induction l as [|x t IH]; intros pre; simpl; auto.
  rewrite nth_middle. f_equal.
  specialize (IH (pre ++ [x])). rewrite app_length in IH. simpl in IH.
  rewrite Nat.add_1_r, <- app_assoc in IH. exact IH.
Qed.

Lemma map_nth_seq (l : list nat) : map (fun i => nth i l 0) (seq 0 (length l)) = l.
Proof. exact (map_nth_seq_gen l []). Qed.

Lemma apply_perm_perm perm l : Permutation perm (seq 0 (length l)) -> Permutation (apply_perm perm l) l.
Proof.
  intros P. unfold apply_perm.
  eapply Permutation_trans; [apply Permutation_map; exact P|]. rewrite map_nth_seq. apply Permutation_refl.
Qed.

Lemma pad_length o m : length o <= m -> length (pad o m) = m.
Proof. intros. unfold pad. rewrite app_length, repeat_length. lia. Qed.

(* orbit -> sample -> orbit, for every shuffle *)
Theorem orbit_to_sample_roundtrip o m perm s :
  desc o -> Forall (fun v => 1 <= v) o -> Permutation perm (seq 0 m) ->
  orbit_to_sample o m perm = Some s -> sample_to_orbit s = o /\ length s = m.
Proof.
  intros D F P H. unfold orbit_to_sample in H.
  destruct (m <? length o) eqn:E; [discriminate|]. apply Nat.ltb_ge in E.
  injection H as <-. rewrite <- (pad_length o m E) in P. split.
  - rewrite (sample_to_orbit_perm _ _ (apply_perm_perm _ _ P)). apply sample_to_orbit_pad; auto.
  - rewrite (Permutation_length (apply_perm_perm _ _ P)). apply pad_length; auto.
Qed.

Lemma list_max_le_iff l c : list_max l <= c <-> Forall (fun v => v <= c) l.
Proof.
  induction l as [|x t IH]; simpl.
  - split; auto with arith.
  - split.
    + intros H. constructor; [lia|]. apply IH. lia.
    + intros H. inversion H; subst. apply IH in H3. lia.
Qed.

Theorem sample_to_event_spec s c k :
  sample_to_event s c = Some k <-> Forall (fun v => v <= c) s /\ k = list_sum s.
Proof.
  unfold sample_to_event. destruct (list_max s <=? c) eqn:E.
  - apply Nat.leb_le, list_max_le_iff in E. split.
    + intros H; injection H as <-; auto.
    + intros [_ ->]; auto.
  - apply Nat.leb_gt in E. split; [discriminate|].
    intros [H _]. apply list_max_le_iff in H. lia.
Qed.

Lemma filter_nonzero_sum s : list_sum (filter nonzero s) = list_sum s.
Proof. induction s as [|x t IH]; simpl; auto. destruct x; simpl; lia. Qed.

(* the orbit of a sample is a partition of its photon number *)
Theorem sample_to_orbit_partition s : is_partition (list_sum s) (sample_to_orbit s).
Proof.
  unfold is_partition, sample_to_orbit. split; [apply sort_desc_sorted|]. split.
  - eapply Permutation_Forall; [symmetry; apply sort_desc_perm|].
    apply Forall_forall. intros x Hx. apply filter_In in Hx. destruct Hx as [_ Hx].
    unfold nonzero in Hx. destruct x; [discriminate|lia].
  - rewrite (list_sum_perm _ _ (sort_desc_perm _)). apply filter_nonzero_sum.
Qed.

Lemma in_sample_orbit s v : In v s -> v = 0 \/ In v (sample_to_orbit s).
Proof.
  intros H. destruct v as [|v]; [left; auto|right].
  unfold sample_to_orbit. apply (Permutation_in _ (Permutation_sym (sort_desc_perm _))).
  apply filter_In. split; auto.
Qed.

(* whatever the oracle draws, event_to_sample returns a sample of the requested event *)
Theorem event_to_sample_sound k c m d perm s :
  1 <= k -> Permutation perm (seq 0 m) -> event_to_sample k c m d perm = Some s ->
  length s = m /\ list_sum s = k /\ Forall (fun v => v <= c) s /\ sample_to_event s c = Some k.
Proof.
  intros Hk P H. unfold event_to_sample in H.
  destruct (c * m <? k); [discriminate|].
  set (orbs := filter (fun o => (list_max o <=? c) && (length o <=? m)) (orbits k)) in *.
  set (cands := filter (fun o => negb (N.eqb (orbit_cardinality o m) 0)) orbs) in *.
  destruct cands as [|o0 rest] eqn:Ec; [discriminate|].
  assert (Hin : In (nth (d mod length (o0 :: rest)) (o0 :: rest) []) cands).
  { rewrite Ec. apply nth_In. apply Nat.mod_upper_bound. simpl; lia. }
  set (o := nth (d mod length (o0 :: rest)) (o0 :: rest) []) in *.
  unfold cands in Hin. apply filter_In in Hin. destruct Hin as [Hin _].
  unfold orbs in Hin. apply filter_In in Hin. destruct Hin as [Ho Hmax].
  apply andb_true_iff in Hmax. destruct Hmax as [Hmax _]. apply Nat.leb_le in Hmax.
  destruct (orbits_sound k o Hk Ho) as [D [F S]].
  destruct (orbit_to_sample_roundtrip o m perm s D F P H) as [R L].
  assert (Hsum : list_sum s = k).
  { destruct (sample_to_orbit_partition s) as [_ [_ E]]. rewrite R in E. lia. }
  assert (Hle : Forall (fun v => v <= c) s).
  { apply Forall_forall. intros v Hv. destruct (in_sample_orbit s v Hv) as [->|Hv']; [lia|].
    rewrite R in Hv'. apply list_max_le_iff in Hmax. rewrite Forall_forall in Hmax. auto. }
  repeat split; auto. apply sample_to_event_spec. auto.
Qed.

(* ---------- exact cardinalities ---------- *)
Lemma factN_S n : factN (S n) = (N.of_nat (S n) * factN n)%N.
Proof. reflexivity. Qed.

Lemma factN_pos n : (factN n <> 0)%N.
Proof.
  induction n as [|n IH]; [simpl; discriminate|].
  rewrite factN_S. apply N.neq_mul_0. split; [lia|auto].
Qed.

(* a! b! divides (a+b)! *)
Lemma fact_div a : forall b, exists q, (q * (factN a * factN b) = factN (a + b))%N.
Proof.
  induction a as [|a IHa]; intros b.
  - exists 1%N. simpl factN at 1. simpl plus. lia.
  - induction b as [|b IHb].
    + exists 1%N. rewrite Nat.add_0_r. simpl factN at 2. lia.
    + destruct (IHa (S b)) as [q1 H1]. destruct IHb as [q2 H2].
      exists (q1 + q2)%N.
      replace (S a + S b) with (S (a + S b)) by lia.
      replace (S a + b) with (a + S b) in H2 by lia.
      rewrite (factN_S (a + S b)), (factN_S a), (factN_S b) in *.
      set (x := factN a) in *. set (y := factN b) in *. set (F := factN (a + S b)) in *.
      replace (N.of_nat (S (a + S b))) with (N.of_nat (S a) + N.of_nat (S b))%N by lia.
      set (A := N.of_nat (S a)) in *. set (B := N.of_nat (S b)) in *.
      replace ((q1 + q2) * (A * x * (B * y)))%N
        with (A * (q1 * (x * (B * y))) + B * (q2 * (A * x * y)))%N by ring.
      rewrite H1, H2. ring.
Qed.

Lemma count_occ_remove_length v l : length (remove_all v l) + count_occ_nat v l = length l.
Proof. induction l as [|x t IH]; simpl; auto. destruct (x =? v); simpl; lia. Qed.

Lemma prod_fact_pos cs : (prod_fact cs <> 0)%N.
Proof.
  induction cs as [|c t IH]; simpl; [discriminate|].
  pose proof (factN_pos c). lia.
Qed.

Lemma mults_div fuel : forall l, length l <= fuel ->
  exists q, (q * prod_fact (mults fuel l) = factN (length l))%N.
Proof.
  induction fuel as [|f IH]; intros l Hl.
  - destruct l; [|simpl in Hl; lia]. exists 1%N. reflexivity.
  - destruct l as [|v t].
    + exists 1%N. reflexivity.
    + change (mults (S f) (v :: t)) with (count_occ_nat v (v :: t) :: mults f (remove_all v (v :: t))).
      pose proof (count_occ_remove_length v (v :: t)) as HL.
      assert (Hc : 1 <= count_occ_nat v (v :: t)) by (simpl; rewrite Nat.eqb_refl; lia).
      set (c := count_occ_nat v (v :: t)) in *. set (r := remove_all v (v :: t)) in *.
      destruct (IH r) as [q' Hq']; [lia|].
      destruct (fact_div c (length r)) as [q0 Hq0].
      exists (q0 * q')%N.
      change (prod_fact (c :: mults f r)) with (factN c * prod_fact (mults f r))%N.
      replace (c + length r) with (length (v :: t)) in Hq0 by lia.
      rewrite <- Hq0, <- Hq'. ring.
Qed.

(* the model's orbit_cardinality is the multinomial coefficient modes! / prod(multiplicity!) with
   exact division: cardinality * prod(multiplicity!) = modes! *)
Theorem orbit_cardinality_multinomial o m : length o <= m ->
  (orbit_cardinality o m * prod_fact (counts (pad o m)) = factN m)%N.
Proof.
  intros H. unfold orbit_cardinality, counts.
  replace (m <? length o) with false by (symmetry; apply Nat.ltb_ge; auto).
  destruct (mults_div (length (pad o m)) (pad o m) (le_n _)) as [q Hq].
  rewrite (pad_length o m H) in Hq at 2.
  rewrite <- Hq. rewrite N.div_mul; auto. apply prod_fact_pos.
Qed.

(* with more parts than modes the orbit is empty *)
Theorem orbit_cardinality_short o m : m < length o -> orbit_cardinality o m = 0%N.
Proof. intros H. unfold orbit_cardinality. apply Nat.ltb_lt in H. rewrite H. reflexivity. Qed.

(* the multiplicities are those of the padded sample and account for every mode *)
Lemma mults_sum fuel : forall l, length l <= fuel -> list_sum (mults fuel l) = length l.
Proof.
  induction fuel as [|f IH]; intros l Hl.
  - destruct l; [reflexivity|simpl in Hl; lia].
  - destruct l as [|v t]; [reflexivity|].
    change (mults (S f) (v :: t)) with (count_occ_nat v (v :: t) :: mults f (remove_all v (v :: t))).
    pose proof (count_occ_remove_length v (v :: t)) as HL.
    assert (Hc : 1 <= count_occ_nat v (v :: t)) by (simpl; rewrite Nat.eqb_refl; lia).
    set (c := count_occ_nat v (v :: t)) in *. set (r := remove_all v (v :: t)) in *.
    change (list_sum (c :: mults f r)) with (c + list_sum (mults f r)). rewrite IH; lia.
Qed.

Theorem counts_sum l : list_sum (counts l) = length l.
Proof. apply mults_sum; auto. Qed.
