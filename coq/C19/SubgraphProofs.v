(* C19 — lemmas about the model Subgraph.v (resize, _update_subgraphs_list).
   Helpers are prefixed sg_ ; nothing here depends on CliqueProofs.v. *)
From Coq Require Import List Arith ZArith Bool Lia Permutation.
From SFV Require Import C19.Similarity C19.Clique C19.Subgraph.
Import ListNotations.

(* ====================================================================== *)
(* A. helpers                                                             *)
(* ====================================================================== *)

Lemma sg_insert_asc_perm : forall x l, Permutation (insert_asc x l) (x :: l).
Proof.
  intros x l. induction l as [|a l IH].
  - apply Permutation_refl.
  - unfold insert_asc; fold insert_asc. destruct (x <=? a).
    + apply Permutation_refl.
    + eapply perm_trans. apply perm_skip. apply IH. apply perm_swap.
Qed.

Lemma sort_asc_perm : forall l, Permutation (sort_asc l) l.
Proof.
  induction l as [|a l IH].
  - apply Permutation_refl.
  - unfold sort_asc in *. unfold fold_right; fold (fold_right insert_asc [] l).
    eapply perm_trans. apply sg_insert_asc_perm. apply perm_skip. apply IH.
Qed.

Lemma sort_asc_length : forall l, length (sort_asc l) = length l.
Proof. intro l. apply Permutation_length. apply sort_asc_perm. Qed.

Lemma sort_asc_In : forall x l, In x (sort_asc l) <-> In x l.
Proof.
  intros x l. split; apply Permutation_in.
  - apply sort_asc_perm.
  - apply Permutation_sym, sort_asc_perm.
Qed.

Lemma sort_asc_NoDup : forall l, NoDup l -> NoDup (sort_asc l).
Proof.
  intros l H. eapply Permutation_NoDup. apply Permutation_sym, sort_asc_perm. exact H.
Qed.

Lemma remove_nth_length : forall (A : Type) (l : list A) i,
  i < length l -> length (remove_nth i l) = length l - 1.
Proof.
  intros A l. induction l as [|a l IH]; intros i Hi.
  - inversion Hi.
  - destruct i as [|j].
    + unfold remove_nth. unfold length; fold (length l). lia.
    + unfold remove_nth; fold (@remove_nth A).
      unfold length in *; fold (length l) in *; fold (length (remove_nth j l)).
      rewrite IH by lia. lia.
Qed.

Lemma remove_nth_In : forall (A : Type) (l : list A) i x, In x (remove_nth i l) -> In x l.
Proof.
  intros A l. induction l as [|a l IH]; intros i x H.
  - destruct i; exact H.
  - destruct i as [|j].
    + right. exact H.
    + unfold remove_nth in H; fold (@remove_nth A) in H.
      destruct H as [H|H]; [left; exact H | right; eapply IH; exact H].
Qed.

Lemma remove_nth_NoDup : forall (A : Type) (l : list A) i, NoDup l -> NoDup (remove_nth i l).
Proof.
  intros A l. induction l as [|a l IH]; intros i H.
  - destruct i; exact H.
  - inversion H as [|? ? Hna Hnd]; subst. destruct i as [|j].
    + exact Hnd.
    + unfold remove_nth; fold (@remove_nth A). constructor.
      * intro Hin. apply Hna. eapply remove_nth_In; exact Hin.
      * apply IH; exact Hnd.
Qed.

(* positions *)
Lemma positions_from_spec : forall (A : Type) (f : A -> bool) (dflt : A) (l : list A) s p,
  In p (positions_from s f l) ->
  s <= p /\ p - s < length l /\ f (nth (p - s) l dflt) = true.
Proof.
  intros A f dflt l. induction l as [|x t IH]; intros s p H.
  - destruct H.
  - unfold positions_from in H; fold (@positions_from A) in H.
    apply in_app_or in H. destruct H as [H|H].
    + destruct (f x) eqn:Hfx.
      * destruct H as [H|[]]. subst p. replace (s - s) with 0 by lia.
        split; [lia|]. split; [unfold length; lia|]. exact Hfx.
      * destruct H.
    + apply IH in H. destruct H as [H1 [H2 H3]].
      replace (p - s) with (S (p - S s)) by lia.
      split; [lia|]. split.
      * unfold length; fold (length t). lia.
      * exact H3.
Qed.

Lemma positions_spec : forall (A : Type) (f : A -> bool) (dflt : A) (l : list A) p,
  In p (positions f l) -> p < length l /\ f (nth p l dflt) = true.
Proof.
  intros A f dflt l p H. unfold positions in H.
  apply (positions_from_spec A f dflt) in H. replace (p - 0) with p in H by lia.
  destruct H as [_ H]. exact H.
Qed.

Lemma positions_from_complete : forall (A : Type) (f : A -> bool) (dflt : A) (l : list A) s i,
  i < length l -> f (nth i l dflt) = true -> In (s + i) (positions_from s f l).
Proof.
  intros A f dflt l. induction l as [|x t IH]; intros s i Hi Hf.
  - inversion Hi.
  - unfold positions_from; fold (@positions_from A). apply in_or_app.
    destruct i as [|j].
    + left. unfold nth in Hf. rewrite Hf. left. lia.
    + right. replace (s + S j) with (S s + j) by lia. apply IH.
      * unfold length in Hi; fold (length t) in Hi. lia.
      * exact Hf.
Qed.

Lemma positions_complete : forall (A : Type) (f : A -> bool) (dflt : A) (l : list A) i,
  i < length l -> f (nth i l dflt) = true -> In i (positions f l).
Proof.
  intros A f dflt l i Hi Hf. unfold positions.
  apply (positions_from_complete A f dflt l 0 i Hi Hf).
Qed.

Lemma positions_from_length : forall (A : Type) (f : A -> bool) (l : list A) s,
  length (positions_from s f l) <= length l.
Proof.
  intros A f l. induction l as [|x t IH]; intro s.
  - apply Nat.le_refl.
  - unfold positions_from; fold (@positions_from A). rewrite app_length.
    specialize (IH (S s)). change (length (x :: t)) with (S (length t)).
    destruct (f x); [change (length [s]) with 1 | change (length (@nil nat)) with 0]; lia.
Qed.

Lemma positions_length : forall (A : Type) (f : A -> bool) (l : list A),
  length (positions f l) <= length l.
Proof. intros. apply positions_from_length. Qed.

Lemma sg_positions_from_nil : forall (A : Type) (f : A -> bool) (l : list A) s,
  positions_from s f l = [] -> forall x, In x l -> f x = false.
Proof.
  intros A f l. induction l as [|y t IH]; intros s H x Hx.
  - destruct Hx.
  - unfold positions_from in H; fold (@positions_from A) in H.
    apply app_eq_nil in H. destruct H as [H1 H2]. destruct Hx as [Hx|Hx].
    + subst y. destruct (f x); [discriminate H1 | reflexivity].
    + eapply IH; eassumption.
Qed.

Lemma positions_nonempty : forall (A : Type) (f : A -> bool) (l : list A) x,
  In x l -> f x = true -> positions f l <> [].
Proof.
  intros A f l x Hx Hf H. unfold positions in H.
  rewrite (sg_positions_from_nil A f l 0 H x Hx) in Hf. discriminate Hf.
Qed.

(* extrema are attained *)
Lemma sg_list_max_In : forall l, l <> [] -> In (list_max l) l.
Proof.
  induction l as [|x t IH]; intro H.
  - contradiction.
  - unfold list_max, fold_right; fold (fold_right Nat.max 0 t); fold (list_max t).
    destruct t as [|y t'].
    + left. unfold list_max, fold_right. lia.
    + destruct (Nat.max_dec x (list_max (y :: t'))) as [E|E]; rewrite E.
      * left; reflexivity.
      * right. apply IH. discriminate.
Qed.

Lemma sg_list_max_ge : forall l x, In x l -> x <= list_max l.
Proof.
  induction l as [|y t IH]; intros x H.
  - destruct H.
  - unfold list_max, fold_right; fold (fold_right Nat.max 0 t); fold (list_max t).
    destruct H as [H|H].
    + subst. apply Nat.le_max_l.
    + apply IH in H. lia.
Qed.

Lemma sg_fold_min_In : forall t x, In (fold_right Nat.min x t) (x :: t).
Proof.
  induction t as [|y t IH]; intro x.
  - left; reflexivity.
  - unfold fold_right; fold (fold_right Nat.min x t).
    destruct (Nat.min_dec y (fold_right Nat.min x t)) as [E|E]; rewrite E.
    + right; left; reflexivity.
    + destruct (IH x) as [H|H]; [left; exact H | right; right; exact H].
Qed.

Lemma sg_nmin_In : forall l, l <> [] -> In (nmin l) l.
Proof.
  intros [|x t] H; [contradiction|]. unfold nmin. apply sg_fold_min_In.
Qed.

Lemma sg_fold_zmax_In : forall t x, In (fold_right Z.max x t) (x :: t).
Proof.
  induction t as [|y t IH]; intro x.
  - left; reflexivity.
  - unfold fold_right; fold (fold_right Z.max x t).
    destruct (Z.max_dec y (fold_right Z.max x t)) as [E|E]; rewrite E.
    + right; left; reflexivity.
    + destruct (IH x) as [H|H]; [left; exact H | right; right; exact H].
Qed.

Lemma sg_zmax_In : forall l, l <> [] -> In (zmax l) l.
Proof.
  intros [|x t] H; [contradiction|]. unfold zmax. apply sg_fold_zmax_In.
Qed.

Lemma sg_fold_zmax_ge : forall t x y, In y (x :: t) -> (y <= fold_right Z.max x t)%Z.
Proof.
  induction t as [|z t IH]; intros x y H.
  - destruct H as [H|[]]. subst. unfold fold_right. lia.
  - unfold fold_right; fold (fold_right Z.max x t).
    destruct H as [H|[H|H]].
    + subst. specialize (IH y y (or_introl eq_refl)). lia.
    + subst. lia.
    + specialize (IH x y (or_intror H)). lia.
Qed.

Lemma sg_zmax_ge : forall l y, In y l -> (y <= zmax l)%Z.
Proof.
  intros [|x t] y H; [destruct H|]. unfold zmax. apply sg_fold_zmax_ge. exact H.
Qed.

Lemma sg_fold_zmin_In : forall t x, In (fold_right Z.min x t) (x :: t).
Proof.
  induction t as [|y t IH]; intro x.
  - left; reflexivity.
  - unfold fold_right; fold (fold_right Z.min x t).
    destruct (Z.min_dec y (fold_right Z.min x t)) as [E|E]; rewrite E.
    + right; left; reflexivity.
    + destruct (IH x) as [H|H]; [left; exact H | right; right; exact H].
Qed.

Lemma sg_zmin_In : forall l, l <> [] -> In (zmin l) l.
Proof.
  intros [|x t] H; [contradiction|]. unfold zmin. apply sg_fold_zmin_In.
Qed.

Lemma positions_list_max_nonempty : forall ds, ds <> [] -> positions (Nat.eqb (list_max ds)) ds <> [].
Proof.
  intros ds H. apply (positions_nonempty nat _ ds (list_max ds)).
  - apply sg_list_max_In; exact H.
  - apply Nat.eqb_refl.
Qed.

Lemma positions_nmin_nonempty : forall ds, ds <> [] -> positions (Nat.eqb (nmin ds)) ds <> [].
Proof.
  intros ds H. apply (positions_nonempty nat _ ds (nmin ds)).
  - apply sg_nmin_In; exact H.
  - apply Nat.eqb_refl.
Qed.

Lemma positions_zmax_nonempty : forall ws, ws <> [] -> positions (Z.eqb (zmax ws)) ws <> [].
Proof.
  intros ws H. apply (positions_nonempty Z _ ws (zmax ws)).
  - apply sg_zmax_In; exact H.
  - apply Z.eqb_refl.
Qed.

Lemma positions_zmin_nonempty : forall ws, ws <> [] -> positions (Z.eqb (zmin ws)) ws <> [].
Proof.
  intros ws H. apply (positions_nonempty Z _ ws (zmin ws)).
  - apply sg_zmin_In; exact H.
  - apply Z.eqb_refl.
Qed.

Lemma sg_length_pos : forall (A : Type) (l : list A), l <> [] -> 0 < length l.
Proof. intros A [|x t] H; [contradiction | unfold length; lia]. Qed.

Lemma pick_In : forall (A : Type) (dflt : A) (cands : list A) d,
  cands <> [] -> In (pick dflt cands d) cands.
Proof.
  intros A dflt cands d H. unfold pick. apply nth_In.
  apply Nat.mod_upper_bound. apply sg_length_pos in H. lia.
Qed.

Lemma sg_in_single : forall (A : Type) (a b : A), In a [b] -> b = a.
Proof. intros A a b [H|[]]. exact H. Qed.

Lemma sg_pair_eq : forall (A B : Type) (a a' : A) (b b' : B), (a, b) = (a', b') -> a' = a /\ b' = b.
Proof. intros A B a a' b b' H. split; congruence. Qed.

Lemma sg_some_pair_eq : forall (A B : Type) (a a' : A) (b b' : B),
  Some (a, b) = Some (a', b') -> a' = a /\ b' = b.
Proof. intros A B a a' b b' H. split; congruence. Qed.

Lemma sg_some_eq : forall (A : Type) (a a' : A), Some a = Some a' -> a' = a.
Proof. intros A a a' H. congruence. Qed.

Lemma sg_map_nonempty : forall (A B : Type) (f : A -> B) l, l <> [] -> map f l <> [].
Proof. intros A B f [|x t] H; [contradiction | discriminate]. Qed.

Lemma sg_mem_true : forall x l, mem x l = true <-> In x l.
Proof.
  intros x l. unfold mem. rewrite existsb_exists. split.
  - intros [y [Hy E]]. apply Nat.eqb_eq in E. subst. exact Hy.
  - intro H. exists x. split; [exact H | apply Nat.eqb_refl].
Qed.

Lemma sg_mem_false : forall x l, mem x l = false <-> ~ In x l.
Proof.
  intros x l. rewrite <- sg_mem_true. destruct (mem x l); split; intro H.
  - discriminate H.
  - exfalso; apply H; reflexivity.
  - intro H'; discriminate H'.
  - reflexivity.
Qed.

Lemma sg_subset_incl : forall a b, subset a b = true -> incl a b.
Proof.
  intros a b H x Hx. unfold subset in H. rewrite forallb_forall in H.
  apply sg_mem_true. apply H. exact Hx.
Qed.

(* ====================================================================== *)
(* B. index validity, resize_sizes                                        *)
(* ====================================================================== *)
Section Resize.
Variable adj : nat -> nat -> bool.
Variable nodes : list nat.

(* the weight-mode inner pick lies inside the sub-array *)
Lemma sg_inner_pick_lt : forall (ws : list Z) (key : Z) d,
  positions (Z.eqb key) ws <> [] ->
  pick 0 (positions (Z.eqb key) ws) d < length ws.
Proof.
  intros ws key d H.
  pose proof (pick_In nat 0 _ d H) as Hin.
  apply (positions_spec Z _ 0%Z) in Hin. destruct Hin as [Hin _]. exact Hin.
Qed.

Lemma grow_index_valid : forall fixed s sub compl d i,
  compl <> [] -> grow_index adj nodes fixed s sub compl d = Some i -> i < length compl.
Proof.
  intros fixed s sub compl d i Hc H. unfold grow_index in H.
  set (degs := map (fun c => deg_to adj c sub) compl) in *.
  set (dmax := positions (Nat.eqb (list_max degs)) degs) in *.
  assert (Hdegs : degs <> []) by (apply sg_map_nonempty; exact Hc).
  assert (Hlen : length degs = length compl) by (apply map_length).
  assert (Hdmax : dmax <> []) by (apply positions_list_max_nonempty; exact Hdegs).
  assert (Hall : forall p, In p dmax -> p < length compl).
  { intros p Hp. apply (positions_spec nat _ 0) in Hp. destruct Hp as [Hp _]. lia. }
  destruct s as [| |w|]; try discriminate H.
  - inversion H; subst i. apply Hall. apply pick_In. exact Hdmax.
  - set (ws := map (fun n => weight_of nodes w (nth n compl 0)) dmax) in *.
    assert (Hws : ws <> []) by (apply sg_map_nonempty; exact Hdmax).
    assert (Hwl : length ws = length dmax) by (apply map_length).
    assert (Hj : pick 0 (positions (Z.eqb (zmax ws)) ws) d < length ws).
    { apply sg_inner_pick_lt. apply positions_zmax_nonempty. exact Hws. }
    inversion H; subst i. destruct fixed.
    + apply Hall. apply nth_In. lia.
    + pose proof (positions_length nat (Nat.eqb (list_max degs)) degs) as Hle.
      fold dmax in Hle. lia.
Qed.

Lemma shrink_index_valid : forall fixed s tbl d i,
  tbl <> [] -> shrink_index adj nodes fixed s tbl d = Some i -> i < length tbl.
Proof.
  intros fixed s tbl d i Hc H. unfold shrink_index in H.
  set (degs := map (fun u => deg_in adj u tbl) tbl) in *.
  set (dmin := positions (Nat.eqb (nmin degs)) degs) in *.
  assert (Hdegs : degs <> []) by (apply sg_map_nonempty; exact Hc).
  assert (Hlen : length degs = length tbl) by (apply map_length).
  assert (Hdmin : dmin <> []) by (apply positions_nmin_nonempty; exact Hdegs).
  assert (Hall : forall p, In p dmin -> p < length tbl).
  { intros p Hp. apply (positions_spec nat _ 0) in Hp. destruct Hp as [Hp _]. lia. }
  destruct s as [| |w|]; try discriminate H.
  - inversion H; subst i. apply Hall. apply pick_In. exact Hdmin.
  - set (ws := map (fun n => weight_of nodes w (nth n tbl 0)) dmin) in *.
    assert (Hws : ws <> []) by (apply sg_map_nonempty; exact Hdmin).
    assert (Hwl : length ws = length dmin) by (apply map_length).
    assert (Hj : pick 0 (positions (Z.eqb (zmin ws)) ws) d < length ws).
    { apply sg_inner_pick_lt. apply positions_zmin_nonempty. exact Hws. }
    inversion H; subst i. destruct fixed.
    + apply Hall. apply nth_In. lia.
    + pose proof (positions_length nat (Nat.eqb (nmin degs)) degs) as Hle.
      fold dmin in Hle. lia.
Qed.

Definition sg_compl (sub : list nat) : list nat :=
  sort_asc (filter (fun n => negb (mem n sub)) nodes).

Lemma sg_compl_In : forall sub x, In x (sg_compl sub) <-> In x nodes /\ ~ In x sub.
Proof.
  intros sub x. unfold sg_compl. rewrite sort_asc_In, filter_In.
  rewrite negb_true_iff, sg_mem_false. tauto.
Qed.

Lemma sg_compl_nonempty : forall sub,
  NoDup nodes -> length sub < length nodes -> sg_compl sub <> [].
Proof.
  intros sub Hnd Hlt Hnil.
  assert (Hincl : incl nodes sub).
  { intros x Hx. destruct (in_dec Nat.eq_dec x sub) as [Hin|Hnin]; [exact Hin|].
    exfalso. assert (Hc : In x (sg_compl sub)) by (apply sg_compl_In; split; assumption).
    rewrite Hnil in Hc. destruct Hc. }
  pose proof (NoDup_incl_length Hnd Hincl). lia.
Qed.

Lemma sg_grow_phase_S : forall f fixed s lo hi sub draws,
  grow_phase adj nodes (S f) fixed s lo hi sub draws =
  if length sub <? hi then
    let compl := sg_compl sub in
    let (d, draws') := draw draws in
    match grow_index adj nodes fixed s sub compl d with
    | None => None
    | Some i =>
        let sub' := nth i compl 0 :: sub in
        match grow_phase adj nodes f fixed s lo hi sub' draws' with
        | None => None
        | Some (rest, dr) =>
            Some ((if in_range lo hi (length sub') then [(length sub', sort_asc sub')] else []) ++ rest, dr)
        end
    end
  else Some ([], draws).
Proof. reflexivity. Qed.

Lemma sg_shrink_phase_S : forall f fixed s lo hi tbl draws,
  shrink_phase adj nodes (S f) fixed s lo hi tbl draws =
  if lo <? length tbl then
    let (d, draws') := draw draws in
    match shrink_index adj nodes fixed s tbl d with
    | None => None
    | Some i =>
        let tbl' := remove_nth i tbl in
        match shrink_phase adj nodes f fixed s lo hi tbl' draws' with
        | None => None
        | Some (rest, dr) =>
            Some ((if in_range lo hi (length tbl') then [(length tbl', sort_asc tbl')] else []) ++ rest, dr)
        end
    end
  else Some ([], draws).
Proof. reflexivity. Qed.

Lemma sg_in_range_true : forall lo hi k, in_range lo hi k = true <-> lo <= k <= hi.
Proof.
  intros. unfold in_range. rewrite andb_true_iff, !Nat.leb_le. tauto.
Qed.

(* what every entry recorded by the growth phase satisfies *)
Definition grow_entry_ok (lo hi : nat) (sub : list nat) (k : nat) (e : list nat) : Prop :=
  length e = k /\ lo <= k <= hi /\ NoDup e /\ incl e nodes /\ incl sub e /\ length sub < k.

Lemma grow_phase_entries : forall fuel fixed s lo hi sub draws r dr,
  NoDup nodes -> hi <= length nodes ->
  NoDup sub -> incl sub nodes ->
  grow_phase adj nodes fuel fixed s lo hi sub draws = Some (r, dr) ->
  forall k e, In (k, e) r -> grow_entry_ok lo hi sub k e.
Proof.
  induction fuel as [|f IH]; intros fixed s lo hi sub draws r dr Hn Hhi Hnd Hincl H k e Hin.
  - unfold grow_phase in H. inversion H; subst. destruct Hin.
  - rewrite sg_grow_phase_S in H.
    destruct (length sub <? hi) eqn:Hlt.
    2:{ inversion H; subst. destruct Hin. }
    apply Nat.ltb_lt in Hlt.
    lazy zeta in H. destruct (draw draws) as [d draws'].
    destruct (grow_index adj nodes fixed s sub (sg_compl sub) d) as [i|] eqn:Hgi; [|discriminate H].
    assert (Hne : sg_compl sub <> []) by (apply sg_compl_nonempty; [exact Hn | lia]).
    pose proof (grow_index_valid _ _ _ _ _ _ Hne Hgi) as Hi.
    set (x := nth i (sg_compl sub) 0) in *.
    assert (Hx : In x nodes /\ ~ In x sub).
    { apply sg_compl_In. unfold x. apply nth_In. exact Hi. }
    destruct Hx as [Hxn Hxs].
    assert (Hnd' : NoDup (x :: sub)) by (constructor; assumption).
    assert (Hincl' : incl (x :: sub) nodes).
    { intros y [Hy|Hy]; [subst; exact Hxn | apply Hincl; exact Hy]. }
    destruct (grow_phase adj nodes f fixed s lo hi (x :: sub) draws') as [[rest dr']|] eqn:Hrec;
      [|discriminate H].
    injection H as Hr0 Hdr0; subst r dr.
    apply in_app_or in Hin. destruct Hin as [Hin|Hin].
    + assert (Hin' : In (k, e) (if in_range lo hi (length (x :: sub))
                                then [(length (x :: sub), sort_asc (x :: sub))] else [])) by exact Hin.
      clear Hin; rename Hin' into Hin.
      destruct (in_range lo hi (length (x :: sub))) eqn:Hr; [|destruct Hin].
      apply sg_in_single in Hin. apply sg_pair_eq in Hin. destruct Hin as [Hk He]; subst k e.
      apply sg_in_range_true in Hr.
      unfold grow_entry_ok. split; [apply sort_asc_length|]. split; [exact Hr|].
      split; [apply sort_asc_NoDup; exact Hnd'|]. split.
      * intros y Hy. apply (proj1 (sort_asc_In _ _)) in Hy. apply Hincl'. exact Hy.
      * split.
        -- intros y Hy. apply sort_asc_In. right. exact Hy.
        -- unfold length; fold (length sub). lia.
    + pose proof (IH _ _ _ _ _ _ _ _ Hn Hhi Hnd' Hincl' Hrec k e Hin) as Hok.
      unfold grow_entry_ok in *.
      destruct Hok as [H1 [H2 [H3 [H4 [H5 H6]]]]].
      split; [exact H1|]. split; [exact H2|]. split; [exact H3|]. split; [exact H4|]. split.
      * intros y Hy. apply H5. right. exact Hy.
      * unfold length in H6; fold (length sub) in H6. lia.
Qed.

Definition shrink_entry_ok (lo hi : nat) (tbl : list nat) (k : nat) (e : list nat) : Prop :=
  length e = k /\ lo <= k <= hi /\ NoDup e /\ incl e tbl /\ k < length tbl.

Lemma shrink_phase_entries : forall fuel fixed s lo hi tbl draws r dr,
  NoDup tbl ->
  shrink_phase adj nodes fuel fixed s lo hi tbl draws = Some (r, dr) ->
  forall k e, In (k, e) r -> shrink_entry_ok lo hi tbl k e.
Proof.
  induction fuel as [|f IH]; intros fixed s lo hi tbl draws r dr Hnd H k e Hin.
  - unfold shrink_phase in H. inversion H; subst. destruct Hin.
  - rewrite sg_shrink_phase_S in H.
    destruct (lo <? length tbl) eqn:Hlt.
    2:{ inversion H; subst. destruct Hin. }
    apply Nat.ltb_lt in Hlt.
    destruct (draw draws) as [d draws'].
    destruct (shrink_index adj nodes fixed s tbl d) as [i|] eqn:Hsi; [|discriminate H].
    assert (Hne : tbl <> []).
    { intro E. subst tbl. unfold length in Hlt. lia. }
    pose proof (shrink_index_valid _ _ _ _ _ Hne Hsi) as Hi.
    lazy zeta in H.
    set (tbl' := remove_nth i tbl) in *.
    assert (Hlen' : length tbl' = length tbl - 1) by (apply remove_nth_length; exact Hi).
    assert (Hnd' : NoDup tbl') by (apply remove_nth_NoDup; exact Hnd).
    assert (Hincl' : incl tbl' tbl) by (intros y Hy; eapply remove_nth_In; exact Hy).
    destruct (shrink_phase adj nodes f fixed s lo hi tbl' draws') as [[rest dr']|] eqn:Hrec;
      [|discriminate H].
    injection H as Hr0 Hdr0; subst r dr.
    apply in_app_or in Hin. destruct Hin as [Hin|Hin].
    + assert (Hin' : In (k, e) (if in_range lo hi (length tbl')
                                then [(length tbl', sort_asc tbl')] else [])) by exact Hin.
      clear Hin; rename Hin' into Hin.
      destruct (in_range lo hi (length tbl')) eqn:Hr; [|destruct Hin].
      apply sg_in_single in Hin. apply sg_pair_eq in Hin. destruct Hin as [Hk He]; subst k e.
      apply sg_in_range_true in Hr.
      unfold shrink_entry_ok. split; [apply sort_asc_length|]. split; [exact Hr|].
      split; [apply sort_asc_NoDup; exact Hnd'|]. split.
      * intros y Hy. apply (proj1 (sort_asc_In _ _)) in Hy. apply Hincl'. exact Hy.
      * lia.
    + pose proof (IH _ _ _ _ _ _ _ _ Hnd' Hrec k e Hin) as Hok.
      unfold shrink_entry_ok in *.
      destruct Hok as [H1 [H2 [H3 [H4 H5]]]].
      split; [exact H1|]. split; [exact H2|]. split; [exact H3|]. split.
      * intros y Hy. apply Hincl'. apply H4. exact Hy.
      * lia.
Qed.

(* decoding of a successful resize *)
Lemma resize_ok_inv : forall fixed s tbl lo hi draws r,
  resize adj nodes fixed s tbl lo hi draws = ROk r ->
  incl tbl nodes /\ 1 <= lo /\ hi < length nodes /\ lo <= hi /\
  exists g dr1 sh dr2,
    (if length tbl <? hi then grow_phase adj nodes (length nodes) fixed s lo hi tbl draws
     else Some ([], draws)) = Some (g, dr1) /\
    (if lo <? length tbl then shrink_phase adj nodes (length tbl) fixed s lo hi tbl dr1
     else Some ([], dr1)) = Some (sh, dr2) /\
    r = (if in_range lo hi (length tbl) then [(length tbl, sort_asc tbl)] else []) ++ g ++ sh.
Proof.
  intros fixed s tbl lo hi draws r H. unfold resize, resize_draws in H.
  destruct (subset tbl nodes) eqn:Hsub; [|discriminate H].
  destruct (lo <? 1) eqn:Hlo; [discriminate H|].
  destruct (length nodes <=? hi) eqn:Hhi; [discriminate H|].
  destruct (hi <? lo) eqn:Hr; [discriminate H|].
  destruct (weights_ok nodes s); [|discriminate H].
  destruct (sel_ok s); [|discriminate H].
  unfold negb in H. lazy zeta in H.
  apply Nat.ltb_ge in Hlo. apply Nat.leb_gt in Hhi. apply Nat.ltb_ge in Hr.
  split; [apply sg_subset_incl with (1 := Hsub)|].
  split; [exact Hlo|]. split; [exact Hhi|]. split; [exact Hr|].
  destruct (if length tbl <? hi then grow_phase adj nodes (length nodes) fixed s lo hi tbl draws
            else Some ([], draws)) as [[g dr1]|] eqn:Hg; [|discriminate H].
  destruct (if lo <? length tbl then shrink_phase adj nodes (length tbl) fixed s lo hi tbl dr1
            else Some ([], dr1)) as [[sh dr2]|] eqn:Hs; [|discriminate H].
  exists g, dr1, sh, dr2. split; [reflexivity|]. split; [exact Hs|].
  unfold fst in H. inversion H. reflexivity.
Qed.

(* classification of the entries of a successful resize *)
Lemma resize_entries : forall fixed s tbl lo hi draws r,
  NoDup tbl -> NoDup nodes ->
  resize adj nodes fixed s tbl lo hi draws = ROk r ->
  forall k e, In (k, e) r ->
    (k = length tbl /\ e = sort_asc tbl /\ lo <= k <= hi) \/
    grow_entry_ok lo hi tbl k e \/
    (shrink_entry_ok lo hi tbl k e).
Proof.
  intros fixed s tbl lo hi draws r Hndt Hndn H k e Hin.
  apply resize_ok_inv in H.
  destruct H as [Hincl [Hlo [Hhi [Hr [g [dr1 [sh [dr2 [Hg [Hs Heq]]]]]]]]]].
  subst r. apply in_app_or in Hin. destruct Hin as [Hin|Hin].
  - left. destruct (in_range lo hi (length tbl)) eqn:E; [|destruct Hin].
    destruct Hin as [Hin|[]]. inversion Hin; subst. apply sg_in_range_true in E.
    split; [reflexivity|]. split; [reflexivity|]. exact E.
  - apply in_app_or in Hin. destruct Hin as [Hin|Hin].
    + right; left. destruct (length tbl <? hi).
      * eapply grow_phase_entries; try eassumption. lia.
      * inversion Hg; subst. destruct Hin.
    + right; right. destruct (lo <? length tbl).
      * eapply shrink_phase_entries; eassumption.
      * inversion Hs; subst. destruct Hin.
Qed.

Theorem resize_sizes : forall fixed s tbl lo hi draws r,
  NoDup tbl -> NoDup nodes ->
  resize adj nodes fixed s tbl lo hi draws = ROk r ->
  forall k sub, In (k, sub) r ->
    length sub = k /\ lo <= k <= hi /\ NoDup sub /\ (forall x, In x sub -> In x nodes).
Proof.
  intros fixed s tbl lo hi draws r Hndt Hndn H k e Hin.
  pose proof (resize_ok_inv _ _ _ _ _ _ _ H) as [Hincl _].
  destruct (resize_entries _ _ _ _ _ _ _ Hndt Hndn H k e Hin) as [[H1 [H2 H3]]|[Hg|Hs]].
  - subst. split; [apply sort_asc_length|]. split; [exact H3|].
    split; [apply sort_asc_NoDup; exact Hndt|].
    intros x Hx. apply (proj1 (sort_asc_In _ _)) in Hx. apply Hincl. exact Hx.
  - unfold grow_entry_ok in Hg. destruct Hg as [H1 [H2 [H3 [H4 _]]]].
    split; [exact H1|]. split; [exact H2|]. split; [exact H3|]. exact H4.
  - unfold shrink_entry_ok in Hs. destruct Hs as [H1 [H2 [H3 [H4 _]]]].
    split; [exact H1|]. split; [exact H2|]. split; [exact H3|].
    intros x Hx. apply Hincl. apply H4. exact Hx.
Qed.

(* ====================================================================== *)
(* D. nesting                                                             *)
(* ====================================================================== *)
Theorem resize_nested : forall fixed s tbl lo hi draws r,
  NoDup tbl -> NoDup nodes ->
  resize adj nodes fixed s tbl lo hi draws = ROk r ->
  forall k sub, In (k, sub) r ->
    (length tbl <= k -> forall x, In x tbl -> In x sub) /\
    (k <= length tbl -> forall x, In x sub -> In x tbl).
Proof.
  intros fixed s tbl lo hi draws r Hndt Hndn H k e Hin.
  destruct (resize_entries _ _ _ _ _ _ _ Hndt Hndn H k e Hin) as [[H1 [H2 H3]]|[Hg|Hs]].
  - subst. split; intros _ x Hx; apply (proj1 (sort_asc_In _ _)) in Hx || apply sort_asc_In; exact Hx.
  - unfold grow_entry_ok in Hg. destruct Hg as [_ [_ [_ [_ [H5 H6]]]]].
    split; [intros _ x Hx; apply H5; exact Hx | intro Hle; lia].
  - unfold shrink_entry_ok in Hs. destruct Hs as [_ [_ [_ [H4 H5]]]].
    split; [intro Hle; lia | intros _ x Hx; apply H4; exact Hx].
Qed.

(* ====================================================================== *)
(* C. coverage                                                            *)
(* ====================================================================== *)
Lemma grow_phase_covers : forall fuel fixed s lo hi sub draws r dr,
  grow_phase adj nodes fuel fixed s lo hi sub draws = Some (r, dr) ->
  hi - length sub <= fuel ->
  forall k, length sub < k -> k <= hi -> lo <= k -> exists e, In (k, e) r.
Proof.
  induction fuel as [|f IH]; intros fixed s lo hi sub draws r dr H Hfuel k Hk1 Hk2 Hk3.
  - lia.
  - rewrite sg_grow_phase_S in H.
    destruct (length sub <? hi) eqn:Hlt.
    2:{ apply Nat.ltb_ge in Hlt. lia. }
    lazy zeta in H. destruct (draw draws) as [d draws'].
    destruct (grow_index adj nodes fixed s sub (sg_compl sub) d) as [i|]; [|discriminate H].
    set (x := nth i (sg_compl sub) 0) in *.
    destruct (grow_phase adj nodes f fixed s lo hi (x :: sub) draws') as [[rest dr']|] eqn:Hrec;
      [|discriminate H].
    apply sg_some_pair_eq in H. destruct H as [Hr _]. subst r.
    assert (Hlen : length (x :: sub) = S (length sub)) by reflexivity.
    destruct (Nat.eq_dec k (S (length sub))) as [E|E].
    + exists (sort_asc (x :: sub)). apply in_or_app. left.
      assert (Hr : in_range lo hi (length (x :: sub)) = true) by (apply sg_in_range_true; lia).
      rewrite Hr. left. rewrite Hlen, E. reflexivity.
    + assert (Hfuel' : hi - length (x :: sub) <= f) by lia.
      assert (Hk1' : length (x :: sub) < k) by lia.
      destruct (IH _ _ _ _ _ _ _ _ Hrec Hfuel' k Hk1' Hk2 Hk3) as [e He].
      exists e. apply in_or_app. right. exact He.
Qed.

Lemma shrink_phase_covers : forall fuel fixed s lo hi tbl draws r dr,
  shrink_phase adj nodes fuel fixed s lo hi tbl draws = Some (r, dr) ->
  length tbl - lo <= fuel ->
  forall k, lo <= k -> k < length tbl -> k <= hi -> exists e, In (k, e) r.
Proof.
  induction fuel as [|f IH]; intros fixed s lo hi tbl draws r dr H Hfuel k Hk1 Hk2 Hk3.
  - lia.
  - rewrite sg_shrink_phase_S in H.
    destruct (lo <? length tbl) eqn:Hlt.
    2:{ apply Nat.ltb_ge in Hlt. lia. }
    destruct (draw draws) as [d draws'].
    destruct (shrink_index adj nodes fixed s tbl d) as [i|] eqn:Hsi; [|discriminate H].
    assert (Hne : tbl <> []).
    { intro E. subst tbl. unfold length in Hk2. lia. }
    pose proof (shrink_index_valid _ _ _ _ _ Hne Hsi) as Hi.
    lazy zeta in H.
    set (tbl' := remove_nth i tbl) in *.
    assert (Hlen' : length tbl' = length tbl - 1) by (apply remove_nth_length; exact Hi).
    destruct (shrink_phase adj nodes f fixed s lo hi tbl' draws') as [[rest dr']|] eqn:Hrec;
      [|discriminate H].
    apply sg_some_pair_eq in H. destruct H as [Hr _]. subst r.
    destruct (Nat.eq_dec k (length tbl')) as [E|E].
    + exists (sort_asc tbl'). apply in_or_app. left.
      assert (Hr : in_range lo hi (length tbl') = true) by (apply sg_in_range_true; lia).
      rewrite Hr. left. rewrite E. reflexivity.
    + assert (Hfuel' : length tbl' - lo <= f) by lia.
      assert (Hk2' : k < length tbl') by lia.
      destruct (IH _ _ _ _ _ _ _ _ Hrec Hfuel' k Hk1 Hk2' Hk3) as [e He].
      exists e. apply in_or_app. right. exact He.
Qed.

(* every size of [lo, hi] is a key of the result (no NoDup hypothesis is needed) *)
Theorem resize_covers : forall fixed s tbl lo hi draws r,
  resize adj nodes fixed s tbl lo hi draws = ROk r ->
  forall k, lo <= k <= hi -> exists sub, In (k, sub) r.
Proof.
  intros fixed s tbl lo hi draws r H k Hk.
  apply resize_ok_inv in H.
  destruct H as [Hincl [Hlo [Hhi [Hr [g [dr1 [sh [dr2 [Hg [Hs Heq]]]]]]]]]].
  subst r.
  destruct (lt_eq_lt_dec k (length tbl)) as [[Hlt|Heq]|Hgt].
  - (* below the start: shrink phase *)
    assert (E : lo <? length tbl = true) by (apply Nat.ltb_lt; lia).
    rewrite E in Hs.
    assert (Hfuel : length tbl - lo <= length tbl) by lia.
    destruct (shrink_phase_covers _ _ _ _ _ _ _ _ _ Hs Hfuel k) as [e He]; try lia.
    exists e. apply in_or_app. right. apply in_or_app. right. exact He.
  - (* the start itself *)
    exists (sort_asc tbl). apply in_or_app. left.
    assert (E : in_range lo hi (length tbl) = true) by (apply sg_in_range_true; lia).
    rewrite E. left. rewrite Heq. reflexivity.
  - (* above the start: growth phase *)
    assert (E : length tbl <? hi = true) by (apply Nat.ltb_lt; lia).
    rewrite E in Hg.
    assert (Hfuel : hi - length tbl <= length nodes) by lia.
    destruct (grow_phase_covers _ _ _ _ _ _ _ _ _ Hg Hfuel k) as [e He]; try lia.
    exists e. apply in_or_app. right. apply in_or_app. left. exact He.
Qed.

End Resize.

(* ====================================================================== *)
(* E. the documented growth rule, and its refutation for the code as is   *)
(* ====================================================================== *)
Section Rules.
Variable adj : nat -> nat -> bool.
Variable nodes : list nat.

Theorem grow_index_rule : forall s sub compl d i,
  compl <> [] -> grow_index adj nodes true s sub compl d = Some i ->
  i < length compl /\
  (forall c, In c compl -> deg_to adj c sub <= deg_to adj (nth i compl 0) sub) /\
  (forall w, s = Weight w -> forall c, In c compl ->
     deg_to adj c sub = deg_to adj (nth i compl 0) sub ->
     (weight_of nodes w c <= weight_of nodes w (nth i compl 0%nat))%Z).
Proof.
  intros s sub compl d i Hc H.
  pose proof (grow_index_valid adj nodes _ _ _ _ _ _ Hc H) as Hi.
  unfold grow_index in H.
  set (degf := fun c => deg_to adj c sub) in *.
  set (degs := map degf compl) in *.
  set (dmax := positions (Nat.eqb (list_max degs)) degs) in *.
  assert (Hdegs : degs <> []) by (apply sg_map_nonempty; exact Hc).
  assert (Hdmax : dmax <> []) by (apply positions_list_max_nonempty; exact Hdegs).
  assert (Hmax : forall p, In p dmax -> p < length compl /\ degf (nth p compl 0) = list_max degs).
  { intros p Hp. apply (positions_spec nat _ (degf 0)) in Hp. destruct Hp as [Hp1 Hp2].
    unfold degs in Hp1, Hp2. rewrite map_length in Hp1. rewrite map_nth in Hp2.
    apply Nat.eqb_eq in Hp2. split; [exact Hp1 | symmetry; exact Hp2]. }
  assert (Hge : forall c, In c compl -> degf c <= list_max degs).
  { intros c Hc'. apply sg_list_max_ge. unfold degs. apply in_map. exact Hc'. }
  assert (Hidmax : In i dmax).
  { destruct s as [| |w|]; try discriminate H.
    - apply sg_some_eq in H. subst i. apply pick_In; exact Hdmax.
    - set (ws := map (fun n => weight_of nodes w (nth n compl 0)) dmax) in *.
      assert (Hws : ws <> []) by (apply sg_map_nonempty; exact Hdmax).
      assert (Hwl : length ws = length dmax) by (apply map_length).
      assert (Hj : pick 0 (positions (Z.eqb (zmax ws)) ws) d < length ws).
      { apply sg_inner_pick_lt. apply positions_zmax_nonempty. exact Hws. }
      apply sg_some_eq in H. subst i. apply nth_In. lia. }
  split; [exact Hi|]. split.
  - intros c Hc'. destruct (Hmax i Hidmax) as [_ E].
    change (degf c <= degf (nth i compl 0)). rewrite E. apply Hge. exact Hc'.
  - intros w Hs c Hc' Hdeg. subst s.
    set (wf := fun n => weight_of nodes w (nth n compl 0)) in *.
    set (ws := map wf dmax) in *.
    set (j := pick 0 (positions (Z.eqb (zmax ws)) ws) d) in *.
    apply sg_some_eq in H.
    assert (Hws : ws <> []) by (apply sg_map_nonempty; exact Hdmax).
    assert (Hjin : In j (positions (Z.eqb (zmax ws)) ws)).
    { apply pick_In. apply positions_zmax_nonempty. exact Hws. }
    apply (positions_spec Z _ (wf 0)) in Hjin. destruct Hjin as [_ Hj2].
    unfold ws in Hj2 at 2. rewrite map_nth in Hj2. rewrite <- H in Hj2.
    apply Z.eqb_eq in Hj2.
    change (weight_of nodes w (nth i compl 0)) with (wf i). rewrite <- Hj2.
    destruct (In_nth compl c 0 Hc') as [p [Hp1 Hp2]].
    assert (Hpd : In p dmax).
    { unfold dmax. apply (positions_complete nat _ (degf 0)).
      - unfold degs. rewrite map_length. exact Hp1.
      - unfold degs at 2. rewrite map_nth. rewrite Hp2.
        destruct (Hmax i Hidmax) as [_ E].
        change (degf c = degf (nth i compl 0)) in Hdeg. rewrite Hdeg, E.
        apply Nat.eqb_refl. }
    apply sg_zmax_ge. rewrite <- Hp2. change (In (wf p) ws). unfold ws. apply in_map. exact Hpd.
Qed.

End Rules.

Lemma sg_adj_of_sym : forall edges u v, adj_of edges u v = adj_of edges v u.
Proof.
  intros edges u v. unfold adj_of. induction edges as [|e t IH].
  - reflexivity.
  - unfold existsb; fold (existsb (fun e => ((fst e =? u) && (snd e =? v)) || ((fst e =? v) && (snd e =? u))) t);
      fold (existsb (fun e => ((fst e =? v) && (snd e =? u)) || ((fst e =? u) && (snd e =? v))) t).
    rewrite IH. f_equal. apply orb_comm.
Qed.

(* The code as it stands (fixed = false), weight mode: complement [1;2;3] of sub = [0] in the path-like
   graph 2 - 0 - 3 with isolated node 1.  Degrees w.r.t. sub are [0;1;1]; the maximum-degree
   sub-array is rows [1;2]; the heaviest of them sits at position 0 of the sub-array, and the code
   uses that 0 as a row of the full table: node 1, of degree 0, is added. *)
Theorem grow_index_refuted :
  exists adj nodes w sub compl d i,
    (forall u v, adj u v = adj v u) /\ (forall u, adj u u = false) /\
    grow_index adj nodes false (Weight w) sub compl d = Some i /\
    exists c, In c compl /\ deg_to adj (nth i compl 0) sub < deg_to adj c sub.
Proof.
  exists (adj_of [(0, 2); (0, 3)]), [0; 1; 2; 3], [0%Z; 0%Z; 5%Z; 1%Z], [0], [1; 2; 3], 0, 0.
  split; [intros u v; apply sg_adj_of_sym|].
  split.
  - intro u. destruct u as [|[|[|[|u]]]]; reflexivity.
  - split; [vm_compute; reflexivity|].
    exists 2. split; [right; left; reflexivity|]. vm_compute. apply Nat.le_refl.
Qed.

(* the same instance under the documented rule picks a maximum-degree node *)
Lemma grow_index_refuted_fixed_ok :
  grow_index (adj_of [(0, 2); (0, 3)]) [0; 1; 2; 3] true (Weight [0%Z; 0%Z; 5%Z; 1%Z]) [0] [1; 2; 3] 0 = Some 1.
Proof. vm_compute. reflexivity. Qed.

(* ====================================================================== *)
(* F. _update_subgraphs_list bookkeeping                                  *)
(* ====================================================================== *)
Lemma sg_insert_entry_perm : forall x l, Permutation (insert_entry x l) (x :: l).
Proof.
  intros x l. induction l as [|a l IH].
  - apply Permutation_refl.
  - unfold insert_entry; fold insert_entry. destruct (entry_ltb a x).
    + apply Permutation_refl.
    + eapply perm_trans. apply perm_skip. apply IH. apply perm_swap.
Qed.

Lemma sort_entries_perm : forall l, Permutation (sort_entries l) l.
Proof.
  induction l as [|a l IH].
  - apply Permutation_refl.
  - unfold sort_entries in *. unfold fold_right; fold (fold_right insert_entry [] l).
    eapply perm_trans. apply sg_insert_entry_perm. apply perm_skip. apply IH.
Qed.

Lemma sort_entries_length : forall l, length (sort_entries l) = length l.
Proof. intro l. apply Permutation_length. apply sort_entries_perm. Qed.

Lemma sort_entries_In : forall e l, In e (sort_entries l) <-> In e l.
Proof.
  intros e l. split; apply Permutation_in.
  - apply sort_entries_perm.
  - apply Permutation_sym, sort_entries_perm.
Qed.

Lemma sg_removelast_length : forall (A : Type) (l : list A), length (removelast l) = length l - 1.
Proof.
  intros A l. destruct l as [|a t].
  - reflexivity.
  - assert (H : a :: t <> []) by discriminate.
    pose proof (app_removelast_last a H) as E.
    apply (f_equal (@length A)) in E. rewrite app_length in E.
    change (length [last (a :: t) a]) with 1 in E. lia.
Qed.

Lemma sg_removelast_In : forall (A : Type) (l : list A) x, In x (removelast l) -> In x l.
Proof.
  intros A l x H. destruct l as [|a t].
  - exact H.
  - assert (Hne : a :: t <> []) by discriminate.
    rewrite (app_removelast_last a Hne). apply in_or_app. left. exact H.
Qed.

Lemma sg_last_In : forall (A : Type) (l : list A) d, l <> [] -> In (last l d) l.
Proof.
  intros A l d. induction l as [|a [|b t] IH]; intro H.
  - contradiction.
  - left. reflexivity.
  - right. apply IH. discriminate.
Qed.

Definition sg_norm (t : entry) : entry := (fst t, sort_asc (dedup (snd t))).

Lemma sg_update_list_unfold : forall (l : list entry) (t : entry) m d,
  update_list l t m d =
  if existsb (fun e => list_eqb_nat (snd (sg_norm t)) (snd e)) l then (l, false)
  else if length l <? m then (sort_entries (l ++ [sg_norm t]), false)
  else
    if dens_ltb (fst (last l ((0, 1), []))) (fst (sg_norm t))
    then (removelast (sort_entries (l ++ [sg_norm t])), false)
    else if dens_eqb (fst (sg_norm t)) (fst (last l ((0, 1), []))) then
      (if d mod 2 =? 0 then l else sort_entries (removelast l ++ [sg_norm t]), true)
    else (l, false).
Proof. reflexivity. Qed.

(* The bound needs 1 <= m or l <> [] : see update_list_length_quirk below. *)
Theorem update_list_length : forall (l : list entry) (t : entry) m d,
  1 <= m \/ l <> [] ->
  length (fst (update_list l t m d)) <= Nat.max (length l) m /\
  (length l <= m -> length (fst (update_list l t m d)) <= m).
Proof.
  intros l t m d Hml.
  assert (Hmain : length (fst (update_list l t m d)) <= Nat.max (length l) m).
  { rewrite sg_update_list_unfold.
    destruct (existsb (fun e => list_eqb_nat (snd (sg_norm t)) (snd e)) l).
    { cbn [fst]. lia. }
    destruct (length l <? m) eqn:Hlt.
    { cbn [fst]. apply Nat.ltb_lt in Hlt. rewrite sort_entries_length, app_length.
      change (length [sg_norm t]) with 1. lia. }
    apply Nat.ltb_ge in Hlt.
    destruct (dens_ltb (fst (last l ((0, 1), []))) (fst (sg_norm t))).
    { cbn [fst]. rewrite sg_removelast_length, sort_entries_length, app_length.
      change (length [sg_norm t]) with 1. lia. }
    destruct (dens_eqb (fst (sg_norm t)) (fst (last l ((0, 1), [])))).
    2:{ cbn [fst]. lia. }
    cbn [fst]. destruct (d mod 2 =? 0).
    { lia. }
    rewrite sort_entries_length, app_length, sg_removelast_length.
    change (length [sg_norm t]) with 1.
    assert (0 < length l).
    { destruct Hml as [Hm|Hl]; [lia | apply sg_length_pos; exact Hl]. }
    lia. }
  split; [exact Hmain | intro Hle; lia].
Qed.

(* m = 0 and l = [] : the model goes through the default element of [last] and ends with one
   entry (the source would raise IndexError on l[-1] here). *)
Lemma update_list_length_quirk :
  update_list [] ((0, 1), []) 0 1 = ([((0, 1), [])], true).
Proof. vm_compute. reflexivity. Qed.

Theorem update_list_members : forall (l : list entry) (t : entry) m d e,
  In e (fst (update_list l t m d)) -> In e l \/ e = (fst t, sort_asc (dedup (snd t))).
Proof.
  intros l t m d e H. change (fst t, sort_asc (dedup (snd t))) with (sg_norm t).
  assert (Happ : forall l0, In e (l0 ++ [sg_norm t]) -> In e l0 \/ e = sg_norm t).
  { intros l0 H0. apply in_app_or in H0. destruct H0 as [H0|H0]; [left; exact H0|].
    right. apply sg_in_single in H0. symmetry. exact H0. }
  rewrite sg_update_list_unfold in H.
  destruct (existsb (fun e => list_eqb_nat (snd (sg_norm t)) (snd e)) l).
  { left. exact H. }
  destruct (length l <? m).
  { cbn [fst] in H. apply (proj1 (sort_entries_In _ _)) in H. apply Happ. exact H. }
  destruct (dens_ltb (fst (last l ((0, 1), []))) (fst (sg_norm t))).
  { cbn [fst] in H. apply sg_removelast_In in H. apply (proj1 (sort_entries_In _ _)) in H.
    apply Happ. exact H. }
  destruct (dens_eqb (fst (sg_norm t)) (fst (last l ((0, 1), [])))).
  2:{ left. exact H. }
  cbn [fst] in H. destruct (d mod 2 =? 0).
  { left. exact H. }
  apply (proj1 (sort_entries_In _ _)) in H. apply Happ in H.
  destruct H as [H|H]; [left; apply sg_removelast_In; exact H | right; exact H].
Qed.

(* ---------- sortedness of sort_entries ---------- *)
(* density comparison as a relation on fractions: p <= q *)
Definition sg_dle (p q : nat * nat) : Prop := fst p * snd q <= fst q * snd p.

Lemma sg_dle_trans : forall p q r, 0 < snd q -> sg_dle p q -> sg_dle q r -> sg_dle p r.
Proof.
  intros [p1 p2] [q1 q2] [r1 r2]. unfold sg_dle. cbn [fst snd]. intros Hq H1 H2.
  assert (H : (p1 * r2) * q2 <= (r1 * p2) * q2).
  { replace ((p1 * r2) * q2) with ((p1 * q2) * r2) by lia.
    replace ((r1 * p2) * q2) with ((r1 * q2) * p2) by lia.
    apply Nat.le_trans with ((q1 * p2) * r2).
    - apply Nat.mul_le_mono_r. exact H1.
    - replace ((q1 * p2) * r2) with ((q1 * r2) * p2) by lia.
      apply Nat.mul_le_mono_r. exact H2. }
  apply Nat.mul_le_mono_pos_r in H; assumption.
Qed.

Lemma sg_dens_ltb_false : forall a b, dens_ltb a b = false <-> sg_dle b a.
Proof. intros a b. unfold dens_ltb, sg_dle. rewrite Nat.ltb_ge. tauto. Qed.

Lemma sg_dens_ltb_true : forall a b, dens_ltb a b = true <-> ~ sg_dle b a.
Proof. intros a b. unfold dens_ltb, sg_dle. rewrite Nat.ltb_lt. lia. Qed.

Lemma sg_dens_eqb_true : forall a b, dens_eqb a b = true <-> sg_dle a b /\ sg_dle b a.
Proof. intros a b. unfold dens_eqb, sg_dle. rewrite Nat.eqb_eq. lia. Qed.

Definition entry_pos (e : entry) : Prop := 0 < snd (fst e).

(* generic insertion-sort argument *)
Section SortGen.
Variable R : entry -> entry -> Prop.
Hypothesis R_lt : forall x y, entry_ltb y x = true -> R x y.
Hypothesis R_nlt : forall x y, entry_ltb y x = false -> R y x.
Hypothesis R_trans : forall a b c, entry_pos a -> entry_pos b -> entry_pos c -> R a b -> R b c -> R a c.

Fixpoint sg_sorted (l : list entry) : Prop :=
  match l with
  | [] => True
  | a :: t => (forall b, In b t -> R a b) /\ sg_sorted t
  end.

Lemma sg_insert_sorted : forall x l,
  (forall e, In e (x :: l) -> entry_pos e) -> sg_sorted l -> sg_sorted (insert_entry x l).
Proof.
  intros x l. induction l as [|y t IH]; intros Hpos Hs.
  - unfold insert_entry, sg_sorted. split; [intros b []| exact I].
  - unfold insert_entry; fold insert_entry. destruct Hs as [Hy Hs].
    destruct (entry_ltb y x) eqn:E.
    + split.
      * intros b [Hb|Hb].
        -- subst b. apply R_lt. exact E.
        -- apply R_trans with y.
           ++ apply Hpos. left. reflexivity.
           ++ apply Hpos. right. left. reflexivity.
           ++ apply Hpos. right. right. exact Hb.
           ++ apply R_lt. exact E.
           ++ apply Hy. exact Hb.
      * split; assumption.
    + split.
      * intros b Hb. apply (Permutation_in _ (sg_insert_entry_perm x t)) in Hb.
        destruct Hb as [Hb|Hb].
        -- subst b. apply R_nlt. exact E.
        -- apply Hy. exact Hb.
      * apply IH; [|exact Hs]. intros e [He|He]; apply Hpos.
        -- left. exact He.
        -- right. right. exact He.
Qed.

Lemma sg_sort_entries_sorted : forall l,
  (forall e, In e l -> entry_pos e) -> sg_sorted (sort_entries l).
Proof.
  induction l as [|a l IH]; intro Hpos.
  - exact I.
  - unfold sort_entries, fold_right; fold (fold_right insert_entry [] l); fold (sort_entries l).
    apply sg_insert_sorted.
    + intros e [He|He]; apply Hpos.
      * left. exact He.
      * right. apply (proj1 (sort_entries_In _ _)). exact He.
    + apply IH. intros e He. apply Hpos. right. exact He.
Qed.

Lemma sg_sorted_last : forall s x, sg_sorted (s ++ [x]) -> forall y, In y s -> R y x.
Proof.
  induction s as [|a s IH]; intros x Hs y Hy.
  - destruct Hy.
  - change ((a :: s) ++ [x]) with (a :: (s ++ [x])) in Hs. destruct Hs as [Ha Hs].
    destruct Hy as [Hy|Hy].
    + subst y. apply Ha. apply in_or_app. right. left. reflexivity.
    + apply IH; assumption.
Qed.

Lemma sg_sorted_nth : forall l dflt i j,
  sg_sorted l -> i < j -> j < length l -> R (nth i l dflt) (nth j l dflt).
Proof.
  induction l as [|a l IH]; intros dflt i j Hs Hij Hj.
  - inversion Hj.
  - destruct Hs as [Ha Hs]. destruct j as [|j]; [lia|].
    change (length (a :: l)) with (S (length l)) in Hj.
    change (nth (S j) (a :: l) dflt) with (nth j l dflt).
    destruct i as [|i].
    + change (nth 0 (a :: l) dflt) with a. apply Ha. apply nth_In. lia.
    + change (nth (S i) (a :: l) dflt) with (nth i l dflt). apply IH; [exact Hs | lia | lia].
Qed.
End SortGen.

(* instance 1: descending densities *)
Definition sg_dge (a b : entry) : Prop := dens_ltb (fst a) (fst b) = false.

Lemma sg_dge_lt : forall x y, entry_ltb y x = true -> sg_dge x y.
Proof.
  intros x y H. unfold sg_dge. apply sg_dens_ltb_false.
  unfold entry_ltb in H. apply orb_true_iff in H. destruct H as [H|H].
  - unfold dens_ltb in H. apply Nat.ltb_lt in H. unfold sg_dle. lia.
  - apply andb_true_iff in H. destruct H as [H _]. apply sg_dens_eqb_true in H. tauto.
Qed.

Lemma sg_dge_nlt : forall x y, entry_ltb y x = false -> sg_dge y x.
Proof.
  intros x y H. unfold entry_ltb in H. apply orb_false_iff in H. destruct H as [H _]. exact H.
Qed.

Lemma sg_dge_trans : forall a b c, entry_pos a -> entry_pos b -> entry_pos c ->
  sg_dge a b -> sg_dge b c -> sg_dge a c.
Proof.
  intros a b c _ Hb _ H1 H2. unfold sg_dge in *.
  apply sg_dens_ltb_false in H1. apply sg_dens_ltb_false in H2. apply sg_dens_ltb_false.
  apply sg_dle_trans with (fst b); assumption.
Qed.

Theorem sort_entries_dens_sorted : forall l,
  (forall e, In e l -> 0 < snd (fst e)) ->
  forall i j, i < j -> j < length (sort_entries l) ->
    dens_ltb (fst (nth i (sort_entries l) ((0, 1), []))) (fst (nth j (sort_entries l) ((0, 1), []))) = false.
Proof.
  intros l Hpos i j Hij Hj.
  apply (sg_sorted_nth sg_dge); [|exact Hij|exact Hj].
  apply (sg_sort_entries_sorted sg_dge sg_dge_lt sg_dge_nlt sg_dge_trans). exact Hpos.
Qed.

Lemma sg_split_last : forall (A : Type) (l : list A), l <> [] ->
  exists l' x, l = l' ++ [x] /\ removelast l = l'.
Proof.
  intros A l H. destruct l as [|a t]; [contradiction|].
  exists (removelast (a :: t)), (last (a :: t) a). split; [|reflexivity].
  apply app_removelast_last. discriminate.
Qed.

(* in a density-sorted list an element that is strictly denser than another one is not the last *)
Lemma sg_not_last : forall (S : list entry) (t' z : entry),
  sg_sorted sg_dge S -> In t' S -> In z S -> dens_ltb (fst z) (fst t') = true ->
  In t' (removelast S).
Proof.
  intros S t' z Hs Ht Hz Hd.
  assert (Hne : S <> []) by (intro E; subst S; destruct Ht).
  destruct (sg_split_last _ S Hne) as [S' [x [ES ER]]]. rewrite ER. subst S.
  apply in_app_or in Ht. destruct Ht as [Ht|Ht]; [exact Ht|].
  exfalso. apply sg_in_single in Ht. subst x.
  apply in_app_or in Hz. destruct Hz as [Hz|Hz].
  - pose proof (sg_sorted_last sg_dge S' t' Hs z Hz) as Hge. unfold sg_dge in Hge.
    rewrite Hge in Hd. discriminate Hd.
  - apply sg_in_single in Hz. subst z. unfold dens_ltb in Hd.
    rewrite Nat.ltb_irrefl in Hd. discriminate Hd.
Qed.

(* a strictly denser candidate that is not yet listed always enters a full list *)
Theorem update_list_keeps_denser : forall (l : list entry) (t : entry) m d,
  1 <= m -> length l = m ->
  (forall e, In e l -> 0 < snd (fst e)) -> 0 < snd (fst t) ->
  dens_ltb (fst (last l ((0, 1), []))) (fst t) = true ->
  (forall e, In e l -> list_eqb_nat (sort_asc (dedup (snd t))) (snd e) = false) ->
  In (fst t, sort_asc (dedup (snd t))) (fst (update_list l t m d)).
Proof.
  intros l t m d Hm Hlen Hposl Hpost Hdens Hnew.
  change (fst t, sort_asc (dedup (snd t))) with (sg_norm t).
  rewrite sg_update_list_unfold.
  destruct (existsb (fun e => list_eqb_nat (snd (sg_norm t)) (snd e)) l) eqn:Hex.
  { apply existsb_exists in Hex. destruct Hex as [e [He1 He2]].
    unfold sg_norm in He2. cbn [snd] in He2. rewrite (Hnew e He1) in He2. discriminate He2. }
  assert (Hlt : length l <? m = false) by (apply Nat.ltb_ge; lia).
  rewrite Hlt.
  assert (Hd' : dens_ltb (fst (last l ((0, 1), []))) (fst (sg_norm t)) = true) by exact Hdens.
  rewrite Hd'. cbn [fst].
  assert (Hpos : forall e, In e (l ++ [sg_norm t]) -> entry_pos e).
  { intros e He. apply in_app_or in He. destruct He as [He|He].
    - apply Hposl. exact He.
    - apply sg_in_single in He. subst e. exact Hpost. }
  assert (Hlne : l <> []).
  { intro E. subst l. change (length (@nil entry)) with 0 in Hlen. lia. }
  apply (sg_not_last _ _ (last l ((0, 1), []))).
  - apply (sg_sort_entries_sorted sg_dge sg_dge_lt sg_dge_nlt sg_dge_trans). exact Hpos.
  - apply sort_entries_In. apply in_or_app. right. left. reflexivity.
  - apply sort_entries_In. apply in_or_app. left. apply sg_last_In. exact Hlne.
  - exact Hd'.
Qed.

(* instance 2: the full tuple order.  entries_sorted l : no earlier entry is smaller than a later one,
   i.e. l is in descending tuple order (what l.sort(reverse=True) leaves). *)
Definition entries_sorted (l : list entry) : Prop :=
  forall i j, i < j -> j < length l ->
    entry_ltb (nth i l ((0, 1), [])) (nth j l ((0, 1), [])) = false.

Lemma sg_list_ltb_asym : forall a b, list_ltb a b = true -> list_ltb b a = false.
Proof.
  induction a as [|x a IH]; intros [|y b] H; try reflexivity; try discriminate H.
  unfold list_ltb in *; fold list_ltb in *.
  destruct (x <? y) eqn:Exy.
  - apply Nat.ltb_lt in Exy.
    assert (E : y <? x = false) by (apply Nat.ltb_ge; lia). rewrite E. reflexivity.
  - destruct (y <? x) eqn:Eyx; [discriminate H|]. apply IH. exact H.
Qed.

Lemma sg_list_ge_trans : forall a b c,
  list_ltb a b = false -> list_ltb b c = false -> list_ltb a c = false.
Proof.
  induction a as [|x a IH]; intros [|y b] [|z c] H1 H2; try reflexivity; try discriminate H1;
    try discriminate H2.
  unfold list_ltb in *; fold list_ltb in *.
  destruct (x <? y) eqn:Exy; [discriminate H1|].
  destruct (y <? z) eqn:Eyz; [discriminate H2|].
  apply Nat.ltb_ge in Exy. apply Nat.ltb_ge in Eyz.
  assert (Exz : x <? z = false) by (apply Nat.ltb_ge; lia). rewrite Exz.
  destruct (z <? x) eqn:Ezx; [reflexivity|].
  apply Nat.ltb_ge in Ezx.
  assert (Eyx : y <? x = false) by (apply Nat.ltb_ge; lia).
  assert (Ezy : z <? y = false) by (apply Nat.ltb_ge; lia).
  rewrite Eyx in H1. rewrite Ezy in H2. apply IH with b; assumption.
Qed.

Definition sg_ege (a b : entry) : Prop := entry_ltb a b = false.

Lemma sg_ege_lt : forall x y, entry_ltb y x = true -> sg_ege x y.
Proof.
  intros x y H. unfold sg_ege.
  pose proof (sg_dge_lt x y H) as Hd. unfold sg_dge in Hd.
  unfold entry_ltb in *. rewrite Hd. cbn [orb].
  apply orb_true_iff in H. destruct H as [H|H].
  - (* y strictly less dense: the densities differ *)
    assert (E : dens_eqb (fst x) (fst y) = false).
    { unfold dens_ltb in H. apply Nat.ltb_lt in H. unfold dens_eqb. apply Nat.eqb_neq. lia. }
    rewrite E. reflexivity.
  - apply andb_true_iff in H. destruct H as [_ H]. apply sg_list_ltb_asym in H.
    rewrite H. apply andb_false_r.
Qed.

Lemma sg_ege_nlt : forall x y, entry_ltb y x = false -> sg_ege y x.
Proof. intros x y H. exact H. Qed.

Lemma sg_ege_trans : forall a b c, entry_pos a -> entry_pos b -> entry_pos c ->
  sg_ege a b -> sg_ege b c -> sg_ege a c.
Proof.
  intros a b c Ha Hb Hc H1 H2. unfold sg_ege, entry_ltb in *.
  apply orb_false_iff in H1. destruct H1 as [H1d H1l].
  apply orb_false_iff in H2. destruct H2 as [H2d H2l].
  apply sg_dens_ltb_false in H1d. apply sg_dens_ltb_false in H2d.
  assert (Hca : sg_dle (fst c) (fst a)) by (apply sg_dle_trans with (fst b); assumption).
  apply orb_false_iff. split.
  - apply sg_dens_ltb_false. exact Hca.
  - destruct (dens_eqb (fst a) (fst c)) eqn:E; [|reflexivity]. cbn [andb].
    apply sg_dens_eqb_true in E. destruct E as [Eac _].
    (* a <= c <= b <= a : all three densities coincide *)
    assert (Hab : sg_dle (fst a) (fst b)) by (apply sg_dle_trans with (fst c); assumption).
    assert (Hbc : sg_dle (fst b) (fst c)) by (apply sg_dle_trans with (fst a); assumption).
    assert (E1 : dens_eqb (fst a) (fst b) = true) by (apply sg_dens_eqb_true; split; assumption).
    assert (E2 : dens_eqb (fst b) (fst c) = true) by (apply sg_dens_eqb_true; split; assumption).
    rewrite E1 in H1l. rewrite E2 in H2l. cbn [andb] in H1l, H2l.
    apply sg_list_ge_trans with (snd b); assumption.
Qed.

Theorem sort_entries_sorted : forall l,
  (forall e, In e l -> 0 < snd (fst e)) -> entries_sorted (sort_entries l).
Proof.
  intros l Hpos i j Hij Hj.
  apply (sg_sorted_nth sg_ege); [|exact Hij|exact Hj].
  apply (sg_sort_entries_sorted sg_ege sg_ege_lt sg_ege_nlt sg_ege_trans). exact Hpos.
Qed.
