(* C19 — model of strawberryfields/apps/subgraph.py: resize, _update_subgraphs_list, _update_dict,
   search, and the density reported by search.  Definitions only.  Conventions as in Clique.v
   (oracle draws; set orders ascending; the row order [tbl] of the copied subgraph's degree table
   is observed by the harness and passed in). *)
From Coq Require Import List Arith ZArith Bool Lia.
From SFV Require Import C19.Similarity C19.Clique.
Import ListNotations.

Inductive rres :=
| ROk (sizes : list (nat * list nat))   (* the dict, in insertion order *)
| RErrSubgraph | RErrMin | RErrMax | RErrRange | RErrWeights | RErrSelect.

Section Graph.
Variable adj : nat -> nat -> bool.
Variable nodes : list nat.

(* degree of an outside node c in graph.subgraph(grow + [c]) *)
Definition deg_to (c : nat) (sub : list nat) : nat :=
  length (filter (fun v => adj c v && negb (v =? c)) sub) + (if adj c c then 2 else 0).

(* growth: row index into the table of complement nodes.  [fixed = true] is the source (since commit 5c60841),
   [fixed = false] the OLD variant that used the position inside the max-degree sub-array as a table row. *)
Definition grow_index (fixed : bool) (s : sel) (sub : list nat) (compl : list nat) (d : nat) : option nat :=
  let degs := map (fun c => deg_to c sub) compl in
  let dmax := positions (Nat.eqb (list_max degs)) degs in
  match s with
  | Uniform => Some (pick 0 dmax d)
  | Weight w =>
      let ws := map (fun n => weight_of nodes w (nth n compl 0)) dmax in
      let j := pick 0 (positions (Z.eqb (zmax ws)) ws) d in
      Some (if fixed then nth j dmax 0 else j)
  | _ => None
  end.

Definition in_range (lo hi k : nat) : bool := (lo <=? k) && (k <=? hi).

(* while grow.order() < max_size *)
Fixpoint grow_phase (fuel : nat) (fixed : bool) (s : sel) (lo hi : nat) (sub : list nat) (draws : list nat)
  : option (list (nat * list nat) * list nat) :=
  match fuel with
  | 0 => Some ([], draws)
  | S f =>
      if length sub <? hi then
        let compl := sort_asc (filter (fun n => negb (mem n sub)) nodes) in
        let (d, draws') := draw draws in
        match grow_index fixed s sub compl d with
        | None => None
        | Some i =>
            let sub' := nth i compl 0 :: sub in
            match grow_phase f fixed s lo hi sub' draws' with
            | None => None
            | Some (rest, dr) =>
                Some ((if in_range lo hi (length sub') then [(length sub', sort_asc sub')] else []) ++ rest, dr)
            end
        end
      else Some ([], draws)
  end.

(* while shrink.order() > min_size *)
Fixpoint shrink_phase (fuel : nat) (fixed : bool) (s : sel) (lo hi : nat) (tbl : list nat) (draws : list nat)
  : option (list (nat * list nat) * list nat) :=
  match fuel with
  | 0 => Some ([], draws)
  | S f =>
      if lo <? length tbl then
        let (d, draws') := draw draws in
        match shrink_index adj nodes fixed s tbl d with
        | None => None
        | Some i =>
            let tbl' := remove_nth i tbl in
            match shrink_phase f fixed s lo hi tbl' draws' with
            | None => None
            | Some (rest, dr) =>
                Some ((if in_range lo hi (length tbl') then [(length tbl', sort_asc tbl')] else []) ++ rest, dr)
            end
        end
      else Some ([], draws)
  end.

Definition sel_ok (s : sel) : bool := match s with Uniform | Weight _ => true | _ => false end.

(* [tbl]: the subgraph's nodes (duplicate-free) in degree-table row order.  Returns the dict and the
   unused draws. *)
Definition resize_draws (fixed : bool) (s : sel) (tbl : list nat) (lo hi : nat) (draws : list nat)
  : rres * list nat :=
  if negb (subset tbl nodes) then (RErrSubgraph, draws)
  else if lo <? 1 then (RErrMin, draws)
  else if length nodes <=? hi then (RErrMax, draws)
  else if hi <? lo then (RErrRange, draws)
  else if negb (weights_ok nodes s) then (RErrWeights, draws)
  else if negb (sel_ok s) then (RErrSelect, draws)
  else
    let k0 := length tbl in
    let first := if in_range lo hi k0 then [(k0, sort_asc tbl)] else [] in
    match (if k0 <? hi then grow_phase (length nodes) fixed s lo hi tbl draws else Some ([], draws)) with
    | None => (RErrSelect, draws)
    | Some (g, dr1) =>
        match (if lo <? k0 then shrink_phase (length tbl) fixed s lo hi tbl dr1 else Some ([], dr1)) with
        | None => (RErrSelect, dr1)
        | Some (sh, dr2) => (ROk (first ++ g ++ sh), dr2)
        end
    end.

Definition resize (fixed : bool) (s : sel) (tbl : list nat) (lo hi : nat) (draws : list nat) : rres :=
  fst (resize_draws fixed s tbl lo hi draws).

(* the source as it stands *)
Definition grow_index_cur := grow_index true.
Definition resize_cur := resize true.

(* nx.density of the induced subgraph as the exact fraction (2e, n(n-1)); (0,1) for n <= 1.  networkx counts a
   self-loop as an edge here (number_of_edges), so e is the count *with* self-loops *)
Definition edge_count_all := edge_count_pre_eefbefe.
Definition density (sub : list nat) : nat * nat :=
  let n := length sub in
  if n <=? 1 then (0, 1) else (2 * edge_count_all adj sub, n * (n - 1)).

End Graph.

(* ---------- _update_subgraphs_list ---------- *)
(* an entry is (density as a fraction num/den with den > 0, sorted node list) *)
Definition entry := ((nat * nat) * list nat)%type.
Definition dens_ltb (a b : nat * nat) : bool := fst a * snd b <? fst b * snd a.
Definition dens_eqb (a b : nat * nat) : bool := fst a * snd b =? fst b * snd a.

Fixpoint list_ltb (a b : list nat) : bool :=     (* Python list < list *)
  match a, b with
  | [], [] => false
  | [], _ :: _ => true
  | _ :: _, [] => false
  | x :: a', y :: b' => if x <? y then true else if y <? x then false else list_ltb a' b'
  end.
Fixpoint list_eqb_nat (a b : list nat) : bool :=
  match a, b with
  | [], [] => true
  | x :: a', y :: b' => (x =? y) && list_eqb_nat a' b'
  | _, _ => false
  end.
(* tuple order: (d1, s1) < (d2, s2) *)
Definition entry_ltb (a b : entry) : bool :=
  dens_ltb (fst a) (fst b) || (dens_eqb (fst a) (fst b) && list_ltb (snd a) (snd b)).

(* l.sort(reverse=True): stable, descending *)
Fixpoint insert_entry (x : entry) (l : list entry) : list entry :=
  match l with
  | [] => [x]
  | y :: t => if entry_ltb y x then x :: l else y :: insert_entry x t
  end.
Definition sort_entries (l : list entry) : list entry := fold_right insert_entry [] l.

(* returns the new list and whether a draw (np.random.choice(2)) was consumed *)
Definition update_list (l : list entry) (t : entry) (max_count : nat) (d : nat) : list entry * bool :=
  let t' := (fst t, sort_asc (dedup (snd t))) in
  if existsb (fun e => list_eqb_nat (snd t') (snd e)) l then (l, false)
  else if length l <? max_count then (sort_entries (l ++ [t']), false)
  else
    let lmin := fst (last l ((0, 1), [])) in
    if dens_ltb lmin (fst t') then (removelast (sort_entries (l ++ [t'])), false)
    else if dens_eqb (fst t') lmin then
      (if d mod 2 =? 0 then l else sort_entries (removelast l ++ [t']), true)
    else (l, false).

(* _update_dict: d is an association list size -> entries (insertion order) *)
Fixpoint dict_get (k : nat) (d : list (nat * list entry)) : option (list entry) :=
  match d with [] => None | (k', v) :: t => if k' =? k then Some v else dict_get k t end.
Fixpoint dict_set (k : nat) (v : list entry) (d : list (nat * list entry)) : list (nat * list entry) :=
  match d with
  | [] => [(k, v)]
  | (k', v') :: t => if k' =? k then (k, v) :: t else (k', v') :: dict_set k v t
  end.

Fixpoint update_dict (d : list (nat * list entry)) (dnew : list (nat * entry)) (max_count : nat) (draws : list nat)
  : list (nat * list entry) * list nat :=
  match dnew with
  | [] => (d, draws)
  | (size, t) :: rest =>
      let l := match dict_get size d with Some l => l | None => [t] end in
      let (l', used) := update_list l t max_count (fst (draw draws)) in
      update_dict (dict_set size l' d) rest max_count (if used then snd (draw draws) else draws)
  end.

(* search over seed subgraphs given with their table orders *)
Fixpoint search_loop (adj : nat -> nat -> bool) (nodes : list nat) (fixed : bool) (s : sel)
         (subs : list (list nat)) (lo hi max_count : nat) (dense : list (nat * list entry)) (draws : list nat)
  : option (list (nat * list entry)) :=
  match subs with
  | [] => Some dense
  | tbl :: rest =>
      match resize_draws adj nodes fixed s tbl lo hi draws with
      | (ROk r, dr) =>
          let r' := map (fun p => (fst p, (density adj (snd p), snd p))) r in
          let (dense', dr') := update_dict dense r' max_count dr in
          search_loop adj nodes fixed s rest lo hi max_count dense' dr'
      | _ => None
      end
  end.
