(* C19 — model of strawberryfields/apps/similarity.py (sample_to_orbit, sample_to_event, orbits,
   orbit_cardinality, event_cardinality) and of strawberryfields/apps/sample.py (postselect,
   modes_from_counts, to_subgraphs).  Definitions only.

   Photon counts / mode counts are [nat]; cardinalities are exact [N].
   [orbits] is Kelleher's accelerated-ascending partition generator exactly as written in the
   source: the array prefix a[0..k-1] is kept as a stack (head = a[k-1]), [yy] is the variable y.
   [orbit_cardinality] is the exact-integer computation of the source (since commit 87b9aa4). *)
From Coq Require Import List Arith NArith Bool Lia.
Import ListNotations.

(* ---------- sorting (Python sorted(..., reverse=True) / sorted) on nat ---------- *)
Fixpoint insert_desc (x : nat) (l : list nat) : list nat :=
  match l with
  | [] => [x]
  | y :: t => if y <=? x then x :: l else y :: insert_desc x t
  end.
Definition sort_desc (l : list nat) : list nat := fold_right insert_desc [] l.

Fixpoint insert_asc (x : nat) (l : list nat) : list nat :=
  match l with
  | [] => [x]
  | y :: t => if x <=? y then x :: l else y :: insert_asc x t
  end.
Definition sort_asc (l : list nat) : list nat := fold_right insert_asc [] l.

Definition list_max (l : list nat) : nat := fold_right Nat.max 0 l.

(* ---------- sample -> orbit / event ---------- *)
Definition nonzero (c : nat) : bool := negb (c =? 0).
Definition sample_to_orbit (s : list nat) : list nat := sort_desc (filter nonzero s).
(* Python raises on an empty sample (max of empty); the model is for non-empty samples *)
Definition sample_to_event (s : list nat) (maxc : nat) : option nat :=
  if list_max s <=? maxc then Some (list_sum s) else None.

(* orbit_to_sample: pad with zeros, then shuffle with the permutation handed in by the harness
   (the recorded effect of np.random.shuffle): position i of the result is position (nth i perm) of
   the padded list *)
Definition pad (orbit : list nat) (modes : nat) : list nat := orbit ++ repeat 0 (modes - length orbit).
Definition apply_perm (perm : list nat) (l : list nat) : list nat := map (fun i => nth i l 0) perm.
Definition orbit_to_sample (orbit : list nat) (modes : nat) (perm : list nat) : option (list nat) :=
  if modes <? length orbit then None else Some (apply_perm perm (pad orbit modes)).

(* ---------- Kelleher's generator ---------- *)
Definition emit (st : list nat) (tail : list nat) : list nat := sort_desc (rev st ++ tail).

(* while 2*x <= y: a[k] = x; y -= x; k += 1 *)
Fixpoint loop1 (fuel x : nat) (st : list nat) (y : nat) : list nat * nat :=
  match fuel with
  | 0 => (st, y)
  | S f => if 2 * x <=? y then loop1 f x (x :: st) (y - x) else (st, y)
  end.

(* while x <= y: a[k] = x; a[l] = y; yield a[:k+2]; x += 1; y -= 1 *)
Fixpoint loop2 (fuel x y : nat) (st : list nat) : list (list nat) * nat * nat :=
  match fuel with
  | 0 => ([], x, y)
  | S f =>
      if x <=? y then
        let '(o, x', y') := loop2 f (S x) (y - 1) st in (emit st [x; y] :: o, x', y')
      else ([], x, y)
  end.

(* one pass of the outer `while k != 0` body; the stack is non-empty *)
Definition outer (st : list nat) (y : nat) : list (list nat) * list nat * nat :=
  match st with
  | [] => ([], [], y)
  | x0 :: st0 =>
      let x := S x0 in
      let '(st1, y1) := loop1 y x st0 y in
      let '(outs, x2, y2) := loop2 (S y1) x y1 st1 in
      (outs ++ [emit st1 [x2 + y2]], st1, x2 + y2 - 1)
  end.

(* 2^d passes of the outer loop at most, stopping as soon as k = 0 (empty stack) *)
Fixpoint run (d : nat) (st : list nat) (y : nat) : list (list nat) * list nat * nat :=
  match d with
  | 0 => match st with [] => ([], st, y) | _ => outer st y end
  | S d' =>
      let '(o1, st1, y1) := run d' st y in
      match st1 with
      | [] => (o1, st1, y1)
      | _ => let '(o2, st2, y2) := run d' st1 y1 in (o1 ++ o2, st2, y2)
      end
  end.

(* orbits(0) yields [0] in the source (y starts at -1, a[0] = x + y = 0) *)
Definition orbits (n : nat) : list (list nat) :=
  match n with
  | 0 => [[0]]
  | _ => fst (fst (run n [0] (n - 1)))
  end.
(* did the generator run to completion (k reached 0) within the 2^n passes? *)
Definition orbits_finished (n : nat) : bool :=
  match n with 0 => true | _ => match snd (fst (run n [0] (n - 1))) with [] => true | _ => false end end.

(* ---------- cardinalities ---------- *)
Fixpoint factN (n : nat) : N := match n with 0 => 1%N | S m => (N.of_nat n * factN m)%N end.

(* multiplicities of the values of a list (Counter(sample).values()), in first-occurrence order *)
Fixpoint count_occ_nat (v : nat) (l : list nat) : nat :=
  match l with [] => 0 | x :: t => (if x =? v then 1 else 0) + count_occ_nat v t end.
Fixpoint remove_all (v : nat) (l : list nat) : list nat :=
  match l with [] => [] | x :: t => if x =? v then remove_all v t else x :: remove_all v t end.
Fixpoint mults (fuel : nat) (l : list nat) : list nat :=
  match fuel with
  | 0 => []
  | S f => match l with [] => [] | v :: _ => count_occ_nat v l :: mults f (remove_all v l) end
  end.
Definition counts (l : list nat) : list nat := mults (length l) l.
Definition prod_fact (cs : list nat) : N := fold_right (fun c acc => (factN c * acc)%N) 1%N cs.

(* orbit_cardinality as in the source (after commit 87b9aa4): 0 when the orbit has more parts than there are
   modes, else the multinomial coefficient by exact integer division *)
Definition orbit_cardinality (orbit : list nat) (modes : nat) : N :=
  if modes <? length orbit then 0%N
  else (factN modes / prod_fact (counts (pad orbit modes)))%N.

Definition event_cardinality (photons maxc modes : nat) : N :=
  fold_right (fun orb acc => if list_max orb <=? maxc then (orbit_cardinality orb modes + acc)%N else acc)
             0%N (orbits photons).

(* OLD variant (before 87b9aa4), kept by name for the refutation only: no guard on the orbit length (and, in the
   source, floating point — not modelled) *)
Definition orbit_cardinality_pre87b9aa4 (orbit : list nat) (modes : nat) : N :=
  (factN modes / prod_fact (counts (pad orbit modes)))%N.
Definition event_cardinality_pre87b9aa4 (photons maxc modes : nat) : N :=
  fold_right (fun orb acc => if list_max orb <=? maxc then (orbit_cardinality_pre87b9aa4 orb modes + acc)%N else acc)
             0%N (orbits photons).

(* event_to_sample: the orbits of the event with their cardinalities as weights; np.random.choice(p=...) can
   only return an outcome of non-zero probability, the oracle draw d picks among those; then orbit_to_sample.
   None = ValueError *)
Definition event_to_sample (photons maxc modes : nat) (d : nat) (perm : list nat) : option (list nat) :=
  if maxc * modes <? photons then None
  else
    let orbs := filter (fun o => (list_max o <=? maxc) && (length o <=? modes)) (orbits photons) in
    let cands := filter (fun o => negb (N.eqb (orbit_cardinality o modes) 0)) orbs in
    match cands with
    | [] => None
    | _ => orbit_to_sample (nth (d mod length cands) cands []) modes perm
    end.

(* ---------- sample.py ---------- *)
Definition postselect (samples : list (list nat)) (lo hi : nat) : list (list nat) :=
  filter (fun s => (lo <=? list_sum s) && (list_sum s <=? hi)) samples.

Fixpoint modes_from_counts_at (i : nat) (s : list nat) : list nat :=
  match s with [] => [] | c :: t => repeat i c ++ modes_from_counts_at (S i) t end.
Definition modes_from_counts (s : list nat) : list nat := sort_asc (modes_from_counts_at 0 s).

Fixpoint dedup (l : list nat) : list nat :=
  match l with [] => [] | x :: t => if existsb (Nat.eqb x) t then dedup t else x :: dedup t end.
(* to_subgraphs for one sample, as a sorted node list: click positions mapped through graph.nodes *)
Definition to_subgraph (gnodes : list nat) (s : list nat) : list nat :=
  sort_asc (map (fun i => nth i gnodes 0) (dedup (modes_from_counts s))).
