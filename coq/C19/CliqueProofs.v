(* C19 — machine-checked lemmas about the model C19/Clique.v (strawberryfields/apps/clique.py). *)
From Coq Require Import List Arith ZArith Bool Lia Permutation.
From SFV Require Import C19.Similarity C19.Clique.
Import ListNotations.

Definition clique_set (adj : nat -> nat -> bool) (l : list nat) : Prop :=
  forall u v, In u l -> In v l -> u <> v -> adj u v = true.

(* ------------------------------------------------------------------ *)
(* 1. sort_asc / dedup / mem                                           *)
(* ------------------------------------------------------------------ *)
Lemma insert_asc_perm : forall x l, Permutation (insert_asc x l) (x :: l).
Proof.
  intros x l; induction l as [|y t IH]; simpl.
  - apply Permutation_refl.
  - destruct (x <=? y).
    + apply Permutation_refl.
    + eapply perm_trans; [apply perm_skip, IH | apply perm_swap].
Qed.

Lemma sort_asc_perm : forall l, Permutation (sort_asc l) l.
Proof.
  induction l as [|x t IH]; simpl.
  - apply perm_nil.
  - eapply perm_trans; [apply insert_asc_perm | apply perm_skip, IH].
Qed.

Lemma sort_asc_In : forall x l, In x (sort_asc l) <-> In x l.
Proof.
  intros x l; split; apply Permutation_in;
    [apply sort_asc_perm | apply Permutation_sym, sort_asc_perm].
Qed.

Lemma sort_asc_length : forall l, length (sort_asc l) = length l.
Proof. intro l; apply Permutation_length, sort_asc_perm. Qed.

Lemma sort_asc_NoDup : forall l, NoDup l -> NoDup (sort_asc l).
Proof.
  intros l H; eapply Permutation_NoDup; [apply Permutation_sym, sort_asc_perm | exact H].
Qed.

Lemma mem_spec : forall x l, mem x l = true <-> In x l.
Proof.
  intros x l; unfold mem; rewrite existsb_exists; split.
  - intros [y [Hy E]]. apply Nat.eqb_eq in E; subst; exact Hy.
  - intro H; exists x; split; [exact H | apply Nat.eqb_refl].
Qed.

Lemma mem_false : forall x l, mem x l = false <-> ~ In x l.
Proof.
  intros x l; rewrite <- mem_spec; destruct (mem x l); split; intro H; try reflexivity;
    try discriminate; try (intro; discriminate). exfalso; apply H; reflexivity.
Qed.

Lemma dedup_In : forall x l, In x (dedup l) <-> In x l.
Proof.
  intros x l; induction l as [|a t IH]; simpl; [tauto|].
  destruct (existsb (Nat.eqb a) t) eqn:E.
  - rewrite IH; split; [tauto|]. intros [H|H]; [|exact H].
    subst. apply (mem_spec x t). exact E.
  - simpl; rewrite IH; tauto.
Qed.

Lemma dedup_NoDup : forall l, NoDup (dedup l).
Proof.
  induction l as [|a t IH]; simpl; [constructor|].
  destruct (existsb (Nat.eqb a) t) eqn:E; [exact IH|].
  constructor; [|exact IH].
  rewrite dedup_In. apply (mem_false a t). exact E.
Qed.

(* ------------------------------------------------------------------ *)
(* filter-length facts                                                 *)
(* ------------------------------------------------------------------ *)
Lemma filter_len_le : forall (A : Type) (f : A -> bool) l, length (filter f l) <= length l.
Proof.
  intros A f l; induction l as [|a t IH]; simpl; [lia|]. destruct (f a); simpl; lia.
Qed.

Lemma filter_len_eq : forall (A : Type) (f : A -> bool) l,
  length (filter f l) = length l <-> (forall x, In x l -> f x = true).
Proof.
  intros A f l; induction l as [|a t IH]; simpl.
  - split; [intros _ x []| reflexivity].
  - destruct (f a) eqn:E; simpl.
    + split.
      * intros H x [Hx|Hx]; [subst; exact E|]. apply IH; [lia|exact Hx].
      * intro H. f_equal. apply IH. intros x Hx; apply H; right; exact Hx.
    + split.
      * intro H. pose proof (filter_len_le A f t). lia.
      * intro H. rewrite (H a) in E; [discriminate| left; reflexivity].
Qed.

(* ------------------------------------------------------------------ *)
(* adj_of is symmetric                                                 *)
(* ------------------------------------------------------------------ *)
Lemma adj_of_sym : forall e u v, adj_of e u v = adj_of e v u.
Proof.
  intros e u v; unfold adj_of; induction e as [|p t IH]; simpl; [reflexivity|].
  rewrite IH. f_equal. apply orb_comm.
Qed.

(* ------------------------------------------------------------------ *)
(* 2. is_clique                                                        *)
(* ------------------------------------------------------------------ *)
Section IsClique.
Variable adj : nat -> nat -> bool.
Hypothesis adj_sym : forall u v, adj u v = adj v u.

Lemma edge_count_cons : forall u t,
  edge_count adj (u :: t) = length (filter (adj u) t) + edge_count adj t.
Proof. intros u t; simpl. reflexivity. Qed.

Lemma edge_count_bound : forall l, edge_count adj l * 2 <= length l * (length l - 1).
Proof.
  induction l as [|u t IH]; [simpl; lia|].
  rewrite edge_count_cons.
  pose proof (filter_len_le nat (adj u) t) as Hf.
  change (length (u :: t)) with (S (length t)).
  remember (length t) as n. remember (length (filter (adj u) t)) as f.
  remember (edge_count adj t) as e.
  replace (S n - 1) with n by lia.
  destruct n as [|m]; [simpl in *; lia|].
  replace (S m - 1) with m in IH by lia. nia.
Qed.

Lemma is_clique_cons : forall u t,
  is_clique adj (u :: t) = true <->
  length (filter (adj u) t) = length t /\ is_clique adj t = true.
Proof.
  intros u t. unfold is_clique. rewrite !Nat.eqb_eq. rewrite edge_count_cons.
  pose proof (filter_len_le nat (adj u) t) as Hf.
  pose proof (edge_count_bound t) as Hb.
  change (length (u :: t)) with (S (length t)).
  remember (length t) as n. remember (length (filter (adj u) t)) as f.
  remember (edge_count adj t) as e.
  replace (S n - 1) with n by lia.
  destruct n as [|m].
  - simpl in *. lia.
  - replace (S m - 1) with m in * by lia. nia.
Qed.

Lemma is_clique_spec : forall l, NoDup l -> (is_clique adj l = true <-> clique_set adj l).
Proof.
  induction l as [|a t IH]; intro ND.
  - split; [intros _ u v []| reflexivity].
  - inversion ND as [|? ? Hnin NDt]; subst.
    rewrite is_clique_cons, filter_len_eq, (IH NDt). split.
    + intros [Ha Ht] u v Hu Hv Huv. destruct Hu as [Hu|Hu]; destruct Hv as [Hv|Hv]; subst.
      * contradiction Huv; reflexivity.
      * apply Ha; exact Hv.
      * rewrite adj_sym; apply Ha; exact Hu.
      * apply Ht; assumption.
    + intro H; split.
      * intros x Hx. apply H; [left; reflexivity| right; exact Hx|].
        intro; subst; contradiction.
      * intros u v Hu Hv Huv. apply H; [right; exact Hu| right; exact Hv| exact Huv].
Qed.
End IsClique.

(* 3. the OLD edge-count test (before commit eefbefe, self-loops counted) accepted a non-clique *)
Lemma is_clique_pre_eefbefe_selfloop_refuted :
  exists adj l, (forall u v, adj u v = adj v u) /\ NoDup l /\
                is_clique_pre_eefbefe adj l = true /\ ~ clique_set adj l.
Proof.
  exists (adj_of [(0, 0)]), [0; 1]. split; [intros; apply adj_of_sym|].
  split; [repeat constructor; simpl; intuition discriminate|].
  split; [reflexivity|].
  intro H. specialize (H 0 1). simpl in H.
  assert (E : adj_of [(0, 0)] 0 1 = true)
    by (apply H; [left; reflexivity| right; left; reflexivity| discriminate]).
  vm_compute in E. discriminate.
Qed.

(* ------------------------------------------------------------------ *)
(* 4. c_0                                                              *)
(* ------------------------------------------------------------------ *)
Lemma c_0_spec : forall adj nodes clique i,
  In i (c_0 adj nodes clique) <->
  In i nodes /\ ~ In i clique /\ (forall c, In c clique -> adj i c = true).
Proof.
  intros adj nodes clique i. unfold c_0.
  rewrite sort_asc_In, filter_In, andb_true_iff, negb_true_iff, mem_false, forallb_forall.
  tauto.
Qed.

(* ------------------------------------------------------------------ *)
(* 5. c_1                                                              *)
(* ------------------------------------------------------------------ *)
Lemma filter_singleton_sound : forall (p : nat -> bool) l c,
  filter p l = [c] ->
  In c l /\ p c = true /\ (forall c', In c' l -> c' <> c -> p c' = false).
Proof.
  intros p l c H.
  assert (Hc : In c (filter p l)) by (rewrite H; left; reflexivity).
  apply filter_In in Hc. destruct Hc as [Hc Hp]. repeat split; try assumption.
  intros c' Hc' Hne. destruct (p c') eqn:E; [|reflexivity].
  assert (Hin : In c' (filter p l)) by (apply filter_In; split; assumption).
  rewrite H in Hin. destruct Hin as [Hin|[]]. subst; contradiction Hne; reflexivity.
Qed.

Lemma filter_none : forall (p : nat -> bool) l,
  (forall x, In x l -> p x = false) -> filter p l = [].
Proof.
  intros p l; induction l as [|a t IH]; intro H; simpl; [reflexivity|].
  rewrite (H a) by (left; reflexivity). apply IH. intros x Hx; apply H; right; exact Hx.
Qed.

Lemma filter_singleton_complete : forall (p : nat -> bool) l c,
  NoDup l -> In c l -> p c = true ->
  (forall c', In c' l -> c' <> c -> p c' = false) -> filter p l = [c].
Proof.
  intros p l c; induction l as [|a t IH]; intros ND Hc Hp Hothers; [destruct Hc|].
  inversion ND as [|? ? Hnin NDt]; subst. simpl. destruct Hc as [Hc|Hc].
  - subst. rewrite Hp. f_equal. apply filter_none. intros x Hx.
    apply Hothers; [right; exact Hx|]. intro; subst; contradiction.
  - rewrite (Hothers a) by (try (left; reflexivity); intro; subst; contradiction).
    apply IH; try assumption. intros c' Hc' Hne. apply Hothers; [right; exact Hc'| exact Hne].
Qed.

Lemma c_1_In_filter : forall adj nodes clique c i,
  In (c, i) (c_1 adj nodes clique) <->
  In i nodes /\ ~ In i clique /\ filter (fun c => negb (adj i c)) clique = [c].
Proof.
  intros adj nodes clique c i. unfold c_1. rewrite in_flat_map. split.
  - intros [j [Hj Hin]]. rewrite sort_asc_In in Hj.
    destruct (mem j clique) eqn:Em; [destruct Hin|].
    destruct (filter (fun c0 => negb (adj j c0)) clique) as [|c0 [|? ?]] eqn:Ef;
      try (destruct Hin; fail).
    destruct Hin as [Hin|[]]. inversion Hin; subst.
    split; [exact Hj|]. split; [apply mem_false; exact Em| exact Ef].
  - intros [Hi [Hni Hf]]. exists i. split; [apply sort_asc_In; exact Hi|].
    apply mem_false in Hni. rewrite Hni, Hf. left; reflexivity.
Qed.

Lemma c_1_sound : forall adj nodes clique c i,
  In (c, i) (c_1 adj nodes clique) ->
  In i nodes /\ ~ In i clique /\ In c clique /\ adj i c = false /\
  (forall c', In c' clique -> c' <> c -> adj i c' = true).
Proof.
  intros adj nodes clique c i H. apply c_1_In_filter in H. destruct H as [Hi [Hni Hf]].
  apply filter_singleton_sound in Hf. destruct Hf as [Hc [Hp Ho]].
  apply negb_true_iff in Hp. repeat split; try assumption.
  intros c' Hc' Hne. specialize (Ho c' Hc' Hne). apply negb_false_iff in Ho. exact Ho.
Qed.

Lemma c_1_spec : forall adj nodes clique c i, NoDup clique ->
  (In (c, i) (c_1 adj nodes clique) <->
   In i nodes /\ ~ In i clique /\ In c clique /\ adj i c = false /\
   (forall c', In c' clique -> c' <> c -> adj i c' = true)).
Proof.
  intros adj nodes clique c i ND. split; [apply c_1_sound|].
  intros [Hi [Hni [Hc [Ha Ho]]]]. apply c_1_In_filter. repeat split; try assumption.
  apply filter_singleton_complete; try assumption.
  - rewrite Ha; reflexivity.
  - intros c' Hc' Hne. rewrite (Ho c' Hc' Hne). reflexivity.
Qed.

(* ------------------------------------------------------------------ *)
(* 6. positions / extrema / pick / choose_index                        *)
(* ------------------------------------------------------------------ *)
Lemma positions_from_sound : forall (A : Type) (p : A -> bool) (dflt : A) l i q,
  In q (positions_from i p l) ->
  i <= q /\ q - i < length l /\ p (nth (q - i) l dflt) = true.
Proof.
  intros A p dflt l; induction l as [|x t IH]; intros i q H; simpl in H; [destruct H|].
  apply in_app_or in H. destruct H as [H|H].
  - destruct (p x) eqn:E; [|destruct H]. destruct H as [H|[]]. subst.
    rewrite Nat.sub_diag. simpl. repeat split; try lia. exact E.
  - apply IH in H. destruct H as [H1 [H2 H3]].
    replace (q - i) with (S (q - S i)) by lia. simpl. repeat split; try lia. exact H3.
Qed.

Lemma positions_from_complete : forall (A : Type) (p : A -> bool) (dflt : A) l i k,
  k < length l -> p (nth k l dflt) = true -> In (i + k) (positions_from i p l).
Proof.
  intros A p dflt l; induction l as [|x t IH]; intros i k Hk Hp; simpl in Hk; [lia|].
  simpl. apply in_or_app. destruct k as [|k].
  - left. simpl in Hp. rewrite Hp. left. lia.
  - right. replace (i + S k) with (S i + k) by lia. apply IH; [lia| exact Hp].
Qed.

Lemma positions_from_length : forall (A : Type) (p : A -> bool) l i,
  length (positions_from i p l) <= length l.
Proof.
  intros A p l; induction l as [|x t IH]; intro i; simpl; [lia|].
  rewrite app_length. specialize (IH (S i)). destruct (p x); simpl; lia.
Qed.

Lemma positions_sound : forall (A : Type) (p : A -> bool) (dflt : A) l q,
  In q (positions p l) -> q < length l /\ p (nth q l dflt) = true.
Proof.
  intros A p dflt l q H. apply (positions_from_sound A p dflt) in H.
  rewrite Nat.sub_0_r in H. tauto.
Qed.

Lemma positions_complete : forall (A : Type) (p : A -> bool) (dflt : A) l k,
  k < length l -> p (nth k l dflt) = true -> In k (positions p l).
Proof.
  intros A p dflt l k Hk Hp. apply (positions_from_complete A p dflt l 0 k Hk Hp).
Qed.

Lemma positions_length : forall (A : Type) (p : A -> bool) l,
  length (positions p l) <= length l.
Proof. intros; apply positions_from_length. Qed.

Lemma positions_nonempty_of_In : forall (A : Type) (p : A -> bool) l x,
  In x l -> p x = true -> positions p l <> [].
Proof.
  intros A p l x Hx Hp. destruct (In_nth l x x Hx) as [k [Hk Hn]].
  assert (H : In k (positions p l)) by (apply (positions_complete A p x); [exact Hk| rewrite Hn; exact Hp]).
  intro E; rewrite E in H; destruct H.
Qed.

(* extrema *)
Lemma list_max_ge : forall l x, In x l -> x <= list_max l.
Proof.
  induction l as [|a t IH]; intros x H; [destruct H|].
  change (list_max (a :: t)) with (Nat.max a (list_max t)). destruct H as [H|H].
  - subst; lia.
  - specialize (IH x H). lia.
Qed.

Lemma list_max_In : forall l, l <> [] -> In (list_max l) l.
Proof.
  induction l as [|a t IH]; intro H; [contradiction H; reflexivity|].
  destruct t as [|b t'].
  - simpl. left. lia.
  - assert (Hne : b :: t' <> []) by discriminate. specialize (IH Hne).
    change (list_max (a :: b :: t')) with (Nat.max a (list_max (b :: t'))).
    destruct (Nat.max_spec a (list_max (b :: t'))) as [[_ E]|[_ E]]; rewrite E.
    + right; exact IH.
    + left; reflexivity.
Qed.

Lemma fold_max_ge : forall t x y, In y (x :: t) -> (y <= fold_right Z.max x t)%Z.
Proof.
  induction t as [|a t IH]; intros x y H; simpl.
  - destruct H as [H|[]]; subst; lia.
  - destruct H as [H|[H|H]].
    + assert (y <= fold_right Z.max x t)%Z by (apply IH; left; exact H). lia.
    + subst; lia.
    + assert (y <= fold_right Z.max x t)%Z by (apply IH; right; exact H). lia.
Qed.

Lemma fold_max_In : forall t x, In (fold_right Z.max x t) (x :: t).
Proof.
  induction t as [|a t IH]; intro x; simpl; [left; reflexivity|].
  destruct (Z.max_spec a (fold_right Z.max x t)) as [[_ E]|[_ E]]; rewrite E.
  - destruct (IH x) as [H|H]; [left; exact H| right; right; exact H].
  - right; left; reflexivity.
Qed.

Lemma fold_zmin_le : forall t x y, In y (x :: t) -> (fold_right Z.min x t <= y)%Z.
Proof.
  induction t as [|a t IH]; intros x y H; simpl.
  - destruct H as [H|[]]; subst; lia.
  - destruct H as [H|[H|H]].
    + assert (fold_right Z.min x t <= y)%Z by (apply IH; left; exact H). lia.
    + subst; lia.
    + assert (fold_right Z.min x t <= y)%Z by (apply IH; right; exact H). lia.
Qed.

Lemma fold_zmin_In : forall t x, In (fold_right Z.min x t) (x :: t).
Proof.
  induction t as [|a t IH]; intro x; simpl; [left; reflexivity|].
  destruct (Z.min_spec a (fold_right Z.min x t)) as [[_ E]|[_ E]]; rewrite E.
  - right; left; reflexivity.
  - destruct (IH x) as [H|H]; [left; exact H| right; right; exact H].
Qed.

Lemma fold_nmin_le : forall t x y, In y (x :: t) -> fold_right Nat.min x t <= y.
Proof.
  induction t as [|a t IH]; intros x y H; simpl.
  - destruct H as [H|[]]; subst; lia.
  - destruct H as [H|[H|H]].
    + assert (fold_right Nat.min x t <= y) by (apply IH; left; exact H). lia.
    + subst; lia.
    + assert (fold_right Nat.min x t <= y) by (apply IH; right; exact H). lia.
Qed.

Lemma fold_nmin_In : forall t x, In (fold_right Nat.min x t) (x :: t).
Proof.
  induction t as [|a t IH]; intro x; simpl; [left; reflexivity|].
  destruct (Nat.min_spec a (fold_right Nat.min x t)) as [[_ E]|[_ E]]; rewrite E.
  - right; left; reflexivity.
  - destruct (IH x) as [H|H]; [left; exact H| right; right; exact H].
Qed.

Lemma zmax_ge : forall l y, In y l -> (y <= zmax l)%Z.
Proof. intros [|x t] y H; [destruct H| apply fold_max_ge; exact H]. Qed.
Lemma zmax_In : forall l, l <> [] -> In (zmax l) l.
Proof. intros [|x t] H; [contradiction H; reflexivity| apply fold_max_In]. Qed.
Lemma zmin_le : forall l y, In y l -> (zmin l <= y)%Z.
Proof. intros [|x t] y H; [destruct H| apply fold_zmin_le; exact H]. Qed.
Lemma zmin_In : forall l, l <> [] -> In (zmin l) l.
Proof. intros [|x t] H; [contradiction H; reflexivity| apply fold_zmin_In]. Qed.
Lemma nmin_le : forall l y, In y l -> nmin l <= y.
Proof. intros [|x t] y H; [destruct H| apply fold_nmin_le; exact H]. Qed.
Lemma nmin_In : forall l, l <> [] -> In (nmin l) l.
Proof. intros [|x t] H; [contradiction H; reflexivity| apply fold_nmin_In]. Qed.

Lemma positions_max_nonempty : forall ds, ds <> [] -> positions (Nat.eqb (list_max ds)) ds <> [].
Proof.
  intros ds H. apply (positions_nonempty_of_In nat _ ds (list_max ds));
    [apply list_max_In; exact H| apply Nat.eqb_refl].
Qed.
Lemma positions_zmax_nonempty : forall ws, ws <> [] -> positions (Z.eqb (zmax ws)) ws <> [].
Proof.
  intros ws H. apply (positions_nonempty_of_In Z _ ws (zmax ws));
    [apply zmax_In; exact H| apply Z.eqb_refl].
Qed.
Lemma positions_zmin_nonempty : forall ws, ws <> [] -> positions (Z.eqb (zmin ws)) ws <> [].
Proof.
  intros ws H. apply (positions_nonempty_of_In Z _ ws (zmin ws));
    [apply zmin_In; exact H| apply Z.eqb_refl].
Qed.
Lemma positions_nmin_nonempty : forall ds, ds <> [] -> positions (Nat.eqb (nmin ds)) ds <> [].
Proof.
  intros ds H. apply (positions_nonempty_of_In nat _ ds (nmin ds));
    [apply nmin_In; exact H| apply Nat.eqb_refl].
Qed.

Lemma pick_In : forall (A : Type) (dflt : A) l d, l <> [] -> In (pick dflt l d) l.
Proof.
  intros A dflt l d H. unfold pick. apply nth_In. apply Nat.mod_upper_bound.
  destruct l; [contradiction H; reflexivity| discriminate].
Qed.

Lemma map_nonempty : forall (A B : Type) (f : A -> B) l, l <> [] -> map f l <> [].
Proof. intros A B f [|x t] H; [contradiction H; reflexivity| discriminate]. Qed.

Lemma nth_map_lt : forall (A B : Type) (f : A -> B) l i da db,
  i < length l -> nth i (map f l) db = f (nth i l da).
Proof.
  intros A B f l i da db H. rewrite (nth_indep (map f l) db (f da)) by (rewrite map_length; exact H).
  apply map_nth.
Qed.

Lemma choose_index_spec : forall nodes s key cands d i,
  cands <> [] -> choose_index nodes s key cands d = Some i ->
  i < length cands /\
  (s = Degree -> forall c, In c cands -> key c <= key (nth i cands 0)) /\
  (forall w, s = Weight w -> forall c, In c cands ->
     (weight_of nodes w c <= weight_of nodes w (nth i cands 0%nat))%Z).
Proof.
  intros nodes s key cands d i Hne H. destruct s as [| |w|]; simpl in H.
  - inversion H; subst. split.
    + apply Nat.mod_upper_bound. destruct cands; [contradiction Hne; reflexivity| discriminate].
    + split; [discriminate| intros; discriminate].
  - injection H as Hi.
    set (ds := map key cands) in *.
    assert (Hds : ds <> []) by (apply map_nonempty; exact Hne).
    pose proof (pick_In nat 0 _ d (positions_max_nonempty ds Hds)) as Hin.
    rewrite Hi in Hin. apply (positions_sound nat _ 0) in Hin. destruct Hin as [Hlt Heq].
    unfold ds in Hlt; rewrite map_length in Hlt. split; [exact Hlt|].
    split; [|intros; discriminate].
    intros _ c Hc. apply Nat.eqb_eq in Heq.
    unfold ds in Heq at 2. rewrite (nth_map_lt nat nat key cands i 0 0 Hlt) in Heq.
    rewrite <- Heq. apply list_max_ge. unfold ds. apply in_map. exact Hc.
  - injection H as Hi.
    set (ws := map (weight_of nodes w) cands) in *.
    assert (Hws : ws <> []) by (apply map_nonempty; exact Hne).
    pose proof (pick_In nat 0 _ d (positions_zmax_nonempty ws Hws)) as Hin.
    rewrite Hi in Hin. apply (positions_sound Z _ 0%Z) in Hin. destruct Hin as [Hlt Heq].
    unfold ws in Hlt; rewrite map_length in Hlt. split; [exact Hlt|].
    split; [discriminate|].
    intros w' Hw c Hc. inversion Hw; subst w'. apply Z.eqb_eq in Heq.
    unfold ws in Heq at 2. rewrite (nth_map_lt nat Z (weight_of nodes w) cands i 0 0%Z Hlt) in Heq.
    rewrite <- Heq. apply zmax_ge. unfold ws. apply in_map. exact Hc.
  - discriminate.
Qed.

(* ------------------------------------------------------------------ *)
(* 7. grow                                                             *)
(* ------------------------------------------------------------------ *)
Lemma clique_set_ext : forall adj a b,
  (forall x, In x a <-> In x b) -> clique_set adj a -> clique_set adj b.
Proof.
  intros adj a b E H u v Hu Hv Huv. apply H; [apply E; exact Hu| apply E; exact Hv| exact Huv].
Qed.

Lemma subset_spec : forall a b, subset a b = true <-> incl a b.
Proof.
  intros a b. unfold subset, incl. rewrite forallb_forall. split; intros H x Hx.
  - apply mem_spec, H, Hx.
  - apply mem_spec, H, Hx.
Qed.

Lemma c_0_ext : forall adj nodes a b,
  (forall x, In x a <-> In x b) -> c_0 adj nodes a = c_0 adj nodes b.
Proof.
  intros adj nodes a b E. unfold c_0. f_equal. apply filter_ext. intro i. f_equal.
  - f_equal. apply eq_true_iff_eq. rewrite !mem_spec. apply E.
  - apply eq_true_iff_eq. rewrite !forallb_forall. split; intros H x Hx; apply H, E, Hx.
Qed.

Lemma grow_loop_S : forall adj nodes f s clique draws,
  grow_loop adj nodes (S f) s clique draws =
  if negb (is_clique adj clique) then ErrClique
  else match c_0 adj nodes clique with
       | [] => Ok (sort_asc clique)
       | c0 => let (d, draws') := draw draws in
               match choose_index nodes s (degree adj nodes) c0 d with
               | None => ErrSelect
               | Some i => grow_loop adj nodes f s (nth i c0 0 :: clique) draws'
               end
       end.
Proof. reflexivity. Qed.

Section Grow.
Variable adj : nat -> nat -> bool.
Hypothesis adj_sym : forall u v, adj u v = adj v u.
Variable nodes : list nat.
Hypothesis nodes_nodup : NoDup nodes.

Lemma grow_loop_sound : forall fuel s cl draws r,
  NoDup cl -> incl cl nodes -> clique_set adj cl ->
  fuel + length cl > length nodes ->
  grow_loop adj nodes fuel s cl draws = Ok r ->
  clique_set adj r /\ (forall x, In x cl -> In x r) /\ (forall x, In x r -> In x nodes) /\
  NoDup r /\ c_0 adj nodes r = [].
Proof.
  induction fuel as [|f IH]; intros s cl draws r ND Hincl Hcl Hfuel H.
  - pose proof (NoDup_incl_length ND Hincl). simpl in Hfuel. lia.
  - rewrite grow_loop_S in H.
    destruct (is_clique adj cl); cbv beta iota delta [negb] in H; [|discriminate].
    destruct (c_0 adj nodes cl) as [|n0 rest] eqn:E0.
    + injection H as H; subst r. repeat split.
      * apply (clique_set_ext adj cl); [intro; symmetry; apply sort_asc_In| exact Hcl].
      * intros x Hx; apply sort_asc_In; exact Hx.
      * intros x Hx; apply Hincl, sort_asc_In; exact Hx.
      * apply sort_asc_NoDup; exact ND.
      * rewrite <- E0. apply c_0_ext. intro; apply sort_asc_In.
    + cbv beta iota zeta in H. set (c0 := n0 :: rest) in *.
      assert (Hc0 : c0 <> []) by discriminate. clearbody c0. clear n0 rest.
      destruct (draw draws) as [d draws']. cbv beta iota zeta in H.
      destruct (choose_index nodes s (degree adj nodes) c0 d) as [i|] eqn:Ec; [|discriminate].
      apply choose_index_spec in Ec; [|exact Hc0]. destruct Ec as [Hi _].
      pose proof (nth_In c0 0 Hi) as Hin.
      set (x := nth i c0 0) in *. clearbody x. rewrite <- E0 in Hin.
      apply c_0_spec in Hin. destruct Hin as [Hxn [Hxc Hxa]].
      apply IH in H.
      * destruct H as [H1 [H2 [H3 [H4 H5]]]]. repeat split; try assumption.
        intros y Hy; apply H2; right; exact Hy.
      * constructor; assumption.
      * intros y [Hy|Hy]; [subst; exact Hxn| apply Hincl; exact Hy].
      * intros u v [Hu|Hu] [Hv|Hv] Huv.
        -- subst; contradiction Huv; reflexivity.
        -- subst u. apply Hxa; exact Hv.
        -- subst v. rewrite adj_sym. apply Hxa; exact Hu.
        -- apply Hcl; assumption.
      * simpl. lia.
Qed.

Lemma grow_sound : forall s clique draws r,
  grow adj nodes s clique draws = Ok r ->
  clique_set adj r /\ (forall x, In x clique -> In x r) /\ (forall x, In x r -> In x nodes) /\
  NoDup r /\ c_0 adj nodes r = [].
Proof.
  intros s clique draws r H. unfold grow in H.
  destruct (subset clique nodes) eqn:Es; cbv beta iota delta [negb] in H; [|discriminate].
  destruct (is_clique adj (dedup clique)) eqn:Ec; cbv beta iota delta [negb] in H; [|discriminate].
  destruct (weights_ok nodes s); cbv beta iota delta [negb] in H; [|discriminate].
  apply grow_loop_sound in H.
  - destruct H as [H1 [H2 [H3 [H4 H5]]]]. repeat split; try assumption.
    intros x Hx; apply H2, (proj2 (dedup_In _ _)); exact Hx.
  - apply dedup_NoDup.
  - intros x Hx. apply (proj1 (dedup_In _ _)) in Hx. apply subset_spec in Es. apply Es; exact Hx.
  - apply (is_clique_spec adj adj_sym); [apply dedup_NoDup| exact Ec].
  - lia.
Qed.
End Grow.

(* ------------------------------------------------------------------ *)
(* 8. swap                                                             *)
(* ------------------------------------------------------------------ *)
Lemma remove_node_In : forall x c l, In x (remove_node c l) <-> In x l /\ x <> c.
Proof.
  intros x c l. unfold remove_node. rewrite filter_In, negb_true_iff, Nat.eqb_neq. tauto.
Qed.

Lemma remove_node_length : forall c l, NoDup l -> In c l ->
  S (length (remove_node c l)) = length l.
Proof.
  intros c l; induction l as [|a t IH]; intros ND Hc; [destruct Hc|].
  inversion ND as [|? ? Hnin NDt]; subst. unfold remove_node in *. simpl.
  destruct (Nat.eqb_spec a c) as [E|E]; simpl.
  - subst. f_equal. apply filter_len_eq. intros x Hx. apply negb_true_iff, Nat.eqb_neq.
    intro; subst; contradiction.
  - f_equal. apply IH; [exact NDt|]. destruct Hc as [Hc|Hc]; [contradiction| exact Hc].
Qed.

Section Swap.
Variable adj : nat -> nat -> bool.
Hypothesis adj_sym : forall u v, adj u v = adj v u.
Variable nodes : list nat.
Hypothesis nodes_nodup : NoDup nodes.

Lemma swap_sound : forall s clique draws r,
  swap adj nodes s clique draws = Ok r ->
  clique_set adj r /\ length r = length (dedup clique) /\
  (forall x, In x r -> In x nodes) /\ NoDup r.
Proof.
  intros s clique draws r H. unfold swap in H.
  destruct (subset clique nodes) eqn:Es; cbv beta iota delta [negb] in H; [|discriminate].
  destruct (is_clique adj (dedup clique)) eqn:Ec; cbv beta iota delta [negb] in H; [|discriminate].
  destruct (weights_ok nodes s); cbv beta iota zeta delta [negb] in H; [|discriminate].
  set (cl := dedup clique) in *.
  assert (NDcl : NoDup cl) by apply dedup_NoDup.
  assert (Hincl : incl cl nodes).
  { intros x Hx. apply (proj1 (dedup_In _ _)) in Hx. apply subset_spec in Es. apply Es; exact Hx. }
  assert (Hcl : clique_set adj cl)
    by (apply (is_clique_spec adj adj_sym); assumption).
  clearbody cl.
  destruct (c_1 adj nodes cl) as [|p0 rest] eqn:E1.
  - injection H as H; subst r. repeat split.
    + apply (clique_set_ext adj cl); [intro; symmetry; apply sort_asc_In| exact Hcl].
    + apply sort_asc_length.
    + intros x Hx; apply Hincl, sort_asc_In; exact Hx.
    + apply sort_asc_NoDup; exact NDcl.
  - cbv beta iota zeta in H. set (c1 := p0 :: rest) in *.
    assert (Hc1 : c1 <> []) by discriminate. clearbody c1. clear p0 rest.
    destruct (draw draws) as [d draws']. cbv beta iota zeta in H.
    destruct (choose_index nodes s (degree adj nodes) (map snd c1) d) as [i|] eqn:Ei; [|discriminate].
    apply choose_index_spec in Ei; [|apply map_nonempty; exact Hc1]. destruct Ei as [Hi _].
    rewrite map_length in Hi.
    pose proof (nth_In c1 (0, 0) Hi) as Hin.
    destruct (nth i c1 (0, 0)) as [c j]. rewrite <- E1 in Hin.
    apply c_1_sound in Hin. destruct Hin as [Hjn [Hjc [Hc [Hjadj Hjo]]]].
    cbv beta iota zeta delta [fst snd] in H.
    assert (Hr : r = sort_asc (j :: remove_node c cl)) by (injection H as H; symmetry; exact H).
    clear H; subst r.
    assert (Hset : clique_set adj (j :: remove_node c cl)).
    { intros u v [Hu|Hu] [Hv|Hv] Huv.
      - subst; contradiction Huv; reflexivity.
      - subst u. apply remove_node_In in Hv. apply Hjo; tauto.
      - subst v. apply remove_node_In in Hu. rewrite adj_sym. apply Hjo; tauto.
      - apply remove_node_In in Hu. apply remove_node_In in Hv. apply Hcl; tauto. }
    repeat split.
    + apply (clique_set_ext adj (j :: remove_node c cl)); [intro; symmetry; apply sort_asc_In| exact Hset].
    + rewrite sort_asc_length. simpl. apply remove_node_length; assumption.
    + intros x Hx. apply (proj1 (sort_asc_In _ _)) in Hx. destruct Hx as [Hx|Hx]; [subst; exact Hjn|].
      apply remove_node_In in Hx. apply Hincl; tauto.
    + apply sort_asc_NoDup. constructor.
      * intro Hx. apply remove_node_In in Hx. tauto.
      * apply NoDup_filter; exact NDcl.
Qed.
End Swap.

(* ------------------------------------------------------------------ *)
(* 9-10. shrink                                                        *)
(* ------------------------------------------------------------------ *)
Definition degs_of (adj : nat -> nat -> bool) (tbl : list nat) : list nat :=
  map (fun u => deg_in adj u tbl) tbl.
Definition dmin_of (adj : nat -> nat -> bool) (tbl : list nat) : list nat :=
  positions (Nat.eqb (nmin (degs_of adj tbl))) (degs_of adj tbl).

Lemma shrink_index_unfold : forall adj nodes fixed s tbl d,
  shrink_index adj nodes fixed s tbl d =
  match s with
  | Uniform => Some (pick 0 (dmin_of adj tbl) d)
  | Weight w =>
      let ws := map (fun n => weight_of nodes w (nth n tbl 0)) (dmin_of adj tbl) in
      let j := pick 0 (positions (Z.eqb (zmin ws)) ws) d in
      Some (if fixed then nth j (dmin_of adj tbl) 0 else j)
  | _ => None
  end.
Proof. reflexivity. Qed.

Lemma degs_of_length : forall adj tbl, length (degs_of adj tbl) = length tbl.
Proof. intros; unfold degs_of; apply map_length. Qed.

Lemma degs_of_nth : forall adj tbl k, k < length tbl ->
  nth k (degs_of adj tbl) 0 = deg_in adj (nth k tbl 0) tbl.
Proof.
  intros adj tbl k Hk. unfold degs_of.
  apply (nth_map_lt nat nat (fun u => deg_in adj u tbl) tbl k 0 0 Hk).
Qed.

Lemma dmin_sound : forall adj tbl k, In k (dmin_of adj tbl) ->
  k < length tbl /\ deg_in adj (nth k tbl 0) tbl = nmin (degs_of adj tbl).
Proof.
  intros adj tbl k H. unfold dmin_of in H. apply (positions_sound nat _ 0) in H.
  destruct H as [Hk He]. rewrite degs_of_length in Hk. split; [exact Hk|].
  apply Nat.eqb_eq in He. rewrite degs_of_nth in He by exact Hk. symmetry; exact He.
Qed.

Lemma dmin_complete : forall adj tbl k, k < length tbl ->
  deg_in adj (nth k tbl 0) tbl = nmin (degs_of adj tbl) -> In k (dmin_of adj tbl).
Proof.
  intros adj tbl k Hk He. unfold dmin_of. apply (positions_complete nat _ 0).
  - rewrite degs_of_length; exact Hk.
  - rewrite degs_of_nth by exact Hk. rewrite He. apply Nat.eqb_refl.
Qed.

Lemma dmin_nonempty : forall adj tbl, tbl <> [] -> dmin_of adj tbl <> [].
Proof.
  intros adj tbl H. unfold dmin_of. apply positions_nmin_nonempty.
  unfold degs_of. apply map_nonempty; exact H.
Qed.

Lemma dmin_length : forall adj tbl, length (dmin_of adj tbl) <= length tbl.
Proof.
  intros adj tbl. unfold dmin_of.
  pose proof (positions_length nat (Nat.eqb (nmin (degs_of adj tbl))) (degs_of adj tbl)) as H.
  rewrite degs_of_length in H. exact H.
Qed.

Lemma nmin_degs_le : forall adj tbl u, In u tbl -> nmin (degs_of adj tbl) <= deg_in adj u tbl.
Proof.
  intros adj tbl u Hu. apply nmin_le. unfold degs_of.
  apply (in_map (fun u => deg_in adj u tbl)). exact Hu.
Qed.

(* the row returned by either variant is a valid row of the table *)
Lemma shrink_index_lt : forall adj nodes fixed s tbl d i,
  tbl <> [] -> shrink_index adj nodes fixed s tbl d = Some i -> i < length tbl.
Proof.
  intros adj nodes fixed s tbl d i Hne H. rewrite shrink_index_unfold in H.
  pose proof (dmin_nonempty adj tbl Hne) as Hdm.
  destruct s as [| |w|]; try discriminate.
  - injection H as H. subst i. apply (dmin_sound adj tbl). apply pick_In; exact Hdm.
  - cbv zeta in H. injection H as H.
    set (ws := map (fun n => weight_of nodes w (nth n tbl 0)) (dmin_of adj tbl)) in *.
    assert (Hws : ws <> []) by (apply map_nonempty; exact Hdm).
    pose proof (pick_In nat 0 _ d (positions_zmin_nonempty ws Hws)) as Hj.
    set (j := pick 0 (positions (Z.eqb (zmin ws)) ws) d) in *. clearbody j.
    apply (positions_sound Z _ 0%Z) in Hj. destruct Hj as [Hj _].
    unfold ws in Hj. rewrite map_length in Hj.
    destruct fixed; subst i.
    + apply (dmin_sound adj tbl). apply nth_In; exact Hj.
    + pose proof (dmin_length adj tbl). lia.
Qed.

(* 10. the documented rule *)
Lemma shrink_rule_fixed : forall adj nodes s tbl d i,
  tbl <> [] -> shrink_index adj nodes true s tbl d = Some i ->
  i < length tbl /\
  (forall u, In u tbl -> deg_in adj (nth i tbl 0) tbl <= deg_in adj u tbl) /\
  (forall w, s = Weight w -> forall u, In u tbl ->
     deg_in adj u tbl = deg_in adj (nth i tbl 0) tbl ->
     (weight_of nodes w (nth i tbl 0%nat) <= weight_of nodes w u)%Z).
Proof.
  intros adj nodes s tbl d i Hne H. rewrite shrink_index_unfold in H.
  pose proof (dmin_nonempty adj tbl Hne) as Hdm.
  destruct s as [| |w|]; try discriminate.
  - injection H as H.
    assert (Hin : In i (dmin_of adj tbl)) by (subst i; apply pick_In; exact Hdm).
    apply dmin_sound in Hin. destruct Hin as [Hi He]. split; [exact Hi|]. split.
    + intros u Hu. rewrite He. apply nmin_degs_le; exact Hu.
    + intros; discriminate.
  - cbv zeta in H. injection H as H.
    set (f := fun n => weight_of nodes w (nth n tbl 0)) in *.
    set (ws := map f (dmin_of adj tbl)) in *.
    assert (Hws : ws <> []) by (apply map_nonempty; exact Hdm).
    pose proof (pick_In nat 0 _ d (positions_zmin_nonempty ws Hws)) as Hj.
    set (j := pick 0 (positions (Z.eqb (zmin ws)) ws) d) in *. clearbody j.
    apply (positions_sound Z _ 0%Z) in Hj. destruct Hj as [Hj Hz].
    unfold ws in Hj. rewrite map_length in Hj.
    assert (Hin : In i (dmin_of adj tbl)) by (subst i; apply nth_In; exact Hj).
    pose proof (dmin_sound adj tbl i Hin) as [Hi He]. split; [exact Hi|]. split.
    + intros u Hu. rewrite He. apply nmin_degs_le; exact Hu.
    + intros w' Hw u Hu Hdeg. injection Hw as Hw; subst w'.
      apply Z.eqb_eq in Hz. unfold ws in Hz at 2.
      rewrite (nth_map_lt nat Z f (dmin_of adj tbl) j 0 0%Z Hj) in Hz. rewrite H in Hz.
      change (f i) with (weight_of nodes w (nth i tbl 0)) in Hz. rewrite <- Hz.
      destruct (In_nth tbl u 0 Hu) as [k [Hk Hnk]].
      apply zmin_le. unfold ws. rewrite <- Hnk.
      change (weight_of nodes w (nth k tbl 0)) with (f k). apply in_map.
      apply dmin_complete; [exact Hk|]. rewrite Hnk, Hdeg. exact He.
Qed.

(* remove_nth *)
Lemma remove_nth_length : forall (A : Type) (l : list A) i, i < length l ->
  S (length (remove_nth i l)) = length l.
Proof.
  intros A l; induction l as [|a t IH]; intros i Hi; simpl in Hi; [lia|].
  destruct i as [|i]; simpl; [reflexivity|]. f_equal. apply IH. lia.
Qed.

Lemma remove_nth_In : forall (A : Type) (l : list A) i x, In x (remove_nth i l) -> In x l.
Proof.
  intros A l; induction l as [|a t IH]; intros i x H; [destruct i; exact H|].
  destruct i as [|i]; simpl in H; [right; exact H|].
  destruct H as [H|H]; [left; exact H| right; apply (IH i); exact H].
Qed.

Lemma remove_nth_NoDup : forall (A : Type) (l : list A) i, NoDup l -> NoDup (remove_nth i l).
Proof.
  intros A l; induction l as [|a t IH]; intros i ND; [destruct i; exact ND|].
  inversion ND as [|? ? Hnin NDt]; subst.
  destruct i as [|i]; simpl; [exact NDt|]. constructor; [|apply IH; exact NDt].
  intro H; apply Hnin. apply (remove_nth_In A t i); exact H.
Qed.

Lemma shrink_loop_S : forall adj nodes f fixed s tbl draws,
  shrink_loop adj nodes (S f) fixed s tbl draws =
  if is_clique adj tbl then Ok (sort_asc tbl)
  else let (d, draws') := draw draws in
       match shrink_index adj nodes fixed s tbl d with
       | None => ErrSelect
       | Some i => shrink_loop adj nodes f fixed s (remove_nth i tbl) draws'
       end.
Proof. reflexivity. Qed.

Section Shrink.
Variable adj : nat -> nat -> bool.
Hypothesis adj_sym : forall u v, adj u v = adj v u.
Variable nodes : list nat.

Lemma shrink_loop_sound : forall fuel fixed s tbl draws r,
  NoDup tbl -> fuel > length tbl ->
  shrink_loop adj nodes fuel fixed s tbl draws = Ok r ->
  clique_set adj r /\ (forall x, In x r -> In x tbl) /\ NoDup r.
Proof.
  induction fuel as [|f IH]; intros fixed s tbl draws r ND Hfuel H; [lia|].
  rewrite shrink_loop_S in H. destruct (is_clique adj tbl) eqn:Ec.
  - injection H as H; subst r. repeat split.
    + apply (clique_set_ext adj tbl); [intro; symmetry; apply sort_asc_In|].
      apply (is_clique_spec adj adj_sym); assumption.
    + intros x Hx; apply (proj1 (sort_asc_In _ _)); exact Hx.
    + apply sort_asc_NoDup; exact ND.
  - assert (Hne : tbl <> []) by (intro; subst tbl; vm_compute in Ec; discriminate).
    destruct (draw draws) as [d draws']. cbv beta iota zeta in H.
    destruct (shrink_index adj nodes fixed s tbl d) as [i|] eqn:Ei; [|discriminate].
    apply shrink_index_lt in Ei; [|exact Hne].
    pose proof (remove_nth_length nat tbl i Ei) as Hlen.
    apply IH in H.
    + destruct H as [H1 [H2 H3]]. repeat split; try assumption.
      intros x Hx. apply (remove_nth_In nat tbl i). apply H2; exact Hx.
    + apply remove_nth_NoDup; exact ND.
    + lia.
Qed.

(* 9. holds for the code as it stands (fixed = false) and for the documented rule (fixed = true) *)
Lemma shrink_sound : forall fixed s tbl draws r,
  NoDup tbl -> shrink adj nodes fixed s tbl draws = Ok r ->
  clique_set adj r /\ (forall x, In x r -> In x tbl) /\ NoDup r.
Proof.
  intros fixed s tbl draws r ND H. unfold shrink in H.
  destruct (subset tbl nodes); cbv beta iota delta [negb] in H; [|discriminate].
  destruct (weights_ok nodes s); cbv beta iota delta [negb] in H; [|discriminate].
  apply shrink_loop_sound in H; [exact H| exact ND| lia].
Qed.
End Shrink.

(* 11. the code as it stands (weight mode) can remove a node that is not of minimum degree *)
Lemma shrink_rule_refuted :
  exists adj nodes w tbl d i,
    (forall u v, adj u v = adj v u) /\ (forall u, adj u u = false) /\ NoDup tbl /\
    shrink_index adj nodes false (Weight w) tbl d = Some i /\
    exists u, In u tbl /\ deg_in adj u tbl < deg_in adj (nth i tbl 0) tbl.
Proof.
  exists (adj_of [(0, 1); (0, 2); (0, 3); (1, 2)]), [0; 1; 2; 3], [0; 0; 0; 0]%Z, [0; 1; 2; 3], 0, 0.
  split; [intros; apply adj_of_sym|].
  split; [intro u; destruct u as [|[|[|[|u]]]]; reflexivity|].
  split; [repeat constructor; simpl; intuition discriminate|].
  split; [vm_compute; reflexivity|].
  exists 3. split; [simpl; tauto|]. vm_compute. lia.
Qed.
