(* C19 — unbounded completeness of the partition generator [orbits] (Kelleher's accelerated-ascending
   algorithm as modelled in Similarity.v): every partition of n >= 1 is generated.
   Method: the passes of the outer loop are shown to compute, in order, a recursive specification [M] of the
   ascending compositions (simulation lemma [sim], with a bound 2^y on the number of passes so that the
   2^n passes allowed by [run n] suffice — this is the termination argument), and [M] is shown complete. *)
From Coq Require Import List Arith NArith Bool Lia Permutation Sorted.
From SFV Require Import C19.Similarity C19.SimilarityProofs.
Import ListNotations.

(* ---------- one pass of the outer loop, after the pop ---------- *)
Definition pass (x : nat) (st : list nat) (y : nat) : list (list nat) * list nat * nat :=
  let '(st1, y1) := loop1 y x st y in
  let '(outs, x2, y2) := loop2 (S y1) x y1 st1 in
  (outs ++ [emit st1 [x2 + y2]], st1, x2 + y2 - 1).

Lemma outer_pass x0 st0 y : outer (x0 :: st0) y = pass (S x0) st0 y.
Proof. reflexivity. Qed.

Lemma loop1_fuel x : 1 <= x -> forall f1 f2 st y, y <= f1 -> y <= f2 -> loop1 f1 x st y = loop1 f2 x st y.
Proof.
  intros Hx. induction f1 as [|f IH]; intros f2 st y H1 H2.
  - assert (y = 0) by lia. subst y. destruct f2; simpl; auto.
    destruct (x + (x + 0) <=? 0) eqn:E; auto. apply Nat.leb_le in E. lia.
  - simpl. destruct (x + (x + 0) <=? y) eqn:E.
    + apply Nat.leb_le in E. destruct f2 as [|f2]; [lia|]. simpl.
      replace (x + (x + 0) <=? y) with true by (symmetry; apply Nat.leb_le; lia).
      apply IH; lia.
    + destruct f2; simpl; auto. rewrite E. auto.
Qed.

Lemma loop1_stop x f st y : y < 2 * x -> loop1 f x st y = (st, y).
Proof.
  intros H. destruct f; simpl; auto.
  replace (x + (x + 0) <=? y) with false by (symmetry; apply Nat.leb_gt; lia). auto.
Qed.

Lemma loop1_push x st y : 1 <= x -> 2 * x <= y -> loop1 y x st y = loop1 (y - x) x (x :: st) (y - x).
Proof.
  intros Hx H. destruct y as [|f]; [lia|]. simpl loop1 at 1.
  replace (x + (x + 0) <=? S f) with true by (symmetry; apply Nat.leb_le; lia).
  apply loop1_fuel; lia.
Qed.

Lemma pass_push x st y : 1 <= x -> 2 * x <= y -> pass x st y = pass x (x :: st) (y - x).
Proof. intros Hx H. unfold pass. rewrite (loop1_push x st y Hx H). reflexivity. Qed.

(* ---------- the pairs emitted by loop2 ---------- *)
Fixpoint pairsM (fuel x y : nat) : list (list nat) :=
  match fuel with
  | 0 => []
  | S f => if x <=? y then [x; y] :: pairsM f (S x) (y - 1) else []
  end.

Lemma loop2_pairs st : forall fuel x y, 1 <= x -> exists x' y',
  loop2 fuel x y st = (map (emit st) (pairsM fuel x y), x', y') /\ x' + y' = x + y.
Proof.
  induction fuel as [|f IH]; intros x y Hx; simpl.
  - exists x, y. auto.
  - destruct (x <=? y) eqn:E.
    + apply Nat.leb_le in E. destruct (IH (S x) (y - 1)) as [x' [y' [H1 H2]]]; [lia|].
      rewrite H1. exists x', y'. split; auto. lia.
    + exists x, y. auto.
Qed.

Lemma pass_base x st y : 1 <= x -> y < 2 * x ->
  pass x st y = (map (emit st) (pairsM (S y) x y ++ [[x + y]]), st, x + y - 1).
Proof.
  intros Hx H. unfold pass. rewrite (loop1_stop x y st y H).
  destruct (loop2_pairs st (S y) x y Hx) as [x' [y' [H1 H2]]]. rewrite H1.
  rewrite map_app. simpl map at 2. rewrite H2. reflexivity.
Qed.

(* ---------- iteration of passes ---------- *)
Fixpoint iter (k : nat) (st : list nat) (y : nat) : list (list nat) * list nat * nat :=
  match k with
  | 0 => ([], st, y)
  | S k' =>
      match st with
      | [] => ([], st, y)
      | _ => let '(o, st1, y1) := outer st y in
             let '(o2, st2, y2) := iter k' st1 y1 in (o ++ o2, st2, y2)
      end
  end.

Lemma iter_nil k y : iter k [] y = ([], [], y).
Proof. destruct k; reflexivity. Qed.

Lemma iter_add a : forall b st y,
  iter (a + b) st y =
  let '(o1, s1, y1) := iter a st y in let '(o2, s2, y2) := iter b s1 y1 in (o1 ++ o2, s2, y2).
Proof.
  induction a as [|a IH]; intros b st y.
  - simpl. destruct (iter b st y) as [[o2 s2] y2]. reflexivity.
  - destruct st as [|h t].
    + change (S a + b) with (S (a + b)). rewrite !iter_nil. simpl. rewrite ?iter_nil. reflexivity.
    + change (S a + b) with (S (a + b)).
      change (iter (S (a + b)) (h :: t) y) with
        (let '(o, st1, y1) := outer (h :: t) y in
         let '(o2, st2, y2) := iter (a + b) st1 y1 in (o ++ o2, st2, y2)).
      change (iter (S a) (h :: t) y) with
        (let '(o, st1, y1) := outer (h :: t) y in
         let '(o2, st2, y2) := iter a st1 y1 in (o ++ o2, st2, y2)).
      destruct (outer (h :: t) y) as [[o st1] y1]. rewrite IH.
      destruct (iter a st1 y1) as [[o1 s1] yy1]. destruct (iter b s1 yy1) as [[o2 s2] y2].
      rewrite app_assoc. reflexivity.
Qed.

Lemma run_iter d : forall st y, run d st y = iter (2 ^ d) st y.
Proof.
  induction d as [|d IH]; intros st y.
  - simpl. destruct st as [|h t]; auto.
    destruct (outer (h :: t) y) as [[o st1] y1]. rewrite app_nil_r. reflexivity.
  - change (2 ^ S d) with (2 * 2 ^ d). replace (2 * 2 ^ d) with (2 ^ d + 2 ^ d) by lia.
    rewrite iter_add. simpl run. rewrite IH.
    destruct (iter (2 ^ d) st y) as [[o1 st1] y1].
    destruct st1 as [|h t].
    + rewrite iter_nil. rewrite app_nil_r. reflexivity.
    + rewrite IH. reflexivity.
Qed.

Lemma iter_one h t y : iter 1 (h :: t) y = outer (h :: t) y.
Proof.
  change (iter 1 (h :: t) y) with
    (let '(o, st1, y1) := outer (h :: t) y in let '(o2, st2, y2) := iter 0 st1 y1 in (o ++ o2, st2, y2)).
  destruct (outer (h :: t) y) as [[o st1] y1]. simpl. rewrite app_nil_r. reflexivity.
Qed.

Lemma iter_first k s y s' y' : s <> [] -> s' <> [] -> outer s y = outer s' y' ->
  iter (S k) s y = iter (S k) s' y'.
Proof.
  intros H1 H2 E. destruct s as [|h t]; [congruence|]. destruct s' as [|h' t']; [congruence|].
  change (iter (S k) (h :: t) y) with
    (let '(o, st1, y1) := outer (h :: t) y in let '(o2, st2, y2) := iter k st1 y1 in (o ++ o2, st2, y2)).
  change (iter (S k) (h' :: t') y') with
    (let '(o, st1, y1) := outer (h' :: t') y' in let '(o2, st2, y2) := iter k st1 y1 in (o ++ o2, st2, y2)).
  rewrite E. reflexivity.
Qed.

(* ---------- the recursive specification ---------- *)
(* ascending compositions of x + y whose parts are >= x, in generation order *)
Fixpoint M (fuel x y : nat) : list (list nat) :=
  match fuel with
  | 0 => pairsM (S y) x y ++ [[x + y]]
  | S f =>
      if 2 * x <=? y then map (cons x) (M f x (y - x)) ++ M f (S x) (y - 1)
      else pairsM (S y) x y ++ [[x + y]]
  end.

Lemma emit_cons x st c : emit (x :: st) c = emit st (x :: c).
Proof. unfold emit. simpl rev. rewrite <- app_assoc. reflexivity. Qed.

Lemma pow2_pos y : 1 <= 2 ^ y.
Proof. pose proof (Nat.pow_nonzero 2 y). lia. Qed.

(* the simulation: k passes from (x0 :: st, y) output M and come back to the stack st *)
Lemma sim fuel : forall x0 st y, y <= fuel ->
  exists k, 1 <= k /\ k <= 2 ^ y /\
    iter k (x0 :: st) y = (map (emit st) (M fuel (S x0) y), st, S x0 + y - 1).
Proof.
  induction fuel as [|f IH]; intros x0 st y Hy.
  - assert (y = 0) by lia. subst y. exists 1. split; [lia|]. split; [simpl; lia|].
    rewrite iter_one, outer_pass, pass_base by lia. reflexivity.
  - change (M (S f) (S x0) y) with
      (if 2 * S x0 <=? y then map (cons (S x0)) (M f (S x0) (y - S x0)) ++ M f (S (S x0)) (y - 1)
       else pairsM (S y) (S x0) y ++ [[S x0 + y]]).
    destruct (2 * S x0 <=? y) eqn:E.
    + apply Nat.leb_le in E. set (x := S x0) in *.
      destruct (IH x0 (x :: st) (y - x)) as [k1 [K1a [K1b I1]]]; [lia|].
      destruct (IH x st (y - 1)) as [k2 [K2a [K2b I2]]]; [lia|].
      exists (k1 + k2). split; [lia|]. split.
      * assert (2 ^ (y - x) <= 2 ^ (y - 1)) by (apply Nat.pow_le_mono_r; lia).
        assert (E2 : 2 ^ y = 2 * 2 ^ (y - 1)) by (rewrite <- Nat.pow_succ_r'; f_equal; lia). lia.
      * rewrite iter_add.
        destruct k1 as [|k1]; [lia|].
        rewrite (iter_first k1 (x0 :: st) y (x0 :: x :: st) (y - x)); try discriminate.
        2:{ rewrite !outer_pass. fold x. apply pass_push; lia. }
        rewrite I1. fold x. replace (x + (y - x) - 1) with (y - 1) by lia.
        rewrite I2. rewrite map_app, map_map.
        f_equal; [f_equal|lia].
        f_equal. apply map_ext. intros c. apply emit_cons.
    + apply Nat.leb_gt in E. exists 1. split; [lia|]. split; [apply pow2_pos|].
      rewrite iter_one, outer_pass, pass_base by lia. reflexivity.
Qed.

(* ---------- completeness of the specification ---------- *)
Fixpoint asc_from (lo : nat) (c : list nat) : Prop :=
  match c with [] => True | a :: t => lo <= a /\ asc_from a t end.

Lemma pairs_in : forall fuel x y a b, x <= a -> a <= b -> a + b = x + y -> a - x < fuel ->
  In [a; b] (pairsM fuel x y).
Proof.
  induction fuel as [|f IH]; intros x y a b H1 H2 H3 H4; [lia|].
  simpl. replace (x <=? y) with true by (symmetry; apply Nat.leb_le; lia).
  destruct (Nat.eq_dec a x) as [->|Hne].
  - left. f_equal. f_equal. lia.
  - right. apply IH; lia.
Qed.

Lemma M_complete : forall fuel x y c, 1 <= x -> y <= fuel -> c <> [] -> asc_from x c ->
  list_sum c = x + y -> In c (M fuel x y).
Proof.
  induction fuel as [|f IH]; intros x y c Hx Hy Hc Ha Hs.
  - assert (y = 0) by lia. subst y. simpl M.
    destruct c as [|a t]; [congruence|]. destruct Ha as [A1 A2].
    destruct t as [|b t'].
    + simpl in Hs. apply in_or_app. right. left. f_equal. lia.
    + destruct A2 as [A2 A3]. simpl in Hs. lia.
  - change (M (S f) x y) with
      (if 2 * x <=? y then map (cons x) (M f x (y - x)) ++ M f (S x) (y - 1)
       else pairsM (S y) x y ++ [[x + y]]).
    destruct c as [|a t]; [congruence|]. destruct Ha as [A1 A2].
    destruct (2 * x <=? y) eqn:E.
    + apply Nat.leb_le in E. apply in_or_app.
      destruct t as [|b t'].
      * right. simpl in Hs.
        apply IH; [lia|lia|discriminate|simpl; split; [lia|auto]|simpl; lia].
      * destruct (Nat.eq_dec a x) as [->|Hne].
        -- left. apply in_map. simpl in Hs.
           apply IH; [lia|lia|discriminate|exact A2|simpl; simpl in Hs; lia].
        -- right. simpl in Hs.
           apply IH; [lia|lia|discriminate|simpl; split; [lia|exact A2]|simpl; simpl in Hs; lia].
    + apply Nat.leb_gt in E. apply in_or_app.
      destruct t as [|b t'].
      * right. left. simpl in Hs. f_equal. lia.
      * left. destruct A2 as [A2 A3]. destruct t' as [|b' t''].
        -- simpl in Hs. apply pairs_in; lia.
        -- destruct A3 as [A3 _]. simpl in Hs. lia.
Qed.

Lemma asc_from_app_last : forall c lo a, asc_from lo c -> Forall (fun v => v <= a) c -> lo <= a ->
  asc_from lo (c ++ [a]).
Proof.
  induction c as [|h t IH]; intros lo a H F L; simpl.
  - auto.
  - destruct H as [H1 H2]. inversion F; subst. split; auto.
Qed.

Lemma desc_rev_asc l : desc l -> Forall (fun v => 1 <= v) l -> asc_from 1 (rev l).
Proof.
  unfold desc. induction 1 as [|a t Hs IH Ha]; intros P; simpl; auto.
  inversion P; subst. apply asc_from_app_last; auto. apply Forall_rev. auto.
Qed.

(* ---------- the theorem ---------- *)
Theorem orbits_complete : forall n l, 1 <= n -> is_partition n l -> In l (orbits n).
Proof.
  intros n l Hn [D [P HS]]. destruct n as [|m]; [lia|].
  unfold orbits. rewrite run_iter.
  destruct (sim m 0 [] (S m - 1)) as [k [K1 [K2 I]]]; [lia|].
  assert (K3 : k <= 2 ^ S m).
  { assert (2 ^ (S m - 1) <= 2 ^ S m) by (apply Nat.pow_le_mono_r; lia). lia. }
  replace (2 ^ S m) with (k + (2 ^ S m - k)) by lia.
  rewrite iter_add, I. rewrite iter_nil. simpl fst. rewrite app_nil_r.
  assert (Hl : l = emit [] (rev l)).
  { unfold emit. simpl. apply desc_perm_eq; auto using sort_desc_sorted.
    rewrite sort_desc_perm. apply Permutation_rev. }
  rewrite Hl. apply in_map. apply M_complete; try lia.
  - destruct l; [simpl in HS; lia|]. simpl. intros E. apply app_eq_nil in E. destruct E; discriminate.
  - apply desc_rev_asc; auto.
  - rewrite (list_sum_perm (rev l) l); [lia|]. symmetry. apply Permutation_rev.
Qed.

(* the generator runs to completion within the 2^n passes allowed by the model *)
Theorem orbits_finished_all : forall n, orbits_finished n = true.
Proof.
  intros [|m]; [reflexivity|]. unfold orbits_finished. rewrite run_iter.
  destruct (sim m 0 [] (S m - 1)) as [k [K1 [K2 I]]]; [lia|].
  assert (K3 : k <= 2 ^ S m).
  { assert (2 ^ (S m - 1) <= 2 ^ S m) by (apply Nat.pow_le_mono_r; lia). lia. }
  replace (2 ^ S m) with (k + (2 ^ S m - k)) by lia.
  rewrite iter_add, I. rewrite iter_nil. reflexivity.
Qed.

(* ---------- no partition is generated twice ---------- *)
Lemma nodup_app {A} (a b : list A) : NoDup a -> NoDup b -> (forall z, In z a -> ~ In z b) -> NoDup (a ++ b).
Proof.
  induction a as [|h t IH]; intros Ha Hb Hd; simpl; auto.
  inversion Ha; subst. constructor.
  - intros Hin. apply in_app_or in Hin. destruct Hin as [Hin|Hin]; [auto|]. apply (Hd h); simpl; auto.
  - apply IH; auto. intros z Hz. apply Hd. simpl; auto.
Qed.

Lemma nodup_map_inj {A B} (f : A -> B) (l : list A) :
  NoDup l -> (forall a b, In a l -> In b l -> f a = f b -> a = b) -> NoDup (map f l).
Proof.
  induction 1 as [|h t Hh Ht IH]; intros Hinj; simpl; constructor.
  - intros Hin. apply in_map_iff in Hin. destruct Hin as [z [Hz Hin]].
    assert (z = h) by (apply Hinj; simpl; auto). subst. auto.
  - apply IH. intros a b Ha Hb. apply Hinj; simpl; auto.
Qed.

Lemma pairs_shape : forall fuel x y c, In c (pairsM fuel x y) -> exists a b, c = [a; b] /\ x <= a /\ a <= b.
Proof.
  induction fuel as [|f IH]; intros x y c H; simpl in H; [destruct H|].
  destruct (x <=? y) eqn:E; [|destruct H]. apply Nat.leb_le in E.
  destruct H as [<-|H].
  - exists x, y. auto.
  - destruct (IH _ _ _ H) as [a [b [E1 [E2 E3]]]]. exists a, b. repeat split; auto. lia.
Qed.

Lemma pairs_nodup : forall fuel x y, NoDup (pairsM fuel x y).
Proof.
  induction fuel as [|f IH]; intros x y; simpl; [constructor|].
  destruct (x <=? y); [|constructor]. constructor; auto.
  intros H. destruct (pairs_shape _ _ _ _ H) as [a [b [E1 [E2 _]]]]. injection E1 as -> _. lia.
Qed.

(* every element of M is a non-empty ascending list with first part >= x *)
Lemma M_head : forall fuel x y c, In c (M fuel x y) -> exists a t, c = a :: t /\ x <= a /\ asc_from a t.
Proof.
  assert (Base : forall x y c, In c (pairsM (S y) x y ++ [[x + y]]) -> exists a t, c = a :: t /\ x <= a /\ asc_from a t).
  { intros x y c H. apply in_app_or in H. destruct H as [H|[<-|[]]].
    - destruct (pairs_shape _ _ _ _ H) as [a [b [-> [E2 E3]]]]. exists a, [b]. simpl. auto.
    - exists (x + y), []. simpl. split; auto. split; [lia|auto]. }
  induction fuel as [|f IH]; intros x y c H; [apply (Base x y); exact H|].
  change (M (S f) x y) with
    (if 2 * x <=? y then map (cons x) (M f x (y - x)) ++ M f (S x) (y - 1)
     else pairsM (S y) x y ++ [[x + y]]) in H.
  destruct (2 * x <=? y); [|apply (Base x y); exact H].
  apply in_app_or in H. destruct H as [H|H].
  - apply in_map_iff in H. destruct H as [c' [<- Hc']]. destruct (IH _ _ _ Hc') as [a [t [-> [E1 E2]]]].
    exists x, (a :: t). simpl. auto.
  - destruct (IH _ _ _ H) as [a [t [-> [E1 E2]]]]. exists a, t. split; auto. split; [lia|auto].
Qed.

Lemma M_nodup : forall fuel x y, NoDup (M fuel x y).
Proof.
  assert (Base : forall x y, NoDup (pairsM (S y) x y ++ [[x + y]])).
  { intros x y. apply nodup_app; [apply pairs_nodup|repeat constructor; simpl; tauto|].
    intros z Hz [<-|[]]. destruct (pairs_shape _ _ _ _ Hz) as [a [b [E _]]]. discriminate. }
  induction fuel as [|f IH]; intros x y; [apply Base|].
  change (M (S f) x y) with
    (if 2 * x <=? y then map (cons x) (M f x (y - x)) ++ M f (S x) (y - 1)
     else pairsM (S y) x y ++ [[x + y]]).
  destruct (2 * x <=? y); [|apply Base].
  apply nodup_app; auto.
  - apply nodup_map_inj; auto. intros a b _ _ E. injection E; auto.
  - intros z Hz Hz'. apply in_map_iff in Hz. destruct Hz as [c' [<- _]].
    destruct (M_head _ _ _ _ Hz') as [a [t [E [E1 _]]]]. injection E as -> _. lia.
Qed.

Lemma asc_from_all : forall t a, asc_from a t -> Forall (fun v => a <= v) t.
Proof.
  induction t as [|b t IH]; intros a H; constructor.
  - destruct H; auto.
  - destruct H as [H1 H2]. eapply Forall_impl; [|apply (IH _ H2)]. simpl; intros; lia.
Qed.

Lemma desc_app_last l a : desc l -> Forall (fun v => a <= v) l -> desc (l ++ [a]).
Proof.
  unfold desc. induction 1 as [|h t Hs IH Hh]; intros F; simpl.
  - repeat constructor.
  - inversion F; subst. constructor; auto. apply Forall_app. split; auto.
Qed.

Lemma asc_rev_desc : forall c lo, asc_from lo c -> desc (rev c).
Proof.
  induction c as [|a t IH]; intros lo H; simpl; [constructor|].
  destruct H as [_ H]. apply desc_app_last; [eapply IH; eauto|]. apply Forall_rev, asc_from_all; auto.
Qed.

Lemma emit_nil_asc c lo : asc_from lo c -> emit [] c = rev c.
Proof.
  intros H. unfold emit. simpl. apply desc_perm_eq; [apply sort_desc_sorted|eapply asc_rev_desc; eauto|].
  rewrite sort_desc_perm. apply Permutation_rev.
Qed.

Lemma orbits_is_M m : orbits (S m) = map (emit []) (M m 1 (S m - 1)).
Proof.
  unfold orbits. rewrite run_iter.
  destruct (sim m 0 [] (S m - 1)) as [k [K1 [K2 I]]]; [lia|].
  assert (K3 : k <= 2 ^ S m).
  { assert (2 ^ (S m - 1) <= 2 ^ S m) by (apply Nat.pow_le_mono_r; lia). lia. }
  replace (2 ^ S m) with (k + (2 ^ S m - k)) by lia.
  rewrite iter_add, I. rewrite iter_nil. simpl fst. apply app_nil_r.
Qed.

Theorem orbits_nodup : forall n, 1 <= n -> NoDup (orbits n).
Proof.
  intros [|m] Hn; [lia|]. rewrite orbits_is_M. apply nodup_map_inj; [apply M_nodup|].
  intros a b Ha Hb E.
  destruct (M_head _ _ _ _ Ha) as [a0 [ta [-> [A1 A2]]]].
  destruct (M_head _ _ _ _ Hb) as [b0 [tb [-> [B1 B2]]]].
  rewrite (emit_nil_asc (a0 :: ta) 1), (emit_nil_asc (b0 :: tb) 1) in E by (simpl; auto).
  rewrite <- (rev_involutive (a0 :: ta)), <- (rev_involutive (b0 :: tb)). f_equal. exact E.
Qed.
