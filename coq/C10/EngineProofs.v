(* C10 — lemmas about the measured store and the engine's segment hand-over (coq/C10/Engine.v). *)
From Coq Require Import List Arith Bool Lia.
Import ListNotations.
From SFV Require Import C10.Model C10.Proofs C10.Engine.

Set Implicit Arguments.

Section EngineProofs.
Variable K : Type.
Variables (kadd kmul kdiv : K -> K -> K) (kneg : K -> K) (kone : K).
Variable fn1 : nat -> K -> K.
Variable fn2 : nat -> K -> K -> K.
Notation ev := (@ev K kadd kmul kdiv kneg kone fn1 fn2).
Notation run_seg := (@run_seg K kadd kmul kdiv kneg kone fn1 fn2).
Notation run_segs := (@run_segs K kadd kmul kdiv kneg kone fn1 fn2).
Notation step := (@step K kadd kmul kdiv kneg kone fn1 fn2).

Lemma store_meas_last : forall ks vs (s : store K) k,
  store_meas s ks vs k = last_in ks vs k (s k).
Proof.
  induction ks as [|j ks IH]; intros vs s k; simpl; [reflexivity|].
  destruct vs as [|v vs]; [reflexivity|]. rewrite IH. unfold upd. reflexivity.
Qed.

(* the store after any history holds, for every mode, its most recent outcome *)
Lemma latest_store : forall free h (s : store K) k,
  fst (run_seg free s h) k = latest h k (s k).
Proof.
  intros free. induction h as [|x h IH]; intros s k; simpl; [reflexivity|].
  destruct x; simpl;
    match goal with |- context [run_seg free ?s' h] =>
      specialize (IH s' k); destruct (run_seg free s' h) as [s2 o2] end; simpl in *; rewrite IH.
  - now rewrite store_meas_last.
  - reflexivity.
  - reflexivity.
  - reflexivity.
Qed.

Lemma ev_store_ext : forall free (s s' : store K) (e : expr K),
  (forall k, s k = s' k) -> ev (mkEnv free s) e = ev (mkEnv free s') e.
Proof. intros. apply ev_frame; simpl; auto. Qed.

Lemma run_seg_app : forall free h1 h2 (s : store K),
  run_seg free s (h1 ++ h2) =
  let (s1, o1) := run_seg free s h1 in let (s2, o2) := run_seg free s1 h2 in (s2, o1 ++ o2).
Proof.
  intros free. induction h1 as [|x h1 IH]; intros h2 s; simpl.
  - destruct (run_seg free s h2); reflexivity.
  - destruct (step free s x) as [s1 o1]. rewrite IH.
    destruct (run_seg free s1 h1) as [s2 o2]. destruct (run_seg free s2 h2) as [s3 o3].
    now rewrite app_assoc.
Qed.

(* what a use evaluates to: the expression under the most recent outcomes of the history so far *)
Lemma use_sees_latest : forall free h1 e h2 (s : store K),
  snd (run_seg free s (h1 ++ EUse e :: h2)) =
  snd (run_seg free s h1) ++ ev (mkEnv free (fun k => latest h1 k (s k))) e
    :: snd (run_seg free (fst (run_seg free s h1)) h2).
Proof.
  intros. rewrite run_seg_app. pose proof (latest_store free h1 s) as HL.
  destruct (run_seg free s h1) as [s1 o1]. simpl in *.
  destruct (run_seg free s1 h2) as [s2 o2]. simpl. f_equal. f_equal.
  apply ev_store_ext. exact HL.
Qed.

(* a measured parameter cannot be used before the measurement *)
Lemma use_before_measure : forall free h1 e h2 (s : store K) k,
  In k (deps e) -> latest h1 k (s k) = None ->
  nth_error (snd (run_seg free s (h1 ++ EUse e :: h2))) (length (snd (run_seg free s h1))) = Some ParamErr.
Proof.
  intros. rewrite use_sees_latest. rewrite nth_error_app2 by lia. rewrite Nat.sub_diag. simpl.
  f_equal. apply ev_parerr_iff. exists (AMeas k). split; [now apply deps_exact|]. simpl. now rewrite H0.
Qed.

(* ---------------------------------------------------------------------------------------- *)
(* the engine's hand-over: running segment after segment is running the concatenation *)

Notation run_segs_old := (@run_segs_old K kadd kmul kdiv kneg kone fn1 fn2).

Lemma store_meas_ext : forall ks vs (s s' : store K),
  (forall k, s k = s' k) -> forall k, store_meas s ks vs k = store_meas s' ks vs k.
Proof. intros. rewrite !store_meas_last. now rewrite H. Qed.

Lemma run_seg_ext : forall free h (s s' : store K),
  (forall k, s k = s' k) ->
  snd (run_seg free s h) = snd (run_seg free s' h) /\
  (forall k, fst (run_seg free s h) k = fst (run_seg free s' h) k).
Proof.
  intros free. induction h as [|x h IH]; intros s s' E; simpl; [auto|].
  destruct x; simpl.
  - specialize (IH (store_meas s ks vs) (store_meas s' ks vs) (store_meas_ext ks vs s s' E)).
    destruct (run_seg free (store_meas s ks vs) h), (run_seg free (store_meas s' ks vs) h). exact IH.
  - specialize (IH s s' E). destruct (run_seg free s h), (run_seg free s' h). exact IH.
  - specialize (IH s s' E). destruct (run_seg free s h), (run_seg free s' h). simpl in *.
    destruct IH as [IH1 IH2]. split; [|exact IH2]. rewrite IH1. f_equal. now apply ev_store_ext.
  - specialize (IH (@empty K) (@empty K) (fun _ => eq_refl)).
    destruct (run_seg free (@empty K) h). exact IH.
Qed.

Lemma mv_meas_lookup : forall ks vs (mv : mvals K) k,
  mv_lookup (mv_meas mv ks vs) k = last_in ks vs k (mv_lookup mv k).
Proof.
  induction ks as [|j ks IH]; intros vs mv k; simpl; [reflexivity|].
  destruct vs as [|v vs]; [reflexivity|]. rewrite IH. simpl. reflexivity.
Qed.

(* invariant: the engine's table of latest values agrees with the RegRefs of the running program *)
Lemma mv_after_store : forall free h (s : store K) (mv : mvals K),
  (forall k, mv_lookup mv k = s k) ->
  forall k, mv_lookup (mv_after mv h) k = fst (run_seg free s h) k.
Proof.
  intros free. induction h as [|x h IH]; intros s mv E k; simpl; [apply E|].
  destruct x; simpl.
  - specialize (IH (store_meas s ks vs) (mv_meas mv ks vs)).
    destruct (run_seg free (store_meas s ks vs) h) eqn:R. simpl. rewrite IH; [reflexivity|].
    intros j. rewrite mv_meas_lookup, store_meas_last. now rewrite E.
  - specialize (IH s mv E k). destruct (run_seg free s h). exact IH.
  - specialize (IH s mv E k). destruct (run_seg free s h). exact IH.
  - specialize (IH (@empty K) [] (fun _ => eq_refl) k). destruct (run_seg free (@empty K) h). exact IH.
Qed.

Lemma handover_is_store : forall (lazy : bool) (s1 : store K) (mv : mvals K),
  (forall k, mv_lookup mv k = s1 k) ->
  forall k, handover (if lazy then s1 else @empty K) mv k = s1 k.
Proof.
  intros lazy s1 mv E k. unfold handover. rewrite E. destruct (s1 k) eqn:Es; [reflexivity|].
  destruct lazy; [exact Es | reflexivity].
Qed.

Lemma segs_general : forall lazy free segs (s s' : store K) (mv : mvals K),
  (forall k, s k = s' k) -> (forall k, mv_lookup mv k = s k) ->
  snd (run_segs lazy free s mv segs) = snd (run_seg free s' (concat segs)) /\
  (forall k, fst (run_segs lazy free s mv segs) k = fst (run_seg free s' (concat segs)) k).
Proof.
  intros lazy free. induction segs as [|h rest IH]; intros s s' mv E Emv; [simpl; auto|].
  simpl concat. rewrite run_seg_app. simpl run_segs.
  pose proof (run_seg_ext free h s s' E) as [Ho Hs].
  pose proof (mv_after_store free h s mv Emv) as Hmv.
  destruct (run_seg free s h) as [s1 o1]. destruct (run_seg free s' h) as [s1' o1']. simpl in *. subst o1'.
  destruct rest as [|h' rest'].
  - simpl. split; [now rewrite app_nil_r | exact Hs].
  - specialize (IH (handover (if lazy then s1 else @empty K) (mv_after mv h)) s1' (mv_after mv h)).
    destruct IH as [IH1 IH2].
    + intros k. rewrite handover_is_store by exact Hmv. apply Hs.
    + intros k. rewrite handover_is_store by exact Hmv. apply Hmv.
    + destruct (run_segs lazy free (handover (if lazy then s1 else @empty K) (mv_after mv h)) (mv_after mv h) (h' :: rest')) as [s2 o2].
      destruct (run_seg free s1' (concat (h' :: rest'))) as [s2' o2']. simpl in *. subst o2'. split; [reflexivity | exact IH2].
Qed.

Lemma segs_concat : forall lazy free segs,
  snd (run_segs lazy free (@empty K) [] segs) = snd (run_seg free (@empty K) (concat segs)) /\
  (forall k, fst (run_segs lazy free (@empty K) [] segs) k = fst (run_seg free (@empty K) (concat segs)) k).
Proof. intros. apply segs_general; reflexivity. Qed.

(* the hand-over as it was before the fix lost a value measured on a mode other than 0 ... *)
Lemma segs_old_loses : forall free (x : K),
  run_segs_old free (@empty K) [[EMeas [1] [[x]]]; [EUse (Meas 1)]] = (upd (@empty K) 0 [x], [ParamErr])
  /\ snd (run_seg free (@empty K) (concat [[EMeas [1] [[x]]]; [EUse (Meas 1)]])) = [Ok (S x)].
Proof. intros. split; reflexivity. Qed.

(* ... and handed mode 0 the outcome of another mode instead of raising *)
Lemma segs_old_wrong_mode : forall free (x : K),
  snd (run_segs_old free (@empty K) [[EMeas [1] [[x]]]; [EUse (Meas 0)]]) = [Ok (S x)]
  /\ snd (run_seg free (@empty K) (concat [[EMeas [1] [[x]]]; [EUse (Meas 0)]])) = [ParamErr].
Proof. intros. split; reflexivity. Qed.

(* bind_params: succeeds iff every name is a parameter of the program; on success a bound name
   evaluates to the last value given for it, everything else is untouched *)
Lemma bind_ok_iff : forall b (fs : fstore K),
  snd (bind_params fs b) = true <-> Forall (fun nv => fs (fst nv) <> None) b.
Proof.
  induction b as [|[n v] b IH]; intros fs; simpl.
  - split; auto.
  - destruct (fs n) eqn:E.
    + rewrite IH. split; intro H.
      * constructor; [simpl; congruence|]. eapply Forall_impl; [|exact H].
        intros [m w]; simpl. unfold set_val. destruct (Nat.eqb m n) eqn:Em; [|auto].
        apply Nat.eqb_eq in Em. subst. rewrite E. congruence.
      * inversion H; subst. eapply Forall_impl; [|exact H3].
        intros [m w]; simpl. unfold set_val. destruct (Nat.eqb m n) eqn:Em; [|auto].
        rewrite E. congruence.
    + simpl. split; [discriminate|]. intro H. inversion H; subst. simpl in H2. congruence.
Qed.

Lemma bind_other : forall b (fs : fstore K) m,
  ~ In m (map fst b) -> fst (bind_params fs b) m = fs m.
Proof.
  induction b as [|[n v] b IH]; intros fs m Hm; simpl; [reflexivity|].
  destruct (fs n) eqn:E; [|reflexivity]. rewrite IH.
  - unfold set_val. destruct (Nat.eqb m n) eqn:Em; [|reflexivity]. apply Nat.eqb_eq in Em. subst.
    exfalso. apply Hm. simpl. auto.
  - intro Hin. apply Hm. simpl. auto.
Qed.

Lemma bind_value : forall b (fs : fstore K) n v,
  NoDup (map fst b) -> In (n, v) b -> snd (bind_params fs b) = true ->
  free_env (fst (bind_params fs b)) n = Some v.
Proof.
  induction b as [|[m w] b IH]; intros fs n v Hnd Hin Hok; simpl in *; [contradiction|].
  inversion Hnd; subst. destruct (fs m) eqn:E; [|discriminate].
  destruct Hin as [Heq|Hin].
  - inversion Heq; subst. unfold free_env. rewrite bind_other by assumption.
    unfold set_val. rewrite Nat.eqb_refl, E. reflexivity.
  - apply IH; assumption.
Qed.

End EngineProofs.
