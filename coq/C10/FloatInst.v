(* C10 — execution instance of the model at binary64 (PrimFloat), used only by the correspondence
   check (no theorem depends on this file).  Elementary functions are a finite table of values computed
   by numpy at exactly the arguments the model reaches; a missing entry yields the sentinel `miss`. *)
From Coq Require Import List Arith Bool PrimFloat.
Import ListNotations.
From SFV Require Import C10.Model.

Definition miss : float := 0x1p+1000%float.

Fixpoint lookup {A} (l : list (nat * A)) (n : nat) : option A :=
  match l with
  | [] => None
  | (k, v) :: r => if Nat.eqb k n then Some v else lookup r n
  end.

Definition feq (x y : float) : bool := PrimFloat.eqb x y.

Fixpoint tbl1 (t : list (nat * float * float)) (f : nat) (x : float) : float :=
  match t with
  | [] => miss
  | (g, a, v) :: r => if Nat.eqb g f && feq a x then v else tbl1 r f x
  end.

Fixpoint tbl2 (t : list (nat * float * float * float)) (f : nat) (x y : float) : float :=
  match t with
  | [] => miss
  | (g, a, b, v) :: r => if Nat.eqb g f && feq a x && feq b y then v else tbl2 r f x y
  end.

Definition fev (t1 : list (nat * float * float)) (t2 : list (nat * float * float * float))
  (fp : list (nat * fpar float)) (st : list (nat * list float)) (e : expr float) : res float :=
  ev PrimFloat.add PrimFloat.mul PrimFloat.div PrimFloat.opp 1%float (tbl1 t1) (tbl2 t2)
     (mkEnv (fun n => match lookup fp n with Some p => free_value p | None => None end) (lookup st)) e.

Definition fsubst (fp : list (nat * fpar float)) (st : list (nat * list float)) (e : expr float) : expr float :=
  subst (fun n => match lookup fp n with Some p => free_value p | None => None end) (lookup st) e.

(* expression-level and value-level readings of the decomposition table *)
Definition cval (c : nat) : float :=
  match c with
  | 0 => 0%float
  | 1 => 0x1p+1%float                 (* sqrt(2*hbar) with hbar = 2 *)
  | 2 => 0x1.921fb54442d18p+0%float   (* pi/2 *)
  | 3 => 0x1.921fb54442d18p-1%float   (* pi/4 *)
  | 4 => 2%float
  | 5 => 1%float
  | 6 => 0.5%float
  | 7 => (-0x1.921fb54442d18p+0)%float
  | _ => (-1)%float
  end.

Definition decomp_expr (g : gate (expr float)) : option (list (gate (expr float))) :=
  decomp_gate (@Add float) (@Mul float) (@Div float) (@Neg float) (@Pow float) (@Fn1 float) (@Fn2 float)
              (fun c => Const (S (cval c))) g.

Definition decomp_val (t1 : list (nat * float * float)) (t2 : list (nat * float * float * float))
  (g : gate float) : option (list (gate float)) :=
  decomp_gate PrimFloat.add PrimFloat.mul PrimFloat.div PrimFloat.opp
              (kpow PrimFloat.mul 1%float) (tbl1 t1) (tbl2 t2) cval g.

(* engine histories at floats (arithmetic-only expressions: no function table needed) *)
From SFV Require Import C10.Engine.
Definition frun (mode : nat) (fp : list (nat * fpar float)) (segs : list (list (event float))) : list (res float) :=
  let free := fun n => match lookup fp n with Some p => free_value p | None => None end in
  match mode with
  | 0 => snd (run_segs PrimFloat.add PrimFloat.mul PrimFloat.div PrimFloat.opp 1%float (tbl1 []) (tbl2 []) false free (@empty float) [] segs)
  | 1 => snd (run_segs PrimFloat.add PrimFloat.mul PrimFloat.div PrimFloat.opp 1%float (tbl1 []) (tbl2 []) true free (@empty float) [] segs)
  | 2 => snd (run_seg PrimFloat.add PrimFloat.mul PrimFloat.div PrimFloat.opp 1%float (tbl1 []) (tbl2 []) free (@empty float) (concat segs))
  | _ => snd (run_segs_old PrimFloat.add PrimFloat.mul PrimFloat.div PrimFloat.opp 1%float (tbl1 []) (tbl2 []) free (@empty float) segs)
  end.
