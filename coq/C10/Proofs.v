(* C10 — lemmas about the parameter-expression model (coq/C10/Model.v). *)
From Coq Require Import List Arith Bool Lia.
Import ListNotations.
From SFV Require Import C10.Model.

Set Implicit Arguments.

Section Proofs.
Variable K : Type.
Variables (kadd kmul kdiv : K -> K -> K) (kneg : K -> K) (kone : K).
Variable fn1 : nat -> K -> K.
Variable fn2 : nat -> K -> K -> K.

Notation expr := (expr K).
Notation ev := (@ev K kadd kmul kdiv kneg kone fn1 fn2).

(* induction principle that goes through the element list of Arr *)
Lemma expr_ind' (P : expr -> Prop)
  (HC : forall v, P (Const v)) (HF : forall n, P (Free n)) (HM : forall k, P (Meas k))
  (HN : forall a, P a -> P (Neg a))
  (HA : forall a b, P a -> P b -> P (Add a b))
  (HMu : forall a b, P a -> P b -> P (Mul a b))
  (HD : forall a b, P a -> P b -> P (Div a b))
  (HP : forall a n, P a -> P (Pow a n))
  (H1 : forall f a, P a -> P (Fn1 f a))
  (H2 : forall f a b, P a -> P b -> P (Fn2 f a b))
  (HR : forall es, Forall P es -> P (Arr es)) : forall e, P e.
Proof.
  fix IH 1. intros e. destruct e.
  - apply HC. - apply HF. - apply HM.
  - apply HN, IH. - apply HA; apply IH. - apply HMu; apply IH. - apply HD; apply IH.
  - apply HP, IH. - apply H1, IH. - apply H2; apply IH.
  - apply HR. induction es as [|x xs IHxs]; constructor; [apply IH | exact IHxs].
Qed.

(* ---------------------------------------------------------------------------------------- *)
(* substitution commutes with evaluation *)

Lemma subst_eval : forall rho sf sm (e : expr),
  ev rho (subst sf sm e) = ev (env_override rho sf sm) e.
Proof.
  intros rho sf sm. induction e using expr_ind'; simpl.
  - reflexivity.
  - unfold override. destruct (sf n); reflexivity.
  - unfold override. destruct (sm k); reflexivity.
  - now rewrite IHe.
  - now rewrite IHe1, IHe2.
  - now rewrite IHe1, IHe2.
  - now rewrite IHe1, IHe2.
  - now rewrite IHe.
  - now rewrite IHe.
  - now rewrite IHe1, IHe2.
  - f_equal. rewrite map_map. induction H as [|x xs Hx Hxs IH]; simpl; [reflexivity|].
    now rewrite Hx, IH.
Qed.

(* complete substitution leaves a closed expression: its value no longer depends on the environment *)
Lemma subst_closed : forall sf sm (e : expr),
  (forall a, In a (atoms e) -> match a with AFree n => sf n <> None | AMeas k => sm k <> None end) ->
  atoms (subst sf sm e) = [].
Proof.
  intros sf sm. induction e using expr_ind'; simpl; intros Hb; try reflexivity.
  - specialize (Hb (AFree n) (or_introl eq_refl)). simpl in Hb. destruct (sf n); [reflexivity | congruence].
  - specialize (Hb (AMeas k) (or_introl eq_refl)). simpl in Hb. destruct (sm k); [reflexivity | congruence].
  - auto.
  - rewrite IHe1, IHe2; auto; intros; apply Hb, in_or_app; auto.
  - rewrite IHe1, IHe2; auto; intros; apply Hb, in_or_app; auto.
  - rewrite IHe1, IHe2; auto; intros; apply Hb, in_or_app; auto.
  - auto.
  - auto.
  - rewrite IHe1, IHe2; auto; intros; apply Hb, in_or_app; auto.
  - induction H as [|x xs Hx Hxs IH]; simpl; [reflexivity|].
    simpl in Hb. rewrite Hx, IH; auto; intros; apply Hb, in_or_app; auto.
Qed.

(* ---------------------------------------------------------------------------------------- *)
(* no silent default: ParameterError exactly when an atom is unbound / unmeasured *)

Lemma lift1_parerr : forall (f : value K -> res K) r,
  (forall v, f v <> ParamErr) -> (lift1 f r = ParamErr <-> r = ParamErr).
Proof. intros f r Hf. destruct r; simpl; split; intro H; try congruence; try (now apply Hf in H). Qed.

Lemma lift2_parerr : forall (f : value K -> value K -> res K) ra rb,
  (forall a b, f a b <> ParamErr) -> (lift2 f ra rb = ParamErr <-> ra = ParamErr \/ rb = ParamErr).
Proof.
  intros f ra rb Hf. destruct ra, rb; simpl; split; intro H; auto; try congruence;
    try (destruct H; congruence); try (now apply Hf in H).
Qed.

Lemma vop2_no_parerr : forall f (a b : value K), vop2 f a b <> ParamErr.
Proof. intros f [x|l1] [y|l2]; simpl; try congruence. destruct (Nat.eqb _ _); congruence. Qed.

Lemma collect_parerr : forall rs : list (res K), collect rs = ParamErr <-> In ParamErr rs.
Proof.
  induction rs as [|r rs IH]; simpl.
  - split; [congruence | tauto].
  - rewrite lift2_parerr.
    + rewrite IH. split; intros [H|H]; auto.
    + intros [x|l] [y|l']; congruence.
Qed.

Lemma ev_parerr_iff : forall rho (e : expr),
  ev rho e = ParamErr <-> exists a, In a (atoms e) /\ bound rho a = false.
Proof.
  intros rho. induction e using expr_ind'; simpl.
  - split; [congruence | intros [a [[] _]]].
  - split.
    + intro H. exists (AFree n). split; [auto|]. simpl. destruct (efree rho n); [congruence | reflexivity].
    + intros [a [[<-|[]] Hb]]. simpl in Hb. destruct (efree rho n); [congruence | reflexivity].
  - split.
    + intro H. exists (AMeas k). split; [auto|]. simpl. destruct (emeas rho k); [congruence | reflexivity].
    + intros [a [[<-|[]] Hb]]. simpl in Hb. destruct (emeas rho k); [congruence | reflexivity].
  - rewrite lift1_parerr by congruence. exact IHe.
  - rewrite lift2_parerr by apply vop2_no_parerr. rewrite IHe1, IHe2.
    split; [intros [[a [Hi Hb]]|[a [Hi Hb]]]; exists a; split; auto; apply in_or_app; auto
           | intros [a [Hi Hb]]; apply in_app_or in Hi; destruct Hi; [left|right]; exists a; auto].
  - rewrite lift2_parerr by apply vop2_no_parerr. rewrite IHe1, IHe2.
    split; [intros [[a [Hi Hb]]|[a [Hi Hb]]]; exists a; split; auto; apply in_or_app; auto
           | intros [a [Hi Hb]]; apply in_app_or in Hi; destruct Hi; [left|right]; exists a; auto].
  - rewrite lift2_parerr by apply vop2_no_parerr. rewrite IHe1, IHe2.
    split; [intros [[a [Hi Hb]]|[a [Hi Hb]]]; exists a; split; auto; apply in_or_app; auto
           | intros [a [Hi Hb]]; apply in_app_or in Hi; destruct Hi; [left|right]; exists a; auto].
  - rewrite lift1_parerr by congruence. exact IHe.
  - rewrite lift1_parerr by congruence. exact IHe.
  - rewrite lift2_parerr by apply vop2_no_parerr. rewrite IHe1, IHe2.
    split; [intros [[a [Hi Hb]]|[a [Hi Hb]]]; exists a; split; auto; apply in_or_app; auto
           | intros [a [Hi Hb]]; apply in_app_or in Hi; destruct Hi; [left|right]; exists a; auto].
  - rewrite collect_parerr. rewrite in_map_iff. split.
    + intros [x [Hx Hin]]. rewrite Forall_forall in H. apply (H x Hin) in Hx.
      destruct Hx as [a [Ha Hb]]. exists a. split; [|exact Hb]. apply in_flat_map. exists x; auto.
    + intros [a [Ha Hb]]. apply in_flat_map in Ha. destruct Ha as [x [Hin Hax]].
      exists x. split; [|exact Hin]. rewrite Forall_forall in H. apply (H x Hin). exists a; auto.
Qed.

(* ---------------------------------------------------------------------------------------- *)
(* evaluation depends only on the atoms of the expression (frame property used by scheduling:
   a command may be moved across anything that does not write the modes in deps) *)

Lemma ev_frame : forall rho rho' (e : expr),
  (forall n, In n (frees e) -> efree rho n = efree rho' n) ->
  (forall k, In k (deps e) -> emeas rho k = emeas rho' k) ->
  ev rho e = ev rho' e.
Proof.
  intros rho rho'. induction e using expr_ind'; simpl; intros Hf Hm.
  - reflexivity.
  - now rewrite (Hf n (or_introl eq_refl)).
  - now rewrite (Hm k (or_introl eq_refl)).
  - now rewrite IHe.
  - rewrite IHe1, IHe2; auto; intros; (apply Hf || apply Hm); apply in_or_app; auto.
  - rewrite IHe1, IHe2; auto; intros; (apply Hf || apply Hm); apply in_or_app; auto.
  - rewrite IHe1, IHe2; auto; intros; (apply Hf || apply Hm); apply in_or_app; auto.
  - now rewrite IHe.
  - now rewrite IHe.
  - rewrite IHe1, IHe2; auto; intros; (apply Hf || apply Hm); apply in_or_app; auto.
  - f_equal. induction H as [|x xs Hx Hxs IH]; simpl; [reflexivity|].
    simpl in Hf, Hm. rewrite Hx, IH; auto; intros; (apply Hf || apply Hm); apply in_or_app; auto.
Qed.

Lemma deps_exact : forall (e : expr) k, In k (deps e) <-> In (AMeas k) (atoms e).
Proof.
  induction e using expr_ind'; simpl; intros k0.
  - tauto.
  - split; [tauto | intros [H|[]]; discriminate].
  - split; [intros [->|[]]; auto | intros [H|[]]; inversion H; auto].
  - apply IHe.
  - rewrite !in_app_iff, IHe1, IHe2. tauto.
  - rewrite !in_app_iff, IHe1, IHe2. tauto.
  - rewrite !in_app_iff, IHe1, IHe2. tauto.
  - apply IHe.
  - apply IHe.
  - rewrite !in_app_iff, IHe1, IHe2. tauto.
  - rewrite !in_flat_map. rewrite Forall_forall in H.
    split; intros [x [Hin Hx]]; exists x; split; auto; apply (H x Hin); auto.
Qed.

Lemma frees_exact : forall (e : expr) n, In n (frees e) <-> In (AFree n) (atoms e).
Proof.
  induction e using expr_ind'; simpl; intros n0.
  - tauto.
  - split; [intros [->|[]]; auto | intros [H|[]]; inversion H; auto].
  - split; [tauto | intros [H|[]]; discriminate].
  - apply IHe.
  - rewrite !in_app_iff, IHe1, IHe2. tauto.
  - rewrite !in_app_iff, IHe1, IHe2. tauto.
  - rewrite !in_app_iff, IHe1, IHe2. tauto.
  - apply IHe.
  - apply IHe.
  - rewrite !in_app_iff, IHe1, IHe2. tauto.
  - rewrite !in_flat_map. rewrite Forall_forall in H.
    split; intros [x [Hin Hx]]; exists x; split; auto; apply (H x Hin); auto.
Qed.

End Proofs.
