(* C10 — decomposition commutes with parameter evaluation: reading the decomposition table of
   coq/C10/Model.v at expressions and then evaluating gives what the table gives on the evaluated numbers. *)
From Coq Require Import List Arith Bool Lia.
Import ListNotations.
From SFV Require Import C10.Model.

Set Implicit Arguments.

Section DecompProofs.
Variable K : Type.
Variables (kadd kmul kdiv : K -> K -> K) (kneg : K -> K) (kone : K).
Variable fn1 : nat -> K -> K.
Variable fn2 : nat -> K -> K -> K.
Variable cval : nat -> K.     (* the numeric constants of the table: 0, sqrt(2 hbar), pi/2, ... *)
Notation ev := (@ev K kadd kmul kdiv kneg kone fn1 fn2).

Definition decomp_sym : gate (expr K) -> option (list (gate (expr K))) :=
  decomp_gate (@Add K) (@Mul K) (@Div K) (@Neg K) (@Pow K) (@Fn1 K) (@Fn2 K) (fun c => Const (S (cval c))).

Definition decomp_num : gate K -> option (list (gate K)) :=
  decomp_gate kadd kmul kdiv kneg (fun x n => kpow kmul kone x n) fn1 fn2 cval.

Definition eval_gate (rho : env K) (g : gate (expr K)) : gate (res K) :=
  mkG (gcls g) (map (ev rho) (gpar g)) (gmodes g) (gdag g).

Definition inj_gate (g : gate K) : gate (res K) :=
  mkG (gcls g) (map (fun x => Ok (S x)) (gpar g)) (gmodes g) (gdag g).

Ltac solve_case :=
  simpl; unfold eval_gate, inj_gate; simpl;
  repeat match goal with H : ev _ _ = Ok _ |- _ => rewrite H; clear H end;
  simpl; reflexivity.

Lemma decomp_commutes : forall rho (ge : gate (expr K)) (gv : gate K),
  eval_gate rho ge = inj_gate gv ->
  option_map (map (eval_gate rho)) (decomp_sym ge) = option_map (map inj_gate) (decomp_num gv).
Proof.
  intros rho [c ps m d] [c' xs m' d'] H.
  unfold eval_gate, inj_gate in H; simpl in H. inversion H; subst; clear H.
  rename H2 into HP.
  unfold decomp_sym, decomp_num, decomp_gate.
  destruct ps as [|p1 [|p2 [|p3 [|p4 [|p5 ps]]]]]; destruct xs as [|x1 [|x2 [|x3 [|x4 [|x5 xs]]]]];
    simpl in HP; try discriminate HP; inversion HP; subst; clear HP;
    do 15 (destruct c' as [|c']; [destruct d'; solve_case|]); destruct d'; solve_case.
Qed.

End DecompProofs.
