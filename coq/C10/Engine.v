(* C10 — the measured-value store (RegRef.val) as written by Measurement.apply, the evaluation of
   operation parameters while one program runs, and the hand-over of measured values from one program
   segment to the next in BaseEngine._run (as written, and as the property needs it).  Definitions only. *)
From Coq Require Import List Arith Bool.
Import ListNotations.
From SFV Require Import C10.Model.

Set Implicit Arguments.

Section Engine.
Variable K : Type.
Variables (kadd kmul kdiv : K -> K -> K) (kneg : K -> K) (kone : K).
Variable fn1 : nat -> K -> K.
Variable fn2 : nat -> K -> K -> K.
Notation ev := (@ev K kadd kmul kdiv kneg kone fn1 fn2).

Definition store := nat -> option (list K).
Definition empty : store := fun _ => None.
Definition upd (s : store) (k : nat) (v : list K) : store :=
  fun j => if Nat.eqb j k then Some v else s j.

(* Measurement.apply:  for v, r in zip(np.transpose(values), reg): r.val = v *)
Fixpoint store_meas (s : store) (ks : list nat) (vs : list (list K)) : store :=
  match ks, vs with
  | k :: ks', v :: vs' => store_meas (upd s k v) ks' vs'
  | _, _ => s
  end.

Inductive event :=
| EMeas (ks : list nat) (vs : list (list K))  (* measurement of modes ks; vs = one outcome array per mode *)
| EPrep (k : nat)                             (* (re-)preparation of mode k: RegRef.val is not touched *)
| EUse (e : expr K)                           (* an operation whose parameter e is evaluated at this point *)
| EReset.                                     (* BaseEngine.reset: _clear_regrefs on the run programs *)

Definition step (free : nat -> option (value K)) (s : store) (x : event) : store * list (res K) :=
  match x with
  | EMeas ks vs => (store_meas s ks vs, [])
  | EPrep _ => (s, [])
  | EUse e => (s, [ev (mkEnv free s) e])
  | EReset => (empty, [])
  end.

(* one program segment: thread the store, collect what every use evaluated to *)
Fixpoint run_seg (free : nat -> option (value K)) (s : store) (h : list event) : store * list (res K) :=
  match h with
  | [] => (s, [])
  | x :: h' =>
      let (s1, o1) := step free s x in
      let (s2, o2) := run_seg free s1 h' in
      (s2, o1 ++ o2)
  end.

(* specification: the most recent outcome of mode k in a history *)
Fixpoint last_in (ks : list nat) (vs : list (list K)) (k : nat) (init : option (list K)) : option (list K) :=
  match ks, vs with
  | j :: ks', v :: vs' => last_in ks' vs' k (if Nat.eqb k j then Some v else init)
  | _, _ => init
  end.

Fixpoint latest (h : list event) (k : nat) (init : option (list K)) : option (list K) :=
  match h with
  | [] => init
  | EMeas ks vs :: h' => latest h' k (last_in ks vs k init)
  | EReset :: h' => latest h' k None
  | _ :: h' => latest h' k init
  end.

(* ------------------------------------------------------------------------------------------ *)
(* BaseEngine._run over several program segments (code as it is now).

   The engine keeps `self._measured_vals`: mode -> latest measured value since the backend was
   initialised; it is updated after every segment from that segment's samples_dict, cleared by reset (and
   when no program has run).  Before a later segment runs,
       for k, v in self._measured_vals.items(): if k in p.reg_refs: p.reg_refs[k].val = v
   on top of whatever the segment's Program object already holds in its RegRefs: nothing if it was
   constructed before its predecessor ran ("eager"), a deep copy of the predecessor's RegRefs including
   their values if it was constructed from the predecessor afterwards ("lazy"). *)

Definition mvals := list (nat * list K).

Fixpoint mv_lookup (l : mvals) (k : nat) : option (list K) :=
  match l with
  | [] => None
  | (j, v) :: r => if Nat.eqb k j then Some v else mv_lookup r k
  end.

(* dict update with one measurement's values, in zip order *)
Fixpoint mv_meas (l : mvals) (ks : list nat) (vs : list (list K)) : mvals :=
  match ks, vs with
  | k :: ks', v :: vs' => mv_meas ((k, v) :: l) ks' vs'
  | _, _ => l
  end.

Fixpoint mv_after (l : mvals) (h : list event) : mvals :=
  match h with
  | [] => l
  | EMeas ks vs :: h' => mv_after (mv_meas l ks vs) h'
  | EReset :: h' => mv_after [] h'
  | _ :: h' => mv_after l h'
  end.

Definition handover (base : store) (mv : mvals) : store :=
  fun k => match mv_lookup mv k with Some v => Some v | None => base k end.

Fixpoint run_segs (lazy : bool) (free : nat -> option (value K)) (s : store) (mv : mvals)
  (segs : list (list event)) : store * list (res K) :=
  match segs with
  | [] => (s, [])
  | h :: rest =>
      let (s1, o1) := run_seg free s h in
      let mv1 := mv_after mv h in
      match rest with
      | [] => (s1, o1)
      | _ => let (s2, o2) := run_segs lazy free (handover (if lazy then s1 else empty) mv1) mv1 rest in
             (s2, o1 ++ o2)
      end
  end.

(* ------------------------------------------------------------------------------------------ *)
(* The hand-over as it was before fix 711526c, kept (names *_old) so that its refutation stays checked.

   self.samples after a segment (one shot): one row holding, for the modes measured in that segment in
   ascending order, the last outcome of each.  The next segment's RegRefs then got
       for k, v in enumerate(self.samples): p.reg_refs[k].val = v
   i.e. RegRef 0 received the whole row and nothing else was set. *)

Fixpoint ins (k : nat) (v : list K) (l : list (nat * list K)) : list (nat * list K) :=
  match l with
  | [] => [(k, v)]
  | (j, w) :: r => if Nat.ltb k j then (k, v) :: l
                   else if Nat.eqb k j then (k, v) :: r
                   else (j, w) :: ins k v r
  end.

Fixpoint ins_all (ks : list nat) (vs : list (list K)) (l : list (nat * list K)) : list (nat * list K) :=
  match ks, vs with
  | k :: ks', v :: vs' => ins_all ks' vs' (ins k v l)
  | _, _ => l
  end.

(* samples_dict of _run_program restricted to last values, sorted by mode *)
Fixpoint seg_samples (h : list event) (acc : list (nat * list K)) : list (nat * list K) :=
  match h with
  | [] => acc
  | EMeas ks vs :: h' => seg_samples h' (ins_all ks vs acc)
  | _ :: h' => seg_samples h' acc
  end.

(* the single row of self.samples for one shot *)
Definition sample_row (l : list (nat * list K)) : list K := flat_map (fun kv => snd kv) l.

Definition fwd_written_old (s : store) (h : list event) : store :=
  match seg_samples h [] with
  | [] => empty
  | l => upd empty 0 (sample_row l)
  end.

Fixpoint run_segs_old (free : nat -> option (value K)) (s : store)
  (segs : list (list event)) : store * list (res K) :=
  match segs with
  | [] => (s, [])
  | h :: rest =>
      let (s1, o1) := run_seg free s h in
      match rest with
      | [] => (s1, o1)
      | _ => let (s2, o2) := run_segs_old free (fwd_written_old s1 h) rest in (s2, o1 ++ o2)
      end
  end.

(* ------------------------------------------------------------------------------------------ *)
(* Program.bind_params: the binding is processed in order; an unknown name raises ParameterError
   (leaving the earlier items bound) *)
Definition fstore := nat -> option (fpar K).     (* Program.free_params: None = no such parameter *)

Definition set_val (fs : fstore) (n : nat) (v : value K) : fstore :=
  fun m => if Nat.eqb m n then match fs n with Some p => Some (mkF (Some v) (fdefault p)) | None => None end else fs m.

Fixpoint bind_params (fs : fstore) (b : list (nat * value K)) : fstore * bool :=
  match b with
  | [] => (fs, true)
  | (n, v) :: r => match fs n with
                   | Some _ => bind_params (set_val fs n v) r
                   | None => (fs, false)       (* ParameterError("Unknown free parameter") *)
                   end
  end.

Definition free_env (fs : fstore) : nat -> option (value K) :=
  fun n => match fs n with Some p => free_value p | None => None end.

End Engine.

Arguments EPrep {K}. Arguments EReset {K}.
