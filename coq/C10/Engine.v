(* C10 — the measured-value store (RegRef.val) as written by Measurement.apply, the evaluation of
   operation parameters while one program runs, and the hand-over of measured values from one program
   segment to the next in BaseEngine._run (as written, and as the property needs it).  Definitions only. *)
From Coq Require Import List Arith Bool.
Import ListNotations.
From SFV Require Import C10.Model.

Set Implicit Arguments.

Section Engine.
Variable K : Type.
Variables (kadd kmul kdiv : K -> K -> K) (kneg : K -> K) (kone : K).
Variable fn1 : nat -> K -> K.
Variable fn2 : nat -> K -> K -> K.
Notation ev := (@ev K kadd kmul kdiv kneg kone fn1 fn2).

Definition store := nat -> option (list K).
Definition empty : store := fun _ => None.
Definition upd (s : store) (k : nat) (v : list K) : store :=
  fun j => if Nat.eqb j k then Some v else s j.

(* Measurement.apply:  for v, r in zip(np.transpose(values), reg): r.val = v *)
Fixpoint store_meas (s : store) (ks : list nat) (vs : list (list K)) : store :=
  match ks, vs with
  | k :: ks', v :: vs' => store_meas (upd s k v) ks' vs'
  | _, _ => s
  end.

Inductive event :=
| EMeas (ks : list nat) (vs : list (list K))  (* measurement of modes ks; vs = one outcome array per mode *)
| EPrep (k : nat)                             (* (re-)preparation of mode k: RegRef.val is not touched *)
| EUse (e : expr K)                           (* an operation whose parameter e is evaluated at this point *)
| EReset.                                     (* BaseEngine.reset: _clear_regrefs on the run programs *)

Definition step (free : nat -> option (value K)) (s : store) (x : event) : store * list (res K) :=
  match x with
  | EMeas ks vs => (store_meas s ks vs, [])
  | EPrep _ => (s, [])
  | EUse e => (s, [ev (mkEnv free s) e])
  | EReset => (empty, [])
  end.

(* one program segment: thread the store, collect what every use evaluated to *)
Fixpoint run_seg (free : nat -> option (value K)) (s : store) (h : list event) : store * list (res K) :=
  match h with
  | [] => (s, [])
  | x :: h' =>
      let (s1, o1) := step free s x in
      let (s2, o2) := run_seg free s1 h' in
      (s2, o1 ++ o2)
  end.

(* specification: the most recent outcome of mode k in a history *)
Fixpoint last_in (ks : list nat) (vs : list (list K)) (k : nat) (init : option (list K)) : option (list K) :=
  match ks, vs with
  | j :: ks', v :: vs' => last_in ks' vs' k (if Nat.eqb k j then Some v else init)
  | _, _ => init
  end.

Fixpoint latest (h : list event) (k : nat) (init : option (list K)) : option (list K) :=
  match h with
  | [] => init
  | EMeas ks vs :: h' => latest h' k (last_in ks vs k init)
  | EReset :: h' => latest h' k None
  | _ :: h' => latest h' k init
  end.

(* ------------------------------------------------------------------------------------------ *)
(* BaseEngine._run over several program segments.

   self.samples after a segment (one shot): one row holding, for the modes measured in that segment in
   ascending order, the last outcome of each.  The next segment's RegRefs then get
       for k, v in enumerate(self.samples): p.reg_refs[k].val = v
   i.e. RegRef 0 receives the whole row and nothing else is set. *)

Fixpoint ins (k : nat) (v : list K) (l : list (nat * list K)) : list (nat * list K) :=
  match l with
  | [] => [(k, v)]
  | (j, w) :: r => if Nat.ltb k j then (k, v) :: l
                   else if Nat.eqb k j then (k, v) :: r
                   else (j, w) :: ins k v r
  end.

Fixpoint ins_all (ks : list nat) (vs : list (list K)) (l : list (nat * list K)) : list (nat * list K) :=
  match ks, vs with
  | k :: ks', v :: vs' => ins_all ks' vs' (ins k v l)
  | _, _ => l
  end.

(* samples_dict of _run_program restricted to last values, sorted by mode *)
Fixpoint seg_samples (h : list event) (acc : list (nat * list K)) : list (nat * list K) :=
  match h with
  | [] => acc
  | EMeas ks vs :: h' => seg_samples h' (ins_all ks vs acc)
  | _ :: h' => seg_samples h' acc
  end.

(* the single row of self.samples for one shot *)
Definition sample_row (l : list (nat * list K)) : list K := flat_map (fun kv => snd kv) l.

(* what the next segment's RegRefs hold *)
Definition fwd_written (s : store) (h : list event) : store :=
  match seg_samples h [] with
  | [] => empty
  | l => upd empty 0 (sample_row l)
  end.

(* the same loop when the next Program object was constructed from its predecessor *after* that one
   ran: Program.__init__ deep-copies the parent's RegRefs including their values, then RegRef 0 is
   overwritten with the row *)
Definition fwd_written_lazy (s : store) (h : list event) : store :=
  match seg_samples h [] with
  | [] => s
  | l => upd s 0 (sample_row l)
  end.

Definition fwd_ideal (s : store) (h : list event) : store := s.

Fixpoint run_segs (fwd : store -> list event -> store) (free : nat -> option (value K)) (s : store)
  (segs : list (list event)) : store * list (res K) :=
  match segs with
  | [] => (s, [])
  | h :: rest =>
      let (s1, o1) := run_seg free s h in
      match rest with
      | [] => (s1, o1)
      | _ => let (s2, o2) := run_segs fwd free (fwd s1 h) rest in (s2, o1 ++ o2)
      end
  end.

(* ------------------------------------------------------------------------------------------ *)
(* Program.bind_params: the binding is processed in order; an unknown name raises ParameterError
   (leaving the earlier items bound) *)
Definition fstore := nat -> option (fpar K).     (* Program.free_params: None = no such parameter *)

Definition set_val (fs : fstore) (n : nat) (v : value K) : fstore :=
  fun m => if Nat.eqb m n then match fs n with Some p => Some (mkF (Some v) (fdefault p)) | None => None end else fs m.

Fixpoint bind_params (fs : fstore) (b : list (nat * value K)) : fstore * bool :=
  match b with
  | [] => (fs, true)
  | (n, v) :: r => match fs n with
                   | Some _ => bind_params (set_val fs n v) r
                   | None => (fs, false)       (* ParameterError("Unknown free parameter") *)
                   end
  end.

Definition free_env (fs : fstore) : nat -> option (value K) :=
  fun n => match fs n with Some p => free_value p | None => None end.

End Engine.

Arguments EPrep {K}. Arguments EReset {K}.
