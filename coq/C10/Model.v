(* C10 — model of strawberryfields/parameters.py (par_evaluate, par_regref_deps, MeasuredParameter /
   FreeParameter._eval_evalf), of the measured-value store written by Measurement.apply, and of the
   binding / sample forwarding done by Program.bind_params and BaseEngine._run.  Definitions only.

   Scalars are an arbitrary type K with named operations (Section variables): every theorem holds for
   every interpretation of + * / - and of the elementary-function table fn1/fn2 (so for the reals with the
   real sin, cos, exp, ... in particular); the correspondence check executes the same definitions at
   K := PrimFloat.float with fn1/fn2 := a finite table of numpy values. *)
From Coq Require Import List Arith Bool.
Import ListNotations.

Set Implicit Arguments.

Section Params.
Variable K : Type.
Variables (kadd kmul kdiv : K -> K -> K) (kneg : K -> K) (kone : K).
Variable fn1 : nat -> K -> K.          (* elementary functions, by id *)
Variable fn2 : nat -> K -> K -> K.     (* two-argument functions (atan2) *)

(* A parameter value: a number or a 1-d array of numbers *)
Inductive value := S (x : K) | V (l : list K).

(* outcome of evaluating a parameter: ParameterError is what the implementation raises for an
   unbound / unmeasured atom; ShapeErr stands for numpy's / wrap_mathfunc's ValueError on arrays of
   different length (raised when the expression is built, never silently repaired) *)
Inductive res := Ok (v : value) | ParamErr | ShapeErr.

Inductive expr :=
| Const (v : value)
| Free (n : nat)                 (* FreeParameter, by name id *)
| Meas (k : nat)                 (* MeasuredParameter of mode k *)
| Neg (a : expr)
| Add (a b : expr)
| Mul (a b : expr)
| Div (a b : expr)
| Pow (a : expr) (n : nat)
| Fn1 (f : nat) (a : expr)
| Fn2 (f : nat) (a b : expr)
| Arr (es : list expr).          (* numpy array of element expressions *)

(* FreeParameter: val / default, None = unset *)
Record fpar := mkF { fval : option value; fdefault : option value }.

(* FreeParameter._eval_evalf *)
Definition free_value (p : fpar) : option value :=
  match fval p with
  | Some v => Some v
  | None => fdefault p
  end.

(* MeasuredParameter._eval_evalf: np.squeeze(res).item() for one element, np.squeeze(res) otherwise *)
Definition squeeze (l : list K) : value :=
  match l with
  | [x] => S x
  | _ => V l
  end.

(* environment: free parameters (None = no such parameter / unbound without default is decided by
   free_value) and the measured store RegRef.val (None = not measured) *)
Record env := mkEnv { efree : nat -> option value; emeas : nat -> option (list K) }.

Definition env_of (fp : nat -> fpar) (st : nat -> option (list K)) : env :=
  mkEnv (fun n => free_value (fp n)) st.

Fixpoint kpow (x : K) (n : nat) : K :=
  match n with
  | O => kone
  | Datatypes.S m => kmul (kpow x m) x
  end.

Fixpoint zipw (f : K -> K -> K) (l1 l2 : list K) : list K :=
  match l1, l2 with
  | x :: r1, y :: r2 => f x y :: zipw f r1 r2
  | _, _ => []
  end.

Definition vmap (f : K -> K) (v : value) : value :=
  match v with
  | S x => S (f x)
  | V l => V (map f l)
  end.

(* numpy broadcasting of a binary operation over scalars and 1-d arrays *)
Definition vop2 (f : K -> K -> K) (a b : value) : res :=
  match a, b with
  | S x, S y => Ok (S (f x y))
  | S x, V l => Ok (V (map (f x) l))
  | V l, S y => Ok (V (map (fun x => f x y) l))
  | V l1, V l2 => if Nat.eqb (length l1) (length l2) then Ok (V (zipw f l1 l2)) else ShapeErr
  end.

(* ParameterError dominates: the implementation evaluates every atom before computing anything *)
Definition lift1 (f : value -> res) (r : res) : res :=
  match r with
  | Ok v => f v
  | ParamErr => ParamErr
  | ShapeErr => ShapeErr
  end.

Definition lift2 (f : value -> value -> res) (ra rb : res) : res :=
  match ra, rb with
  | ParamErr, _ => ParamErr
  | _, ParamErr => ParamErr
  | ShapeErr, _ => ShapeErr
  | _, ShapeErr => ShapeErr
  | Ok a, Ok b => f a b
  end.

(* collect the elements of an array expression: every element must be a scalar *)
Fixpoint collect (rs : list res) : res :=
  match rs with
  | [] => Ok (V [])
  | r :: rest =>
      lift2 (fun a b => match a, b with
                        | S x, V l => Ok (V (x :: l))
                        | _, _ => ShapeErr
                        end) r (collect rest)
  end.

Section Eval.
Variable rho : env.

(* par_evaluate on one parameter *)
Fixpoint ev (e : expr) : res :=
  match e with
  | Const v => Ok v
  | Free n => match efree rho n with Some v => Ok v | None => ParamErr end
  | Meas k => match emeas rho k with Some l => Ok (squeeze l) | None => ParamErr end
  | Neg a => lift1 (fun v => Ok (vmap kneg v)) (ev a)
  | Add a b => lift2 (vop2 kadd) (ev a) (ev b)
  | Mul a b => lift2 (vop2 kmul) (ev a) (ev b)
  | Div a b => lift2 (vop2 kdiv) (ev a) (ev b)
  | Pow a n => lift1 (fun v => Ok (vmap (fun x => kpow x n) v)) (ev a)
  | Fn1 f a => lift1 (fun v => Ok (vmap (fn1 f) v)) (ev a)
  | Fn2 f a b => lift2 (vop2 (fn2 f)) (ev a) (ev b)
  | Arr es => collect (map ev es)
  end.
End Eval.

(* What is known about the shape of a parameter when the expression is *built*: numpy broadcasts
   array nodes / array constants at construction and wrap_mathfunc insists that the arguments of a
   multi-argument function are either all arrays of one length or all scalars; symbols count as scalars.
   None = the construction raises ValueError (or builds a nested array, which is not modelled). *)
Inductive shp := Sc | Ar (n : nat).

Definition shp_bin (a b : option shp) : option shp :=
  match a, b with
  | Some Sc, Some s => Some s
  | Some s, Some Sc => Some s
  | Some (Ar n), Some (Ar m) => if Nat.eqb n m then Some (Ar n) else None
  | _, _ => None
  end.

Definition shp_fn2 (a b : option shp) : option shp :=
  match a, b with
  | Some Sc, Some Sc => Some Sc
  | Some (Ar n), Some (Ar m) => if Nat.eqb n m then Some (Ar n) else None
  | _, _ => None
  end.

Fixpoint sshape (e : expr) : option shp :=
  match e with
  | Const (S _) => Some Sc
  | Const (V l) => Some (Ar (length l))
  | Free _ | Meas _ => Some Sc
  | Neg a | Pow a _ | Fn1 _ a => sshape a
  | Add a b | Mul a b | Div a b => shp_bin (sshape a) (sshape b)
  | Fn2 _ a b => shp_fn2 (sshape a) (sshape b)
  | Arr es => if forallb (fun x => match sshape x with Some Sc => true | _ => false end) es
              then Some (Ar (length es)) else None
  end.

(* atoms *)
Inductive atom := AFree (n : nat) | AMeas (k : nat).

Fixpoint atoms (e : expr) : list atom :=
  match e with
  | Const _ => []
  | Free n => [AFree n]
  | Meas k => [AMeas k]
  | Neg a | Pow a _ | Fn1 _ a => atoms a
  | Add a b | Mul a b | Div a b | Fn2 _ a b => atoms a ++ atoms b
  | Arr es => flat_map atoms es
  end.

(* par_regref_deps: indices of the modes the parameter depends on through MeasuredParameter atoms
   (object arrays are traversed elementwise) *)
Fixpoint deps (e : expr) : list nat :=
  match e with
  | Const _ | Free _ => []
  | Meas k => [k]
  | Neg a | Pow a _ | Fn1 _ a => deps a
  | Add a b | Mul a b | Div a b | Fn2 _ a b => deps a ++ deps b
  | Arr es => flat_map deps es
  end.

Fixpoint frees (e : expr) : list nat :=
  match e with
  | Const _ | Meas _ => []
  | Free n => [n]
  | Neg a | Pow a _ | Fn1 _ a => frees a
  | Add a b | Mul a b | Div a b | Fn2 _ a b => frees a ++ frees b
  | Arr es => flat_map frees es
  end.

Definition bound (rho : env) (a : atom) : bool :=
  match a with
  | AFree n => match efree rho n with Some _ => true | None => false end
  | AMeas k => match emeas rho k with Some _ => true | None => false end
  end.

(* substitution of numeric values for atoms: sf / sm give the values to substitute (None = leave) *)
Fixpoint subst (sf : nat -> option value) (sm : nat -> option (list K)) (e : expr) : expr :=
  match e with
  | Const v => Const v
  | Free n => match sf n with Some v => Const v | None => Free n end
  | Meas k => match sm k with Some l => Const (squeeze l) | None => Meas k end
  | Neg a => Neg (subst sf sm a)
  | Add a b => Add (subst sf sm a) (subst sf sm b)
  | Mul a b => Mul (subst sf sm a) (subst sf sm b)
  | Div a b => Div (subst sf sm a) (subst sf sm b)
  | Pow a n => Pow (subst sf sm a) n
  | Fn1 f a => Fn1 f (subst sf sm a)
  | Fn2 f a b => Fn2 f (subst sf sm a) (subst sf sm b)
  | Arr es => Arr (map (subst sf sm) es)
  end.

Definition override {A} (f g : nat -> option A) : nat -> option A :=
  fun n => match g n with Some v => Some v | None => f n end.

Definition env_override (rho : env) (sf : nat -> option value) (sm : nat -> option (list K)) : env :=
  mkEnv (override (efree rho) sf) (override (emeas rho) sm).

(* ------------------------------------------------------------------------------------------ *)
(* Decompositions whose parameters are computed from the input parameters (ops.py).  A gate is
   (class id, parameter list, mode list, dagger); the table is generic in the parameter type and in
   the operations on it, so the same table is read at expressions (what Operation._decompose does
   with symbolic parameters) and at values (what it does with numbers). *)
Section Decomp.
Variable P : Type.
Variables (padd pmul pdiv : P -> P -> P) (pneg : P -> P) (ppow : P -> nat -> P).
Variables (pfn1 : nat -> P -> P) (pfn2 : nat -> P -> P -> P).
Variable pconst : nat -> P.   (* named numeric constants: see const ids below *)

Record gate := mkG { gcls : nat; gpar : list P; gmodes : list nat; gdag : bool }.

(* class ids *)
Definition cDgate := 0. Definition cXgate := 1. Definition cZgate := 2. Definition cSgate := 3.
Definition cRgate := 4. Definition cPgate := 5. Definition cBSgate := 6. Definition cMZgate := 7.
Definition csMZgate := 8. Definition cS2gate := 9. Definition cCXgate := 10. Definition cCZgate := 11.
Definition cFourier := 12. Definition cDispSq := 13. Definition cSqueezed := 14.
(* constant ids *)
Definition k0 := 0. Definition kSqrt2hbar := 1. Definition kPi2 := 2. Definition kPi4 := 3.
Definition kTwo := 4. Definition kOne := 5. Definition kHalf := 6. Definition kNegPi2 := 7.
Definition kNegOne := 8.
(* function ids (shared with the harness table FN_IDS) *)
Definition fAtan := 6. Definition fAsinh := 7. Definition fSign := 9. Definition fCosh := 4.
Definition fTanh := 3. Definition fSqrt := 10. Definition fAcosh := 11. Definition fAtan2 := 12.

Definition nthm (l : list nat) (i : nat) : list nat :=
  match nth_error l i with Some m => [m] | None => [] end.

(* Operation._decompose of the listed classes, one level (Gate.decompose's dagger handling is
   decomp_gate below) *)
Definition decomp1 (g : gate) : option (list gate) :=
  let m := gmodes g in
  match gcls g, gpar g with
  | 1, [x] =>   (* Xgate: Dgate(x / sqrt(2 hbar), 0) *)
      Some [mkG cDgate [pdiv x (pconst kSqrt2hbar); pconst k0] m false]
  | 2, [p] =>   (* Zgate: Dgate(p / sqrt(2 hbar), pi/2) *)
      Some [mkG cDgate [pdiv p (pconst kSqrt2hbar); pconst kPi2] m false]
  | 5, [s] =>   (* Pgate: temp = s/2; r = acosh(sqrt(1+temp^2)); theta = atan(temp); phi = -pi/2*sign(temp) - theta *)
      let temp := pdiv s (pconst kTwo) in
      let r := pfn1 fAcosh (pfn1 fSqrt (padd (pconst kOne) (ppow temp 2))) in
      let theta := pfn1 fAtan temp in
      let phi := padd (pmul (pconst kNegPi2) (pfn1 fSign temp)) (pneg theta) in
      Some [mkG cSgate [r; phi] m false; mkG cRgate [theta] m false]
  | 7, [phi_in; phi_ex] =>  (* MZgate *)
      Some [mkG cRgate [phi_ex] (nthm m 0) false;
            mkG cBSgate [pconst kPi4; pconst kPi2] m false;
            mkG cRgate [phi_in] (nthm m 0) false;
            mkG cBSgate [pconst kPi4; pconst kPi2] m false]
  | 8, [phi_in; phi_ex] =>  (* sMZgate *)
      Some [mkG cBSgate [pconst kPi4; pconst kPi2] m false;
            mkG cRgate [padd phi_ex (pconst kNegPi2)] (nthm m 1) false;
            mkG cRgate [padd phi_in (pconst kNegPi2)] (nthm m 0) false;
            mkG cBSgate [pconst kPi4; pconst kPi2] m false]
  | 9, [r; phi] =>  (* S2gate *)
      Some [mkG cBSgate [pconst kPi4; pconst k0] m false;
            mkG cSgate [r; phi] (nthm m 0) false;
            mkG cSgate [r; phi] (nthm m 1) true;
            mkG cBSgate [pconst kPi4; pconst k0] m true]
  | 10, [s] =>  (* CXgate: r = asinh(-s/2); theta = 0.5*atan2(-1/cosh(r), -tanh(r)) *)
      let r := pfn1 fAsinh (pdiv (pneg s) (pconst kTwo)) in
      let theta := pmul (pconst kHalf) (pfn2 fAtan2 (pdiv (pconst kNegOne) (pfn1 fCosh r)) (pneg (pfn1 fTanh r))) in
      Some [mkG cBSgate [theta; pconst k0] m false;
            mkG cSgate [r; pconst k0] (nthm m 0) false;
            mkG cSgate [pneg r; pconst k0] (nthm m 1) false;
            mkG cBSgate [padd theta (pconst kPi2); pconst k0] m false]
  | 11, [s] =>  (* CZgate *)
      Some [mkG cRgate [pconst kNegPi2] (nthm m 1) false;
            mkG cCXgate [s] m false;
            mkG cRgate [pconst kPi2] (nthm m 1) false]
  | 12, [_] =>  (* Fouriergate *)
      Some [mkG cRgate [pconst kPi2] m false]
  | 13, [rd; phid; rs; phis] =>  (* DisplacedSqueezed *)
      Some [mkG cSqueezed [rs; phis] m false; mkG cDgate [rd; phid] m false]
  | _, _ => None
  end.

(* Gate.decompose: flip the dagger of every produced command and reverse the list when daggered *)
Definition decomp_gate (g : gate) : option (list gate) :=
  match decomp1 g with
  | None => None
  | Some seq =>
      if gdag g then Some (rev (map (fun c => mkG (gcls c) (gpar c) (gmodes c) (negb (gdag c))) seq))
      else Some seq
  end.
End Decomp.

End Params.

Arguments Const {K}. Arguments Free {K}. Arguments Meas {K}. Arguments Neg {K}. Arguments Add {K}.
Arguments Mul {K}. Arguments Div {K}. Arguments Pow {K}. Arguments Fn1 {K}. Arguments Fn2 {K}.
Arguments Arr {K}. Arguments ParamErr {K}. Arguments ShapeErr {K}.
